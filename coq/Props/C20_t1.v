(* C20 — EBCOT tier-1 block coder part.  Property-level theorems in Props format; the integrator
   merges these into Props/C20.v (add T1.T1Store T1.T1Ctx T1.T1CtxProofs T1.T1Model T1.T1Bytes
   T1.T1ProofsBase T1.T1ProofsSample T1.T1ProofsPass T1.T1ProofsSeq T1.T1ProofsFinal
   T1.T1ProofsOj T1.T1ProofsBytes T1.T1ProofsSim T1.T1ProofsMqRt T1.T1ProofsComp T1.T1ProofsCompThm
   T1.T1ProofsRestart T1.T1ProofsTermEnc T1.T1ProofsTermall T1.T1ProofsPterm T1.T1ProofsLazyEnc
   T1.T1ProofsLazyTerm T1.T1ProofsLazyMq T1.T1ProofsLazyEnc2 T1.T1ProofsLazyLayered T1.T1ProofsLazyNorm
   T1.T1ProofsLazyDec T1.T1ProofsLazy to its Require line; Require V.MQ.MqProofsSeg).

   STATUS
   * Context tables = ISO/IEC 15444-1 Annex D (Tables D.1 - D.4): COMPLETE, over every entry of
     the regenerated tables and every flag word (re-proved on every run against Gen/T1Tables_gen.v).
   * t1_lockstep (ideal decision channel): COMPLETE and UNBOUNDED - every block size (naturals
     w, h; not only 1..64), every integer orientation and style word (hence all 64 style
     combinations), every fractional-bit count fb >= 0, every pass count np, every coefficient
     with |v| < 2^31.  No reference to the arithmetic coder.
   * Bytes through the real coder models (t1_roundtrip = DecodeLayeredWithMode(EncodeLayered(block),
     Rate values) on the models): PROVED for ALL 64 style combinations, unbounded in block size,
     orientation, coefficients and fb (C20_t1_bytes_roundtrip_all_styles, C20_t1_roundtrip):
       - no LAZY, no TERMALL: one MQ codeword; RESET, VSC, SEGSYM, PTERM in any combination;
       - TERMALL with or without LAZY: one segment per pass (MQ codeword after RestartInitEnc, or
         raw bits), Rate values delimit the segments;
       - LAZY without TERMALL: one MQ codeword for the passes down to bit-plane maxBitplane-3
         (several passes, context resets in between with RESET), then per bit-plane a raw segment
         of two passes (significance + refinement) and a cleanup codeword; the Rate values of the
         passes that end a segment survive normalizePassRates, those of the other passes are
         never used by the decoder; the decoder's segment look-ahead finds exactly these ends;
         with at most three coded bit-planes and fb > 0 the single codeword is closed by the
         final Flush and the clipped Rate of the last pass is the stream length.
     The only hypothesis besides the coefficient domain: the stream EncodeLayered returns is not
     empty (the decoder rejects empty data).  It is PROVED for every style without PTERM (32
     combinations, every fb: C20_t1_bytes_roundtrip_no_pterm) and for PTERM without LAZY and
     TERMALL when fb >= 1 (8 more: C20_t1_bytes_roundtrip_unconditional).  For PTERM on a
     terminated pass it is not derivable from the MQ invariants: GetBuffer does not count a final
     byte 0xFF, so a codeword closed by ErtermEnc can be empty as far as they go (mq area:
     mq_erterm_segment_refuted); no such T1 stream was found (all decision sequences of length
     <= 6 over the T1 start contexts; harness runs).
     Composition = t1_lockstep + the mq area's joint encoder/decoder simulation (extended here to
     context resets between passes, RestartInitEnc segments, ErtermEnc, several passes in one
     codeword with the final contexts) + the mq area's raw segment theorem + one generic
     channel-simulation lemma for the decoder model.
     C20_t1_roundtrip_statement (the same without the non-emptiness hypothesis) stays a
     Definition; all 64 styles are also decided by computation on the bounded domains below and
     exercised by the correspondence run / Go oracle.
   * Truncated pass counts: C20_t1_truncation_statement (Definition; not proved; false as coded
     when the pass count stops on a non-terminated bypass pass - excluded in the statement).

   NOTES
   * Finding F18 (fixed in /repo b319f17): before the fix the decoder ran bypass passes on the
     live MQ decoder state when the style had LAZY without TERMALL; 1x1 block [16], style 0x01
     decoded as 18.  C20_t1_F18_witness_now_round_trips is that input on the model of the
     repaired decoder.
   * Non-conformance outside the property: the style bit 0x08 (vertically causal context
     formation, Annex D.7) is ignored by BOTH t1.Encoder and t1.Decoder - there is no stripe-causal
     code in jpeg2000/t1.  The round trip is unaffected (the model ignores the bit as the code
     does), but streams from other encoders using VSC would be decoded with the wrong contexts. *)
From V Require Import Common.Base T1.T1Store T1.T1Ctx T1.T1CtxProofs T1.T1Model T1.T1Bytes
  T1.T1ProofsBase T1.T1ProofsSample T1.T1ProofsPass T1.T1ProofsSeq T1.T1ProofsFinal T1.T1ProofsOj T1.T1ProofsBytes
  T1.T1ProofsSim T1.T1ProofsMqRt T1.T1ProofsComp T1.T1ProofsCompThm T1.T1ProofsRestart T1.T1ProofsTermEnc T1.T1ProofsTermall
  T1.T1ProofsPterm T1.T1ProofsLazyEnc T1.T1ProofsLazyTerm T1.T1ProofsLazyMq T1.T1ProofsLazyEnc2 T1.T1ProofsLazyLayered
  T1.T1ProofsLazyNorm T1.T1ProofsLazyDec T1.T1ProofsLazy.
Require V.Gen.T1Tables_gen V.MQ.MqProofsSeg.

(* ---------------------------------------------------------------------------------------
   Context formation = Annex D
   --------------------------------------------------------------------------------------- *)
(* lutCtxnoZc[orient*512 + i] = Table D.1 for the neighbourhood encoded by the 9-bit index i *)
Theorem C20_t1_lut_zc_matches_annexD : forall o i, 0 <= o < 4 -> 0 <= i < 512 ->
  znth T1Tables_gen.t1_lut_zc (o * 512 + i) 0 = annexD_zc o (nbhd_of_zc_index i).
Proof. exact lut_zc_matches_annexD. Qed.
Print Assumptions C20_t1_lut_zc_matches_annexD.

Example C20_t1_lut_zc_instance :
  0 <= 1 < 4 /\ 0 <= 8 < 512 /\ znth T1Tables_gen.t1_lut_zc (1 * 512 + 8) 0 = 3 /\
  annexD_zc 1 (nbhd_of_zc_index 8) = 3 /\ znth T1Tables_gen.t1_lut_zc (0 * 512 + 8) 0 = 5.
Proof. vm_compute. repeat split; discriminate. Qed.

(* lutCtxnoSc[i] = Table D.3 context, lutSpb[i] = Table D.3 XOR bit, with the Table D.2
   contributions of the (significance, sign) state encoded by the 8-bit index i *)
Theorem C20_t1_lut_sc_matches_annexD : forall i, 0 <= i < 256 ->
  znth T1Tables_gen.t1_lut_sc i 0 = annexD_sc (nbhd_of_sc_index i).
Proof. exact lut_sc_matches_annexD. Qed.
Print Assumptions C20_t1_lut_sc_matches_annexD.

Theorem C20_t1_lut_spb_matches_annexD : forall i, 0 <= i < 256 ->
  znth T1Tables_gen.t1_lut_spb i 0 = annexD_xor (nbhd_of_sc_index i).
Proof. exact lut_spb_matches_annexD. Qed.
Print Assumptions C20_t1_lut_spb_matches_annexD.

Example C20_t1_lut_sc_instance :
  0 <= 9 < 256 /\ znth T1Tables_gen.t1_lut_sc 9 0 = 12 /\ znth T1Tables_gen.t1_lut_spb 9 0 = 1 /\
  annexD_hc (nbhd_of_sc_index 9) = -1.
Proof. vm_compute. repeat split; discriminate. Qed.

(* the Go functions on the flag word (as called by the executable model, through the tries):
   getZeroCodingContext / getSignCodingContext / getSignPrediction / getMagRefinementContext *)
Theorem C20_t1_zc_context_is_annexD : forall f o, 0 <= o < 4 -> zc_ctx_t f o = annexD_zc o (nbhd_of_flags f).
Proof. exact model_zc_is_annexD. Qed.
Print Assumptions C20_t1_zc_context_is_annexD.

Theorem C20_t1_sc_context_is_annexD : forall f, sc_ctx_t f = annexD_sc (nbhd_of_flags f).
Proof. exact model_sc_is_annexD. Qed.
Print Assumptions C20_t1_sc_context_is_annexD.

Theorem C20_t1_sign_prediction_is_annexD : forall f, spb_t f = annexD_xor (nbhd_of_flags f).
Proof. exact model_spb_is_annexD. Qed.
Print Assumptions C20_t1_sign_prediction_is_annexD.

Theorem C20_t1_mr_context_is_annexD : forall f,
  mr_ctx f = annexD_mr (negb (has f T1Refine)) (nbhd_of_flags f).
Proof. exact mr_ctx_matches_annexD. Qed.
Print Assumptions C20_t1_mr_context_is_annexD.

Example C20_t1_flag_context_instance :
  0 <= 3 < 4 /\ zc_ctx_t (T1SigN + T1SigSE + T1SignN) 3 = 4 /\ sc_ctx_t (T1SigN + T1SigSE + T1SignN) = 10 /\
  spb_t (T1SigN + T1SigSE + T1SignN) = 1 /\ mr_ctx (T1SigSE) = 15.
Proof. vm_compute. repeat split; discriminate. Qed.

(* ---------------------------------------------------------------------------------------
   Lockstep over the ideal decision channel
   --------------------------------------------------------------------------------------- *)
(* For every block, orientation, style, fractional-bit count fb and pass count np: the decoder
   model, run on the symbol lists the encoder model emitted for the first np passes,
   (a) succeeds and leaves the channel empty.  The ideal channel returns Err as soon as a
       requested (kind, context) differs from the next recorded symbol, a pass starts before the
       previous pass's symbols are used up, or symbols are missing - so the decoder asked for
       exactly the encoder's (kind, ctx) sequence, pass by pass;
   (b) ends with the encoder's flags and, for each sample, the encoder's coefficient truncated to
       the bit-planes coded so far for that sample (plane_after: after a significance pass on
       plane bp the samples that pass coded are down to bp and the others at bp+1; after the
       refinement pass every significant sample is down to bp; after the cleanup pass all are). *)
Theorem C20_t1_lockstep : forall (wn hn : nat) (orient style fb np : Z) (data : list Z),
  length data = (wn * hn)%nat -> data_ok data -> 0 <= fb ->
  let maxbp := find_max_bitplane data in
  let V := pad_data wn hn data in
  let pl := pass_list maxbp fb np in
  let syms := snd (enc_syms wn hn orient style fb np data) in
  let F' := enc_final_flags wn hn orient style maxbp V pl true Leaf in
  exists D',
    dec_ideal wn hn orient style maxbp false syms = Ok ((F', D'), ([], [])) /\
    forall x y, 0 <= x < Z.of_nat wn -> 0 <= y < Z.of_nat hn ->
      fget D' (idx_of (Z.of_nat wn) x y) =
      match pl with
      | [] => 0
      | _ => trunc (nth (Z.to_nat (y * Z.of_nat wn + x)) data 0)
                   (plane_after (Z.of_nat wn) (last pl (0, 0)) F' x y)
      end.
Proof. exact t1_lockstep. Qed.
Print Assumptions C20_t1_lockstep.

(* Part (a) for either reconstruction mode (oj = SetOpenJPEGReconstruction): the decoder asks for
   the encoder's (kind, ctx) sequence and ends with the encoder's flags; the mode only changes the
   reconstructed values (T1ProofsOj.dec_passes_sim: for any channel). *)
Theorem C20_t1_lockstep_flags_any_reconstruction :
  forall (wn hn : nat) (orient style fb np : Z) (data : list Z) (oj : bool),
  length data = (wn * hn)%nat -> data_ok data -> 0 <= fb ->
  let maxbp := find_max_bitplane data in
  let syms := snd (enc_syms wn hn orient style fb np data) in
  exists D',
    dec_ideal wn hn orient style maxbp oj syms =
    Ok ((enc_final_flags wn hn orient style maxbp (pad_data wn hn data) (pass_list maxbp fb np) true Leaf, D'), ([], [])).
Proof. exact t1_lockstep_flags_oj. Qed.
Print Assumptions C20_t1_lockstep_flags_any_reconstruction.

(* a truncated run: 2x2 block, HH orientation, style LAZY|SEGSYM, 4 of the 10 passes *)
Example C20_t1_lockstep_instance :
  length [5; -3; 0; 9] = (2 * 2)%nat /\ data_ok [5; -3; 0; 9] /\ 0 <= 0 /\
  pass_list (find_max_bitplane [5; -3; 0; 9]) 0 4 = [(3, 2); (2, 0); (2, 1); (2, 2)] /\
  map (@length sym) (snd (enc_syms 2 2 3 33 0 4 [5; -3; 0; 9])) = [9; 4; 1; 4]%nat /\
  (match dec_ideal 2 2 3 33 3 false (snd (enc_syms 2 2 3 33 0 4 [5; -3; 0; 9])) with
   | Ok (st, c) => Some (get_data 2 2 (snd st), c) | _ => None end) = Some ([4; 0; 0; 8], ([], [])).
Proof.
  split; [reflexivity|]. split; [intros v Hv; cbn in Hv; lia|]. split; [lia|].
  vm_compute. repeat split.
Qed.

(* all 3*planes-2 passes (or more) coded: every sample is the coefficient truncated to the
   planes >= fb *)
Theorem C20_t1_lockstep_all_passes : forall (wn hn : nat) (orient style fb np : Z) (data : list Z),
  length data = (wn * hn)%nat -> data_ok data -> 0 <= fb ->
  let maxbp := find_max_bitplane data in
  3 * (maxbp - fb + 1) - 2 <= np ->
  let syms := snd (enc_syms wn hn orient style fb np data) in
  exists st,
    dec_ideal wn hn orient style maxbp false syms = Ok (st, ([], [])) /\
    forall x y, 0 <= x < Z.of_nat wn -> 0 <= y < Z.of_nat hn ->
      fget (snd st) (idx_of (Z.of_nat wn) x y) =
      if maxbp <? fb then 0 else trunc (nth (Z.to_nat (y * Z.of_nat wn + x)) data 0) fb.
Proof. exact t1_lockstep_all_passes. Qed.
Print Assumptions C20_t1_lockstep_all_passes.

(* ... hence the decoder model returns the block given to the encoder model (GetData list),
   when the coefficients are multiples of 2^fb (fb = 0: any coefficients) *)
Theorem C20_t1_ideal_roundtrip : forall (wn hn : nat) (orient style fb np : Z) (data : list Z),
  length data = (wn * hn)%nat -> data_ok data -> 0 <= fb ->
  (forall v, In v data -> exists c, v = c * 2 ^ fb) ->
  let maxbp := find_max_bitplane data in
  3 * (maxbp - fb + 1) - 2 <= np ->
  exists st,
    dec_ideal wn hn orient style maxbp false (snd (enc_syms wn hn orient style fb np data)) = Ok (st, ([], [])) /\
    get_data wn hn (snd st) = data.
Proof. exact t1_ideal_roundtrip. Qed.
Print Assumptions C20_t1_ideal_roundtrip.

Example C20_t1_ideal_roundtrip_instance :
  length [5 * 64; -3 * 64; 0; 9 * 64; 2 ^ 30; - 2 ^ 30] = (2 * 3)%nat /\
  data_ok [5 * 64; -3 * 64; 0; 9 * 64; 2 ^ 30; - 2 ^ 30] /\ 0 <= 6 /\
  (forall v, In v [5 * 64; -3 * 64; 0; 9 * 64; 2 ^ 30; - 2 ^ 30] -> exists c, v = c * 2 ^ 6) /\
  find_max_bitplane [5 * 64; -3 * 64; 0; 9 * 64; 2 ^ 30; - 2 ^ 30] = 30 /\
  3 * (30 - 6 + 1) - 2 <= 73 /\
  length (snd (enc_syms 2 3 1 63 6 73 [5 * 64; -3 * 64; 0; 9 * 64; 2 ^ 30; - 2 ^ 30])) = 73%nat.
Proof.
  split; [reflexivity|]. split; [intros v Hv; cbn in Hv; lia|]. split; [lia|].
  split.
  { intros v Hv. cbn [In] in Hv.
    destruct Hv as [<-|[<-|[<-|[<-|[<-|[<-|[]]]]]]];
      [exists 5|exists (-3)|exists 0|exists 9|exists (2 ^ 24)|exists (- 2 ^ 24)]; reflexivity. }
  vm_compute. repeat split; discriminate.
Qed.

(* ---------------------------------------------------------------------------------------
   Bytes: composition statement and bounded instances
   --------------------------------------------------------------------------------------- *)
(* THE T1 CLAUSE ON THE MODELS, all styles: the block decoder returns the block from the block
   encoder's bytes and Rate values.  Definition only (no hypothesis on the stream); proved for
   all 64 styles as C20_t1_roundtrip below, where styles with PTERM carry the hypothesis that
   the stream is not empty. *)
Definition C20_t1_roundtrip_statement : Prop := t1_roundtrip_statement.

(* default style 0: one MQ codeword, normal flush *)
Theorem C20_t1_bytes_roundtrip_default : forall (wn hn : nat) (orient fb : Z) (data : list Z),
  length data = (wn * hn)%nat -> data_ok data -> 0 <= fb ->
  (forall v, In v data -> exists c, v = c * 2 ^ fb) ->
  t1_roundtrip wn hn orient 0 fb data = Ok data.
Proof. exact t1_bytes_roundtrip_default. Qed.
Print Assumptions C20_t1_bytes_roundtrip_default.

(* any combination of RESET (context reset after every pass, still one codeword), VSC (ignored
   by the code) and SEGSYM (four extra decisions per cleanup pass) *)
Theorem C20_t1_bytes_roundtrip_single_codeword :
  forall (wn hn : nat) (orient style fb : Z) (data : list Z),
  Z.land style 21 = 0 ->
  length data = (wn * hn)%nat -> data_ok data -> 0 <= fb ->
  (forall v, In v data -> exists c, v = c * 2 ^ fb) ->
  t1_roundtrip wn hn orient style fb data = Ok data.
Proof. exact t1_bytes_roundtrip_single_codeword. Qed.
Print Assumptions C20_t1_bytes_roundtrip_single_codeword.

(* TERMALL without PTERM, with or without LAZY (one segment per pass: MQ codeword after
   FlushToOutput + RestartInitEnc, or raw bits after BypassFlushEnc; the Rate values delimit the
   segments; contexts carried over or reset), with any of RESET, VSC, SEGSYM *)
Theorem C20_t1_bytes_roundtrip_termall :
  forall (wn hn : nat) (orient style fb : Z) (data : list Z),
  Z.land style 4 <> 0 -> Z.land style 16 = 0 ->
  length data = (wn * hn)%nat -> data_ok data -> 0 <= fb ->
  (forall v, In v data -> exists c, v = c * 2 ^ fb) ->
  t1_roundtrip wn hn orient style fb data = Ok data.
Proof. exact t1_bytes_roundtrip_lazyterm. Qed.
Print Assumptions C20_t1_bytes_roundtrip_termall.

(* PTERM without LAZY / TERMALL when bit-plane 0 is not coded (fb >= 1; the top-level encoder
   uses fb = 6): no pass is terminated, the stream ends with the ordinary Flush *)
Theorem C20_t1_bytes_roundtrip_pterm_fb :
  forall (wn hn : nat) (orient style fb : Z) (data : list Z),
  Z.land style 5 = 0 ->
  length data = (wn * hn)%nat -> data_ok data -> 1 <= fb ->
  (forall v, In v data -> exists c, v = c * 2 ^ fb) ->
  t1_roundtrip wn hn orient style fb data = Ok data.
Proof. exact t1_bytes_roundtrip_single_codeword_fb. Qed.
Print Assumptions C20_t1_bytes_roundtrip_pterm_fb.

(* the classes above together (stream proved non-empty) *)
Theorem C20_t1_bytes_roundtrip_unconditional :
  forall (wn hn : nat) (orient style fb : Z) (data : list Z),
  style_unconditional style fb ->
  length data = (wn * hn)%nat -> data_ok data -> 0 <= fb ->
  (forall v, In v data -> exists c, v = c * 2 ^ fb) ->
  t1_roundtrip wn hn orient style fb data = Ok data.
Proof. exact t1_bytes_roundtrip_unconditional. Qed.
Print Assumptions C20_t1_bytes_roundtrip_unconditional.

(* every style with TERMALL or without LAZY (48 of 64), including PTERM on terminated passes
   (ErtermEnc), provided the encoder's output is not empty *)
Theorem C20_t1_bytes_roundtrip_covered :
  forall (wn hn : nat) (orient style fb : Z) (data : list Z),
  Z.land style 4 <> 0 \/ Z.land style 1 = 0 ->
  length data = (wn * hn)%nat -> data_ok data -> 0 <= fb ->
  (forall v, In v data -> exists c, v = c * 2 ^ fb) ->
  (forall mb ps bytes,
     enc_layered wn hn orient style fb (3 * (find_max_bitplane data - fb + 1) - 2) data = Ok (mb, ps, bytes) ->
     ps <> [] -> bytes <> []) ->
  t1_roundtrip wn hn orient style fb data = Ok data.
Proof. exact t1_bytes_roundtrip_covered. Qed.
Print Assumptions C20_t1_bytes_roundtrip_covered.

(* the hypothesis of _covered holds on a concrete PTERM|TERMALL|LAZY stream *)
Example C20_t1_bytes_roundtrip_covered_instance :
  (Z.land 21 4 <> 0 \/ Z.land 21 1 = 0) /\
  (match enc_layered 1 1 0 21 0 13 [17] with
   | Ok (mb, ps, bytes) => Some (mb, length ps, forallb p_term ps, bytes) | _ => None end)
  = Some (4, 13%nat, true, [0; 0; 0; 104; 170]) /\
  t1_roundtrip 1 1 0 21 0 [17] = Ok [17].
Proof. split; [left; discriminate|]. vm_compute. split; reflexivity. Qed.

(* LAZY without TERMALL (the remaining 16 combinations): segments of several passes *)
Theorem C20_t1_bytes_roundtrip_lazy :
  forall (wn hn : nat) (orient style fb : Z) (data : list Z),
  Z.land style 1 <> 0 -> Z.land style 4 = 0 -> Z.land style 16 = 0 ->
  length data = (wn * hn)%nat -> data_ok data -> 0 <= fb ->
  (forall v, In v data -> exists c, v = c * 2 ^ fb) ->
  t1_roundtrip wn hn orient style fb data = Ok data.
Proof. exact t1_bytes_roundtrip_lazy. Qed.
Print Assumptions C20_t1_bytes_roundtrip_lazy.

Theorem C20_t1_bytes_roundtrip_lazy_pterm :
  forall (wn hn : nat) (orient style fb : Z) (data : list Z),
  Z.land style 1 <> 0 -> Z.land style 4 = 0 ->
  length data = (wn * hn)%nat -> data_ok data -> 0 <= fb ->
  (forall v, In v data -> exists c, v = c * 2 ^ fb) ->
  (forall mb ps bytes,
     enc_layered wn hn orient style fb (3 * (find_max_bitplane data - fb + 1) - 2) data = Ok (mb, ps, bytes) ->
     ps <> [] -> bytes <> []) ->
  t1_roundtrip wn hn orient style fb data = Ok data.
Proof. exact t1_bytes_roundtrip_lazy_gen. Qed.
Print Assumptions C20_t1_bytes_roundtrip_lazy_pterm.

(* the LAZY classes on concrete streams: 1x2 block, 10 bit-planes, 28 passes; style LAZY: the
   pass list is cut into 1 + 2*6 segments (terminated passes: the 10th, then two of every three);
   style LAZY|RESET|PTERM|SEGSYM with fb = 8 (two bit-planes coded, one codeword closed by the
   final Flush, no pass terminated) *)
Example C20_t1_bytes_roundtrip_lazy_instance :
  (match enc_layered 1 2 0 1 0 28 [1000; -3] with
   | Ok (mb, ps, bytes) => Some (mb, length ps, map p_term ps, negb (zlen bytes =? 0)) | _ => None end)
  = Some (9, 28%nat,
          [false; false; false; false; false; false; false; false; false; true;
           false; true; true; false; true; true; false; true; true; false; true; true;
           false; true; true; false; true; true], true) /\
  t1_roundtrip 1 2 0 1 0 [1000; -3] = Ok [1000; -3] /\
  (match enc_layered 1 2 0 51 8 4 [768; -256] with
   | Ok (mb, ps, bytes) => Some (mb, map p_term ps, map p_rate ps, zlen bytes) | _ => None end)
  = Some (9, [false; false; false; false], [2; 2; 2; 2], 2) /\
  t1_roundtrip 1 2 0 51 8 [768; -256] = Ok [768; -256].
Proof. vm_compute. repeat split; reflexivity. Qed.

(* every style without PTERM (32 of 64): no hypothesis on the stream *)
Theorem C20_t1_bytes_roundtrip_no_pterm :
  forall (wn hn : nat) (orient style fb : Z) (data : list Z),
  Z.land style 16 = 0 ->
  length data = (wn * hn)%nat -> data_ok data -> 0 <= fb ->
  (forall v, In v data -> exists c, v = c * 2 ^ fb) ->
  t1_roundtrip wn hn orient style fb data = Ok data.
Proof. exact t1_bytes_roundtrip_no_pterm. Qed.
Print Assumptions C20_t1_bytes_roundtrip_no_pterm.

(* ALL 64 style combinations (any style word), provided the encoder's output is not empty *)
Theorem C20_t1_bytes_roundtrip_all_styles :
  forall (wn hn : nat) (orient style fb : Z) (data : list Z),
  length data = (wn * hn)%nat -> data_ok data -> 0 <= fb ->
  (forall v, In v data -> exists c, v = c * 2 ^ fb) ->
  (forall mb ps bytes,
     enc_layered wn hn orient style fb (3 * (find_max_bitplane data - fb + 1) - 2) data = Ok (mb, ps, bytes) ->
     ps <> [] -> bytes <> []) ->
  t1_roundtrip wn hn orient style fb data = Ok data.
Proof. exact t1_bytes_roundtrip_all_styles. Qed.
Print Assumptions C20_t1_bytes_roundtrip_all_styles.

(* the T1 clause of C20 in the form of C20_t1_roundtrip_statement, with the one extra hypothesis *)
Theorem C20_t1_roundtrip :
  forall (wn hn : nat) (orient style fb : Z) (data : list Z),
    length data = (wn * hn)%nat -> (forall v, In v data -> Z.abs v <= 2 ^ 30) -> 0 <= fb ->
    (forall v, In v data -> exists c, v = c * 2 ^ fb) ->
    (Z.land style 16 = 0 \/
     forall mb ps bytes,
       enc_layered wn hn orient style fb (3 * (find_max_bitplane data - fb + 1) - 2) data = Ok (mb, ps, bytes) ->
       ps <> [] -> bytes <> []) ->
    t1_roundtrip wn hn orient style fb data = Ok data.
Proof. exact t1_roundtrip_all. Qed.
Print Assumptions C20_t1_roundtrip.

(* hypotheses are satisfiable and the streams are not trivial: a 2x3 block with magnitudes up to
   2^30, fb = 6, style TERMALL|RESET|SEGSYM (73 passes, 73 segments) and style 0 *)
Example C20_t1_bytes_roundtrip_instance :
  Z.land 38 4 <> 0 /\ Z.land 38 16 = 0 /\ Z.land 0 21 = 0 /\ style_unconditional 48 6 /\ style_unconditional 39 0 /\
  length [5 * 64; -3 * 64; 0; 9 * 64; 2 ^ 30; - 2 ^ 30] = (2 * 3)%nat /\
  data_ok [5 * 64; -3 * 64; 0; 9 * 64; 2 ^ 30; - 2 ^ 30] /\
  (match enc_layered 2 3 1 38 6 73 [5 * 64; -3 * 64; 0; 9 * 64; 2 ^ 30; - 2 ^ 30] with
   | Ok (mb, ps, bytes) => Some (mb, length ps, forallb p_term ps, Z.ltb 73 (zlen bytes)) | _ => None end)
  = Some (30, 73%nat, true, true) /\
  (match enc_layered 2 3 1 0 6 73 [5 * 64; -3 * 64; 0; 9 * 64; 2 ^ 30; - 2 ^ 30] with
   | Ok (mb, ps, bytes) => Some (mb, length ps, existsb p_term ps) | _ => None end)
  = Some (30, 73%nat, false).
Proof.
  split; [discriminate|]. split; [reflexivity|]. split; [reflexivity|].
  split; [right; right; split; [reflexivity|lia]|]. split; [right; left; split; [discriminate|reflexivity]|]. split; [reflexivity|].
  split; [intros v Hv; cbn in Hv; lia|]. vm_compute. split; reflexivity.
Qed.

(* the two coder facts the PTERM / LAZY styles use, in their corrected form (the first versions
   were refuted by the mq area), proved there *)
Theorem C20_t1_erterm_segment : mq_erterm_segment_statement.
Proof. exact MqProofsSeg.mq_erterm_segment_t1. Qed.
Print Assumptions C20_t1_erterm_segment.

Theorem C20_t1_raw_segment : raw_segment_statement.
Proof. exact MqProofsSeg.raw_segment_t1. Qed.
Print Assumptions C20_t1_raw_segment.

(* the truncation statement (Definition only) *)
Definition C20_t1_truncation_statement : Prop := t1_truncation_statement.

(* BOUNDED (finite, by computation through the MQ / raw coder models): *)
Theorem C20_t1_roundtrip_bounded_1x1 : forall style v, 0 <= style < 64 -> -20 <= v <= 20 ->
  t1_roundtrip 1 1 0 style 0 [v] = Ok [v].
Proof. exact t1_roundtrip_bounded_1x1. Qed.
Print Assumptions C20_t1_roundtrip_bounded_1x1.

Theorem C20_t1_roundtrip_bounded_1x1_fb6 : forall style c, In style [0; 1; 5; 63] -> -20 <= c <= 20 ->
  t1_roundtrip 1 1 0 style 6 [c * 64] = Ok [c * 64].
Proof. exact t1_roundtrip_bounded_1x1_fb6. Qed.
Print Assumptions C20_t1_roundtrip_bounded_1x1_fb6.

Theorem C20_t1_roundtrip_bounded_2x2 : forall style orient a b c d, style = 0 \/ style = 63 -> 0 <= orient < 4 ->
  -1 <= a <= 1 -> -1 <= b <= 1 -> -1 <= c <= 1 -> -1 <= d <= 1 ->
  t1_roundtrip 2 2 orient style 0 [a; b; c; d] = Ok [a; b; c; d].
Proof. exact t1_roundtrip_bounded_2x2. Qed.
Print Assumptions C20_t1_roundtrip_bounded_2x2.

Theorem C20_t1_roundtrip_bounded_1x5 : forall style a b c d e, style = 0 \/ style = 63 ->
  -2 <= a <= 2 -> -2 <= b <= 2 -> -2 <= c <= 2 -> -2 <= d <= 2 -> -2 <= e <= 2 ->
  t1_roundtrip 1 5 0 style 0 [a; b; c; d; e] = Ok [a; b; c; d; e].
Proof. exact t1_roundtrip_bounded_1x5. Qed.
Print Assumptions C20_t1_roundtrip_bounded_1x5.

Example C20_t1_roundtrip_bounded_instance :
  0 <= 21 < 64 /\ -20 <= 17 <= 20 /\
  (match enc_layered 1 1 0 21 0 13 [17] with Ok (mb, ps, bytes) => Some (mb, length ps, length bytes) | _ => None end)
  = Some (4, 13%nat, 5%nat).
Proof. split; [lia|]. split; [lia|]. vm_compute. reflexivity. Qed.

(* finding F18's witness on the model of the repaired decoder *)
Theorem C20_t1_F18_witness_now_round_trips : t1_roundtrip 1 1 0 1 0 [16] = Ok [16].
Proof. exact t1_roundtrip_F18_witness. Qed.
Print Assumptions C20_t1_F18_witness_now_round_trips.
