(* C06 — HTJ2K lossless, the HT block coder (cleanup pass) as a whole. Property theorems only.

   MODEL: HT/HtBlockBits.v, HtBlockEnc.v, HtBlockDec.v model HTEncoder.Encode /
   encodeOpenJPHCleanup and HTDecoder.Decode / decodeOpenJPHCleanup of /repo/jpeg2000/htj2k —
   the only block coder the lossless HTJ2K path uses (the encoder emits the cleanup pass only;
   there is no SigProp / MagRef code in it).  The models are byte-exact against the Go block coder
   on random and damaged code-blocks (harness/suites/ht/block.go, exported API).

   THEOREMS:
     C06_ht_cleanup_roundtrip   for every block size w x h >= 1 x 1, every Kmax 1..30 and every
                                coefficient array whose magnitudes fit Kmax: decode (encode block)
                                = block — provided the MEL+VLC suffix fits the 12-bit Scup locator
                                (<= 4079 bytes), which the next theorem shows for every code-block
                                the encoder accepts.
     C06_ht_suffix_fits         the suffix bound for blocks of at most 1024 quads / 512 quad pairs.
     C06_ht_cleanup_roundtrip_validated
                                the round trip without the Scup hypothesis for every block inside a
                                nominal code-block W0 x H0 with 4 | W0, 2 | H0, W0*H0 <= 4096 — what
                                Encoder.validateParams admits since the repair of finding F20.
     C06_ht_segments_wellformed the bytes of an encoded block: Scup parses back to the MagSgn /
                                MEL+VLC split the encoder made (Scup = suffix length, 2..4079,
                                <= Lcup), every value is a byte, no pair 0xFF,>0x8F anywhere (no
                                marker code FF90..FFFF inside the segment) and the last byte is not
                                0xFF.  Feeds C16.
     C06_ht_ms_stream, C06_ht_vlc_stream, C06_ojph_mel_roundtrip (in C06.v)
                                the three byte streams with their stuffing rules, for arbitrary
                                codeword sequences.
     C06_ht_decode_total_partial, C06_ht_lut_index_in_table, C06_ht_uvlc_index_in_table
                                decoder on ARBITRARY bytes: the model has outcomes Ok / Err only
                                (by construction: slice reads are modelled as 0 outside the slice),
                                and the table indices formed from stream contents stay inside the
                                CxtVLC / U-VLC tables.  PARTIAL: the geometry-only indices (scratch
                                stripes, vn scratch, output) are not instrumented in the model;
                                the harness oracle ht_decode_no_panic covers them on damaged blocks.
   The proof is the lockstep of the two passes of the decoder with the encoder: contexts recomputed
   from the stripe above (P1), U-VLC pair rule incl. the initial-row MEL event, exponent predictor
   kappa recomputed from v_n (P2), MagSgn m_n = U_q - e_k with the implicit MSB e_1. *)
From V Require Import Common.Base Gen.HtTables_gen HT.HtMel HT.HtVlc HT.HtUvlc HT.HtLevels HT.HtBlockBits HT.HtBlockEnc HT.HtBlockDec
  HT.HtBitLemmas HT.HtBlockProofsMs HT.HtBlockProofsVlc HT.HtBlockProofsRead HT.HtBlockProofsQuad HT.HtBlockProofsMain
  HT.HtBlockProofsSize HT.HtBlockProofsSeg HT.HtBlockProofsTotal.

Theorem C06_ht_cleanup_roundtrip : forall w h kmax data,
  1 <= w -> 1 <= h -> 1 <= kmax <= 30 -> zlen data = w * h -> good kmax data ->
  ht_suffix_len w h kmax data <= 4079 ->
  exists block, ht_block_encode w h kmax data = Ok block /\
                ht_block_decode w h kmax (kmax - 1) block = Ok data.
Proof. exact ht_cleanup_roundtrip. Qed.
Print Assumptions C06_ht_cleanup_roundtrip.
Example C06_ht_cleanup_nonvacuous :
  let d := [3; -1; 0; 7; 0; 0; 12; -5; 1; 0; 0; 0; -128; 100; 2; 0; 0; 9; 0; 0] in
  zlen d = 5 * 4 /\ good 8 d /\ ht_suffix_len 5 4 8 d = 7 /\
  ht_block_encode 5 4 8 d = Ok [20; 22; 194; 63; 196; 216; 18; 241; 84; 178; 208; 119; 0].
Proof.
  cbv zeta. split; [reflexivity|]. split; [repeat constructor; cbn; lia|]. split; vm_compute; reflexivity.
Qed.

(* MagSgn stream: any codeword sequence, through stuffing, ones padding and the dropped 0xFF *)
Theorem C06_ht_ms_stream : forall calls,
  let bytes := msw_terminate (fold_left msw_encode calls msw_init) in
  Forall is_byte_p bytes /\ MSInv (ms_stream bytes) (call_bits calls).
Proof. exact ms_stream_roundtrip. Qed.
Print Assumptions C06_ht_ms_stream.

(* VLC stream: any codeword sequence, any MEL writer state, through the backward stuffing rule,
   MEL/VLC fusion of the open byte and the Scup nibble patch *)
Theorem C06_ht_vlc_stream : forall calls s seg' l' nib,
  let vs := fold_left vlw_encode calls vlw_init in
  let r := ojph_mel_terminate s (vw2_tmp vs) (vw2_used vs) (1 <? zlen (vw2_buf vs)) in
  let vlcd := match snd r with Some b => b :: vlw_bytes vs | None => vlw_bytes vs end in
  Forall is_byte_p (fst r) -> 0 <= nib < 16 ->
  (2 <= length vlcd)%nat /\
  ((forall lastb d before, rev (fst r ++ vlcd) = lastb :: d :: before ->
     rev seg' = l' :: Z.lor (Z.land d 240) nib :: before) ->
   exists tail, 0 <= tail /\
    rev_stream seg' = bits_val (call_bits calls) + tail * 2 ^ Z.of_nat (length (call_bits calls))).
Proof. exact vlc_stream_roundtrip. Qed.
Print Assumptions C06_ht_vlc_stream.

(* the Scup hypothesis holds for every block of at most 1024 quads and 512 quad pairs *)
Theorem C06_ht_suffix_fits : forall w h kmax data,
  1 <= w -> 1 <= h -> 1 <= kmax <= 30 -> good kmax data ->
  Z.quot (w + 1) 2 * Z.quot (h + 1) 2 <= 1024 -> Z.quot (w + 3) 4 * Z.quot (h + 1) 2 <= 512 ->
  ht_suffix_len w h kmax data <= 4079.
Proof. exact ht_suffix_fits. Qed.
Print Assumptions C06_ht_suffix_fits.
Example C06_ht_suffix_fits_nonvacuous :
  Z.quot (64 + 1) 2 * Z.quot (64 + 1) 2 <= 1024 /\ Z.quot (64 + 3) 4 * Z.quot (64 + 1) 2 <= 512 /\
  Z.quot (4 + 1) 2 * Z.quot (1024 + 1) 2 <= 1024 /\ Z.quot (4 + 3) 4 * Z.quot (1024 + 1) 2 <= 512.
Proof. repeat match goal with |- _ /\ _ => split end; apply Z.leb_le; vm_compute; reflexivity. Qed.

Theorem C06_ht_cleanup_roundtrip_validated : forall w h W0 H0 kmax data,
  1 <= w <= W0 -> 1 <= h <= H0 -> W0 mod 4 = 0 -> H0 mod 2 = 0 -> W0 * H0 <= 4096 ->
  1 <= kmax <= 30 -> zlen data = w * h -> good kmax data ->
  exists block, ht_block_encode w h kmax data = Ok block /\
                ht_block_decode w h kmax (kmax - 1) block = Ok data.
Proof. exact ht_cleanup_roundtrip_validated. Qed.
Print Assumptions C06_ht_cleanup_roundtrip_validated.
Example C06_ht_cleanup_validated_nonvacuous :
  let d := [3; -1; 0; 7; 0; 0; 12; -5; 1; 0; 0; 0; -128; 100; 2; 0; 0; 9; 0; 0] in
  1 <= 5 <= 64 /\ 1 <= 4 <= 64 /\ 64 mod 4 = 0 /\ 64 mod 2 = 0 /\ 64 * 64 <= 4096 /\ zlen d = 5 * 4 /\ good 8 d.
Proof. cbv zeta. repeat split; try lia; try reflexivity. repeat constructor; cbn; lia. Qed.

(* the encoded bytes *)
Theorem C06_ht_segments_wellformed : forall w h kmax data block,
  1 <= w -> 1 <= h -> 1 <= kmax <= 30 -> zlen data = w * h -> good kmax data ->
  ht_suffix_len w h kmax data <= 4079 ->
  ht_block_encode w h kmax data = Ok block ->
  block = [] \/
  ((exists msb cld, scup_parse block = Ok (msb, cld) /\ block = msb ++ cld /\
                    zlen cld = ht_suffix_len w h kmax data /\ 2 <= zlen cld <= 4079) /\
   Forall is_byte_p block /\ nomark 0 block /\ last block 0 <> 255).
Proof. exact ht_segments_wellformed. Qed.
Print Assumptions C06_ht_segments_wellformed.
Example C06_ht_segments_nonvacuous :
  let b := [20; 22; 194; 63; 196; 216; 18; 241; 84; 178; 208; 119; 0] in
  ht_block_encode 5 4 8 [3; -1; 0; 7; 0; 0; 12; -5; 1; 0; 0; 0; -128; 100; 2; 0; 0; 9; 0; 0] = Ok b /\
  scup_parse b = Ok ([20; 22; 194; 63; 196; 216], [18; 241; 84; 178; 208; 119; 0]) /\
  nomark 0 b /\ ~ nomark 0 [1; 255; 144].
Proof.
  cbv zeta. split; [vm_compute; reflexivity|]. split; [vm_compute; reflexivity|].
  split; [cbn; repeat split; intros; lia|]. cbn. intros [_ [_ [H _]]]. specialize (H eq_refl). lia.
Qed.

(* decoder on arbitrary bytes *)
Theorem C06_ht_decode_total_partial : forall w h kmax missing cb,
  (exists d, ht_block_decode w h kmax missing cb = Ok d) \/ ht_block_decode w h kmax missing cb = Err.
Proof. exact ht_decode_total_partial. Qed.
Print Assumptions C06_ht_decode_total_partial.

Theorem C06_ht_lut_index_in_table : forall cq v, c8 cq ->
  0 <= cq + Z.land (vlc_peek v) 127 < 1024 /\ zlen vlc_lookup0 = 1024 /\ zlen vlc_lookup1 = 1024.
Proof. exact lut_index_in_table. Qed.
Print Assumptions C06_ht_lut_index_in_table.
Example C06_ht_lut_index_nonvacuous : c8 896 /\ c8 (ctx0_of 65535).
Proof. split; [exists 7; split; [lia|reflexivity]|apply ctx0_c8; unfold w16; lia]. Qed.

Theorem C06_ht_uvlc_index_in_table : forall t0 t1 v, w16 t0 -> w16 t1 ->
  let mode := uvlc_mode t0 t1 in
  0 <= mode + 64 + Z.land v 63 < 320 /\ 0 <= mode + Z.land v 63 < 256 /\
  zlen uvlc_tbl0 = 320 /\ zlen uvlc_tbl1 = 256.
Proof. exact uvlc_index_in_table. Qed.
Print Assumptions C06_ht_uvlc_index_in_table.
Example C06_ht_uvlc_index_nonvacuous : w16 65535 /\ uvlc_mode 65535 65535 = 192.
Proof. split; [unfold w16; lia|reflexivity]. Qed.
