(* C18 — safe for concurrent use. Property theorems only.
   Model: Contract/CtrConcurrency.v (threads, private stores, one shared store, arbitrary
   schedules); facts: Gen/Facts_gen.v checked in Contract/CtrProofsFacts.v. *)
From Coq Require Import String List Bool Arith.
Import ListNotations.
From V Require Import Common.Base Contract.CtrConcurrency Contract.CtrProofsConc
  Contract.CtrDataflow Contract.CtrProofsFacts.

(* If no thread instruction writes the shared store then under ANY schedule the shared store is
   unchanged, every thread is where it would be had it run alone, and no two accesses conflict. *)
Theorem C18_noninterference : forall (ts : list thread) (sh : store) (sch : list nat),
  forallb no_shared_write ts = true ->
  let '(sh', ts', tr) := run sch sh ts in
  sh' = sh /\
  length ts' = length ts /\
  (forall i t, nth_error ts i = Some t ->
     nth_error ts' i = Some (run_alone (count_tid i sch) i sh t)) /\
  race_free tr = true.
Proof. exact noninterference. Qed.
Print Assumptions C18_noninterference.

(* every call returns exactly what it returns when run alone, for every complete schedule *)
Theorem C18_noninterference_complete : forall (ts : list thread) (sh : store) (sch : list nat),
  forallb no_shared_write ts = true ->
  (forall i t, nth_error ts i = Some t -> (length (prog t) <= count_tid i sch)%nat) ->
  let '(sh', ts', tr) := run sch sh ts in
  sh' = sh /\
  (forall i t, nth_error ts i = Some t ->
     nth_error ts' i = Some (run_alone_full i sh t) /\ prog (run_alone_full i sh t) = []) /\
  race_free tr = true.
Proof. exact noninterference_complete. Qed.
Print Assumptions C18_noninterference_complete.

Example C18_noninterference_nonvacuous :
  let t0 := mkThread [ILoad 0 5; IOp 1 (fun p => p 0 + 1)] (fun _ => 0) in
  let t1 := mkThread [ILoad 0 5; ILoad 1 6; IOp 2 (fun p => p 0 * p 1)] (fun _ => 0) in
  let sch := [1; 0; 1; 1; 0]%nat in
  forallb no_shared_write [t0; t1] = true /\
  (forall i t, nth_error [t0; t1] i = Some t -> (length (prog t) <= count_tid i sch)%nat).
Proof.
  cbv zeta. split; [reflexivity|].
  intros [|[|i]] t H; cbn in H; inversion H; subst; cbn; try lia. destruct i; discriminate.
Qed.

(* the hypothesis matters: one shared write, two schedules, two different results, a race *)
Theorem C18_interference_with_shared_write :
  let pool := [writer_thread; reader_thread] in
  let sh0 : store := fun _ => 0 in
  (exists t1 t2,
     nth_error (snd (fst (run [1; 0; 0]%nat sh0 pool))) 1 = Some t1 /\
     nth_error (snd (fst (run [0; 0; 1]%nat sh0 pool))) 1 = Some t2 /\
     priv t1 0 = 0 /\ priv t2 0 = 7) /\
  race_free (snd (run [0; 0; 1]%nat sh0 pool)) = false.
Proof. exact interference_with_shared_write. Qed.
Print Assumptions C18_interference_with_shared_write.

(* The schedule-independent static obligation named in the property: over all non-test source
   files, no function other than init (and functions reachable only from init, and the
   inspected allow-list) writes a package-level variable, and no Codec method writes a
   receiver field.  Re-proved against the regenerated facts on every run. *)
(* pkg_level_ok also covers references INTO package-level variables that leave them (a
   pointer / slice / map element copied into a field, returned, passed on: pkg_var_refs) and
   stores through a local copy of such a reference (elem-via-alias); codec_receiver_ok also
   requires that no reference-typed codec field other than transferSyntax is handed out by a
   method (event T).  NOT SEEN by the translator: stores through a reference after its second
   hop (kept in a field and written by another function — only the first hop is reported, which
   is why it must be allow-listed), what a callee does with a reference passed to it, aliasing
   through interfaces, reflection and unsafe (absent: imports_ok).  These are covered
   dynamically: table-altering streams and the codecs' own default-parameter objects in the
   C10/C18 workloads (suites/contract/special.go). *)
Theorem C18_facts_static_obligation : pkg_level_ok = true /\ codec_receiver_ok = true.
Proof. exact facts_static_obligation. Qed.
Print Assumptions C18_facts_static_obligation.

(* The full obligation of DESIGN.md: additionally no unsafe/reflect/cgo/time/math-rand import,
   only inspected map iterations, and parameter objects are written only under an "already
   valid / already holds the value => no write" guard:
   - codec methods never store a field of a parameters object that may be the caller's;
   - on such an object they only call Validate and GetParameter (and, through the interface,
     GetParameter) — with ONE inspected exception: Decode of jpegls/nearlossless writes the NEAR
     value of the stream back with SetParameter, but only when GetParameter("near") is not
     already that value (finding F24, repaired: it used to write on every frame).
     DOCUMENTED LIMIT: with one shared parameters object and streams whose NEAR differs from
     the value stored in it, that write still happens and concurrent Decode calls race on it;
     with streams coded with those parameters (what a Transcoder does; what the stress run
     does) it never happens;
   - every assignment in every Validate is conditional (finding F23, repaired: Validate of
     htj2k . Parameters assigned BlockWidth/BlockHeight unconditionally). *)
Theorem C18_facts_ok : facts_ok_full = true.
Proof. exact facts_ok. Qed.
Print Assumptions C18_facts_ok.

Theorem C18_facts_params_obligation :
  codec_shared_stores = [] /\ param_store_violations = [] /\ codec_shared_calls_bad = [] /\
  codec_iface_calls_bad = [] /\ getparameter_writes = [] /\ validate_unguarded_writes = [].
Proof. exact facts_params_obligation. Qed.
Print Assumptions C18_facts_params_obligation.

(* the one allowed write-back has the guarded shape the allow-list entry claims *)
Theorem C18_nearlossless_writeback_guarded :
  length nearlossless_decode_events = 1%nat /\
  forallb (fun evs => mem "iface.SetParameter" (ev_names "I" evs) && set_guarded None evs)
          nearlossless_decode_events = true.
Proof. exact nearlossless_writeback_guarded. Qed.
Print Assumptions C18_nearlossless_writeback_guarded.
