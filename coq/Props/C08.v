(* C08 — no decoder panics. Property theorems only.
   Models (coq/Parsers) are transliterations of the header parsers of /repo as fixed after
   findings F36-F47; every slice index, integer division and make() of the Go code is an explicit
   check in the model that yields Panic when it fails. `bytes bs`: every element of the input list
   is a byte. The theorems hold for ALL byte strings (and, for RLE, all uint16 frame descriptions).
   Not covered by theorems (searched by harness/suites/parsers only): the entropy decoders and
   everything after the first table lookup of a scan, packet/tile decoding, MQ, HT. *)
From V Require Import Common.Base Parsers.PrsOutcome Parsers.PrsJls Parsers.PrsJpeg Parsers.PrsBaseline
  Parsers.PrsJ2k Parsers.PrsRle Parsers.PrsProofsBase Parsers.PrsProofsJls Parsers.PrsProofsJpeg
  Parsers.PrsProofsBaseline Parsers.PrsProofsJ2k Parsers.PrsProofsRle.

(* JPEG-LS (jpegls/lossless, jpegls/nearlossless): marker loop, SOF55 / LSE / SOS, derivation of the
   coding parameters (F36: precision 2..16 enforced) *)
Theorem C08_jls_lossless_no_panic : forall bs, bytes bs -> fst (jlsl_decode (fuel_of bs) bs) <> Panic.
Proof. exact jlsl_decode_no_panic. Qed.
Print Assumptions C08_jls_lossless_no_panic.

Theorem C08_jls_near_no_panic : forall bs, bytes bs -> fst (jlsn_decode (fuel_of bs) bs) <> Panic.
Proof. exact jlsn_decode_no_panic. Qed.
Print Assumptions C08_jls_near_no_panic.

Theorem C08_jls_coding_parameters_total : forall maxVal near reset, 0 <= maxVal ->
  exists p, jls_coding_params maxVal near reset = Ok p.
Proof. exact coding_params_ok. Qed.
Print Assumptions C08_jls_coding_parameters_total.

(* HuffmanTable.Build (F37): for ANY code-length counts and any number of values *)
Theorem C08_huffman_build_no_panic : forall bits nvals, huff_build bits nvals <> Panic.
Proof. exact huff_build_np. Qed.
Print Assumptions C08_huffman_build_no_panic.

(* JPEG lossless, SV1, baseline: marker loop, SOFn / DHT / DQT / DRI / SOS, up to the first table
   lookup of the scan (F37, F42, F43, F44) *)
Theorem C08_jpeg_lossless_no_panic : forall bs, bytes bs -> fst (jll_decode (fuel_of bs) bs) <> Panic.
Proof. exact jll_decode_no_panic. Qed.
Print Assumptions C08_jpeg_lossless_no_panic.

Theorem C08_jpeg_sv1_no_panic : forall bs, bytes bs -> fst (sv1_decode (fuel_of bs) bs) <> Panic.
Proof. exact sv1_decode_no_panic. Qed.
Print Assumptions C08_jpeg_sv1_no_panic.

Theorem C08_jpeg_baseline_no_panic : forall bs, bytes bs -> fst (bl_decode (fuel_of bs) bs) <> Panic.
Proof. exact bl_decode_no_panic. Qed.
Print Assumptions C08_jpeg_baseline_no_panic.

(* JPEG 2000 codestream parser: SOC + main header (all marker segments), tile-part header and
   data extraction, and the image buffers requested from an accepted SIZ (F38-F41) *)
Theorem C08_j2k_main_header_no_panic : forall d, bytes d -> fst (k_main_header (fuel_of d) d) <> Panic.
Proof. exact k_main_header_no_panic. Qed.
Print Assumptions C08_j2k_main_header_no_panic.

Theorem C08_j2k_tile_part_no_panic : forall cs d o, bytes d -> 0 <= o ->
  fst (k_parse_tile (fuel_of d) cs d o) <> Panic.
Proof. exact k_parse_tile_no_panic. Qed.
Print Assumptions C08_j2k_tile_part_no_panic.

Theorem C08_j2k_assembler_no_panic : forall d s o, bytes d -> fst (k_main_header (fuel_of d) d) = Ok (s, o) ->
  fst (k_assembler s) <> Panic /\ Forall (fun a => a <= 4 * siz_S s + 393216) (snd (k_assembler s)).
Proof. exact k_header_then_assembler. Qed.
Print Assumptions C08_j2k_assembler_no_panic.

(* DICOM RLE with ANY frame description (F45): everything up to and including the output allocation *)
Theorem C08_rle_any_frameinfo_no_panic : forall w h ba spp data, u16 w -> u16 h -> u16 ba -> u16 spp ->
  fst (rle_frame_prefix w h ba spp data) <> Panic /\ fst (rle_frame_prefix w h ba spp data) <> OutOfFuel /\
  Forall (fun a => a <= 15 * (w * h * spp) + 1) (snd (rle_frame_prefix w h ba spp data)).
Proof. exact rle_frame_prefix_good. Qed.
Print Assumptions C08_rle_any_frameinfo_no_panic.

(* ---- non-vacuity: concrete streams satisfy the hypotheses and are accepted ---- *)
Example C08_nonvacuous_jls :
  bytes [255;216;255;247;0;11;8;0;1;0;1;1;1;17;0;255;218;0;8;1;1;0;0;0;0] /\
  fst (jlsl_decode 40 [255;216;255;247;0;11;8;0;1;0;1;1;1;17;0;255;218;0;8;1;1;0;0;0;0]) = Ok (1, 1, 1, 8, 0).
Proof. split; [unfold bytes; repeat constructor; lia|vm_compute; reflexivity]. Qed.

Example C08_nonvacuous_jpeg_lossless :
  let bs := [255;216;255;195;0;11;8;0;1;0;1;1;1;17;0;255;196;0;20;0;0;1;0;0;0;0;0;0;0;0;0;0;0;0;0;0;0;255;218;0;8;1;1;0;1;0;0] in
  bytes bs /\ fst (jll_decode 60 bs) = Ok (1, 1, 1, 8).
Proof.
  cbv zeta. split; [|vm_compute; reflexivity].
  unfold bytes. apply Forall_forall. intros x Hx. simpl in Hx. intuition lia.
Qed.

Example C08_nonvacuous_j2k :
  let d := [255;79;255;81;0;41;0;0;0;0;0;1;0;0;0;1;0;0;0;0;0;0;0;0;0;0;0;1;0;0;0;1;0;0;0;0;0;0;0;0;0;1;7;1;1;
            255;82;0;12;0;0;0;1;0;0;4;4;0;1;255;92;0;4;64;64;255;144] in
  bytes d /\ exists s o, fst (k_main_header 80 d) = Ok (s, o) /\ siz_S s = 1.
Proof.
  cbv zeta. split; [unfold bytes; repeat constructor; lia|].
  eexists; eexists. vm_compute. split; reflexivity.
Qed.

Example C08_nonvacuous_j2k_tile :
  bytes [255;144;0;10;0;0;0;0;0;0;0;1;255;147;1;2;3;255;217] /\
  fst (k_parse_tile 30 1 [255;144;0;10;0;0;0;0;0;0;0;1;255;147;1;2;3;255;217] 0) = Ok (0, 17).
Proof. split; [unfold bytes; repeat constructor; lia|vm_compute; reflexivity]. Qed.

Example C08_nonvacuous_rle :
  u16 2 /\ u16 8 /\ fst (rle_frame_prefix 2 2 8 1 (1 :: 0 :: 0 :: 0 :: 64 :: repeat 0 63)) = Ok tt /\
  snd (rle_frame_prefix 2 2 8 1 (1 :: 0 :: 0 :: 0 :: 64 :: repeat 0 63)) = [4].
Proof. unfold u16. repeat split; try lia; vm_compute; reflexivity. Qed.
