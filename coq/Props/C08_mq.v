(* Property-level theorems of the MQ arithmetic coder (jpeg2000/mqc), in Props format.
   The integrator merges the C20_/C16_/C08_ blocks into Props/C20.v, C16.v, C08.v. *)
From V Require Import Common.Base MQ.MqModel MQ.MqProofs MQ.MqProofsDec MQ.MqProofsRt MQ.MqProofsRt2 MQ.MqProofsTerm.

(* ====================================== C08 ====================================== *)

(* For ANY byte list and ANY sequence of context indices < n the decoder model — which returns
   Panic exactly when an index (data[bp+1], contexts[ctx], qeTable[state]) is out of range —
   returns Ok with one bit per requested decision. *)
Theorem C08_mq_decoder_in_bounds : forall n data ctxs,
  Forall (fun c => 0 <= c < Z.of_nat n) ctxs ->
  exists bits, mq_decode n data ctxs = Ok bits /\ length bits = length ctxs /\
               Forall (fun b => b = 0 \/ b = 1) bits.
Proof. exact mq_decoder_in_bounds. Qed.
Print Assumptions C08_mq_decoder_in_bounds.

(* The read position never passes the first sentinel byte: bp <= len(data), so the index
   bp + 1 is < len(data ++ [FF; FF]). *)
Theorem C08_mq_decoder_bp_bound : forall cx data ctxs d0 d bits,
  Forall cx_ok cx -> Forall (fun c => 0 <= c < zlen cx) ctxs ->
  dec_new_cx data cx = Ok d0 -> dec_decode_list d0 ctxs = Ok (d, bits) ->
  0 <= d_bp d <= zlen data /\ d_bp d + 1 < zlen (sentinel data).
Proof. exact mq_decoder_bp_bound. Qed.
Print Assumptions C08_mq_decoder_bp_bound.

(* RAW (bypass) reader (NewRawDecoder / RawDecode): any data, any number of raw decodes: no
   index outside data ++ [FF; FF]; bp stops at len(data) (at the sentinel it feeds 1-bits). *)
Theorem C08_mq_raw_decoder_in_bounds : forall data n,
  exists r bits, raw_decode_n n (raw_new data) = Ok (r, bits) /\ length bits = n /\
                 0 <= r_bp r <= zlen data.
Proof. exact raw_decoder_in_bounds. Qed.
Print Assumptions C08_mq_raw_decoder_in_bounds.

(* Any interleaving of Decode(ctx) and RawDecode() on one MQ decoder object (T1 lazy passes):
   never out of range, bp <= len(data) throughout. *)
Theorem C08_mq_decoder_mixed_in_bounds : forall data ops d, dec_inv data d ->
  Forall (fun o => fst o = 0 -> 0 <= snd o < zlen (d_cx d)) ops ->
  exists d' bits, dec_mixed_list d ops = Ok (d', bits) /\ dec_inv data d' /\
                  length bits = length ops /\ 0 <= d_bp d' <= zlen data.
Proof. exact mq_decoder_mixed_in_bounds. Qed.
Print Assumptions C08_mq_decoder_mixed_in_bounds.

(* dec_inv holds for every freshly constructed decoder *)
Theorem C08_mq_decoder_new_inv : forall data cx, Forall cx_ok cx ->
  exists d, dec_new_cx data cx = Ok d /\ dec_inv data d /\ d_cx d = cx.
Proof. exact dec_new_ok. Qed.
Print Assumptions C08_mq_decoder_new_inv.

Example C08_mq_decoder_nonvacuous :
  Forall (fun c => 0 <= c < Z.of_nat 2) [0; 1; 1; 0; 0; 1] /\
  mq_decode 2 [18; 255; 144; 52] [0; 1; 1; 0; 0; 1] = Ok [0; 1; 0; 0; 0; 1].
Proof.
  split; [repeat constructor; simpl; lia | vm_compute; reflexivity].
Qed.

