(* C08 for the HTJ2K cleanup-pass block decoder (the path jpeg2000.Decoder uses for HTJ2K
   streams: htj2k/codec.go:274 NewHTDecoder -> HTDecoder.Decode -> decodeOpenJPHCleanup).
   HtSafe/HtsModel.v makes every index into scratch / vnScratch / out / the four lookup tables /
   MelE, the slice expressions of parseStandardSegments, the signed shift count of
   MagSgnDecoder.readBits and every make() an explicit check that yields Panic.  For EVERY byte
   string, EVERY Kmax and missing-MSB count (any integers) the decoder returns a block of w*h
   samples or an error: no Panic, no OutOfFuel.  Hypothesis = the geometry the callers
   guarantee: t2/tile_decoder.go:553-571 (block clipped to its band, empty blocks skipped:
   1 <= w, h) and codestream/parser.go:962-964 (code-block exponents: w, h <= 1024). *)
From V Require Import Common.Base HT.HtBlockBits HT.HtLevels HtSafe.HtsModel HtSafe.HtsProofsBase HtSafe.HtsProofsTop.

Theorem C08_ht_decode_total : forall w h kmax missing data,
  1 <= w <= 1024 /\ 1 <= h <= 1024 ->
  hts_decode w h kmax missing data <> Panic /\ hts_decode w h kmax missing data <> OutOfFuel.
Proof. exact hts_decode_no_panic. Qed.
Print Assumptions C08_ht_decode_total.

Theorem C08_ht_decode_block_or_error : forall w h kmax missing data,
  1 <= w <= 1024 /\ 1 <= h <= 1024 ->
  hts_samples w h kmax missing data = Err \/
  exists l, hts_samples w h kmax missing data = Ok l /\ zlen l = w * h.
Proof. exact hts_samples_total. Qed.
Print Assumptions C08_ht_decode_block_or_error.

(* parseStandardSegments with its index and slice checks explicit is the C06 parser: never Panic *)
Theorem C08_ht_scup_total : forall data, hts_scup data = scup_parse data.
Proof. exact hts_scup_eq. Qed.
Print Assumptions C08_ht_scup_total.

(* the MelE index stays in 0..12 whatever the MEL bytes hold *)
Theorem C08_ht_mel_index : forall s, krange s ->
  exists r s', hmel_get_run s = Ok (r, s') /\ krange s'.
Proof. exact hmel_get_run_ok. Qed.
Print Assumptions C08_ht_mel_index.

(* non-vacuous: a 5x3 block written by the encoder decodes to its samples; the same bytes with
   the last byte cut or a wrong missing-MSB count are errors; a damaged byte still decodes *)
Example C08_ht_nonvacuous :
  (1 <= 5 <= 1024 /\ 1 <= 3 <= 1024) /\
  hts_samples 5 3 6 5 [148; 4; 22; 254; 112; 190; 87; 127; 254; 145; 49; 121; 0]
    = Ok [3; -1; 0; 7; 2; 0; 0; -5; 1; 0; 12; 0; 0; -2; 9] /\
  hts_samples 5 3 6 5 [148; 4; 22; 254; 112; 190; 87; 127; 254; 145; 49; 121] = Err /\
  hts_samples 5 3 6 2 [148; 4; 22; 254; 112; 190; 87; 127; 254; 145; 49; 121; 0] = Err /\
  hts_samples 5 3 6 5 [148; 4; 22; 254; 112; 190; 87; 127; 14; 145; 49; 121; 0]
    = Ok [3; -1; 0; 7; 1; 0; 0; -5; 1; 1; 0; 0; 0; 8; -16].
Proof. split; [lia|]. repeat split; vm_compute; reflexivity. Qed.

(* the geometry hypothesis is not idle: a negative size panics in make() *)
Theorem C08_ht_needs_geometry : hts_decode (-1) 1 8 7 [1; 2] = Panic.
Proof. exact hts_negative_size_panics. Qed.
Print Assumptions C08_ht_needs_geometry.

(* the explicit shift-count check is reachable at the level of one sample (U_q = 0 with the
   e_k bit set); the totality theorem shows the decoder never gets there *)
Theorem C08_ht_shift_check_live : forall m p, hsample m 4112 0 0 p = Panic.
Proof. exact hts_shift_check_live. Qed.
Print Assumptions C08_ht_shift_check_live.
