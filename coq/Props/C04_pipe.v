(* C04 (pipe): the stages of the reversible single-tile JPEG 2000 path COMPOSED - one encoder and
   one decoder function (coq/Pipe/PipeModel.v, byte-exact against jpeg2000.Encoder / Decoder in the
   correspondence run) and the end-to-end round trip obtained by chaining the stage theorems. *)
From V Require Import Common.Base J2KGeo.GeoModel J2KGeo.GeoProofsSamples T1.T1Model T1.T1Bytes
  T2.T2Header T2.T2Packets T2.T2ProofsPackets1 T2.T2ProofsPackets2
  Pipe.PipeModel Pipe.PipeProofsFront Pipe.PipeProofsStore Pipe.PipeProofsGeo Pipe.PipeProofsDecGeo
  Pipe.PipeProofsBlock Pipe.PipeCellRel Pipe.PipeGatherOnce Pipe.PipeProofsEnc Pipe.PipeProofsCells
  Pipe.PipeProofsT2 Pipe.PipeProofsMain Pipe.PipeT1ojThm Pipe.PipeT1zeroThm.
Require V.T2.T2ProofsProg.

(* ---- the end-to-end theorem (partial: ONE named hypothesis remains, hyp_block_sizes: no
        code-block compresses to more than 65535 bytes) ---- *)

Theorem C04_pipe_roundtrip_partial : forall p, pp_scope p -> forall samples, samples_ok p samples ->
  let pix := pack_image p samples in
  hyp_block_sizes p pix ->
  exists tile, pipe_encode_tile p pix = Ok tile /\ pipe_decode_tile p tile = Ok pix.
Proof. exact pipe_roundtrip_partial. Qed.
Print Assumptions C04_pipe_roundtrip_partial.

(* the arithmetic side condition (|wavelet coefficient| < 2^25: `<<= 6` stays inside int32, T1
   sees at most 25 magnitude planes) holds for every tuple in scope, by the sharp multilevel
   growth bound DwtGrowth2.fwd53_ml_bound_sharp *)
Theorem C04_pipe_coefficients_fit : forall p samples, pp_scope p -> samples_ok p samples ->
  hyp_coeff_fit p (pack_image p samples).
Proof. exact hyp_coeff_fit_holds. Qed.
Print Assumptions C04_pipe_coefficients_fit.

(* ---- the stage interfaces that had to be proved for the chain ---- *)

(* T1 as the tile decoder calls it: planes shifted by -5, OpenJPEG reconstruction, then /2 *)
Theorem C04_pipe_t1_tile_decode_roundtrip : forall (wn hn : nat) (orient : Z) (cs : list Z),
  length cs = (wn * hn)%nat -> (forall c, In c cs -> - 2 ^ 25 < c < 2 ^ 25) ->
  let data := map (fun c => c * 64) cs in
  let n := find_max_bitplane data + 1 - 6 in
  0 < n ->
  exists bytes, T1Bytes.enc_plain wn hn orient 0 6 (n * 3 - 2) data = Ok bytes /\
    T1Bytes.dec_with_options wn hn orient 0 n true false bytes (n * 3 - 2)
      = Ok (map (fun c => Z.sgn c * (2 * Z.abs c + 1)) cs).
Proof. exact t1_tile_decode_roundtrip. Qed.
Print Assumptions C04_pipe_t1_tile_decode_roundtrip.

(* the all-zero block: Flush() of a fresh MQ coder, really decoded (one cleanup pass) *)
Theorem C04_pipe_t1_tile_decode_zero_block : forall (wn hn : nat) (orient : Z),
  (1 <= wn)%nat -> (1 <= hn)%nat -> 0 <= orient <= 3 ->
  T1Bytes.enc_plain wn hn orient 0 6 1 (repeat 0 (wn * hn)) = Ok [255; 127] /\
  T1Bytes.dec_with_options wn hn orient 0 1 true false [255; 127] 1 = Ok (repeat 0 (wn * hn)).
Proof. exact t1_tile_decode_zero_block. Qed.
Print Assumptions C04_pipe_t1_tile_decode_zero_block.

(* one code-block: encodeCodeBlock, then estimateMaxBitplane / decodeCodeBlock on what T2 delivers *)
Theorem C04_pipe_code_block : forall p, 1 <= pp_prec p <= 16 -> forall res cb cbx cby,
  rb_valid p res (cb_band cb) -> coef_ok cb ->
  exists b, enc_code_block p res cb cbx cby = Ok b /\
    eb_cbx b = cbx /\ eb_cby b = cby /\ eb_included b = false /\ eb_nlb b = 0 /\ 0 <= eb_zbp b < 32 /\
    eb_ld b = None /\ eb_lp b = [] /\ eb_pl b = [] /\ eb_passes b = [] /\ eb_termall b = false /\
    0 < zlen (eb_data b) /\ 1 <= eb_npt b <= 164 /\
    forall m idx x0 y0 ci, 0 <= cb_band cb <= 3 ->
      aget key2_eqb m (res, idx) = Some ci -> delivers b ci ->
      dec_code_block p m idx (res, (x0, y0, x0 + cb_w cb, y0 + cb_h cb, cb_band cb)) =
        Ok (x0, y0, x0 + cb_w cb, y0 + cb_h cb, cb_data cb).
Proof. exact enc_code_block_spec. Qed.
Print Assumptions C04_pipe_code_block.

(* G2 of packets_deliver_blocks: sortedPrecincts (encoder) = precinctIndicesForResolution (decoder) *)
Theorem C04_pipe_precinct_indices_agree : forall p, pp_scope p -> forall coeffs,
  length coeffs = Z.to_nat (pp_nc p) -> (forall d, In d coeffs -> zlen d = pp_w p * pp_h p) ->
  (forall d, In d coeffs -> forall v, In v d -> - 2 ^ 25 < v < 2 ^ 25) ->
  forall cells, pipe_cells p coeffs = Ok cells -> forall c r, enc_pidx cells c r = dec_pidx p c r.
Proof. exact G2_pidx. Qed.
Print Assumptions C04_pipe_precinct_indices_agree.

(* G3: position keys (one precinct per component and resolution) *)
Theorem C04_pipe_position_keys : forall p, pp_scope p -> forall coeffs,
  length coeffs = Z.to_nat (pp_nc p) -> (forall d, In d coeffs -> zlen d = pp_w p * pp_h p) ->
  (forall d, In d coeffs -> forall v, In v d -> - 2 ^ 25 < v < 2 ^ 25) ->
  forall cells, pipe_cells p coeffs = Ok cells ->
  T2ProofsProg.pk_ok (pp_levels p + 1) (pp_nc p) (dec_pidx p) (precinct_position_key (pipe_pgeom_dec p) (pp_levels p + 1)).
Proof. exact G3_keys. Qed.
Print Assumptions C04_pipe_position_keys.

(* G4: band order, grids and positions of every cell agree (CellRel before layer 0) *)
Theorem C04_pipe_cells_related : forall p, pp_scope p -> forall coeffs,
  length coeffs = Z.to_nat (pp_nc p) -> (forall d, In d coeffs -> zlen d = pp_w p * pp_h p) ->
  (forall d, In d coeffs -> forall v, In v d -> - 2 ^ 25 < v < 2 ^ 25) ->
  (forall d, In d coeffs -> forall r cb, In (r, cb) (enc_blocks p d) -> zlen (eb_data (eblk p r cb)) <= 65535) ->
  forall cells, pipe_cells p coeffs = Ok cells ->
  forall k, In k (T2ProofsProg.cell_keys (pp_levels p + 1) (pp_nc p) (dec_pidx p)) ->
    CellRel false 1 (dec_geo p) 0 k cells [].
Proof. exact G4_cells. Qed.
Print Assumptions C04_pipe_cells_related.

(* EncodePackets then DecodePackets then gatherCBData: every block's bytes, pass count and
   zero-bit-plane count arrive under the key (resolution, global index) the decoder looks up *)
Theorem C04_pipe_t2_delivers : forall p, pp_scope p -> forall coeffs,
  length coeffs = Z.to_nat (pp_nc p) -> (forall d, In d coeffs -> zlen d = pp_w p * pp_h p) ->
  (forall d, In d coeffs -> forall v, In v d -> - 2 ^ 25 < v < 2 ^ 25) ->
  (forall d, In d coeffs -> forall r cb, In (r, cb) (enc_blocks p d) -> zlen (eb_data (eblk p r cb)) <= 65535) ->
  forall cells, pipe_cells p coeffs = Ok cells ->
  forall eps cells', 0 <= pp_order p <= 4 ->
  enc_packets (pp_order p) 1 (pp_levels p + 1) (pp_nc p) (pipe_pgeom p) cells = Ok (eps, cells') -> small_packets eps ->
  exists dps,
    dec_packets (packets_bytes eps) (pp_order p) 1 (pp_levels p + 1) (pp_nc p) (pipe_pgeom_dec p) (dec_pidx p) (dec_geo p) 0 false false = Ok dps /\
    forall c, 0 <= c < pp_nc p -> forall i r cb, In (i, (r, cb)) (NE p (coef coeffs c)) ->
      exists ci, aget key2_eqb (gather c (dec_order p) [] dps) (r, i) = Some ci /\ delivers (eblk p r cb) ci.
Proof. exact t2_delivers. Qed.
Print Assumptions C04_pipe_t2_delivers.

(* EncodePackets returns no error on the store built by buildTilePacketEncoderAt *)
Theorem C04_pipe_t2_encodes : forall p, pp_scope p -> forall coeffs,
  length coeffs = Z.to_nat (pp_nc p) -> (forall d, In d coeffs -> zlen d = pp_w p * pp_h p) ->
  (forall d, In d coeffs -> forall v, In v d -> - 2 ^ 25 < v < 2 ^ 25) ->
  (forall d, In d coeffs -> forall r cb, In (r, cb) (enc_blocks p d) -> zlen (eb_data (eblk p r cb)) <= 65535) ->
  forall cells, pipe_cells p coeffs = Ok cells -> 0 <= pp_order p <= 4 ->
  exists eps cells', enc_packets (pp_order p) 1 (pp_levels p + 1) (pp_nc p) (pipe_pgeom p) cells = Ok (eps, cells') /\ small_packets eps.
Proof. exact t2_encodes. Qed.
Print Assumptions C04_pipe_t2_encodes.

(* ---- non-vacuity: a concrete 2x2 RGB image (RCT, one DWT level, RPCL) through the whole
        pipeline by vm_compute, and the hypotheses of the partial theorem on it ---- *)

Definition ex_p : pparams := mkPP 2 2 3 8 false 1 4 4 true 2 0 0 2.
Definition ex_samples : list Z := [10; 200; 30; 40; 255; 0; 1; 2; 3; 250; 128; 7].

Example C04_pipe_example_roundtrip :
  exists tile, pipe_encode_tile ex_p (pack_image ex_p ex_samples) = Ok tile /\
               pipe_decode_tile ex_p tile = Ok (pack_image ex_p ex_samples) /\ (10 <= zlen tile)%Z.
Proof. eexists. split; [vm_compute; reflexivity|]. split; [vm_compute; reflexivity | vm_compute; discriminate]. Qed.

Example C04_pipe_example_hypotheses :
  pp_scope ex_p /\ samples_ok ex_p ex_samples /\
  hyp_block_sizes ex_p (pack_image ex_p ex_samples).
Proof.
  split; [unfold pp_scope, pow2_size, ex_p; cbn; lia|].
  split.
  { split; [reflexivity|]. unfold ex_samples, ex_p, in_sample_range. cbn. repeat constructor; lia. }
  intros coeffs Ec. vm_compute in Ec. injection Ec as <-. intros d Hd r cb Hin b Eb.
    assert (Hb : forallb (fun d0 => forallb (fun rc : Z * cblock =>
                     match enc_code_block ex_p (fst rc) (snd rc) (cb_cbx (snd rc)) (cb_cby (snd rc)) with
                     | Ok b0 => zlen (eb_data b0) <=? 65535 | _ => false end) (enc_blocks ex_p d0))
                   [[-33; 77; -58; 99]; [-136; -104; 153; -37]; [-70; 49; 263; 148]] = true) by (vm_compute; reflexivity).
    rewrite forallb_forall in Hb. specialize (Hb d Hd). rewrite forallb_forall in Hb. specialize (Hb (r, cb) Hin).
    cbn [fst snd] in Hb. rewrite Eb in Hb. apply Z.leb_le in Hb. exact Hb.
Qed.

(* the premises of the T1 theorems on a concrete 2x2 block (the values 1, 0, -2, 0 scaled by 64) *)
Example C04_pipe_example_t1 :
  let cs := [1; 0; -2; 0] in
  length cs = (2 * 2)%nat /\ (forall c, In c cs -> - 2 ^ 25 < c < 2 ^ 25) /\
  0 < find_max_bitplane (map (fun c => c * 64) cs) + 1 - 6 /\
  T1Bytes.enc_plain 2 2 1 0 6 4 (map (fun c => c * 64) cs) = Ok [12; 79] /\
  T1Bytes.dec_with_options 2 2 1 0 2 true false [12; 79] 4 = Ok [3; 0; -5; 0].
Proof.
  cbv zeta. split; [reflexivity|]. split.
  { intros c Hc. cbn [In] in Hc. change (2 ^ 25) with 33554432. intuition lia. }
  split; [vm_compute; reflexivity|]. split; vm_compute; reflexivity.
Qed.

(* the common premises of the G2/G3/G4/t2 theorems on the wavelet coefficients of the example image *)
Example C04_pipe_example_coeffs :
  let coeffs := [[-33; 77; -58; 99]; [-136; -104; 153; -37]; [-70; 49; 263; 148]] in
  pipe_coeffs ex_p (pack_image ex_p ex_samples) = Ok coeffs /\
  length coeffs = Z.to_nat (pp_nc ex_p) /\ (forall d, In d coeffs -> zlen d = pp_w ex_p * pp_h ex_p) /\
  (forall d, In d coeffs -> forall v, In v d -> - 2 ^ 25 < v < 2 ^ 25) /\
  exists cells, pipe_cells ex_p coeffs = Ok cells /\ (3 <= length cells)%nat.
Proof.
  cbv zeta. split; [vm_compute; reflexivity|]. split; [reflexivity|]. split.
  { intros d Hd. cbn [In] in Hd. repeat (destruct Hd as [<-|Hd]; [reflexivity|]). destruct Hd. }
  split.
  { intros d Hd v Hv. cbn [In] in Hd. repeat (destruct Hd as [<-|Hd]; [cbn [In] in Hv; change (2 ^ 25) with 33554432; intuition lia|]). destruct Hd. }
  eexists. split; [vm_compute; reflexivity|]. cbn. lia.
Qed.
