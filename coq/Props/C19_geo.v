(* C19 — tiled reversible JPEG 2000: the tile geometry part (area j2kgeo).  Property theorems
   only.  Models: J2KGeo/GeoModel.v (Encoder.tileBounds / writeTiles tile counts,
   TileLayout.GetTileBounds, t2.NewTileDecoder, transformTile and AssembleTile copy loops). *)
From V Require Import Common.Base J2KGeo.GeoModel J2KGeo.GeoProofsTiles.

(* For every image size and every tile size 1 <= TW <= W, 1 <= TH <= H (any number of tiles per
   axis, partial right/bottom tiles, odd sizes): the rectangle AssembleTile writes to
   (TileLayout built from the SIZ marker the encoder writes: offsets 0) is the rectangle the
   encoder extracted the tile from. *)
Theorem C19_tiles_layout_agrees : forall W H TW TH : Z, 1 <= TW <= W -> 1 <= TH <= H ->
  forall idx, 0 <= idx < enc_num_tiles W TW * enc_num_tiles H TH ->
  let tl := new_tile_layout W H 0 0 TW TH 0 0 in
  tile_count tl = enc_num_tiles W TW * enc_num_tiles H TH /\
  tl_imageWidth tl = W /\ tl_imageHeight tl = H /\
  layout_tile_bounds tl idx = enc_tile_bounds W H idx TW TH (enc_num_tiles W TW).
Proof. exact layout_agrees. Qed.
Print Assumptions C19_tiles_layout_agrees.

Example C19_tiles_layout_nonvacuous :
  1 <= 3 <= 10 /\ 1 <= 5 <= 7 /\ 0 <= 7 < enc_num_tiles 10 3 * enc_num_tiles 7 5 /\
  enc_tile_bounds 10 7 7 3 5 (enc_num_tiles 10 3) = (9, 5, 10, 7).
Proof. vm_compute. repeat split; congruence. Qed.

(* The tile origin: the rectangle t2.NewTileDecoder derives (its corner is the origin the
   decoder hands to the inverse DWT) is the encoder's rectangle (whose corner the encoder hands
   to the forward DWT and to the band geometry), and that corner is the true position
   (tx*TW, ty*TH) of the tile on the reference grid — odd for odd tile sizes.  W < 2^31 because
   the decoder computes the tile count per row in uint32. *)
Theorem C19_tile_origin : forall W H TW TH : Z, 1 <= TW <= W -> 1 <= TH <= H ->
  forall idx, W < 2 ^ 31 -> 0 <= idx < enc_num_tiles W TW * enc_num_tiles H TH ->
  dec_tile_bounds idx W H 0 0 TW TH 0 0 = enc_tile_bounds W H idx TW TH (enc_num_tiles W TW).
Proof. exact decoder_agrees. Qed.
Print Assumptions C19_tile_origin.

Example C19_tile_origin_nonvacuous :
  1 <= 3 <= 10 /\ 1 <= 5 <= 7 /\ 10 < 2 ^ 31 /\ 0 <= 5 < enc_num_tiles 10 3 * enc_num_tiles 7 5 /\
  dec_tile_bounds 5 10 7 0 0 3 5 0 0 = (3, 5, 6, 7).
Proof. vm_compute. repeat split; congruence. Qed.

(* every tile is non-empty, inside the image, at most TW x TH, with corner (tx*TW, ty*TH) *)
Theorem C19_tiles_nonempty : forall W H TW TH : Z, 1 <= TW <= W -> 1 <= TH <= H ->
  forall idx, 0 <= idx < enc_num_tiles W TW * enc_num_tiles H TH ->
  let '(x0, y0, x1, y1) := enc_tile_bounds W H idx TW TH (enc_num_tiles W TW) in
  0 <= x0 /\ x0 < x1 /\ x1 <= W /\ 0 <= y0 /\ y0 < y1 /\ y1 <= H /\
  x0 = idx mod enc_num_tiles W TW * TW /\ y0 = idx / enc_num_tiles W TW * TH /\
  x1 - x0 <= TW /\ y1 - y0 <= TH.
Proof. exact enc_tile_nonempty. Qed.
Print Assumptions C19_tiles_nonempty.

(* the tiles cover the image ... *)
Theorem C19_tiles_cover : forall W H TW TH : Z, 1 <= TW <= W -> 1 <= TH <= H ->
  forall x y, 0 <= x < W -> 0 <= y < H ->
  let idx := y / TH * enc_num_tiles W TW + x / TW in
  0 <= idx < enc_num_tiles W TW * enc_num_tiles H TH /\
  rect_contains (enc_tile_bounds W H idx TW TH (enc_num_tiles W TW)) x y.
Proof. exact tiles_cover. Qed.
Print Assumptions C19_tiles_cover.

(* ... and are pairwise disjoint *)
Theorem C19_tiles_disjoint : forall W H TW TH : Z, 1 <= TW <= W -> 1 <= TH <= H ->
  forall i j x y, 0 <= i < enc_num_tiles W TW * enc_num_tiles H TH ->
  0 <= j < enc_num_tiles W TW * enc_num_tiles H TH ->
  rect_contains (enc_tile_bounds W H i TW TH (enc_num_tiles W TW)) x y ->
  rect_contains (enc_tile_bounds W H j TW TH (enc_num_tiles W TW)) x y -> i = j.
Proof. exact tiles_disjoint. Qed.
Print Assumptions C19_tiles_disjoint.

Example C19_tiles_partition_nonvacuous :
  1 <= 3 <= 10 /\ 1 <= 5 <= 7 /\ 0 <= 9 < 10 /\ 0 <= 6 < 7 /\
  6 / 5 * enc_num_tiles 10 3 + 9 / 3 = 7 /\ rect_contains (enc_tile_bounds 10 7 7 3 5 (enc_num_tiles 10 3)) 9 6.
Proof. vm_compute. repeat split; congruence. Qed.

(* Extracting every tile as Encoder.transformTile does and writing it back as
   TileAssembler.AssembleTile does (tile index = position in the codestream) returns the image
   array: every tile is placed at its position. *)
Theorem C19_tile_roundtrip : forall W H TW TH : Z, 1 <= TW <= W -> 1 <= TH <= H ->
  forall img : list Z, zlen img = W * H -> tile_roundtrip img W H TW TH = Ok img.
Proof. exact tile_roundtrip_id. Qed.
Print Assumptions C19_tile_roundtrip.

Example C19_tile_roundtrip_nonvacuous :
  1 <= 2 <= 3 /\ 1 <= 1 <= 2 /\ zlen [1; 2; 3; 4; 5; 6] = 3 * 2 /\
  map (extract_tile [1; 2; 3; 4; 5; 6] 3) (enc_tiles 3 2 2 1) = [[1; 2]; [3]; [4; 5]; [6]].
Proof. vm_compute. repeat split; congruence. Qed.
