(* C20 — 5/3 reversible wavelet part. Property-level theorems in Props format; the integrator
   merges these into Props/C20.v (add DWT.DwtModel DWT.DwtProofs DWT.DwtProofs2D DWT.DwtFinite
   DWT.DwtGrowth to its Require line). *)
From V Require Import Common.Base DWT.DwtModel DWT.DwtProofs DWT.DwtProofs2D DWT.DwtFinite DWT.DwtGrowth.

(* 1-D: the streaming inverse (Inverse53_1DWithParity, OpenJPEG cas0/cas1 form) undoes the
   predict/update forward transform (Forward53_1DWithParity) for EVERY signal length (0, 1, 2,
   3, ... ; the width<=1 / width==1 doubling / width==2 special cases included) and both
   parities, over unbounded integers.  (On the one input where both Go functions panic — the
   empty signal with even=false, `dwt1d_panics` — the model returns []; the property's domain
   is width >= 1.) *)
Theorem C20_dwt53_inverse_1d : forall (even : bool) (l : list Z), inv53 even (fwd53 even l) = l.
Proof. exact dwt53_inverse_1d. Qed.
Print Assumptions C20_dwt53_inverse_1d.

(* concrete instances of the boundary cases: the single-sample odd-parity case doubles and then
   halves by TRUNCATING division (so it is exact on forward images, and rounds -5 to -2 on an
   arbitrary input); widths 2 and 3 of the streaming inverse; the empty signal. *)
Example C20_dwt53_1d_boundary_instances :
  fwd53 false [-3] = [-6] /\ inv53 false [-6] = [-3] /\ inv53 false [-5] = [-2] /\
  fwd53 true [-3] = [-3] /\
  fwd53 false [7; -4] = [2; 11] /\ inv53 false [2; 11] = [7; -4] /\
  fwd53 true [7; -4; 1] = [3; -3; -8] /\ inv53 true [3; -3; -8] = [7; -4; 1] /\
  fwd53 true [] = [] /\ inv53 true [] = [].
Proof. vm_compute. repeat split; reflexivity. Qed.

(* 2-D on a w x h window of a row-major buffer with row distance stride >= w (columns then
   rows forward, rows then columns inverse), any parity pair. *)
Theorem C20_dwt53_inverse_2d : forall (w h stride : nat) (evenRow evenCol : bool) (data : list Z),
  (w <= stride)%nat -> (stride * h <= length data)%nat ->
  inv53_2d (fwd53_2d data w h stride evenRow evenCol) w h stride evenRow evenCol = data.
Proof. exact dwt53_inverse_2d. Qed.
Print Assumptions C20_dwt53_inverse_2d.

Example C20_dwt53_2d_nonvacuous :
  (3 <= 4)%nat /\ (4 * 2 <= length [1; 5; 3; 100; -2; 7; 0; 200]%Z)%nat /\
  fwd53_2d [1; 5; 3; 100; -2; 7; 0; 200] 3%nat 2%nat 4%nat false true = [4; -6; -4; 100; 0; -5; -5; 200].
Proof. split; [lia|]. split; [simpl; lia|vm_compute; reflexivity]. Qed.

(* Both 2-D transforms leave every sample outside the window untouched and keep the length. *)
Theorem C20_dwt53_2d_outside_untouched : forall (w h stride : nat) (evenRow evenCol : bool) (data : list Z),
  (w <= stride)%nat -> (stride * h <= length data)%nat ->
  (forall y x, (y < h)%nat -> (w <= x < stride)%nat ->
     zn (fwd53_2d data w h stride evenRow evenCol) (y * stride + x) = zn data (y * stride + x) /\
     zn (inv53_2d data w h stride evenRow evenCol) (y * stride + x) = zn data (y * stride + x)) /\
  (forall i, (stride * h <= i)%nat ->
     zn (fwd53_2d data w h stride evenRow evenCol) i = zn data i /\
     zn (inv53_2d data w h stride evenRow evenCol) i = zn data i) /\
  length (fwd53_2d data w h stride evenRow evenCol) = length data /\
  length (inv53_2d data w h stride evenRow evenCol) = length data.
Proof. exact dwt53_2d_outside_untouched. Qed.
Print Assumptions C20_dwt53_2d_outside_untouched.

(* Multilevel (ForwardMultilevelWithParity with its early stop at a 1x1 window /
   InverseMultilevelWithParity without one): every width, height, level count and origin
   (x0, y0 any integers, in particular every origin parity). *)
Theorem C20_dwt53_inverse_multilevel : forall (w h levels : nat) (x0 y0 : Z) (data : list Z),
  (w * h <= length data)%nat ->
  inv53_ml (fwd53_ml data w h levels x0 y0) w h levels x0 y0 = data.
Proof. exact dwt53_inverse_multilevel. Qed.
Print Assumptions C20_dwt53_inverse_multilevel.

Example C20_dwt53_ml_nonvacuous :
  (4 * 3 <= length [1; 5; 3; -2; 7; 0; 4; 4; 9; 1; 1; 2]%Z)%nat /\
  fwd53_ml [1; 5; 3; -2; 7; 0; 4; 4; 9; 1; 1; 2] 4%nat 3%nat 3%nat 1 0 = [4; 1; -2; 2; 1; -4; 10; 0; -1; 5; 5; 2].
Proof. split; [simpl; lia|vm_compute; reflexivity]. Qed.

(* FINITE (bounded) result, implied by C20_dwt53_inverse_1d and kept as an independent check by
   computation over the whole domain: all signals of length <= 8 over {-2..2}, both parities. *)
Theorem C20_dwt53_inverse_1d_finite_len8 : forall (even : bool) (s : list Z),
  (length s <= 8)%nat /\ Forall (fun v => -2 <= v <= 2) s -> inv53 even (fwd53 even s) = s.
Proof. exact dwt53_inverse_1d_finite_len8. Qed.
Print Assumptions C20_dwt53_inverse_1d_finite_len8.

Example C20_dwt53_finite_nonvacuous :
  (length [2; -2; 1; 0; -1; 2; 2; -2]%Z <= 8)%nat /\ Forall (fun v => -2 <= v <= 2) [2; -2; 1; 0; -1; 2; 2; -2] /\
  fwd53 false [2; -2; 1; 0; -1; 2; 2; -2] = [0; 0; 2; -1; 4; 2; -2; 2].
Proof. split; [simpl; lia|]. split; [repeat constructor; lia|vm_compute; reflexivity]. Qed.

(* Growth (over Z; coarse): samples within [-A, A] give coefficients within [-2A, 2A] after a
   1-D pass, [-4A, 4A] after a 2-D level, [-4^levels A, 4^levels A] after `levels` levels.  With
   the list of int32 intermediates of the Go code (DwtGrowth.v header) this gives the int32-safe
   input range 4 * 4^levels * A + 2 < 2^31; it is the reason for the amplitudes the harness uses
   (the tight per-level low-pass gain 2.25 is not proved). *)
Theorem C20_dwt53_growth_1d : forall (A : Z) (x : list Z), 0 <= A -> bnd A x ->
  forall even, bnd (2 * A) (fwd53 even x).
Proof. exact fwd53_bound. Qed.
Print Assumptions C20_dwt53_growth_1d.

Theorem C20_dwt53_growth_multilevel : forall (levels : nat) (A : Z) (d : list Z) (w h : nat) (x0 y0 : Z),
  0 <= A -> bnd A d -> bnd (4 ^ Z.of_nat levels * A) (fwd53_ml d w h levels x0 y0).
Proof. exact fwd53_ml_bound. Qed.
Print Assumptions C20_dwt53_growth_multilevel.

Example C20_dwt53_growth_nonvacuous :
  0 <= 5 /\ bnd 5 [5; -5; 5; -5] /\ fwd53 true [5; -5; 5; -5] = [0; 0; -10; -10].
Proof. split; [lia|]. split; [repeat constructor; lia|vm_compute; reflexivity]. Qed.
