(* C17 - an encoder called with arguments it cannot represent or satisfy returns an error.
   Property theorems only.

   Model: Framing/FrmValidate.v - the guards at the top of every package-level Encode and of
   every registry Codec.Encode / Parameters.Validate as boolean functions of the argument
   tuple (Go int64 products written out), and `representable` as the property text defines it
   (positive dimensions, <= 65535 for the formats with 16-bit size fields, supported component
   count / bit depth, parameter in range, pixel buffer long enough).

   STATE FOR THE UNFIXED /repo: the statement `accepts a = true -> representable a` is
   REFUTED for every package-level encoder (one witness per missing guard, each replayed on
   the Go code by the harness); the `_partial` theorems prove it under exactly the missing
   guards, i.e. they name the repair. At the registry level (FrameInfo fields are uint16) the
   statement HOLDS unconditionally for baseline, extended, lossless .57, SV1, the JPEG 2000
   codecs and HTJ2K; it is refuted for JPEG-LS (.80/.81: frame length; default NEAR = 3 with
   BitsStored = 2) and RLE (zero rows accepted, more than 15 segments panic).
   Not in the model: what the encoders do AFTER the guards (the harness checks "never panics,
   returned stream decodes to the requested geometry" on the implementation), ROI / MCT
   parameter validation of jpeg2000.EncodeParams. After /repo is repaired the models get the
   new guards and the `_refuted` theorems are replaced by the unconditional ones. *)
From V Require Import Common.Base Framing.FrmValidate Framing.FrmProofsValidate.

(* ---------- package-level encoders: refuted, with the exact missing guards ---------- *)

Theorem C17_baseline_refuted :
  exists a, 0 <= a_len a /\ baseline_accepts a = true /\ baseline_representable a = false.
Proof. exact baseline_accepts_refuted. Qed.
Print Assumptions C17_baseline_refuted.

Theorem C17_baseline_partial : forall a,
  a_w a <= 65535 -> a_h a <= 65535 ->
  baseline_accepts a = true -> baseline_representable a = true.
Proof. exact baseline_accepts_partial. Qed.
Print Assumptions C17_baseline_partial.
Example C17_baseline_partial_nonvacuous :
  let a := {| a_len := 196605; a_w := 65535; a_h := 1; a_c := 3; a_p := 8; a_x := 100 |} in
  a_w a <= 65535 /\ a_h a <= 65535 /\ baseline_accepts a = true.
Proof. vm_compute. repeat split; discriminate. Qed.

Theorem C17_extended_refuted :
  (exists a, 0 <= a_len a /\ a_p a = 8 /\ extended_accepts a = true /\ extended_representable a = false) /\
  (exists a, 0 <= a_len a /\ a_p a = 12 /\ extended_accepts a = true /\ extended_representable a = false).
Proof. exact extended_accepts_refuted. Qed.
Print Assumptions C17_extended_refuted.

Theorem C17_extended_partial : forall a,
  a_w a <= 65535 -> a_h a <= 65535 ->
  extended_accepts a = true -> extended_representable a = true.
Proof. exact extended_accepts_partial. Qed.
Print Assumptions C17_extended_partial.
Example C17_extended_partial_nonvacuous :
  let a := {| a_len := 131070; a_w := 1; a_h := 65535; a_c := 1; a_p := 12; a_x := 1 |} in
  a_w a <= 65535 /\ a_h a <= 65535 /\ extended_accepts a = true.
Proof. vm_compute. repeat split; discriminate. Qed.

Theorem C17_lossless_refuted :
  exists a, 0 <= a_len a /\ lossless_accepts a = true /\ lossless_representable a = false.
Proof. exact lossless_accepts_refuted. Qed.
Print Assumptions C17_lossless_refuted.

Theorem C17_lossless_partial : forall a,
  a_w a <= 65535 -> a_h a <= 65535 ->
  lossless_accepts a = true -> lossless_representable a = true.
Proof. exact lossless_accepts_partial. Qed.
Print Assumptions C17_lossless_partial.
Example C17_lossless_partial_nonvacuous :
  let a := {| a_len := 12; a_w := 2; a_h := 1; a_c := 3; a_p := 16; a_x := 7 |} in
  a_w a <= 65535 /\ a_h a <= 65535 /\ lossless_accepts a = true.
Proof. vm_compute. repeat split; discriminate. Qed.

Theorem C17_sv1_refuted :
  exists a, 0 <= a_len a /\ sv1_accepts a = true /\ sv1_representable a = false.
Proof. exact sv1_accepts_refuted. Qed.
Print Assumptions C17_sv1_refuted.

Theorem C17_sv1_partial : forall a,
  a_w a <= 65535 -> a_h a <= 65535 ->
  sv1_accepts a = true -> sv1_representable a = true.
Proof. exact sv1_accepts_partial. Qed.
Print Assumptions C17_sv1_partial.
Example C17_sv1_partial_nonvacuous :
  let a := {| a_len := 65535; a_w := 65535; a_h := 1; a_c := 1; a_p := 2; a_x := 0 |} in
  a_w a <= 65535 /\ a_h a <= 65535 /\ sv1_accepts a = true.
Proof. vm_compute. repeat split; discriminate. Qed.

Theorem C17_jpegls_refuted :
  (exists a, 0 <= a_len a /\ jls_accepts a = true /\ dims16_ok a = true /\ jls_representable a = false) /\
  (exists a, 0 <= a_len a /\ jls_accepts a = true /\ need_bytes a 1 <= a_len a /\ jls_representable a = false).
Proof. exact jls_accepts_refuted. Qed.
Print Assumptions C17_jpegls_refuted.

Theorem C17_jpegls_partial : forall a,
  a_w a <= 65535 -> a_h a <= 65535 ->
  need_bytes a (bytes_per_sample (a_p a)) <= a_len a ->
  jls_accepts a = true -> jls_representable a = true.
Proof. exact jls_accepts_partial. Qed.
Print Assumptions C17_jpegls_partial.
Example C17_jpegls_partial_nonvacuous :
  let a := {| a_len := 18; a_w := 3; a_h := 1; a_c := 3; a_p := 9; a_x := 0 |} in
  a_w a <= 65535 /\ a_h a <= 65535 /\ need_bytes a (bytes_per_sample (a_p a)) <= a_len a /\ jls_accepts a = true.
Proof. vm_compute. repeat split; discriminate. Qed.

Theorem C17_jpegls_near_refuted :
  (exists a, 0 <= a_len a /\ jlsnear_accepts a = true /\ jlsnear_representable a = false /\
             dims16_ok a = true /\ a_x a <= near_max (a_p a)) /\
  (exists a, 0 <= a_len a /\ jlsnear_accepts a = true /\ jlsnear_representable a = false /\
             need_bytes a 1 <= a_len a /\ a_x a <= near_max (a_p a)) /\
  (exists a, 0 <= a_len a /\ jlsnear_accepts a = true /\ jlsnear_representable a = false /\
             dims16_ok a = true /\ need_bytes a 1 <= a_len a).
Proof. exact jlsnear_accepts_refuted. Qed.
Print Assumptions C17_jpegls_near_refuted.

Theorem C17_jpegls_near_partial : forall a,
  a_w a <= 65535 -> a_h a <= 65535 ->
  need_bytes a (bytes_per_sample (a_p a)) <= a_len a ->
  a_x a <= near_max (a_p a) ->
  jlsnear_accepts a = true -> jlsnear_representable a = true.
Proof. exact jlsnear_accepts_partial. Qed.
Print Assumptions C17_jpegls_near_partial.
Example C17_jpegls_near_partial_nonvacuous :
  let a := {| a_len := 6; a_w := 3; a_h := 2; a_c := 1; a_p := 8; a_x := 127 |} in
  a_w a <= 65535 /\ a_h a <= 65535 /\ need_bytes a (bytes_per_sample (a_p a)) <= a_len a /\
  a_x a <= near_max (a_p a) /\ jlsnear_accepts a = true.
Proof. vm_compute. repeat split; discriminate. Qed.

Theorem C17_j2k_refuted :
  (exists k, j2k_accepts k = true /\ j2k_representable k = false /\ k_cbw k = 1024 /\ k_cbh k = 1024) /\
  (exists k, j2k_accepts k = true /\ j2k_representable k = false /\ k_prog k = 5) /\
  (exists k, j2k_accepts k = true /\ j2k_representable k = false /\ k_layers k = 65536) /\
  (exists k, j2k_accepts k = true /\ j2k_representable k = false /\ k_lossless k = false /\ k_quality k = 0) /\
  (exists k, j2k_accepts k = true /\ j2k_representable k = false /\ k_tw k = -1) /\
  (exists k, j2k_accepts k = true /\ j2k_representable k = false /\ k_tw k = 1 /\ k_th k = 1).
Proof. exact j2k_accepts_refuted. Qed.
Print Assumptions C17_j2k_refuted.

Theorem C17_j2k_partial : forall k,
  k_w k < 4294967296 -> k_h k < 4294967296 -> k_w k * k_h k < 2 ^ 59 ->
  k_cbw k * k_cbh k <= 4096 -> k_layers k <= 65535 -> 0 <= k_prog k <= 4 ->
  0 <= k_tw k < 4294967296 -> 0 <= k_th k < 4294967296 ->
  tiles_along (k_w k) (k_tw k) * tiles_along (k_h k) (k_th k) <= 65535 ->
  (k_lossless k = true \/ 1 <= k_quality k <= 100) ->
  j2k_accepts k = true -> j2k_representable k = true.
Proof. exact j2k_accepts_partial. Qed.
Print Assumptions C17_j2k_partial.
Example C17_j2k_partial_nonvacuous :
  let k := {| k_len := 786432; k_w := 512; k_h := 512; k_c := 3; k_p := 8; k_levels := 6; k_cbw := 64;
              k_cbh := 64; k_layers := 5; k_prog := 4; k_tw := 64; k_th := 64; k_quality := 100;
              k_lossless := false |} in
  j2k_accepts k = true /\ tiles_along (k_w k) (k_tw k) * tiles_along (k_h k) (k_th k) = 64.
Proof. vm_compute. split; reflexivity. Qed.

Theorem C17_rle_refuted :
  exists r, 0 <= r_len r /\ rle_accepts r = true /\ rle_representable r = false /\ r_h r = 0.
Proof. exact rle_accepts_refuted. Qed.
Print Assumptions C17_rle_refuted.

Theorem C17_rle_panics :
  rle_outcome {| r_len := 360; r_w := 5; r_h := 3; r_ba := 64; r_spp := 3; r_planar := 0 |} = Panic /\
  rle_outcome {| r_len := 122880; r_w := 5; r_h := 3; r_ba := 0; r_spp := 1; r_planar := 0 |} = Panic.
Proof. exact rle_panics. Qed.
Print Assumptions C17_rle_panics.

(* bounded result (the whole box is enumerated): 1..2 x 1..2 pixels, BitsAllocated 1..40,
   1..4 samples, both planar configurations, buffer lengths 0..81 *)
Theorem C17_rle_bounded : rle_box_ok = true.
Proof. exact rle_accepts_bounded. Qed.
Print Assumptions C17_rle_bounded.

(* ---------- registry codecs ---------- *)

Theorem C17_codec_baseline : forall c, uint16_fields c ->
  codec_baseline_accepts c = true ->
  baseline_representable (eargs_of c 8 (norm_param 1 100 90 90 false c)) = true.
Proof. exact codec_baseline_sound. Qed.
Print Assumptions C17_codec_baseline.

Theorem C17_codec_extended : forall c, uint16_fields c ->
  codec_extended_accepts c = true ->
  extended_representable (eargs_of c (if (0 <? c_bs c) && (c_bs c <=? 8) then 8 else 12)
                                     (norm_param 1 100 90 90 false c)) = true.
Proof. exact codec_extended_sound. Qed.
Print Assumptions C17_codec_extended.

Theorem C17_codec_lossless57 : forall c, uint16_fields c ->
  codec_lossless57_accepts c = true -> lossless_representable (eargs_of c (c_bs c) 1) = true.
Proof. exact codec_lossless57_sound. Qed.
Print Assumptions C17_codec_lossless57.

Theorem C17_codec_sv1 : forall c, uint16_fields c ->
  codec_sv1_accepts c = true -> sv1_representable (eargs_of c (c_bs c) 0) = true.
Proof. exact codec_sv1_sound. Qed.
Print Assumptions C17_codec_sv1.

Theorem C17_codec_j2k : forall c, uint16_fields c ->
  codec_j2k_accepts c = true -> j2k_representable (j2k_of_codec c (c_bs c) 0) = true.
Proof. exact codec_j2k_sound. Qed.
Print Assumptions C17_codec_j2k.

Theorem C17_codec_htj2k : forall c, uint16_fields c ->
  codec_htj2k_accepts c = true -> j2k_representable (j2k_of_codec c (c_ba c) 2) = true.
Proof. exact codec_htj2k_sound. Qed.
Print Assumptions C17_codec_htj2k.

Example C17_codec_nonvacuous :
  let c := {| c_nil_old := false; c_nil_new := false; c_nil_fi := false; c_w := 65535; c_h := 2; c_spp := 3;
              c_bs := 8; c_ba := 8; c_planar := 0; c_nframes := 2; c_flen := 393210; c_pkind := 1;
              c_param := 101; c_param_int := false |} in
  uint16_fields c /\ codec_baseline_accepts c = true /\ codec_extended_accepts c = true /\
  codec_lossless57_accepts c = true /\ codec_sv1_accepts c = true /\ codec_j2k_accepts c = true /\
  codec_htj2k_accepts c = true /\ norm_param 1 100 90 90 false c = 90.
Proof. unfold uint16_fields. vm_compute. repeat split; discriminate. Qed.

Theorem C17_codec_jpegls_refuted :
  exists c, uint16_fields c /\ codec_jls_accepts c = true /\
            jls_representable (eargs_of c (c_bs c) 0) = false.
Proof. exact codec_jls_refuted. Qed.
Print Assumptions C17_codec_jpegls_refuted.

Theorem C17_codec_jpegls_near_refuted :
  (exists c, uint16_fields c /\ codec_jlsnear_accepts c = true /\
             jlsnear_representable (eargs_of c (c_bs c) (norm_param 0 255 3 3 false c)) = false /\ c_bs c = 12) /\
  (exists c, uint16_fields c /\ codec_jlsnear_accepts c = true /\
             jlsnear_representable (eargs_of c (c_bs c) (norm_param 0 255 3 3 false c)) = false /\ c_bs c = 2).
Proof. exact codec_jlsnear_refuted. Qed.
Print Assumptions C17_codec_jpegls_near_refuted.

Theorem C17_codec_rle_refuted :
  codec_rle_outcome {| c_nil_old := false; c_nil_new := false; c_nil_fi := false; c_w := 1; c_h := 0;
                       c_spp := 1; c_bs := 16; c_ba := 16; c_planar := 1; c_nframes := 1; c_flen := 1;
                       c_pkind := 0; c_param := 0; c_param_int := false |} = Ok tt /\
  codec_rle_outcome {| c_nil_old := false; c_nil_new := false; c_nil_fi := false; c_w := 5; c_h := 3;
                       c_spp := 3; c_bs := 1; c_ba := 64; c_planar := 0; c_nframes := 1; c_flen := 360;
                       c_pkind := 0; c_param := 0; c_param_int := false |} = Panic.
Proof. exact codec_rle_refuted. Qed.
Print Assumptions C17_codec_rle_refuted.

(* Validate() never rejects: the value used afterwards is always inside the documented range *)
Theorem C17_validate_normalises : forall lo hi d cd any c,
  lo <= d <= hi -> in_range lo hi (norm_param lo hi d cd any c) = true.
Proof. exact norm_param_in_range. Qed.
Print Assumptions C17_validate_normalises.
