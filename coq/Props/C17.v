(* C17 - an encoder called with arguments it cannot represent or satisfy returns an error.
   Property theorems only.

   Model: Framing/FrmValidate.v - the guards at the top of every package-level Encode and of
   every registry Codec.Encode / Parameters.Validate as boolean functions of the argument
   tuple (Go int64 products written out), as the code is AFTER the fix commits e80df58,
   96ebe7f, 9b2aa4a, 60ddb6e, 47e9276, 6841553; `representable` as the property text defines
   it (positive dimensions, <= 65535 for the formats with 16-bit size fields, supported
   component count / bit depth, parameter in range, pixel buffer long enough).

   STATE: `accepts a = true -> representable a` is proved without further hypotheses for
   baseline, extended (8 and 12 bit), lossless, SV1, JPEG-LS lossless, RLE (for every uint16
   FrameInfo; plus "never panics"), and for the registry codecs .50 .51 .57 .70 .80 .90-.93
   .201-.203 and RLE. For jpeg2000.Encoder it is proved for image and tile dimensions that
   fit the 32-bit SIZ fields and fewer than 2^59 pixels (int64 byte counts cannot wrap there).
   KNOWN FINDINGS, left open by decision, each with its `_refuted` witness and the `_partial`
   theorem naming the missing guard:
     FR-3  JPEG-LS near-lossless accepts NEAR > min(255, MAXVAL/2)
           (C17_jpegls_near_refuted / _partial, C17_codec_jpegls_near_refuted / _partial);
     FR-7  Parameters.Validate() normalises out-of-range values instead of returning an error
           (C17_validate_normalises, C17_validate_normalises_witness).
   Outside the property's quantifier (dimension values up to 2^16+1) but true of the code:
   jpeg2000.Encoder has no upper bound on Width/Height (C17_j2k_beyond_uint32_refuted).
   Not in the model: what the encoders do AFTER the guards (the harness checks "never panics,
   returned stream decodes to the requested geometry" on the implementation), ROI / MCT
   parameter validation of jpeg2000.EncodeParams, the RLE 4 GiB offset-overflow error. *)
From V Require Import Common.Base Framing.FrmValidate Framing.FrmProofsValidate.

(* ---------- package-level encoders ---------- *)

Theorem C17_baseline : forall a,
  baseline_accepts a = true -> baseline_representable a = true.
Proof. exact baseline_accepts_sound. Qed.
Print Assumptions C17_baseline.

Theorem C17_extended : forall a,
  extended_accepts a = true -> extended_representable a = true.
Proof. exact extended_accepts_sound. Qed.
Print Assumptions C17_extended.

Theorem C17_lossless : forall a,
  lossless_accepts a = true -> lossless_representable a = true.
Proof. exact lossless_accepts_sound. Qed.
Print Assumptions C17_lossless.

Theorem C17_sv1 : forall a,
  sv1_accepts a = true -> sv1_representable a = true.
Proof. exact sv1_accepts_sound. Qed.
Print Assumptions C17_sv1.

Theorem C17_jpegls : forall a,
  jls_accepts a = true -> jls_representable a = true.
Proof. exact jls_accepts_sound. Qed.
Print Assumptions C17_jpegls.

Example C17_package_nonvacuous :
  baseline_accepts {| a_len := 196605; a_w := 65535; a_h := 1; a_c := 3; a_p := 8; a_x := 100 |} = true /\
  baseline_accepts {| a_len := 196608; a_w := 65536; a_h := 1; a_c := 3; a_p := 8; a_x := 100 |} = false /\
  extended_accepts {| a_len := 131070; a_w := 1; a_h := 65535; a_c := 1; a_p := 12; a_x := 1 |} = true /\
  extended_accepts {| a_len := 131074; a_w := 1; a_h := 65537; a_c := 1; a_p := 12; a_x := 1 |} = false /\
  lossless_accepts {| a_len := 12; a_w := 2; a_h := 1; a_c := 3; a_p := 16; a_x := 7 |} = true /\
  sv1_accepts {| a_len := 65535; a_w := 65535; a_h := 1; a_c := 1; a_p := 2; a_x := 0 |} = true /\
  jls_accepts {| a_len := 18; a_w := 3; a_h := 1; a_c := 3; a_p := 9; a_x := 0 |} = true /\
  jls_accepts {| a_len := 17; a_w := 3; a_h := 1; a_c := 3; a_p := 9; a_x := 0 |} = false /\
  jls_accepts {| a_len := 65536; a_w := 65536; a_h := 1; a_c := 1; a_p := 8; a_x := 0 |} = false.
Proof. vm_compute. repeat split; reflexivity. Qed.

(* KNOWN FINDING FR-3: the only guard still missing is NEAR <= min(255, MAXVAL/2) *)
Theorem C17_jpegls_near_refuted :
  exists a, jlsnear_accepts a = true /\ jlsnear_representable a = false /\
            jls_representable a = true /\ near_max (a_p a) < a_x a <= 255.
Proof. exact jlsnear_accepts_refuted. Qed.
Print Assumptions C17_jpegls_near_refuted.

Theorem C17_jpegls_near_partial : forall a,
  a_x a <= near_max (a_p a) ->
  jlsnear_accepts a = true -> jlsnear_representable a = true.
Proof. exact jlsnear_accepts_partial. Qed.
Print Assumptions C17_jpegls_near_partial.
Example C17_jpegls_near_partial_nonvacuous :
  let a := {| a_len := 6; a_w := 3; a_h := 2; a_c := 1; a_p := 8; a_x := 127 |} in
  a_x a <= near_max (a_p a) /\ jlsnear_accepts a = true.
Proof. vm_compute. repeat split; discriminate. Qed.

(* jpeg2000.Encoder: validateParams + convertPixelData *)
Theorem C17_j2k : forall k,
  k_w k < 4294967296 -> k_h k < 4294967296 -> k_tw k < 4294967296 -> k_th k < 4294967296 ->
  k_w k * k_h k < 2 ^ 59 -> 0 <= k_ncq k -> 0 <= k_prog k ->
  j2k_accepts k = true -> j2k_representable k = true.
Proof. exact j2k_accepts_sound. Qed.
Print Assumptions C17_j2k.
Example C17_j2k_nonvacuous :
  let k := {| k_len := 786432; k_w := 512; k_h := 512; k_c := 3; k_p := 8; k_levels := 6; k_cbw := 64;
              k_cbh := 64; k_layers := 5; k_prog := 4; k_tw := 64; k_th := 64; k_quality := 100;
              k_lossless := false; k_ncq := 0 |} in
  j2k_accepts k = true /\ tiles_along (k_w k) (k_tw k) * tiles_along (k_h k) (k_th k) = 64 /\
  j2k_accepts {| k_len := 20; k_w := 5; k_h := 4; k_c := 1; k_p := 8; k_levels := 2; k_cbw := 64; k_cbh := 128;
                 k_layers := 1; k_prog := 0; k_tw := 0; k_th := 0; k_quality := 80; k_lossless := true;
                 k_ncq := 0 |} = false /\
  j2k_accepts {| k_len := 20; k_w := 5; k_h := 4; k_c := 1; k_p := 8; k_levels := 2; k_cbw := 64; k_cbh := 64;
                 k_layers := 1; k_prog := 5; k_tw := 0; k_th := 0; k_quality := 80; k_lossless := true;
                 k_ncq := 0 |} = false /\
  j2k_accepts {| k_len := 65792; k_w := 257; k_h := 256; k_c := 1; k_p := 8; k_levels := 0; k_cbw := 64;
                 k_cbh := 64; k_layers := 1; k_prog := 0; k_tw := 1; k_th := 1; k_quality := 80;
                 k_lossless := true; k_ncq := 0 |} = false.
Proof. vm_compute. repeat split; reflexivity. Qed.

(* outside the property's quantifier: no upper bound on Width/Height, the int64 count wraps *)
Theorem C17_j2k_beyond_uint32_refuted :
  exists k, 0 <= k_len k /\ j2k_accepts k = true /\ j2k_representable k = false /\ k_w k = 2 ^ 32.
Proof. exact j2k_accepts_beyond_uint32_refuted. Qed.
Print Assumptions C17_j2k_beyond_uint32_refuted.

(* rle.Codec.encodeFrame *)
Theorem C17_rle : forall r,
  0 <= r_w r <= 65535 -> 0 <= r_h r <= 65535 -> 0 <= r_ba r <= 65535 -> 0 <= r_spp r <= 65535 ->
  rle_accepts r = true -> rle_representable r = true.
Proof. exact rle_accepts_sound. Qed.
Print Assumptions C17_rle.

Theorem C17_rle_never_panics : forall r, rle_outcome r <> Panic.
Proof. exact rle_never_panics. Qed.
Print Assumptions C17_rle_never_panics.
Example C17_rle_nonvacuous :
  rle_accepts {| r_len := 90; r_w := 5; r_h := 3; r_ba := 16; r_spp := 3; r_planar := 1 |} = true /\
  rle_outcome {| r_len := 360; r_w := 5; r_h := 3; r_ba := 64; r_spp := 3; r_planar := 0 |} = Err /\
  rle_outcome {| r_len := 1; r_w := 1; r_h := 0; r_ba := 16; r_spp := 1; r_planar := 0 |} = Err.
Proof. vm_compute. repeat split; reflexivity. Qed.

(* ---------- registry codecs ---------- *)

Theorem C17_codec_baseline : forall c,
  codec_baseline_accepts c = true ->
  baseline_representable (eargs_of c 8 (norm_param 1 100 90 90 false c)) = true.
Proof. exact codec_baseline_sound. Qed.
Print Assumptions C17_codec_baseline.

Theorem C17_codec_extended : forall c,
  codec_extended_accepts c = true ->
  extended_representable (eargs_of c (if (0 <? c_bs c) && (c_bs c <=? 8) then 8 else 12)
                                     (norm_param 1 100 90 90 false c)) = true.
Proof. exact codec_extended_sound. Qed.
Print Assumptions C17_codec_extended.

Theorem C17_codec_bits_consistent : forall c,
  (codec_baseline_accepts c = true \/ codec_extended_accepts c = true \/ codec_htj2k_accepts c = true) ->
  c_bs c <> 0 /\ c_bs c <= c_ba c.
Proof. exact codec_bits_consistent. Qed.
Print Assumptions C17_codec_bits_consistent.

Theorem C17_codec_lossless57 : forall c,
  codec_lossless57_accepts c = true -> lossless_representable (eargs_of c (c_bs c) 1) = true.
Proof. exact codec_lossless57_sound. Qed.
Print Assumptions C17_codec_lossless57.

Theorem C17_codec_sv1 : forall c,
  codec_sv1_accepts c = true -> sv1_representable (eargs_of c (c_bs c) 0) = true.
Proof. exact codec_sv1_sound. Qed.
Print Assumptions C17_codec_sv1.

Theorem C17_codec_jpegls : forall c,
  codec_jls_accepts c = true -> jls_representable (eargs_of c (c_bs c) 0) = true.
Proof. exact codec_jls_sound. Qed.
Print Assumptions C17_codec_jpegls.

Theorem C17_codec_j2k : forall c, uint16_fields c ->
  codec_j2k_accepts c = true -> j2k_representable (j2k_of_codec c (c_bs c) 0) = true.
Proof. exact codec_j2k_sound. Qed.
Print Assumptions C17_codec_j2k.

Theorem C17_codec_htj2k : forall c, uint16_fields c ->
  codec_htj2k_accepts c = true -> j2k_representable (j2k_of_codec c (c_ba c) 2) = true.
Proof. exact codec_htj2k_sound. Qed.
Print Assumptions C17_codec_htj2k.

Theorem C17_codec_rle : forall c, uint16_fields c ->
  codec_rle_outcome c <> Panic /\
  (codec_rle_outcome c = Ok tt -> 0 < c_nframes c ->
   rle_representable {| r_len := c_flen c; r_w := c_w c; r_h := c_h c; r_ba := c_ba c;
                        r_spp := c_spp c; r_planar := c_planar c |} = true).
Proof. exact codec_rle_sound. Qed.
Print Assumptions C17_codec_rle.

Example C17_codec_nonvacuous :
  let c := {| c_nil_old := false; c_nil_new := false; c_nil_fi := false; c_w := 65535; c_h := 2; c_spp := 3;
              c_bs := 8; c_ba := 8; c_planar := 0; c_nframes := 2; c_flen := 393210; c_pkind := 1;
              c_param := 101; c_param_int := false |} in
  uint16_fields c /\ codec_baseline_accepts c = true /\ codec_extended_accepts c = true /\
  codec_lossless57_accepts c = true /\ codec_sv1_accepts c = true /\ codec_jls_accepts c = true /\
  codec_j2k_accepts c = true /\ codec_htj2k_accepts c = true /\ codec_rle_outcome c = Ok tt.
Proof. unfold uint16_fields. vm_compute. repeat split; discriminate. Qed.

(* KNOWN FINDING FR-3 at the registry: default NEAR = 3 with BitsStored = 2 *)
Theorem C17_codec_jpegls_near_refuted :
  exists c, uint16_fields c /\ codec_jlsnear_accepts c = true /\
            jlsnear_representable (eargs_of c (c_bs c) (norm_param 0 255 3 3 false c)) = false /\
            jls_representable (eargs_of c (c_bs c) 0) = true /\ c_bs c = 2.
Proof. exact codec_jlsnear_refuted. Qed.
Print Assumptions C17_codec_jpegls_near_refuted.

Theorem C17_codec_jpegls_near_partial : forall c,
  norm_param 0 255 3 3 false c <= near_max (c_bs c) ->
  codec_jlsnear_accepts c = true ->
  jlsnear_representable (eargs_of c (c_bs c) (norm_param 0 255 3 3 false c)) = true.
Proof. exact codec_jlsnear_partial. Qed.
Print Assumptions C17_codec_jpegls_near_partial.
Example C17_codec_jpegls_near_partial_nonvacuous :
  let c := {| c_nil_old := false; c_nil_new := false; c_nil_fi := false; c_w := 5; c_h := 3; c_spp := 1;
              c_bs := 12; c_ba := 16; c_planar := 0; c_nframes := 1; c_flen := 30; c_pkind := 1;
              c_param := 255; c_param_int := false |} in
  norm_param 0 255 3 3 false c <= near_max (c_bs c) /\ codec_jlsnear_accepts c = true.
Proof. vm_compute. split; [discriminate | reflexivity]. Qed.

(* KNOWN FINDING FR-7: Validate() never rejects; the value used afterwards is always inside
   the documented range, e.g. quality 101 is encoded as quality 90 without an error *)
Theorem C17_validate_normalises : forall lo hi d cd any c,
  lo <= d <= hi -> in_range lo hi (norm_param lo hi d cd any c) = true.
Proof. exact norm_param_in_range. Qed.
Print Assumptions C17_validate_normalises.

Theorem C17_validate_normalises_witness :
  let c := {| c_nil_old := false; c_nil_new := false; c_nil_fi := false; c_w := 5; c_h := 3; c_spp := 1;
              c_bs := 8; c_ba := 8; c_planar := 0; c_nframes := 1; c_flen := 15; c_pkind := 1;
              c_param := 101; c_param_int := false |} in
  codec_baseline_accepts c = true /\ c_param c = 101 /\ norm_param 1 100 90 90 false c = 90.
Proof. exact validate_normalises_witness. Qed.
Print Assumptions C17_validate_normalises_witness.
