(* C11, tie by translation (third list): the generated bodies of jpeg/standard ijgDescale, jpeg/extended sequential12Descale (for ALL arguments) and sequential12Quantize (for every int32 coefficient; exact agreement set given) equal DctIslow.descale / DctQuant.quant_coded32, the functions the C11 theorems are stated about; the translation narrows after every int32 operation, the models only where it matters. *)
From V Require Import Common.Base Gen.KernelsMore_gen Tie.TieKernelsMore2Jpeg.
Require V.JpegDCT.DctIslow V.JpegDCT.DctQuant.

Theorem C11_tie3_ijgDescale : forall v s, jpeg_standard_ijgDescale v s = V.JpegDCT.DctIslow.descale v s.
Proof. exact tie_ijgDescale. Qed.
Print Assumptions C11_tie3_ijgDescale.

Theorem C11_tie3_sequential12Descale : forall v s, jpeg_extended_sequential12Descale v s = V.JpegDCT.DctIslow.descale v s.
Proof. exact tie_sequential12Descale. Qed.
Print Assumptions C11_tie3_sequential12Descale.

Theorem C11_tie3_sequential12Quantize : forall c d, - 2 ^ 31 <= c < 2 ^ 31 ->
  jpeg_extended_sequential12Quantize c d = V.JpegDCT.DctQuant.quant_coded32 c d.
Proof. exact tie_sequential12Quantize. Qed.
Print Assumptions C11_tie3_sequential12Quantize.

(* the exact agreement set *)
Theorem C11_tie3_sequential12Quantize_exact : forall c d,
  ~ (0 <= c /\ d = -1 /\ wrapS 32 c = - 2 ^ 31) ->
  jpeg_extended_sequential12Quantize c d = V.JpegDCT.DctQuant.quant_coded32 c d.
Proof. exact tie_sequential12Quantize_gen. Qed.
Print Assumptions C11_tie3_sequential12Quantize_exact.

Example C11_tie3_instance :
  - 2 ^ 31 <= -1000 < 2 ^ 31 /\ jpeg_extended_sequential12Quantize (-1000) 24 = -42 /\
  jpeg_extended_sequential12Quantize 2147483647 (-1) = -2147483647 /\
  ~ (0 <= 7 /\ 16 = -1 /\ wrapS 32 7 = - 2 ^ 31) /\
  jpeg_standard_ijgDescale 2147483647 11 = -1048576 /\
  (* outside the hypothesis (coefficient not an int32) the two functions differ: *)
  jpeg_extended_sequential12Quantize (2 ^ 31) (-1) = - 2 ^ 31 /\
  V.JpegDCT.DctQuant.quant_coded32 (2 ^ 31) (-1) = 2 ^ 31.
Proof. vm_compute. repeat split; try reflexivity; try discriminate. intros [_ [H _]]. discriminate H. Qed.
