(* C15 (entropy layer) -- agreement with an independent JPEG.  The block / scan round trip
   (C11_ent.v) holds for ANY valid table pair, not only for the tables this encoder builds;
   here: the T.81 K.3-K.6 "typical" tables as they stand in /repo contain every symbol a
   baseline-range block can need (K.4/K.6: DC categories 0..11, AC categories 1..10, all runs;
   K.3 as in /repo lacks category 11, cf. C15_std_dc_luminance_is_not_K3 in C15.v), so blocks
   coded by an independent encoder with these tables are inside the domain of
   C11_ent_block_roundtrip.  The run-time side (harness/suites/jpegent/c15.go): streams of Go's
   image/jpeg (one DHT segment with four tables, 4:2:0) are decoded by the model decoder, and
   the model encoder reproduces image/jpeg's grey scan bytes from the decoded blocks. *)
From V Require Import Common.Base Gen.JpegTables_gen JpegLL.JllBits JpegLL.JllHuff JpegLL.JllProofsBits
  JpegEnt.JentModel JpegEnt.JentProofsBlock JpegEnt.JentProofsScan JpegEnt.JentProofsNat JpegEnt.JentProofsEx
  JpegEnt.JentProofsStd.

Theorem C15_ent_std_tables_cover : forall pred zz,
  length zz = 64%nat -> base_dc (hd 0 zz - pred) -> - 2 ^ 31 <= hd 0 zz < 2 ^ 31 ->
  Forall base_ac (tl zz) ->
  block_ok ex_dvC ex_avC pred zz /\
  (-1023 <= hd 0 zz - pred <= 1023 -> block_ok ex_dvL ex_avL pred zz).
Proof. exact std_tables_cover. Qed.
Print Assumptions C15_ent_std_tables_cover.
Example C15_ent_std_instance :
  length ex_zz2 = 64%nat /\ base_dc (hd 0 ex_zz2 - (-2000)) /\ - 2 ^ 31 <= hd 0 ex_zz2 < 2 ^ 31 /\
  Forall base_ac (tl ex_zz2) /\
  ex_dvC = jpeg_huff_standard_dc_chrominance_vals /\ ex_avC = jpeg_huff_standard_ac_chrominance_vals.
Proof.
  split; [reflexivity|]. split; [unfold base_dc; cbn; lia|]. split; [cbn; lia|].
  split; [|split; reflexivity].
  apply Forall_forall. intros v Hv. unfold base_ac.
  assert (H : forallb (fun v => (-1023 <=? v) && (v <=? 1023)) (tl ex_zz2) = true) by (vm_compute; reflexivity).
  apply (proj1 (forallb_forall _ _) H) in Hv. lia.
Qed.

(* what the encoder puts between the SOS header and EOI is a stuffed byte string (every FF is
   followed by 00: no marker inside, any T.81 decoder finds the same scan end) carrying exactly
   the scan's code words followed by fewer than 8 padding bits *)
Theorem C15_ent_scan_stuffed : forall codes dcT acT tabs mcus,
  mcus_ok codes dcT acT tabs (map (fun _ => 0) tabs) mcus ->
  exists bs pad, enc_scan_bytes codes tabs mcus = stuff bs /\ bytes_ok bs /\
                 bits8 bs = wbits (enc_scan_words codes tabs mcus) ++ pad /\ (length pad < 8)%nat.
Proof. exact ent_scan_stuffed. Qed.
Print Assumptions C15_ent_scan_stuffed.
Example C15_ent_scan_stuffed_instance :
  mcus_ok ex_codes ex_dcT ex_acT [0; 1; 1] (map (fun _ => 0) [0; 1; 1]) ex_mcus.
Proof. exact ex_mcus_ok. Qed.

(* Restart intervals (DRI + RSTn), which foreign streams use and this library's encoder never
   emits.  JentRst.enc_scan_rst is a SPEC encoder written from T.81 E.1.4 / F.1.2.3: intervals
   of Ri MCUs (the last may be shorter), each coded on its own with DC predictors starting at 0
   and padded with 1-bits, separated by RSTm = FF D0+(m mod 8).  The library's decodeScan
   (split at RSTn, switch interval and zero the predictors at every MCU k > 0 with
   k mod Ri = 0) returns exactly the encoder's blocks, for every Ri >= 1 and every number of
   MCUs.  The hypothesis is mcus_ok per interval (predictors restart at 0).  The Go decoder
   needs at least ceil(nmcu/Ri) intervals (fewer: ErrInvalidData), ignores surplus intervals
   and does not check m; a valid scan has exactly ceil(nmcu/Ri), the case stated. *)
From V Require Import JpegDCT.DctRestart JpegEnt.JentRst JpegEnt.JentProofsRst JpegEnt.JentProofsRstEx.

Theorem C15_ent_restart_roundtrip : forall codes dcT acT tabs ri mcus tail,
  1 <= ri ->
  Forall (mcus_ok codes dcT acT tabs (map (fun _ => 0) tabs)) (chunks (Z.to_nat ri) mcus) ->
  scan_end tail ->
  dec_scan dcT acT (map comp_of tabs) ri (length mcus) (enc_scan_rst codes tabs ri mcus ++ tail)
  = Ok (concat (map (tag 0) mcus)).
Proof. exact ent_scan_rst_roundtrip. Qed.
Print Assumptions C15_ent_restart_roundtrip.
Example C15_ent_restart_instance :
  1 <= 2 /\
  Forall (mcus_ok ex_codes ex_dcT ex_acT [0] (map (fun _ => 0) [0])) (chunks (Z.to_nat 2) ex_grey_mcus) /\
  scan_end [255; 217] /\
  enc_scan_rst ex_codes [0] 2 ex_grey_mcus
  = enc_scan_bytes ex_codes [0] [[ex_zz1]; [ex_zz2]] ++ [255; 208] ++ enc_scan_bytes ex_codes [0] [[ex_zz1]] /\
  dec_scan ex_dcT ex_acT (map comp_of [0]) 2 3 (enc_scan_rst ex_codes [0] 2 ex_grey_mcus ++ [255; 217])
  = Ok [(0, ex_zz1); (0, ex_zz2); (0, ex_zz1)] /\
  dec_scan ex_dcT ex_acT (map comp_of [0]) 1 3 (enc_scan_rst ex_codes [0] 2 ex_grey_mcus ++ [255; 217]) = Err.
Proof.
  destruct ex_rst_eval as (E1 & E2 & E3 & _).
  split; [lia|]. split; [exact ex_rst_ok|]. split; [exact ex_scan_end|]. split; [exact E1|]. split; [exact E2 | exact E3].
Qed.
