(* C15 (entropy layer) -- agreement with an independent JPEG.  The block / scan round trip
   (C11_ent.v) holds for ANY valid table pair, not only for the tables this encoder builds;
   here: the T.81 K.3-K.6 "typical" tables as they stand in /repo contain every symbol a
   baseline-range block can need (K.4/K.6: DC categories 0..11, AC categories 1..10, all runs;
   K.3 as in /repo lacks category 11, cf. C15_std_dc_luminance_is_not_K3 in C15.v), so blocks
   coded by an independent encoder with these tables are inside the domain of
   C11_ent_block_roundtrip.  The run-time side (harness/suites/jpegent/c15.go): streams of Go's
   image/jpeg (one DHT segment with four tables, 4:2:0) are decoded by the model decoder, and
   the model encoder reproduces image/jpeg's grey scan bytes from the decoded blocks. *)
From V Require Import Common.Base Gen.JpegTables_gen JpegLL.JllBits JpegLL.JllHuff JpegLL.JllProofsBits
  JpegEnt.JentModel JpegEnt.JentProofsBlock JpegEnt.JentProofsScan JpegEnt.JentProofsNat JpegEnt.JentProofsEx
  JpegEnt.JentProofsStd.

Theorem C15_ent_std_tables_cover : forall pred zz,
  length zz = 64%nat -> base_dc (hd 0 zz - pred) -> - 2 ^ 31 <= hd 0 zz < 2 ^ 31 ->
  Forall base_ac (tl zz) ->
  block_ok ex_dvC ex_avC pred zz /\
  (-1023 <= hd 0 zz - pred <= 1023 -> block_ok ex_dvL ex_avL pred zz).
Proof. exact std_tables_cover. Qed.
Print Assumptions C15_ent_std_tables_cover.
Example C15_ent_std_instance :
  length ex_zz2 = 64%nat /\ base_dc (hd 0 ex_zz2 - (-2000)) /\ - 2 ^ 31 <= hd 0 ex_zz2 < 2 ^ 31 /\
  Forall base_ac (tl ex_zz2) /\
  ex_dvC = jpeg_huff_standard_dc_chrominance_vals /\ ex_avC = jpeg_huff_standard_ac_chrominance_vals.
Proof.
  split; [reflexivity|]. split; [unfold base_dc; cbn; lia|]. split; [cbn; lia|].
  split; [|split; reflexivity].
  apply Forall_forall. intros v Hv. unfold base_ac.
  assert (H : forallb (fun v => (-1023 <=? v) && (v <=? 1023)) (tl ex_zz2) = true) by (vm_compute; reflexivity).
  apply (proj1 (forallb_forall _ _) H) in Hv. lia.
Qed.

(* what the encoder puts between the SOS header and EOI is a stuffed byte string (every FF is
   followed by 00: no marker inside, any T.81 decoder finds the same scan end) carrying exactly
   the scan's code words followed by fewer than 8 padding bits *)
Theorem C15_ent_scan_stuffed : forall codes dcT acT tabs mcus,
  mcus_ok codes dcT acT tabs (map (fun _ => 0) tabs) mcus ->
  exists bs pad, enc_scan_bytes codes tabs mcus = stuff bs /\ bytes_ok bs /\
                 bits8 bs = wbits (enc_scan_words codes tabs mcus) ++ pad /\ (length pad < 8)%nat.
Proof. exact ent_scan_stuffed. Qed.
Print Assumptions C15_ent_scan_stuffed.
Example C15_ent_scan_stuffed_instance :
  mcus_ok ex_codes ex_dcT ex_acT [0; 1; 1] (map (fun _ => 0) [0; 1; 1]) ex_mcus.
Proof. exact ex_mcus_ok. Qed.
