(* C04 / C05 / C19 — exact reversible reconstruction: the JPEG 2000 tier-2 packet layer (area t2).
   Property theorems only.  Models: Framing/FrmWriters.v (bioWriter), T2/T2Bio.v (bioReader),
   T2/T2TagTree.v, T2/T2Header.v, T2/T2Packets.v.  "BitsAt rest r bits" (T2ProofsBio) says: the
   reader r is positioned, inside bytes that bioWriter produced followed by `rest`, on `bits`.
   These theorems discharge, for the packet layer, the `t2_rt` hypothesis of the C04 pipeline
   theorem: every code-block's contribution of every layer arrives unchanged. *)
From V Require Import Common.Base Framing.FrmWriters Framing.FrmProofsBio T2.T2Bio T2.T2TagTree T2.T2Header
  T2.T2Packets T2.T2ProofsBio T2.T2ProofsCodes T2.T2ProofsStore T2.T2ProofsTagTree T2.T2ProofsTagTree2
  T2.T2ProofsTagTree3 T2.T2ProofsSafe T2.T2ProofsHeader T2.T2ProofsHeader2 T2.T2ProofsHeader3.

(* ---------------------------------------------------------------------------------------- *)
(* bit I/O *)

(* For ANY non-empty sequence of bits: the reader on (writeBit for every bit; flush) ++ rest
   returns the bits; alignToByte then leaves it exactly at `rest` having consumed exactly the
   writer's bytes - also when the header ends in 0xFF with no bit pending (finding F19). *)
Theorem C04_t2_bio_roundtrip : forall (bits rest : list Z), bits <> [] -> Forall bit01 bits ->
  exists r r',
    rd_read_list (length bits) (rd_init (bio_encode bits ++ rest)) = Ok (bits, r) /\
    rd_align r = Ok r' /\ rd_data r' = rest /\ rd_pos r' = zlen (bio_encode bits) /\ rd_ct r' = 0.
Proof. exact bio_roundtrip. Qed.
Print Assumptions C04_t2_bio_roundtrip.

Example C04_t2_bio_roundtrip_nonvacuous :
  [1; 1; 1; 1; 1; 1; 1; 1] <> [] /\ Forall bit01 [1; 1; 1; 1; 1; 1; 1; 1] /\
  bio_encode [1; 1; 1; 1; 1; 1; 1; 1] = [255; 0] /\
  (exists r, rd_read_list 8 (rd_init ([255; 0] ++ [171])) = Ok ([1; 1; 1; 1; 1; 1; 1; 1], r) /\
             exists r', rd_align r = Ok r' /\ rd_data r' = [171] /\ rd_pos r' = 2).
Proof.
  split; [discriminate|]. split; [repeat (constructor; [right; reflexivity|]); constructor|].
  split; [vm_compute; reflexivity|]. eexists. split; [vm_compute; reflexivity|].
  eexists. split; [vm_compute; reflexivity|]. split; reflexivity.
Qed.

(* the empty bit list really is different (no packet header is empty) *)
Theorem C04_t2_bio_roundtrip_empty_refuted :
  exists rest r', rd_align (rd_init (bio_encode [] ++ rest)) = Ok r' /\ rd_data r' <> rest.
Proof. exact bio_roundtrip_empty_refuted. Qed.
Print Assumptions C04_t2_bio_roundtrip_empty_refuted.

(* in the writer's output every FF is followed by a byte < 0x80 and the last byte is not FF
   (same writer model; proved in the framing area) *)
Theorem C04_t2_bio_no_marker : forall bits : list Z, ff_lt80 (bio_encode bits) = true.
Proof. exact bio_no_marker. Qed.
Print Assumptions C04_t2_bio_no_marker.

(* readBits(n) returns what writeBits(v, n) wrote, 1 <= n <= 32, 0 <= v < 2^n *)
Theorem C04_t2_read_bits : forall rest r v n more, 1 <= n <= 32 -> 0 <= v < 2 ^ n ->
  BitsAt rest r (bits_of v n ++ more) ->
  exists r', rd_read_bits r n = Ok (v, r') /\ BitsAt rest r' more.
Proof. exact bitsat_read_bits. Qed.
Print Assumptions C04_t2_read_bits.

(* ---------------------------------------------------------------------------------------- *)
(* numeric codes *)

(* every number of passes 1..164 decodes to itself whatever follows (whole domain) *)
Theorem C04_t2_numpasses_code_exhaustive : forall n bs rest r more, 1 <= n <= 164 ->
  enc_numpasses n = Ok bs -> BitsAt rest r (bs ++ more) ->
  exists r', dec_numpasses r = Ok (n, r') /\ BitsAt rest r' more.
Proof. exact numpasses_code_exhaustive. Qed.
Print Assumptions C04_t2_numpasses_code_exhaustive.

Theorem C04_t2_numpasses_prefix_free :
  forallb (fun n => forallb (fun m => (n =? m) || negb (is_prefix (np_bits n) (np_bits m)))
                      (map (Z.add 1) (zseq 164))) (map (Z.add 1) (zseq 164)) = true.
Proof. exact numpasses_prefix_free. Qed.
Print Assumptions C04_t2_numpasses_prefix_free.

Example C04_t2_numpasses_nonvacuous :
  enc_numpasses 1 = Ok [0] /\ enc_numpasses 5 = Ok [1; 1; 1; 0] /\ enc_numpasses 37 = Ok [1; 1; 1; 1; 1; 1; 1; 1; 1; 0; 0; 0; 0; 0; 0; 0]
  /\ enc_numpasses 165 = Err.
Proof. repeat split; vm_compute; reflexivity. Qed.

Theorem C04_t2_comma_roundtrip : forall n rest r more, 0 <= n ->
  BitsAt rest r (enc_comma n ++ more) ->
  exists r', dec_comma r = Ok (n, r') /\ BitsAt rest r' more.
Proof. exact comma_roundtrip. Qed.
Print Assumptions C04_t2_comma_roundtrip.

(* Lblock: one contribution of np >= 1 passes.  Single-segment variant, per-segment variant
   without TERMALL (no terminated pass before the last of the range) and TERMALL variant: the
   decoder returns the announced length (and the per-pass lengths under TERMALL) and its
   NumLenBits equals the encoder's afterwards. *)
Theorem C04_t2_lblock_roundtrip : forall nlbE nlbD dataLen prev np termAll pl terms bs nlbE' rest r more,
  lengths_domain dataLen prev np termAll pl terms ->
  norm_nlb nlbE = norm_nlb nlbD -> 1 <= norm_nlb nlbE <= 25 ->
  enc_lengths nlbE dataLen prev np termAll pl terms = Ok (bs, nlbE') ->
  BitsAt rest r (bs ++ more) ->
  exists pls r', dec_lengths r np nlbD termAll = Ok (announced dataLen prev np pl, pls, nlbE', r') /\
    BitsAt rest r' more /\ 1 <= nlbE' <= 25 /\ norm_nlb nlbE' = nlbE' /\
    (termAll = true -> pls = match pl with Some l => seg_slice l prev np | None => [] end) /\
    (termAll = false -> pls = []).
Proof. exact lblock_roundtrip. Qed.
Print Assumptions C04_t2_lblock_roundtrip.

Example C04_t2_lblock_nonvacuous :
  lengths_domain 70000 0 3 false None [] /\ norm_nlb 0 = norm_nlb 3 /\ 1 <= norm_nlb 0 <= 25 /\
  (exists bs, enc_lengths 0 70000 0 3 false None [] = Ok (bs, 16)) /\
  lengths_domain 0 2 2 true (Some [5; 0; 300; 7]) [] /\
  (exists bs, enc_lengths 3 0 2 2 true (Some [5; 0; 300; 7]) [] = Ok (bs, 9)).
Proof.
  unfold lengths_domain. change (2 ^ 25) with 33554432.
  split; [split; [lia|]; split; [lia | reflexivity]|].
  split; [reflexivity|]. split; [vm_compute; split; discriminate|].
  split; [eexists; vm_compute; reflexivity|].
  split; [|eexists; vm_compute; reflexivity].
  split; [lia|]. split; [lia|]. change (2 + 2 >? zlen [5; 0; 300; 7]) with false. cbv iota.
  change (seg_slice [5; 0; 300; 7] 2 2) with [300; 7]. change (zsum [300; 7]) with 307.
  split; [lia|]. split; [intros x [<-|[<-|[]]]; lia|]. split; [lia | discriminate].
Qed.

(* outside that domain (a terminated pass in the middle without TERMALL: selective bypass) the
   decoder reads one length where the encoder wrote two *)
Theorem C04_t2_lblock_midterm_refuted :
  exists dataLen pl terms bs nlb',
    enc_lengths 0 dataLen 0 2 false (Some pl) terms = Ok (bs, nlb') /\
    forall r', dec_lengths (rd_init (bio_encode bs)) 2 0 false <> Ok (announced dataLen 0 2 (Some pl), [], nlb', r').
Proof. exact lblock_midterm_refuted. Qed.
Print Assumptions C04_t2_lblock_midterm_refuted.

(* ---------------------------------------------------------------------------------------- *)
(* tag trees *)

(* any w x h, any history of SetValue and queries following the discipline tq_ok (see
   T2ProofsTagTree3.v): the decoder consumes exactly the encoder's bits, and answers every
   query with the leaf value when it is set and below the encoder's threshold, with a number
   >= its own threshold (or the already revealed value) otherwise.  No bound on the values. *)
Theorem C04_t2_tagtree_roundtrip : forall w h ops, tq_ok (tt_new w h) 0 ops ->
  exists bs te', tq_enc (tt_new w h) ops = Ok (bs, te') /\ Forall bit01 bs /\
    forall rest r more, BitsAt rest r (bs ++ more) ->
    exists ans td' r', tq_dec (tt_new w h) r ops = Ok (ans, td', r') /\ BitsAt rest r' more /\
      tq_answers (tt_new w h) ops ans.
Proof. exact tagtree_roundtrip. Qed.
Print Assumptions C04_t2_tagtree_roundtrip.

Example C04_t2_tagtree_nonvacuous :
  (* 3x2 leaves; layer 0: leaf (2,1) included; layer 1000: leaf (0,0) included at layer 1000 *)
  let ops := [QSet 2 1 0; QQry 0 0 1 1; QQry 2 1 1 1; QSet 0 0 1000; QQry 0 0 1001 1001; QQry 1 0 1001 1001] in
  tq_ok (tt_new 3 2) 0 ops /\
  (exists bs te', tq_enc (tt_new 3 2) ops = Ok (bs, te') /\ zlen bs = 1006 /\ firstn 4 bs = [1; 0; 1; 1]).
Proof.
  cbv zeta. split.
  - cbn [tq_ok]. split; [lia|]. split; [reflexivity|]. split; [left; reflexivity|].
    split; [reflexivity|]. split; [left; reflexivity|]. split; [vm_compute; discriminate|].
    split; [reflexivity|]. split; [left; reflexivity|]. split; [reflexivity|]. split; [left; reflexivity | exact I].
  - eexists. eexists. split; [vm_compute; reflexivity|]. split; vm_compute; reflexivity.
Qed.

(* the fact the header proofs use *)
Theorem C04_t2_tagtree_query_sync : forall te td tmax x y the thd bs te' rest r more,
  TTInv te td tmax -> tt_in_range te x y = true ->
  let leaf := (0, y * tt_w te + x) in
  (the = thd \/ (nu te leaf = false /\ nv te leaf < the /\ nv te leaf < thd)) ->
  tt_encode te x y the = Ok (bs, te') -> BitsAt rest r (bs ++ more) ->
  exists res td' r', tt_decode td r x y thd = Ok (res, td', r') /\ BitsAt rest r' more /\
    TTInv te' td' (Z.max tmax the) /\ tt_nodes te' = tt_nodes te /\ tt_unset te' = tt_unset te /\
    same_geom te te' /\
    (nk te' leaf = true -> res = nv te leaf) /\ (nk te' leaf = false -> thd <= res) /\
    (nu te leaf = false -> nv te leaf < the -> nk te' leaf = true) /\
    (nk te' leaf = true -> nu te leaf = false).
Proof. exact tt_query_sync. Qed.
Print Assumptions C04_t2_tagtree_query_sync.

(* ---------------------------------------------------------------------------------------- *)
(* packet headers *)

(* One layer.  BandsRel termAll L l ps ds (T2ProofsHeader3.v) relates the encoder's ordered
   Precinct list and the decoder's band list before layer l: per band equal grid sizes > 0,
   code-blocks at distinct in-grid positions sorted by (CBY, CBX), the decoder iterating the
   same positions; 0 <= ZeroBitPlanes < 32; every contribution of every remaining layer inside
   the domain of the codes (1..164 new passes, lengths < 2^25, the announced length equal to the
   length of the data that goes into the body, TERMALL switch agreeing) - and the dynamic part:
   new state at layer 0, the related state left by layer l-1 otherwise.  Bands without
   code-blocks / with empty grids may be interspersed on either side (finding F01).
   Then: whatever follows the header, parsePacketHeaderMulti consumes exactly the header bytes
   and returns for every code-block the encoder's flags, pass count, length, zero-bit-planes
   and (TERMALL) per-pass lengths; the states are related again for layer l+1. *)
Theorem C04_t2_packet_header_roundtrip : forall termAll L l ps ds hdr incs ps' rest,
  BandsRel termAll L l ps ds -> 0 <= l < L ->
  enc_header ps l = Ok (hdr, incs, ps') ->
  exists ds', parse_header (hdr ++ rest) l ds termAll =
                Ok (zlen hdr, has_code_blocks ps, exp_d termAll l ps, ds') /\
              incs = exp_e l ps /\ BandsRel termAll L (l + 1) ps' ds' /\
              (forall l', exp_e l' ps' = exp_e l' ps).
Proof. exact packet_header_roundtrip. Qed.
Print Assumptions C04_t2_packet_header_roundtrip.

(* All layers l .. l+n-1 in order, each header followed by arbitrary bytes. *)
Theorem C04_t2_packet_header_layers_roundtrip : forall termAll L n l ps ds hs,
  BandsRel termAll L l ps ds -> 0 <= l -> l + Z.of_nat n <= L ->
  enc_layers ps l n = Ok hs -> layers_decoded termAll L l hs ds.
Proof. exact packet_header_layers_roundtrip. Qed.
Print Assumptions C04_t2_packet_header_layers_roundtrip.

(* a concrete precinct: one band of 2x1 code-blocks (the second first included in layer 1, with
   a zero-length contribution), one band without code-blocks, an empty-grid band on the decoder
   side; three layers *)
Definition ex_block (x zbp : Z) (lp : list Z) (ld : list (list Z)) : eblock :=
  {| eb_cbx := x; eb_cby := 0; eb_zbp := zbp; eb_lp := lp; eb_ld := Some ld; eb_data := []; eb_npt := 0;
     eb_pl := []; eb_passes := []; eb_termall := false; eb_included := false; eb_nlb := 0 |}.
Definition ex_ps : list eband :=
  [ {| ebn_band := 1; ebn_w := 0; ebn_h := 0; ebn_blocks := []; ebn_trees := None |};
    {| ebn_band := 2; ebn_w := 2; ebn_h := 1;
       ebn_blocks := [ex_block 0 3 [2; 2; 7] [[255; 255; 1]; []; [9; 8; 7; 6; 5; 4; 3; 2; 1]];
                      ex_block 1 31 [0; 1; 1] [[]; []; []]];
       ebn_trees := None |} ].
Definition ex_ds : list dband :=
  [ {| dbn_w := 0; dbn_h := 5; dbn_pos := []; dbn_incl := None; dbn_zbp := None; dbn_states := None |};
    {| dbn_w := 2; dbn_h := 1; dbn_pos := []; dbn_incl := None; dbn_zbp := None; dbn_states := None |} ].

Example C04_t2_packet_header_nonvacuous :
  BandsRel false 3 0 ex_ps ex_ds /\
  (exists hs, enc_layers ex_ps 0 3 = Ok hs /\ map fst hs = [[227; 134]; [160; 0; 0; 1; 0]; [248; 144]]).
Proof.
  split.
  - apply BR_skip_e; [reflexivity|]. apply BR_skip_d; [left; cbn; lia | split; intros t E; discriminate|].
    apply BR_both; [|constructor].
    split.
    + unfold band_static. cbn [ex_ps ex_ds ebn_w ebn_h ebn_blocks dbn_w dbn_h nth].
      split; [reflexivity|]. split; [reflexivity|]. split; [lia|]. split; [lia|]. split; [discriminate|].
      split; [cbn; split; [reflexivity | exact I]|]. split; [vm_compute; reflexivity|].
      split; [cbn [map pos_of ex_block eb_cbx eb_cby]; constructor;
              [intros [H|[]]; discriminate | constructor; [intros [] | constructor]]|].
      assert (Hdom : forall b l', In b [ex_block 0 3 [2; 2; 7] [[255; 255; 1]; []; [9; 8; 7; 6; 5; 4; 3; 2; 1]];
                                        ex_block 1 31 [0; 1; 1] [[]; []; []]] ->
                       0 <= l' < 3 -> block_layer_ok false b l').
      { intros b l' Hb Hl. assert (Hc : l' = 0 \/ l' = 1 \/ l' = 2) by lia.
        destruct Hb as [<-|[<-|[]]]; destruct Hc as [->|[->| ->]]; unfold block_layer_ok; vm_compute;
          try discriminate; intros _; repeat split; try discriminate; try reflexivity; intros; discriminate. }
      constructor; [|constructor; [|constructor]].
      * split; [unfold in_grid; cbn [ex_block eb_cbx eb_cby]; lia|]. split; [cbn [ex_block eb_zbp]; lia|].
        intros l' Hl. apply Hdom; [left; reflexivity | lia].
      * split; [unfold in_grid; cbn [ex_block eb_cbx eb_cby]; lia|]. split; [cbn [ex_block eb_zbp]; lia|].
        intros l' Hl. apply Hdom; [right; left; reflexivity | lia].
    + left. split; [reflexivity|]. unfold band_fresh. cbn. repeat split; repeat constructor.
  - eexists. split; vm_compute; reflexivity.
Qed.

(* ---------------------------------------------------------------------------------------- *)
(* packets of a tile *)
From V Require Import T2.T2ProofsPackets1 T2.T2ProofsPackets2 T2.T2ProofsProg T2.T2ProofsProg2 T2.T2ProofsPackets3 T2.T2ProofsGather.

(* The packet stream of a tile, for ANY visiting sequence in which every cell (component,
   resolution, precinct) of `keys` sees its remaining layers in increasing order (Sched): the
   decoder, run over the concatenation header ++ body of the encoder's packets, produces one
   packet per encoder packet with the same (layer, resolution, component, precinct), the same
   body, and for every code-block the encoder's included flag, pass count and data bytes
   (PktMatch / body_match); what the encoder recorded is the contribution schedule of the
   cell's blocks (incls_ok).  CellRel says: the cell exists in the encoder's store with its
   Precinct objects in band order, and they are related (BandsRel) to the band list the decoder
   derives from cbPrecinctDims / cbPrecinctPositions and its store.  small_packets: no single
   contribution exceeds 65535 bytes (decodePacket truncates longer segments). *)
Theorem C04_t2_packet_stream_roundtrip : forall termAll L geo strict resilient keys items cells0 cells store nxt pre eps cells',
  (forall k, In k keys -> CellRel termAll L geo (nxt k) k cells store) ->
  (forall k, In k keys -> exists b b0, aget key3_eqb cells k = Some b /\ aget key3_eqb cells0 k = Some b0 /\
                                       forall l', exp_e l' b = exp_e l' b0) ->
  Sched L keys nxt items ->
  enc_items cells items = Ok (eps, cells') -> small_packets eps ->
  exists dps,
    dec_items (pre ++ packets_bytes eps) (zlen pre) geo store termAll strict resilient items = Ok dps /\
    Forall2 PktMatch eps dps /\ map ep_item eps = items /\ Forall (incls_ok cells0) eps.
Proof. exact packet_stream_roundtrip. Qed.
Print Assumptions C04_t2_packet_stream_roundtrip.

(* The five progression orders (both sides run the same loop nests over the same position
   maps): the sequence visits every cell with its layers 0 .. nl-1 in increasing order, once
   each; for RPCL / PCRL / CPRL provided every precinct index of a (component, resolution) has
   a position key and different indices have different keys - always true with one precinct
   per resolution (C04_t2_prog_single); the multi-precinct case is this hypothesis pk_ok. *)
Theorem C04_t2_prog_seq_sched : forall nl nr nc pidx pk, (forall c r, NoDup (pidx c r)) ->
  forall order, 0 <= order <= 4 -> (2 <= order -> pk_ok nr nc pidx pk) ->
  exists items, prog_seq order nl nr nc pidx pk = Some items /\ Sched nl (cell_keys nr nc pidx) (fun _ => 0) items.
Proof. exact prog_seq_sched. Qed.
Print Assumptions C04_t2_prog_seq_sched.

Theorem C04_t2_prog_single : forall nr nc pidx pk, (forall c r, pidx c r = [] \/ pidx c r = [0]) ->
  (forall c r, 0 <= c < nc -> 0 <= r < nr -> pidx c r = [0] -> exists pos, pk c r 0 = Some pos) -> pk_ok nr nc pidx pk.
Proof. exact prog_single. Qed.
Print Assumptions C04_t2_prog_single.

(* precinctPositionKey is injective in the precinct index, so pk_ok holds for ANY number of
   precincts as soon as every listed precinct index has a key (lies inside the precinct grid) *)
Theorem C04_t2_precinct_keys_ok : forall g nr nc pidx,
  (forall c r p, 0 <= c < nc -> 0 <= r < nr -> In p (pidx c r) -> precinct_position_key g nr c r p <> None) ->
  pk_ok nr nc pidx (precinct_position_key g nr).
Proof. exact T2ProofsProg2.ppk_ok. Qed.
Print Assumptions C04_t2_precinct_keys_ok.

Example C04_t2_prog_nonvacuous :
  let pidx := fun (c r : Z) => if r =? 0 then [0] else [0; 1] in
  let pk := fun (c r p : Z) => Some (p * 64, r) in
  (forall c r, NoDup (pidx c r)) /\ pk_ok 2 2 pidx pk /\
  prog_seq 2 2 2 2 pidx pk =
    Some [(0, 0, 0, 0); (1, 0, 0, 0); (0, 0, 1, 0); (1, 0, 1, 0); (0, 1, 0, 0); (1, 1, 0, 0); (0, 1, 1, 0); (1, 1, 1, 0);
          (0, 1, 0, 1); (1, 1, 0, 1); (0, 1, 1, 1); (1, 1, 1, 1)].
Proof.
  cbv zeta. split; [intros c r; destruct (r =? 0); repeat constructor; cbn; intuition discriminate|].
  split; [|vm_compute; reflexivity].
  intros c r p Hc Hr Hp. eexists. split; [reflexivity|]. intros p' _ E. inversion E. lia.
Qed.

(* packets_deliver_blocks: EncodePackets then DecodePackets, any of the five orders.
   Geometry assumptions G1-G4 are spelled out in T2ProofsPackets3.v: TERMALL switch = style bit
   2; the same sorted precinct index sets (without duplicates), counts, bounds, sampling and
   precinct sizes on both sides; position keys exist and are injective per (component,
   resolution) for the position-driven orders; every cell related at layer 0. *)
Theorem C04_t2_packets_deliver_blocks : forall termAll style nl nr nc order g pidx geo strict resilient cells0,
  termAll = negb (Z.land style 4 =? 0) ->
  (forall c r, enc_pidx cells0 c r = pidx c r) -> (forall c r, NoDup (pidx c r)) ->
  (2 <= order -> pk_ok nr nc pidx (precinct_position_key g nr)) ->
  (forall k, In k (cell_keys nr nc pidx) -> CellRel termAll nl geo 0 k cells0 []) ->
  0 <= order <= 4 -> 0 < nl ->
  forall eps cells', enc_packets order nl nr nc g cells0 = Ok (eps, cells') -> small_packets eps ->
  exists dps items,
    dec_packets (packets_bytes eps) order nl nr nc g pidx geo style strict resilient = Ok dps /\
    prog_seq order nl nr nc pidx (precinct_position_key g nr) = Some items /\
    Sched nl (cell_keys nr nc pidx) (fun _ => 0) items /\
    map ep_item eps = items /\ Forall2 PktMatch eps dps /\ Forall (incls_ok cells0) eps.
Proof. exact packets_deliver_blocks. Qed.
Print Assumptions C04_t2_packets_deliver_blocks.

(* gatherCBData: for the cell (comp, r, p) whose blocks have the global indices cbOrder, the
   entry of block j accumulates, in packet order, the data and the pass counts of the packets of
   that cell (total), provided the packets of other cells of the component write other keys
   (distinct global code-block indices per resolution - geometry). *)
Theorem C04_t2_gather_delivers : forall comp order dps m r p cbOrder j,
  order r p = Some cbOrder -> NoDup cbOrder -> (j < length cbOrder)%nat ->
  Forall dp_wf dps ->
  (forall dp, In dp dps -> item_key (dp_item dp) = (comp, r, p) -> zlen (dp_incls dp) <= zlen cbOrder) ->
  (forall dp l' r' c' p' ord, In dp dps -> dp_item dp = (l', r', c', p') -> c' = comp -> (r', p') <> (r, p) ->
     order r' p' = Some ord ->
     zlen (dp_incls dp) <= zlen ord /\ NoDup ord /\
     forall i, 0 <= i < zlen ord -> (r', znth ord i 0) <> (r, znth cbOrder (Z.of_nat j) 0)) ->
  obs (aget key2_eqb (gather comp order m dps) (r, znth cbOrder (Z.of_nat j) 0)) =
  total (comp, r, p) j dps (obs (aget key2_eqb m (r, znth cbOrder (Z.of_nat j) 0))).
Proof. exact gather_delivers. Qed.
Print Assumptions C04_t2_gather_delivers.

(* the decoded packets of the stream theorem satisfy dp_wf, and their totals are the
   encoder's: concatenation of the block's per-layer data, sum of its per-layer passes *)
Theorem C04_t2_pktmatch_wf : forall ep dp, PktMatch ep dp -> ep_body ep = packet_body (ep_incls ep) -> dp_wf dp.
Proof. exact pktmatch_wf. Qed.
Print Assumptions C04_t2_pktmatch_wf.

Theorem C04_t2_total_match : forall eps dps k j o, Forall2 PktMatch eps dps -> total k j dps o = total_e k j eps o.
Proof. exact total_match. Qed.
Print Assumptions C04_t2_total_match.

Theorem C04_t2_enc_items_body : forall items cells eps cells', enc_items cells items = Ok (eps, cells') ->
  Forall (fun ep => ep_body ep = packet_body (ep_incls ep)) eps.
Proof. exact enc_items_body. Qed.
Print Assumptions C04_t2_enc_items_body.

(* a concrete tile: one component, one resolution, one precinct, the band of the header example
   (as band 0), three layers, LRCP *)
Definition ex_cells : ecells :=
  [((0, 0, 0), [ {| ebn_band := 0; ebn_w := 2; ebn_h := 1;
                    ebn_blocks := [ex_block 0 3 [2; 2; 7] [[255; 255; 1]; []; [9; 8; 7; 6; 5; 4; 3; 2; 1]];
                                   ex_block 1 31 [0; 1; 1] [[]; []; []]];
                    ebn_trees := None |} ])].
Definition ex_geo : dgeo := [((0, 0, 0, 0), (2, 1, []))].
Definition ex_g : pgeom :=
  {| pg_bounds := fun _ => (0, 0, 8, 4); pg_sampling := fun _ => (1, 1); pg_precinct := fun _ => (32768, 32768) |}.

Example C04_t2_packets_nonvacuous :
  (forall c r, NoDup (enc_pidx ex_cells c r)) /\
  (forall k, In k (cell_keys 1 1 (enc_pidx ex_cells)) -> CellRel false 3 ex_geo 0 k ex_cells []) /\
  (exists eps cells', enc_packets 0 3 1 1 ex_g ex_cells = Ok (eps, cells') /\ small_packets eps /\
                      packets_bytes eps = [227; 134; 255; 255; 1; 160; 0; 0; 1; 0; 248; 144; 9; 8; 7; 6; 5; 4; 3; 2; 1]).
Proof.
  split.
  { intros c r. unfold enc_pidx, ex_cells. cbn [flat_map fst app].
    destruct c as [|c|c]; destruct r as [|r|r]; cbn; try constructor; try (intros []); constructor. }
  split.
  { intros [[c r] p] Hk. apply (in_cell_keys 0 1 1 (enc_pidx ex_cells) (fun _ _ _ => None)) in Hk as [Hc [Hr Hp]].
    assert (c = 0) by lia. assert (r = 0) by lia. subst c r.
    change (enc_pidx ex_cells 0 0) with [0] in Hp. destruct Hp as [<-|[]].
    right. split; [lia|]. eexists. split; [reflexivity|]. split; [discriminate|].
    split; [right; reflexivity|].
    change (cell_bands_d ex_geo [] (0, 0, 0)) with
      [ {| dbn_w := 2; dbn_h := 1; dbn_pos := []; dbn_incl := None; dbn_zbp := None; dbn_states := None |} ].
    apply BR_both; [|constructor].
    split.
    + unfold band_static. cbn [ebn_w ebn_h ebn_blocks dbn_w dbn_h].
      split; [reflexivity|]. split; [reflexivity|]. split; [lia|]. split; [lia|]. split; [discriminate|].
      split; [cbn; split; [reflexivity | exact I]|]. split; [vm_compute; reflexivity|].
      split; [cbn [map pos_of ex_block eb_cbx eb_cby]; constructor;
              [intros [H|[]]; discriminate | constructor; [intros [] | constructor]]|].
      assert (Hdom : forall b l', In b [ex_block 0 3 [2; 2; 7] [[255; 255; 1]; []; [9; 8; 7; 6; 5; 4; 3; 2; 1]];
                                        ex_block 1 31 [0; 1; 1] [[]; []; []]] ->
                       0 <= l' < 3 -> block_layer_ok false b l').
      { intros b l' Hb Hl. assert (Hc' : l' = 0 \/ l' = 1 \/ l' = 2) by lia.
        destruct Hb as [<-|[<-|[]]]; destruct Hc' as [->|[->| ->]]; unfold block_layer_ok; vm_compute;
          try discriminate; intros _; repeat split; try discriminate; try reflexivity; intros; discriminate. }
      constructor; [|constructor; [|constructor]].
      * split; [unfold in_grid; cbn [ex_block eb_cbx eb_cby]; lia|]. split; [cbn [ex_block eb_zbp]; lia|].
        intros l' Hl. apply Hdom; [left; reflexivity | lia].
      * split; [unfold in_grid; cbn [ex_block eb_cbx eb_cby]; lia|]. split; [cbn [ex_block eb_zbp]; lia|].
        intros l' Hl. apply Hdom; [right; left; reflexivity | lia].
    + left. split; [reflexivity|]. unfold band_fresh. cbn.
      split; [reflexivity|]. split; [reflexivity|]. split; [reflexivity|]. split; [reflexivity|].
      constructor; [split; reflexivity|]. constructor; [split; reflexivity | constructor]. }
  eexists. eexists. split; [vm_compute; reflexivity|].
  split; [|vm_compute; reflexivity].
  repeat constructor; cbn; lia.
Qed.

(* packets_deliver_blocks together with the remaining header fields the tile decoder reads: for
   every included code-block of every decoded packet the zero-bit-plane count, the per-pass
   lengths and the TERMALL flag are those of the cell's block in the encoder's initial store
   (PktFields; used by the end-to-end composition in coq/Pipe). *)
From V Require Import T2.T2ProofsPackets4.
Theorem C04_t2_packets_deliver_fields : forall termAll style nl nr nc order g pidx geo strict resilient cells0,
  termAll = negb (Z.land style 4 =? 0) ->
  (forall c r, enc_pidx cells0 c r = pidx c r) -> (forall c r, NoDup (pidx c r)) ->
  (2 <= order -> pk_ok nr nc pidx (precinct_position_key g nr)) ->
  (forall k, In k (cell_keys nr nc pidx) -> CellRel termAll nl geo 0 k cells0 []) ->
  0 <= order <= 4 -> 0 < nl ->
  forall eps cells', enc_packets order nl nr nc g cells0 = Ok (eps, cells') -> small_packets eps ->
  exists dps items,
    dec_packets (packets_bytes eps) order nl nr nc g pidx geo style strict resilient = Ok dps /\
    prog_seq order nl nr nc pidx (precinct_position_key g nr) = Some items /\
    Sched nl (cell_keys nr nc pidx) (fun _ => 0) items /\
    map ep_item eps = items /\ Forall2 PktMatch eps dps /\ Forall (incls_ok cells0) eps /\
    Forall2 (PktFields termAll cells0) eps dps.
Proof. exact packets_deliver_fields. Qed.
Print Assumptions C04_t2_packets_deliver_fields.

(* The encoder is total under the same hypotheses: EncodePackets returns its packets (no error
   from a tag tree, the pass-count code or the length code), and what it recorded per packet is
   the contribution schedule of the cell's blocks.  No size bound on the contributions. *)
From V Require Import T2.T2ProofsPackets5.
Theorem C04_t2_packets_encode_total : forall termAll nl nr nc order g pidx geo cells0,
  (forall c r, enc_pidx cells0 c r = pidx c r) -> (forall c r, NoDup (pidx c r)) ->
  (2 <= order -> pk_ok nr nc pidx (precinct_position_key g nr)) ->
  (forall k, In k (cell_keys nr nc pidx) -> CellRel termAll nl geo 0 k cells0 []) ->
  0 <= order <= 4 -> 0 < nl ->
  exists eps cells', enc_packets order nl nr nc g cells0 = Ok (eps, cells') /\ Forall (incls_ok cells0) eps.
Proof. exact packets_encode_total. Qed.
Print Assumptions C04_t2_packets_encode_total.

Theorem C04_t2_enc_header_ok : forall termAll L l ps ds, BandsRel termAll L l ps ds -> 0 <= l < L ->
  exists hdr incs ps', enc_header ps l = Ok (hdr, incs, ps').
Proof. exact enc_header_ok. Qed.
Print Assumptions C04_t2_enc_header_ok.
