(* C09 — decoding stays within resources bounded by the input: the JPEG 2000 tier-2 packet
   body reader (area t2).  Property theorems only.  Model: T2/T2Packets.v (decodePacket's body
   loop dec_body, and dec_packet).  Whatever code-block lengths the packet header declared
   (they are bit fields of up to 32+ bits under the control of the stream), the bytes the
   decoder copies for one packet are at most the tile bytes that are left. *)
From V Require Import Common.Base T2.T2Bio T2.T2TagTree T2.T2Header T2.T2Packets T2.T2ProofsBodySize.

Theorem C09_t2_packet_body_bounded_by_tile_data :
  forall incs data offset strict resilient partial out off' pt,
  0 <= offset <= zlen data ->
  dec_body data offset strict resilient partial incs = Ok (out, off', pt) ->
  zlen (body_bytes out) <= zlen data - offset /\ offset <= off' <= zlen data.
Proof. exact packet_body_bounded_by_tile_data. Qed.
Print Assumptions C09_t2_packet_body_bounded_by_tile_data.

(* a header that declares 2^30 bytes for its code-block while 5 bytes are left: 5 are copied *)
Example C09_t2_packet_body_nonvacuous :
  let i := {| di_included := true; di_first := true; di_np := 1; di_len := 2 ^ 30; di_zbp := 0; di_pl := [];
              di_termall := false |} in
  exists out pt, dec_body [9; 1; 2; 3; 4; 5] 1 false true false [i] = Ok (out, 6, pt) /\
                 body_bytes out = [1; 2; 3; 4; 5].
Proof. cbv zeta. eexists. eexists. vm_compute. split; reflexivity. Qed.

Theorem C09_t2_dec_packet_body_bounded :
  forall data offset geo store termAll strict resilient it pk off' store',
  dec_packet data offset geo store termAll strict resilient it = Ok (pk, off', store') ->
  zlen (dp_body pk) <= zlen data.
Proof. exact dec_packet_body_bounded. Qed.
Print Assumptions C09_t2_dec_packet_body_bounded.

Example C09_t2_dec_packet_nonvacuous :
  let geo : dgeo := [((0, 0, 0, 0), (2, 2, []))] in
  exists pk store', dec_packet [196; 15; 7; 1; 2; 3; 4; 5; 6; 7; 8; 9] 0 geo [] false false true (0, 0, 0, 0)
                    = Ok (pk, 6, store') /\ dp_present pk = true /\ dp_body pk = [1; 2; 3].
Proof. cbv zeta. eexists. eexists. vm_compute. repeat split; reflexivity. Qed.

(* over a whole tile: for ANY tile bytes, progression order, counts, geometry tables and style the
   bodies of all decoded packets together are at most the tile length *)
From V Require Import T2.T2ProofsBodyTotal.
Theorem C09_t2_tile_bodies_bounded_by_tile_length :
  forall data order nl nr nc g dpidx geo style strict resilient ps,
  dec_packets data order nl nr nc g dpidx geo style strict resilient = Ok ps ->
  bodies_total ps <= zlen data.
Proof. exact packet_decoder_bodies_bounded. Qed.
Print Assumptions C09_t2_tile_bodies_bounded_by_tile_length.

Example C09_t2_tile_bodies_nonvacuous :
  let g := {| pg_bounds := fun _ => (0, 0, 8, 8); pg_sampling := fun _ => (1, 1); pg_precinct := fun _ => (32768, 32768) |} in
  let geo : dgeo := [((0, 0, 0, 0), (2, 2, []))] in
  exists ps, dec_packets [196; 15; 7; 1; 2; 3; 4; 5; 6; 7; 8; 9] 0 2 1 1 g (fun _ _ => [0]) geo 0 false true = Ok ps /\
             (0 < bodies_total ps <= 12).
Proof. cbv zeta. eexists. split; [vm_compute; reflexivity | vm_compute; split; [reflexivity | discriminate]]. Qed.
