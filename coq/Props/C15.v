(* C15 — agreement with an independent JPEG. Property theorems only.
   The agreement itself (library decoder vs image/jpeg, to within 2 / 6 levels) is a
   COMPARISON OF TWO IMPLEMENTATIONS and is established by the harness run
   (suites/dct/c15.go), not by a theorem. What is proved here are the facts about the
   library's side that such agreement rests on: the entropy-layer table descriptions, the
   zig-zag order, DQT written = parsed, that every index the baseline decoder forms is inside
   its buffers, and where the decoder's block grid is (and is not) the grid of the scan.
   The negative results (_refuted) are findings about /repo as it stands. *)
From V Require Import Common.Base Gen.JpegTables_gen JpegDCT.DctQuant JpegDCT.DctZigzag JpegDCT.DctGeometry
  JpegDCT.DctProofsA JpegDCT.DctProofsB.

(* every BITS/HUFFVAL pair of jpeg/standard is a valid prefix-code description: 16
   non-negative counts summing to the number of symbols, Kraft sum < 1 within 16 bits (the
   all-ones code word stays free), symbols are distinct bytes — with one named exception *)
Theorem C15_std_huffman_tables_ok : forall bits vals, In (bits, vals) jpeg_huff_all ->
  (bits, vals) = ext_dc_chroma \/
  (length bits = 16%nat /\ (forall b, In b bits -> 0 <= b) /\
   zsum bits = zlen vals /\ kraft16 bits 1 < 2 ^ 16 /\
   (forall v, In v vals -> 0 <= v < 256) /\ nodupb vals = true).
Proof. exact std_huffman_tables_ok. Qed.
Print Assumptions C15_std_huffman_tables_ok.

(* the four tables the DCT encoders start from are covered (and are not the exception) *)
Theorem C15_std_tables_listed :
  In (jpeg_huff_standard_dc_luminance_bits, jpeg_huff_standard_dc_luminance_vals) jpeg_huff_all /\
  In (jpeg_huff_standard_ac_luminance_bits, jpeg_huff_standard_ac_luminance_vals) jpeg_huff_all /\
  In (jpeg_huff_standard_dc_chrominance_bits, jpeg_huff_standard_dc_chrominance_vals) jpeg_huff_all /\
  In (jpeg_huff_standard_ac_chrominance_bits, jpeg_huff_standard_ac_chrominance_vals) jpeg_huff_all.
Proof. exact std_tables_listed. Qed.
Print Assumptions C15_std_tables_listed.

(* finding: ExtendedDCChrominance declares 18 codes for 17 values (unused by non-test code) *)
Theorem C15_ext_dc_chroma_table_refuted :
  In ext_dc_chroma jpeg_huff_all /\ zsum (fst ext_dc_chroma) = 18 /\ zlen (snd ext_dc_chroma) = 17.
Proof. exact ext_dc_chroma_table_refuted. Qed.
Print Assumptions C15_ext_dc_chroma_table_refuted.

(* fact: the source's "standard" luminance DC table is not T.81 Table K.3 (harmless: both
   DCT encoders always write optimised tables) *)
Theorem C15_std_dc_luminance_is_not_K3 :
  jpeg_huff_standard_dc_luminance_bits <> [0; 1; 5; 1; 1; 1; 1; 1; 1; 0; 0; 0; 0; 0; 0; 0] /\
  existsb (Z.eqb 11) jpeg_huff_standard_dc_luminance_vals = false.
Proof. exact std_dc_luminance_is_not_K3. Qed.
Print Assumptions C15_std_dc_luminance_is_not_K3.

Theorem C15_zigzag_perm :
  length zigzag = 64%nat /\ length unzig = 64%nat /\
  (forall i, 0 <= i < 64 -> 0 <= znth zigzag i (-1) < 64) /\
  (forall i, 0 <= i < 64 -> znth unzig (znth zigzag i (-1)) (-1) = i) /\
  (forall k, 0 <= k < 64 -> znth zigzag (znth unzig k (-1)) (-1) = k).
Proof. exact zigzag_perm. Qed.
Print Assumptions C15_zigzag_perm.

Theorem C15_zigzag_is_T81 : zigzag =
  [0; 1; 8; 16; 9; 2; 3; 10; 17; 24; 32; 25; 18; 11; 4; 5; 12; 19; 26; 33; 40; 48; 41; 34;
   27; 20; 13; 6; 7; 14; 21; 28; 35; 42; 49; 56; 57; 50; 43; 36; 29; 22; 15; 23; 30; 37; 44; 51;
   58; 59; 52; 45; 38; 31; 39; 46; 53; 60; 61; 54; 47; 55; 62; 63].
Proof. exact zigzag_is_T81. Qed.
Print Assumptions C15_zigzag_is_T81.

(* tightly packed output / no out-of-range access: every sample index convertToPixels forms
   (after its guard) is inside the component buffer, for all sampling factors 1..4 and all
   widths and heights; every block decodeBlock writes (after its guard) is inside it *)
Theorem C15_geometry_in_range : forall width height comps hv x y i,
  1 <= width -> 1 <= height -> In hv comps ->
  (forall c, In c comps -> 1 <= fst c <= 4 /\ 1 <= snd c <= 4) ->
  0 <= x < width -> 0 <= y < height ->
  pixel_index width height comps hv x y = Some i ->
  0 <= i < comp_len width height comps hv.
Proof. exact geometry_in_range. Qed.
Print Assumptions C15_geometry_in_range.
Example C15_geometry_in_range_instance :
  pixel_index 17 9 [(2, 2); (1, 1); (1, 1)] (1, 1) 16 8 = Some 96 /\ comp_len 17 9 [(2, 2); (1, 1); (1, 1)] (1, 1) = 128.
Proof. split; vm_compute; reflexivity. Qed.

Theorem C15_block_write_in_range : forall wb hb bx by_ i, 0 <= wb -> 0 <= bx -> 0 <= by_ ->
  block_written wb hb bx by_ = true -> 0 <= i < 64 ->
  0 <= block_offset wb bx by_ + i < wb * hb * 64.
Proof. exact block_write_in_range. Qed.
Print Assumptions C15_block_write_in_range.
Example C15_block_write_instance : block_written 3 2 2 1 = true /\ block_written 3 2 3 1 = false.
Proof. split; vm_compute; reflexivity. Qed.

(* finding: the decoder's block grid is not the grid of the scan for ordinary 4:2:0 *)
Theorem C15_scan_grid_refuted : ~ scan_grid_statement.
Proof. exact scan_grid_refuted. Qed.
Print Assumptions C15_scan_grid_refuted.

(* exactly where, on widths and heights 1..40: 4:2:0 luma is right iff the luma block count
   per row is even or 1, or there is a single block row *)
Theorem C15_scan_grid_420_characterised :
  forallb (fun w => forallb (fun h =>
    Bool.eqb (grid_ok w h [(2, 2); (1, 1); (1, 1)] (2, 2))
             (Z.even (div_ceil w 8) || (div_ceil w 8 =? 1) || (h <=? 8))) sizes40) sizes40 = true.
Proof. exact scan_grid_420_characterised. Qed.
Print Assumptions C15_scan_grid_420_characterised.

(* 4:4:4 / grey, and 4:2:2, 4:4:0, and the chroma planes of 4:2:0: right on the whole range *)
Theorem C15_scan_grid_ok_444 : forall w h, 1 <= w <= 40 -> 1 <= h <= 40 ->
  grid_ok w h [(1, 1)] (1, 1) = true /\ grid_ok w h [(1, 1); (1, 1); (1, 1)] (1, 1) = true.
Proof. exact scan_grid_ok_444. Qed.
Print Assumptions C15_scan_grid_ok_444.
Theorem C15_scan_grid_422_440_ok :
  forallb (fun w => forallb (fun h =>
    grid_ok w h [(2, 1); (1, 1); (1, 1)] (2, 1) && grid_ok w h [(2, 1); (1, 1); (1, 1)] (1, 1) &&
    grid_ok w h [(1, 2); (1, 1); (1, 1)] (1, 2) && grid_ok w h [(1, 2); (1, 1); (1, 1)] (1, 1) &&
    grid_ok w h [(2, 2); (1, 1); (1, 1)] (1, 1)) sizes40) sizes40 = true.
Proof. exact scan_grid_422_440_ok. Qed.
Print Assumptions C15_scan_grid_422_440_ok.
