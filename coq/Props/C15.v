(* C15 — agreement with an independent JPEG. Property theorems only.
   The agreement itself (library decoder vs image/jpeg, to within 2 / 6 levels) is a
   COMPARISON OF TWO IMPLEMENTATIONS and is established by the harness run
   (suites/dct/c15.go), not by a theorem. What is proved here are the facts about the
   library's side that such agreement rests on: the entropy-layer table descriptions, the
   zig-zag order, DQT written = parsed, that every index the baseline decoder forms is inside
   its buffers, that the decoder's block grid is the grid of the scan, and that every pixel is
   read from the block the scan wrote for it. The remaining negative result (_refuted) is a
   finding about an unused table of /repo. *)
From V Require Import Common.Base Gen.JpegTables_gen JpegDCT.DctQuant JpegDCT.DctZigzag JpegDCT.DctGeometry
  JpegDCT.DctPipeline JpegDCT.DctRestart JpegDCT.DctProofsA JpegDCT.DctProofsB JpegDCT.DctProofsS.

(* every BITS/HUFFVAL pair of jpeg/standard is a valid prefix-code description: 16
   non-negative counts summing to the number of symbols, Kraft sum < 1 within 16 bits (the
   all-ones code word stays free), symbols are distinct bytes — with one named exception *)
Theorem C15_std_huffman_tables_ok : forall bits vals, In (bits, vals) jpeg_huff_all ->
  (bits, vals) = ext_dc_chroma \/
  (length bits = 16%nat /\ (forall b, In b bits -> 0 <= b) /\
   zsum bits = zlen vals /\ kraft16 bits 1 < 2 ^ 16 /\
   (forall v, In v vals -> 0 <= v < 256) /\ nodupb vals = true).
Proof. exact std_huffman_tables_ok. Qed.
Print Assumptions C15_std_huffman_tables_ok.

(* the four tables the DCT encoders start from are covered (and are not the exception) *)
Theorem C15_std_tables_listed :
  In (jpeg_huff_standard_dc_luminance_bits, jpeg_huff_standard_dc_luminance_vals) jpeg_huff_all /\
  In (jpeg_huff_standard_ac_luminance_bits, jpeg_huff_standard_ac_luminance_vals) jpeg_huff_all /\
  In (jpeg_huff_standard_dc_chrominance_bits, jpeg_huff_standard_dc_chrominance_vals) jpeg_huff_all /\
  In (jpeg_huff_standard_ac_chrominance_bits, jpeg_huff_standard_ac_chrominance_vals) jpeg_huff_all.
Proof. exact std_tables_listed. Qed.
Print Assumptions C15_std_tables_listed.

(* finding: ExtendedDCChrominance declares 18 codes for 17 values (unused by non-test code) *)
Theorem C15_ext_dc_chroma_table_refuted :
  In ext_dc_chroma jpeg_huff_all /\ zsum (fst ext_dc_chroma) = 18 /\ zlen (snd ext_dc_chroma) = 17.
Proof. exact ext_dc_chroma_table_refuted. Qed.
Print Assumptions C15_ext_dc_chroma_table_refuted.

(* fact: the source's "standard" luminance DC table is not T.81 Table K.3 (harmless: both
   DCT encoders always write optimised tables) *)
Theorem C15_std_dc_luminance_is_not_K3 :
  jpeg_huff_standard_dc_luminance_bits <> [0; 1; 5; 1; 1; 1; 1; 1; 1; 0; 0; 0; 0; 0; 0; 0] /\
  existsb (Z.eqb 11) jpeg_huff_standard_dc_luminance_vals = false.
Proof. exact std_dc_luminance_is_not_K3. Qed.
Print Assumptions C15_std_dc_luminance_is_not_K3.

Theorem C15_zigzag_perm :
  length zigzag = 64%nat /\ length unzig = 64%nat /\
  (forall i, 0 <= i < 64 -> 0 <= znth zigzag i (-1) < 64) /\
  (forall i, 0 <= i < 64 -> znth unzig (znth zigzag i (-1)) (-1) = i) /\
  (forall k, 0 <= k < 64 -> znth zigzag (znth unzig k (-1)) (-1) = k).
Proof. exact zigzag_perm. Qed.
Print Assumptions C15_zigzag_perm.

Theorem C15_zigzag_is_T81 : zigzag =
  [0; 1; 8; 16; 9; 2; 3; 10; 17; 24; 32; 25; 18; 11; 4; 5; 12; 19; 26; 33; 40; 48; 41; 34;
   27; 20; 13; 6; 7; 14; 21; 28; 35; 42; 49; 56; 57; 50; 43; 36; 29; 22; 15; 23; 30; 37; 44; 51;
   58; 59; 52; 45; 38; 31; 39; 46; 53; 60; 61; 54; 47; 55; 62; 63].
Proof. exact zigzag_is_T81. Qed.
Print Assumptions C15_zigzag_is_T81.

(* tightly packed output / no out-of-range access: every sample index convertToPixels forms
   (after its guard) is inside the component buffer, for all sampling factors 1..4 and all
   widths and heights; every block decodeBlock writes (after its guard) is inside it *)
Theorem C15_geometry_in_range : forall width height comps hv x y i,
  1 <= width -> 1 <= height -> In hv comps ->
  (forall c, In c comps -> 1 <= fst c <= 4 /\ 1 <= snd c <= 4) ->
  0 <= x < width -> 0 <= y < height ->
  pixel_index width height comps hv x y = Some i ->
  0 <= i < comp_len width height comps hv.
Proof. exact geometry_in_range. Qed.
Print Assumptions C15_geometry_in_range.
Example C15_geometry_in_range_instance :
  pixel_index 17 9 [(2, 2); (1, 1); (1, 1)] (1, 1) 16 8 = Some 96 /\ comp_len 17 9 [(2, 2); (1, 1); (1, 1)] (1, 1) = 128.
Proof. split; vm_compute; reflexivity. Qed.

Theorem C15_block_write_in_range : forall wb hb bx by_ i, 0 <= wb -> 0 <= bx -> 0 <= by_ ->
  block_written wb hb bx by_ = true -> 0 <= i < 64 ->
  0 <= block_offset wb bx by_ + i < wb * hb * 64.
Proof. exact block_write_in_range. Qed.
Print Assumptions C15_block_write_in_range.
Example C15_block_write_instance : block_written 3 2 2 1 = true /\ block_written 3 2 3 1 = false.
Proof. split; vm_compute; reflexivity. Qed.

(* The decoder's block grid is the grid of the scan (parseSOF: comp.width = mcuCols*H,
   comp.height = mcuRows*V), for all sampling factors >= 1 — in particular H,V in 1..4 per
   component — and all widths and heights >= 1.
   Historical note (finding F16, fixed): before the fix the grid was
   DivCeil(width*H, maxH*8) x DivCeil(height*V, maxV*8); witness 17x9 4:2:0, where the scan's
   padding block (3,0) landed on the cell of block (0,1) and ordinary 4:2:0 pictures with an
   odd luma block count per row came out corrupted. The former theorems scan_grid_refuted /
   scan_grid_420_characterised recorded that state of the code. *)

(* (1) every scan block (mcuX*H+h, mcuY*V+v) is a cell of the grid ... *)
Theorem C15_scan_block_in_grid : forall width height comps hv b,
  1 <= fst hv -> 1 <= snd hv ->
  In b (scan_blocks width height comps hv) ->
  0 <= fst b < comp_wb width comps hv /\ 0 <= snd b < comp_hb height comps hv.
Proof. exact scan_block_in_grid. Qed.
Print Assumptions C15_scan_block_in_grid.

(* ... passes decodeBlock's guard and is written wholly inside the component buffer ... *)
Theorem C15_scan_block_written : forall width height comps hv b i,
  1 <= fst hv -> 1 <= snd hv -> In b (scan_blocks width height comps hv) -> 0 <= i < 64 ->
  block_written (comp_wb width comps hv) (comp_hb height comps hv) (fst b) (snd b) = true /\
  0 <= block_offset (comp_wb width comps hv) (fst b) (snd b) + i < comp_len width height comps hv.
Proof. exact scan_block_written. Qed.
Print Assumptions C15_scan_block_written.

(* ... distinct cells have distinct offsets ... *)
Theorem C15_cell_offset_inj : forall wb bx by_ bx' by', 0 <= bx < wb -> 0 <= bx' < wb ->
  block_offset wb bx by_ = block_offset wb bx' by' -> bx = bx' /\ by_ = by'.
Proof. exact cell_offset_inj. Qed.
Print Assumptions C15_cell_offset_inj.

(* ... and (2) after the scan every cell (bx,by) holds the data of scan block (bx,by) *)
Theorem C15_scan_grid_ok : forall width height comps hv bx by_,
  1 <= fst hv -> 1 <= snd hv ->
  0 <= bx < comp_wb width comps hv -> 0 <= by_ < comp_hb height comps hv ->
  last_writer (comp_wb width comps hv) (comp_hb height comps hv)
              (scan_blocks width height comps hv)
              (block_offset (comp_wb width comps hv) bx by_) = Some (bx, by_).
Proof. exact scan_grid_ok. Qed.
Print Assumptions C15_scan_grid_ok.
Example C15_scan_grid_F16_witness_now_ok :
  comp_wb 17 [(2, 2); (1, 1); (1, 1)] (2, 2) = 4 /\
  last_writer 4 2 (scan_blocks 17 9 [(2, 2); (1, 1); (1, 1)] (2, 2)) (block_offset 4 0 1) = Some (0, 1).
Proof. split; vm_compute; reflexivity. Qed.

(* (3) convertToPixels: with the largest sampling factors on the first component (Y first:
   every stream in the property's scope) the guard never fails, so no sample is left unset ... *)
Theorem C15_pixel_guard_passes : forall width height c0 rest hv x y,
  1 <= width -> 1 <= height -> In hv (c0 :: rest) ->
  (forall c, In c (c0 :: rest) -> 1 <= fst c /\ 1 <= snd c) ->
  max_h (c0 :: rest) = fst c0 -> max_v (c0 :: rest) = snd c0 ->
  0 <= x < width -> 0 <= y < height ->
  pixel_index width height (c0 :: rest) hv x y <> None.
Proof. exact pixel_guard_passes. Qed.
Print Assumptions C15_pixel_guard_passes.
Example C15_pixel_guard_instance :
  max_h [(2, 2); (1, 1); (1, 1)] = 2 /\ max_v [(2, 2); (1, 1); (1, 1)] = 2 /\
  pixel_index 17 9 [(2, 2); (1, 1); (1, 1)] (2, 2) 16 8 = Some 384.
Proof. repeat split; vm_compute; reflexivity. Qed.

(* ... and every sample read comes from the block the scan wrote for that position: scan
   block (sx/8, sy/8) with sx = x*H/H0, sy = y*V/V0 (nearest-neighbour upsampling) *)
Theorem C15_pixel_read_ok : forall width height c0 rest hv x y i,
  1 <= width -> 1 <= height -> In hv (c0 :: rest) ->
  (forall c, In c (c0 :: rest) -> 1 <= fst c /\ 1 <= snd c) ->
  0 <= x < width -> 0 <= y < height ->
  pixel_index width height (c0 :: rest) hv x y = Some i ->
  pixel_owner width height (c0 :: rest) hv x y =
    Some (Z.quot (Z.quot (x * fst hv) (fst c0)) 8, Z.quot (Z.quot (y * snd hv) (snd c0)) 8).
Proof. exact pixel_read_ok. Qed.
Print Assumptions C15_pixel_read_ok.

(* tightly packed output: one index per (pixel, channel) inside width*height*components *)
Theorem C15_out_index_in_range : forall width height ncomp x y ch,
  0 <= x < width -> 0 <= y < height -> 0 <= ch < ncomp ->
  0 <= (y * width + x) * ncomp + ch < out_len width height ncomp.
Proof. exact out_index_in_range. Qed.
Print Assumptions C15_out_index_in_range.

(* ---------- restart intervals (decodeScan after fix F15) ----------
   Historical note (finding F15, fixed): RSTn markers used to be dropped from the scan data
   without byte alignment or DC reset; reproducer 1x9 grey, DRI = 1. *)

(* segments = split at RSTn: a scan body of clean (stuffed) segments separated by RSTn and
   ended by another marker is split into exactly those segments *)
Theorem C15_split_rst_segments : forall ri segs, 0 < ri -> seps_ok segs = true ->
  split_rst ri (join segs) = map fst segs.
Proof. exact split_rst_segments. Qed.
Print Assumptions C15_split_rst_segments.
Example C15_split_rst_instance :
  seps_ok [([96], 208); ([255; 0; 7], 209); ([], 217)] = true /\
  split_rst 1 (join [([96], 208); ([255; 0; 7], 209); ([], 217)]) = [[96]; [255; 0; 7]; []].
Proof. split; vm_compute; reflexivity. Qed.

(* MCU j is decoded from interval j / restartInt, and the DC predictors are zeroed before it
   exactly when j > 0 and j mod restartInt = 0 *)
Theorem C15_mcu_plan_spec : forall ri nint n l, 0 < ri -> mcu_plan ri nint n = Some l ->
  length l = n /\
  forall j, (j < n)%nat ->
    nth j l (0, false) = (Z.of_nat j / ri, (0 <? Z.of_nat j) && (Z.of_nat j mod ri =? 0)).
Proof. exact mcu_plan_spec. Qed.
Print Assumptions C15_mcu_plan_spec.
Example C15_mcu_plan_instance :
  mcu_plan 2 3 5 = Some [(0, false); (0, false); (1, true); (1, false); (2, true)] /\ mcu_plan 2 2 5 = None.
Proof. split; vm_compute; reflexivity. Qed.

(* without DRI nothing is reset and only interval 0 is used *)
Theorem C15_mcu_plan_no_restart : forall nint n, mcu_plan 0 nint n = Some (repeat (0, false) n).
Proof. exact mcu_plan_no_restart. Qed.
Print Assumptions C15_mcu_plan_no_restart.
