(* C12 — JPEG 2000 irreversible (9/7) bound. Property theorems only.

   WHAT IS PROVED: the integer arithmetic of the QCD step-size fields (encode on the integer
   `fixed`, big-endian bytes, decode — exact dyadic), the dead-zone quantiser / mid-point
   reconstruction error over exact rationals (both the mathematical quantiser and the quantiser
   as coded: RoundToEven(x/D*64) with T1's six uncoded fractional bit-planes), the linear
   propagation of per-coefficient errors through ANY synthesis with bounded absolute weights,
   and the output clamp.

   WHAT IS HYPOTHESIS (C12_bound_partial, Section variables of Q97Proofs.C12_partial, all named):
     H_synthesis_linear     the executed inverse 9/7 (+ inverse ICT, level unshift) acts on
                            coefficient differences as a linear map with response G(p,k);
     H_synthesis_weights    |G(p,k)| <= w(p,k), the absolute synthesis weights used by the bound
                            (the harness computes them with an independent inverse 9/7);
     H_pair_near_identity   executed analysis followed by executed synthesis is within eps of the
                            identity on every sample (this is where float32/float64 rounding of
                            the lifting steps, the ICT and the division x/D in float32 live);
     H_steps_positive       every declared step is > 0;
     H_quant_error          the quantiser's error bound — discharged for both modelled quantisers
                            in the corollaries below, so it is NOT an open hypothesis there.
   No floating-point semantics (Flocq) is modelled; nobody should read C12_bound_partial as
   covering float rounding. The end-to-end decision for the Go code is the oracle of
   harness/suites/j2ke2e/c12.go (bound evaluated with the steps parsed from QCD). *)
From Coq Require Import QArith Qround Qabs Lqa.
From V Require Import Common.Base Q97.Q97Model Q97.Q97Proofs.

(* every 5-bit exponent and 11-bit mantissa survive pack -> big-endian bytes -> join -> unpack *)
Theorem C12_qcd_fields_roundtrip : forall e m : Z, (0 <= e < 32)%Z -> (0 <= m < 2048)%Z ->
  let enc := q97_pack e m in
  let '(h, l) := q97_bytes enc in
  (0 <= h < 256)%Z /\ (0 <= l < 256)%Z /\ q97_join h l = enc /\ q97_unpack (q97_join h l) = (e, m).
Proof. exact qcd_fields_roundtrip. Qed.
Print Assumptions C12_qcd_fields_roundtrip.

(* every fixed-point step value int32(floor(step*8192)) >= 1 whose exponent field is not clamped:
   the decoded step is <= the requested one and misses it by less than one mantissa ulp
   (units 2^-48); exact when fixed has at most 12 significant bits *)
Theorem C12_qcd_step_roundtrip : forall fixed numbps : Z,
  (1 <= fixed < 2 ^ 31)%Z -> (0 <= numbps)%Z -> (0 <= numbps - (Z.log2 fixed - 13) <= 31)%Z ->
  let '(e, m) := q97_encode_fields fixed numbps in
  (0 <= e < 32)%Z /\ (0 <= m < 2048)%Z /\
  (q97_step_u48 e m numbps <= fixed * 2 ^ 35 < q97_step_u48 e m numbps + q97_ulp_u48 e numbps)%Z /\
  ((Z.log2 fixed <= 11)%Z -> q97_step_u48 e m numbps = (fixed * 2 ^ 35)%Z).
Proof. exact qcd_step_within_ulp. Qed.
Print Assumptions C12_qcd_step_roundtrip.
Example C12_qcd_step_nonvacuous :
  (1 <= 409 < 2 ^ 31)%Z /\ (0 <= 8 - (Z.log2 409 - 13) <= 31)%Z /\ q97_encode_fields 409 8 = (13, 1224)%Z /\
  (1 <= 123456 < 2 ^ 31)%Z /\ (0 <= 16 - (Z.log2 123456 - 13) <= 31)%Z /\ q97_encode_fields 123456 16 = (13, 1810)%Z.
Proof. vm_compute. repeat split; congruence. Qed.

(* dead-zone quantiser, mathematical form *)
Theorem C12_deadzone_error : forall x D : Q, 0 < D ->
  Qabs (x - dz_deq (dz_quant x D) D) <= D /\
  (dz_quant x D <> 0%Z -> Qabs (x - dz_deq (dz_quant x D) D) <= D / 2).
Proof. exact deadzone_error. Qed.
Print Assumptions C12_deadzone_error.
Example C12_deadzone_nonvacuous : 0 < (3 # 1) /\ dz_quant (37 # 1) (3 # 1) = 12%Z /\ dz_quant (-(5 # 2)) (3 # 1) = 0%Z.
Proof. vm_compute. repeat split; congruence. Qed.

(* dead-zone quantiser as coded (round-to-even on the 1/64 grid, fractional planes dropped):
   still <= D, and <= (1/2 + 1/128) D outside the dead zone *)
Theorem C12_deadzone_error_code : forall x D : Q, 0 < D ->
  Qabs (x - dz_deq (dz_quant_code x D) D) <= D /\
  (dz_quant_code x D <> 0%Z -> Qabs (x - dz_deq (dz_quant_code x D) D) <= (65 # 128) * D).
Proof. exact deadzone_error_code. Qed.
Print Assumptions C12_deadzone_error_code.
Example C12_deadzone_code_nonvacuous :
  0 < (3 # 1) /\ dz_quant_code (37 # 1) (3 # 1) = 12%Z /\ dz_quant_code (2999 # 1000) (3 # 1) = 1%Z /\
  dz_quant (2999 # 1000) (3 # 1) = 0%Z.
Proof. vm_compute. repeat split; congruence. Qed.

(* linear propagation, lists of any length *)
Theorem C12_bound_linear : forall l : list lterm,
  Forall (fun t => Qabs (lg t) <= lw t /\ Qabs (le t) <= ld t) l -> Qabs (lsum_ge l) <= lsum_wd l.
Proof. exact Q97Proofs.C12_bound_linear. Qed.
Print Assumptions C12_bound_linear.
Example C12_bound_linear_nonvacuous :
  let l := [ {| lg := 1 # 4; le := - (3 # 1); lw := 1 # 4; ld := 3 # 1 |};
             {| lg := - (1 # 8); le := 16 # 1; lw := 1 # 8; ld := 16 # 1 |} ] in
  Forall (fun t => Qabs (lg t) <= lw t /\ Qabs (le t) <= ld t) l /\ Qabs (lsum_ge l) == lsum_wd l.
Proof.
  cbv zeta. split.
  - repeat constructor; simpl; unfold Qle; simpl; lia.
  - vm_compute. reflexivity.
Qed.

(* clamp: for ANY reconstructed value the stored sample is inside the declared range *)
Theorem C12_clamp_in_range : forall (signed : bool) (bitDepth val : Z), (1 <= bitDepth)%Z ->
  (if signed then (- 2 ^ (bitDepth - 1) <= q97_clamp signed bitDepth val <= 2 ^ (bitDepth - 1) - 1)%Z
   else (0 <= q97_clamp signed bitDepth val <= 2 ^ bitDepth - 1)%Z) /\
  (0 <= q97_store signed bitDepth val < 2 ^ bitDepth)%Z.
Proof. exact clamp_in_range. Qed.
Print Assumptions C12_clamp_in_range.
Example C12_clamp_nonvacuous : q97_clamp false 8 300 = 255%Z /\ q97_clamp true 12 (-5000) = (-2048)%Z /\ q97_store true 12 (-1) = 4095%Z.
Proof. vm_compute. repeat split. Qed.

(* the end-to-end statement, quantiser as coded; every other ingredient is a named hypothesis *)
Theorem C12_bound_partial :
  forall (npix : nat) (ks : list nat) (analysis synthesis : (nat -> Q) -> nat -> Q) (G w : nat -> nat -> Q)
         (D : nat -> Q) (eps : Q),
  (* H_synthesis_linear *)
  (forall c c' p, (p < npix)%nat ->
     synthesis c p - synthesis c' p == fold_right (fun k acc => G p k * (c k - c' k) + acc) 0 ks) ->
  (* H_synthesis_weights *)
  (forall p k, Qabs (G p k) <= w p k) ->
  (* H_pair_near_identity *)
  (forall img p, (p < npix)%nat -> Qabs (synthesis (analysis img) p - img p) <= eps) ->
  (* H_steps_positive *)
  (forall k, In k ks -> 0 < D k) ->
  forall (signed : bool) (bd : Z) (img : nat -> Q) (p : nat) (rounded : Z),
  (p < npix)%nat -> (1 <= bd)%Z ->
  (if signed then (- 2 ^ (bd - 1) # 1) <= img p /\ img p <= (2 ^ (bd - 1) - 1 # 1)
   else 0 <= img p /\ img p <= (2 ^ bd - 1 # 1)) ->
  Qabs ((rounded # 1) - synthesis (dequantised analysis D dz_quant_code img) p) <= 1 # 2 ->
  let out := q97_clamp signed bd rounded in
  Qabs ((out # 1) - img p) <= declared_bound ks w D p + eps + (1 # 2) /\
  (if signed then (- 2 ^ (bd - 1) <= out <= 2 ^ (bd - 1) - 1)%Z else (0 <= out <= 2 ^ bd - 1)%Z).
Proof.
  intros npix ks analysis synthesis G w D eps H1 H2 H3 H4.
  apply (Q97Proofs.C12_bound_partial npix ks analysis synthesis G w D eps dz_quant_code H1 H2 H3 H4).
  intros x d Hd. exact (proj1 (deadzone_error_code x d Hd)).
Qed.
Print Assumptions C12_bound_partial.

(* non-vacuity: the hypotheses are simultaneously satisfiable (one sample, one coefficient,
   identity transform pair, weight 1, step 3, eps 0) and give the concrete bound 3 + 0 + 1/2 *)
Example C12_bound_partial_nonvacuous :
  let npix := 1%nat in let ks := [0%nat] in
  let analysis := fun (img : nat -> Q) (k : nat) => img 0%nat in
  let synthesis := fun (c : nat -> Q) (p : nat) => c 0%nat in
  let G := fun (_ _ : nat) => 1 in let w := fun (_ _ : nat) => 1 in
  let D := fun _ : nat => 3 # 1 in
  (forall c c' p, (p < npix)%nat ->
     synthesis c p - synthesis c' p == fold_right (fun k acc => G p k * (c k - c' k) + acc) 0 ks) /\
  (forall p k, Qabs (G p k) <= w p k) /\
  (forall img p, (p < npix)%nat -> Qabs (synthesis (analysis img) p - img p) <= 0) /\
  (forall k, In k ks -> 0 < D k) /\
  declared_bound ks w D 0%nat + 0 + (1 # 2) == 7 # 2.
Proof.
  cbv zeta. split; [|split; [|split; [|split]]].
  - intros c c' p _. cbn [fold_right]. ring.
  - intros p k. vm_compute. congruence.
  - intros img p Hp. assert (p = 0%nat) by lia. subst p.
    setoid_replace (img 0%nat - img 0%nat) with 0 by ring. vm_compute. congruence.
  - intros k _. reflexivity.
  - vm_compute. reflexivity.
Qed.
