(* C14, tie by translation: jpegls/lossless ComputeCodingParameters / computeThresholds / clamp / bitsLen,
   translated from the Go source on every run (Gen/Kernels_gen.v), compute the parameters T.87 defines. *)
From V Require Import Common.Base Gen.Kernels_gen Tie.TieKernels.
Require V.JpegLS.JlsParams V.JpegLS.JlsProofsParams.
Import V.JpegLS.JlsParams.

(* the translated Go function equals the hand model for every argument a Go int can hold here *)
Theorem C14_tie_ComputeCodingParameters : forall m n r, m < 2 ^ 62 -> 0 <= n ->
  option_map cp (jpegls_lossless_ComputeCodingParameters m n r) = Some (ComputeCodingParameters m n r).
Proof. exact tie_ComputeCodingParameters. Qed.
Print Assumptions C14_tie_ComputeCodingParameters.

(* hence: what the Go source computes for precision P and NEAR is what T.87 A.2.1 / C.2.4.1.1 prescribe *)
Theorem C14_tie_source_params_are_T87 : forall P near, 2 <= P <= 16 -> 0 <= near <= near_max P ->
  option_map cp (jpegls_lossless_ComputeCodingParameters (2 ^ P - 1) near 64) = Some (t87_params P near).
Proof.
  intros P near HP Hn.
  rewrite tie_ComputeCodingParameters.
  - f_equal. exact (proj1 (V.JpegLS.JlsProofsParams.params_match_T87 P near HP Hn)).
  - assert (2 ^ P <= 2 ^ 16) by (apply Z.pow_le_mono_r; lia).
    assert (2 ^ 16 < 2 ^ 62) by (apply Z.pow_lt_mono_r; lia). lia.
  - lia.
Qed.
Print Assumptions C14_tie_source_params_are_T87.

Example C14_tie_instance :
  option_map cp (jpegls_lossless_ComputeCodingParameters 4095 3 64) = Some (t87_params 12 3) /\ 0 <= 3 <= near_max 12.
Proof. split; [vm_compute; reflexivity | vm_compute; split; discriminate]. Qed.

Theorem C14_tie_computeThresholds : forall m n, jpegls_lossless_computeThresholds m n = computeThresholds m n.
Proof. exact tie_computeThresholds. Qed.
Print Assumptions C14_tie_computeThresholds.
