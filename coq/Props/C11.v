(* C11 — JPEG DCT loss bound. Property theorems only.
   What is proved: the quantiser error bound for the coded quantiser (8- and 12-bit), the
   range of every table entry the encoders can write (quality 1..100, regenerated K.1/K.2),
   DQT written = DQT parsed, zig-zag permutation, the linear (triangle-inequality) core of the
   bound over Q (axiom-free), its instantiation to the exact 8x8 inverse DCT over R, the
   per-sample end-to-end bound with the coded integer kernels' deviation from an exact
   inverse pair as explicit hypotheses (_partial: those two hypotheses are not discharged;
   the 12-bit decoder's floating kernel enters the same way), the quality-100 corollary,
   the RGB propagation, and that every scan block is decoded onto its own cell of the block grid.
   Theorems over R depend on the axioms of Coq's Reals (listed by Print Assumptions). *)
From Coq Require Import Reals QArith Qabs.
From V Require Import Common.Base Gen.JpegTables_gen JpegDCT.DctQuant JpegDCT.DctZigzag JpegDCT.DctGeometry
  JpegDCT.DctBound JpegDCT.DctProofsA JpegDCT.DctProofsB JpegDCT.DctProofsC JpegDCT.DctProofsR.
Open Scope Z_scope.

(* quantiser exactly as coded: |c - d*q(c)| <= d/2 for every integer c and divisor d > 0 *)
Theorem C11_quant_error : forall c d : Z, (0 < d)%Z -> (2 * Z.abs (c - d * quant_coded c d) <= d)%Z.
Proof. exact quant_error. Qed.
Print Assumptions C11_quant_error.
Example C11_quant_error_instance : (0 < 24)%Z /\ quant_coded (-36) 24 = (-2)%Z /\ quant_coded 35 24 = 1%Z.
Proof. repeat split. Qed.

(* the int32 quantisers of both encoders (divisor 8*q) for every table entry 1..255 *)
Theorem C11_quant8_error : forall c q : Z, (Z.abs c <= 2 ^ 29)%Z -> (1 <= q <= 255)%Z ->
  (2 * Z.abs (c - 8 * q * quant8 c q) <= 8 * q)%Z.
Proof. exact quant8_error. Qed.
Print Assumptions C11_quant8_error.
Theorem C11_quant12_error : forall c q : Z, (Z.abs c <= 2 ^ 29)%Z -> (1 <= q <= 255)%Z ->
  (2 * Z.abs (c - 8 * q * quant12 c q) <= 8 * q)%Z.
Proof. exact quant12_error. Qed.
Print Assumptions C11_quant12_error.
Example C11_quant8_instance : (Z.abs (-16380) <= 2 ^ 29)%Z /\ (1 <= 255 <= 255)%Z /\ quant8 (-16380) 255 = (-8)%Z.
Proof. repeat split; vm_compute; congruence. Qed.

(* every entry of every table the encoders can write: 64 entries, each in 1..255 *)
Theorem C11_scale_table_range : forall q base, (1 <= q <= 100)%Z -> base = jpeg_qt_luma \/ base = jpeg_qt_chroma ->
  length (scale_quant_table base q) = 64%nat /\
  forall v, In v (scale_quant_table base q) -> (1 <= v <= 255)%Z.
Proof. exact scale_table_range. Qed.
Print Assumptions C11_scale_table_range.
Example C11_scale_table_instance : nth 0 (scale_quant_table jpeg_qt_luma 1) 0%Z = 255%Z /\ nth 0 (scale_quant_table jpeg_qt_luma 50) 0%Z = 16%Z.
Proof. split; vm_compute; reflexivity. Qed.

(* the table a decoder parses out of the DQT segment is the table the encoder quantised with *)
Theorem C11_dqt_written_is_used : forall q, (1 <= q <= 100)%Z ->
  parse_dqt (length (dqt_payload 0 (scale_quant_table jpeg_qt_luma q))) (dqt_payload 0 (scale_quant_table jpeg_qt_luma q))
    = Some [(0%Z, scale_quant_table jpeg_qt_luma q)] /\
  parse_dqt (length (dqt_payload 1 (scale_quant_table jpeg_qt_chroma q))) (dqt_payload 1 (scale_quant_table jpeg_qt_chroma q))
    = Some [(1%Z, scale_quant_table jpeg_qt_chroma q)].
Proof. exact dqt_written_is_used. Qed.
Print Assumptions C11_dqt_written_is_used.

Theorem C11_zigzag_perm :
  length zigzag = 64%nat /\ length unzig = 64%nat /\
  (forall i, (0 <= i < 64)%Z -> (0 <= znth zigzag i (-1) < 64)%Z) /\
  (forall i, (0 <= i < 64)%Z -> znth unzig (znth zigzag i (-1)) (-1) = i) /\
  (forall k, (0 <= k < 64)%Z -> znth zigzag (znth unzig k (-1)) (-1) = k).
Proof. exact zigzag_perm. Qed.
Print Assumptions C11_zigzag_perm.

(* the triangle-inequality core, over Q, any number of terms *)
Theorem C11_bound_linear : forall l : list qterm,
  Forall (fun t => (Qabs (tg t) <= tw t)%Q /\ (Qabs (te t) <= tq t / 2)%Q) l ->
  (Qabs (qsum_ge l) <= (1 # 2) * qsum_wq l)%Q.
Proof. exact DctProofsC.C11_bound_linear. Qed.
Print Assumptions C11_bound_linear.
Example C11_bound_linear_nonvacuous :
  let l := [ {| tg := 1 # 4; te := - (3 # 2); tw := 1 # 4; tq := 3 |};
             {| tg := - (1 # 8); te := 8; tw := 1 # 8; tq := 16 |} ] in
  Forall (fun t => (Qabs (tg t) <= tw t)%Q /\ (Qabs (te t) <= tq t / 2)%Q) l /\
  (Qabs (qsum_ge l) == (1 # 2) * qsum_wq l)%Q.
Proof. exact C11_bound_linear_instance. Qed.

(* the statement's table term: coefficient errors within half a step, synthesised by the
   exact inverse DCT basis C(u)C(v)/4 cos cos, move sample (x,y) by <= (1/8) sum C(u)C(v) Q *)
Theorem C11_bound_idct : forall (x y : nat) (qt : list Z) (err : nat -> R),
  (forall k, (k < length qt)%nat -> (Rabs (err k) <= IZR (nth k qt 0%Z) / 2)%R) ->
  (Rabs (rsum (map (fun kq : nat * Z => basis x y (fst kq mod 8) (fst kq / 8) * err (fst kq))
                  (combine (seq 0 (length qt)) qt))) <= tableBound qt)%R.
Proof. exact DctProofsR.C11_bound_idct. Qed.
Print Assumptions C11_bound_idct.

(* end to end for one sample of one block; _partial: Hfwd/Hinv ("the coded DCT/IDCT pair is
   within delta of an exact inverse pair") are hypotheses *)
Theorem C11_grey_bound_partial : forall (terms : list eterm) (x : R) (y : Z) (af di : R),
  x = rsum (map (fun t : eterm => (eg t * ec t)%R) terms) ->
  (0 <= x <= 255)%R ->
  Forall (fun t : eterm => (Rabs (eg t) <= ew t)%R /\ (1 <= eq_ t <= 255)%Z /\ (Z.abs (ecq t) <= 2 ^ 29)%Z) terms ->
  (Rabs (rsum (map (fun t : eterm => (eg t * (IZR (ecq t) / 8 - ec t))%R) terms)) <= af)%R ->
  (Rabs (IZR y - clampR (rsum (map (fun t : eterm => (eg t * IZR (kq t * eq_ t))%R) terms))) <= di)%R ->
  forall qt : list Z,
  map eq_ terms = qt /\ map ew terms = map wIdct (seq 0 (length terms)) ->
  (af + di <= 2)%R -> (Rabs (IZR y - x) <= boundGrey qt)%R.
Proof. exact DctProofsR.C11_grey_bound_partial. Qed.
Print Assumptions C11_grey_bound_partial.

(* a concrete instance of all hypotheses (one coefficient, weight 1/8 = wIdct 0) *)
Example C11_grey_bound_hypotheses_instance :
  let t := {| eg := wIdct 0; ew := wIdct 0; ec := 80; ecq := 640; eq_ := 3 |} in
  let x := (wIdct 0 * 80)%R in
  x = rsum (map (fun t : eterm => (eg t * ec t)%R) [t]) /\
  Forall (fun t : eterm => (Rabs (eg t) <= ew t)%R /\ (1 <= eq_ t <= 255)%Z /\ (Z.abs (ecq t) <= 2 ^ 29)%Z) [t] /\
  (Rabs (rsum (map (fun t : eterm => (eg t * (IZR (ecq t) / 8 - ec t))%R) [t])) <= 0)%R /\
  kq t = 27%Z /\
  (map eq_ [t] = [3%Z] /\ map ew [t] = map wIdct (seq 0 (length [t]))).
Proof.
  cbv zeta. split; [unfold rsum; simpl; ring|].
  split.
  { constructor; [|constructor]. simpl. split.
    - rewrite Rabs_right; [apply Rle_refl|]. unfold wIdct. simpl.
      pose proof (Cw_pos 0) as H. simpl in H. apply Rle_ge. apply Rlt_le.
      apply Rdiv_lt_0_compat; [apply Rmult_lt_0_compat; exact H | apply Rlt_0_IZR || idtac].
      all: try (apply IZR_lt; reflexivity).
    - split; [split; intro; discriminate | intro; discriminate]. }
  split.
  { unfold rsum. simpl.
    replace (wIdct 0 * (640 / 8 - 80) + 0)%R with 0%R by field.
    rewrite Rabs_R0. apply Rle_refl. }
  split; [vm_compute; reflexivity|]. split; reflexivity.
Qed.

(* quality 100: both encoders write the all-ones table, for which the property's bound is
   below 10 ("at quality 100 no greyscale sample is off by more than 10") *)
Theorem C11_q100_le_10 :
  scale_quant_table jpeg_qt_luma 100 = repeat 1%Z 64 /\ (boundGrey (repeat 1%Z 64) <= 10)%R.
Proof. exact DctProofsR.C11_q100_le_10. Qed.
Print Assumptions C11_q100_le_10.

(* propagation of the luma/chroma bounds through |inverse colour matrix| *)
Theorem C11_rgb_propagate : forall dy dcb dcr by_ bcb bcr : R,
  (Rabs dy <= by_)%R -> (Rabs dcb <= bcb)%R -> (Rabs dcr <= bcr)%R ->
  (Rabs (dy + 1.402 * dcr) <= by_ + 1.402 * bcr)%R /\
  (Rabs (dy - 0.344136 * dcb - 0.714136 * dcr) <= by_ + 0.344136 * bcb + 0.714136 * bcr)%R /\
  (Rabs (dy + 1.772 * dcb) <= by_ + 1.772 * bcb)%R.
Proof. exact DctProofsR.C11_rgb_propagate. Qed.
Print Assumptions C11_rgb_propagate.

(* identical geometry: every block of the scan — (mcuX*H+h, mcuY*V+v) — is decoded onto its
   own cell of the component grid, for all sampling factors and all widths and heights (the
   encoders of /repo emit 1x1 sampling; the general statement covers them) *)
Theorem C11_scan_grid_ok : forall width height comps hv bx by_,
  1 <= fst hv -> 1 <= snd hv ->
  0 <= bx < comp_wb width comps hv -> 0 <= by_ < comp_hb height comps hv ->
  last_writer (comp_wb width comps hv) (comp_hb height comps hv)
              (scan_blocks width height comps hv)
              (block_offset (comp_wb width comps hv) bx by_) = Some (bx, by_).
Proof. exact scan_grid_ok. Qed.
Print Assumptions C11_scan_grid_ok.
Example C11_scan_grid_instance :
  comp_wb 33 [(1, 1)] (1, 1) = 5 /\ comp_hb 9 [(1, 1)] (1, 1) = 2 /\
  last_writer 5 2 (scan_blocks 33 9 [(1, 1)] (1, 1)) (block_offset 5 4 1) = Some (4, 1).
Proof. repeat split; vm_compute; reflexivity. Qed.
