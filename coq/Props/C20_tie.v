(* C20, tie by translation: RCTForward / RCTInverse of jpeg2000/colorspace/rct.go, translated from the Go
   source on every run with Go's int32 wrap-around made explicit, equal the int32 model functions of J2K/RCT.v
   about which C20_rct_* are stated. *)
From V Require Import Common.Base Gen.Kernels_gen Tie.TieKernels.
Require V.J2K.RCT.

Theorem C20_tie_RCTForward : forall r g b, jpeg2000_colorspace_RCTForward r g b = V.J2K.RCT.rct_fwd32 r g b.
Proof. exact tie_RCTForward. Qed.
Print Assumptions C20_tie_RCTForward.

Theorem C20_tie_RCTInverse : forall y cb cr, jpeg2000_colorspace_RCTInverse y cb cr = V.J2K.RCT.rct_inv32 y cb cr.
Proof. exact tie_RCTInverse. Qed.
Print Assumptions C20_tie_RCTInverse.

Example C20_tie_instance : jpeg2000_colorspace_RCTInverse 100 (-7) 12 = (111, 99, 92) /\
  jpeg2000_colorspace_RCTForward 2147483647 2147483647 2147483647 = (-1, 0, 0).
Proof. vm_compute. split; reflexivity. Qed.
