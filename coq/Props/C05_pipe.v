(* C05 / C04 (pipe, quality layers): the composed reversible single-tile path with nl >= 2 quality
   layers and ANY monotone allocation of coding passes to layers (the allocation computed by the
   rate-distortion code is a parameter of the model; coq/Pipe/PipeModel.v pipe_encode_tile_layers /
   pipe_decode_tile_layers, byte-exact against jpeg2000.Encoder / Decoder for NumLayers 2..6 when
   the allocation read off the Go packet headers is supplied). *)
From V Require Import Common.Base J2KGeo.GeoModel J2KGeo.GeoLayers J2KGeo.GeoProofsLayers J2KGeo.GeoProofsSamples
  T1.T1Model T1.T1Bytes T2.T2Header T2.T2Packets T2.T2ProofsHeader T2.T2ProofsHeader3 T2.T2ProofsPackets1 T2.T2ProofsPackets2 T2.T2ProofsGather
  Pipe.PipeModel Pipe.PipeProofsFront Pipe.PipeProofsGeo Pipe.PipeProofsCells Pipe.PipeProofsMain
  Pipe.PipeCellRel Pipe.PipeLCellRel Pipe.PipeT1ratesThm Pipe.PipeLBlockDomain Pipe.PipeLBlock Pipe.PipeLCells
  Pipe.PipeGatherOnce Pipe.PipeGatherLayers Pipe.PipeLT2 Pipe.PipeLMain.

(* ---- the end-to-end theorem (partial: the one named hypothesis of the one-layer theorem) ---- *)

Theorem C05_pipe_layers_roundtrip_partial : forall p nl alloc samples,
  pp_scope p -> 2 <= nl -> alloc_ok nl alloc -> samples_ok p samples ->
  hyp_block_sizes p (pack_image p samples) ->
  exists tile, pipe_encode_tile_layers p nl alloc (pack_image p samples) = Ok tile /\
               pipe_decode_tile_layers p nl tile = Ok (pack_image p samples).
Proof. exact pipe_layers_roundtrip_partial. Qed.
Print Assumptions C05_pipe_layers_roundtrip_partial.

(* the premise about the allocation in elementary terms: requested cumulative pass counts of the
   layers 0 .. nl-2 non-negative and non-decreasing *)
Theorem C05_pipe_alloc_rows : forall nl row, nondec_from 0 (pcs_of row (nl - 1)) -> row_ok nl row.
Proof. exact row_ok_of_nondec. Qed.
Print Assumptions C05_pipe_alloc_rows.

(* ---- the stage interfaces proved for the chain ---- *)

(* the Rate table of t1.EncodeLayered (style 0, all passes): non-decreasing, inside the data, the
   last rate is the full length *)
Theorem C05_pipe_t1_layered_rates : forall (wn hn : nat) (orient : Z) (cs : list Z),
  length cs = (wn * hn)%nat -> (forall c, In c cs -> - 2 ^ 25 < c < 2 ^ 25) ->
  let data := map (fun c => c * 64) cs in
  let n := find_max_bitplane data + 1 - 6 in
  0 < n ->
  exists mb ps bytes,
    enc_layered wn hn orient 0 6 (n * 3 - 2) data = Ok (mb, ps, bytes) /\
    enc_plain wn hn orient 0 6 (n * 3 - 2) data = Ok bytes /\
    zlen ps = n * 3 - 2 /\
    Forall (fun q => p_term q = false /\ 0 <= p_actual q <= p_rate q) ps /\
    rates_ok (gl_passes ps) (zlen bytes) /\
    rate_at (gl_passes ps) (zlen ps) = zlen bytes.
Proof. exact t1_layered_rates. Qed.
Print Assumptions C05_pipe_t1_layered_rates.

Theorem C05_pipe_t1_layered_zero_block : forall (wn hn : nat) (orient np : Z),
  enc_layered wn hn orient 0 6 np (repeat 0 (wn * hn)) = Ok (-1, [], []).
Proof. exact t1_layered_zero_block. Qed.
Print Assumptions C05_pipe_t1_layered_zero_block.

(* a finalised block: every layer's contribution is inside the domain of the packet-header codes,
   and the layers together carry all bytes and all passes *)
Theorem C05_pipe_finalized_block : forall nl row passes data b,
  2 <= nl -> passes <> [] -> zlen passes <= 164 -> zlen data <= 65535 ->
  rates_ok passes (zlen data) -> Forall (fun q : Z * Z => 0 <= snd q <= fst q) passes ->
  mono_alloc passes row nl -> finalized nl row passes data b ->
  layered_block nl b /\
  (forall l, 0 <= l < nl -> zlen (b_data b l) <= 65535) /\
  contrib_acc b nl = (firstn (Z.to_nat (rate_at passes (zlen passes))) data, zlen passes).
Proof. exact finalized_block_ok. Qed.
Print Assumptions C05_pipe_finalized_block.

(* gatherCBData over several layers: zero-bit-plane count and pass lengths of a key *)
Theorem C05_pipe_gather_static : forall comp order dps m k z, 0 <= z ->
  static_ok z (aget key2_eqb m k) ->
  (forall dp t, In dp dps -> writes comp order dp k t -> di_zbp (fst (fst t)) = z /\ di_pl (fst (fst t)) = []) ->
  static_ok z (aget key2_eqb (gather comp order m dps) k) /\
  ((exists dp t, In dp dps /\ writes comp order dp k t) ->
     exists ci, aget key2_eqb (gather comp order m dps) k = Some ci /\ ci_zbpset ci = true).
Proof. exact gather_static. Qed.
Print Assumptions C05_pipe_gather_static.

(* the packets of one cell come in layer order *)
Theorem C05_pipe_total_e_layers : forall nl keys eps cells0 k bands0 j o,
  Sched nl keys (fun _ => 0) (map ep_item eps) -> Forall (incls_ok cells0) eps ->
  In k keys -> aget key3_eqb cells0 k = Some bands0 ->
  total_e k j eps o = fold_left (layer_step bands0 j) (zseq nl) o.
Proof. exact total_e_layers. Qed.
Print Assumptions C05_pipe_total_e_layers.

(* one code-block on the layered path *)
Theorem C05_pipe_code_block_layers : forall p, 1 <= pp_prec p <= 16 -> forall nl, 2 <= nl ->
  forall row res cb cbx cby,
  PipeProofsBlock.rb_valid p res (cb_band cb) -> PipeProofsBlock.coef_ok cb -> row_ok nl row ->
  (forall b0, enc_code_block p res cb cbx cby = Ok b0 -> zlen (eb_data b0) <= 65535) ->
  exists b, enc_code_block_layers p nl row res cb cbx cby = Ok b /\
    eb_cbx b = cbx /\ eb_cby b = cby /\ layered_block nl b /\
    (forall l, zlen (b_data b l) <= 65535) /\
    0 <= snd (contrib_acc b nl) /\ (snd (contrib_acc b nl) = 0 -> fst (contrib_acc b nl) = []) /\
    forall m idx x0 y0, 0 <= cb_band cb <= 3 -> delivered nl b (aget key2_eqb m (res, idx)) ->
      dec_code_block p m idx (res, (x0, y0, x0 + cb_w cb, y0 + cb_h cb, cb_band cb)) =
        Ok (x0, y0, x0 + cb_w cb, y0 + cb_h cb, cb_data cb).
Proof. exact enc_code_block_layers_spec. Qed.
Print Assumptions C05_pipe_code_block_layers.

(* EncodePackets / DecodePackets / gatherCBData over nl layers on the layered store *)
Theorem C05_pipe_t2_layers : forall p, pp_scope p -> forall nl, 2 <= nl -> forall alloc, alloc_ok nl alloc ->
  forall coeffs, length coeffs = Z.to_nat (pp_nc p) -> (forall d, In d coeffs -> zlen d = pp_w p * pp_h p) ->
  (forall d, In d coeffs -> forall v, In v d -> - 2 ^ 25 < v < 2 ^ 25) ->
  (forall d, In d coeffs -> forall r cb, In (r, cb) (enc_blocks p d) ->
     forall b0, enc_code_block p r cb (cb_cbx cb) (cb_cby cb) = Ok b0 -> zlen (eb_data b0) <= 65535) ->
  forall cells, pipe_cells_layers p nl alloc coeffs = Ok cells -> 0 <= pp_order p <= 4 ->
  (exists eps cells', enc_packets (pp_order p) nl (pp_levels p + 1) (pp_nc p) (pipe_pgeom p) cells = Ok (eps, cells') /\ small_packets eps) /\
  forall eps cells', enc_packets (pp_order p) nl (pp_levels p + 1) (pp_nc p) (pipe_pgeom p) cells = Ok (eps, cells') -> small_packets eps ->
  exists dps,
    dec_packets (packets_bytes eps) (pp_order p) nl (pp_levels p + 1) (pp_nc p) (pipe_pgeom_dec p) (dec_pidx p) (dec_geo p) 0 false false = Ok dps /\
    forall c, 0 <= c < pp_nc p -> forall i r cb, In (i, (r, cb)) (NE p (coef coeffs c)) ->
      delivered nl (mkL p nl alloc c r cb) (aget key2_eqb (gather c (dec_order p) [] dps) (r, i)).
Proof.
  intros p Hsc nl Hnl alloc Hal coeffs Hnc Hlen Hb Hsz cells Ec Hord. split.
  - exact (t2_encodes_L p Hsc nl Hnl alloc Hal coeffs Hnc Hlen Hb Hsz cells Ec Hord).
  - intros eps cells' E Hs. exact (t2_delivers_L p Hsc nl Hnl alloc Hal coeffs Hnc Hlen Hb Hsz cells Ec eps cells' Hord E Hs).
Qed.
Print Assumptions C05_pipe_t2_layers.

(* ---- non-vacuity: the 2x2 RGB image of C04_pipe with 3 layers and the allocation (1, 3, all) ---- *)

Definition exl_p : pparams := mkPP 2 2 3 8 false 1 4 4 true 2 0 0 2.
Definition exl_samples : list Z := [10; 200; 30; 40; 255; 0; 1; 2; 3; 250; 128; 7].
Definition exl_alloc : Z -> bkey -> list Z := fun _ _ => [1; 3; 0].

Example C05_pipe_example_roundtrip :
  exists tile, pipe_encode_tile_layers exl_p 3 exl_alloc (pack_image exl_p exl_samples) = Ok tile /\
               pipe_decode_tile_layers exl_p 3 tile = Ok (pack_image exl_p exl_samples) /\ (10 <= zlen tile)%Z.
Proof. eexists. split; [vm_compute; reflexivity|]. split; [vm_compute; reflexivity | vm_compute; discriminate]. Qed.

Example C05_pipe_example_hypotheses :
  pp_scope exl_p /\ 2 <= 3 /\ alloc_ok 3 exl_alloc /\ samples_ok exl_p exl_samples /\
  hyp_block_sizes exl_p (pack_image exl_p exl_samples).
Proof.
  split; [unfold pp_scope, pow2_size, exl_p; cbn; lia|]. split; [lia|].
  split.
  { intros c k. apply row_ok_of_nondec. unfold exl_alloc. vm_compute. repeat split; intros H0; discriminate H0. }
  split.
  { split; [reflexivity|]. unfold exl_samples, exl_p, in_sample_range. cbn. repeat constructor; lia. }
  intros coeffs Ec. vm_compute in Ec. injection Ec as <-. intros d Hd r cb Hin b Eb.
  assert (Hb : forallb (fun d0 => forallb (fun rc : Z * cblock =>
                   match enc_code_block exl_p (fst rc) (snd rc) (cb_cbx (snd rc)) (cb_cby (snd rc)) with
                   | Ok b0 => zlen (eb_data b0) <=? 65535 | _ => false end) (enc_blocks exl_p d0))
                 [[-33; 77; -58; 99]; [-136; -104; 153; -37]; [-70; 49; 263; 148]] = true) by (vm_compute; reflexivity).
  rewrite forallb_forall in Hb. specialize (Hb d Hd). rewrite forallb_forall in Hb. specialize (Hb (r, cb) Hin).
  cbn [fst snd] in Hb. rewrite Eb in Hb. apply Z.leb_le in Hb. exact Hb.
Qed.
