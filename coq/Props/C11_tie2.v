(* C11, tie by translation (second list): jpeg/standard Clamp, DivCeil, IsRST equal the model functions of JpegDCT (DctIslow.clamp, DctGeometry.div_ceil, DctRestart.is_rst). *)
From V Require Import Common.Base Gen.KernelsMore_gen Tie.TieKernelsMoreJpeg.

Theorem C11_tie2_std_Clamp : forall v lo hi, jpeg_standard_Clamp v lo hi = V.JpegDCT.DctIslow.clamp v lo hi.
Proof. exact tie_std_Clamp. Qed.
Print Assumptions C11_tie2_std_Clamp.

Theorem C11_tie2_std_DivCeil : forall a b, jpeg_standard_DivCeil a b = V.JpegDCT.DctGeometry.div_ceil a b.
Proof. exact tie_std_DivCeil. Qed.
Print Assumptions C11_tie2_std_DivCeil.

Theorem C11_tie2_std_IsRST : forall b, jpeg_standard_IsRST (65280 + b) = V.JpegDCT.DctRestart.is_rst b.
Proof. exact tie_std_IsRST. Qed.
Print Assumptions C11_tie2_std_IsRST.

Example C11_tie2_instance : jpeg_standard_IsRST (65280 + 215) = true /\ jpeg_standard_DivCeil 17 8 = 3.
Proof. vm_compute. split; reflexivity. Qed.
