(* C16 - each frame emitted by any encoder is exactly one self-delimiting codestream, and its
   frame header declares exactly the arguments given to the encoder. Property theorems only.

   Models: Framing/FrmJpeg.v, FrmJls.v, FrmJ2k.v - strict walkers written from T.81, T.87 and
   ISO/IEC 15444-1 Annex A (not from the Go writers); Framing/FrmWriters.v - the Go writers of
   framing bytes (standard.Writer.WriteSegment, standard.HuffmanEncoder, t2.bioWriter, the
   SOF/SOS/SIZ/COD payload writers, the whole-frame assembly of the lossless encoders).

   What is proved here, for ALL inputs: the segment step; no marker code can leave the Huffman
   bit writer or the packet-header bit writer; header fields round-trip; a whole JPEG
   lossless / SV1 frame is accepted with the right header and nothing may follow it.
   What is NOT proved here: the MQ coder's no-marker property (MQ area, C16_mq_no_marker), the
   JPEG-LS Golomb writer (JpegLS area), HT block coders (no model), and the assembly of the
   DCT / JPEG-LS / JPEG 2000 encoders: for those the tie is the walker run over every emitted
   stream (harness suite framing/c16.go), which is a search, not a proof.
   Range facts (not findings on the fixed tree): the round-trip theorems need dimensions in
   1..65535 - outside it the 16-bit fields drop the high bits (C16_header_fields_outside_dims16)
   - and the segment theorem needs a payload that fits the 16-bit length
   (C16_segment_length_overflow_wraps). Since the C17 fixes every Encode rejects arguments
   outside those ranges: C16_accepted_header_* state the header property for EVERY accepted
   argument tuple. Known finding left open: HTJ2K codecs declare BitsAllocated as precision
   (harness signature c16:htj2k-20x:header:precision; no Coq model of the codec glue). *)
From V Require Import Common.Base Framing.FrmBase Framing.FrmJpeg Framing.FrmJls Framing.FrmJ2k
  Framing.FrmWriters Framing.FrmProofsSeg Framing.FrmProofsHuff Framing.FrmProofsBio
  Framing.FrmProofsHdr Framing.FrmProofsFrame Framing.FrmValidate Framing.FrmProofsAccepted.

(* Every marker segment WriteSegment emits is consumed by the walkers' segment step exactly:
   marker code, payload and remainder come back, whatever follows. *)
Theorem C16_segment_length : forall m data rest,
  0 <= m < 256 -> zlen data + 2 < 65536 ->
  read_segment (write_segment (65280 + m) data ++ rest) = SegOk m data rest.
Proof. exact segment_length. Qed.
Print Assumptions C16_segment_length.
Example C16_segment_length_nonvacuous :
  0 <= 219 < 256 /\ zlen [0; 16; 11] + 2 < 65536 /\
  read_segment (write_segment 65499 [0; 16; 11] ++ [255; 217]) = SegOk 219 [0; 16; 11] [255; 217].
Proof. vm_compute. repeat split; discriminate || reflexivity. Qed.

(* ... and the length hypothesis is necessary: a payload of 65534 bytes or more is written with
   the length reduced modulo 2^16, without an error. No encoder reaches this through
   WriteSegment; jpeg2000.writeTLM would with more than 10921 tile-parts (outside the
   quantifier: at most 64 tiles). *)
Theorem C16_segment_length_overflow_wraps : forall m data rest,
  0 <= m < 256 -> 65536 <= zlen data + 2 ->
  read_segment (write_segment (65280 + m) data ++ rest) <> SegOk m data rest.
Proof. exact segment_length_overflow_wraps. Qed.
Print Assumptions C16_segment_length_overflow_wraps.
Example C16_segment_length_overflow_nonvacuous :
  let data := repeat 0 (Z.to_nat 65534) in 65536 <= zlen data + 2 /\ segment_length_field data = 0.
Proof. vm_compute. split; [discriminate | reflexivity]. Qed.

(* Huffman bit writer: any WriteBits sequence + Flush gives bytes in which every FF is
   followed by 00; the T.81 entropy scan accepts them and stops exactly at the next marker. *)
Theorem C16_huff_no_marker : forall ops : list (Z * Z),
  ff00 (huff_encode ops) = true /\
  forall rst pos e m rest, m <> 0 -> ~ (208 <= m <= 215) -> m <> 255 ->
    ecs_scan rst (huff_encode ops ++ 255 :: m :: rest) pos e
    = WOk (255 :: m :: rest, pos + zlen (huff_encode ops)).
Proof. exact huff_no_marker. Qed.
Print Assumptions C16_huff_no_marker.
Example C16_huff_no_marker_nonvacuous :
  huff_encode [(255, 8); (1, 1); (65535, 16)] = [255; 0; 255; 0; 255; 0; 255; 0] /\
  217 <> 0 /\ ~ (208 <= 217 <= 215) /\ 217 <> 255.
Proof. split; [vm_compute; reflexivity | lia]. Qed.

(* Packet-header bit writer: for any bit sequence every FF is followed by a byte < 0x80 and
   the output does not end with FF. *)
Theorem C16_bio_no_marker : forall bits : list Z, ff_lt80 (bio_encode bits) = true.
Proof. exact bio_no_marker. Qed.
Print Assumptions C16_bio_no_marker.
Example C16_bio_no_marker_nonvacuous :
  bio_encode [1; 1; 1; 1; 1; 1; 1; 1; 1; 1; 1; 1; 1; 1; 1; 1] = [255; 127; 128] /\
  bio_encode [1; 1; 1; 1; 1; 1; 1; 1] = [255; 0].
Proof. vm_compute. split; reflexivity. Qed.

(* Frame headers: what the encoders write, parsed from the standards, is the argument tuple. *)
Theorem C16_header_roundtrip_baseline : forall h w nc,
  dims16 h w -> nc = 1 \/ nc = 3 ->
  parse_sof 0 (baseline_sof0 h w nc)
  = WOk {| jf_sof := 0; jf_p := 8; jf_y := h; jf_x := w; jf_nf := nc;
           jf_comps := if nc =? 1 then [(0, 1, 1, 0)] else [(1, 1, 1, 0); (2, 1, 1, 1); (3, 1, 1, 1)] |}.
Proof. exact baseline_header_roundtrip. Qed.
Print Assumptions C16_header_roundtrip_baseline.

Theorem C16_header_roundtrip_extended12 : forall h w, dims16 h w ->
  parse_sof 1 (seq12_sof1 h w)
  = WOk {| jf_sof := 1; jf_p := 12; jf_y := h; jf_x := w; jf_nf := 1; jf_comps := [(1, 1, 1, 0)] |}.
Proof. exact seq12_header_roundtrip. Qed.
Print Assumptions C16_header_roundtrip_extended12.

Theorem C16_header_roundtrip_lossless : forall p h w nc,
  dims16 h w -> 2 <= p <= 16 -> nc = 1 \/ nc = 3 ->
  parse_sof 3 (lossless_sof3 p h w nc)
  = WOk {| jf_sof := 3; jf_p := p; jf_y := h; jf_x := w; jf_nf := nc; jf_comps := seq_comps nc |}.
Proof. exact lossless_header_roundtrip. Qed.
Print Assumptions C16_header_roundtrip_lossless.

Theorem C16_header_roundtrip_jpegls : forall p h w nc,
  dims16 h w -> 2 <= p <= 16 -> nc = 1 \/ nc = 3 ->
  parse_sof55 (lossless_sof3 p h w nc)
  = WOk {| jf_sof := 3; jf_p := p; jf_y := h; jf_x := w; jf_nf := nc; jf_comps := seq_comps nc |}.
Proof. exact jls_header_roundtrip. Qed.
Print Assumptions C16_header_roundtrip_jpegls.

Example C16_dims16_nonvacuous : dims16 65535 256 /\ dims16 1 65535.
Proof. unfold dims16. lia. Qed.

Theorem C16_scan_header_roundtrip_lossless : forall nc pred,
  nc = 1 \/ nc = 3 -> 0 <= pred < 256 ->
  parse_sos (lossless_sos nc pred)
  = WOk {| sc_comps := if nc =? 1 then [(1, 0, 0)] else [(1, 0, 0); (2, 0, 0); (3, 0, 0)];
           sc_ss := pred; sc_se := 0; sc_ah := 0; sc_al := 0 |}.
Proof. exact lossless_sos_roundtrip. Qed.
Print Assumptions C16_scan_header_roundtrip_lossless.

Theorem C16_scan_header_roundtrip_jpegls : forall nc near,
  nc = 1 \/ nc = 3 -> 0 <= near < 256 ->
  parse_lsos (jls_sos nc near)
  = WOk {| ls_comps := if nc =? 1 then [(1, 0)] else [(1, 0); (2, 0); (3, 0)];
           ls_near := near; ls_ilv := if nc =? 1 then 0 else 2; ls_al := 0; ls_ah := 0 |}.
Proof. exact jls_sos_roundtrip. Qed.
Print Assumptions C16_scan_header_roundtrip_jpegls.

Theorem C16_header_roundtrip_j2k_siz : forall ht w h tw th nc depth signed rest,
  1 <= w < 4294967296 -> 1 <= h < 4294967296 ->
  0 <= tw < 4294967296 -> 0 <= th < 4294967296 ->
  nc = 1 \/ nc = 2 \/ nc = 3 \/ nc = 4 -> 1 <= depth <= 38 ->
  ceil_div w (tile_dim tw w) * ceil_div h (tile_dim th h) <= 65535 ->
  let p := j2k_siz_payload ht w h tw th nc depth signed in
  read_segment (j2k_siz_segment ht w h tw th nc depth signed ++ rest) = SegOk 81 p rest /\
  zlen p + 2 = 38 + 3 * nc /\
  parse_siz p
  = WOk {| sz_rsiz := if ht then 16384 else 0; sz_x := w; sz_y := h; sz_xo := 0; sz_yo := 0;
           sz_xt := tile_dim tw w; sz_yt := tile_dim th h; sz_xto := 0; sz_yto := 0; sz_c := nc;
           sz_comps := repeat (ssiz_of depth signed, 1, 1) (Z.to_nat nc) |}.
Proof. exact j2k_siz_roundtrip. Qed.
Print Assumptions C16_header_roundtrip_j2k_siz.
Example C16_j2k_siz_nonvacuous :
  ceil_div 65535 (tile_dim 8192 65535) * ceil_div 3000 (tile_dim 375 3000) = 64 /\
  parse_siz (j2k_siz_payload false 65535 3000 8192 375 3 12 true)
  = WOk {| sz_rsiz := 0; sz_x := 65535; sz_y := 3000; sz_xo := 0; sz_yo := 0; sz_xt := 8192;
           sz_yt := 375; sz_xto := 0; sz_yto := 0; sz_c := 3;
           sz_comps := [(139, 1, 1); (139, 1, 1); (139, 1, 1)] |}.
Proof. vm_compute. split; reflexivity. Qed.

Theorem C16_header_roundtrip_j2k_cod : forall prog layers mct levels xcbf ycbf ht lossless,
  0 <= prog <= 4 -> 1 <= layers <= 65535 -> 0 <= levels <= 32 ->
  0 <= xcbf <= 8 -> 0 <= ycbf <= 8 -> xcbf + ycbf <= 8 ->
  parse_cod (j2k_cod_payload prog layers mct levels xcbf ycbf ht lossless)
  = WOk {| cd_scod := 0; cd_prog := prog; cd_layers := layers; cd_mct := if mct then 1 else 0;
           cd_levels := levels; cd_xcb := xcbf + 2; cd_ycb := ycbf + 2;
           cd_style := if ht then 64 else 0; cd_transform := if lossless then 1 else 0;
           cd_precincts := [] |}.
Proof. exact j2k_cod_roundtrip. Qed.
Print Assumptions C16_header_roundtrip_j2k_cod.

(* The dims16 hypothesis is necessary: outside 1..65535 the JPEG size fields lie. (Before the
   C17 fixes the encoders accepted such sizes; now see C16_accepted_header_*.) *)
Theorem C16_header_fields_outside_dims16 :
  (exists w, 65535 < w /\ parse_sof 3 (lossless_sof3 8 1 w 1) = WBad RSofDims 0) /\
  (exists w, 65535 < w /\
     parse_sof 3 (lossless_sof3 8 1 w 1)
     = WOk {| jf_sof := 3; jf_p := 8; jf_y := 1; jf_x := 1; jf_nf := 1; jf_comps := [(1, 1, 1, 0)] |}) /\
  (exists h, 65535 < h /\
     parse_sof 0 (baseline_sof0 h 7 1)
     = WOk {| jf_sof := 0; jf_p := 8; jf_y := 1; jf_x := 7; jf_nf := 1; jf_comps := [(0, 1, 1, 0)] |}).
Proof. exact header_fields_outside_dims16. Qed.
Print Assumptions C16_header_fields_outside_dims16.

(* COD cannot carry code-blocks above 4096 samples, progression > 4 or 65536 layers: the
   parser rejects what writeCOD would write (validateParams now refuses these values). *)
Theorem C16_cod_rejects_unrepresentable :
  parse_cod (j2k_cod_payload 0 1 false 5 8 8 false true) = WBad RCodSyntax 0 /\
  parse_cod (j2k_cod_payload 5 1 false 5 4 4 false true) = WBad RCodSyntax 0 /\
  parse_cod (j2k_cod_payload 0 65536 false 5 4 4 false true) = WBad RCodSyntax 0.
Proof. exact j2k_cod_rejects_unrepresentable. Qed.
Print Assumptions C16_cod_rejects_unrepresentable.


(* For EVERY argument tuple the encoders accept (guards of FrmValidate = the code after the
   C17 fixes), the header written declares exactly the arguments. *)
Theorem C16_accepted_header_baseline : forall a, baseline_accepts a = true ->
  parse_sof 0 (baseline_sof0 (a_h a) (a_w a) (a_c a))
  = WOk {| jf_sof := 0; jf_p := 8; jf_y := a_h a; jf_x := a_w a; jf_nf := a_c a;
           jf_comps := if a_c a =? 1 then [(0, 1, 1, 0)] else [(1, 1, 1, 0); (2, 1, 1, 1); (3, 1, 1, 1)] |}.
Proof. exact baseline_accepted_header. Qed.
Print Assumptions C16_accepted_header_baseline.

Theorem C16_accepted_header_extended12 : forall a, a_p a = 12 -> extended_accepts a = true ->
  parse_sof 1 (seq12_sof1 (a_h a) (a_w a))
  = WOk {| jf_sof := 1; jf_p := 12; jf_y := a_h a; jf_x := a_w a; jf_nf := 1; jf_comps := [(1, 1, 1, 0)] |}
  /\ a_c a = 1.
Proof. exact extended12_accepted_header. Qed.
Print Assumptions C16_accepted_header_extended12.

Theorem C16_accepted_header_lossless : forall a, lossless_accepts a = true ->
  parse_sof 3 (lossless_sof3 (a_p a) (a_h a) (a_w a) (a_c a))
  = WOk {| jf_sof := 3; jf_p := a_p a; jf_y := a_h a; jf_x := a_w a; jf_nf := a_c a;
           jf_comps := seq_comps (a_c a) |}
  /\ (1 <= a_x a ->
      parse_sos (lossless_sos (a_c a) (a_x a))
      = WOk {| sc_comps := if a_c a =? 1 then [(1, 0, 0)] else [(1, 0, 0); (2, 0, 0); (3, 0, 0)];
               sc_ss := a_x a; sc_se := 0; sc_ah := 0; sc_al := 0 |}).
Proof. exact lossless_accepted_header. Qed.
Print Assumptions C16_accepted_header_lossless.

Theorem C16_accepted_header_sv1 : forall a, sv1_accepts a = true ->
  parse_sof 3 (lossless_sof3 (a_p a) (a_h a) (a_w a) (a_c a))
  = WOk {| jf_sof := 3; jf_p := a_p a; jf_y := a_h a; jf_x := a_w a; jf_nf := a_c a;
           jf_comps := seq_comps (a_c a) |}.
Proof. exact sv1_accepted_header. Qed.
Print Assumptions C16_accepted_header_sv1.

Theorem C16_accepted_header_jpegls : forall a, jls_accepts a = true ->
  parse_sof55 (lossless_sof3 (a_p a) (a_h a) (a_w a) (a_c a))
  = WOk {| jf_sof := 3; jf_p := a_p a; jf_y := a_h a; jf_x := a_w a; jf_nf := a_c a;
           jf_comps := seq_comps (a_c a) |}
  /\ parse_lsos (jls_sos (a_c a) 0)
     = WOk {| ls_comps := if a_c a =? 1 then [(1, 0)] else [(1, 0); (2, 0); (3, 0)];
              ls_near := 0; ls_ilv := if a_c a =? 1 then 0 else 2; ls_al := 0; ls_ah := 0 |}.
Proof. exact jls_accepted_header. Qed.
Print Assumptions C16_accepted_header_jpegls.

Theorem C16_accepted_header_jpegls_near : forall a, jlsnear_accepts a = true ->
  parse_sof55 (lossless_sof3 (a_p a) (a_h a) (a_w a) (a_c a))
  = WOk {| jf_sof := 3; jf_p := a_p a; jf_y := a_h a; jf_x := a_w a; jf_nf := a_c a;
           jf_comps := seq_comps (a_c a) |}
  /\ parse_lsos (jls_sos (a_c a) (a_x a))
     = WOk {| ls_comps := if a_c a =? 1 then [(1, 0)] else [(1, 0); (2, 0); (3, 0)];
              ls_near := a_x a; ls_ilv := if a_c a =? 1 then 0 else 2; ls_al := 0; ls_ah := 0 |}.
Proof. exact jlsnear_accepted_header. Qed.
Print Assumptions C16_accepted_header_jpegls_near.

Example C16_accepted_nonvacuous :
  baseline_accepts {| a_len := 196605; a_w := 65535; a_h := 1; a_c := 3; a_p := 8; a_x := 1 |} = true /\
  extended_accepts {| a_len := 131070; a_w := 1; a_h := 65535; a_c := 1; a_p := 12; a_x := 100 |} = true /\
  lossless_accepts {| a_len := 1536; a_w := 256; a_h := 1; a_c := 3; a_p := 16; a_x := 7 |} = true /\
  sv1_accepts {| a_len := 300; a_w := 300; a_h := 1; a_c := 1; a_p := 2; a_x := 0 |} = true /\
  jls_accepts {| a_len := 600; a_w := 300; a_h := 1; a_c := 1; a_p := 9; a_x := 0 |} = true /\
  jlsnear_accepts {| a_len := 771; a_w := 257; a_h := 1; a_c := 3; a_p := 8; a_x := 127 |} = true.
Proof. vm_compute. repeat split; reflexivity. Qed.

(* A whole JPEG Lossless / SV1 frame as the encoders assemble it: exactly one well-formed
   codestream whose header is the argument tuple; one more byte after EOI is rejected. *)
Theorem C16_lossless_frame_wellformed : forall p h w nc pred dht ops dc ac,
  dims16 h w -> 2 <= p <= 16 -> nc = 1 \/ nc = 3 -> 1 <= pred <= 7 ->
  zlen dht + 2 < 65536 -> parse_dht dht [] [] = WOk (dc, ac) -> zmem 0 dc = true ->
  jpeg_wellformed (lossless_frame p h w nc pred dht ops)
  = Some {| jh_frame := lossless_frame_header p h w nc; jh_scans := [lossless_scan nc pred];
            jh_ri := 0; jh_napp := 1 |}.
Proof. exact lossless_frame_wellformed. Qed.
Print Assumptions C16_lossless_frame_wellformed.

Theorem C16_lossless_frame_nothing_after_EOI : forall p h w nc pred dht ops dc ac b,
  dims16 h w -> 2 <= p <= 16 -> nc = 1 \/ nc = 3 -> 1 <= pred <= 7 ->
  zlen dht + 2 < 65536 -> parse_dht dht [] [] = WOk (dc, ac) -> zmem 0 dc = true ->
  jpeg_wellformed (lossless_frame p h w nc pred dht ops ++ [b]) = None.
Proof. exact lossless_frame_trailing_rejected. Qed.
Print Assumptions C16_lossless_frame_nothing_after_EOI.

(* a DHT payload in T.81 syntax that defines table 0 (K.3 DC luminance), and a frame built on it *)
Definition example_dht : list Z :=
  [0; 0; 1; 5; 1; 1; 1; 1; 1; 1; 0; 0; 0; 0; 0; 0; 0; 0; 1; 2; 3; 4; 5; 6; 7; 8; 9; 10; 11].
Example C16_lossless_frame_nonvacuous :
  dims16 300 65535 /\ zlen example_dht + 2 < 65536 /\
  parse_dht example_dht [] [] = WOk ([0], []) /\ zmem 0 [0] = true /\
  jpeg_wellformed (lossless_frame 12 2 3 1 4 example_dht [(2, 3); (255, 8); (6, 3); (127, 7)])
  = Some {| jh_frame := lossless_frame_header 12 2 3 1; jh_scans := [lossless_scan 1 4];
            jh_ri := 0; jh_napp := 1 |}.
Proof. unfold dims16. vm_compute. repeat split; discriminate || reflexivity. Qed.
