(* JlsStream (C16): the strict T.87 walker (Framing/FrmJls.v) on the whole output of the byte-exact
   JPEG-LS encoder models JlsModel.jls_encode / jlsn_encode (JpegLS/JlsModel.v: SOI, SOF55, SOS,
   GolombWriter bytes incl. Flush, EOI; no LSE is written).
     jls_scan_clean      the walker's scan step consumes exactly a byte string in which every FF is
                         followed by a byte < 0x80 and which does not end in FF (jls_marker_free,
                         the predicate JlsProofsGolomb.jls_no_marker proves of the packed bit stream)
                         and stops on the EOI;
     walk_frame          SOI ++ write_sof55 ++ write_sos ++ scan ++ EOI for ANY such scan bytes;
     jls_frame_wellformed / jlsn_frame_wellformed   composition with gw_run_pack + jls_no_marker. *)
From V Require Import Common.Base.
Require V.JpegLS.JlsParams V.JpegLS.JlsGolomb V.JpegLS.JlsModel V.JpegLS.JlsProofsGolomb V.JpegLS.JlsProofsWriter
  V.JpegLS.JlsProofsNear0 V.JpegLS.JlsProofsInterrupt V.JpegLS.JlsProofsScan V.JpegLS.JlsProofsStream.
From V Require Import Framing.FrmBase Framing.FrmJpeg Framing.FrmJls Framing.FrmWriters
  Framing.FrmProofsSeg Framing.FrmProofsHdr Framing.FrmProofsFrame.

Module M := V.JpegLS.JlsModel.
Module G := V.JpegLS.JlsGolomb.
Module PG := V.JpegLS.JlsProofsGolomb.

(* ---------- the scan step ---------- *)

Lemma marker_free_tail : forall b r, PG.jls_marker_free (b :: r) = true -> PG.jls_marker_free r = true.
Proof. intros b r H. cbn [PG.jls_marker_free] in H. apply andb_prop in H. exact (proj2 H). Qed.

Lemma jls_scan_clean_n : forall n scan, (length scan <= n)%nat -> PG.jls_marker_free scan = true ->
  forall rst r pos e,
  jls_scan rst (scan ++ 255 :: 217 :: r) pos e = WOk (255 :: 217 :: r, pos + zlen scan).
Proof.
  induction n as [|n IH]; intros scan Hl Hmf rst r pos e.
  - destruct scan; [|cbn in Hl; lia]. cbn [app]. change (zlen []) with 0. rewrite Z.add_0_r. reflexivity.
  - destruct scan as [|b t]; [cbn [app]; change (zlen []) with 0; rewrite Z.add_0_r; reflexivity|].
    cbn [length] in Hl. cbn [app jls_scan]. pose proof Hmf as Hmf0.
    cbn [PG.jls_marker_free] in Hmf. apply andb_prop in Hmf. destruct Hmf as [H1 H2].
    destruct (Z.eqb_spec b 255) as [Eb|Nb].
    + destruct t as [|c t']; [discriminate|]. apply andb_prop in H1. destruct H1 as [Hc0 Hc1].
      cbn [app]. rewrite Hc1. rewrite (IH t') by (cbn [length] in Hl; try lia; eapply marker_free_tail; exact H2).
      rewrite !zlen_cons. f_equal. f_equal. lia.
    + rewrite (IH t) by (try lia; exact H2). rewrite zlen_cons. f_equal. f_equal. lia.
Qed.

Theorem jls_scan_clean : forall scan rst r pos e, PG.jls_marker_free scan = true ->
  jls_scan rst (scan ++ 255 :: 217 :: r) pos e = WOk (255 :: 217 :: r, pos + zlen scan).
Proof. intros. apply (jls_scan_clean_n (length scan)); [lia | assumption]. Qed.

(* ---------- the encoder's header writers are WriteSegment of the FrmWriters payloads ---------- *)

Lemma wrap_land_255 : forall x, wrapU 8 (Z.land x 255) = byte_of x.
Proof.
  intros x. unfold byte_of, wrapU. change 255 with (Z.ones 8). rewrite Z.land_ones by lia.
  apply Z.mod_mod. change (2 ^ 8) with 256. lia.
Qed.

Lemma write_sof55_segment : forall w h comps bd, comps = 1 \/ comps = 3 ->
  M.write_sof55 w h comps bd = write_segment (65280 + 247) (lossless_sof3 bd h w comps).
Proof.
  intros w h comps bd [-> | ->].
  - change (write_segment (65280 + 247) (lossless_sof3 bd h w 1))
      with [255; 247; 0; 11; byte_of bd; byte_of (Z.shiftr h 8); byte_of h;
            byte_of (Z.shiftr w 8); byte_of w; 1; 1; 17; 0].
    rewrite V.JpegLS.JlsProofsStream.sof55_1. rewrite !wrap_land_255. reflexivity.
  - change (write_segment (65280 + 247) (lossless_sof3 bd h w 3))
      with [255; 247; 0; 17; byte_of bd; byte_of (Z.shiftr h 8); byte_of h;
            byte_of (Z.shiftr w 8); byte_of w; 3; 1; 17; 0; 2; 17; 0; 3; 17; 0].
    rewrite V.JpegLS.JlsProofsStream.sof55_3. rewrite !wrap_land_255. reflexivity.
Qed.

Lemma write_sos_segment : forall comps near, comps = 1 \/ comps = 3 ->
  M.write_sos comps near = write_segment (65280 + 218) (jls_sos comps near).
Proof. intros comps near [-> | ->]; reflexivity. Qed.

(* ---------- one step of the walker per marker ---------- *)

Lemma lloop_unfold : forall fu st l pos a m r, l = a :: m :: r ->
  jls_loop (S fu) st l pos =
    if negb (a =? 255) then WBad RExpectedMarker pos
    else if m =? 217 then jls_finish st pos r
    else if (m =? 247) || (m =? 248) || (m =? 218) || (m =? 221)
            || ((224 <=? m) && (m <=? 239)) || (m =? 254) then
      match read_segment l with
      | SegBad rs rel => WBad rs (pos + rel)
      | SegOk _ p rest =>
        let pos' := pos + 4 + zlen p in
        if m =? 247 then
          match lt_frame st with
          | Some _ => WBad RSofDup pos
          | None =>
            match parse_sof55 p with
            | WBad rs _ => WBad rs pos
            | WOk f => jls_loop fu (lt_with_frame st f) rest pos'
            end
          end
        else if m =? 248 then
          match parse_lse st p with
          | WBad rs _ => WBad rs pos
          | WOk st' => jls_loop fu st' rest pos'
          end
        else if m =? 221 then
          match dri_value p with
          | Some ri => jls_loop fu (lt_with_ri st ri) rest pos'
          | None => WBad RDriSyntax pos
          end
        else if m =? 218 then
          match lt_frame st with
          | None => WBad RSosBeforeSof pos
          | Some f =>
            match parse_lsos p with
            | WBad rs _ => WBad rs pos
            | WOk s =>
              match check_lsos st f s with
              | WBad rs _ => WBad rs pos
              | WOk _ =>
                match jls_scan (negb (lt_ri st =? 0)) rest pos' 0 with
                | WBad rs q => WBad rs q
                | WOk (rest', pos'') => jls_loop fu (lt_with_scan st s) rest' pos''
                end
              end
            end
          end
        else jls_loop fu st rest pos'
      end
    else WBad RBadMarker pos.
Proof. intros; subst; reflexivity. Qed.

Lemma lloop_sof55 : forall fu st data rest pos f, zlen data + 2 < 65536 ->
  lt_frame st = None -> parse_sof55 data = WOk f ->
  jls_loop (S fu) st (write_segment (65280 + 247) data ++ rest) pos
  = jls_loop fu (lt_with_frame st f) rest (pos + 4 + zlen data).
Proof.
  intros fu st data rest pos f Hl Hf Hp. erewrite lloop_unfold by (apply seg_shape; lia).
  rewrite segment_length by lia. cbv beta iota zeta. rewrite Hf, Hp. reflexivity.
Qed.

Lemma lloop_sos : forall fu st data rest pos f s rest' pos'', zlen data + 2 < 65536 ->
  lt_frame st = Some f -> parse_lsos data = WOk s -> check_lsos st f s = WOk tt ->
  jls_scan (negb (lt_ri st =? 0)) rest (pos + 4 + zlen data) 0 = WOk (rest', pos'') ->
  jls_loop (S fu) st (write_segment (65280 + 218) data ++ rest) pos
  = jls_loop fu (lt_with_scan st s) rest' pos''.
Proof.
  intros fu st data rest pos f s rest' pos'' Hl Hf Hp Hc He.
  erewrite lloop_unfold by (apply seg_shape; lia).
  rewrite segment_length by lia. cbv beta iota zeta. rewrite Hf, Hp, Hc, He. reflexivity.
Qed.

Lemma lloop_eoi : forall fu st r pos, jls_loop (S fu) st (255 :: 217 :: r) pos = jls_finish st pos r.
Proof. intros. erewrite lloop_unfold by reflexivity. reflexivity. Qed.

(* ---------- what the walker reports ---------- *)

Definition jls_scan_header (comps near : Z) : lscan :=
  {| ls_comps := if comps =? 1 then [(1, 0)] else [(1, 0); (2, 0); (3, 0)];
     ls_near := near; ls_ilv := if comps =? 1 then 0 else 2; ls_al := 0; ls_ah := 0 |}.

(* the header of a frame of w x h samples, comps components (ids 1.., H = V = 1), precision bd,
   one scan over all components with NEAR = near (sample interleaved when comps = 3), no LSE,
   no restart interval *)
Definition jls_declared (w h comps bd near : Z) : jls_header :=
  {| lh_p := bd; lh_y := h; lh_x := w; lh_nf := comps; lh_comps := seq_comps comps;
     lh_scans := [jls_scan_header comps near]; lh_preset := None; lh_ri := 0 |}.

Definition jls_frame_of (w h comps bd : Z) : jframe :=
  {| jf_sof := 3; jf_p := bd; jf_y := h; jf_x := w; jf_nf := comps; jf_comps := seq_comps comps |}.

Lemma check_lsos_ok : forall w h comps bd near,
  2 <= bd <= 16 -> comps = 1 \/ comps = 3 -> 0 <= near <= V.JpegLS.JlsParams.near_max bd ->
  check_lsos (lt_with_frame lt_init (jls_frame_of w h comps bd)) (jls_frame_of w h comps bd)
             (jls_scan_header comps near) = WOk tt.
Proof.
  intros w h comps bd near Hbd Hc Hn. unfold V.JpegLS.JlsParams.near_max in Hn.
  unfold check_lsos, jls_frame_of, jls_scan_header, seq_comps, maxval_of.
  cbn [lt_with_frame lt_init lt_preset lt_maps lt_done jf_nf jf_comps jf_p ls_comps ls_near ls_ilv ls_al ls_ah
       preset_ok].
  destruct (Z.leb_spec near (Z.min 255 ((2 ^ bd - 1) / 2))) as [_|Hx]; [|lia].
  destruct (Z.ltb_spec 0 bd) as [_|Hx]; [|lia].
  destruct Hc as [-> | ->]; reflexivity.
Qed.

(* walk_frame: SOI, SOF55, SOS, any marker-free scan, EOI is one well-formed T.87 codestream and
   the walker reports exactly the arguments *)
Theorem walk_frame : forall w h comps bd near scan,
  dims16 h w -> 2 <= bd <= 16 -> comps = 1 \/ comps = 3 ->
  0 <= near <= V.JpegLS.JlsParams.near_max bd ->
  PG.jls_marker_free scan = true ->
  jls_walk ([255; 216] ++ M.write_sof55 w h comps bd ++ M.write_sos comps near ++ scan ++ [255; 217])
  = WOk (jls_declared w h comps bd near).
Proof.
  intros w h comps bd near scan Hd Hbd Hc Hn Hmf.
  assert (Hn255 : 0 <= near < 256) by (unfold V.JpegLS.JlsParams.near_max in Hn; lia).
  rewrite write_sof55_segment, write_sos_segment by assumption.
  unfold jls_walk. cbn [app].
  change ((255 =? 255) && (216 =? 216)) with true. cbv iota.
  remember (length _) as n eqn:Hlen.
  assert (Hfuel : exists k, n = S (S (S k))).
  { subst n. cbn [length]. unfold write_segment at 1. rewrite !app_length. cbn [length write_marker write_u16].
    eexists. rewrite <- !plus_n_Sm. reflexivity. }
  destruct Hfuel as [k ->]. clear Hlen.
  erewrite lloop_sof55;
    [ | rewrite zlen_sof3 by assumption; lia | reflexivity
      | apply jls_header_roundtrip; assumption ].
  erewrite lloop_sos;
    [ | destruct Hc as [-> | ->]; vm_compute; reflexivity
      | reflexivity
      | apply jls_sos_roundtrip; assumption
      | apply (check_lsos_ok w h comps bd near); assumption
      | cbn [lt_with_frame lt_init lt_ri]; change (negb (0 =? 0)) with false;
        apply jls_scan_clean; exact Hmf ].
  rewrite lloop_eoi. unfold jls_finish, jls_declared, jls_scan_header, seq_comps.
  cbn [lt_with_scan lt_with_frame lt_init lt_frame lt_scans lt_done lt_preset lt_ri ls_comps jf_comps
       jf_p jf_y jf_x jf_nf].
  destruct Hc as [-> | ->]; reflexivity.
Qed.

(* nothing may follow the end marker *)
Theorem walk_frame_trailing : forall w h comps bd near scan b t,
  dims16 h w -> 2 <= bd <= 16 -> comps = 1 \/ comps = 3 ->
  0 <= near <= V.JpegLS.JlsParams.near_max bd ->
  PG.jls_marker_free scan = true ->
  exists pos,
  jls_walk (([255; 216] ++ M.write_sof55 w h comps bd ++ M.write_sos comps near ++ scan ++ [255; 217]) ++ b :: t)
  = WBad RTrailing pos.
Proof.
  intros w h comps bd near scan b t Hd Hbd Hc Hn Hmf.
  assert (Hn255 : 0 <= near < 256) by (unfold V.JpegLS.JlsParams.near_max in Hn; lia).
  rewrite write_sof55_segment, write_sos_segment by assumption.
  unfold jls_walk. rewrite <- !app_assoc. cbn [app].
  change ((255 =? 255) && (216 =? 216)) with true. cbv iota.
  remember (length _) as n eqn:Hlen.
  assert (Hfuel : exists k, n = S (S (S k))).
  { subst n. cbn [length]. unfold write_segment at 1. rewrite !app_length. cbn [length write_marker write_u16].
    eexists. rewrite <- !plus_n_Sm. reflexivity. }
  destruct Hfuel as [k ->]. clear Hlen.
  erewrite lloop_sof55;
    [ | rewrite zlen_sof3 by assumption; lia | reflexivity
      | apply jls_header_roundtrip; assumption ].
  erewrite lloop_sos;
    [ | destruct Hc as [-> | ->]; vm_compute; reflexivity
      | reflexivity
      | apply jls_sos_roundtrip; assumption
      | apply (check_lsos_ok w h comps bd near); assumption
      | cbn [lt_with_frame lt_init lt_ri]; change (negb (0 =? 0)) with false;
        apply jls_scan_clean; exact Hmf ].
  rewrite lloop_eoi. unfold jls_finish, jls_scan_header, seq_comps.
  cbn [lt_with_scan lt_with_frame lt_init lt_frame lt_scans lt_done lt_preset lt_ri ls_comps jf_comps
       jf_p jf_y jf_x jf_nf].
  eexists. destruct Hc as [-> | ->]; reflexivity.
Qed.

(* ---------- the encoders ---------- *)

(* the scan bytes of any encoder call are marker free *)
Lemma encoder_scan_clean : forall pk w h comps bd near pixels ops,
  2 <= bd <= 16 -> 0 <= near <= V.JpegLS.JlsParams.near_max bd ->
  V.JpegLS.JlsProofsInterrupt.pk_ok pk near ->
  0 <= w -> 0 <= h -> comps = 1 \/ comps = 3 ->
  Forall (V.JpegLS.JlsProofsNear0.in_range bd) pixels -> zlen pixels = w * h * comps ->
  M.encode_scan_ops pk (V.JpegLS.JlsParams.jls_params bd near) w h comps pixels = Ok ops ->
  PG.jls_marker_free (G.gw_run ops) = true.
Proof.
  intros pk w h comps bd near pixels ops Hbd Hn Hpk Hw Hh Hc Hr Hl He.
  destruct (V.JpegLS.JlsProofsScan.scan_lockstep bd near pk w h comps pixels ops Hbd Hn Hpk Hw Hh Hc Hr Hl He)
    as (recon & _ & _ & Hwf & _).
  rewrite (V.JpegLS.JlsProofsWriter.gw_run_pack ops Hwf).
  exact (proj1 (PG.jls_no_marker _)).
Qed.

Theorem encode_image_wellformed : forall pk w h comps bd near pixelData bytes,
  near <= V.JpegLS.JlsParams.near_max bd ->
  (pk = M.PkLossless -> near = 0) ->
  zlen (M.pixelsToIntegers bd pixelData) = w * h * comps ->
  Forall (V.JpegLS.JlsProofsNear0.in_range bd) (M.pixelsToIntegers bd pixelData) ->
  M.encode_image pk w h comps bd near pixelData = Ok bytes ->
  jls_walk bytes = WOk (jls_declared w h comps bd near) /\
  (forall b t, exists pos, jls_walk (bytes ++ b :: t) = WBad RTrailing pos).
Proof.
  intros pk w h comps bd near px bytes Hnm Hpk0 Hlen Hr Henc.
  destruct (V.JpegLS.JlsProofsStream.encode_image_ok _ _ _ _ _ _ _ _ Henc)
    as (Hw1 & Hh1 & Hc & HP & Hnr & ops & Hops & Hs).
  assert (Hn0 : 0 <= near).
  { destruct pk; [rewrite Hpk0 by reflexivity; lia | specialize (Hnr eq_refl); lia]. }
  assert (Hpk : V.JpegLS.JlsProofsInterrupt.pk_ok pk near).
  { destruct pk; [apply Hpk0; reflexivity | exact I]. }
  assert (Hmf : PG.jls_marker_free (G.gw_run ops) = true).
  { apply (encoder_scan_clean pk w h comps bd near (M.pixelsToIntegers bd px) ops); try assumption; lia. }
  subst bytes. split.
  - apply walk_frame; try assumption; [split; lia | lia].
  - intros b t. apply walk_frame_trailing; try assumption; [split; lia | lia].
Qed.

(* jls_frame_wellformed: every frame the lossless encoder emits *)
Theorem jls_frame_wellformed : forall w h comps bd pixelData bytes,
  zlen (M.pixelsToIntegers bd pixelData) = w * h * comps ->
  Forall (V.JpegLS.JlsProofsNear0.in_range bd) (M.pixelsToIntegers bd pixelData) ->
  M.jls_encode w h comps bd pixelData = Ok bytes ->
  jls_wellformed bytes = Some (jls_declared w h comps bd 0) /\
  (forall b t, jls_wellformed (bytes ++ b :: t) = None).
Proof.
  intros w h comps bd px bytes Hlen Hr Henc. unfold M.jls_encode in Henc.
  destruct (V.JpegLS.JlsProofsStream.encode_image_ok _ _ _ _ _ _ _ _ Henc) as (_ & _ & _ & HP & _).
  assert (Hn : 0 <= V.JpegLS.JlsParams.near_max bd).
  { unfold V.JpegLS.JlsParams.near_max. pose proof (V.JpegLS.JlsProofsSample.pow2_bounds bd HP).
    assert (0 <= (2 ^ bd - 1) / 2) by (apply Z.div_pos; lia). lia. }
  destruct (encode_image_wellformed M.PkLossless w h comps bd 0 px bytes Hn (fun _ => eq_refl) Hlen Hr Henc)
    as [Hw Ht].
  unfold jls_wellformed. rewrite Hw. split; [reflexivity|].
  intros b t. destruct (Ht b t) as [pos Hp]. rewrite Hp. reflexivity.
Qed.

(* jlsn_frame_wellformed: every frame the near-lossless encoder emits with NEAR <= min(255, MAXVAL/2) *)
Theorem jlsn_frame_wellformed : forall w h comps bd near pixelData bytes,
  near <= V.JpegLS.JlsParams.near_max bd ->
  zlen (M.pixelsToIntegers bd pixelData) = w * h * comps ->
  Forall (V.JpegLS.JlsProofsNear0.in_range bd) (M.pixelsToIntegers bd pixelData) ->
  M.jlsn_encode w h comps bd near pixelData = Ok bytes ->
  jls_wellformed bytes = Some (jls_declared w h comps bd near) /\
  (forall b t, jls_wellformed (bytes ++ b :: t) = None).
Proof.
  intros w h comps bd near px bytes Hn Hlen Hr Henc. unfold M.jlsn_encode in Henc.
  destruct (encode_image_wellformed M.PkNear w h comps bd near px bytes Hn
              (fun E => ltac:(discriminate E)) Hlen Hr Henc) as [Hw Ht].
  unfold jls_wellformed. rewrite Hw. split; [reflexivity|].
  intros b t. destruct (Ht b t) as [pos Hp]. rewrite Hp. reflexivity.
Qed.

(* The hypothesis NEAR <= MAXVAL/2 is necessary: nearlossless.Encode accepts every NEAR in 0..255
   whatever the precision (finding F33) and writes it into the scan header; T.87 C.2.3 allows
   NEAR <= min(255, MAXVAL/2) only, so the strict walker rejects the frame. *)
Theorem jlsn_frame_near_above_half_rejected :
  exists bytes, M.jlsn_encode 2 1 1 2 2 [0; 3] = Ok bytes /\ jls_walk bytes = WBad RJlsNear 15.
Proof. eexists. split; vm_compute; reflexivity. Qed.
