(* JlsStream (C16): the strict T.87 walker (Framing/FrmJls.v) on the whole output of the byte-exact
   JPEG-LS encoder models JlsModel.jls_encode / jlsn_encode (JpegLS/JlsModel.v: SOI, SOF55, SOS,
   GolombWriter bytes incl. Flush, EOI; no LSE is written).
     jls_scan_clean      the walker's scan step consumes exactly a byte string in which every FF is
                         followed by a byte < 0x80 and which does not end in FF (jls_marker_free,
                         the predicate JlsProofsGolomb.jls_no_marker proves of the packed bit stream)
                         and stops on the EOI;
     walk_frame          SOI ++ write_sof55 ++ write_sos ++ scan ++ EOI for ANY such scan bytes;
     jls_frame_wellformed / jlsn_frame_wellformed   composition with gw_run_pack + jls_no_marker. *)
From V Require Import Common.Base.
Require V.JpegLS.JlsParams V.JpegLS.JlsGolomb V.JpegLS.JlsModel V.JpegLS.JlsProofsGolomb V.JpegLS.JlsProofsWriter
  V.JpegLS.JlsProofsNear0 V.JpegLS.JlsProofsInterrupt V.JpegLS.JlsProofsScan V.JpegLS.JlsProofsStream.
From V Require Import Framing.FrmBase Framing.FrmJpeg Framing.FrmJls Framing.FrmWriters
  Framing.FrmProofsSeg Framing.FrmProofsHdr.

Module M := V.JpegLS.JlsModel.
Module G := V.JpegLS.JlsGolomb.
Module PG := V.JpegLS.JlsProofsGolomb.

(* ---------- the scan step ---------- *)

Lemma marker_free_tail : forall b r, PG.jls_marker_free (b :: r) = true -> PG.jls_marker_free r = true.
Proof. intros b r H. cbn [PG.jls_marker_free] in H. apply andb_prop in H. exact (proj2 H). Qed.

Lemma jls_scan_clean_n : forall n scan, (length scan <= n)%nat -> PG.jls_marker_free scan = true ->
  forall rst r pos e,
  jls_scan rst (scan ++ 255 :: 217 :: r) pos e = WOk (255 :: 217 :: r, pos + zlen scan).
Proof.
  induction n as [|n IH]; intros scan Hl Hmf rst r pos e.
  - destruct scan; [|cbn in Hl; lia]. cbn [app]. change (zlen []) with 0. rewrite Z.add_0_r. reflexivity.
  - destruct scan as [|b t]; [cbn [app]; change (zlen []) with 0; rewrite Z.add_0_r; reflexivity|].
    cbn [length] in Hl. cbn [app jls_scan]. pose proof Hmf as Hmf0.
    cbn [PG.jls_marker_free] in Hmf. apply andb_prop in Hmf. destruct Hmf as [H1 H2].
    destruct (Z.eqb_spec b 255) as [Eb|Nb].
    + destruct t as [|c t']; [discriminate|]. apply andb_prop in H1. destruct H1 as [Hc0 Hc1].
      cbn [app]. rewrite Hc1. rewrite (IH t') by (cbn [length] in Hl; try lia; eapply marker_free_tail; exact H2).
      rewrite !zlen_cons. f_equal. f_equal. lia.
    + rewrite (IH t) by (try lia; exact H2). rewrite zlen_cons. f_equal. f_equal. lia.
Qed.

Theorem jls_scan_clean : forall scan rst r pos e, PG.jls_marker_free scan = true ->
  jls_scan rst (scan ++ 255 :: 217 :: r) pos e = WOk (255 :: 217 :: r, pos + zlen scan).
Proof. intros. apply (jls_scan_clean_n (length scan)); [lia | assumption]. Qed.
