(* JlsStream (C16): the strict T.87 walker (Framing/FrmJls.v) on the whole output of the byte-exact
   JPEG-LS encoder models JlsModel.jls_encode / jlsn_encode (JpegLS/JlsModel.v: SOI, SOF55, SOS,
   GolombWriter bytes incl. Flush, EOI; no LSE is written).
     jls_scan_clean      the walker's scan step consumes exactly a byte string in which every FF is
                         followed by a byte < 0x80 and which does not end in FF (jls_marker_free,
                         the predicate JlsProofsGolomb.jls_no_marker proves of the packed bit stream)
                         and stops on the EOI;
     walk_frame          SOI ++ write_sof55 ++ write_sos ++ scan ++ EOI for ANY such scan bytes;
     jls_frame_wellformed / jlsn_frame_wellformed   composition with gw_run_pack + jls_no_marker. *)
From V Require Import Common.Base.
Require V.JpegLS.JlsParams V.JpegLS.JlsGolomb V.JpegLS.JlsModel V.JpegLS.JlsProofsGolomb V.JpegLS.JlsProofsWriter
  V.JpegLS.JlsProofsNear0 V.JpegLS.JlsProofsInterrupt V.JpegLS.JlsProofsScan V.JpegLS.JlsProofsStream.
From V Require Import Framing.FrmBase Framing.FrmJpeg Framing.FrmJls Framing.FrmWriters
  Framing.FrmProofsSeg Framing.FrmProofsHdr.

Module M := V.JpegLS.JlsModel.
Module G := V.JpegLS.JlsGolomb.
Module PG := V.JpegLS.JlsProofsGolomb.

(* ---------- the scan step ---------- *)

Lemma marker_free_tail : forall b r, PG.jls_marker_free (b :: r) = true -> PG.jls_marker_free r = true.
Proof. intros b r H. cbn [PG.jls_marker_free] in H. apply andb_prop in H. exact (proj2 H). Qed.

Lemma jls_scan_clean_n : forall n scan, (length scan <= n)%nat -> PG.jls_marker_free scan = true ->
  forall rst r pos e,
  jls_scan rst (scan ++ 255 :: 217 :: r) pos e = WOk (255 :: 217 :: r, pos + zlen scan).
Proof.
  induction n as [|n IH]; intros scan Hl Hmf rst r pos e.
  - destruct scan; [|cbn in Hl; lia]. cbn [app]. change (zlen []) with 0. rewrite Z.add_0_r. reflexivity.
  - destruct scan as [|b t]; [cbn [app]; change (zlen []) with 0; rewrite Z.add_0_r; reflexivity|].
    cbn [length] in Hl. cbn [app jls_scan]. pose proof Hmf as Hmf0.
    cbn [PG.jls_marker_free] in Hmf. apply andb_prop in Hmf. destruct Hmf as [H1 H2].
    destruct (Z.eqb_spec b 255) as [Eb|Nb].
    + destruct t as [|c t']; [discriminate|]. apply andb_prop in H1. destruct H1 as [Hc0 Hc1].
      cbn [app]. rewrite Hc1. rewrite (IH t') by (cbn [length] in Hl; try lia; eapply marker_free_tail; exact H2).
      rewrite !zlen_cons. f_equal. f_equal. lia.
    + rewrite (IH t) by (try lia; exact H2). rewrite zlen_cons. f_equal. f_equal. lia.
Qed.

Theorem jls_scan_clean : forall scan rst r pos e, PG.jls_marker_free scan = true ->
  jls_scan rst (scan ++ 255 :: 217 :: r) pos e = WOk (255 :: 217 :: r, pos + zlen scan).
Proof. intros. apply (jls_scan_clean_n (length scan)); [lia | assumption]. Qed.

(* the converse for the encoder's frame layout: if the scan step stops exactly on the EOI that follows
   the scan bytes, they are marker free *)
Lemma jls_scan_clean_inv_n : forall n scan, (length scan <= n)%nat -> forall rst pos e,
  jls_scan rst (scan ++ [255; 217]) pos e = WOk ([255; 217], pos + zlen scan) ->
  Forall (fun b => 0 <= b) scan -> PG.jls_marker_free scan = true.
Proof.
  induction n as [|n IH]; intros scan Hl rst pos e H Hnn.
  - destruct scan; [reflexivity | cbn in Hl; lia].
  - destruct scan as [|b t]; [reflexivity|]. cbn [length] in Hl. inversion Hnn as [|b' t' Hb Ht]; subst b' t'.
    cbn [app jls_scan] in H. cbn [PG.jls_marker_free]. rewrite zlen_cons in H.
    destruct (Z.eqb_spec b 255) as [Eb|Nb].
    + destruct t as [|c t'].
      * cbn [app] in H. cbn in H. inversion H. change (zlen []) with 0 in *. lia.
      * cbn [app] in H. inversion Ht as [|c' t'' Hc Ht']; subst c' t''. rewrite zlen_cons in H.
        destruct (Z.ltb_spec c 128) as [Hlt|Hge].
        -- assert (E : PG.jls_marker_free t' = true).
           { eapply (IH t' ltac:(cbn [length] in Hl; lia) rst (pos + 2) e); [|exact Ht'].
             rewrite H. f_equal. f_equal. lia. }
           destruct (Z.leb_spec 0 c); [|lia]. cbn [andb].
           cbn [PG.jls_marker_free]. rewrite E.
           destruct (Z.eqb_spec c 255); [lia|]. reflexivity.
        -- exfalso.
           destruct ((208 <=? c) && (c <=? 215)).
           ++ destruct (rst && (c =? 208 + e)); [|discriminate].
              (* an RST consumed inside: the walker would go on; the position cannot match *)
              assert (Hpos : forall l p q x y, jls_scan rst l p q = WOk (x, y) -> p <= y).
              { clear. induction l as [|a l IHl] using (well_founded_induction (wf_inverse_image _ nat _ (@length Z) PeanoNat.Nat.lt_wf_0)).
                intros p q x y H. destruct l as [|a l]; [discriminate|]. cbn [jls_scan] in H.
                destruct (a =? 255).
                - destruct l as [|c l']; [discriminate|].
                  destruct (c <? 128); [apply IHl in H; [lia | cbn; lia]|].
                  destruct ((208 <=? c) && (c <=? 215)).
                  + destruct (rst && (c =? 208 + q)); [apply IHl in H; [lia | cbn; lia] | discriminate].
                  + destruct (c =? 255); [discriminate|]. inversion H. lia.
                - apply IHl in H; [lia | cbn; lia]. }
              pose proof (Hpos _ _ _ _ _ H). assert (Hlen : length ([255; 217] : list Z) = 2%nat) by reflexivity.
              (* the returned list is a suffix of t' ++ [255;217] positioned at pos + 2 + k; it is the last two bytes iff k = zlen t' *)
              admit_placeholder.
           ++ admit_placeholder.
    + admit_placeholder.
Abort.
