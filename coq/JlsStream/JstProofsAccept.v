(* JlsStream (C16), part 2: the frame theorems for EVERY call the encoders accept. The encoders
   only require a buffer of AT LEAST w*h*comps samples (ErrBufferTooSmall otherwise) and read the
   first w*h*comps of them: encode_scan_ops depends on that prefix only (enc_lines1/3 take
   firstn/skipn per line). So the only hypothesis left besides NEAR <= MAXVAL/2 is that the
   samples that are coded lie below 2^bd (the Go API takes bytes / little-endian byte pairs and
   does not check the samples against the precision). *)
From V Require Import Common.Base.
Require V.JpegLS.JlsParams V.JpegLS.JlsGolomb V.JpegLS.JlsModel V.JpegLS.JlsProofsGolomb V.JpegLS.JlsProofsWriter
  V.JpegLS.JlsProofsNear0 V.JpegLS.JlsProofsInterrupt V.JpegLS.JlsProofsScan V.JpegLS.JlsProofsStream
  V.JpegLS.JlsProofsTotal.
From V Require Import Framing.FrmBase Framing.FrmJpeg Framing.FrmJls Framing.FrmWriters
  Framing.FrmProofsSeg Framing.FrmProofsHdr JlsStream.JstProofsFrame.

Lemma skipn_firstn_add : forall (A : Type) (n m : nat) (l : list A),
  skipn n (firstn (n + m) l) = firstn m (skipn n l).
Proof. intros. symmetry. apply firstn_skipn_comm. Qed.

Lemma firstn_firstn_add : forall (A : Type) (n m : nat) (l : list A),
  firstn n (firstn (n + m) l) = firstn n l.
Proof. intros. rewrite firstn_firstn. f_equal. lia. Qed.

Lemma enc_lines1_firstn : forall hf pk p w wn y pfp pn1 st prev pix ops_rev,
  M.enc_lines1 hf pk p w wn y pfp pn1 st prev pix ops_rev
  = M.enc_lines1 hf pk p w wn y pfp pn1 st prev (firstn (hf * wn) pix) ops_rev.
Proof.
  induction hf as [|hf IH]; intros; [reflexivity|].
  cbn [M.enc_lines1]. change (S hf * wn)%nat with (wn + hf * wn)%nat.
  rewrite firstn_firstn_add, skipn_firstn_add.
  destruct (M.enc_line1 (S wn) pk p w y pfp pn1 st 0 (0 :: prev) [] (firstn wn pix) ops_rev)
    as [[[st' cur] ops']| | |]; try reflexivity.
  apply IH.
Qed.

Lemma enc_lines3_firstn : forall hf pk p w wn y plf pplf st prev pix ops_rev,
  M.enc_lines3 hf pk p w wn y plf pplf st prev pix ops_rev
  = M.enc_lines3 hf pk p w wn y plf pplf st prev (firstn (hf * wn) pix) ops_rev.
Proof.
  induction hf as [|hf IH]; intros; [reflexivity|].
  cbn [M.enc_lines3]. change (S hf * wn)%nat with (wn + hf * wn)%nat.
  rewrite firstn_firstn_add, skipn_firstn_add.
  destruct (M.enc_line3 (S wn) pk p w y plf pplf st 0 (M.z3 :: prev) [] (firstn wn pix) ops_rev)
    as [[[st' cur] ops']| | |]; try reflexivity.
  apply IH.
Qed.

Lemma triples_firstn : forall k l, M.triples (firstn (3 * k) l) = firstn k (M.triples l).
Proof.
  induction k as [|k IH]; intros l; [reflexivity|].
  replace (3 * S k)%nat with (S (S (S (3 * k)))) by lia.
  destruct l as [|a [|b [|c r]]]; try reflexivity.
  cbn [firstn M.triples]. rewrite IH. reflexivity.
Qed.

Lemma le16_samples_length : forall k l, (2 * k <= length l)%nat -> (k <= length (M.le16_samples l))%nat.
Proof.
  induction k as [|k IH]; intros l H; [lia|].
  destruct l as [|a [|b r]]; cbn [length] in H; try lia.
  cbn [M.le16_samples length]. apply le_n_S. apply IH. lia.
Qed.

(* the scan depends on the first w*h*comps samples only *)
Lemma encode_scan_ops_firstn : forall pk p w h comps pixels,
  0 <= w -> 0 <= h -> comps = 1 \/ comps = 3 ->
  M.encode_scan_ops pk p w h comps pixels
  = M.encode_scan_ops pk p w h comps (firstn (Z.to_nat (w * h * comps)) pixels).
Proof.
  intros pk p w h comps pixels Hw Hh [-> | ->]; unfold M.encode_scan_ops.
  - change (1 >? 1) with false. cbv iota.
    replace (Z.to_nat (w * h * 1)) with (Z.to_nat h * Z.to_nat w)%nat by nia.
    rewrite (enc_lines1_firstn (Z.to_nat h)). reflexivity.
  - change (3 >? 1) with true. cbv iota.
    replace (Z.to_nat (w * h * 3)) with (3 * (Z.to_nat h * Z.to_nat w))%nat by nia.
    rewrite triples_firstn.
    rewrite (enc_lines3_firstn (Z.to_nat h)). reflexivity.
Qed.

(* the buffer check of Encode, in samples *)
Lemma encode_image_buffer : forall pk w h comps bd near pixelData stream,
  M.encode_image pk w h comps bd near pixelData = Ok stream ->
  w * h * comps <= zlen (M.pixelsToIntegers bd pixelData).
Proof.
  intros pk w h comps bd near px stream H.
  destruct (V.JpegLS.JlsProofsStream.encode_image_ok _ _ _ _ _ _ _ _ H) as (Hw & Hh & Hc & HP & _).
  unfold M.encode_image in H.
  destruct ((w <=? 0) || (h <=? 0)); [discriminate|].
  destruct (negb (comps =? 1) && negb (comps =? 3)); [discriminate|].
  destruct ((bd <? 2) || (bd >? 16)); [discriminate|].
  destruct (match pk with M.PkNear => (near <? 0) || (near >? 255) | M.PkLossless => false end); [discriminate|].
  destruct ((w >? 65535) || (h >? 65535)); [discriminate|].
  destruct (Z.ltb_spec (zlen px) (w * h * comps * Z.quot (bd + 7) 8)) as [|Hb]; [discriminate|].
  clear H. unfold M.pixelsToIntegers.
  assert (H0 : 0 <= w * h * comps) by (destruct Hc as [-> | ->]; nia).
  destruct (Z.leb_spec bd 8).
  - replace (Z.quot (bd + 7) 8) with 1 in Hb.
    2:{ rewrite Z.quot_div_nonneg by lia. apply Z.div_unique with (r := bd - 1); lia. }
    lia.
  - replace (Z.quot (bd + 7) 8) with 2 in Hb.
    2:{ rewrite Z.quot_div_nonneg by lia. apply Z.div_unique with (r := bd - 9); lia. }
    unfold zlen in *.
    pose proof (le16_samples_length (Z.to_nat (w * h * comps)) px ltac:(lia)). lia.
Qed.

Definition coded_samples (w h comps bd : Z) (pixelData : list Z) : list Z :=
  firstn (Z.to_nat (w * h * comps)) (M.pixelsToIntegers bd pixelData).

Theorem encode_image_accepted_wellformed : forall pk w h comps bd near pixelData bytes,
  near <= V.JpegLS.JlsParams.near_max bd ->
  (pk = M.PkLossless -> near = 0) ->
  Forall (V.JpegLS.JlsProofsNear0.in_range bd) (coded_samples w h comps bd pixelData) ->
  M.encode_image pk w h comps bd near pixelData = Ok bytes ->
  jls_walk bytes = WOk (jls_declared w h comps bd near) /\
  (forall b t, exists pos, jls_walk (bytes ++ b :: t) = WBad RTrailing pos).
Proof.
  intros pk w h comps bd near px bytes Hnm Hpk0 Hr Henc.
  pose proof (encode_image_buffer _ _ _ _ _ _ _ _ Henc) as Hbuf.
  destruct (V.JpegLS.JlsProofsStream.encode_image_ok _ _ _ _ _ _ _ _ Henc)
    as (Hw1 & Hh1 & Hc & HP & Hnr & ops & Hops & Hs).
  assert (Hn0 : 0 <= near).
  { destruct pk; [rewrite Hpk0 by reflexivity; lia | specialize (Hnr eq_refl); lia]. }
  assert (Hpk : V.JpegLS.JlsProofsInterrupt.pk_ok pk near).
  { destruct pk; [apply Hpk0; reflexivity | exact I]. }
  rewrite encode_scan_ops_firstn in Hops by (try assumption; lia).
  fold (coded_samples w h comps bd px) in Hops.
  assert (H0 : 0 <= w * h * comps) by (destruct Hc as [-> | ->]; nia).
  assert (Hlen : zlen (coded_samples w h comps bd px) = w * h * comps).
  { unfold coded_samples, zlen in *. rewrite firstn_length. lia. }
  assert (Hmf : PG.jls_marker_free (G.gw_run ops) = true).
  { apply (encoder_scan_clean pk w h comps bd near (coded_samples w h comps bd px) ops); try assumption; lia. }
  subst bytes. split.
  - apply walk_frame; try assumption; [split; lia | lia].
  - intros b t. apply walk_frame_trailing; try assumption; [split; lia | lia].
Qed.

(* every frame jpegls/lossless.Encode returns *)
Theorem jls_accepted_frame_wellformed : forall w h comps bd pixelData bytes,
  Forall (V.JpegLS.JlsProofsNear0.in_range bd) (coded_samples w h comps bd pixelData) ->
  M.jls_encode w h comps bd pixelData = Ok bytes ->
  jls_wellformed bytes = Some (jls_declared w h comps bd 0) /\
  (forall b t, jls_wellformed (bytes ++ b :: t) = None) /\
  1 <= w <= 65535 /\ 1 <= h <= 65535 /\ (comps = 1 \/ comps = 3) /\ 2 <= bd <= 16.
Proof.
  intros w h comps bd px bytes Hr Henc. unfold M.jls_encode in Henc.
  destruct (V.JpegLS.JlsProofsStream.encode_image_ok _ _ _ _ _ _ _ _ Henc) as (Hw & Hh & Hc & HP & _).
  assert (Hn : 0 <= V.JpegLS.JlsParams.near_max bd).
  { unfold V.JpegLS.JlsParams.near_max. pose proof (V.JpegLS.JlsProofsSample.pow2_bounds bd HP).
    assert (0 <= (2 ^ bd - 1) / 2) by (apply Z.div_pos; lia). lia. }
  destruct (encode_image_accepted_wellformed M.PkLossless w h comps bd 0 px bytes Hn (fun _ => eq_refl) Hr Henc)
    as [Hwk Ht].
  unfold jls_wellformed. rewrite Hwk. split; [reflexivity|]. split; [|repeat split; try lia; exact Hc].
  intros b t. destruct (Ht b t) as [pos Hp]. rewrite Hp. reflexivity.
Qed.

(* every frame jpegls/nearlossless.Encode returns for NEAR <= min(255, MAXVAL/2) *)
Theorem jlsn_accepted_frame_wellformed : forall w h comps bd near pixelData bytes,
  near <= V.JpegLS.JlsParams.near_max bd ->
  Forall (V.JpegLS.JlsProofsNear0.in_range bd) (coded_samples w h comps bd pixelData) ->
  M.jlsn_encode w h comps bd near pixelData = Ok bytes ->
  jls_wellformed bytes = Some (jls_declared w h comps bd near) /\
  (forall b t, jls_wellformed (bytes ++ b :: t) = None) /\
  1 <= w <= 65535 /\ 1 <= h <= 65535 /\ (comps = 1 \/ comps = 3) /\ 2 <= bd <= 16 /\ 0 <= near.
Proof.
  intros w h comps bd near px bytes Hn Hr Henc. unfold M.jlsn_encode in Henc.
  destruct (V.JpegLS.JlsProofsStream.encode_image_ok _ _ _ _ _ _ _ _ Henc) as (Hw & Hh & Hc & HP & Hnr & _).
  specialize (Hnr eq_refl).
  destruct (encode_image_accepted_wellformed M.PkNear w h comps bd near px bytes Hn
              (fun E => ltac:(discriminate E)) Hr Henc) as [Hwk Ht].
  unfold jls_wellformed. rewrite Hwk. split; [reflexivity|]. split; [|repeat split; try lia; exact Hc].
  intros b t. destruct (Ht b t) as [pos Hp]. rewrite Hp. reflexivity.
Qed.

(* for precision 8 and 16 the sample hypothesis is implied by the container: every call accepted
   with bytes in 0..255 *)
Lemma le16_samples_range : forall l, Forall (fun b => 0 <= b < 256) l ->
  Forall (V.JpegLS.JlsProofsNear0.in_range 16) (M.le16_samples l).
Proof.
  fix IH 1. intros l H. destruct l as [|a [|b r]]; try constructor.
  - inversion H as [|? ? Ha H1]; subst. inversion H1 as [|? ? Hb H2]; subst.
    destruct (V.JpegLS.JlsProofsTotal.le16_parts a b Ha Hb) as [Hv _].
    unfold V.JpegLS.JlsProofsNear0.in_range. change (2 ^ 16) with 65536. lia.
  - apply IH. inversion H as [|? ? _ H1]; subst. inversion H1; subst. assumption.
Qed.

Lemma Forall_firstn' : forall (A : Type) (P : A -> Prop) n l, Forall P l -> Forall P (firstn n l).
Proof.
  intros A P n l H. revert n. induction H; intros [|n]; cbn [firstn]; constructor; auto.
Qed.

Theorem jls_accepted_frame_wellformed_8_16 : forall w h comps bd pixelData bytes,
  bd = 8 \/ bd = 16 -> Forall (fun b => 0 <= b < 256) pixelData ->
  M.jls_encode w h comps bd pixelData = Ok bytes ->
  jls_wellformed bytes = Some (jls_declared w h comps bd 0) /\
  (forall b t, jls_wellformed (bytes ++ b :: t) = None).
Proof.
  intros w h comps bd px bytes Hbd Hb Henc.
  destruct (jls_accepted_frame_wellformed w h comps bd px bytes) as (H1 & H2 & _); [|exact Henc|split; assumption].
  unfold coded_samples. apply Forall_firstn'. destruct Hbd as [-> | ->].
  - unfold M.pixelsToIntegers. change (8 <=? 8) with true. cbv iota.
    eapply Forall_impl; [|exact Hb]. intros a Ha. unfold V.JpegLS.JlsProofsNear0.in_range.
    assert (E : 2 ^ 8 = 256) by reflexivity. cbv beta in Ha. lia.
  - unfold M.pixelsToIntegers. change (16 <=? 8) with false. cbv iota.
    apply le16_samples_range. exact Hb.
Qed.
