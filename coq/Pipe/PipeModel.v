(* EXTRACT *)
(* The reversible single-tile JPEG 2000 path of jpeg2000/encoder.go and jpeg2000/decoder.go +
   jpeg2000/t2/tile_decoder.go as ONE function per direction, composed from the stage models:

     samples     J2KGeo.GeoModel   convert_pixel_data / level_shift_all / get_pixel_data
     RCT         J2K.RCT           rct_fwd_list / rct_inv_list
     5/3 DWT     DWT.DwtModel      fwd53_ml / inv53_ml           (tile origin (0,0))
     geometry    J2KGeo.GeoModel   enc_subbands / enc_partition / dec_band_infos /
                                   dec_band_cells / dec_assemble
     T1          T1.T1Bytes        enc_plain (Encode) / dec_with_options (DecodeWithBitplane) /
                                   dec_layered (DecodeLayeredWithMode)
     T2          T2.T2Packets      enc_packets / packets_bytes / dec_packets / gather

   Scope: ONE tile = the image, ONE quality layer, no precinct partition (PrecinctWidth =
   PrecinctHeight = 0, i.e. 2^15 x 2^15 precincts, Scod bit 0 clear), code-block style 0, no
   ROI, no custom MCT, classic (non-HT) block coder, Lossless = true.

   What is modelled HERE (the glue between the stages; everything else is imported):
     Encoder.Encode                  the order convert -> DC shift -> RCT (only Components == 3)
     Encoder.applyWaveletTransform   NumLevels == 0: no transform
     Encoder.buildTilePacketEncoderAt  the comp/res/band/block loop, globalCBIdx is not needed
                                     on the encoder side; calculatePrecinctIndex with
                                     getResolutionDimensions/ceilDivPow2 (image width!), CBX/CBY
     Encoder.encodeCodeBlock         `<<= 6` (int32), codeBlockNumBps, bandNumbps =
                                     quantizationInfo().expn + guardBits - 1, codeBlockPassLayout,
                                     encodeSingleLayerCodeBlock (error fallback)
     PacketEncoder.AddCodeBlock      one Precinct object per (comp, res, precinct, band), grid
                                     size = max CBX/CBY + 1
     Encoder.encodeTilePackets       EncodePackets error -> the one-byte tile 0x00
     PacketDecoder.buildPrecinctOrder / collectCodeBlockEntries / sortAndStoreEntries /
       precinctIndicesForResolution  (cbPrecinctDims, cbPrecinctPositions, precinct indices)
     TileDecoder.buildPrecinctOrder  (the same loops a second time: precinct -> global indices)
     TileDecoder.buildAndDecodeCodeBlocks / estimateMaxBitplane / shouldDecode /
       decodeCodeBlock / normalizeOpenJPEGReversibleT1Coefficients, applyIDWT (NumLevels == 0)
     bandNumbpsFromQCD               on the QCD the encoder writes (style 0, 2 guard bits,
                                     SPqcd[i] = uint8(expn << 3))
     Decoder.decodeTiles             applyInverseTransforms (Components == 3 and COD MCT = 1),
                                     applyInverseDCLevelShift, GetPixelData
   Not part of the composed functions (identities for a single tile, proved as C19_tile_roundtrip
   with TW = W, TH = H): the copy loops of Encoder.transformTile for the tile (0, 0, W, H) and
   TileAssembler.AssembleTile for the only tile.  On the encoder side all blocks of a component
   are encoded before they are added to the packet encoder (Go interleaves the two; encoding a
   block does not touch the store).
   Go `int` is Z; `/` on the (non-negative) operands here is Z.quot.  The wavelet model works
   over Z (no int32 wrap-around, as in DWT/DwtModel.v); `<<= 6` and `/= 2` are int32. *)
From V Require Import Common.Base.
Require V.J2K.RCT V.DWT.DwtModel V.J2KGeo.GeoModel V.J2KGeo.GeoLayers.
Require V.T1.T1Model V.T1.T1Bytes.
Require V.T2.T2TagTree V.T2.T2Header V.T2.T2Packets.

Module G := V.J2KGeo.GeoModel.
Module H := V.T2.T2Header.
Module K := V.T2.T2Packets.

(* ------------------------------------------------------------------------------------ *)
(* parameters                                                                             *)

Record pparams : Type := mkPP {
  pp_w : Z; pp_h : Z;              (* Width, Height *)
  pp_nc : Z;                       (* Components *)
  pp_prec : Z; pp_signed : bool;   (* BitDepth, IsSigned *)
  pp_levels : Z;                   (* NumLevels *)
  pp_cbw : Z; pp_cbh : Z;          (* CodeBlockWidth, CodeBlockHeight *)
  pp_mct : bool;                   (* EnableMCT *)
  pp_order : Z;                    (* ProgressionOrder 0..4 *)
  (* the tile this parameter set describes: pp_w x pp_h samples at origin (pp_x0, pp_y0) of the
     reference grid of an image pp_iw wide (single tile: origin (0, 0), pp_iw = pp_w) *)
  pp_x0 : Z; pp_y0 : Z; pp_iw : Z
}.

Definition i32 (x : Z) : Z := wrapS 32 x.

(* default precinct size 1 << 15 (getPrecinctSizeExponents / precinctSizeForResolution) *)
Definition prec_sz : Z := 32768.

(* Encoder.Encode: `EnableMCT && Components == 3 && Lossless`; Decoder.applyInverseTransforms:
   `components == 3 && COD.MultipleComponentTransform == 1`, COD MCT byte = usesColorTransform
   = EnableMCT && Components >= 3 *)
Definition uses_rct (p : pparams) : bool := pp_mct p && (pp_nc p =? 3).

(* the geometry handed to buildPositionMaps by both sides: SetComponentBounds(c, 0, 0, w, h),
   SetComponentSampling(c, 1, 1), precinct 2^15 *)
Definition pipe_pgeom (p : pparams) : K.pgeom :=
  {| K.pg_bounds := fun _ => (0, 0, pp_w p, pp_h p);
     K.pg_sampling := fun _ => (1, 1);
     K.pg_precinct := fun _ => (prec_sz, prec_sz) |}.

(* TileDecoder.Decode: SetComponentBounds(i, comp.x0, comp.y0, comp.x0 + width, comp.y0 + height) with
   the tile-component origin; the ENCODER always passes the tile-local bounds (0, 0, w, h) *)
Definition pipe_pgeom_dec (p : pparams) : K.pgeom :=
  {| K.pg_bounds := fun _ => (pp_x0 p, pp_y0 p, pp_x0 p + pp_w p, pp_y0 p + pp_h p);
     K.pg_sampling := fun _ => (1, 1);
     K.pg_precinct := fun _ => (prec_sz, prec_sz) |}.

(* ------------------------------------------------------------------------------------ *)
(* encoder front end                                                                      *)

(* colorspace.ApplyRCTToComponents on e.data[0..2] *)
Definition rct_planes (data : list (list Z)) : list (list Z) :=
  let l := RCT.rct_fwd_list (nth 0 data []) (nth 1 data []) (nth 2 data []) in
  [map (fun t => fst (fst t)) l; map (fun t => snd (fst t)) l; map (fun t => snd t) l].

(* colorspace.ApplyInverseRCTToComponents on d.data[0..2] *)
Fixpoint zip3 (a b c : list Z) : list (Z * Z * Z) :=
  match a, b, c with
  | x :: a', y :: b', z :: c' => (x, y, z) :: zip3 a' b' c'
  | _, _, _ => []
  end.
Definition irct_planes (data : list (list Z)) : list (list Z) :=
  let l := RCT.rct_inv_list (zip3 (nth 0 data []) (nth 1 data []) (nth 2 data [])) in
  [map (fun t => fst (fst t)) l; map (fun t => snd (fst t)) l; map (fun t => snd t) l].

(* convertPixelData; applyDCLevelShift; RCT *)
Definition pipe_front (p : pparams) (pix : list Z) : outcome (list (list Z)) :=
  obind (G.convert_pixel_data (pp_w p * pp_h p) (pp_nc p) (pp_prec p) (pp_signed p) pix) (fun data =>
    let d1 := G.level_shift_all (pp_prec p) (pp_signed p) data in
    Ok (if uses_rct p then rct_planes d1 else d1)).

(* applyWaveletTransform on one component of the (single) tile, origin (0, 0) *)
Definition pipe_fdwt (p : pparams) (comp : list Z) : list Z :=
  if pp_levels p =? 0 then comp
  else DwtModel.fwd53_ml comp (Z.to_nat (pp_w p)) (Z.to_nat (pp_h p)) (Z.to_nat (pp_levels p)) (pp_x0 p) (pp_y0 p).

(* applyIDWT *)
Definition pipe_idwt (p : pparams) (coeffs : list Z) : list Z :=
  if pp_levels p =? 0 then coeffs
  else DwtModel.inv53_ml coeffs (Z.to_nat (pp_w p)) (Z.to_nat (pp_h p)) (Z.to_nat (pp_levels p)) (pp_x0 p) (pp_y0 p).

(* ------------------------------------------------------------------------------------ *)
(* encoder: code-blocks                                                                   *)

(* the res / subband / code-block loops of buildTilePacketEncoderAt for one component: every
   block with its resolution (GeoModel.enc_all_blocks forgets the resolution) *)
Definition enc_blocks_res (p : pparams) (data : list Z) (res : Z) : list G.cblock :=
  flat_map (fun sb => G.enc_partition sb (pp_cbw p) (pp_cbh p))
           (G.enc_subbands data (pp_w p) (pp_h p) (pp_x0 p) (pp_y0 p) (pp_levels p) res).

Definition enc_blocks (p : pparams) (data : list Z) : list (Z * G.cblock) :=
  flat_map (fun res => map (fun c => (res, c)) (enc_blocks_res p data res)) (G.zrange (pp_levels p + 1)).

(* losslessLog2Gain *)
Definition log2_gain (res band : Z) : Z := if res =? 0 then 0 else if band =? 3 then 2 else 1.

(* subbandIndex (encoder.go and t2/bitplane.go) *)
Definition subband_index (levels res band : Z) : Z :=
  if (res <? 0) || (res >? levels) then -1 else
  if res =? 0 then (if band =? 0 then 0 else -1) else
  if (band <? 1) || (band >? 3) then -1 else 1 + (res - 1) * 3 + (band - 1).

(* Encoder.bandNumbps: expn[idx] + guardBits - 1 with expn = BitDepth + gain, guardBits = 2;
   0 when the index is out of range *)
Definition enc_band_numbps (p : pparams) (res band : Z) : Z :=
  if subband_index (pp_levels p) res band <? 0 then 0
  else pp_prec p + log2_gain res band + 2 - 1.

(* bandNumbpsFromQCD on the QCD written by writeQCD: Sqcd = 2 << 5 (style 0, two guard bits),
   SPqcd[idx] = uint8(expn << 3), read back as SPqcd[idx] >> 3 *)
Definition dec_band_numbps (p : pparams) (res band : Z) : option Z :=
  if subband_index (pp_levels p) res band <? 0 then None
  else Some (Z.shiftr (wrapU 8 (Z.shiftl (pp_prec p + log2_gain res band) 3)) 3 + 2 - 1).

(* codeBlockNumBps on the scaled coefficients (calculateMaxBitplane is the computation of
   t1.findMaxBitplane) *)
Definition cblk_numbps (data : list Z) : Z :=
  let raw := T1Model.find_max_bitplane data in
  if raw <? 0 then 0 else
  let n := raw + 1 - 6 in if n <? 0 then 0 else n.

(* encodeCodeBlock + encodeSingleLayerCodeBlock: the PrecinctCodeBlock handed to T2 *)
Definition mk_eblock (cbx cby zbp : Z) (data : list Z) (npt : Z) : H.eblock :=
  {| H.eb_cbx := cbx; H.eb_cby := cby; H.eb_zbp := zbp; H.eb_lp := []; H.eb_ld := None;
     H.eb_data := data; H.eb_npt := npt; H.eb_pl := []; H.eb_passes := []; H.eb_termall := false;
     H.eb_included := false; H.eb_nlb := 0 |}.

Definition enc_code_block (p : pparams) (res : Z) (cb : G.cblock) (cbx cby : Z) : outcome H.eblock :=
  let data := map (fun v => i32 (Z.shiftl v 6)) (G.cb_data cb) in
  let cblk := cblk_numbps data in
  let bandn0 := enc_band_numbps p res (G.cb_band cb) in
  let bandn := if bandn0 <=? 0 then cblk else bandn0 in
  let np := if cblk >? 0 then cblk * 3 - 2 else 1 in
  let zbp := if bandn - cblk <? 0 then 0 else bandn - cblk in
  match T1Bytes.enc_plain (Z.to_nat (G.cb_w cb)) (Z.to_nat (G.cb_h cb)) (G.cb_band cb) 0 6 np data with
  | Ok bytes => Ok (mk_eblock cbx cby zbp bytes np)
  | Err => Ok (mk_eblock cbx cby bandn [0] 1)          (* "minimal code-block on error" *)
  | Panic => Panic
  | OutOfFuel => OutOfFuel
  end.

(* ceilDivPow2, getResolutionDimensions (width only), calculatePrecinctIndex *)
Definition ceil_div_pow2 (n pow : Z) : Z := if pow <=? 0 then n else Z.quot (n + 2 ^ pow - 1) (2 ^ pow).
Definition enc_res_width (p : pparams) (res : Z) : Z :=
  let d := if pp_levels p - res <? 0 then 0 else pp_levels p - res in
  let w := ceil_div_pow2 (pp_iw p) d in if w <? 1 then 1 else w.
Definition enc_precinct_index (p : pparams) (x0 y0 res : Z) : Z :=
  let px := Z.quot x0 prec_sz in
  let py := Z.quot y0 prec_sz in
  let npx := Z.quot (enc_res_width p res + prec_sz - 1) prec_sz in
  py * npx + px.

(* PacketEncoder.AddCodeBlock on pe.precincts[comp][res][precinctIdx] *)
Fixpoint add_to_bands (bands : list H.eband) (band : Z) (b : H.eblock) : list H.eband :=
  match bands with
  | [] => [ {| H.ebn_band := band;
               H.ebn_w := if H.eb_cbx b + 1 >? 0 then H.eb_cbx b + 1 else 0;
               H.ebn_h := if H.eb_cby b + 1 >? 0 then H.eb_cby b + 1 else 0;
               H.ebn_blocks := [b]; H.ebn_trees := None |} ]
  | q :: r =>
    if H.ebn_band q =? band then
      {| H.ebn_band := H.ebn_band q;
         H.ebn_w := if H.eb_cbx b + 1 >? H.ebn_w q then H.eb_cbx b + 1 else H.ebn_w q;
         H.ebn_h := if H.eb_cby b + 1 >? H.ebn_h q then H.eb_cby b + 1 else H.ebn_h q;
         H.ebn_blocks := H.ebn_blocks q ++ [b]; H.ebn_trees := H.ebn_trees q |} :: r
    else q :: add_to_bands r band b
  end.

Definition add_code_block (cells : K.ecells) (comp res pidx band : Z) (b : H.eblock) : K.ecells :=
  let old := match K.aget K.key3_eqb cells (comp, res, pidx) with Some l => l | None => [] end in
  K.aset K.key3_eqb cells (comp, res, pidx) (add_to_bands old band b).

(* the body of the innermost loop of buildTilePacketEncoderAt up to AddCodeBlock:
   (res, precinctIdx, band, encodedCB).  (Encoding a block has no effect on the store, so all
   blocks of a component are encoded first and then added in the same order.) *)
Definition enc_one_block (p : pparams) (rc : Z * G.cblock) : outcome (Z * Z * Z * H.eblock) :=
  let '(res, cb) := rc in
  (* resX0, resY0 := encodedCB.X0 - subband.x0, encodedCB.Y0 - subband.y0 *)
  let rx := G.cb_cbx cb * pp_cbw p in
  let ry := G.cb_cby cb * pp_cbh p in
  let pidx := enc_precinct_index p rx ry res in
  let lx := rx - Z.quot rx prec_sz * prec_sz in
  let ly := ry - Z.quot ry prec_sz * prec_sz in
  obind (enc_code_block p res cb (Z.quot lx (pp_cbw p)) (Z.quot ly (pp_cbh p))) (fun b =>
    Ok (res, pidx, G.cb_band cb, b)).

Fixpoint omap {A B} (f : A -> outcome B) (l : list A) : outcome (list B) :=
  match l with
  | [] => Ok []
  | a :: r => obind (f a) (fun b => obind (omap f r) (fun bs => Ok (b :: bs)))
  end.

Definition add_blocks (comp : Z) (cells : K.ecells) (l : list (Z * Z * Z * H.eblock)) : K.ecells :=
  fold_left (fun cs x => let '(res, pidx, band, b) := x in add_code_block cs comp res pidx band b) l cells.

Fixpoint enc_add_comps (p : pparams) (comp : Z) (cells : K.ecells) (coeffs : list (list Z)) : outcome K.ecells :=
  match coeffs with
  | [] => Ok cells
  | d :: r => obind (omap (enc_one_block p) (enc_blocks p d)) (fun bl =>
              enc_add_comps p (comp + 1) (add_blocks comp cells bl) r)
  end.

(* buildTilePacketEncoderAt: the packet encoder's precinct store *)
Definition pipe_cells (p : pparams) (coeffs : list (list Z)) : outcome K.ecells :=
  enc_add_comps p 0 [] coeffs.

(* encodeTileData = packetsToBytes(encodeTilePackets) *)
Definition pipe_tile_bytes (p : pparams) (cells : K.ecells) : outcome (list Z) :=
  match K.enc_packets (pp_order p) 1 (pp_levels p + 1) (pp_nc p) (pipe_pgeom p) cells with
  | Ok r => Ok (K.packets_bytes (fst r))
  | Err => Ok [0]                                    (* fallback: one empty packet header *)
  | Panic => Panic
  | OutOfFuel => OutOfFuel
  end.

(* ===== pipe_encode_tile: pixel bytes -> the tile's packet bytes (between SOD and EOC) ===== *)
Definition pipe_coeffs (p : pparams) (pix : list Z) : outcome (list (list Z)) :=
  obind (pipe_front p pix) (fun planes => Ok (map (pipe_fdwt p) planes)).

Definition pipe_encode_tile (p : pparams) (pix : list Z) : outcome (list Z) :=
  obind (pipe_coeffs p pix) (fun coeffs =>
  obind (pipe_cells p coeffs) (fun cells => pipe_tile_bytes p cells)).

(* ------------------------------------------------------------------------------------ *)
(* decoder: precinct / code-block geometry                                                *)

(* one entry of collectCodeBlockEntries (PacketDecoder) == the addEntry calls of
   TileDecoder.buildPrecinctOrder: (precinct index, band, cbxLocal, cbyLocal) *)
Definition band_entries (p : pparams) (resX0 resY0 startX startY npx : Z) (b : G.band) : list (Z * Z * Z * Z) :=
  if (G.b_w b <=? 0) || (G.b_h b <=? 0) then [] else
  let numCBX := Z.quot (G.b_w b + pp_cbw p - 1) (pp_cbw p) in
  let numCBY := Z.quot (G.b_h b + pp_cbh p - 1) (pp_cbh p) in
  flat_map (fun cby =>
    map (fun cbx =>
      let ax := resX0 + cbx * pp_cbw p in
      let ay := resY0 + cby * pp_cbh p in
      let px := Z.quot (ax - startX) prec_sz in
      let py := Z.quot (ay - startY) prec_sz in
      let pIdx := py * npx + px in
      let precX0 := if startX + px * prec_sz <? resX0 then resX0 else startX + px * prec_sz in
      let precY0 := if startY + py * prec_sz <? resY0 then resY0 else startY + py * prec_sz in
      (pIdx, G.b_id b, Z.quot (ax - precX0) (pp_cbw p), Z.quot (ay - precY0) (pp_cbh p)))
      (G.zrange numCBX))
    (G.zrange numCBY).

Definition res_entries (p : pparams) (res : Z) : list (Z * Z * Z * Z) :=
  let '((resW, resH, resX0, resY0), bands) := G.dec_band_infos (pp_w p) (pp_h p) (pp_x0 p) (pp_y0 p) (pp_levels p) res in
  if (resW <=? 0) || (resH <=? 0) then [] else
  let startX := K.floor_div resX0 prec_sz * prec_sz in
  let startY := K.floor_div resY0 prec_sz * prec_sz in
  let endX := K.ceil_div (resX0 + resW) prec_sz * prec_sz in
  let npx0 := Z.quot (endX - startX) prec_sz in
  let npx := if npx0 <? 1 then 1 else npx0 in
  flat_map (band_entries p resX0 resY0 startX startY npx) bands.

(* globalCBIdx runs over all resolutions of the component *)
Record centry : Type := { ce_res : Z; ce_pidx : Z; ce_band : Z; ce_cbx : Z; ce_cby : Z; ce_global : Z }.

Fixpoint number_entries (res k : Z) (l : list (Z * Z * Z * Z)) : list centry :=
  match l with
  | [] => []
  | (pi, bd, x, y) :: r =>
    {| ce_res := res; ce_pidx := pi; ce_band := bd; ce_cbx := x; ce_cby := y; ce_global := k |}
    :: number_entries res (k + 1) r
  end.

Fixpoint entries_from (p : pparams) (ress : list Z) (k : Z) : list centry :=
  match ress with
  | [] => []
  | r :: rs => let es := res_entries p r in number_entries r k es ++ entries_from p rs (k + zlen es)
  end.

Definition comp_entries (p : pparams) : list centry := entries_from p (G.zrange (pp_levels p + 1)) 0.

(* sort.Slice by (cby, cbx) (distinct keys): insertion sort *)
Definition ce_lt (a b : centry) : bool :=
  if ce_cby a =? ce_cby b then ce_cbx a <? ce_cbx b else ce_cby a <? ce_cby b.
Fixpoint ce_insert (e : centry) (l : list centry) : list centry :=
  match l with
  | [] => [e]
  | x :: r => if ce_lt x e then x :: ce_insert e r else e :: l
  end.
Definition ce_sort (l : list centry) : list centry := fold_right ce_insert [] l.

(* precinctBands[pIdx][band], sorted *)
Definition cell_band_entries (p : pparams) (res pidx band : Z) : list centry :=
  ce_sort (filter (fun e => (ce_res e =? res) && (ce_pidx e =? pidx) && (ce_band e =? band)) (comp_entries p)).

(* precinctIndicesForResolution: the sorted keys of cbPrecinctOrder[comp][res] *)
Definition dec_pidx (p : pparams) (comp res : Z) : list Z :=
  if (comp <? 0) || (comp >=? pp_nc p) then [] else
  K.zsort_set (map ce_pidx (filter (fun e => ce_res e =? res) (comp_entries p))).

Definition zmax_list (l : list Z) : Z := fold_left (fun m v => if v >? m then v else m) l 0.

(* cbPrecinctDims / cbPrecinctPositions of every (comp, res, precinct, band) that has entries *)
Definition dec_geo (p : pparams) : K.dgeo :=
  flat_map (fun comp =>
    flat_map (fun res =>
      flat_map (fun pidx =>
        flat_map (fun band =>
          match cell_band_entries p res pidx band with
          | [] => []
          | es => [((comp, res, pidx, band),
                    (zmax_list (map (fun e => ce_cbx e + 1) es), zmax_list (map (fun e => ce_cby e + 1) es),
                     map (fun e => (ce_cbx e, ce_cby e)) es))]
          end) (K.band_order res))
        (dec_pidx p comp res))
      (G.zrange (pp_levels p + 1)))
    (G.zrange (pp_nc p)).

(* TileDecoder.buildPrecinctOrder: order[res][pIdx] = global indices, bands in band order *)
Definition dec_order (p : pparams) (res pidx : Z) : option (list Z) :=
  match flat_map (fun band => map ce_global (cell_band_entries p res pidx band)) (K.band_order res) with
  | [] => None
  | l => Some l
  end.

(* ------------------------------------------------------------------------------------ *)
(* decoder: code-blocks                                                                   *)

(* the grid of buildAndDecodeCodeBlocks with the resolution of every cell (GeoModel.dec_grid
   forgets it); globalCBIdx = position *)
Definition dec_cells_res (p : pparams) : list (Z * (Z * Z * Z * Z * Z)) :=
  flat_map (fun res =>
    map (fun c => (res, c))
        (flat_map (fun b => G.dec_band_cells b (pp_cbw p) (pp_cbh p))
                  (snd (G.dec_band_infos (pp_w p) (pp_h p) (pp_x0 p) (pp_y0 p) (pp_levels p) res))))
    (G.zrange (pp_levels p + 1)).

(* estimateMaxBitplane *)
Definition estimate_maxbp (p : pparams) (res band : Z) (ci : K.cbinfo) : Z :=
  let zbp := if K.ci_zbpset ci then K.ci_zbp ci else 0 in
  let fromPass :=
    if K.ci_passes ci >? 0 then
      let n := Z.quot (K.ci_passes ci + 2) 3 in if n <=? 0 then -1 else n
    else -1 in
  let fromQCD :=
    match dec_band_numbps p res band with
    | Some bn => if bn >? 0 then (if bn - zbp >? 0 then bn - zbp else -1) else -1
    | None => -1
    end in
  let m :=
    if (fromPass >=? 0) && (fromQCD >=? 0) then (if fromPass >? fromQCD then fromPass else fromQCD)
    else if fromQCD >=? 0 then fromQCD
    else if fromPass >=? 0 then fromPass
    else pp_prec p + pp_levels p - zbp in
  if m <? -1 then -1 else m.

(* shouldDecode *)
Definition should_decode (ci : K.cbinfo) (maxbp : Z) : bool :=
  if (zlen (K.ci_data ci) =? 0) || (maxbp <? 0) then false else
  match K.ci_pl ci with
  | Some (x :: l) => existsb (fun v => v >? 0) (x :: l)
  | _ => true
  end.

(* one cell of buildAndDecodeCodeBlocks + decodeCodeBlock: (x0, y0, x1, y1, coefficients) *)
Definition dec_code_block (p : pparams) (m : list ((Z * Z) * K.cbinfo)) (idx : Z) (rc : Z * (Z * Z * Z * Z * Z))
  : outcome (Z * Z * Z * Z * list Z) :=
  let '(res, (x0, y0, x1, y1, band)) := rc in
  let wn := Z.to_nat (x1 - x0) in
  let hn := Z.to_nat (y1 - y0) in
  let zeros := repeat 0 (wn * hn) in
  match K.aget K.key2_eqb m (res, idx) with
  | None => Ok (x0, y0, x1, y1, zeros)
  | Some ci =>
    let maxbp := estimate_maxbp p res band ci in
    let np := if K.ci_passes ci =? 0
              then (if maxbp >? 0 then maxbp * 3 - 2 else if maxbp >=? 0 then 1 else 0)
              else K.ci_passes ci in
    if negb (should_decode ci maxbp) then Ok (x0, y0, x1, y1, zeros) else
    let r := match K.ci_pl ci with
             | Some (x :: l) => T1Bytes.dec_layered wn hn band 0 maxbp true (K.ci_termall ci) false (K.ci_data ci) (x :: l)
             | _ => T1Bytes.dec_with_options wn hn band 0 maxbp true false (K.ci_data ci) np
             end in
    match r with
    | Ok coeffs => Ok (x0, y0, x1, y1, map (fun v => Z.quot v 2) coeffs)
    | Err => Ok (x0, y0, x1, y1, zeros)
    | Panic => Panic
    | OutOfFuel => OutOfFuel
    end
  end.

Fixpoint dec_code_blocks (p : pparams) (m : list ((Z * Z) * K.cbinfo)) (idx : Z)
  (cells : list (Z * (Z * Z * Z * Z * Z))) : outcome (list (Z * Z * Z * Z * list Z)) :=
  match cells with
  | [] => Ok []
  | rc :: r =>
    let '(_, (x0, y0, x1, y1, _)) := rc in
    if (x1 - x0 <=? 0) || (y1 - y0 <=? 0) then dec_code_blocks p m (idx + 1) r else
    obind (dec_code_block p m idx rc) (fun b =>
    obind (dec_code_blocks p m (idx + 1) r) (fun bs => Ok (b :: bs)))
  end.

(* decodeAllCodeBlocks + assembleSubbands + applyIDWT for one component *)
Definition dec_component (p : pparams) (dps : list K.dpacket) (comp : Z) : outcome (list Z) :=
  let m := K.gather comp (dec_order p) [] dps in
  obind (dec_code_blocks p m 0 (dec_cells_res p)) (fun blocks =>
    Ok (pipe_idwt p (G.dec_assemble (pp_w p) (pp_h p) blocks))).

Fixpoint dec_components (p : pparams) (dps : list K.dpacket) (comps : list Z) : outcome (list (list Z)) :=
  match comps with
  | [] => Ok []
  | c :: r => obind (dec_component p dps c) (fun d => obind (dec_components p dps r) (fun ds => Ok (d :: ds)))
  end.

(* TileDecoder.Decode *)
Definition pipe_dec_planes (p : pparams) (tile : list Z) : outcome (list (list Z)) :=
  obind (K.dec_packets tile (pp_order p) 1 (pp_levels p + 1) (pp_nc p) (pipe_pgeom_dec p) (dec_pidx p) (dec_geo p)
                       0 false false) (fun dps =>
    dec_components p dps (G.zrange (pp_nc p))).

(* applyInverseTransforms; applyInverseDCLevelShift; GetPixelData *)
Definition pipe_back (p : pparams) (planes : list (list Z)) : list Z :=
  let d1 := if uses_rct p then irct_planes planes else planes in
  G.get_pixel_data (pp_w p * pp_h p) (pp_nc p) (pp_prec p) (pp_signed p)
    (G.level_unshift_all (pp_prec p) (pp_signed p) d1).

(* ===== pipe_decode_tile: the tile's packet bytes -> pixel bytes ===== *)
Definition pipe_decode_tile (p : pparams) (tile : list Z) : outcome (list Z) :=
  obind (pipe_dec_planes p tile) (fun planes => Ok (pipe_back p planes)).

(* ------------------------------------------------------------------------------------ *)
(* the whole codestream (buildCodestream for this configuration): SOC, SIZ, COD, QCD, the
   version COM, one tile-part (SOT with Psot, SOD, packets), EOC.  SIZ and COD payloads are the
   writers of Framing.FrmWriters; QCD (writeQCD, lossless: Sqcd = guardBits << 5, one byte
   expn << 3 per subband), writeVersionCOM and the SOT of writeTile are modelled here. *)
Require V.Framing.FrmWriters.
Module W := V.Framing.FrmWriters.

(* log2 (a loop of halvings) on the power-of-two code-block sizes *)
Definition cb_log2 (n : Z) : Z := Z.log2 n.

(* quantizationInfo().expn: resolution 0, then HL, LH, HH of every resolution *)
Definition qcd_expn (p : pparams) : list Z :=
  (pp_prec p + log2_gain 0 0) ::
  flat_map (fun r => [pp_prec p + log2_gain r 1; pp_prec p + log2_gain r 2; pp_prec p + log2_gain r 3])
           (map (fun i => i + 1) (G.zrange (pp_levels p))).

Definition qcd_payload (p : pparams) : list Z :=
  wrapU 8 (Z.shiftl 2 5) :: map (fun e => wrapU 8 (Z.shiftl e 3)) (qcd_expn p).

(* "Created by OpenJPEG version 2.5.4" *)
Definition version_com : list Z :=
  [0; 1; 67; 114; 101; 97; 116; 101; 100; 32; 98; 121; 32; 79; 112; 101; 110; 74; 80; 69; 71; 32; 118; 101;
   114; 115; 105; 111; 110; 32; 50; 46; 53; 46; 52].

Definition pipe_main_header (p : pparams) : list Z :=
  W.write_marker 65359                                                          (* SOC *)
  ++ W.j2k_siz_segment false (pp_w p) (pp_h p) 0 0 (pp_nc p) (pp_prec p) (pp_signed p)
  ++ W.write_segment 65362 (W.j2k_cod_payload (pp_order p) 1 (pp_mct p && (pp_nc p >=? 3)) (pp_levels p)
                              (cb_log2 (pp_cbw p) - 2) (cb_log2 (pp_cbh p) - 2) false true)
  ++ W.write_segment 65372 (qcd_payload p)
  ++ W.write_segment 65380 version_com.

(* writeTile for tile 0: SOT (Lsot = 10, Isot = 0, Psot = len + 14, TPsot = 0, TNsot = 1), SOD *)
Definition pipe_codestream (p : pparams) (tile : list Z) : list Z :=
  pipe_main_header p
  ++ W.write_marker 65424 ++ W.be16_bytes 10 ++ W.be16_bytes 0 ++ W.be32_bytes (zlen tile + 14) ++ [0; 1]
  ++ W.write_marker 65427 ++ tile
  ++ W.write_marker 65497.                                                      (* EOC *)

(* ===== Encoder.Encode: pixel bytes -> codestream ===== *)
Definition pipe_encode (p : pparams) (pix : list Z) : outcome (list Z) :=
  obind (pipe_encode_tile p pix) (fun tile => Ok (pipe_codestream p tile)).

(* ==================================================================================== *)
(* QUALITY LAYERS (NumLayers = nl >= 2, Lossless, TargetRatio = 0, no LayerRates)         *)
(* The layered path of encodeCodeBlock (encodeLayeredCodeBlock: t1.EncodeLayered), the layer
   finalisation (applyRateDistortion -> finalizeBlock, appendLossless = Lossless && nl > 1:
   J2KGeo.GeoLayers.finalize_block) and EncodePackets / DecodePackets / gatherCBData over nl
   layers.  The per-block pass allocation (LayerAllocation.GetPassesForLayer, computed by the
   rate-distortion code) is a PARAMETER: alloc comp idx = the row of cumulative pass counts of
   block idx (position in the component's block list).                                       *)

Module GL := V.J2KGeo.GeoLayers.

Fixpoint zip_passes (lens : list Z) (ps : list T1Bytes.passrec) : list (Z * Z * bool) :=
  match lens, ps with
  | l :: lr, q :: pr => (l, T1Bytes.p_actual q, T1Bytes.p_term q) :: zip_passes lr pr
  | _, _ => []
  end.

Definition enc_code_block_layers (p : pparams) (nl : Z) (row : list Z) (res : Z) (cb : G.cblock) (cbx cby : Z)
  : outcome H.eblock :=
  let data := map (fun v => i32 (Z.shiftl v 6)) (G.cb_data cb) in
  let cblk := cblk_numbps data in
  let bandn0 := enc_band_numbps p res (G.cb_band cb) in
  let bandn := if bandn0 <=? 0 then cblk else bandn0 in
  let np := if cblk >? 0 then cblk * 3 - 2 else 1 in
  let zbp := if bandn - cblk <? 0 then 0 else bandn - cblk in
  let blk (lp : list Z) (ld : option (list (list Z))) (bytes : list Z) (npt : Z) (pl : list Z)
          (passes : list (Z * Z * bool)) : H.eblock :=
    {| H.eb_cbx := cbx; H.eb_cby := cby; H.eb_zbp := zbp; H.eb_lp := lp; H.eb_ld := ld;
       H.eb_data := bytes; H.eb_npt := npt; H.eb_pl := pl; H.eb_passes := passes; H.eb_termall := false;
       H.eb_included := false; H.eb_nlb := 0 |} in
  match T1Bytes.enc_layered (Z.to_nat (G.cb_w cb)) (Z.to_nat (G.cb_h cb)) (G.cb_band cb) 0 6 np data with
  | Ok (_, ps, bytes) =>
    match ps with
    | [] => Ok (blk [] None [] 0 [] [])                  (* NumPassesTotal = 0, Data = nil *)
    | _ =>
      let pl := map T1Bytes.p_rate ps in
      let passes := zip_passes (T1Bytes.pass_lens 0 ps) ps in
      match GL.finalize_block (map (fun q => (T1Bytes.p_rate q, T1Bytes.p_actual q)) ps) (Some bytes) nl row true with
      | Ok (Some (lp, ld)) => Ok (blk lp (Some ld) bytes np pl passes)
      | Ok None => Ok (blk [] None bytes np pl passes)
      | Err => Err
      | Panic => Panic
      | OutOfFuel => OutOfFuel
      end
    end
  | Err => Ok (blk [1] (Some [[0]]) [0] np [] [])       (* the error fallback of encodeLayeredCodeBlock *)
  | Panic => Panic
  | OutOfFuel => OutOfFuel
  end.

(* the key of a block inside its component: (resolution, band, cbx, cby) *)
Definition bkey : Type := (Z * Z * Z * Z)%type.
Definition bkey_eqb (a b : bkey) : bool :=
  let '(a1, a2, a3, a4) := a in let '(b1, b2, b3, b4) := b in
  (a1 =? b1) && (a2 =? b2) && (a3 =? b3) && (a4 =? b4).

Definition enc_one_block_layers (p : pparams) (nl : Z) (rows : bkey -> list Z) (rc : Z * G.cblock)
  : outcome (Z * Z * Z * H.eblock) :=
  let '(res, cb) := rc in
  let rx := G.cb_cbx cb * pp_cbw p in
  let ry := G.cb_cby cb * pp_cbh p in
  let pidx := enc_precinct_index p rx ry res in
  let lx := rx - Z.quot rx prec_sz * prec_sz in
  let ly := ry - Z.quot ry prec_sz * prec_sz in
  obind (enc_code_block_layers p nl (rows (res, G.cb_band cb, G.cb_cbx cb, G.cb_cby cb)) res cb
           (Z.quot lx (pp_cbw p)) (Z.quot ly (pp_cbh p))) (fun b =>
    Ok (res, pidx, G.cb_band cb, b)).

(* alloc comp key = the row of cumulative pass counts of that block *)
Fixpoint enc_add_comps_layers (p : pparams) (nl : Z) (alloc : Z -> bkey -> list Z) (comp : Z) (cells : K.ecells)
  (coeffs : list (list Z)) : outcome K.ecells :=
  match coeffs with
  | [] => Ok cells
  | d :: r => obind (omap (enc_one_block_layers p nl (alloc comp)) (enc_blocks p d)) (fun bl =>
              enc_add_comps_layers p nl alloc (comp + 1) (add_blocks comp cells bl) r)
  end.

Definition pipe_cells_layers (p : pparams) (nl : Z) (alloc : Z -> bkey -> list Z) (coeffs : list (list Z)) : outcome K.ecells :=
  enc_add_comps_layers p nl alloc 0 [] coeffs.

Definition pipe_tile_bytes_layers (p : pparams) (nl : Z) (cells : K.ecells) : outcome (list Z) :=
  match K.enc_packets (pp_order p) nl (pp_levels p + 1) (pp_nc p) (pipe_pgeom p) cells with
  | Ok r => Ok (K.packets_bytes (fst r))
  | Err => Ok [0]
  | Panic => Panic
  | OutOfFuel => OutOfFuel
  end.

(* ===== pipe_encode_tile_layers: nl >= 2 layers ===== *)
Definition pipe_encode_tile_layers (p : pparams) (nl : Z) (alloc : Z -> bkey -> list Z) (pix : list Z) : outcome (list Z) :=
  obind (pipe_coeffs p pix) (fun coeffs =>
  obind (pipe_cells_layers p nl alloc coeffs) (fun cells => pipe_tile_bytes_layers p nl cells)).

(* the decoder only differs in the layer count handed to the packet decoder *)
Definition pipe_dec_planes_layers (p : pparams) (nl : Z) (tile : list Z) : outcome (list (list Z)) :=
  obind (K.dec_packets tile (pp_order p) nl (pp_levels p + 1) (pp_nc p) (pipe_pgeom_dec p) (dec_pidx p) (dec_geo p)
                       0 false false) (fun dps =>
    dec_components p dps (G.zrange (pp_nc p))).

(* ===== pipe_decode_tile_layers ===== *)
Definition pipe_decode_tile_layers (p : pparams) (nl : Z) (tile : list Z) : outcome (list Z) :=
  obind (pipe_dec_planes_layers p nl tile) (fun planes => Ok (pipe_back p planes)).

(* the whole codestream with nl layers in COD *)
Definition pipe_codestream_layers (p : pparams) (nl : Z) (tile : list Z) : list Z :=
  W.write_marker 65359
  ++ W.j2k_siz_segment false (pp_w p) (pp_h p) 0 0 (pp_nc p) (pp_prec p) (pp_signed p)
  ++ W.write_segment 65362 (W.j2k_cod_payload (pp_order p) nl (pp_mct p && (pp_nc p >=? 3)) (pp_levels p)
                              (cb_log2 (pp_cbw p) - 2) (cb_log2 (pp_cbh p) - 2) false true)
  ++ W.write_segment 65372 (qcd_payload p)
  ++ W.write_segment 65380 version_com
  ++ W.write_marker 65424 ++ W.be16_bytes 10 ++ W.be16_bytes 0 ++ W.be32_bytes (zlen tile + 14) ++ [0; 1]
  ++ W.write_marker 65427 ++ tile
  ++ W.write_marker 65497.

(* ---- for the correspondence run only: the allocation a codestream carries, read off the packet
        headers (cumulative number of passes of every block after every layer) ---- *)
Definition find_packet (dps : list K.dpacket) (l r c : Z) : option K.dpacket :=
  find (fun dp => let '(l', r', c', p') := K.dp_item dp in (l' =? l) && (r' =? r) && (c' =? c) && (p' =? 0)) dps.

Fixpoint index_of (x : Z) (l : list Z) (k : Z) : Z :=
  match l with [] => -1 | y :: r => if y =? x then k else index_of x r (k + 1) end.

Definition block_layer_np (p : pparams) (dps : list K.dpacket) (c r g l : Z) : Z :=
  match find_packet dps l r c, dec_order p r 0 with
  | Some dp, Some ord =>
    let j := index_of g ord 0 in
    if j <? 0 then 0 else
    match nth_error (K.dp_incls dp) (Z.to_nat j) with
    | Some t => if H.di_included (fst (fst t)) then H.di_np (fst (fst t)) else 0
    | None => 0
    end
  | _, _ => 0
  end.

Fixpoint cum_sums (acc : Z) (l : list Z) : list Z :=
  match l with [] => [] | x :: r => (acc + x) :: cum_sums (acc + x) r end.

Definition pipe_recover_alloc (p : pparams) (nl : Z) (tile : list Z) : outcome (list (list (list Z))) :=
  obind (K.dec_packets tile (pp_order p) nl (pp_levels p + 1) (pp_nc p) (pipe_pgeom_dec p) (dec_pidx p) (dec_geo p)
                       0 false false) (fun dps =>
    Ok (map (fun c =>
          map (fun e => cum_sums 0 (map (fun l => block_layer_np p dps c (ce_res e) (ce_global e) l) (G.zrange nl)))
              (comp_entries p))
        (G.zrange (pp_nc p)))).

(* for the harness: rows listed per component in block order (LayerAllocation's index order) *)
Definition alloc_of_rows (p : pparams) (rowss : list (list (list Z))) : Z -> bkey -> list Z :=
  fun c k =>
    if c <? 0 then [] else
    match K.aget bkey_eqb (combine (map (fun e => (ce_res e, ce_band e, ce_cbx e, ce_cby e)) (comp_entries p))
                                   (nth (Z.to_nat c) rowss [])) k with
    | Some row => row
    | None => []
    end.

(* ==================================================================================== *)
(* TILES (TileWidth x TileHeight grid, one layer)                                         *)
(* writeTiles: for every tile index, tileBounds, transformTile (copy the tile rectangle out of
   every (level-shifted, RCT'd) component plane, forward DWT with the tile origin's parity),
   buildTilePacketEncoderAt at the origin (the packet encoder itself gets the tile-LOCAL
   bounds (0, 0, w, h)), one tile-part per tile.  Decoder: decodeAllTiles - NewTileDecoder
   derives the tile rectangle from SIZ and Isot, decodes the tile at that origin, and
   AssembleTile copies the tile's planes into the image planes (position in the codestream);
   the inverse colour transform, level shift and packing run once on the assembled image.
   The model decodes all tiles before assembling (Go interleaves; only the error point, not
   the error, differs).                                                                    *)

Definition tile_pp (p : pparams) (r : G.rect) : pparams :=
  let '(x0, y0, x1, y1) := r in
  mkPP (x1 - x0) (y1 - y0) (pp_nc p) (pp_prec p) (pp_signed p) (pp_levels p) (pp_cbw p) (pp_cbh p)
       (pp_mct p) (pp_order p) x0 y0 (pp_w p).

(* one tile: planes of the whole image -> packet bytes of the tile *)
Definition pipe_tile_of_planes (p : pparams) (planes : list (list Z)) (r : G.rect) : outcome (list Z) :=
  let pt := tile_pp p r in
  obind (pipe_cells pt (map (fun pl => pipe_fdwt pt (G.extract_tile pl (pp_w p) r)) planes)) (fun cells =>
    pipe_tile_bytes pt cells).

(* ===== pipe_encode_tiles: pixel bytes -> the packet bytes of every tile (tw, th: TileWidth, TileHeight;
   0 = the image dimension) ===== *)
Definition pipe_encode_tiles (p : pparams) (tw th : Z) (pix : list Z) : outcome (list (list Z)) :=
  obind (pipe_front p pix) (fun planes =>
    omap (pipe_tile_of_planes p planes)
         (G.enc_tiles (pp_w p) (pp_h p) (G.enc_tile_size (pp_w p) tw) (G.enc_tile_size (pp_h p) th))).

(* ===== pipe_decode_tiles: the tiles' packet bytes (codestream order, Isot = position) -> pixel bytes ===== *)
Definition pipe_decode_tiles (p : pparams) (tw th : Z) (tiles : list (list Z)) : outcome (list Z) :=
  let etw := G.enc_tile_size (pp_w p) tw in
  let eth := G.enc_tile_size (pp_h p) th in
  obind (omap (fun i => pipe_dec_planes (tile_pp p (G.dec_tile_bounds i (pp_w p) (pp_h p) 0 0 etw eth 0 0))
                                        (nth (Z.to_nat i) tiles []))
              (G.zrange (zlen tiles))) (fun tplanes =>
  let tl := G.new_tile_layout (pp_w p) (pp_h p) 0 0 etw eth 0 0 in
  obind (omap (fun c => G.assemble_tiles tl (G.zeros (Z.to_nat (G.tl_imageWidth tl * G.tl_imageHeight tl))) 0
                          (map (fun pls => nth (Z.to_nat c) pls []) tplanes))
              (G.zrange (pp_nc p))) (fun planes =>
  Ok (pipe_back p planes))).

(* the whole codestream: main header with XTsiz/YTsiz, one tile-part per tile (Isot = index) *)
Fixpoint tile_parts (idx : Z) (tiles : list (list Z)) : list Z :=
  match tiles with
  | [] => []
  | t :: r => W.write_marker 65424 ++ W.be16_bytes 10 ++ W.be16_bytes idx ++ W.be32_bytes (zlen t + 14) ++ [0; 1]
              ++ W.write_marker 65427 ++ t ++ tile_parts (idx + 1) r
  end.

Definition pipe_codestream_tiles (p : pparams) (tw th : Z) (tiles : list (list Z)) : list Z :=
  W.write_marker 65359
  ++ W.j2k_siz_segment false (pp_w p) (pp_h p) tw th (pp_nc p) (pp_prec p) (pp_signed p)
  ++ W.write_segment 65362 (W.j2k_cod_payload (pp_order p) 1 (pp_mct p && (pp_nc p >=? 3)) (pp_levels p)
                              (cb_log2 (pp_cbw p) - 2) (cb_log2 (pp_cbh p) - 2) false true)
  ++ W.write_segment 65372 (qcd_payload p)
  ++ W.write_segment 65380 version_com
  ++ tile_parts 0 tiles
  ++ W.write_marker 65497.

(* ==================================================================================== *)
(* TILES x QUALITY LAYERS                                                                 *)
(* writeTilesWithGlobalRateDistortion (more than one tile and NumLayers > 1): every tile is
   transformed and its blocks coded, ONE rate-distortion allocation runs over the blocks of all
   tiles, then every tile's packets are written.  The allocation is a parameter again, per tile
   index: talloc idx comp key = the row of cumulative pass counts.  (With one tile writeTile ->
   encodeTilePackets runs the same allocation code on that tile alone.) *)

Definition tile_rect (p : pparams) (tw th idx : Z) : G.rect :=
  let etw := G.enc_tile_size (pp_w p) tw in
  let eth := G.enc_tile_size (pp_h p) th in
  G.enc_tile_bounds (pp_w p) (pp_h p) idx etw eth (G.enc_num_tiles (pp_w p) etw).

Definition tile_count (p : pparams) (tw th : Z) : Z :=
  G.enc_num_tiles (pp_w p) (G.enc_tile_size (pp_w p) tw) * G.enc_num_tiles (pp_h p) (G.enc_tile_size (pp_h p) th).

Definition pipe_tile_of_planes_layers (p : pparams) (nl : Z) (alloc : Z -> bkey -> list Z)
  (planes : list (list Z)) (r : G.rect) : outcome (list Z) :=
  let pt := tile_pp p r in
  obind (pipe_cells_layers pt nl alloc (map (fun pl => pipe_fdwt pt (G.extract_tile pl (pp_w p) r)) planes)) (fun cells =>
    pipe_tile_bytes_layers pt nl cells).

(* ===== pipe_encode_tiles_layers ===== *)
Definition pipe_encode_tiles_layers (p : pparams) (nl : Z) (talloc : Z -> Z -> bkey -> list Z) (tw th : Z)
  (pix : list Z) : outcome (list (list Z)) :=
  obind (pipe_front p pix) (fun planes =>
    omap (fun idx => pipe_tile_of_planes_layers p nl (talloc idx) planes (tile_rect p tw th idx))
         (G.zrange (tile_count p tw th))).

(* ===== pipe_decode_tiles_layers ===== *)
Definition pipe_decode_tiles_layers (p : pparams) (nl : Z) (tw th : Z) (tiles : list (list Z)) : outcome (list Z) :=
  let etw := G.enc_tile_size (pp_w p) tw in
  let eth := G.enc_tile_size (pp_h p) th in
  obind (omap (fun i => pipe_dec_planes_layers (tile_pp p (G.dec_tile_bounds i (pp_w p) (pp_h p) 0 0 etw eth 0 0)) nl
                                               (nth (Z.to_nat i) tiles []))
              (G.zrange (zlen tiles))) (fun tplanes =>
  let tl := G.new_tile_layout (pp_w p) (pp_h p) 0 0 etw eth 0 0 in
  obind (omap (fun c => G.assemble_tiles tl (G.zeros (Z.to_nat (G.tl_imageWidth tl * G.tl_imageHeight tl))) 0
                          (map (fun pls => nth (Z.to_nat c) pls []) tplanes))
              (G.zrange (pp_nc p))) (fun planes =>
  Ok (pipe_back p planes))).

Definition pipe_codestream_tiles_layers (p : pparams) (nl : Z) (tw th : Z) (tiles : list (list Z)) : list Z :=
  W.write_marker 65359
  ++ W.j2k_siz_segment false (pp_w p) (pp_h p) tw th (pp_nc p) (pp_prec p) (pp_signed p)
  ++ W.write_segment 65362 (W.j2k_cod_payload (pp_order p) nl (pp_mct p && (pp_nc p >=? 3)) (pp_levels p)
                              (cb_log2 (pp_cbw p) - 2) (cb_log2 (pp_cbh p) - 2) false true)
  ++ W.write_segment 65372 (qcd_payload p)
  ++ W.write_segment 65380 version_com
  ++ tile_parts 0 tiles
  ++ W.write_marker 65497.
