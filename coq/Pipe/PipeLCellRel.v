(* Pipe (layers): PipeCellRel.cellrel_fresh generalised to nl >= 1 quality layers - the blocks of a
   cell only have to be in their initial state and satisfy block_layer_ok for every layer. *)
From V Require Import Common.Base Framing.FrmWriters T2.T2Bio T2.T2TagTree T2.T2Header T2.T2Packets J2KGeo.GeoLayers
  T2.T2ProofsCodes T2.T2ProofsHeader T2.T2ProofsHeader2 T2.T2ProofsHeader3 T2.T2ProofsPackets1 T2.T2ProofsPackets2
  Pipe.PipeCellRel.
Require Import Coq.Sorting.Sorted.

(* a code-block before layer 0 whose contribution to every layer is inside the domain of the codes *)
Definition layered_block (nl : Z) (b : eblock) : Prop :=
  eb_included b = false /\ eb_nlb b = 0 /\ 0 <= eb_zbp b < 32 /\
  forall l, 0 <= l < nl -> block_layer_ok false b l.

Definition lspec_ok (nl : Z) (s : bspec) : Prop :=
  0 < bs_nx s /\ 0 < bs_ny s /\
  map (fun b => (eb_cbx b, eb_cby b)) (bs_blocks s) = grid_positions (bs_nx s) (bs_ny s) /\
  Forall (layered_block nl) (bs_blocks s).

(* ---------- one band ---------- *)

Lemma pcl_bandrel : forall nl s, 0 < nl -> lspec_ok nl s -> BandRel false nl 0 (bs_eband s) (pcr_dband s).
Proof.
  intros nl s Hnl [Hw [Hh [Hpos Hfr]]].
  change (map (fun b => (eb_cbx b, eb_cby b)) (bs_blocks s)) with (map pos_of (bs_blocks s)) in Hpos.
  pose proof (pcr_grid_ss (bs_nx s) (bs_ny s)) as Hss.
  pose proof (pcr_grid_nonempty _ _ Hw Hh) as Hne.
  split.
  - unfold band_static, bs_eband, pcr_dband. cbn [dbn_w dbn_h ebn_w ebn_h ebn_blocks].
    split; [reflexivity|]. split; [reflexivity|]. split; [exact Hw|]. split; [exact Hh|].
    split; [intros E; rewrite E in Hpos; cbn [map] in Hpos; apply Hne; symmetry; exact Hpos|].
    split; [rewrite Hpos; apply pcr_ss_pos_sorted; exact Hss|].
    split.
    { unfold eff_pos. cbn [dbn_pos dbn_w dbn_h]. rewrite Hpos.
      destruct (grid_positions (bs_nx s) (bs_ny s)); reflexivity. }
    unfold blocks_static. split; [rewrite Hpos; apply pcr_ss_nodup; exact Hss|].
    apply Forall_forall. intros b Hb.
    rewrite Forall_forall in Hfr. pose proof (Hfr b Hb) as Hfb.
    split.
    { assert (Hin : In (pos_of b) (grid_positions (bs_nx s) (bs_ny s))) by (rewrite <- Hpos; apply in_map; exact Hb).
      unfold pos_of in Hin. apply pcr_in_grid in Hin. exact Hin. }
    destruct Hfb as [_ [_ [Hz Hlay]]]. split; [exact Hz|].
    intros l' Hl'. apply Hlay. lia.
  - left. split; [reflexivity|]. unfold band_fresh, bs_eband, pcr_dband.
    cbn [ebn_trees dbn_incl dbn_zbp dbn_states ebn_blocks]. repeat split.
    apply Forall_forall. intros b Hb. rewrite Forall_forall in Hfr.
    destruct (Hfr b Hb) as [Hinc [Hnlb _]]. split; [exact Hinc|]. rewrite Hnlb. reflexivity.
Qed.

Theorem cellrel_layers : forall (nl : Z) (geo : dgeo) (cells : ecells) (c r : Z) (specs : list bspec),
  0 < nl -> specs <> [] -> ids_ok r (map bs_id specs) -> Forall (lspec_ok nl) specs ->
  aget key3_eqb cells (c, r, 0) = Some (map bs_eband specs) ->
  (forall band, In band (band_order r) ->
     aget key4_eqb geo (c, r, 0, band) =
       match find (fun s => bs_id s =? band) specs with
       | Some s => Some (bs_nx s, bs_ny s, grid_positions (bs_nx s) (bs_ny s))
       | None => None
       end) ->
  CellRel false nl geo 0 (c, r, 0) cells [].
Proof.
  intros nl geo cells c r specs Hnl Hne Hids Hok Hcells Hgeo.
  right. split; [lia|]. exists (map bs_eband specs).
  split; [exact Hcells|].
  split; [destruct specs; [congruence | discriminate]|].
  cbn [fst snd]. rewrite map_map. cbn [bs_eband ebn_band].
  split; [exact Hids|].
  unfold cell_bands_d. unfold ids_ok in Hids. unfold band_order in *.
  destruct (r =? 0).
  - destruct Hids as [Hids|Hids]; pcr_specs specs; [congruence|].
    pose proof (Hgeo 0 ltac:(cbn; tauto)) as G0. cbn [find] in G0.
    repeat match goal with H : bs_id _ = _ |- _ => rewrite H in *; clear H end.
    cbn [Z.eqb Pos.eqb] in G0.
    inversion Hok as [|? ? Hok0 _]; subst.
    rewrite (pcr_step_some _ _ _ _ _ _ _ G0 ltac:(apply Hok0) ltac:(apply Hok0)).
    cbn [map dec_band_states]. apply BR_both; [apply (pcl_bandrel nl _ Hnl); exact Hok0 | constructor].
  - pose proof (Hgeo 1 ltac:(cbn; tauto)) as G1.
    pose proof (Hgeo 2 ltac:(cbn; tauto)) as G2.
    pose proof (Hgeo 3 ltac:(cbn; tauto)) as G3.
    destruct Hids as [Hids|[Hids|[Hids|[Hids|[Hids|[Hids|[Hids|Hids]]]]]]]; pcr_specs specs; [congruence| | | | | | |];
      cbn [find] in G1, G2, G3;
      repeat match goal with H : bs_id _ = _ |- _ => rewrite H in *; clear H end;
      cbn [Z.eqb Pos.eqb] in G1, G2, G3;
      repeat match goal with H : Forall (lspec_ok nl) (_ :: _) |- _ => let H0 := fresh "Hok0" in
               apply Forall_cons_iff in H as [H0 H] end;
      repeat first
        [ rewrite (pcr_step_some _ _ _ _ _ _ _ G1) by (match goal with H : lspec_ok nl _ |- _ => apply H end)
        | rewrite (pcr_step_some _ _ _ _ _ _ _ G2) by (match goal with H : lspec_ok nl _ |- _ => apply H end)
        | rewrite (pcr_step_some _ _ _ _ _ _ _ G3) by (match goal with H : lspec_ok nl _ |- _ => apply H end)
        | rewrite (pcr_step_none _ _ _ _ _ _ G1)
        | rewrite (pcr_step_none _ _ _ _ _ _ G2)
        | rewrite (pcr_step_none _ _ _ _ _ _ G3) ];
      cbn [map dec_band_states];
      repeat (apply BR_both; [apply (pcl_bandrel nl _ Hnl); assumption|]); constructor.
Qed.


Print Assumptions cellrel_layers.
