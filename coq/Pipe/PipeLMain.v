(* pipe (layers), part 9': the end-to-end theorem for nl >= 2 quality layers and ANY allocation of
   coding passes to layers whose rows are non-negative and non-decreasing (row_ok). *)
From V Require Import Common.Base J2KGeo.GeoModel J2KGeo.GeoProofsBands J2KGeo.GeoProofsBlocks
  DWT.DwtModel T2.T2Header T2.T2Packets T2.T2ProofsPackets2 T2.T2ProofsGather
  Pipe.PipeModel Pipe.PipeProofsFront Pipe.PipeProofsLists Pipe.PipeProofsStore Pipe.PipeProofsGeo
  Pipe.PipeProofsDecGeo Pipe.PipeProofsBlock Pipe.PipeCellRel Pipe.PipeProofsEnc Pipe.PipeProofsCells
  Pipe.PipeLBlockDomain Pipe.PipeLBlock Pipe.PipeLCells Pipe.PipeLT2 Pipe.PipeProofsMain.

Section LMain.
Variable p : pparams.
Hypothesis Hsc : pp_scope p.
Variable nl : Z.
Hypothesis Hnl : 2 <= nl.
Variable alloc : Z -> bkey -> list Z.
Hypothesis Halloc : forall c k, row_ok nl (alloc c k).

Let w := pp_w p.
Let h := pp_h p.
Let L := pp_levels p.
Let nc := pp_nc p.

Lemma dec_code_blocks_all_L : forall c d m, zlen d = w * h -> coeff_fit [d] ->
  (forall r cb, In (r, cb) (enc_blocks p d) -> forall m0 idx, delivered nl (mkL p nl alloc c r cb) (aget key2_eqb m0 (r, idx)) ->
     dec_code_block p m0 idx (r, cell_of_block cb) = Ok (blk_asm cb)) ->
  (forall i r cb, In (i, (r, cb)) (NE p d) -> delivered nl (mkL p nl alloc c r cb) (aget key2_eqb m (r, i))) ->
  dec_code_blocks p m 0 (dec_cells_res p) = Ok (blocks_for_assembly (map snd (enc_blocks p d))).
Proof.
  intros c d m Hlen Hfit Hdec Hdel. rewrite (dec_cells_blocks p Hsc d). unfold NE in Hdel.
  assert (Hb : forall v, In v d -> - 2 ^ 25 < v < 2 ^ 25) by (intros v Hv; apply (Hfit d (or_introl eq_refl) v Hv)).
  assert (G : forall l k, (forall rc, In rc l -> In rc (enc_blocks p d)) ->
            (forall i r cb, In (i, (r, cb)) (znumber k l) -> delivered nl (mkL p nl alloc c r cb) (aget key2_eqb m (r, i))) ->
            dec_code_blocks p m k (map (fun rc => (fst rc, cell_of_block (snd rc))) l) = Ok (map blk_asm (map snd l))).
  { induction l as [|[r cb] l IH]; intros k Hsub Hd; cbn [map dec_code_blocks]; [reflexivity|].
    pose proof (Hsub (r, cb) (or_introl eq_refl)) as Hin.
    destruct (block_facts p Hsc d Hlen Hb r cb Hin) as (_ & (_ & Hw1 & Hh1 & _) & _).
    cbn [fst snd]. unfold cell_of_block at 1.
    destruct (Z.leb_spec (cb_gx0 cb + cb_w cb - cb_gx0 cb) 0); [lia|].
    destruct (Z.leb_spec (cb_gy0 cb + cb_h cb - cb_gy0 cb) 0); [lia|]. cbn [orb].
    fold (cell_of_block cb).
    rewrite (Hdec r cb Hin m k (Hd k r cb ltac:(cbn [znumber]; left; reflexivity))). cbn [obind].
    rewrite IH.
    - reflexivity.
    - intros rc Hrc. apply Hsub. right. exact Hrc.
    - intros i r' cb' Hin'. apply Hd. cbn [znumber]. right. exact Hin'. }
  rewrite (G (enc_blocks p d) 0); [reflexivity | auto | exact Hdel].
Qed.

(* the middle of the pipeline for one tile at its origin, nl layers *)
Theorem pipe_planes_roundtrip_layers : forall planes, planes_ok p (2 ^ pp_prec p) planes ->
  blocks_small p (map (pipe_fdwt p) planes) ->
  exists tile, obind (pipe_cells_layers p nl alloc (map (pipe_fdwt p) planes)) (pipe_tile_bytes_layers p nl) = Ok tile /\
               pipe_dec_planes_layers p nl tile = Ok planes.
Proof.
  intros planes Hplok Hbs.
  pose proof Hplok as [Hnp Hpl].
  set (coeffs := map (pipe_fdwt p) planes). fold coeffs in Hbs.
  pose proof (coeff_fit_sharp p Hsc planes Hplok) as Hcf. fold coeffs in Hcf.
  assert (Hnc : length coeffs = Z.to_nat nc) by (unfold coeffs; rewrite map_length; exact Hnp).
  assert (Hlen : forall d, In d coeffs -> zlen d = w * h).
  { intros d Hd. unfold coeffs in Hd. apply in_map_iff in Hd as [pl [<- Hin]]. apply (fdwt_length p Hsc).
    rewrite Forall_forall in Hpl. apply (Hpl pl Hin). }
  assert (Hsize : forall d, In d coeffs -> forall r cb, In (r, cb) (enc_blocks p d) ->
            forall b0, enc_code_block p r cb (cb_cbx cb) (cb_cby cb) = Ok b0 -> zlen (eb_data b0) <= 65535).
  { intros d Hd r cb Hin b0 E. apply (Hbs d Hd r cb Hin b0 E). }
  destruct (pipe_cells_layers_spec p Hsc nl Hnl alloc Halloc coeffs Hnc Hlen Hcf Hsize) as [cells [Ecells _]].
  assert (Hord0 : 0 <= pp_order p <= 4) by (destruct Hsc as (_ & _ & _ & _ & _ & _ & _ & _ & H & _); exact H).
  destruct (t2_encodes_L p Hsc nl Hnl alloc Halloc coeffs Hnc Hlen Hcf Hsize cells Ecells Hord0) as [eps [cells' [Eenc Hsp]]].
  exists (packets_bytes eps). split.
  - rewrite Ecells. cbn [obind].
    unfold pipe_tile_bytes_layers. rewrite Eenc. reflexivity.
  - destruct (t2_delivers_L p Hsc nl Hnl alloc Halloc coeffs Hnc Hlen Hcf Hsize cells Ecells eps cells' Hord0 Eenc Hsp) as [dps [Edec Hdel]].
    unfold pipe_dec_planes_layers. rewrite Edec. cbn [obind].
    assert (Hcomp : forall c, 0 <= c < nc -> dec_component p dps c = Ok (nth (Z.to_nat c) planes [])).
    { intros c Hc. unfold dec_component.
      set (d := coef coeffs c). assert (Hd : In d coeffs) by (apply (coef_in p coeffs Hnc c Hc)).
      rewrite (dec_code_blocks_all_L c d _ (Hlen d Hd)).
      - cbn [obind]. f_equal. rewrite (enc_blocks_all p). fold w h L.
        destruct (wh_range p Hsc) as (A & B & C). destruct (cb_range p Hsc) as [Cw Ch]. fold w h L in A, B, C.
        rewrite (extract_assemble_subbands_id w h (pp_x0 p) (pp_y0 p) L (pp_cbw p) (pp_cbh p) ltac:(lia) ltac:(lia) ltac:(lia) ltac:(lia) ltac:(lia) d (Hlen d Hd)).
        unfold d, coef, coeffs.
        rewrite (nth_indep _ [] (pipe_fdwt p [])) by (rewrite map_length, Hnp; lia). rewrite map_nth.
        apply (idwt_fdwt p Hsc). rewrite Forall_forall in Hpl. apply Hpl. apply nth_In. rewrite Hnp. lia.
      - intros d' [<-|[]]. apply Hcf. exact Hd.
      - intros r cb Hin m0 idx Hdl.
        destruct (mkL_spec p Hsc nl Hnl alloc Halloc coeffs Hlen Hcf Hsize c d r cb Hd Hin) as (_ & _ & _ & _ & _ & _ & _ & Fd).
        apply (Fd m0 idx Hdl).
      - apply (Hdel c Hc). }
    assert (Hall : forall cs, (forall c, In c cs -> 0 <= c < nc) ->
              dec_components p dps cs = Ok (map (fun c => nth (Z.to_nat c) planes []) cs)).
    { induction cs as [|c cs IH]; intros Hin; cbn [dec_components map]; [reflexivity|].
      rewrite (Hcomp c (Hin c (or_introl eq_refl))). cbn [obind]. rewrite IH by (intros c' Hc'; apply Hin; right; exact Hc').
      reflexivity. }
    fold nc. rewrite (Hall (zrange nc)) by (intros c Hc; apply in_zrange in Hc; exact Hc). f_equal.
    assert (Epl : map (fun c => nth (Z.to_nat c) planes []) (zrange nc) = planes).
    { unfold zrange, nc. rewrite map_map. rewrite <- Hnp. clear. induction planes as [|x l IH] using rev_ind; [reflexivity|].
      rewrite app_length. cbn [length]. rewrite Nat.add_1_r, seq_S, map_app. cbn [map]. rewrite Nat.add_0_l.
      f_equal.
      - rewrite <- IH at 2. apply map_ext_in. intros i Hi. apply in_seq in Hi. rewrite Nat2Z.id. apply app_nth1. lia.
      - rewrite Nat2Z.id, app_nth2 by lia. rewrite Nat.sub_diag. reflexivity. }
    exact Epl.
Qed.

Theorem pipe_layers_roundtrip_section : forall samples, samples_ok p samples ->
  let pix := pack_image p samples in
  hyp_block_sizes p pix ->
  exists tile, pipe_encode_tile_layers p nl alloc pix = Ok tile /\ pipe_decode_tile_layers p nl tile = Ok pix.
Proof.
  intros samples Hsm pix Hbs.
  destruct (front_ok p samples Hsc Hsm) as [planes [Efront [Hplok Eback]]]. fold pix in Efront, Eback.
  assert (Ecoeffs : pipe_coeffs p pix = Ok (map (pipe_fdwt p) planes)) by (unfold pipe_coeffs; rewrite Efront; reflexivity).
  destruct (pipe_planes_roundtrip_layers planes Hplok (Hbs _ Ecoeffs)) as [tile [Eenc Edec]].
  exists tile. split.
  - unfold pipe_encode_tile_layers. rewrite Ecoeffs. exact Eenc.
  - unfold pipe_decode_tile_layers. rewrite Edec. cbn [obind]. rewrite Eback. reflexivity.
Qed.

End LMain.

(* ---------- the statement and the partial theorem ---------- *)

(* every row of the allocation: requested cumulative pass counts of the layers 0 .. nl-2
   non-negative and non-decreasing (the last layer always takes all passes: Lossless) *)
Definition alloc_ok (nl : Z) (alloc : Z -> bkey -> list Z) : Prop := forall c k, row_ok nl (alloc c k).

Definition pipe_layers_roundtrip_statement : Prop :=
  forall p nl alloc samples, pp_scope p -> 2 <= nl -> alloc_ok nl alloc -> samples_ok p samples ->
    exists tile, pipe_encode_tile_layers p nl alloc (pack_image p samples) = Ok tile /\
                 pipe_decode_tile_layers p nl tile = Ok (pack_image p samples).

(* Proved under the same single hypothesis as the one-layer theorem (no code-block compresses to
   more than 65535 bytes; the layered path codes the same bytes). *)
Theorem pipe_layers_roundtrip_partial : forall p nl alloc samples,
  pp_scope p -> 2 <= nl -> alloc_ok nl alloc -> samples_ok p samples ->
  hyp_block_sizes p (pack_image p samples) ->
  exists tile, pipe_encode_tile_layers p nl alloc (pack_image p samples) = Ok tile /\
               pipe_decode_tile_layers p nl tile = Ok (pack_image p samples).
Proof. intros p nl alloc samples Hsc Hnl Hal Hsm Hbs. exact (pipe_layers_roundtrip_section p Hsc nl Hnl alloc Hal samples Hsm Hbs). Qed.
