(* Tier-1 lockstep for the tile decoder's call of the block decoder, part (iii): pass sequencing
   and the ideal-channel theorem.  Generalised copy of T1/T1ProofsSeq.v (section Block and the
   theorem): the encoder codes the planes maxbp .. 6 (all 3*(maxbp-6+1)-2 passes), the decoder
   is started at maxBitplane = maxbp - 5 with the OpenJPEG reconstruction and runs the pass list
   with every plane shifted by -5. *)
From V Require Import Common.Base T1.T1Store T1.T1Ctx T1.T1Model T1.T1ProofsBase T1.T1ProofsSample T1.T1ProofsPass
  T1.T1ProofsSeq T1.T1ProofsFinal.
From V Require Import Pipe.PipeT1ojSample Pipe.PipeT1ojPass.

(* =====================================================================================
   The decoder's pass list
   ===================================================================================== *)
Fixpoint shift5 (pl : list (Z * Z)) : list (Z * Z) :=
  match pl with
  | [] => []
  | (b, p) :: r => (b - 5, p) :: shift5 r
  end.

Lemma shift5_planes : forall k s top,
  shift5 (flat_map (fun i => let b := top - Z.of_nat i in [(b, 0); (b, 1); (b, 2)]) (seq s k)) =
  flat_map (fun i => let b := top - 5 - Z.of_nat i in [(b, 0); (b, 1); (b, 2)]) (seq s k).
Proof.
  induction k as [|k IH]; intros s top; [reflexivity|].
  cbn [seq flat_map]. cbv zeta. cbn [app shift5]. rewrite IH.
  replace (top - Z.of_nat s - 5) with (top - 5 - Z.of_nat s) by lia. reflexivity.
Qed.

Lemma all_passes_shift5 : forall maxbp, 6 <= maxbp ->
  all_passes (maxbp - 5) 1 = shift5 (all_passes maxbp 6).
Proof.
  intros maxbp H. unfold all_passes. cbn [shift5]. rewrite shift5_planes.
  replace (Z.to_nat (maxbp - 5 - 1)) with (Z.to_nat (maxbp - 6)) by lia.
  replace (maxbp - 5 - 1) with (maxbp - 1 - 5) by lia. reflexivity.
Qed.

Lemma firstn_app_exact : forall {A} (l e : list A) n, n = length l -> firstn n (l ++ e) = l.
Proof.
  intros A l e n ->. rewrite firstn_app, Nat.sub_diag, firstn_all. cbn [firstn]. apply app_nil_r.
Qed.

(* DecodeWithBitplane(.., numPasses = 3n-2, maxBitplane = n): the passes of the planes n .. 1 *)
Lemma pass_list_dec_shift5 : forall maxbp, 6 <= maxbp ->
  pass_list (maxbp - 5) 0 (3 * (maxbp - 6 + 1) - 2) = shift5 (pass_list maxbp 6 (3 * (maxbp - 6 + 1) - 2)).
Proof.
  intros maxbp H.
  rewrite (pass_list_complete maxbp 6) by lia.
  rewrite <- all_passes_shift5 by exact H.
  unfold pass_list. destruct (Z.ltb_spec (maxbp - 5) 0); [lia|].
  destruct (all_passes_split (maxbp - 5) 1 ltac:(lia)) as [extra ->].
  apply firstn_app_exact. rewrite all_passes_length. lia.
Qed.

Lemma In_firstn' : forall {A} n (l : list A) x, In x (firstn n l) -> In x l.
Proof. intros A n l x H. rewrite <- (firstn_skipn n l). apply in_or_app. left. exact H. Qed.

Lemma pass_list_bp_ge' : forall maxbp fb np q, In q (pass_list maxbp fb np) -> fb <= fst q.
Proof.
  intros maxbp fb np q H. unfold pass_list in H. destruct (Z.ltb_spec maxbp fb); [destruct H|].
  apply In_firstn' in H. unfold all_passes in H. destruct H as [<-|H]; [cbn; lia|].
  apply in_flat_map in H. destruct H as (i & Hi & Hq). apply in_seq in Hi. cbv zeta in Hq.
  destruct Hq as [<-|[<-|[<-|[]]]]; cbn [fst]; lia.
Qed.

Lemma nolazy_raw' : forall style bp maxbp pt, Z.land style CblkStyleLazy = 0 -> is_lazy_raw bp maxbp pt style = false.
Proof. intros style bp maxbp pt H. unfold is_lazy_raw. rewrite H. reflexivity. Qed.

(* =====================================================================================
   Sequencing
   ===================================================================================== *)
Section Block.
Variables (wn hn : nat) (V : tree) (orient style maxbp maxbpd : Z).
Let w := Z.of_nat wn.
Let h := Z.of_nat hn.
Hypothesis HV : Vbound w h V.
Hypothesis Hlazy : Z.land style CblkStyleLazy = 0.

Definition oPbefore (bp pt : Z) : tree -> Z -> Z -> Z :=
  if pt =? 0 then (fun _ _ _ => bp + 1) else if pt =? 1 then Pspp w bp else oPmid wn bp.
Definition oPafter (bp pt : Z) : tree -> Z -> Z -> Z :=
  if pt =? 0 then Pspp w bp else if pt =? 1 then oPmid wn bp else (fun _ _ _ => bp).

Fixpoint ofinal_P (bp pt : Z) (pl : list (Z * Z)) : tree -> Z -> Z -> Z :=
  match pl with
  | [] => oPbefore bp pt
  | _ :: r => ofinal_P (next_bp bp pt) (next_pt pt) r
  end.

Lemma oPafter_next : forall bp pt F x y, pt = 0 \/ pt = 1 \/ pt = 2 ->
  oPbefore (next_bp bp pt) (next_pt pt) F x y = oPafter bp pt F x y.
Proof.
  intros bp pt F x y [->|[->| ->]]; unfold oPbefore, oPafter, next_bp, next_pt; cbn; try reflexivity. lia.
Qed.

Lemma opass_lockstep_gen : forall bp pt raw F0 D Ppre Ppost tl ps,
  lockstep (enc_pass wn hn orient style bp pt raw V) (dec_pass ideal_ask wn hn orient style (bp - 5) pt raw true)
           (ORfd w h V Ppre) (ORfd w h V Ppost) ->
  ORfd w h V Ppre F0 (F0, D) ->
  exists D1, dec_pass ideal_ask wn hn orient style (bp - 5) pt raw true
               ((F0, D), (snd (enc_pass wn hn orient style bp pt raw V F0) ++ tl, ps))
             = Ok ((fst (enc_pass wn hn orient style bp pt raw V F0), D1), (tl, ps)) /\
             ORfd w h V Ppost (fst (enc_pass wn hn orient style bp pt raw V F0))
                 (fst (enc_pass wn hn orient style bp pt raw V F0), D1).
Proof.
  intros bp pt raw F0 D Ppre Ppost tl ps L Hpre.
  destruct (L F0 (F0, D) Hpre tl ps) as ([F1 D1] & Ed & Hpost).
  assert (E1 : fst (enc_pass wn hn orient style bp pt raw V F0) = F1) by apply Hpost.
  exists D1. rewrite E1 in *. split; [exact Ed|exact Hpost].
Qed.

Lemma opass_lockstep_rest : forall bp pt, 6 <= bp <= 30 -> pt = 0 \/ pt = 1 \/ pt = 2 ->
  forall Fe D, ORfd w h V (oPbefore bp pt) Fe (Fe, D) ->
  forall raw tl ps, exists D1,
    dec_pass ideal_ask wn hn orient style (bp - 5) pt raw true
      (((if start_bitplane pt false then clear_visit Fe else Fe), D),
       (snd (enc_pass wn hn orient style bp pt raw V (if start_bitplane pt false then clear_visit Fe else Fe)) ++ tl, ps))
    = Ok ((fst (enc_pass wn hn orient style bp pt raw V (if start_bitplane pt false then clear_visit Fe else Fe)), D1), (tl, ps)) /\
    ORfd w h V (oPafter bp pt)
        (fst (enc_pass wn hn orient style bp pt raw V (if start_bitplane pt false then clear_visit Fe else Fe)))
        (fst (enc_pass wn hn orient style bp pt raw V (if start_bitplane pt false then clear_visit Fe else Fe)), D1).
Proof.
  intros bp pt Hbp Hpt Fe D Hr raw tl ps.
  destruct Hpt as [->|[->| ->]]; unfold oPafter, oPbefore in *.
  - change (0 =? 0) with true in *. cbv iota in *.
    change (start_bitplane 0 false) with true. cbv iota.
    apply (opass_lockstep_gen bp 0 raw (clear_visit Fe) D (Pspp w bp) (Pspp w bp));
      [apply ospp_pass_lockstep; assumption|].
    destruct Hr as [_ HI]. split; [reflexivity|]. cbn [snd] in *. intros x y Hin.
    specialize (HI x y Hin). unfold Pspp.
    destruct (clear_visit_self Fe (idx_of w x y)) as (Hs & Hv & Hn). rewrite Hs, Hn, Hv. exact HI.
  - change (1 =? 0) with false in *. change (1 =? 1) with true in *. cbv iota in *.
    change (start_bitplane 1 false) with false. cbv iota.
    apply (opass_lockstep_gen bp 1 raw Fe D (Pspp w bp) (oPmid wn bp)); [apply omrp_pass_lockstep; assumption|exact Hr].
  - change (2 =? 0) with false in *. change (2 =? 1) with false in *. cbv iota in *.
    change (start_bitplane 2 false) with false. cbv iota.
    apply (opass_lockstep_gen bp 2 raw Fe D (oPmid wn bp) (oPdone bp)); [apply ocup_pass_lockstep; assumption|exact Hr].
Qed.

Lemma orest_lockstep : forall pl bp pt i Fe D, chain bp pt pl -> Forall (fun q => 6 <= fst q) pl -> 1 <= i ->
  ORfd w h V (oPbefore bp pt) Fe (Fe, D) ->
  exists D',
    dec_passes ideal_ask ideal_pre ideal_post wn hn orient style maxbpd true (shift5 pl) i
               ((Fe, D), ([], enc_passes wn hn orient style maxbp V pl false Fe))
    = Ok ((enc_final_flags wn hn orient style maxbp V pl false Fe, D'), ([], [])) /\
    ORfd w h V (ofinal_P bp pt pl) (enc_final_flags wn hn orient style maxbp V pl false Fe)
        (enc_final_flags wn hn orient style maxbp V pl false Fe, D').
Proof.
  induction pl as [|[b p] r IH]; intros bp pt i Fe D Hc H6 Hi Hr.
  - exists D. cbn [shift5 dec_passes enc_passes enc_final_flags ofinal_P]. split; [reflexivity|exact Hr].
  - cbn [chain] in Hc. destruct Hc as (-> & -> & Hbp & Hpt & Hc).
    pose proof (Forall_inv H6) as Hb6. cbn [fst] in Hb6. pose proof (Forall_inv_tail H6) as H6'.
    cbn [shift5 dec_passes enc_passes enc_final_flags ofinal_P].
    replace (i =? 0) with false by (symmetry; apply Z.eqb_neq; lia).
    rewrite (nolazy_raw' style bp maxbp pt Hlazy), (nolazy_raw' style (bp - 5) maxbpd pt Hlazy).
    set (F0 := if start_bitplane pt false then clear_visit Fe else Fe).
    destruct (enc_pass wn hn orient style bp pt false V F0) as [F1 o] eqn:Ee. cbn [fst].
    set (RS := enc_passes wn hn orient style maxbp V r false F1).
    destruct (opass_lockstep_rest bp pt ltac:(lia) Hpt Fe D Hr false [] RS) as (D1 & Ed & Hpost).
    fold F0 in Ed, Hpost. rewrite Ee in Ed, Hpost. cbn [fst snd] in Ed, Hpost. rewrite app_nil_r in Ed.
    assert (Hnext : ORfd w h V (oPbefore (next_bp bp pt) (next_pt pt)) F1 (F1, D1)).
    { apply (oRfd_ext wn hn V _ _ _ _ Hpost). intros x y Hin. apply oPafter_next. exact Hpt. }
    destruct (IH (next_bp bp pt) (next_pt pt) (i + 1) F1 D1 Hc H6' ltac:(lia) Hnext) as (D' & Edr & Hfin).
    exists D'. split; [|exact Hfin].
    unfold ideal_pre. cbn [fst snd obind].
    obind_step Ed. cbn [obind fst snd]. unfold ideal_post. cbn [fst obind].
    exact Edr.
Qed.

Lemma ofinal_P_last : forall pl bp pt, chain bp pt pl -> pl <> [] -> forall F x y,
  ofinal_P bp pt pl F x y = oPafter (fst (last pl (0, 0))) (snd (last pl (0, 0))) F x y.
Proof.
  induction pl as [|[b p] r IH]; intros bp pt Hc Hne F x y; [congruence|].
  cbn [chain] in Hc. destruct Hc as (-> & -> & Hbp & Hpt & Hc).
  destruct r as [|a2 r'].
  - cbn [ofinal_P last fst snd]. apply oPafter_next. exact Hpt.
  - change (ofinal_P bp pt ((bp, pt) :: a2 :: r') F x y)
      with (ofinal_P (next_bp bp pt) (next_pt pt) (a2 :: r') F x y).
    rewrite (IH _ _ Hc ltac:(discriminate)). reflexivity.
Qed.

End Block.

(* =====================================================================================
   The ideal-channel theorem
   ===================================================================================== *)
Theorem oj_ideal_lockstep : forall (wn hn : nat) (orient style : Z) (data : list Z),
  Z.land style CblkStyleLazy = 0 ->
  length data = (wn * hn)%nat -> data_ok data ->
  let maxbp := find_max_bitplane data in
  6 <= maxbp ->
  let NP := 3 * (maxbp - 6 + 1) - 2 in
  let syms := enc_passes wn hn orient style maxbp (pad_data wn hn data) (pass_list maxbp 6 NP) true Leaf in
  exists st,
    dec_passes ideal_ask ideal_pre ideal_post wn hn orient style (maxbp - 5) true
               (pass_list (maxbp - 5) 0 NP) 0 ((Leaf, Leaf), ([], syms)) = Ok (st, ([], [])) /\
    forall x y, 0 <= x < Z.of_nat wn -> 0 <= y < Z.of_nat hn ->
      exists sg sn, osamp_ok (nth (Z.to_nat (y * Z.of_nat wn + x)) data 0) sg sn
                             (fget (snd st) (idx_of (Z.of_nat wn) x y)) 6.
Proof.
  intros wn hn orient style data Hlazy Hlen Hok maxbp H6 NP syms.
  unfold syms; clear syms. unfold NP; clear NP.
  rewrite (pass_list_dec_shift5 maxbp H6).
  set (V := pad_data wn hn data).
  assert (HVget : forall x y, 0 <= x < Z.of_nat wn -> 0 <= y < Z.of_nat hn ->
            fget V (idx_of (Z.of_nat wn) x y) = nth (Z.to_nat (y * Z.of_nat wn + x)) data 0).
  { intros. apply pad_data_get; assumption. }
  assert (HVin : forall x y, 0 <= x < Z.of_nat wn -> 0 <= y < Z.of_nat hn ->
            In (fget V (idx_of (Z.of_nat wn) x y)) data).
  { intros x y Hx Hy. rewrite HVget by assumption. apply nth_In. rewrite Hlen. nia. }
  assert (HV : Vbound (Z.of_nat wn) (Z.of_nat hn) V).
  { intros x y [Hx Hy]. apply Hok. apply HVin; assumption. }
  pose proof (find_max_bitplane_spec data Hok) as Hspec. cbv zeta in Hspec. fold maxbp in Hspec.
  destruct Hspec as [[Hm1 _]|[Hmb Hhigh]]; [lia|].
  remember (pass_list maxbp 6 (3 * (maxbp - 6 + 1) - 2)) as pl eqn:Epl0.
  assert (Hall6 : Forall (fun q => 6 <= fst q) pl).
  { apply Forall_forall. intros q Hq. rewrite Epl0 in Hq. apply pass_list_bp_ge' in Hq. exact Hq. }
  assert (Hpl : pl = all_passes maxbp 6) by (rewrite Epl0; apply pass_list_complete; lia).
  assert (Hchain : chain maxbp 2 pl) by (rewrite Hpl; apply chain_all_passes; lia).
  assert (Hlast : last pl (0, 0) = (6, 2)) by (rewrite Hpl; apply all_passes_last; lia).
  clear Epl0.
  destruct pl as [|[b p] r]; [unfold all_passes in Hpl; discriminate|].
  pose proof Hchain as Hchain2.
  cbn [chain] in Hchain. destruct Hchain as (Eb & Ep & _ & _ & Hc). subst b p.
  change (next_pt 2) with 0 in Hc. unfold next_bp in Hc. change (2 =? 2) with true in Hc. cbv iota in Hc.
  pose proof (Forall_inv_tail Hall6) as Hall6'.
  cbn [shift5 dec_passes enc_passes].
  change (0 =? 0) with true. change (start_bitplane 2 true) with true. cbv iota.
  change (clear_visit Leaf) with Leaf.
  rewrite (nolazy_raw' style maxbp maxbp 2 Hlazy), (nolazy_raw' style (maxbp - 5) (maxbp - 5) 2 Hlazy).
  assert (Hinit : ORfd (Z.of_nat wn) (Z.of_nat hn) V (oPmid wn maxbp) Leaf (Leaf, Leaf)).
  { split; [reflexivity|]. cbn [snd]. intros x y [Hx Hy]. unfold oPmid, sigb, sgnb, visb.
    rewrite !fget_leaf. change (has 0 T1Sig) with false. change (has 0 T1Sign) with false.
    change (has 0 T1Visit) with false. cbn [orb]. unfold osamp_ok.
    repeat split. apply Hhigh. apply HVin; assumption. }
  destruct (enc_pass wn hn orient style maxbp 2 false V Leaf) as [F1 o] eqn:Ee.
  set (RS := enc_passes wn hn orient style maxbp V r false F1).
  destruct (opass_lockstep_gen wn hn V orient style maxbp 2 false Leaf Leaf (oPmid wn maxbp) (oPdone maxbp) [] RS
              (ocup_pass_lockstep wn hn V orient style HV maxbp false ltac:(lia)) Hinit) as (D1 & Ed & Hpost).
  rewrite Ee in Ed, Hpost. cbn [fst snd] in Ed, Hpost. rewrite app_nil_r in Ed.
  assert (Hnext : ORfd (Z.of_nat wn) (Z.of_nat hn) V (oPbefore wn (maxbp - 1) 0) F1 (F1, D1)).
  { apply (oRfd_ext wn hn V _ _ _ _ Hpost). intros x y Hin. unfold oPbefore, oPdone. cbn. lia. }
  destruct (orest_lockstep wn hn V orient style maxbp (maxbp - 5) HV Hlazy r (maxbp - 1) 0 1 F1 D1 Hc Hall6' ltac:(lia) Hnext)
    as (D' & Edr & Hfin).
  exists (enc_final_flags wn hn orient style maxbp V r false F1, D').
  split.
  - unfold ideal_pre. cbn [fst snd obind].
    obind_step Ed. cbn [obind fst snd]. unfold ideal_post. cbn [fst obind].
    change (0 + 1) with 1. exact Edr.
  - intros x y Hx Hy. destruct Hfin as [_ HI]. cbn [snd] in HI.
    specialize (HI x y (conj Hx Hy)).
    pose proof (ofinal_P_last wn hn ((maxbp, 2) :: r) maxbp 2 Hchain2 ltac:(discriminate)
                  (enc_final_flags wn hn orient style maxbp V r false F1) x y) as HP.
    cbn [ofinal_P] in HP. change (next_pt 2) with 0 in HP. unfold next_bp in HP at 1.
    change (2 =? 2) with true in HP. cbv iota in HP. rewrite HP in HI.
    rewrite Hlast in HI. cbn [fst snd] in HI. unfold oPafter in HI.
    change (2 =? 0) with false in HI. change (2 =? 1) with false in HI. cbv beta iota in HI.
    rewrite <- HVget by assumption. cbn [snd]. eexists _, _. exact HI.
Qed.
