(* gatherCBData (tile_decoder.go) when every (resolution, globalCodeBlockIndex) key is written at
   most once (one quality layer) and every code-block entry of a packet is included: the entry
   of every written key is, in ALL fields of cbinfo, the one built from that single contribution,
   and no other key is touched.  (T2ProofsGather.gather_delivers covers several layers but only
   the observation (ci_data, ci_passes).) *)
From V Require Import Common.Base T2.T2TagTree T2.T2Header T2.T2Packets T2.T2ProofsPackets1 T2.T2ProofsPackets2 T2.T2ProofsGather.
From V Require Import T2.T2ProofsBio T2.T2ProofsCodes.

(* the entry a fresh key gets from one included code-block contribution *)
Definition ci_of (i : dincl) (d : list Z) : cbinfo :=
  {| ci_data := d; ci_passes := di_np i;
     ci_zbp := if 0 <=? di_zbp i then di_zbp i else 0;
     ci_zbpset := 0 <=? di_zbp i;
     ci_pl := if 0 <? zlen (di_pl i) then Some (cum_from 0 (di_pl i)) else None;
     ci_termall := di_termall i |}.

(* the keys a packet of component comp writes *)
Definition pkt_keys (comp : Z) (order : Z -> Z -> option (list Z)) (dp : dpacket) : list (Z * Z) :=
  let '(l, r, c, p) := dp_item dp in
  if c =? comp then match order r p with Some ord => map (fun g => (r, g)) ord | None => [] end else [].

(* a packet of component comp: its precinct has a code-block order of the same length as the
   packet's entry list, every entry is included, the body is the concatenation of the data *)
Definition pkt_full (comp : Z) (order : Z -> Z -> option (list Z)) (dp : dpacket) : Prop :=
  let '(l, r, c, p) := dp_item dp in
  c = comp -> exists ord, order r p = Some ord /\ length ord = length (dp_incls dp) /\
                Forall (fun t => t_inc t = true) (dp_incls dp) /\ dp_wf dp.

(* ---------- small facts ---------- *)

Lemma znth_of_nat : forall (l : list Z) j, znth l (Z.of_nat j) 0 = nth j l 0.
Proof.
  intros l j. unfold znth. destruct (Z.ltb_spec (Z.of_nat j) 0) as [Hn|Hn]; [lia|].
  rewrite Nat2Z.id. reflexivity.
Qed.

Lemma zlen_le0_nil : forall (d : list Z), zlen d <= 0 -> d = [].
Proof.
  intros [|x l] H; [reflexivity|]. rewrite zlen_cons in H. pose proof (zlen_nonneg l). lia.
Qed.

Lemma nodup_app_parts : forall {A} (a b : list A), NoDup (a ++ b) ->
  NoDup a /\ NoDup b /\ (forall x, In x a -> ~ In x b).
Proof.
  intros A a b. induction a as [|x a IH]; intros H; cbn [app] in H.
  - split; [constructor|]. split; [exact H|]. intros x [].
  - inversion H as [|x' l' Hnin Hnd]; subst x' l'. destruct (IH Hnd) as [Ha [Hb Hd]].
    split; [constructor; [intros Hin; apply Hnin; apply in_or_app; left; exact Hin | exact Ha]|].
    split; [exact Hb|]. intros y [Hy|Hy] Hyb.
    + subst y. apply Hnin. apply in_or_app. right. exact Hyb.
    + exact (Hd y Hy Hyb).
Qed.

(* ---------- the CodeBlockIncls loop of one packet, all entries included, fresh keys ---------- *)

Lemma gather_incls_once : forall (ts : list trip) (m : list ((Z * Z) * cbinfo)) r cbOrder cbIdx pre post,
  Forall trip_wf ts -> Forall (fun t => t_inc t = true) ts -> NoDup cbOrder ->
  0 <= cbIdx -> cbIdx + zlen ts <= zlen cbOrder ->
  (forall j, 0 <= j < zlen ts -> aget key2_eqb m (r, znth cbOrder (cbIdx + j) 0) = None) ->
  let body := pre ++ flat_map t_data ts ++ post in
  let m' := gather_incls m r cbOrder body (map (fun t => fst (fst t)) ts) cbIdx (zlen pre) in
  (forall j t, nth_error ts j = Some t ->
     aget key2_eqb m' (r, znth cbOrder (cbIdx + Z.of_nat j) 0) = Some (ci_of (fst (fst t)) (t_data t))) /\
  (forall key, (forall j, 0 <= j < zlen ts -> key <> (r, znth cbOrder (cbIdx + j) 0)) ->
     aget key2_eqb m' key = aget key2_eqb m key).
Proof.
  induction ts as [|t ts IH]; intros m r cbOrder cbIdx pre post Hwf Hall Hnd Hc Hlen Habs body m'.
  - subst m'. cbn [map gather_incls]. split; [intros j t H; destruct j; discriminate | intros; reflexivity].
  - pose proof (Forall_inv Hwf) as [Hw1 _]. pose proof (Forall_inv_tail Hwf) as Hwf'.
    pose proof (Forall_inv Hall) as Einc. pose proof (Forall_inv_tail Hall) as Hall'.
    cbv beta in Einc.
    rewrite zlen_cons in Hlen. pose proof (zlen_nonneg ts) as Hts.
    assert (Habs' : forall j, 0 <= j < zlen ts + 1 -> aget key2_eqb m (r, znth cbOrder (cbIdx + j) 0) = None)
      by (intros j Hj; apply Habs; rewrite zlen_cons; exact Hj).
    subst m' body. cbn [map gather_incls flat_map].
    set (key0 := (r, znth cbOrder cbIdx 0)).
    assert (Hkeys : forall j, 0 <= j < zlen ts -> (r, znth cbOrder (cbIdx + 1 + j) 0) <> key0).
    { intros j Hj E. unfold key0 in E.
      assert (E2 : znth cbOrder (cbIdx + 1 + j) 0 = znth cbOrder cbIdx 0) by congruence.
      revert E2. apply znth_nodup; try assumption; lia. }
    assert (Hnone : aget key2_eqb m key0 = None).
    { unfold key0. rewrite <- (Z.add_0_r cbIdx). apply Habs'. lia. }
    change (di_included (fst (fst t))) with (t_inc t). rewrite Einc. cbn [negb].
    destruct (Z.geb_spec cbIdx (zlen cbOrder)) as [Hge|Hlt]; [lia|].
    specialize (Hw1 Einc). rewrite Hw1.
    set (cbData := if (0 <? zlen (t_data t)) && (zlen pre + zlen (t_data t) <=? zlen (pre ++ (t_data t ++ flat_map t_data ts) ++ post))
                   then firstn (Z.to_nat (zlen (t_data t))) (skipn (Z.to_nat (zlen pre)) (pre ++ (t_data t ++ flat_map t_data ts) ++ post))
                   else []).
    assert (Hcb : cbData = t_data t).
    { unfold cbData. destruct (Z.ltb_spec 0 (zlen (t_data t))) as [Hp|Hz]; cbn [andb].
      - rewrite !zlen_app. pose proof (zlen_nonneg (flat_map t_data ts)). pose proof (zlen_nonneg post).
        destruct (Z.leb_spec (zlen pre + zlen (t_data t)) (zlen pre + (zlen (t_data t) + zlen (flat_map t_data ts) + zlen post))); [|lia].
        rewrite <- app_assoc. apply firstn_skipn_app.
      - symmetry. apply zlen_le0_nil. exact Hz. }
    fold key0. rewrite Hnone.
    match goal with |- context [gather_incls (aset key2_eqb m key0 ?e) _ _ _ _ _ _] => set (ex' := e) end.
    assert (Hex : ex' = ci_of (fst (fst t)) (t_data t)).
    { unfold ex', ci_of. fold cbData. rewrite Hcb.
      cbn [cbinfo_zero ci_data ci_passes ci_zbp ci_zbpset ci_pl ci_termall negb andb orb].
      change (zlen (@nil Z)) with 0. change (0 <? 0) with false. cbv iota.
      rewrite Z.add_0_l.
      destruct (0 <=? di_zbp (fst (fst t))); reflexivity. }
    replace (pre ++ (t_data t ++ flat_map t_data ts) ++ post) with ((pre ++ t_data t) ++ flat_map t_data ts ++ post)
      by (rewrite <- !app_assoc; reflexivity).
    replace (zlen pre + zlen (t_data t)) with (zlen (pre ++ t_data t)) by (rewrite zlen_app; reflexivity).
    assert (Habs1 : forall j, 0 <= j < zlen ts ->
              aget key2_eqb (aset key2_eqb m key0 ex') (r, znth cbOrder (cbIdx + 1 + j) 0) = None).
    { intros j Hj. rewrite aget2_aset_other by (intros E; apply (Hkeys j Hj); symmetry; exact E).
      replace (cbIdx + 1 + j) with (cbIdx + (j + 1)) by lia. apply Habs'. lia. }
    destruct (IH (aset key2_eqb m key0 ex') r cbOrder (cbIdx + 1) (pre ++ t_data t) post Hwf' Hall' Hnd
                 ltac:(lia) ltac:(lia) Habs1) as [IH1 IH2].
    split.
    + intros j t' Hj. destruct j as [|j]; cbn [nth_error] in Hj.
      * inversion Hj; subst t'. change (Z.of_nat 0) with 0. rewrite Z.add_0_r. fold key0.
        rewrite IH2 by (intros j Hj' E; apply (Hkeys j Hj'); symmetry; exact E).
        rewrite aget2_aset_same. rewrite Hex. reflexivity.
      * replace (cbIdx + Z.of_nat (S j)) with (cbIdx + 1 + Z.of_nat j) by lia.
        exact (IH1 j t' Hj).
    + intros key Hkey0.
      assert (Hkey : forall j, 0 <= j < zlen ts + 1 -> key <> (r, znth cbOrder (cbIdx + j) 0))
        by (intros j Hj; apply Hkey0; rewrite zlen_cons; exact Hj).
      rewrite IH2.
      * apply aget2_aset_other. intros E. apply (Hkey 0 ltac:(lia)). rewrite Z.add_0_r. symmetry. exact E.
      * intros j Hj. replace (cbIdx + 1 + j) with (cbIdx + (j + 1)) by lia. apply Hkey. lia.
Qed.

(* one whole packet: cbIdx = 0, dataOffset = 0, body = the concatenated data *)
Lemma gather_incls_packet : forall (ts : list trip) (m : list ((Z * Z) * cbinfo)) r ord,
  Forall trip_wf ts -> Forall (fun t => t_inc t = true) ts -> NoDup ord -> length ord = length ts ->
  (forall g, In g ord -> aget key2_eqb m (r, g) = None) ->
  let m' := gather_incls m r ord (flat_map t_data ts) (map (fun t => fst (fst t)) ts) 0 0 in
  (forall j t, nth_error ts j = Some t ->
     aget key2_eqb m' (r, nth j ord 0) = Some (ci_of (fst (fst t)) (t_data t))) /\
  (forall key, ~ In key (map (fun g => (r, g)) ord) -> aget key2_eqb m' key = aget key2_eqb m key).
Proof.
  intros ts m r ord Hwf Hall Hnd Hlen Habs m'.
  assert (Hzl : zlen ts = zlen ord) by (unfold zlen; rewrite Hlen; reflexivity).
  assert (Hin : forall j, 0 <= j < zlen ts -> In (znth ord (0 + j) 0) ord).
  { intros j Hj. rewrite Z.add_0_l. replace j with (Z.of_nat (Z.to_nat j)) by lia.
    rewrite znth_of_nat. apply nth_In. unfold zlen in *. lia. }
  destruct (gather_incls_once ts m r ord 0 [] [] Hwf Hall Hnd ltac:(lia) ltac:(lia)
              ltac:(intros j Hj; apply Habs; apply Hin; exact Hj)) as [G1 G2].
  cbn [app] in G1, G2. rewrite app_nil_r in G1, G2. change (zlen (@nil Z)) with 0 in G1, G2.
  fold m' in G1, G2. split.
  - intros j t Hj. rewrite <- znth_of_nat. rewrite <- (Z.add_0_l (Z.of_nat j)). exact (G1 j t Hj).
  - intros key Hkey. apply G2. intros j Hj E. apply Hkey. rewrite E.
    apply (in_map (fun g => (r, g))). apply Hin. exact Hj.
Qed.

(* ---------- all packets of a component ---------- *)

Lemma pkt_keys_item : forall comp order dp l r c p, dp_item dp = (l, r, c, p) ->
  pkt_keys comp order dp =
  if c =? comp then match order r p with Some ord => map (fun g => (r, g)) ord | None => [] end else [].
Proof. intros comp order dp l r c p E. unfold pkt_keys. rewrite E. reflexivity. Qed.

Theorem gather_once : forall comp order dps m,
  Forall (pkt_full comp order) dps ->
  NoDup (flat_map (pkt_keys comp order) dps) ->
  (forall k, In k (flat_map (pkt_keys comp order) dps) -> aget key2_eqb m k = None) ->
  (forall dp l r p ord j t, In dp dps -> dp_item dp = (l, r, comp, p) -> order r p = Some ord ->
     nth_error (dp_incls dp) j = Some t ->
     aget key2_eqb (gather comp order m dps) (r, nth j ord 0) = Some (ci_of (fst (fst t)) (t_data t))) /\
  (forall k, ~ In k (flat_map (pkt_keys comp order) dps) ->
     aget key2_eqb (gather comp order m dps) k = aget key2_eqb m k).
Proof.
  intros comp order dps. induction dps as [|dp dps IH]; intros m Hfull Hnd Habs.
  - split; [intros dp l r p ord j t [] | intros k _; reflexivity].
  - pose proof (Forall_inv Hfull) as Hf. pose proof (Forall_inv_tail Hfull) as Hfull'.
    cbn [flat_map] in Hnd, Habs |- *.
    destruct (nodup_app_parts _ _ Hnd) as [Hnd1 [Hnd2 Hdisj]].
    cbn [gather]. unfold pkt_full in Hf.
    destruct (dp_item dp) as [[[l0 r0] c0] p0] eqn:Eit.
    rewrite (pkt_keys_item comp order dp l0 r0 c0 p0 Eit) in Hnd1, Hdisj, Habs |- *.
    destruct (Z.eqb_spec c0 comp) as [Ec|Ec]; cbn [negb].
    + subst c0. destruct (Hf eq_refl) as [ord0 [Eo [Hlen [Hall [Hw Hb]]]]]. clear Hf.
      rewrite Eo in Hnd1, Hdisj, Habs |- *. rewrite Hb.
      assert (Hndo : NoDup ord0) by (apply (NoDup_map_inv (fun g => (r0, g))); exact Hnd1).
      destruct (gather_incls_packet (dp_incls dp) m r0 ord0 Hw Hall Hndo Hlen
                  ltac:(intros g Hg; apply Habs; apply in_or_app; left; apply (in_map (fun g => (r0, g))); exact Hg))
        as [G1 G2].
      set (m1 := gather_incls m r0 ord0 (flat_map t_data (dp_incls dp)) (map (fun x => fst (fst x)) (dp_incls dp)) 0 0) in *.
      assert (Habs1 : forall k, In k (flat_map (pkt_keys comp order) dps) -> aget key2_eqb m1 k = None).
      { intros k Hk. rewrite G2 by (intros Hk0; exact (Hdisj k Hk0 Hk)).
        apply Habs. apply in_or_app. right. exact Hk. }
      destruct (IH m1 Hfull' Hnd2 Habs1) as [I1 I2].
      split.
      * intros dp' l r p ord j t [Hin|Hin] Eit' Eo' Hj.
        -- subst dp'. rewrite Eit in Eit'. assert (r0 = r /\ p0 = p) as [-> ->] by (split; congruence).
           rewrite Eo in Eo'. assert (ord0 = ord) by congruence. subst ord0.
           assert (Hjl : (j < length ord)%nat) by (rewrite Hlen; apply nth_error_Some; congruence).
           rewrite I2; [exact (G1 j t Hj)|].
           apply Hdisj. apply (in_map (fun g => (r, g))). apply nth_In. exact Hjl.
        -- exact (I1 dp' l r p ord j t Hin Eit' Eo' Hj).
      * intros k Hk. rewrite I2 by (intros Hk2; apply Hk; apply in_or_app; right; exact Hk2).
        apply G2. intros Hk1. apply Hk. apply in_or_app. left. exact Hk1.
    + cbn [app] in Habs |- *.
      destruct (IH m Hfull' Hnd2 Habs) as [I1 I2]. split.
      * intros dp' l r p ord j t [Hin|Hin] Eit' Eo' Hj.
        -- subst dp'. rewrite Eit in Eit'. exfalso. apply Ec. congruence.
        -- exact (I1 dp' l r p ord j t Hin Eit' Eo' Hj).
      * exact I2.
Qed.

Print Assumptions gather_once.
