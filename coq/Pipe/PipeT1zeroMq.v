(* The MQ decoder on the code value "all ones" (bytes FF 7F followed by the 0xFF sentinel for
   ever): with contexts whose MPS is 0 and whose state has Qe <= 0x4000, every decision is the
   MPS 0, without conditional exchange, and the register relation
       c = a * 2^16 - 2^(16 - ct)
   is stable.  Used by PipeT1zeroThm.v (the all-zero code-block through the tile decoder). *)
From V Require Import Common.Base MQ.MqModel MQ.MqProofs.

(* context bytes (state | mps<<7) reachable from the initial states 3 (run-length context) and
   4 (zero-coding context 0) by MPS transitions; MPS = 0 *)
Definition zs_list : list Z := [3; 4; 5; 38; 39; 40; 41; 42; 43; 44; 45].
Definition zs_in (v : Z) : bool := existsb (Z.eqb v) zs_list.

Definition zs_fact_b (v : Z) : bool :=
  (0 <=? cx_state v) && (cx_state v <? 47) && (cx_mps v =? 0) && (0 <? tbl_qe (cx_state v)) &&
  (tbl_qe (cx_state v) <=? 0x4000) && zs_in (cx_after_mps v).

Lemma zs_facts_all : forallb zs_fact_b zs_list = true.
Proof. vm_compute. reflexivity. Qed.

Lemma zs_facts : forall v, zs_in v = true ->
  0 <= cx_state v < 47 /\ cx_mps v = 0 /\ 0 < tbl_qe (cx_state v) <= 16384 /\ zs_in (cx_after_mps v) = true.
Proof.
  intros v H. unfold zs_in in H. apply existsb_exists in H. destruct H as (x & Hin & E).
  apply Z.eqb_eq in E. subst x.
  pose proof (proj1 (forallb_forall zs_fact_b zs_list) zs_facts_all v Hin) as F.
  unfold zs_fact_b in F. change 0x4000 with 16384 in F.
  repeat (apply andb_true_iff in F; destruct F as [F ?]).
  repeat match goal with
  | H : (_ <=? _) = true |- _ => apply Z.leb_le in H
  | H : (_ <? _) = true |- _ => apply Z.ltb_lt in H
  | H : (_ =? _) = true |- _ => apply Z.eqb_eq in H
  end.
  repeat split; assumption.
Qed.

(* ---------- lists ---------- *)
Lemma zq_nth_upd_nat : forall l n m v, (n < length l)%nat ->
  nth m (upd_nat l n v) 0 = if Nat.eqb n m then v else nth m l 0.
Proof.
  induction l as [|x l IH]; intros n m v Hn; [simpl in Hn; lia|].
  destruct n as [|n]; destruct m as [|m]; cbn [upd_nat nth Nat.eqb]; try reflexivity.
  apply IH. simpl in Hn. lia.
Qed.

Lemma zq_znth_upd : forall l i j v, 0 <= i < zlen l -> 0 <= j ->
  znth (upd l i v) j 0 = if i =? j then v else znth l j 0.
Proof.
  intros l i j v Hi Hj. unfold znth, upd, zlen in *.
  destruct (Z.ltb_spec i 0); [lia|]. destruct (Z.ltb_spec j 0); [lia|].
  rewrite zq_nth_upd_nat by lia.
  destruct (Z.eqb_spec i j) as [E|E].
  - subst. rewrite Nat.eqb_refl. reflexivity.
  - replace (Nat.eqb (Z.to_nat i) (Z.to_nat j)) with false; [reflexivity|].
    symmetry. apply Nat.eqb_neq. lia.
Qed.

(* ---------- the invariant ---------- *)
(* read position: after NewMQDecoder the reader is on the byte 7F with ct = 0; the first bytein
   moves it to the first sentinel byte, where it stays for ever; both feed FF00 into c *)
Definition zpos (d : dec) : Prop :=
  (d_bp d = 2 /\ d_cur d = 255 /\ d_rest d = [255]) \/
  (d_bp d = 1 /\ d_cur d = 127 /\ d_rest d = [255; 255] /\ d_ct d = 0).

Definition zreg (d : dec) : Prop :=
  0 <= d_ct d <= 8 /\ d_c d = d_a d * 65536 - 2 ^ (16 - d_ct d) /\ d_dlen d = 4 /\ zpos d.

Definition zcx (cx : list Z) : Prop :=
  length cx = 19%nat /\ zs_in (znth cx 0 0) = true /\ zs_in (znth cx 17 0) = true.

Definition zinv (d : dec) : Prop := 32768 <= d_a d < 65536 /\ zreg d /\ zcx (d_cx d).

Lemma zq_pow_bounds : forall ct, 0 <= ct <= 8 -> 256 <= 2 ^ (16 - ct) <= 65536.
Proof.
  intros ct H. split.
  - change 256 with (2 ^ 8). apply Z.pow_le_mono_r; lia.
  - change 65536 with (2 ^ 16). apply Z.pow_le_mono_r; lia.
Qed.

Lemma zq_bytein : forall d, zreg d -> d_ct d = 0 -> 0 < d_a d < 65536 ->
  exists d', dec_bytein d = Ok d' /\ zreg d' /\ d_ct d' = 8 /\ d_a d' = d_a d /\ d_cx d' = d_cx d.
Proof.
  intros d (Hct & Hc & Hlen & Hpos) Hz Ha. unfold dec_bytein.
  rewrite Hz in Hc. change (2 ^ (16 - 0)) with 65536 in Hc.
  destruct Hpos as [(Hbp & Hcur & Hrest)|(Hbp & Hcur & Hrest & _)];
    rewrite Hbp, Hlen, Hrest, Hcur;
    cbn [Z.add Z.leb Z.ltb Z.compare Pos.compare Pos.compare_cont andb Z.eqb Pos.eqb Pos.add Pos.succ].
  - change (0x8F <? 255) with true. cbv iota.
    eexists. split; [reflexivity|]. unfold zreg, zpos. cbn [d_ct d_c d_a d_bp d_dlen d_cur d_rest d_cx].
    change (2 ^ (16 - 8)) with 256. change 0xFF00 with 65280.
    rewrite u32_small by (change (2 ^ 32) with 4294967296; lia).
    repeat split; try assumption; try lia. left. auto.
  - change (Z.shiftl 255 8) with 65280. change (u32 65280) with 65280.
    eexists. split; [reflexivity|]. unfold zreg, zpos. cbn [d_ct d_c d_a d_bp d_dlen d_cur d_rest d_cx].
    change (2 ^ (16 - 8)) with 256.
    rewrite u32_small by (change (2 ^ 32) with 4294967296; lia).
    repeat split; try assumption; try lia. left. auto.
Qed.

Lemma zq_renormd : forall fuel d, zreg d -> 0 < d_a d < 65536 -> 32768 <= d_a d * 2 ^ Z.of_nat fuel ->
  exists d', dec_renormd_fuel fuel d = Ok d' /\ zreg d' /\ 32768 <= d_a d' < 65536 /\ d_cx d' = d_cx d.
Proof.
  induction fuel as [|k IH]; intros d Hr Ha Hf.
  - cbn [dec_renormd_fuel]. change (2 ^ Z.of_nat 0) with 1 in Hf. change 0x8000 with 32768.
    destruct (Z.ltb_spec (d_a d) 32768); [lia|].
    exists d. split; [reflexivity|]. split; [exact Hr|]. split; [lia|reflexivity].
  - cbn [dec_renormd_fuel]. change 0x8000 with 32768.
    destruct (Z.ltb_spec (d_a d) 32768) as [Hlt|Hge];
      [|exists d; split; [reflexivity|]; split; [exact Hr|]; split; [lia|reflexivity]].
    assert (Hf' : 32768 <= d_a d * 2 * 2 ^ Z.of_nat k).
    { rewrite Nat2Z.inj_succ, Z.pow_succ_r in Hf by lia. lia. }
    assert (Hstep : forall d1, zreg d1 -> 1 <= d_ct d1 -> d_a d1 = d_a d -> d_cx d1 = d_cx d ->
      exists d', dec_renormd_fuel k
        (mkDec (u32 (Z.shiftl (d_a d1) 1)) (u32 (Z.shiftl (d_c d1) 1)) (d_ct d1 - 1)
               (d_eos d1) (d_bp d1) (d_dlen d1) (d_cur d1) (d_rest d1) (d_cx d1)) = Ok d' /\
        zreg d' /\ 32768 <= d_a d' < 65536 /\ d_cx d' = d_cx d).
    { intros d1 (Hct1 & Hc1 & Hlen1 & Hpos1) Hge1 Ea Ecx.
      pose proof (zq_pow_bounds (d_ct d1) Hct1) as Hp.
      assert (Hp2 : 2 ^ (16 - (d_ct d1 - 1)) = 2 * 2 ^ (16 - d_ct d1)).
      { replace (16 - (d_ct d1 - 1)) with (Z.succ (16 - d_ct d1)) by lia.
        apply Z.pow_succ_r. lia. }
      rewrite Ea. rewrite (shiftl_mul (d_a d)) by lia. rewrite (shiftl_mul (d_c d1)) by lia.
      change (2 ^ 1) with 2.
      rewrite (u32_small (d_a d * 2)) by (change (2 ^ 32) with 4294967296; lia).
      rewrite (u32_small (d_c d1 * 2)) by (change (2 ^ 32) with 4294967296; rewrite Hc1, Ea; lia).
      match goal with |- exists d', dec_renormd_fuel k ?X = _ /\ _ =>
        destruct (IH X) as (d' & E & Hw & Ha' & Hcx') end.
      - unfold zreg, zpos. cbn [d_ct d_c d_a d_bp d_dlen d_cur d_rest].
        split; [lia|]. split; [rewrite Hp2, Hc1, Ea; lia|]. split; [exact Hlen1|].
        destruct Hpos1 as [H|(_ & _ & _ & H)]; [left; exact H|lia].
      - cbn [d_a]. lia.
      - cbn [d_a]. exact Hf'.
      - exists d'. cbn [d_cx] in Hcx'. split; [exact E|]. split; [exact Hw|]. split; [exact Ha'|congruence]. }
    destruct (Z.eqb_spec (d_ct d) 0) as [Hz|Hnz].
    + destruct (zq_bytein d Hr Hz Ha) as (d1 & E1 & Hr1 & Hct1 & Ea1 & Ecx1).
      rewrite E1. cbn [obind]. apply Hstep; try assumption. lia.
    + cbn [obind]. apply Hstep; auto. destruct Hr as (Hct & _). lia.
Qed.

Lemma zq_zcx_upd : forall cx ctx v, zcx cx -> (ctx = 0 \/ ctx = 17) -> zs_in v = true -> zcx (upd cx ctx v).
Proof.
  intros cx ctx v (Hl & H0 & H17) Hctx Hv. unfold zcx. rewrite upd_length.
  split; [exact Hl|].
  rewrite !zq_znth_upd by (unfold zlen; lia).
  destruct Hctx; subst ctx; cbn [Z.eqb Pos.eqb]; auto.
Qed.

(* the step: the decision is 0 and the invariant is kept *)
Lemma zq_decode : forall d ctx, zinv d -> (ctx = 0 \/ ctx = 17) ->
  exists d', dec_decode d ctx = Ok (d', 0) /\ zinv d'.
Proof.
  intros d ctx (Ha & Hr & Hcx) Hctx. unfold dec_decode.
  set (cxv := znth (d_cx d) ctx 0).
  assert (Hin : zs_in cxv = true).
  { destruct Hcx as (_ & H0 & H17). unfold cxv. destruct Hctx; subst ctx; assumption. }
  destruct (zs_facts cxv Hin) as (Hst & Hmps & Hqe & Hnext).
  replace (ctx_in_range (d_cx d) ctx && (cx_state cxv <? mq_nstates)) with true.
  2:{ symmetry. unfold ctx_in_range, mq_nstates, zlen. destruct Hcx as (Hl & _). rewrite Hl.
      apply andb_true_iff. split.
      - apply andb_true_iff. split; [apply Z.leb_le | apply Z.ltb_lt]; lia.
      - apply Z.ltb_lt. lia. }
  cbv zeta. set (qe := tbl_qe (cx_state cxv)) in *. rewrite Hmps.
  change 0x8000 with 32768.
  pose proof Hr as (Hct & Hc & Hlen & Hpos).
  pose proof (zq_pow_bounds (d_ct d) Hct) as Hp.
  assert (Hhigh : Z.shiftr (d_c d) 16 = d_a d - 1).
  { rewrite shiftr_div by lia. change (2 ^ 16) with 65536. rewrite Hc.
    symmetry. apply (Z.div_unique _ 65536 (d_a d - 1) (65536 - 2 ^ (16 - d_ct d))); lia. }
  rewrite Hhigh.
  destruct (Z.ltb_spec (d_a d - 1) qe) as [Hbad|_]; [lia|].
  rewrite (u32_small (d_a d - qe)) by (change (2 ^ 32) with 4294967296; lia).
  rewrite (shiftl_mul qe 16) by lia. change (2 ^ 16) with 65536.
  rewrite (u32_small (qe * 65536)) by (change (2 ^ 32) with 4294967296; lia).
  rewrite (u32_small (d_c d - qe * 65536)) by (change (2 ^ 32) with 4294967296; rewrite Hc; lia).
  change 32768 with (2 ^ 15) at 1.
  rewrite (land_pow2_eqb (d_a d - qe) 15) by (change (2 ^ (15 + 1)) with 65536; lia).
  change (2 ^ 15) with 32768.
  destruct (Z.ltb_spec (d_a d - qe) 32768) as [Hlt|Hge]; cbn [negb].
  - destruct (Z.ltb_spec (d_a d - qe) qe) as [Hbad|_]; [lia|].
    destruct (zq_renormd 16 (dec_set_acx d (d_a d - qe) (d_c d - qe * 65536) (upd (d_cx d) ctx (cx_after_mps cxv))))
      as (d' & E & Hr' & Ha' & Ecx').
    + unfold zreg, zpos, dec_set_acx. cbn [d_ct d_c d_a d_bp d_dlen d_cur d_rest].
      split; [lia|]. split; [rewrite Hc; lia|]. auto.
    + cbn [dec_set_acx d_a]. lia.
    + cbn [dec_set_acx d_a]. change (2 ^ Z.of_nat 16) with 65536. lia.
    + unfold dec_renormd. rewrite E. cbn [obind]. exists d'. split; [reflexivity|].
      split; [exact Ha'|]. split; [exact Hr'|].
      rewrite Ecx'. cbn [dec_set_acx d_cx]. apply zq_zcx_upd; assumption.
  - eexists. split; [reflexivity|]. unfold zinv, zreg, zpos, dec_set_acx.
    cbn [d_ct d_c d_a d_bp d_dlen d_cur d_rest d_cx].
    split; [lia|]. split; [|exact Hcx].
    split; [lia|]. split; [rewrite Hc; lia|]. auto.
Qed.
