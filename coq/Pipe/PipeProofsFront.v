(* pipe, part 1: the sample front end and back end.
   pipe_front on the packed samples succeeds with nc planes of w*h values, every value bounded
   by 2^P in absolute value (2^(P-1) without RCT), and pipe_back of these planes is the packed
   image again.  Chains GeoProofsPixels.pixel_roundtrip, GeoProofsSamples.dc_shift_range and
   RCTProofs.rct_list_inverse (int32 range lemma in28). *)
From V Require Import Common.Base J2K.RCT J2K.RCTProofs J2KGeo.GeoModel J2KGeo.GeoProofsSamples
  J2KGeo.GeoProofsPixels J2KGeo.GeoProofsBlocks Pipe.PipeModel.

Definition pow2_size (v : Z) : Prop := v = 4 \/ v = 8 \/ v = 16 \/ v = 32 \/ v = 64.

(* the parameter tuples in scope *)
Definition pp_scope (p : pparams) : Prop :=
  1 <= pp_w p <= 32768 /\ 1 <= pp_h p <= 32768 /\ 1 <= pp_nc p <= 4 /\ 1 <= pp_prec p <= 16 /\
  0 <= pp_levels p <= 6 /\ pow2_size (pp_cbw p) /\ pow2_size (pp_cbh p) /\ pp_cbw p * pp_cbh p <= 4096 /\
  0 <= pp_order p <= 4 /\
  (* the tile's origin on the reference grid and the image width *)
  0 <= pp_x0 p /\ 0 <= pp_y0 p /\ pp_x0 p + pp_w p <= 32768 /\ pp_y0 p + pp_h p <= 32768 /\ 1 <= pp_iw p <= 32768.

Definition samples_ok (p : pparams) (samples : list Z) : Prop :=
  zlen samples = pp_w p * pp_h p * pp_nc p /\ Forall (in_sample_range (pp_prec p) (pp_signed p)) samples.

Definition pack_image (p : pparams) (samples : list Z) : list Z := flat_map (pack_sample (pp_prec p)) samples.

(* nc planes of w*h values bounded by B *)
Definition planes_ok (p : pparams) (B : Z) (planes : list (list Z)) : Prop :=
  length planes = Z.to_nat (pp_nc p) /\
  Forall (fun pl => length pl = Z.to_nat (pp_w p * pp_h p) /\ Forall (fun v => - B <= v <= B) pl) planes.

Lemma zip3_maps : forall (l : list (Z * Z * Z)),
  zip3 (map (fun t => fst (fst t)) l) (map (fun t => snd (fst t)) l) (map (fun t => snd t) l) = l.
Proof. induction l as [|[[a b] c] l IH]; cbn [map zip3 fst snd]; [reflexivity | rewrite IH; reflexivity]. Qed.

Lemma combine3_maps : forall (r g b : list Z), length r = length g -> length g = length b ->
  map (fun t : Z * Z * Z => fst (fst t)) (combine (combine r g) b) = r /\
  map (fun t : Z * Z * Z => snd (fst t)) (combine (combine r g) b) = g /\
  map (fun t : Z * Z * Z => snd t) (combine (combine r g) b) = b.
Proof.
  induction r as [|r0 r IH]; intros g b H1 H2.
  - destruct g; [|discriminate]. destruct b; [|discriminate]. repeat split; reflexivity.
  - destruct g as [|g0 g]; [discriminate|]. destruct b as [|b0 b]; [discriminate|].
    cbn [combine map fst snd]. destruct (IH g b) as [A [B C]]; [simpl in *; lia | simpl in *; lia|].
    rewrite A, B, C. repeat split; reflexivity.
Qed.

Lemma rct_fwd_list_length : forall r g b, length r = length g -> length g = length b ->
  length (rct_fwd_list r g b) = length r.
Proof.
  induction r as [|r0 r IH]; intros g b H1 H2; [reflexivity|].
  destruct g as [|g0 g]; [discriminate|]. destruct b as [|b0 b]; [discriminate|].
  cbn [rct_fwd_list length]. rewrite IH; simpl in *; lia.
Qed.

(* RCT output range: |y| <= A, |cb|, |cr| <= 2A for inputs bounded by A (A <= 2^27) *)
Lemma rct_fwd32_bound : forall A r g b, 0 <= A <= 2 ^ 27 -> - A <= r <= A -> - A <= g <= A -> - A <= b <= A ->
  let '(y, cb, cr) := rct_fwd32 r g b in - (2 * A) <= y <= 2 * A /\ - (2 * A) <= cb <= 2 * A /\ - (2 * A) <= cr <= 2 * A.
Proof.
  intros A r g b HA Hr Hg Hb. change (2 ^ 27) with 134217728 in HA.
  rewrite rct_fwd32_eq by (unfold in28; change (2 ^ 28) with 268435456; lia).
  unfold rct_fwd. rewrite Z.shiftr_div_pow2 by lia. change (2 ^ 2) with 4.
  pose proof (Z.div_mod (r + 2 * g + b) 4 ltac:(lia)). pose proof (Z.mod_pos_bound (r + 2 * g + b) 4 ltac:(lia)). lia.
Qed.

Lemma rct_fwd_list_bound : forall A r g b, 0 <= A <= 2 ^ 27 ->
  Forall (fun v => - A <= v <= A) r -> Forall (fun v => - A <= v <= A) g -> Forall (fun v => - A <= v <= A) b ->
  Forall (fun t : Z * Z * Z => (- (2 * A) <= fst (fst t) <= 2 * A) /\ (- (2 * A) <= snd (fst t) <= 2 * A) /\
                               (- (2 * A) <= snd t <= 2 * A)) (rct_fwd_list r g b).
Proof.
  intros A r. induction r as [|r0 r IH]; intros g b HA Fr Fg Fb; [constructor|].
  destruct g as [|g0 g]; [constructor|]. destruct b as [|b0 b]; [constructor|].
  inversion Fr; inversion Fg; inversion Fb; subst. cbn [rct_fwd_list]. constructor; [|apply IH; assumption].
  pose proof (rct_fwd32_bound A r0 g0 b0 HA ltac:(assumption) ltac:(assumption) ltac:(assumption)) as H.
  destruct (rct_fwd32 r0 g0 b0) as [[y cb] cr]. exact H.
Qed.

Lemma Forall_map_iff : forall {A B} (f : A -> B) (P : B -> Prop) l, Forall P (map f l) <-> Forall (fun a => P (f a)) l.
Proof. intros A B f P l. rewrite !Forall_forall. split; intros H x Hx; [apply H, in_map; exact Hx|]. apply in_map_iff in Hx as [a [<- Ha]]. apply H. exact Ha. Qed.

Section Front.
Variables (p : pparams) (samples : list Z).
Hypothesis Hsc : pp_scope p.
Hypothesis Hsm : samples_ok p samples.

Let P := pp_prec p.
Let sg := pp_signed p.
Let np := pp_w p * pp_h p.
Let nc := pp_nc p.

Lemma nth_zrange_map : forall {A} (F : Z -> A) n c d, 0 <= c < n -> nth (Z.to_nat c) (map F (zrange n)) d = F c.
Proof.
  intros A F n c d Hc. unfold zrange. rewrite map_map.
  rewrite (nth_map_seq A (fun k => F (Z.of_nat k)) (Z.to_nat n) (Z.to_nat c) d) by lia. f_equal. lia.
Qed.

(* the planes convertPixelData + applyDCLevelShift produce *)
Lemma shifted_planes : exists data,
  convert_pixel_data np nc P sg (pack_image p samples) = Ok data /\
  planes_ok p (2 ^ (P - 1)) (level_shift_all P sg data) /\
  get_pixel_data np nc P sg (level_unshift_all P sg (level_shift_all P sg data)) = pack_image p samples.
Proof.
  destruct Hsc as (Hw & Hh & Hnc & HP & _). destruct Hsm as [Hlen Hrng].
  assert (Hnp : 0 <= np) by (unfold np; nia).
  destruct (pixel_roundtrip P sg np nc samples HP Hnp ltac:(unfold nc; lia) ltac:(unfold np, nc; lia) Hrng)
    as [data [Ec [_ [Hent Hget]]]].
  exists data. split; [exact Ec|]. split; [|exact Hget].
  pose proof Ec as Ec'. unfold convert_pixel_data in Ec'.
  destruct (zlen (flat_map (pack_sample P) samples) <? np * nc * bytes_per_sample P); [discriminate|].
  assert (Ed := f_equal (fun o => match o with Ok x => x | _ => [] end) Ec'). cbv beta iota in Ed. clear Ec'.
  set (F := fun c : Z => map (fun i : Z =>
            let s := Z.to_nat (i * nc + c) in
            if P <=? 8 then enc_sample8 P sg (zn0 (flat_map (pack_sample P) samples) s)
            else enc_sample16 P sg (zn0 (flat_map (pack_sample P) samples) (2 * s))
                                   (zn0 (flat_map (pack_sample P) samples) (2 * s + 1))) (zrange np)) in Ed.
  assert (HFlen : forall c, length (F c) = Z.to_nat np)
    by (intros c; unfold F, zrange; rewrite !map_length, seq_length; reflexivity).
  unfold planes_ok. fold np nc P. split.
  - unfold level_shift_all. rewrite map_length, <- Ed, map_length. unfold zrange. rewrite map_length, seq_length. reflexivity.
  - unfold level_shift_all. apply Forall_map_iff. rewrite <- Ed. apply Forall_map_iff.
    apply Forall_forall. intros c Hc. apply in_zrange in Hc. split; [rewrite map_length; apply HFlen|].
    apply Forall_map_iff. apply Forall_forall. intros v Hv.
    apply In_nth with (d := 0) in Hv. destruct Hv as [i [Hi Ev]]. rewrite HFlen in Hi.
    specialize (Hent c (Z.of_nat i) Hc ltac:(lia)). rewrite <- Ed in Hent.
    rewrite (nth_zrange_map F nc c [] Hc), Nat2Z.id in Hent. unfold zn0 in Hent. rewrite Ev in Hent.
    assert (Hin : in_sample_range P sg v).
    { rewrite Hent. rewrite Forall_forall in Hrng. apply Hrng. apply nth_In. unfold zlen in Hlen. fold np nc in Hlen. nia. }
    pose proof (dc_shift_range P sg v HP Hin) as [Hr _]. lia.
Qed.

(* applyDCLevelShift, then RCT when it applies *)
Lemma front_ok : exists planes,
  pipe_front p (pack_image p samples) = Ok planes /\ planes_ok p (2 ^ P) planes /\
  pipe_back p planes = pack_image p samples.
Proof.
  destruct shifted_planes as [data [Ec [Hok Hget]]].
  destruct Hsc as (Hw & Hh & Hnc & HP & _).
  assert (Hpp : 0 < 2 ^ (P - 1) /\ 2 ^ P = 2 * 2 ^ (P - 1) /\ 2 ^ (P - 1) <= 32768)
    by (destruct (pow2_bounds P HP) as [A B]; lia).
  unfold pipe_front. fold np nc P sg. unfold pack_image in Ec. fold P in Ec. unfold pack_image at 1. fold P. rewrite Ec. cbn [obind].
  destruct (uses_rct p) eqn:Er.
  - (* three components through RCT *)
    unfold uses_rct in Er. apply andb_true_iff in Er as [Em E3]. apply Z.eqb_eq in E3.
    destruct Hok as [Hl3 Hall]. fold nc in Hl3. unfold nc in Hl3. rewrite E3 in Hl3.
    destruct (level_shift_all P sg data) as [|r [|g [|b [|x rest]]]] eqn:Ed; try discriminate.
    inversion Hall as [|? ? [Lr Fr] Hall1]; subst. inversion Hall1 as [|? ? [Lg Fg] Hall2]; subst.
    inversion Hall2 as [|? ? [Lb Fb] _]; subst.
    eexists. split; [reflexivity|].
    assert (Hlen1 : length r = length g) by congruence. assert (Hlen2 : length g = length b) by congruence.
    pose proof (rct_fwd_list_bound (2 ^ (P - 1)) r g b ltac:(change (2 ^ 27) with 134217728; lia) Fr Fg Fb) as Hb.
    split.
    + unfold planes_ok. rewrite E3. split; [reflexivity|]. unfold rct_planes. cbn [nth].
      repeat constructor; rewrite ?map_length, ?rct_fwd_list_length by assumption; try assumption;
        apply Forall_map_iff; eapply Forall_impl; [|exact Hb| |exact Hb| |exact Hb]; intros t [A [B C]]; lia.
    + unfold pipe_back. unfold uses_rct. rewrite E3, Z.eqb_refl.
      rewrite Em. cbn [andb]. unfold irct_planes, rct_planes. cbn [nth]. rewrite zip3_maps.
      assert (Hin : forall l, Forall (fun v => - 2 ^ (P - 1) <= v <= 2 ^ (P - 1)) l -> Forall in28 l).
      { intros l Hl. eapply Forall_impl; [|exact Hl]. intros v Hv. cbv beta in Hv. unfold in28. change (2 ^ 28) with 268435456. lia. }
      rewrite (rct_list_inverse r g b Hlen1 Hlen2 (Hin r Fr) (Hin g Fg) (Hin b Fb)).
      destruct (combine3_maps r g b Hlen1 Hlen2) as [A [B C]]. rewrite A, B, C.
      unfold np, nc, P, sg in Hget. rewrite E3 in Hget. exact Hget.
  - eexists. split; [reflexivity|]. split.
    + destruct Hok as [A B]. split; [exact A|]. eapply Forall_impl; [|exact B]. intros pl [C D]. split; [exact C|].
      eapply Forall_impl; [|exact D]. intros v Hv. cbv beta in Hv. fold P in Hv. lia.
    + unfold pipe_back. rewrite Er. exact Hget.
Qed.

End Front.
