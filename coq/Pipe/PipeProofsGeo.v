(* pipe, part 3: geometry of the single tile at origin (0, 0) with default precincts - the
   encoder's block list (buildTilePacketEncoderAt loops) against the decoder's three views of
   it: the grid of buildAndDecodeCodeBlocks, the precinct entries of
   PacketDecoder.collectCodeBlockEntries / TileDecoder.buildPrecinctOrder. *)
From V Require Import Common.Base J2KGeo.GeoModel J2KGeo.GeoProofsLists J2KGeo.GeoProofsBands J2KGeo.GeoProofsBlocks Pipe.PipeProofsStore Pipe.PipeProofsLists
  T2.T2Header T2.T2Packets Pipe.PipeModel Pipe.PipeProofsFront.
Require V.T2.T2ProofsProg V.T2.T2ProofsPackets2.

Lemma zrange_zseq : forall n, zrange n = zseq n.
Proof. reflexivity. Qed.

(* ---------- windows at a non-negative origin ---------- *)

Lemma win_step_box : forall w h x0 y0, 0 <= w -> 0 <= h -> 0 <= x0 -> 0 <= y0 ->
  exists w' h' x' y', win_step (w, h, x0, y0) = (w', h', x', y') /\
    0 <= w' <= w /\ 0 <= h' <= h /\ 0 <= x' /\ 0 <= y' /\ x' + w' <= x0 + w /\ y' + h' <= y0 + h /\ x' <= x0 /\ y' <= y0.
Proof.
  intros w h x0 y0 Hw Hh Hx Hy. unfold win_step.
  exists (split_len w (is_even_z x0)), (split_len h (is_even_z y0)), (next_coord_z x0), (next_coord_z y0).
  split; [reflexivity|].
  assert (G : forall n v, 0 <= n -> 0 <= v ->
            0 <= split_len n (is_even_z v) <= n /\ 0 <= next_coord_z v /\ next_coord_z v + split_len n (is_even_z v) <= v + n /\ next_coord_z v <= v).
  { intros n v Hn Hv. unfold next_coord_z, split_len. rewrite is_even_z_even. rewrite Z.shiftr_div_pow2 by lia.
    change (2 ^ 1) with 2. rewrite !Z.quot_div_nonneg by lia.
    pose proof (Z.div_mod (v + 1) 2 ltac:(lia)). pose proof (Z.mod_pos_bound (v + 1) 2 ltac:(lia)).
    pose proof (Z.div_mod (n + 1) 2 ltac:(lia)). pose proof (Z.mod_pos_bound (n + 1) 2 ltac:(lia)).
    pose proof (Z.div_mod n 2 ltac:(lia)). pose proof (Z.mod_pos_bound n 2 ltac:(lia)).
    destruct (Z.even v) eqn:Ev.
    - apply Z.even_spec in Ev as [k Ek]. lia.
    - assert (Eo : Z.odd v = true) by (rewrite <- Z.negb_even, Ev; reflexivity).
      apply Z.odd_spec in Eo as [k Ek]. lia. }
  destruct (G w x0 Hw Hx) as (A & B & C). destruct (G h y0 Hh Hy) as (D & E & F). lia.
Qed.

Lemma win_iter_box : forall n w h x0 y0, 0 <= w -> 0 <= h -> 0 <= x0 -> 0 <= y0 ->
  exists w' h' x' y', win_iter n (w, h, x0, y0) = (w', h', x', y') /\
    0 <= w' <= w /\ 0 <= h' <= h /\ 0 <= x' /\ 0 <= y' /\ x' + w' <= x0 + w /\ y' + h' <= y0 + h /\ x' <= x0 /\ y' <= y0.
Proof.
  induction n as [|n IH]; intros w h x0 y0 Hw Hh Hx Hy.
  - exists w, h, x0, y0. cbn. repeat split; lia.
  - cbn [win_iter]. destruct (win_step_box w h x0 y0 Hw Hh Hx Hy) as (w1 & h1 & x1 & y1 & E1 & A).
    rewrite E1. destruct (IH w1 h1 x1 y1 ltac:(lia) ltac:(lia) ltac:(lia) ltac:(lia)) as (w' & h' & x' & y' & E & B).
    exists w', h', x', y'. split; [exact E|]. lia.
Qed.

(* ---------- one band ---------- *)

Lemma partition_grid : forall b bd cbw cbh,
  map (fun c => (cb_cbx c, cb_cby c)) (enc_partition (b, bd) cbw cbh) =
  grid_positions (enc_num_tiles (b_w b) cbw) (enc_num_tiles (b_h b) cbh).
Proof.
  intros b bd cbw cbh. unfold enc_partition, grid_positions, enc_num_tiles. rewrite map_flat_map.
  apply flat_map_ext_in. intros cby _. rewrite map_map. apply map_ext. intros cbx. reflexivity.
Qed.

Lemma partition_band : forall b bd cbw cbh c, In c (enc_partition (b, bd) cbw cbh) -> cb_band c = b_id b.
Proof.
  intros b bd cbw cbh c Hc. unfold enc_partition in Hc. apply in_flat_map in Hc as [cby [_ Hc]].
  apply in_map_iff in Hc as [cbx [<- _]]. reflexivity.
Qed.

Lemma grid_positions_nil : forall nx ny, grid_positions nx ny = [] <-> (nx <= 0 \/ ny <= 0).
Proof.
  intros nx ny. unfold grid_positions, zseq. split.
  - intros H. destruct (Z_le_gt_dec nx 0); [left; lia|]. destruct (Z_le_gt_dec ny 0); [right; lia|]. exfalso.
    destruct (Z.to_nat ny) as [|k] eqn:Ey; [lia|]. destruct (Z.to_nat nx) as [|j] eqn:Ex; [lia|].
    cbn in H. discriminate.
  - intros [H|H].
    + replace (Z.to_nat nx) with 0%nat by lia. cbn [seq map]. apply flat_map_nil.
    + replace (Z.to_nat ny) with 0%nat by lia. reflexivity.
Qed.

Lemma in_grid_positions : forall nx ny x y, In (x, y) (grid_positions nx ny) <-> 0 <= x < nx /\ 0 <= y < ny.
Proof.
  intros nx ny x y. unfold grid_positions. rewrite in_flat_map. split.
  - intros [y' [Hy Hx]]. apply in_map_iff in Hx as [x' [E Hx]]. injection E as -> ->.
    apply in_zrange in Hy. apply in_zrange in Hx. lia.
  - intros [Hx Hy]. exists y. split; [apply in_zrange; exact Hy|]. apply in_map_iff. exists x.
    split; [reflexivity | apply in_zrange; exact Hx].
Qed.

Lemma maxp1_bound : forall l n, 0 <= n -> (forall v, In v l -> v + 1 <= n) -> In (n - 1) l -> PipeProofsStore.maxp1 l = n.
Proof.
  intros l n Hn Hle Hin. unfold PipeProofsStore.maxp1.
  assert (G : forall l m, m <= n -> (forall v, In v l -> v + 1 <= n) ->
            fold_left (fun m v => if v + 1 >? m then v + 1 else m) l m <= n /\
            (In (n - 1) l -> fold_left (fun m v => if v + 1 >? m then v + 1 else m) l m = n) /\
            (m = n -> fold_left (fun m v => if v + 1 >? m then v + 1 else m) l m = n)).
  { induction l0 as [|v l0 IH]; intros m Hm Hall; cbn [fold_left].
    - split; [exact Hm|]. split; [intros []|auto].
    - assert (Hv : v + 1 <= n) by (apply Hall; left; reflexivity).
      set (m' := if v + 1 >? m then v + 1 else m).
      assert (Hm' : m' <= n) by (unfold m'; destruct (Z.gtb_spec (v + 1) m); lia).
      destruct (IH m' Hm' (fun u Hu => Hall u (or_intror Hu))) as [A [B C]].
      split; [exact A|]. split.
      + intros [E|Hin']; [|apply B; exact Hin']. apply C. unfold m'. subst v. destruct (Z.gtb_spec (n - 1 + 1) m); lia.
      + intros E. apply C. unfold m'. subst m. destruct (Z.gtb_spec (v + 1) n); lia. }
  destruct (G l 0 Hn Hle) as [_ [B _]]. apply B. exact Hin.
Qed.

Section Geo.
Variable p : pparams.
Hypothesis Hsc : pp_scope p.

Let w := pp_w p.
Let h := pp_h p.
Let L := pp_levels p.
Let cbw := pp_cbw p.
Let cbh := pp_cbh p.

Lemma cb_range : 4 <= cbw <= 64 /\ 4 <= cbh <= 64.
Proof. destruct Hsc as (_ & _ & _ & _ & _ & Hx & Hy & _). unfold pow2_size in *. unfold cbw, cbh. lia. Qed.

Let x0 := pp_x0 p.
Let y0 := pp_y0 p.

Lemma wh_range : 1 <= w <= 32768 /\ 1 <= h <= 32768 /\ 0 <= L <= 6.
Proof. destruct Hsc as (A & B & _ & _ & C & _). unfold w, h, L. lia. Qed.

Lemma origin_range : 0 <= x0 /\ 0 <= y0 /\ x0 + w <= 32768 /\ y0 + h <= 32768.
Proof. destruct Hsc as (_ & _ & _ & _ & _ & _ & _ & _ & _ & A & B & C & D & _). unfold w, h, x0, y0. lia. Qed.

(* bands of resolution r, and the grid of one band *)
Definition rbands (r : Z) : list band := enc_band_infos w h x0 y0 L r.
Definition bnx (b : band) : Z := enc_num_tiles (b_w b) cbw.
Definition bny (b : band) : Z := enc_num_tiles (b_h b) cbh.
Definition bgrid (b : band) : list (Z * Z) := grid_positions (bnx b) (bny b).

Lemma rbands_ids : forall r, map b_id (rbands r) = band_order r.
Proof.
  intros r. unfold rbands, enc_band_infos, band_order.
  destruct (enc_res_dims w h x0 y0 L r) as [rw rh]. destruct (r =? 0); [reflexivity|].
  destruct (enc_res_dims w h x0 y0 L (r - 1)) as [lw lh]. reflexivity.
Qed.

Lemma rbands_dims : forall r b, 0 <= r <= L -> In b (rbands r) -> 0 <= b_w b <= 32768 /\ 0 <= b_h b <= 32768.
Proof.
  intros r b Hr Hb. destruct wh_range as (Hw & Hh & _).
  destruct (bands_inside_array w h x0 y0 L ltac:(lia) ltac:(lia) r b Hr Hb) as (A & B & C & D & E & F). lia.
Qed.

(* the decoder's resolution rectangle: inside the reference grid's [0, 32768) square; it may be
   empty (odd tile origins), and then every band of the resolution is empty *)
Lemma dec_infos_gen : forall r, 0 <= r <= L -> exists rw rh rx ry,
  dec_band_infos w h x0 y0 L r = ((rw, rh, rx, ry), rbands r) /\
  0 <= rw /\ 0 <= rh /\ 0 <= rx /\ 0 <= ry /\ rx + rw <= 32768 /\ ry + rh <= 32768 /\
  (forall b, In b (rbands r) -> b_w b <= rw /\ b_h b <= rh).
Proof.
  intros r Hr. destruct wh_range as (Hw & Hh & HL). destruct origin_range as (Ox & Oy & Oxw & Oyh).
  pose proof (dec_band_infos_agree w h x0 y0 L r) as [Hs Hd]. fold (rbands r) in Hs.
  destruct (win_iter_box (level_no L r) w h x0 y0 ltac:(lia) ltac:(lia) Ox Oy) as (rw & rh & rx & ry & E & A).
  exists rw, rh, rx, ry.
  assert (Ed : dec_band_infos w h x0 y0 L r = ((rw, rh, rx, ry), rbands r)).
  { destruct (dec_band_infos w h x0 y0 L r) as [wn bs] eqn:Ed. cbn [snd] in Hs. subst bs. f_equal.
    unfold dec_band_infos, dec_res_dims in Ed. rewrite E in Ed.
    destruct (r =? 0); [congruence|].
    destruct (win_iter (level_no L (r - 1)) (w, h, x0, y0)) as [[[a b] c] d]. congruence. }
  split; [exact Ed|]. repeat (split; [lia|]).
  intros b Hb. clear Hd.
  pose proof (bands_inside w h x0 y0 L ltac:(lia) ltac:(lia) r b Hr Hb) as Hin.
  cbv beta in Hin. rewrite E in Hin. cbn [winW winH fst snd] in Hin. lia.
Qed.

Lemma nx_bound : forall r b x, 0 <= r <= L -> In b (rbands r) -> 0 <= x < bnx b -> 0 <= x * cbw < 32768.
Proof.
  intros r b x Hr Hb Hx. destruct (rbands_dims r b Hr Hb) as [A _]. destruct cb_range as [C _].
  destruct (nx_range b cbw cbh ltac:(lia) ltac:(lia) x Hx). nia.
Qed.

Lemma ny_bound : forall r b y, 0 <= r <= L -> In b (rbands r) -> 0 <= y < bny b -> 0 <= y * cbh < 32768.
Proof.
  intros r b y Hr Hb Hy. destruct (rbands_dims r b Hr Hb) as [_ A]. destruct cb_range as [_ C].
  destruct (ny_range b cbw cbh ltac:(lia) ltac:(lia) y Hy). nia.
Qed.

(* ---------- the decoder's precinct entries ---------- *)

Lemma band_entries_gen : forall r b rx ry npx, 0 <= r <= L -> In b (rbands r) ->
  0 <= rx -> 0 <= ry -> rx + b_w b <= 32768 -> ry + b_h b <= 32768 ->
  band_entries p rx ry 0 0 npx b = map (fun xy => (0, b_id b, fst xy, snd xy)) (bgrid b).
Proof.
  intros r b rx ry npx Hr Hb Hrx Hry Hxw Hyh. destruct (rbands_dims r b Hr Hb) as [Bw Bh]. destruct cb_range as [Cw Ch].
  unfold band_entries. fold cbw cbh.
  destruct ((b_w b <=? 0) || (b_h b <=? 0)) eqn:Ee.
  - symmetry. replace (bgrid b) with (@nil (Z * Z)); [reflexivity|]. symmetry. apply grid_positions_nil.
    apply orb_true_iff in Ee as [E|E]; apply Z.leb_le in E; [left|right]; unfold bnx, bny.
    + replace (b_w b) with 0 by lia. rewrite num_blocks_zero; lia.
    + replace (b_h b) with 0 by lia. rewrite num_blocks_zero; lia.
  - unfold bgrid, grid_positions. rewrite map_flat_map. fold (bnx b) (bny b).
    change (Z.quot (b_h b + cbh - 1) cbh) with (bny b). change (Z.quot (b_w b + cbw - 1) cbw) with (bnx b).
    apply flat_map_ext_in. intros y Hy. apply in_zrange in Hy. rewrite map_map. apply map_ext_in. intros x Hx. apply in_zrange in Hx.
    cbn [fst snd].
    destruct (nx_range b cbw cbh ltac:(lia) ltac:(lia) x Hx) as [_ Nx].
    destruct (ny_range b cbw cbh ltac:(lia) ltac:(lia) y Hy) as [_ Ny].
    assert (Px : 0 <= x * cbw) by nia. assert (Py : 0 <= y * cbh) by nia.
    unfold prec_sz. rewrite !Z.sub_0_r.
    rewrite (Z.quot_small (rx + x * cbw) 32768) by lia. rewrite (Z.quot_small (ry + y * cbh) 32768) by lia.
    cbn [Z.mul Z.add].
    assert (Ex : Z.quot (rx + x * cbw - (if 0 <? rx then rx else 0)) cbw = x).
    { destruct (Z.ltb_spec 0 rx).
      - replace (rx + x * cbw - rx) with (x * cbw) by lia. apply Z.quot_mul. lia.
      - replace (rx + x * cbw - 0) with (x * cbw) by lia. apply Z.quot_mul. lia. }
    assert (Ey : Z.quot (ry + y * cbh - (if 0 <? ry then ry else 0)) cbh = y).
    { destruct (Z.ltb_spec 0 ry).
      - replace (ry + y * cbh - ry) with (y * cbh) by lia. apply Z.quot_mul. lia.
      - replace (ry + y * cbh - 0) with (y * cbh) by lia. apply Z.quot_mul. lia. }
    rewrite Ex, Ey. reflexivity.
Qed.

Lemma floor_div_small : forall v, 0 <= v < 32768 -> K.floor_div v prec_sz * prec_sz = 0.
Proof.
  intros v Hv. unfold K.floor_div, prec_sz. cbn [Z.leb Z.compare]. destruct (Z.geb_spec v 0); [|lia]. rewrite Z.quot_small by lia. reflexivity.
Qed.

Lemma res_entries_origin : forall r, 0 <= r <= L ->
  res_entries p r = flat_map (fun b => map (fun xy => (0, b_id b, fst xy, snd xy)) (bgrid b)) (rbands r).
Proof.
  intros r Hr. destruct (dec_infos_gen r Hr) as (rw & rh & rx & ry & E & A & B & C & D & F & G & Hbs).
  unfold res_entries. fold w h L x0 y0. rewrite E.
  destruct ((rw <=? 0) || (rh <=? 0)) eqn:Ee.
  - (* empty resolution: every band is empty *)
    symmetry. apply T2ProofsProg.flat_map_nil_all. intros b Hb. destruct (Hbs b Hb) as [Bw Bh].
    destruct (rbands_dims r b Hr Hb) as [Pw Ph]. destruct cb_range as [Cw Ch].
    replace (bgrid b) with (@nil (Z * Z)); [reflexivity|]. symmetry. apply grid_positions_nil.
    apply orb_true_iff in Ee as [E'|E']; apply Z.leb_le in E'; [left|right]; unfold bnx, bny.
    + replace (b_w b) with 0 by lia. rewrite num_blocks_zero; lia.
    + replace (b_h b) with 0 by lia. rewrite num_blocks_zero; lia.
  - apply orb_false_iff in Ee as [E1 E2]. apply Z.leb_gt in E1, E2.
    rewrite (floor_div_small rx) by lia. rewrite (floor_div_small ry) by lia.
    apply flat_map_ext_in. intros b Hb. destruct (Hbs b Hb) as [Bw Bh].
    apply (band_entries_gen r b rx ry _ Hr Hb); lia.
Qed.

(* ---------- the encoder's blocks ---------- *)

Lemma enc_blocks_res_desc : forall d r,
  map (fun c => (0, cb_band c, cb_cbx c, cb_cby c)) (enc_blocks_res p d r) =
  flat_map (fun b => map (fun xy => (0, b_id b, fst xy, snd xy)) (bgrid b)) (rbands r).
Proof.
  intros d r. unfold enc_blocks_res, enc_subbands. fold w h L cbw cbh (rbands r).
  rewrite flat_map_map, map_flat_map. apply flat_map_ext_in. intros b Hb.
  unfold enc_partition, bgrid, grid_positions. rewrite !map_flat_map.
  apply flat_map_ext_in. intros y _. rewrite !map_map. apply map_ext. intros x. reflexivity.
Qed.

Lemma res_entries_blocks : forall d r, 0 <= r <= L ->
  res_entries p r = map (fun c => (0, cb_band c, cb_cbx c, cb_cby c)) (enc_blocks_res p d r).
Proof. intros d r Hr. rewrite enc_blocks_res_desc. apply res_entries_origin. exact Hr. Qed.

(* ---------- numbering: globalCBIdx ---------- *)

Definition entry_of (x : Z * (Z * cblock)) : centry :=
  {| ce_res := fst (snd x); ce_pidx := 0; ce_band := cb_band (snd (snd x));
     ce_cbx := cb_cbx (snd (snd x)); ce_cby := cb_cby (snd (snd x)); ce_global := fst x |}.

Lemma number_entries_blocks : forall r (bl : list cblock) k,
  number_entries r k (map (fun c => (0, cb_band c, cb_cbx c, cb_cby c)) bl) =
  map entry_of (znumber k (map (fun c => (r, c)) bl)).
Proof.
  intros r bl. induction bl as [|c bl IH]; intros k; cbn [map number_entries znumber]; [reflexivity|].
  rewrite IH. reflexivity.
Qed.

Lemma entries_from_blocks : forall d ress k, (forall r, In r ress -> 0 <= r <= L) ->
  entries_from p ress k =
  map entry_of (znumber k (flat_map (fun r => map (fun c => (r, c)) (enc_blocks_res p d r)) ress)).
Proof.
  intros d ress. induction ress as [|r ress IH]; intros k Hr; cbn [entries_from flat_map]; [reflexivity|].
  rewrite znumber_app, map_app. rewrite (res_entries_blocks d r) by (apply Hr; left; reflexivity).
  rewrite number_entries_blocks. f_equal.
  rewrite IH by (intros r' Hr'; apply Hr; right; exact Hr'). unfold zlen. rewrite !map_length. reflexivity.
Qed.

(* the numbered block list of one component *)
Definition NE (d : list Z) : list (Z * (Z * cblock)) := znumber 0 (enc_blocks p d).

Lemma comp_entries_blocks : forall d, comp_entries p = map entry_of (NE d).
Proof.
  intros d. unfold comp_entries, NE, enc_blocks. fold L.
  apply entries_from_blocks. intros r Hr. apply in_zrange in Hr. lia.
Qed.

(* the numbered blocks of resolution r, of band (r, bid) *)
Definition NEr (d : list Z) (r : Z) := filter (fun x => fst (snd x) =? r) (NE d).
Definition NErb (d : list Z) (r bid : Z) :=
  filter (fun x => (fst (snd x) =? r) && (cb_band (snd (snd x)) =? bid)) (NE d).

Lemma enc_blocks_filter_res : forall d r, 0 <= r <= L ->
  filter (fun rc : Z * cblock => fst rc =? r) (enc_blocks p d) = map (fun c => (r, c)) (enc_blocks_res p d r).
Proof.
  intros d r Hr. unfold enc_blocks. fold L. rewrite filter_flat_map.
  rewrite (flat_map_one _ (zrange (L + 1)) r).
  - apply filter_all'. intros rc Hrc. apply in_map_iff in Hrc as [c [<- _]]. apply Z.eqb_refl.
  - apply (T2ProofsProg.nodup_zseq (L + 1)).
  - apply in_zrange. lia.
  - intros r' _ Hne. apply filter_none. intros rc Hrc. apply in_map_iff in Hrc as [c [<- _]]. cbn [fst]. apply Z.eqb_neq. exact Hne.
Qed.

Lemma NEr_blocks : forall d r, 0 <= r <= L -> map snd (NEr d r) = map (fun c => (r, c)) (enc_blocks_res p d r).
Proof.
  intros d r Hr. unfold NEr, NE. rewrite (znumber_filter_snd (fun rc : Z * cblock => fst rc =? r)).
  apply enc_blocks_filter_res. exact Hr.
Qed.

Lemma band_of_id : forall r bid, In bid (band_order r) -> exists b, In b (rbands r) /\ b_id b = bid.
Proof.
  intros r bid Hin. rewrite <- rbands_ids in Hin. apply in_map_iff in Hin as [b [E Hb]]. exists b. split; assumption.
Qed.

Lemma rbands_id_inj : forall r b b', In b (rbands r) -> In b' (rbands r) -> b_id b = b_id b' -> b = b'.
Proof.
  intros r b b' Hb Hb' E.
  assert (Hnd : NoDup (map b_id (rbands r))) by (rewrite rbands_ids; apply T2ProofsPackets2.band_order_nodup).
  revert Hb Hb' E Hnd. generalize (rbands r). induction l as [|x l IH]; intros Hb Hb' E Hnd; [destruct Hb|].
  cbn [map] in Hnd. inversion Hnd as [|? ? Hni Hnd']; subst.
  destruct Hb as [->|Hb]; destruct Hb' as [->|Hb']; try reflexivity.
  - exfalso. apply Hni. rewrite E. apply in_map. exact Hb'.
  - exfalso. apply Hni. rewrite <- E. apply in_map. exact Hb.
  - apply IH; assumption.
Qed.

(* the blocks of one band of one resolution *)
Definition band_blocks (d : list Z) (b : band) : list cblock :=
  enc_partition (b, crop d (Z.to_nat w) (Z.to_nat (b_ox b)) (Z.to_nat (b_oy b)) (Z.to_nat (b_w b)) (Z.to_nat (b_h b))) cbw cbh.

Lemma enc_blocks_res_bands : forall d r, enc_blocks_res p d r = flat_map (band_blocks d) (rbands r).
Proof.
  intros d r. unfold enc_blocks_res, enc_subbands, band_blocks. fold w h L cbw cbh (rbands r). apply flat_map_map.
Qed.

Lemma NErb_blocks : forall d r b, 0 <= r <= L -> In b (rbands r) ->
  map snd (NErb d r (b_id b)) = map (fun c => (r, c)) (band_blocks d b).
Proof.
  intros d r b Hr Hb. unfold NErb, NE.
  rewrite (znumber_filter_snd (fun rc : Z * cblock => (fst rc =? r) && (cb_band (snd rc) =? b_id b))).
  assert (E : filter (fun rc : Z * cblock => (fst rc =? r) && (cb_band (snd rc) =? b_id b)) (enc_blocks p d) =
              filter (fun rc : Z * cblock => cb_band (snd rc) =? b_id b) (filter (fun rc : Z * cblock => fst rc =? r) (enc_blocks p d))).
  { generalize (enc_blocks p d). induction l as [|x l IH]; [reflexivity|]. cbn [filter].
    destruct (fst x =? r); cbn [andb filter]; [destruct (cb_band (snd x) =? b_id b); rewrite IH; reflexivity | exact IH]. }
  rewrite E, (enc_blocks_filter_res d r Hr), enc_blocks_res_bands.
  rewrite filter_map_comm. cbn [snd]. f_equal. rewrite filter_flat_map.
  assert (Hnd : NoDup (rbands r)).
  { apply (NoDup_map_inv b_id). rewrite rbands_ids. apply T2ProofsPackets2.band_order_nodup. }
  rewrite (flat_map_one _ (rbands r) b Hnd Hb).
  - apply filter_all'. intros c Hc. apply Z.eqb_eq. apply (partition_band _ _ _ _ _ Hc).
  - intros b' Hb' Hne. apply filter_none. intros c Hc. apply Z.eqb_neq. rewrite (partition_band _ _ _ _ _ Hc).
    intros E'. apply Hne. apply (rbands_id_inj r b' b Hb' Hb E').
Qed.

End Geo.
