(* pipe (layers), part 6': PipeProofsEnc generalised over the per-block encoder - the store after
   buildTilePacketEncoderAt holds, per (component, resolution, 0), one Precinct per non-empty band
   with the grid the decoder expects, whatever function produced the blocks. *)
From V Require Import Common.Base J2KGeo.GeoModel J2KGeo.GeoProofsLists J2KGeo.GeoProofsBlocks
  T2.T2Header T2.T2Packets T2.T2ProofsPackets1
  Pipe.PipeModel Pipe.PipeProofsFront Pipe.PipeProofsLists Pipe.PipeProofsStore Pipe.PipeProofsGeo
  Pipe.PipeProofsBlock Pipe.PipeCellRel Pipe.PipeLCellRel Pipe.PipeProofsEnc.
Require V.T2.T2ProofsProg V.T2.T2ProofsPackets2.

Section GEnc.
Variable p : pparams.
Hypothesis Hsc : pp_scope p.
Variable d : list Z.
Variable nl : Z.
Variable enc1 : Z * cblock -> outcome (Z * Z * Z * eblock).     (* the body of the block loop *)
Variable mk : Z -> cblock -> eblock.                             (* the block it produces *)
Hypothesis Hmk : forall r cb, In (r, cb) (enc_blocks p d) -> enc1 (r, cb) = Ok (r, 0, cb_band cb, mk r cb).
Hypothesis Hmkpos : forall r cb, In (r, cb) (enc_blocks p d) ->
  eb_cbx (mk r cb) = cb_cbx cb /\ eb_cby (mk r cb) = cb_cby cb.
Hypothesis HQ : forall r cb, In (r, cb) (enc_blocks p d) -> layered_block nl (mk r cb).

Let L := pp_levels p.

Definition band_group (r : Z) (b : band) : list (Z * list eblock) :=
  match band_blocks p d b with [] => [] | bl => [(b_id b, map (mk r) bl)] end.
Definition res_group (r : Z) : group := (r, flat_map (band_group r) (rbands p r)).
Definition comp_groups : list group := map res_group (zrange (L + 1)).

Definition band_spec (r : Z) (b : band) : list bspec :=
  match band_blocks p d b with [] => [] | bl => [(b_id b, bnx p b, bny p b, map (mk r) bl)] end.
Definition res_specs (r : Z) : list bspec := flat_map (band_spec r) (rbands p r).

Lemma enc_comp_ok :
  omap enc1 (enc_blocks p d) = Ok (comp_adds comp_groups).
Proof.
  rewrite (omap_map enc1 (fun rc => (fst rc, 0, cb_band (snd rc), mk (fst rc) (snd rc)))).
  2:{ intros [r cb] Hin. apply Hmk. exact Hin. }
  f_equal. unfold enc_blocks, comp_adds, comp_groups. fold L. rewrite map_flat_map, flat_map_map.
  apply flat_map_ext_in. intros r _. unfold group_adds, res_group. cbn [fst snd].
  rewrite map_map. cbn [fst snd]. rewrite enc_blocks_res_bands.
  unfold cell_adds. rewrite flat_map_flat_map'. rewrite !map_flat_map.
  apply flat_map_ext_in. intros b _. unfold band_group.
  destruct (band_blocks p d b) as [|c0 bl] eqn:Eb; [reflexivity|]. rewrite <- Eb. clear Eb c0 bl.
  cbn [flat_map fst snd]. rewrite app_nil_r, !map_map. apply map_ext_in. intros c Hc. cbn [fst snd].
  rewrite (partition_band _ _ _ _ _ Hc). reflexivity.
Qed.

Lemma eblk_positions : forall r b, 0 <= r <= L -> In b (rbands p r) ->
  map (fun e => (eb_cbx e, eb_cby e)) (map (mk r) (band_blocks p d b)) = bgrid p b.
Proof.
  intros r b Hr Hb. rewrite <- (band_blocks_pos p d), map_map. apply map_ext_in. intros c Hc.
  destruct (Hmkpos r c (band_blocks_in p d r b c Hr Hb Hc)) as (A & B). rewrite A, B. reflexivity.
Qed.

Lemma band_of_spec : forall r b, 0 <= r <= L -> In b (rbands p r) -> band_blocks p d b <> [] ->
  band_of (b_id b) (map (mk r) (band_blocks p d b)) = bs_eband (b_id b, bnx p b, bny p b, map (mk r) (band_blocks p d b)).
Proof.
  intros r b Hr Hb Hne. unfold band_of, bs_eband, bs_id, bs_nx, bs_ny, bs_blocks. cbn [fst snd].
  pose proof (eblk_positions r b Hr Hb) as Hpos.
  assert (Hg : bgrid p b <> []) by (intros E; apply Hne; apply (band_blocks_nil_iff p d); exact E).
  destruct (grid_dims_pos p b Hg) as [Hx Hy].
  assert (Ex : map eb_cbx (map (mk r) (band_blocks p d b)) = map fst (bgrid p b)) by (rewrite <- Hpos, !map_map; reflexivity).
  assert (Ey : map eb_cby (map (mk r) (band_blocks p d b)) = map snd (bgrid p b)) by (rewrite <- Hpos, !map_map; reflexivity).
  rewrite Ex, Ey.
  rewrite (maxp1_bound (map fst (bgrid p b)) (bnx p b)), (maxp1_bound (map snd (bgrid p b)) (bny p b)); try lia; try reflexivity.
  - intros v Hv. apply in_map_iff in Hv as [[x y] [<- Hxy]]. apply in_grid_positions in Hxy. cbn [snd]. lia.
  - apply in_map_iff. exists (0, bny p b - 1). split; [reflexivity|]. apply in_grid_positions. lia.
  - intros v Hv. apply in_map_iff in Hv as [[x y] [<- Hxy]]. apply in_grid_positions in Hxy. cbn [fst]. lia.
  - apply in_map_iff. exists (bnx p b - 1, 0). split; [reflexivity|]. apply in_grid_positions. lia.
Qed.

Lemma group_bands_specs : forall r, 0 <= r <= L -> group_bands (res_group r) = map bs_eband (res_specs r).
Proof.
  intros r Hr. unfold group_bands, res_group, res_specs. cbn [snd]. rewrite !map_flat_map.
  apply flat_map_ext_in. intros b Hb. unfold band_group, band_spec.
  destruct (band_blocks p d b) as [|c0 bl] eqn:Eb; [reflexivity|]. rewrite <- Eb.
  cbn [map fst snd]. f_equal. apply (band_of_spec r b Hr Hb). rewrite Eb. discriminate.
Qed.

Lemma res_specs_ok : forall r, 0 <= r <= L -> Forall (lspec_ok nl) (res_specs r).
Proof.
  intros r Hr. unfold res_specs. apply Forall_forall. intros s Hs. apply in_flat_map in Hs as [b [Hb Hs]].
  unfold band_spec in Hs. destruct (band_blocks p d b) as [|c0 bl] eqn:Eb; [destruct Hs|]. rewrite <- Eb in Hs.
  destruct Hs as [<-|[]].
  assert (Hne : band_blocks p d b <> []) by (rewrite Eb; discriminate).
  assert (Hg : bgrid p b <> []) by (intros E; apply Hne; apply (band_blocks_nil_iff p d); exact E).
  destruct (grid_dims_pos p b Hg) as [Hx Hy].
  unfold lspec_ok, bs_nx, bs_ny, bs_blocks. cbn [fst snd]. split; [exact Hx|]. split; [exact Hy|]. split.
  - apply (eblk_positions r b Hr Hb).
  - apply Forall_forall. intros e He. apply in_map_iff in He as [c [<- Hc]].
    apply HQ. apply (band_blocks_in p d r b c Hr Hb Hc).
Qed.

Lemma band_spec_ids : forall r b, map bs_id (band_spec r b) = match band_blocks p d b with [] => [] | _ => [b_id b] end.
Proof. intros r b. unfold band_spec. destruct (band_blocks p d b); reflexivity. Qed.

Lemma res_specs_ids : forall r, 0 <= r <= L -> T2ProofsPackets1.ids_ok r (map bs_id (res_specs r)).
Proof.
  intros r Hr. unfold res_specs. rewrite map_flat_map.
  pose proof (rbands_ids p r) as Hid. unfold T2ProofsPackets1.ids_ok, band_order in *.
  destruct (rbands p r) as [|b1 [|b2 [|b3 [|b4 l]]]]; destruct (r =? 0); cbn [map] in Hid; try discriminate.
  - injection Hid as E1. cbn [flat_map]. rewrite app_nil_r, band_spec_ids, E1. destruct (band_blocks p d b1); auto.
  - injection Hid as E1 E2 E3. cbn [flat_map]. rewrite app_nil_r, !band_spec_ids, E1, E2, E3.
    destruct (band_blocks p d b1); destruct (band_blocks p d b2); destruct (band_blocks p d b3); cbn [app]; auto 10.
Qed.

Lemma res_specs_find : forall r b, 0 <= r <= L -> In b (rbands p r) ->
  find (fun s => bs_id s =? b_id b) (res_specs r) =
    match bgrid p b with [] => None | _ => Some (b_id b, bnx p b, bny p b, map (mk r) (band_blocks p d b)) end.
Proof.
  intros r b Hr Hb. unfold res_specs. rewrite (find_flat_map_band (band_spec r) (rbands p r) b).
  - unfold band_spec. destruct (band_blocks p d b) as [|c0 bl] eqn:Eb.
    + assert (Hg : bgrid p b = []) by (apply (band_blocks_nil_iff p d); exact Eb). rewrite Hg. reflexivity.
    + rewrite <- Eb. cbn [find bs_id fst]. rewrite Z.eqb_refl.
      assert (Hg : bgrid p b <> []) by (intros E'; apply (band_blocks_nil_iff p d) in E'; rewrite Eb in E'; discriminate).
      destruct (bgrid p b); [congruence | reflexivity].
  - intros b' s _ Hs. unfold band_spec in Hs. destruct (band_blocks p d b'); [destruct Hs|]. destruct Hs as [<-|[]]. reflexivity.
  - exact Hb.
  - intros b' Hb' E. apply (rbands_id_inj p r b' b Hb' Hb E).
Qed.

Lemma comp_groups_ok : NoDup (map fst comp_groups) /\ Forall group_ok comp_groups.
Proof.
  unfold comp_groups. split.
  - rewrite map_map. cbn [res_group fst]. rewrite map_id. apply (T2ProofsProg.nodup_zseq (L + 1)).
  - apply Forall_forall. intros g Hg. apply in_map_iff in Hg as [r [<- Hr]]. apply in_zrange in Hr.
    unfold group_ok, res_group. cbn [snd]. split.
    + (* band ids are distinct *)
      assert (Hnd : NoDup (map b_id (rbands p r))) by (rewrite rbands_ids; apply T2ProofsPackets2.band_order_nodup).
      revert Hnd. generalize (rbands p r) as l. induction l as [|b l IH]; intros Hnd; [constructor|].
      cbn [flat_map map] in *. inversion Hnd as [|? ? Hni Hnd']; subst. rewrite map_app.
      unfold band_group at 1. destruct (band_blocks p d b); cbn [map app fst]; [apply IH; exact Hnd'|].
      constructor; [|apply IH; exact Hnd'].
      intros Hin. apply Hni. apply in_map_iff in Hin as [x [Ex Hx]]. apply in_flat_map in Hx as [b' [Hb' Hx]].
      unfold band_group in Hx. destruct (band_blocks p d b'); [destruct Hx|]. destruct Hx as [<-|[]]. cbn [fst] in Ex. rewrite <- Ex. apply in_map. exact Hb'.
    + intros x Hx. apply in_flat_map in Hx as [b [_ Hx]]. unfold band_group in Hx.
      destruct (band_blocks p d b) eqn:Eb; [destruct Hx|]. destruct Hx as [<-|[]]. cbn [snd map]. discriminate.
Qed.

End GEnc.
