(* pipe (layers), part 4': one code-block through encodeLayeredCodeBlock + finalizeBlock and back.
   Chains t1_layered_rates / t1_layered_zero_block (the Rate table of EncodeLayered),
   GeoProofsLayers.final_layer_complete via PipeLBlockDomain.finalized_block_ok (every layer's
   contribution is inside the domain of the packet-header codes; the layers deliver all bytes and
   all passes) and the single-layer decode fact of PipeProofsBlock (same bytes, passes, zbp). *)
From V Require Import Common.Base T1.T1Model T1.T1Bytes T1.T1ProofsBase T1.T1ProofsSeq T2.T2Header T2.T2Packets
  T2.T2ProofsHeader T2.T2ProofsGather J2KGeo.GeoLayers J2KGeo.GeoProofsLayers
  Pipe.PipeModel Pipe.PipeT1ratesThm Pipe.PipeProofsBlock Pipe.PipeCellRel Pipe.PipeLCellRel Pipe.PipeLBlockDomain.
Require V.J2KGeo.GeoModel.

(* THE PREMISE about the allocation of one block: whatever the number of coding passes n, the
   clamped cumulative pass counts of the layers 0 .. nl-2 are >= 0 and non-decreasing
   (GeoProofsLayers.mono_alloc for every n; the entry of the last layer is irrelevant) *)
Definition row_ok (nl : Z) (row : list Z) : Prop := forall n, 0 <= n -> chain n 0 (pcs_of row (nl - 1)).

(* elementary sufficient condition: non-negative and non-decreasing requested counts *)
Fixpoint nondec_from (q : Z) (l : list Z) : Prop :=
  match l with [] => True | x :: r => q <= x /\ nondec_from x r end.

Lemma cl_mono : forall n a b, a <= b -> cl n a <= cl n b.
Proof. intros n a b H. unfold cl. destruct (Z.gtb_spec a n); destruct (Z.gtb_spec b n); lia. Qed.

Lemma row_ok_of_nondec : forall nl row, nondec_from 0 (pcs_of row (nl - 1)) -> row_ok nl row.
Proof.
  intros nl row H n Hn. revert H. generalize (pcs_of row (nl - 1)) as l.
  assert (G : forall l q0, nondec_from q0 l -> chain n (cl n q0) l).
  { induction l as [|x l IH]; intros q0 Hl; cbn [chain]; [exact I|]. destruct Hl as [Hq Hl].
    split; [apply cl_mono; exact Hq | apply IH; exact Hl]. }
  intros l Hl. replace 0 with (cl n 0) by (unfold cl; destruct (Z.gtb_spec 0 n); lia). apply G. exact Hl.
Qed.

Section LBlock.
Variable p : pparams.
Hypothesis HP : 1 <= pp_prec p <= 16.
Variable nl : Z.
Hypothesis Hnl : 2 <= nl.

(* what the decoder must find for the block: no bytes when it was never included, otherwise all
   bytes, all passes, the zero-bit-plane count, no pass lengths *)
Definition delivered (b : eblock) (o : option cbinfo) : Prop :=
  if snd (contrib_acc b nl) =? 0 then obs o = ([], 0)
  else exists ci, o = Some ci /\ ci_data ci = fst (contrib_acc b nl) /\ ci_passes ci = snd (contrib_acc b nl) /\
                  ci_zbp ci = eb_zbp b /\ ci_zbpset ci = true /\ ci_pl ci = None.

Lemma enc_code_block_layers_spec : forall row res cb cbx cby,
  rb_valid p res (GM.cb_band cb) -> coef_ok cb -> row_ok nl row ->
  (forall b0, enc_code_block p res cb cbx cby = Ok b0 -> zlen (eb_data b0) <= 65535) ->
  exists b, enc_code_block_layers p nl row res cb cbx cby = Ok b /\
    eb_cbx b = cbx /\ eb_cby b = cby /\ layered_block nl b /\
    (forall l, zlen (b_data b l) <= 65535) /\
    0 <= snd (contrib_acc b nl) /\ (snd (contrib_acc b nl) = 0 -> fst (contrib_acc b nl) = []) /\
    forall m idx x0 y0, 0 <= GM.cb_band cb <= 3 -> delivered b (aget key2_eqb m (res, idx)) ->
      dec_code_block p m idx (res, (x0, y0, x0 + GM.cb_w cb, y0 + GM.cb_h cb, GM.cb_band cb)) =
        Ok (x0, y0, x0 + GM.cb_w cb, y0 + GM.cb_h cb, GM.cb_data cb).
Proof.
  intros row res cb cbx cby Hv Hco Hrow Hsz.
  pose proof Hco as (Hlen & Hw & Hh & Hrng).
  destruct (band_numbps_agree p res (GM.cb_band cb) HP Hv) as [Ebn _].
  pose proof (log2_gain_range res (GM.cb_band cb)) as Hg.
  set (bn := pp_prec p + log2_gain res (GM.cb_band cb) + 1) in *.
  assert (Hbn : 2 <= bn <= 19) by (unfold bn; lia).
  (* the single-layer block of the same code-block *)
  destruct (enc_code_block_spec p HP res cb cbx cby Hv Hco) as [b0 [E0 F0]].
  pose proof (Hsz b0 E0) as Hs0.
  unfold enc_code_block_layers. unfold enc_code_block in E0. rewrite Ebn in E0 |- *.
  set (cs := GM.cb_data cb) in *.
  assert (Ed : map (fun v => PipeModel.i32 (Z.shiftl v 6)) cs = map (fun c => c * 64) cs).
  { apply map_ext_in. intros v Hvin. apply scale64. apply Hrng. exact Hvin. }
  rewrite Ed in E0 |- *. set (data := map (fun c => c * 64) cs) in *.
  set (wn := Z.to_nat (GM.cb_w cb)) in *. set (hn := Z.to_nat (GM.cb_h cb)) in *.
  assert (Hok : data_ok data).
  { intros v Hvin. unfold data in Hvin. apply in_map_iff in Hvin as [c [<- Hc]]. pose proof (Hrng c Hc) as Hr.
    change (2 ^ 25) with 33554432 in Hr. change (2 ^ 31) with 2147483648. lia. }
  destruct (Z.leb_spec bn 0); [lia|].
  destruct (find_max_bitplane_spec data Hok) as [[Em Hz]|[Hm Hsh]].
  - (* the all-zero block: never included *)
    assert (Hcs : cs = repeat 0 (wn * hn)).
    { rewrite <- Hlen. clear - Hz. unfold data in Hz. induction cs as [|c cs IH]; [reflexivity|]. cbn [length repeat].
      f_equal; [|apply IH; intros v Hv; apply Hz; right; exact Hv].
      assert (c * 64 = 0) by (apply Hz; left; reflexivity). lia. }
    assert (Hdz : data = repeat 0 (wn * hn)).
    { unfold data. rewrite Hcs. clear. induction (wn * hn)%nat as [|n IH]; [reflexivity|]. cbn [repeat map]. rewrite IH. reflexivity. }
    rewrite Hdz, t1_layered_zero_block. eexists. split; [reflexivity|].
    cbn [eb_cbx eb_cby]. split; [reflexivity|]. split; [reflexivity|].
    match goal with |- layered_block nl ?b /\ _ => set (bz := b) end.
    assert (Hinc : forall l, b_inc bz l = false).
    { intros l. unfold b_inc, contrib, bz. cbn [eb_ld eb_lp eb_data eb_npt]. reflexivity. }
    assert (Hacc : contrib_acc bz nl = ([], 0)).
    { unfold contrib_acc. generalize (zseq nl). intros l. induction l as [|x l IH]; [reflexivity|]. cbn [fold_left]. rewrite Hinc. exact IH. }
    split.
    assert (Ezb : eb_zbp bz = bn).
    { unfold bz. cbn [eb_zbp]. unfold cblk_numbps. rewrite <- Hdz, Em. change (-1 <? 0) with true. cbv iota. rewrite Z.sub_0_r.
      destruct (Z.ltb_spec bn 0); lia. }
    { unfold layered_block. split; [reflexivity|]. split; [reflexivity|].
      split.
      - rewrite Ezb. lia.
      - intros l _ Hi. rewrite Hinc in Hi. discriminate. }
    split.
    { intros l. unfold b_data, contrib, bz. cbn [eb_ld eb_lp eb_data eb_npt]. cbn. lia. }
    rewrite Hacc. cbn [snd fst]. split; [lia|]. split; [reflexivity|].
    intros m idx x0 y0 _ Hdel. unfold delivered in Hdel. rewrite Hacc in Hdel. cbn [snd] in Hdel. change (0 =? 0) with true in Hdel. cbv iota in Hdel.
    unfold dec_code_block.
    replace (x0 + GM.cb_w cb - x0) with (GM.cb_w cb) by lia. replace (y0 + GM.cb_h cb - y0) with (GM.cb_h cb) by lia.
    fold wn hn cs. rewrite Hcs.
    destruct (aget key2_eqb m (res, idx)) as [ci|]; [|reflexivity].
    cbn [obs] in Hdel. injection Hdel as Hd1 Hd2. unfold should_decode. rewrite Hd1. change (zlen (@nil Z) =? 0) with true. cbn [orb negb]. reflexivity.
  - (* a block with a non-zero coefficient *)
    set (mb := find_max_bitplane data) in *.
    destruct (t1_layered_rates wn hn (GM.cb_band cb) cs Hlen Hrng) as [mb' [ps [bytes [El [Ep [Hnps [Hps [Hrates Hlast]]]]]]]].
    { fold data. fold mb. (* 0 < n: as in the single-layer case, the top plane is at least 6 *)
      destruct F0 as (_ & _ & _ & _ & _ & _ & _ & _ & _ & _ & _ & Hnpt & _).
      (* b0's pass count is 3n-2 >= 1 with n = cblk_numbps: n = 0 only for the zero block *)
      unfold cblk_numbps in E0. fold mb in E0. destruct (Z.ltb_spec mb 0); [lia|].
      destruct (Z.ltb_spec (mb + 1 - 6) 0) as [Hneg|]; [|destruct (Z.eq_dec (mb + 1 - 6) 0) as [E00|]; [|lia]].
      + exfalso. change (0 >? 0) with false in E0. cbv iota in E0.
        (* all multiples of 64: a non-zero value reaches plane 6 *)
        unfold mb, find_max_bitplane in Hneg, Hm. set (mx := max_abs data) in *.
        destruct (Z.eqb_spec mx 0); [lia|].
        assert (Hex : exists v, In v data /\ abs32 v = mx).
        { unfold mx, max_abs.
          assert (G : forall l m0, fold_left (fun m v => Z.max m (abs32 v)) l m0 = m0 \/
                                   exists v, In v l /\ abs32 v = fold_left (fun m v => Z.max m (abs32 v)) l m0).
          { induction l as [|x l IH]; intros m0; cbn [fold_left]; [left; reflexivity|].
            destruct (IH (Z.max m0 (abs32 x))) as [E|[v [Hvv E]]].
            - destruct (Z.max_spec m0 (abs32 x)) as [[_ Em]|[_ Em]].
              + right. exists x. split; [left; reflexivity|]. rewrite E, Em. reflexivity.
              + left. rewrite E, Em. reflexivity.
            - right. exists v. split; [right; exact Hvv | exact E]. }
          destruct (G data 0) as [E|H']; [unfold mx, max_abs in n; contradiction | exact H']. }
        destruct Hex as [v [Hvin Ev]]. rewrite abs32_abs in Ev by (apply Hok; exact Hvin).
        unfold data in Hvin. apply in_map_iff in Hvin as [c [<- Hc]].
        assert (Hc0 : c <> 0) by (intros ->; cbn in Ev; lia).
        assert (H64 : 64 <= mx) by (rewrite <- Ev; lia).
        assert (6 <= Z.log2 mx) by (change 6 with (Z.log2 64); apply Z.log2_le_mono; exact H64). lia.
      + exfalso. unfold mb, find_max_bitplane in E00, Hm. set (mx := max_abs data) in *.
        destruct (Z.eqb_spec mx 0); [lia|].
        assert (Hex : exists v, In v data /\ abs32 v = mx).
        { unfold mx, max_abs.
          assert (G : forall l m0, fold_left (fun m v => Z.max m (abs32 v)) l m0 = m0 \/
                                   exists v, In v l /\ abs32 v = fold_left (fun m v => Z.max m (abs32 v)) l m0).
          { induction l as [|x l IH]; intros m0; cbn [fold_left]; [left; reflexivity|].
            destruct (IH (Z.max m0 (abs32 x))) as [E|[v [Hvv E]]].
            - destruct (Z.max_spec m0 (abs32 x)) as [[_ Em]|[_ Em]].
              + right. exists x. split; [left; reflexivity|]. rewrite E, Em. reflexivity.
              + left. rewrite E, Em. reflexivity.
            - right. exists v. split; [right; exact Hvv | exact E]. }
          destruct (G data 0) as [E|H']; [unfold mx, max_abs in n; contradiction | exact H']. }
        destruct Hex as [v [Hvin Ev]]. rewrite abs32_abs in Ev by (apply Hok; exact Hvin).
        unfold data in Hvin. apply in_map_iff in Hvin as [c [<- Hc]].
        assert (Hc0 : c <> 0) by (intros ->; cbn in Ev; lia).
        assert (H64 : 64 <= mx) by (rewrite <- Ev; lia).
        assert (6 <= Z.log2 mx) by (change 6 with (Z.log2 64); apply Z.log2_le_mono; exact H64). lia. }
    fold data mb in El, Ep, Hnps.
    set (n := mb + 1 - 6) in *.
    assert (Hn : 1 <= n <= 25).
    { split; [|unfold n; lia]. assert (Hz0 : 0 <= zlen ps) by (unfold zlen; lia). destruct (Z_le_gt_dec n 0); [|lia].
      exfalso. assert (zlen ps <= -2) by lia. lia. }
    assert (Ecb : cblk_numbps data = n).
    { unfold cblk_numbps. fold mb. destruct (Z.ltb_spec mb 0); [lia|]. fold n. destruct (Z.ltb_spec n 0); [lia | reflexivity]. }
    rewrite Ecb in E0 |- *. destruct (Z.gtb_spec n 0); [|lia]. rewrite Ep in E0. injection E0 as E0.
    rewrite El.
    assert (Hpsne : ps <> []) by (intros ->; change (zlen (@nil passrec)) with 0 in Hnps; lia).
    destruct ps as [|q0 ps'] eqn:Eps; [congruence|]. rewrite <- Eps in *. clear Hpsne.
    set (zbp := if bn - n <? 0 then 0 else bn - n) in *.
    assert (Hz : 0 <= zbp < 32) by (unfold zbp; destruct (Z.ltb_spec (bn - n) 0); lia).
    assert (Hb0 : eb_data b0 = bytes /\ eb_npt b0 = n * 3 - 2 /\ eb_zbp b0 = zbp) by (rewrite <- E0; repeat split; reflexivity).
    destruct Hb0 as [Hb0d [Hb0n Hb0z]]. rewrite Hb0d in Hs0.
    set (passes := map (fun q => (p_rate q, p_actual q)) ps) in *.
    change passes with (gl_passes ps) in *.
    assert (Hpne : gl_passes ps <> []) by (rewrite Eps; discriminate).
    assert (Hzp : zlen (gl_passes ps) = n * 3 - 2) by (unfold gl_passes, zlen; rewrite map_length; exact Hnps).
    assert (Hmono : mono_alloc (gl_passes ps) row nl) by (unfold mono_alloc; apply Hrow; rewrite Hzp; lia).
    destruct (final_layer_complete (gl_passes ps) bytes nl row false Hpne Hrates Hnl Hmono) as [lp [ld [Efin [_ [Hldlen _]]]]].
    rewrite Efin.
    eexists. split; [reflexivity|]. cbn [eb_cbx eb_cby]. split; [reflexivity|]. split; [reflexivity|].
    match goal with |- layered_block nl ?b /\ _ => set (bl := b) end.
    assert (Hfin : finalized nl row (gl_passes ps) bytes bl).
    { exists lp, ld. split; [exact Efin|]. unfold bl. cbn [eb_lp eb_ld eb_data eb_npt eb_pl eb_passes eb_termall eb_included eb_nlb eb_zbp].
      repeat split; try reflexivity; try lia.
      - unfold gl_passes. rewrite map_map. reflexivity.
      - clear - Hps. revert Hps. generalize (pass_lens 0 ps). induction ps as [|q ps IH]; intros lens Hps; destruct lens; cbn [zip_passes]; constructor.
        + inversion Hps as [|? ? [Ht _] _]; subst. exact Ht.
        + apply IH. inversion Hps; assumption. }
    destruct (finalized_block_ok nl row (gl_passes ps) bytes bl Hnl Hpne ltac:(rewrite Hzp; lia) Hs0 Hrates) as [Hlb [Hsml Hacc]].
    { unfold gl_passes. apply Forall_forall. intros x Hx. apply in_map_iff in Hx as [q [<- Hq]]. cbn [fst snd].
      rewrite Forall_forall in Hps. destruct (Hps q Hq) as [_ Hr]. exact Hr. }
    { exact Hmono. } { exact Hfin. }
    replace (zlen (gl_passes ps)) with (zlen ps) in Hacc by (unfold gl_passes, zlen; rewrite map_length; reflexivity).
    rewrite Hlast in Hacc. unfold zlen in Hacc at 1. rewrite Nat2Z.id, firstn_all in Hacc. rewrite Hnps in Hacc.
    split; [exact Hlb|]. split.
    { intros l. destruct (Z_lt_ge_dec l 0) as [Hl0|Hl0]; [|destruct (Z_lt_ge_dec l nl) as [Hl1|Hl1]; [apply Hsml; lia|]].
      - (* a negative layer index reads LayerData[0] *)
        pose proof (Hsml 0 ltac:(lia)) as H00. unfold b_data, contrib, GeoLayers.layer_contribution in H00 |- *.
        unfold bl in H00 |- *. cbn [eb_ld eb_lp eb_data eb_npt] in H00 |- *.
        assert (Hzl : zlen ld = nl) by (unfold zlen; rewrite Hldlen; lia).
        destruct (Z.ltb_spec 0 (zlen ld)); [|lia]. destruct (Z.ltb_spec l (zlen ld)); [|lia].
        replace (Z.to_nat l) with (Z.to_nat 0) by lia.
        destruct (l <? zlen lp); destruct (0 <? zlen lp); cbn [snd] in H00 |- *; exact H00.
      - (* beyond the last layer: the single-layer fallback (the whole data) *)
        unfold b_data, contrib, GeoLayers.layer_contribution, bl. cbn [eb_ld eb_lp eb_data eb_npt].
        assert (Hzl : zlen ld = nl) by (unfold zlen; rewrite Hldlen; lia).
        destruct (Z.ltb_spec l (zlen ld)); [lia|]. cbn [snd]. exact Hs0. }
    rewrite Hacc. cbn [fst snd]. split; [lia|]. split; [intros E00; lia|].
    intros m idx x0 y0 Hband Hdel. unfold delivered in Hdel. rewrite Hacc in Hdel. cbn [fst snd] in Hdel.
    destruct (Z.eqb_spec (n * 3 - 2) 0); [lia|].
    destruct Hdel as [ci [Hget [D1 [D2 [D3 [D4 D5]]]]]].
    destruct F0 as (_ & _ & _ & _ & _ & _ & _ & _ & _ & _ & _ & _ & Fd).
    apply (Fd m idx x0 y0 ci Hband Hget). unfold delivers. rewrite Hb0d, Hb0n, Hb0z.
    unfold bl in D3. cbn [eb_zbp] in D3. repeat split; assumption.
Qed.

End LBlock.
