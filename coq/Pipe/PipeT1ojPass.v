(* Tier-1 lockstep for the tile decoder's call of the block decoder, part (ii): the scan-order
   fold.  Generalised copy of the Block section of T1/T1ProofsPass.v: encoder pass at plane bp
   (6 <= bp <= 30), decoder pass at plane bp - 5 with the OpenJPEG reconstruction. *)
From V Require Import Common.Base T1.T1Store T1.T1Ctx T1.T1Model T1.T1ProofsBase T1.T1ProofsSample T1.T1ProofsPass.
From V Require Import Pipe.PipeT1ojSample.

Section Block.
Variables (wn hn : nat) (V : tree) (orient style : Z).
Let w := Z.of_nat wn.
Let h := Z.of_nat hn.
Hypothesis HV : Vbound w h V.

Lemma oHw0 : 0 <= w. Proof. unfold w. lia. Qed.
Lemma oHh0 : 0 <= h. Proof. unfold h. lia. Qed.

Lemma oDInv_ext : forall F D P P', ODInv w h V F D P ->
  (forall x y, inblock w h x y -> P' x y = P x y) -> ODInv w h V F D P'.
Proof. intros F D P P' HI HP x y Hin. rewrite HP by exact Hin. apply HI. exact Hin. Qed.

Lemma oRfd_ext : forall (P P' : tree -> Z -> Z -> Z) Fe t, ORfd w h V P Fe t ->
  (forall x y, inblock w h x y -> P' Fe x y = P Fe x y) -> ORfd w h V P' Fe t.
Proof. intros P P' Fe t [HF HI] HP. split; [exact HF|]. eapply oDInv_ext; eauto. Qed.

(* ---------- cursor transitions ---------- *)
Lemma odoneb_next_col : forall s x x' y', 0 <= s -> 4 * s < h -> inblock w h x' y' ->
  doneb s x (Z.min 4 (h - 4 * s)) x' y' = doneb s (x + 1) 0 x' y'.
Proof.
  intros s x x' y' Hs Hin [Hx' Hy'].
  destruct (doneb s (x + 1) 0 x' y') eqn:E.
  - apply doneb_true in E. apply doneb_true. lia.
  - apply doneb_false in E. apply doneb_false. lia.
Qed.

Lemma odoneb_next_stripe : forall s x' y', inblock w h x' y' -> doneb s w 0 x' y' = doneb (s + 1) 0 0 x' y'.
Proof.
  intros s x' y' [Hx' Hy'].
  destruct (doneb (s + 1) 0 0 x' y') eqn:E.
  - apply doneb_true in E. apply doneb_true. lia.
  - apply doneb_false in E. apply doneb_false. lia.
Qed.

Lemma odoneb_start : forall x' y', inblock w h x' y' -> doneb 0 0 0 x' y' = false.
Proof. intros x' y' [Hx' Hy']. apply doneb_false. lia. Qed.

Lemma odoneb_end : forall x' y', inblock w h x' y' -> doneb ((h + 3) / 4) 0 0 x' y' = true.
Proof.
  intros x' y' [Hx' Hy']. apply doneb_true. left.
  pose proof (Z.div_mod (h + 3) 4 ltac:(lia)). pose proof (Z.mod_pos_bound (h + 3) 4 ltac:(lia)). lia.
Qed.

(* ---------- plane maps at the pass boundaries ---------- *)
Definition oPmid (bp : Z) (F : tree) (x y : Z) : Z :=
  if visb F (idx_of w x y) || sigb F (idx_of w x y) then bp else bp + 1.
Definition oPdone (bp : Z) (F : tree) (x y : Z) : Z := bp.

(* ---------- significance propagation pass ---------- *)
Lemma ospp_pass_lockstep : forall bp raw, 6 <= bp <= 30 ->
  lockstep (enc_pass wn hn orient style bp 0 raw V) (dec_pass ideal_ask wn hn orient style (bp - 5) 0 raw true)
           (ORfd w h V (Pspp w bp)) (ORfd w h V (Pspp w bp)).
Proof.
  intros bp raw Hbp. unfold enc_pass, dec_pass. change (0 =? 0) with true. cbv iota. fold w h.
  apply (nest3_lockstep wn h (fun s x dy => enc_spp_sample w orient bp raw V x (4 * s + dy))
           (fun s x dy => dec_spp_sample ideal_ask w orient (bp - 5) raw true x (4 * s + dy))
           (fun _ _ _ => ORfd w h V (Pspp w bp)) oHh0); auto.
  intros s x dy Hs Hin Hx Hdy. apply ospp_sample_lockstep; [exact HV|exact Hbp|].
  unfold inblock. fold w in Hx. lia.
Qed.

(* ---------- magnitude refinement pass ---------- *)
Lemma omrp_pass_lockstep : forall bp raw, 6 <= bp <= 30 ->
  lockstep (enc_pass wn hn orient style bp 1 raw V) (dec_pass ideal_ask wn hn orient style (bp - 5) 1 raw true)
           (ORfd w h V (Pspp w bp)) (ORfd w h V (oPmid bp)).
Proof.
  intros bp raw Hbp. unfold enc_pass, dec_pass. change (1 =? 0) with false. change (1 =? 1) with true. cbv iota. fold w h.
  apply (lockstep_conseq _ _ (ORfd w h V (Pmrp w bp 0 0 0)) (ORfd w h V (Pmrp w bp ((h + 3) / 4) 0 0))).
  - intros Fe t Hr. apply (oRfd_ext _ _ _ _ Hr). intros x y Hin. unfold Pmrp, Pspp.
    rewrite odoneb_start by exact Hin. rewrite andb_false_r, orb_false_r. reflexivity.
  - intros Fe t Hr. apply (oRfd_ext _ _ _ _ Hr). intros x y Hin. unfold Pmrp, oPmid.
    rewrite odoneb_end by exact Hin. rewrite andb_true_r. reflexivity.
  - apply (nest3_lockstep wn h (fun s x dy => enc_mrp_sample w bp raw V x (4 * s + dy))
             (fun s x dy => dec_mrp_sample ideal_ask w (bp - 5) raw true x (4 * s + dy))
             (fun s x dy => ORfd w h V (Pmrp w bp s x dy)) oHh0).
    + intros s x dy Hs Hin Hx Hdy. apply omrp_sample_lockstep; [exact HV|exact Hbp|lia|].
      unfold inblock. fold w in Hx. lia.
    + intros s x Fe t Hs Hin Hx Hr. apply (oRfd_ext _ _ _ _ Hr). intros x' y' Hin'. unfold Pmrp.
      rewrite odoneb_next_col by assumption. reflexivity.
    + intros s Fe t Hs Hin Hr. apply (oRfd_ext _ _ _ _ Hr). intros x' y' Hin'. unfold Pmrp.
      fold w. rewrite odoneb_next_stripe by assumption. reflexivity.
Qed.

(* ---------- cleanup pass ---------- *)
(* the cursor moves over an unvisited insignificant sample whose bit in plane bp is 0 *)
Lemma ocup_skip_zero : forall bp s x dy F D, 0 <= bp -> 0 <= dy < 4 -> inblock w h x (4 * s + dy) ->
  visb F (idx_of w x (4 * s + dy)) = false -> sigb F (idx_of w x (4 * s + dy)) = false ->
  bit_at (fget V (idx_of w x (4 * s + dy))) bp = 0 ->
  ODInv w h V F D (Pcup w bp s x dy F) -> ODInv w h V F D (Pcup w bp s x (dy + 1) F).
Proof.
  intros bp s x dy F D Hbp Hdy Hin Hv Hs Hb HI.
  apply (odinv_step w h V F D (Pcup w bp s x dy F) F D (Pcup w bp s x (dy + 1) F) x (4 * s + dy) Hin HI).
  - apply self_off_refl.
  - intros; reflexivity.
  - intros x' y' Hin' Hne. unfold Pcup. rewrite doneb_step_other; [reflexivity|exact Hdy|exact Hne].
  - pose proof (HI x (4 * s + dy) Hin) as H0. unfold Pcup in *.
    rewrite doneb_after_cursor by exact Hdy. rewrite doneb_at_cursor in H0 by exact Hdy.
    rewrite Hv, Hs in H0. cbn [orb] in H0. rewrite Hs in *.
    apply (osamp_code_insig _ _ _ _ bp _ ltac:(lia) (or_intror eq_refl) H0 (bit_at_abs w h V HV x (4 * s + dy) bp Hin)).
    exact Hb.
Qed.

Lemma orl_sample_ok_spec : forall F x y, rl_sample_ok F w x y = true ->
  visb F (idx_of w x y) = false /\ sigb F (idx_of w x y) = false.
Proof.
  intros F x y H. unfold rl_sample_ok in H. apply andb_true_iff in H. destruct H as [H1 H2].
  apply negb_true_iff in H1. apply negb_true_iff in H2. apply orb_false_iff in H2. destruct H2 as [H2 _].
  unfold visb, sigb. auto.
Qed.

Lemma oRcup_of_Rfd : forall bp s x Fe Fd D, ORfd w h V (Pcup w bp s x 0) Fe (Fd, D) ->
  ORcup w h V bp s x 0 (Fe, false) ((Fd, D), false).
Proof.
  intros bp s x Fe Fd D [HF HI]. cbn [fst snd] in HF, HI. unfold Rcup. cbn [fst snd].
  repeat split; auto; discriminate.
Qed.

Lemma oRfd_of_Rcup : forall bp s x se t, 0 <= s -> 4 * s < h ->
  ORcup w h V bp s x (Z.min 4 (h - 4 * s)) se t ->
  ORfd w h V (Pcup w bp s (x + 1) 0) (fst se) (fst t).
Proof.
  intros bp s x [Fe pe] [[Fd D] pd] Hs Hin (HF & _ & HI & _). cbn [fst snd] in *. split; [exact HF|]. cbn [snd].
  apply (oDInv_ext _ _ _ _ HI). intros x' y' Hin'. unfold Pcup. rewrite odoneb_next_col by assumption. reflexivity.
Qed.

Lemma ocup_col_lockstep : forall bp s x, 6 <= bp <= 30 -> 0 <= s -> 4 * s < h -> 0 <= x < w ->
  lockstep (enc_cup_col w h orient bp V (4 * s) (stripe_rows h s) x)
           (dec_cup_col ideal_ask w h orient (bp - 5) true (4 * s) (stripe_rows h s) x)
           (ORfd w h V (Pcup w bp s x 0)) (ORfd w h V (Pcup w bp s (x + 1) 0)).
Proof.
  intros bp s x Hbp Hs Hin Hx Fe [Fd D] Hr tl ps.
  assert (HF : Fe = Fd) by apply Hr. subst Fd.
  assert (Hsample : forall dy, 0 <= dy < Z.min 4 (h - 4 * s) ->
            lockstep (enc_cup_sample w orient bp V x (4 * s + dy))
                     (dec_cup_sample ideal_ask w orient (bp - 5) true x (4 * s + dy))
                     (ORcup w h V bp s x dy) (ORcup w h V bp s x (dy + 1))).
  { intros dy Hdy. apply ocup_sample_lockstep; [exact HV|exact Hbp|lia|]. unfold inblock. lia. }
  unfold enc_cup_col, dec_cup_col.
  destruct ((4 * s + 3 <? h) && rl_ok Fe w x (4 * s)) eqn:Erl.
  - (* run-length mode *)
    apply andb_true_iff in Erl. destruct Erl as [Efull Eok]. apply Z.ltb_lt in Efull.
    assert (Hmin : Z.min 4 (h - 4 * s) = 4) by lia.
    unfold rl_ok in Eok. apply andb_true_iff in Eok. destruct Eok as [Eok E3].
    apply andb_true_iff in Eok. destruct Eok as [Eok E2]. apply andb_true_iff in Eok. destruct Eok as [E0 E1].
    apply orl_sample_ok_spec in E0. apply orl_sample_ok_spec in E1. apply orl_sample_ok_spec in E2. apply orl_sample_ok_spec in E3.
    replace (4 * s) with (4 * s + 0) in E0 by lia.
    destruct E0 as [Ev0 Es0]. destruct E1 as [Ev1 Es1]. destruct E2 as [Ev2 Es2]. destruct E3 as [Ev3 Es3].
    destruct Hr as [_ HI]. cbn [snd] in HI.
    assert (Hin0 : inblock w h x (4 * s + 0)) by (unfold inblock; lia).
    assert (Hin1 : inblock w h x (4 * s + 1)) by (unfold inblock; lia).
    assert (Hin2 : inblock w h x (4 * s + 2)) by (unfold inblock; lia).
    assert (Hin3 : inblock w h x (4 * s + 3)) by (unfold inblock; lia).
    (* the tail loop from row `pos` on, entered with partial = true *)
    assert (Htail : forall pos, 0 <= pos < 4 ->
              ODInv w h V Fe D (Pcup w bp s x pos Fe) ->
              visb Fe (idx_of w x (4 * s + pos)) = false -> sigb Fe (idx_of w x (4 * s + pos)) = false ->
              bit_at (fget V (idx_of w x (4 * s + pos))) bp <> 0 ->
              forall tl ps, exists t',
                loop_d (Z.to_nat (4 - pos)) pos (fun dy => dec_cup_sample ideal_ask w orient (bp - 5) true x (4 * s + dy))
                       (((Fe, D), true),
                        (snd (loop_e (Z.to_nat (4 - pos)) pos (fun dy => enc_cup_sample w orient bp V x (4 * s + dy)) (Fe, true)) ++ tl, ps))
                  = Ok (t', (tl, ps)) /\
                ORfd w h V (Pcup w bp s (x + 1) 0)
                    (fst (fst (loop_e (Z.to_nat (4 - pos)) pos (fun dy => enc_cup_sample w orient bp V x (4 * s + dy)) (Fe, true))))
                    (fst t')).
    { intros pos Hpos HIp Hvp Hsp Hbp' tl' ps'.
      pose proof (loop_lockstep (Z.to_nat (4 - pos)) pos
                    (fun dy => enc_cup_sample w orient bp V x (4 * s + dy))
                    (fun dy => dec_cup_sample ideal_ask w orient (bp - 5) true x (4 * s + dy))
                    (fun dy => ORcup w h V bp s x dy)) as HL.
      assert (Hsteps : forall i, pos <= i < pos + Z.of_nat (Z.to_nat (4 - pos)) ->
                lockstep (enc_cup_sample w orient bp V x (4 * s + i)) (dec_cup_sample ideal_ask w orient (bp - 5) true x (4 * s + i))
                         (ORcup w h V bp s x i) (ORcup w h V bp s x (i + 1))).
      { intros i Hi. apply Hsample. lia. }
      specialize (HL Hsteps (Fe, true) ((Fe, D), true)).
      assert (Hpre : ORcup w h V bp s x pos (Fe, true) ((Fe, D), true)).
      { unfold Rcup. cbn [fst snd]. repeat split; auto. }
      destruct (HL Hpre tl' ps') as (t' & Ed & Hpost). exists t'. split; [exact Ed|].
      replace (pos + Z.of_nat (Z.to_nat (4 - pos))) with (Z.min 4 (h - 4 * s)) in Hpost by lia.
      apply (oRfd_of_Rcup bp s x _ _ Hs Hin Hpost). }
    unfold rl_pos.
    destruct (bit_at (fget V (idx_of w x (4 * s))) bp =? 0) eqn:B0; cbn [negb].
    2:{ (* pos = 0 *)
      apply Z.eqb_neq in B0. replace (4 * s) with (4 * s + 0) in B0 at 1 by lia.
      change (0 <? 0) with false. cbv iota.
      destruct (Htail 0 ltac:(lia) HI Ev0 Es0 B0 tl ps) as (t' & Ed & Hpost).
      destruct (loop_e (Z.to_nat (4 - 0)) 0 (fun dy => enc_cup_sample w orient bp V x (4 * s + dy)) (Fe, true)) as [st o] eqn:El.
      cbn [fst snd] in Ed, Hpost |- *. exists (fst t').
      split; [|exact Hpost].
      cbn [app]. rewrite ideal_ask_hit. cbn [obind]. change (1 =? 0) with false. cbv iota.
      rewrite ideal_ask_hit. cbn [obind]. rewrite ideal_ask_hit. cbn [obind].
      change (Z.lor (Z.shiftl (Z.land (Z.shiftr 0 1) 1) 1) (Z.land 0 1)) with 0.
      obind_step Ed. cbn [obind]. destruct t' as [[t1 p1] c1]. reflexivity. }
    apply Z.eqb_eq in B0. replace (4 * s) with (4 * s + 0) in B0 at 1 by lia.
    pose proof (ocup_skip_zero bp s x 0 Fe D ltac:(lia) ltac:(lia) Hin0 Ev0 Es0 B0 HI) as HI1. cbn [Z.add] in HI1.
    destruct (bit_at (fget V (idx_of w x (4 * s + 1))) bp =? 0) eqn:B1; cbn [negb].
    2:{ (* pos = 1 *)
      apply Z.eqb_neq in B1.
      change (1 <? 0) with false. cbv iota.
      destruct (Htail 1 ltac:(lia) HI1 Ev1 Es1 B1 tl ps) as (t' & Ed & Hpost).
      destruct (loop_e (Z.to_nat (4 - 1)) 1 (fun dy => enc_cup_sample w orient bp V x (4 * s + dy)) (Fe, true)) as [st o] eqn:El.
      cbn [fst snd] in Ed, Hpost |- *. exists (fst t').
      split; [|exact Hpost].
      cbn [app]. rewrite ideal_ask_hit. cbn [obind]. change (1 =? 0) with false. cbv iota.
      rewrite ideal_ask_hit. cbn [obind]. rewrite ideal_ask_hit. cbn [obind].
      change (Z.lor (Z.shiftl (Z.land (Z.shiftr 1 1) 1) 1) (Z.land 1 1)) with 1.
      obind_step Ed. cbn [obind]. destruct t' as [[t1 p1] c1]. reflexivity. }
    apply Z.eqb_eq in B1.
    pose proof (ocup_skip_zero bp s x 1 Fe D ltac:(lia) ltac:(lia) Hin1 Ev1 Es1 B1 HI1) as HI2. cbn [Z.add] in HI2.
    destruct (bit_at (fget V (idx_of w x (4 * s + 2))) bp =? 0) eqn:B2; cbn [negb].
    2:{ (* pos = 2 *)
      apply Z.eqb_neq in B2.
      change (2 <? 0) with false. cbv iota.
      destruct (Htail 2 ltac:(lia) HI2 Ev2 Es2 B2 tl ps) as (t' & Ed & Hpost).
      destruct (loop_e (Z.to_nat (4 - 2)) 2 (fun dy => enc_cup_sample w orient bp V x (4 * s + dy)) (Fe, true)) as [st o] eqn:El.
      cbn [fst snd] in Ed, Hpost |- *. exists (fst t').
      split; [|exact Hpost].
      cbn [app]. rewrite ideal_ask_hit. cbn [obind]. change (1 =? 0) with false. cbv iota.
      rewrite ideal_ask_hit. cbn [obind]. rewrite ideal_ask_hit. cbn [obind].
      change (Z.lor (Z.shiftl (Z.land (Z.shiftr 2 1) 1) 1) (Z.land 2 1)) with 2.
      obind_step Ed. cbn [obind]. destruct t' as [[t1 p1] c1]. reflexivity. }
    apply Z.eqb_eq in B2.
    pose proof (ocup_skip_zero bp s x 2 Fe D ltac:(lia) ltac:(lia) Hin2 Ev2 Es2 B2 HI2) as HI3. cbn [Z.add] in HI3.
    destruct (bit_at (fget V (idx_of w x (4 * s + 3))) bp =? 0) eqn:B3; cbn [negb].
    2:{ (* pos = 3 *)
      apply Z.eqb_neq in B3.
      change (3 <? 0) with false. cbv iota.
      destruct (Htail 3 ltac:(lia) HI3 Ev3 Es3 B3 tl ps) as (t' & Ed & Hpost).
      destruct (loop_e (Z.to_nat (4 - 3)) 3 (fun dy => enc_cup_sample w orient bp V x (4 * s + dy)) (Fe, true)) as [st o] eqn:El.
      cbn [fst snd] in Ed, Hpost |- *. exists (fst t').
      split; [|exact Hpost].
      cbn [app]. rewrite ideal_ask_hit. cbn [obind]. change (1 =? 0) with false. cbv iota.
      rewrite ideal_ask_hit. cbn [obind]. rewrite ideal_ask_hit. cbn [obind].
      change (Z.lor (Z.shiftl (Z.land (Z.shiftr 3 1) 1) 1) (Z.land 3 1)) with 3.
      obind_step Ed. cbn [obind]. destruct t' as [[t1 p1] c1]. reflexivity. }
    (* no bit set in the column: a single run-length symbol 0 *)
    apply Z.eqb_eq in B3.
    pose proof (ocup_skip_zero bp s x 3 Fe D ltac:(lia) ltac:(lia) Hin3 Ev3 Es3 B3 HI3) as HI4. cbn [Z.add] in HI4.
    change (-1 <? 0) with true. cbv iota. cbn [fst snd app].
    exists (Fe, D). split.
    + rewrite ideal_ask_hit. cbn [obind]. reflexivity.
    + split; [reflexivity|]. cbn [snd]. apply (oDInv_ext _ _ _ _ HI4). intros x' y' Hin'. unfold Pcup.
      rewrite <- (odoneb_next_col s x x' y' Hs Hin Hin'). rewrite Hmin. reflexivity.
  - (* normal mode: the rows of the stripe one by one *)
    pose proof (loop_lockstep (stripe_rows h s) 0
                  (fun dy => enc_cup_sample w orient bp V x (4 * s + dy))
                  (fun dy => dec_cup_sample ideal_ask w orient (bp - 5) true x (4 * s + dy))
                  (fun dy => ORcup w h V bp s x dy)) as HL.
    assert (Hsteps : forall i, 0 <= i < 0 + Z.of_nat (stripe_rows h s) ->
              lockstep (enc_cup_sample w orient bp V x (4 * s + i)) (dec_cup_sample ideal_ask w orient (bp - 5) true x (4 * s + i))
                       (ORcup w h V bp s x i) (ORcup w h V bp s x (i + 1))).
    { intros i Hi. rewrite stripe_rows_Z in Hi by exact Hin. apply Hsample. lia. }
    specialize (HL Hsteps (Fe, false) ((Fe, D), false) (oRcup_of_Rfd bp s x Fe Fe D Hr) tl ps).
    destruct HL as (t' & Ed & Hpost).
    destruct (loop_e (stripe_rows h s) 0 (fun dy => enc_cup_sample w orient bp V x (4 * s + dy)) (Fe, false)) as [st o] eqn:El.
    cbn [fst snd] in Ed, Hpost |- *. exists (fst t'). split.
    + obind_step Ed. cbn [obind]. destruct t' as [[t1 p1] c1]. reflexivity.
    + rewrite stripe_rows_Z in Hpost by exact Hin. cbn [Z.add] in Hpost.
      apply (oRfd_of_Rcup bp s x _ _ Hs Hin Hpost).
Qed.

Lemma osegsym_lockstep : forall (t : dstate) tl ps,
  dec_segsym ideal_ask (segsym_syms ++ tl, ps) = Ok (tl, ps).
Proof.
  intros. unfold dec_segsym, segsym_syms. cbn [app].
  rewrite ideal_ask_hit. cbn [obind fst]. rewrite ideal_ask_hit. cbn [obind fst].
  rewrite ideal_ask_hit. cbn [obind fst]. rewrite ideal_ask_hit. cbn [obind fst]. reflexivity.
Qed.

Lemma ocup_pass_lockstep : forall bp raw, 6 <= bp <= 30 ->
  lockstep (enc_pass wn hn orient style bp 2 raw V) (dec_pass ideal_ask wn hn orient style (bp - 5) 2 raw true)
           (ORfd w h V (oPmid bp)) (ORfd w h V (oPdone bp)).
Proof.
  intros bp raw Hbp.
  assert (Hloops : lockstep
            (loop_e (nstripes h) 0 (fun s => loop_e wn 0 (fun x => enc_cup_col w h orient bp V (4 * s) (stripe_rows h s) x)))
            (loop_d (nstripes h) 0 (fun s => loop_d wn 0 (fun x => dec_cup_col ideal_ask w h orient (bp - 5) true (4 * s) (stripe_rows h s) x)))
            (ORfd w h V (oPmid bp)) (ORfd w h V (oPdone bp))).
  { apply (lockstep_conseq _ _ (ORfd w h V (Pcup w bp 0 0 0)) (ORfd w h V (Pcup w bp ((h + 3) / 4) 0 0))).
    - intros Fe t Hr. apply (oRfd_ext _ _ _ _ Hr). intros x y Hin. unfold Pcup, oPmid.
      rewrite odoneb_start by exact Hin. reflexivity.
    - intros Fe t Hr. apply (oRfd_ext _ _ _ _ Hr). intros x y Hin. unfold Pcup, oPdone.
      rewrite odoneb_end by exact Hin. reflexivity.
    - apply (nest2_lockstep wn h (fun s x => enc_cup_col w h orient bp V (4 * s) (stripe_rows h s) x)
               (fun s x => dec_cup_col ideal_ask w h orient (bp - 5) true (4 * s) (stripe_rows h s) x)
               (fun s x => ORfd w h V (Pcup w bp s x 0)) oHh0).
      + intros s x Hs Hin Hx. apply ocup_col_lockstep; try assumption.
      + intros s Fe t Hs Hin Hr. apply (oRfd_ext _ _ _ _ Hr). intros x' y' Hin'. unfold Pcup.
        fold w. rewrite odoneb_next_stripe by assumption. reflexivity. }
  intros Fe t Hr tl ps. unfold enc_pass, dec_pass.
  change (2 =? 0) with false. change (2 =? 1) with false. cbv iota. fold w h.
  destruct (negb (Z.land style CblkStyleSegsym =? 0)) eqn:Eseg.
  - destruct (Hloops Fe t Hr (segsym_syms ++ tl) ps) as (t' & Ed & Hpost).
    destruct (loop_e (nstripes h) 0 (fun s => loop_e wn 0 (fun x => enc_cup_col w h orient bp V (4 * s) (stripe_rows h s) x)) Fe) as [F1 o] eqn:El.
    cbn [fst snd] in Ed, Hpost |- *. exists t'. split; [|exact Hpost].
    rewrite <- app_assoc. obind_step Ed. cbn [obind snd fst]. rewrite (osegsym_lockstep t'). reflexivity.
  - destruct (Hloops Fe t Hr tl ps) as (t' & Ed & Hpost).
    destruct (loop_e (nstripes h) 0 (fun s => loop_e wn 0 (fun x => enc_cup_col w h orient bp V (4 * s) (stripe_rows h s) x)) Fe) as [F1 o] eqn:El.
    cbn [fst snd] in Ed, Hpost |- *. exists t'. split; [|exact Hpost].
    obind_step Ed. cbn [obind]. reflexivity.
Qed.

End Block.
