(* normalizePassRates (T1Bytes.normalize_rev), generic facts: whatever the un-normalised pass
   records are (non-negative Rate / ActualBytes), the normalised Rate table is non-decreasing,
   within [0, lastRate], ActualBytes is within [0, Rate], the Terminated flags are kept; read
   through GeoLayers.rate_at this is GeoProofsLayers.rates_ok.  No MQ / T1 proof is used. *)
From V Require Import Common.Base T1.T1Store T1.T1Ctx T1.T1Model T1.T1Bytes J2KGeo.GeoLayers J2KGeo.GeoProofsLayers.

Definition glp (q : passrec) : pass := (p_rate q, p_actual q).
Definition pr0 : passrec := mkPass 0 0 0 0 false.

(* the result of normalize_rev (last pass first): rates descend from L, actual within [0, rate] *)
Fixpoint dchain (L : Z) (out : list passrec) : Prop :=
  match out with
  | [] => True
  | q :: r => 0 <= p_actual q <= p_rate q /\ p_rate q <= L /\ dchain (p_rate q) r
  end.

Lemma normalize_rev_dchain : forall data ps L, 0 <= L ->
  Forall (fun q => 0 <= p_actual q /\ 0 <= p_rate q) ps ->
  dchain L (normalize_rev data ps L).
Proof.
  intros data ps. induction ps as [|p r IH]; intros L HL Hps; cbn [normalize_rev dchain]; [exact I|].
  pose proof (Forall_inv Hps) as [Ha Hr]. pose proof (Forall_inv_tail Hps) as Hps'.
  cbv zeta.
  set (rate1 := if L <? p_rate p then L else p_rate p).
  assert (H1 : 0 <= rate1 <= L) by (unfold rate1; destruct (Z.ltb_spec L (p_rate p)); lia).
  set (ff := (0 <? rate1) && (rate1 <=? zlen data) && (znth data (rate1 - 1) 0 =? 255)).
  set (rate2 := if ff then rate1 - 1 else rate1).
  assert (H2 : 0 <= rate2 <= L).
  { unfold rate2. destruct ff eqn:Eff; [|lia]. unfold ff in Eff.
    apply andb_true_iff in Eff. destruct Eff as [Eff _]. apply andb_true_iff in Eff. destruct Eff as [E1 _].
    apply Z.ltb_lt in E1. lia. }
  cbn [p_rate p_actual].
  split; [destruct (Z.ltb_spec rate2 (p_actual p)); lia|].
  split; [lia|]. apply IH; [lia|exact Hps'].
Qed.

Lemma normalize_rev_term : forall data ps L, map p_term (normalize_rev data ps L) = map p_term ps.
Proof.
  intros data ps. induction ps as [|p r IH]; intros L; cbn [normalize_rev map]; [reflexivity|].
  cbv zeta. cbn [p_term]. f_equal. apply IH.
Qed.

Lemma normalize_rev_len : forall data ps L, length (normalize_rev data ps L) = length ps.
Proof. intros data ps. induction ps as [|p r IH]; intros L; cbn [normalize_rev length]; [reflexivity|]. rewrite IH. reflexivity. Qed.

(* the first record processed (= the last pass) when its Rate is at least lastRate and the
   0xFF adjustment does not fire *)
Lemma normalize_rev_first : forall data p r L, 0 <= L -> L <= p_rate p ->
  (L <= 0 \/ znth data (L - 1) 0 <> 255) ->
  exists q, normalize_rev data (p :: r) L = q :: normalize_rev data r L /\ p_rate q = L.
Proof.
  intros data p r L HL Hp Hff. cbn [normalize_rev]. cbv zeta.
  assert (E1 : (if L <? p_rate p then L else p_rate p) = L) by (destruct (Z.ltb_spec L (p_rate p)); lia).
  rewrite E1.
  assert (Eff : (0 <? L) && (L <=? zlen data) && (znth data (L - 1) 0 =? 255) = false).
  { destruct Hff as [H|H].
    - replace (0 <? L) with false by (symmetry; apply Z.ltb_ge; lia). reflexivity.
    - replace (znth data (L - 1) 0 =? 255) with false by (symmetry; apply Z.eqb_neq; exact H). apply andb_false_r. }
  rewrite Eff. eexists. split; reflexivity.
Qed.

Lemma dchain_Forall : forall out L, dchain L out -> Forall (fun q => 0 <= p_actual q <= p_rate q) out.
Proof.
  induction out as [|q r IH]; intros L H; [constructor|]. cbn [dchain] in H. destruct H as (H1 & _ & H3).
  constructor; [exact H1|exact (IH _ H3)].
Qed.

Lemma dchain_nth : forall out L, dchain L out -> forall i j, (i <= j < length out)%nat ->
  0 <= p_rate (nth j out pr0) <= p_rate (nth i out pr0) /\ p_rate (nth i out pr0) <= L.
Proof.
  induction out as [|q r IH]; intros L H i j Hij; [cbn [length] in Hij; lia|].
  cbn [dchain] in H. destruct H as (H1 & H2 & H3). cbn [length] in Hij.
  destruct i as [|i]; destruct j as [|j]; cbn [nth]; try lia.
  - destruct (IH _ H3 j j ltac:(lia)) as [Ha Hb]. lia.
  - destruct (IH _ H3 i j ltac:(lia)) as [Ha Hb]. lia.
Qed.

(* ---------- reading the table through GeoLayers.rate_at ---------- *)
Lemma pass_rate_glp : forall q, 0 <= p_actual q <= p_rate q -> pass_rate (glp q) = p_rate q.
Proof. intros q H. unfold pass_rate, glp. cbn [fst snd]. destruct (Z.eqb_spec (p_rate q) 0); lia. Qed.

Lemma rate_at_glp : forall l k, rate_at (map glp l) k = pass_rate (glp (nth (Z.to_nat (k - 1)) l pr0)).
Proof. intros l k. unfold rate_at. change (0, 0) with (glp pr0). rewrite map_nth. reflexivity. Qed.

Lemma rate_at_last : forall l q, 0 <= p_actual q <= p_rate q ->
  rate_at (map glp (l ++ [q])) (zlen (l ++ [q])) = p_rate q.
Proof.
  intros l q H. rewrite rate_at_glp. unfold zlen. rewrite app_length. cbn [length].
  replace (Z.to_nat (Z.of_nat (length l + 1) - 1)) with (length l) by lia.
  rewrite nth_middle. apply pass_rate_glp. exact H.
Qed.

Lemma dchain_rates_ok : forall out L, dchain L out -> rates_ok (map glp (rev out)) L.
Proof.
  intros out L H.
  assert (Hz : zlen (map glp (rev out)) = Z.of_nat (length out)) by (unfold zlen; rewrite map_length, rev_length; reflexivity).
  pose proof (dchain_Forall _ _ H) as HF. rewrite Forall_forall in HF.
  assert (Hr : forall k, 1 <= k <= Z.of_nat (length out) ->
            rate_at (map glp (rev out)) k = p_rate (nth (length out - S (Z.to_nat (k - 1))) out pr0)).
  { intros k Hk. rewrite rate_at_glp. rewrite rev_nth by lia. apply pass_rate_glp. apply HF. apply nth_In. lia. }
  split.
  - intros k Hk. rewrite Hz in Hk. rewrite (Hr k Hk).
    destruct (dchain_nth _ _ H (length out - S (Z.to_nat (k - 1)))%nat (length out - S (Z.to_nat (k - 1)))%nat ltac:(lia)) as [Ha Hb].
    lia.
  - intros j k Hj Hjk Hk. rewrite Hz in Hk. rewrite (Hr j ltac:(lia)), (Hr k ltac:(lia)).
    destruct (dchain_nth _ _ H (length out - S (Z.to_nat (k - 1)))%nat (length out - S (Z.to_nat (j - 1)))%nat ltac:(lia)) as [Ha Hb].
    lia.
Qed.

(* ---------- what EncodeLayered returns:  rev (normalize_rev data (rev ps) (len data)) ---------- *)
Theorem normalized_rates_ok : forall data ps,
  Forall (fun q => 0 <= p_actual q /\ 0 <= p_rate q) ps ->
  let ps' := rev (normalize_rev data (rev ps) (zlen data)) in
  length ps' = length ps /\
  map p_term ps' = map p_term ps /\
  Forall (fun q => 0 <= p_actual q <= p_rate q) ps' /\
  rates_ok (map glp ps') (zlen data).
Proof.
  intros data ps Hps. cbv zeta.
  assert (Hd : 0 <= zlen data) by (unfold zlen; lia).
  pose proof (normalize_rev_dchain data (rev ps) (zlen data) Hd (Forall_rev Hps)) as Hch.
  split; [rewrite rev_length, normalize_rev_len, rev_length; reflexivity|].
  split; [rewrite map_rev, normalize_rev_term, <- map_rev, rev_involutive; reflexivity|].
  split; [apply Forall_rev; exact (dchain_Forall _ _ Hch)|].
  apply dchain_rates_ok. exact Hch.
Qed.
