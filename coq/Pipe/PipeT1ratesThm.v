(* The Rate table of EncodeLayered for the top-level encoder's call (code-block style 0,
   nmseDecFracBits = 6, all 3n-2 passes coded): one MQ codeword closed by Flush, no pass is
   terminated, and after normalizePassRates the table read by the quality-layer code
   (GeoLayers.rate_at) is non-decreasing, within [0, len bytes], and its LAST entry is exactly
   len(bytes):
     - the un-normalised Rate of the last pass is NumBytes + 3 >= len(Flush())  (flush_len_bound),
       so it is clamped to lastRate = len(bytes);
     - the 0xFF adjustment does not fire there, because a flushed MQ codeword never ends with
       0xFF (MqProofs.enc_flush_no_marker).
   Generic part (any pass records): PipeT1ratesNorm.v. *)
From V Require Import Common.Base MQ.MqModel MQ.MqProofs MQ.MqProofsDec MQ.MqProofsRt MQ.MqProofsRt2.
From V Require Import T1.T1Store T1.T1Ctx T1.T1CtxProofs T1.T1Model T1.T1Bytes T1.T1ProofsBase T1.T1ProofsSample
  T1.T1ProofsSeq T1.T1ProofsFinal T1.T1ProofsSim T1.T1ProofsMqRt T1.T1ProofsComp T1.T1ProofsCompThm
  T1.T1ProofsTermEnc T1.T1ProofsLazyLayered.
From V Require Import J2KGeo.GeoLayers J2KGeo.GeoProofsLayers.
From V Require Import Pipe.PipeT1ratesNorm.

Definition gl_passes (ps : list passrec) : list pass := map (fun q => (p_rate q, p_actual q)) ps.

(* ---------- the encoder loop without LAZY / TERMALL / RESET above bit-plane 0 ---------- *)
Lemma num_bytes_nonneg : forall e, 0 <= enc_num_bytes e.
Proof. intros e. unfold enc_num_bytes. destruct (Z.ltb_spec (enc_bp e) 1); lia. Qed.

Lemma last_cons_def : forall (l : list Z) x d, last (x :: l) d = last l x.
Proof. induction l as [|y l IH]; intros x d; [reflexivity|]. change (last (x :: y :: l) d) with (last (y :: l) d). rewrite !IH. reflexivity. Qed.

Lemma enc_bytes_rates : forall style maxbp pl syms e,
  Z.land style CblkStyleLazy = 0 -> Z.land style CblkStyleTermAll = 0 -> Z.land style CblkStyleReset = 0 ->
  Forall (fun q => 1 <= fst q) pl -> length syms = length pl -> Forall (Forall sym_mq) syms ->
  enc_inv e -> zlen (e_cx e) = 19 ->
  exists e' ps,
    enc_bytes_passes style maxbp pl syms false e = Ok ((e', false), ps) /\ length ps = length pl /\
    enc_inv e' /\
    Forall (fun q => p_term q = false /\ 0 <= p_actual q /\ p_rate q = p_actual q + 3) ps /\
    last (map p_actual ps) (enc_num_bytes e) = enc_num_bytes e'.
Proof.
  intros style maxbp pl. induction pl as [|[bp pt] r IH]; intros syms e E1 E4 E2 Hbp Hlen Hsy Hinv Hn.
  - destruct syms; [|discriminate]. exists e, []. cbn. auto.
  - destruct syms as [|ss syms']; [discriminate|]. cbn [length] in Hlen.
    pose proof (Forall_inv Hbp) as Hb1. pose proof (Forall_inv_tail Hbp) as Hbp'. cbn [fst] in Hb1.
    pose proof (Forall_inv Hsy) as Hss. pose proof (Forall_inv_tail Hsy) as Hsy'.
    cbn [enc_bytes_passes].
    rewrite (nolazy_raw style bp maxbp pt E1), (noterm_term style bp maxbp pt E1 E4 Hb1). cbv iota.
    rewrite E2. change (negb (0 =? 0)) with false. cbv iota.
    rewrite (enc_syms_o_mq ss e Hss Hinv Hn). cbn [obind].
    set (e2 := enc_encode_list e (decs ss)).
    assert (Hinv2 : enc_inv e2) by (apply enc_encode_list_inv; exact Hinv).
    assert (Hn2 : zlen (e_cx e2) = 19) by (unfold e2; rewrite enc_encode_list_cx_len; exact Hn).
    destruct (IH syms' e2 E1 E4 E2 Hbp' ltac:(lia) Hsy' Hinv2 Hn2) as (e' & ps & E & Hl & Hinv' & Hps & Hlast).
    rewrite E. cbn [obind fst snd].
    eexists e', _. split; [reflexivity|]. split; [cbn [length]; rewrite Hl; reflexivity|].
    split; [exact Hinv'|]. split.
    + constructor; [|exact Hps]. cbn [p_term p_actual p_rate]. pose proof (num_bytes_nonneg e2). auto.
    + cbn [map p_actual]. rewrite last_cons_def. exact Hlast.
Qed.

(* a flushed MQ codeword does not end with 0xFF *)
Lemma flush_last_byte : forall e, enc_inv e ->
  zlen (enc_flush e) <= 0 \/ znth (enc_flush e) (zlen (enc_flush e) - 1) 0 <> 255.
Proof.
  intros e Hinv. destruct (enc_flush_no_marker e Hinv) as (_ & [_ Hnm] & Hne). cbv zeta in *.
  right. rewrite <- (app_nil_r (enc_flush e)) at 1. rewrite znth_last by exact Hne.
  intros Hl. apply (Hnm (removelast (enc_flush e))). rewrite <- Hl. apply app_removelast_last. exact Hne.
Qed.

Lemma all_passes_zlen' : forall maxbp low, low <= maxbp -> zlen (all_passes maxbp low) = 3 * (maxbp - low) + 1.
Proof. intros maxbp low H. unfold zlen. rewrite all_passes_length. lia. Qed.

(* ---------- the theorem ---------- *)
Theorem t1_layered_rates : forall (wn hn : nat) (orient : Z) (cs : list Z),
  length cs = (wn * hn)%nat -> (forall c, In c cs -> - 2 ^ 25 < c < 2 ^ 25) ->
  let data := map (fun c => c * 64) cs in
  let n := find_max_bitplane data + 1 - 6 in
  0 < n ->
  exists mb ps bytes,
    enc_layered wn hn orient 0 6 (n * 3 - 2) data = Ok (mb, ps, bytes) /\
    enc_plain wn hn orient 0 6 (n * 3 - 2) data = Ok bytes /\
    zlen ps = n * 3 - 2 /\
    Forall (fun q => p_term q = false /\ 0 <= p_actual q <= p_rate q) ps /\
    rates_ok (gl_passes ps) (zlen bytes) /\
    rate_at (gl_passes ps) (zlen ps) = zlen bytes.
Proof.
  intros wn hn orient cs Hlen Hcs data n Hn.
  set (maxbp := find_max_bitplane data) in *.
  assert (H6 : 6 <= maxbp) by (unfold n in Hn; lia).
  assert (Enp : n * 3 - 2 = 3 * (maxbp - 6 + 1) - 2) by (unfold n; lia).
  rewrite Enp. clear Enp Hn n.
  set (NP := 3 * (maxbp - 6 + 1) - 2).
  assert (Hlend : length data = (wn * hn)%nat) by (unfold data; rewrite map_length; exact Hlen).
  assert (Hok : data_ok data).
  { intros v Hv. unfold data in Hv. apply in_map_iff in Hv. destruct Hv as (c & <- & Hc). specialize (Hcs c Hc).
    change (2 ^ 25) with 33554432 in Hcs. change (2 ^ 31) with 2147483648. lia. }
  pose proof (find_max_bitplane_spec data Hok) as Hspec. cbv zeta in Hspec. fold maxbp in Hspec.
  destruct Hspec as [[Hm1 _]|[Hmb _]]; [lia|].
  set (V := pad_data wn hn data).
  set (pl := pass_list maxbp 6 NP).
  set (syms := enc_passes wn hn orient 0 maxbp V pl true Leaf).
  assert (Hs0 : mq_style 0) by reflexivity.
  assert (Hpl : pl = all_passes maxbp 6) by (unfold pl; apply pass_list_complete; unfold NP; lia).
  assert (Hsl : length syms = length pl) by apply enc_passes_length.
  assert (Hsy : Forall (Forall sym_mq) syms) by (apply enc_passes_syms_mq; exact Hs0).
  assert (Hzpl : zlen pl = NP) by (rewrite Hpl, all_passes_zlen' by lia; unfold NP; lia).
  assert (Hbp1 : Forall (fun q => 1 <= fst q) pl).
  { apply Forall_forall. intros q Hq. unfold pl in Hq. apply pass_list_bp_ge in Hq. lia. }
  destruct (enc_bytes_rates 0 maxbp pl syms (enc_new_cx cx0) eq_refl eq_refl eq_refl Hbp1 Hsl Hsy
              (enc_new_inv cx0 cx0_ok) cx0_len) as (e' & ps & Eenc & Hl & Hinv' & Hps & Hlast).
  set (bytes := enc_flush e').
  set (ps' := rev (normalize_rev bytes (rev ps) (zlen bytes))).
  assert (Elay : enc_layered wn hn orient 0 6 NP data = Ok (maxbp, ps', bytes)).
  { unfold enc_layered, enc_syms. fold maxbp. fold V. fold pl. fold syms.
    destruct (Z.ltb_spec maxbp 6) as [Hlt|_]; [lia|].
    rewrite enc_init.
    match goal with |- context [enc_bytes_passes ?a ?b ?c ?d ?e ?f] =>
      replace (enc_bytes_passes a b c d e f) with (Ok ((e', false), ps)) by (symmetry; exact Eenc) end.
    cbn [obind]. reflexivity. }
  exists maxbp, ps', bytes.
  split; [exact Elay|]. split.
  { unfold enc_plain. fold maxbp. destruct (Z.ltb_spec maxbp 0) as [Hlt|_]; [lia|].
    rewrite Elay. reflexivity. }
  (* the generic facts about normalize_rev *)
  assert (Hps0 : Forall (fun q => 0 <= p_actual q /\ 0 <= p_rate q) ps).
  { eapply Forall_impl; [|exact Hps]. intros q (_ & Ha & Hr). cbv beta. lia. }
  destruct (normalized_rates_ok bytes ps Hps0) as (Hlen' & Hterm & Hact & Hrok). fold ps' in Hlen', Hterm, Hact, Hrok.
  assert (Hzps' : zlen ps' = NP) by (unfold zlen; rewrite Hlen', Hl; exact Hzpl).
  split; [exact Hzps'|]. split.
  { (* no pass terminated, ActualBytes within [0, Rate] *)
    assert (Ht : Forall (fun b => b = false) (map p_term ps')).
    { rewrite Hterm. apply Forall_map. eapply Forall_impl; [|exact Hps]. intros q (Ht & _). exact Ht. }
    rewrite Forall_map in Ht. rewrite Forall_forall in Ht, Hact. apply Forall_forall. intros q Hq.
    split; [apply Ht; exact Hq|apply Hact; exact Hq]. }
  split; [exact Hrok|].
  (* the last pass *)
  assert (Hnp : 1 <= NP) by (unfold NP; lia).
  destruct (rev ps) as [|ql rr] eqn:Erev.
  { apply (f_equal (@length passrec)) in Erev. rewrite rev_length in Erev. cbn [length] in Erev.
    unfold zlen in Hzpl. lia. }
  assert (Eps : ps = rev rr ++ [ql]) by (rewrite <- (rev_involutive ps), Erev; reflexivity).
  assert (Hql : p_rate ql = enc_num_bytes e' + 3).
  { rewrite Eps in Hps, Hlast. rewrite map_app in Hlast. cbn [map] in Hlast. rewrite last_last in Hlast.
    apply Forall_app in Hps. destruct Hps as [_ Hq]. apply Forall_inv in Hq. destruct Hq as (_ & _ & Hq). lia. }
  assert (Hd : 0 <= zlen bytes) by (unfold zlen; lia).
  destruct (normalize_rev_first bytes ql rr (zlen bytes) Hd
              ltac:(rewrite Hql; apply flush_len_bound) (flush_last_byte e' Hinv')) as (q' & Enorm & Hq').
  assert (Eps' : ps' = rev (normalize_rev bytes rr (zlen bytes)) ++ [q']) by (unfold ps'; rewrite Enorm; reflexivity).
  change (gl_passes ps') with (map glp ps').
  rewrite Eps'. rewrite rate_at_last; [exact Hq'|].
  rewrite Forall_forall in Hact. apply Hact. rewrite Eps'. apply in_or_app. right. left. reflexivity.
Qed.

(* the all-zero block: maxBitplane = -1 < 6, no passes and no bytes, for every numPasses *)
Lemma fold_zero : forall n, fold_left (fun m v => Z.max m (abs32 v)) (repeat 0 n) 0 = 0.
Proof. induction n as [|n IH]; [reflexivity|]. cbn [repeat fold_left]. exact IH. Qed.

Theorem t1_layered_zero_block : forall (wn hn : nat) (orient np : Z),
  enc_layered wn hn orient 0 6 np (repeat 0 (wn * hn)) = Ok (-1, [], []).
Proof.
  intros wn hn orient np. unfold enc_layered, enc_syms, find_max_bitplane, max_abs. rewrite fold_zero.
  cbv beta iota zeta. change (0 =? 0) with true. cbv iota. reflexivity.
Qed.

Print Assumptions t1_layered_rates.
Print Assumptions t1_layered_zero_block.
