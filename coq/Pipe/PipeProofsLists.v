(* pipe: list lemmas (numbering, filters over flat_map, association lists built by flat_map,
   omap). *)
From V Require Import Common.Base Pipe.PipeModel.

(* ---------- numbering ---------- *)

Fixpoint znumber {A} (k : Z) (l : list A) : list (Z * A) :=
  match l with [] => [] | a :: r => (k, a) :: znumber (k + 1) r end.

Lemma znumber_app : forall {A} (a b : list A) k, znumber k (a ++ b) = znumber k a ++ znumber (k + zlen a) b.
Proof.
  induction a as [|x a IH]; intros b k; cbn [app znumber].
  - change (zlen (@nil A)) with 0. rewrite Z.add_0_r. reflexivity.
  - rewrite IH. f_equal. f_equal. unfold zlen. cbn [length]. f_equal. lia.
Qed.

Lemma znumber_snd : forall {A} (l : list A) k, map snd (znumber k l) = l.
Proof. induction l as [|x l IH]; intros k; cbn [znumber map snd]; [reflexivity | rewrite IH; reflexivity]. Qed.

Lemma znumber_length : forall {A} (l : list A) k, length (znumber k l) = length l.
Proof. induction l as [|x l IH]; intros k; cbn [znumber length]; [reflexivity | rewrite IH; reflexivity]. Qed.

Lemma znumber_nth : forall {A} (l : list A) k i a, nth_error (znumber k l) i = Some a ->
  fst a = k + Z.of_nat i /\ nth_error l i = Some (snd a).
Proof.
  induction l as [|x l IH]; intros k i a H; destruct i as [|i]; cbn [znumber nth_error] in H; try discriminate.
  - injection H as <-. cbn. split; [lia | reflexivity].
  - destruct (IH _ _ _ H) as [E1 E2]. split; [lia | exact E2].
Qed.

Lemma znumber_in : forall {A} (l : list A) k i a, In (i, a) (znumber k l) ->
  k <= i /\ nth_error l (Z.to_nat (i - k)) = Some a.
Proof.
  intros A l k i a H. apply In_nth_error in H as [n Hn]. destruct (znumber_nth l k n (i, a) Hn) as [E1 E2].
  cbn [fst snd] in E1, E2. subst i. split; [lia|]. replace (Z.to_nat (k + Z.of_nat n - k)) with n by lia. exact E2.
Qed.

Lemma znumber_fst_nodup : forall {A} (l : list A) k, NoDup (map fst (znumber k l)).
Proof.
  induction l as [|x l IH]; intros k; cbn [znumber map fst]; constructor; [|apply IH].
  intros H. apply in_map_iff in H as [[i a] [E Hin]]. cbn [fst] in E. subst i.
  destruct (znumber_in l (k + 1) k a Hin). lia.
Qed.

Lemma znumber_map : forall {A B} (f : A -> B) (l : list A) k,
  znumber k (map f l) = map (fun x => (fst x, f (snd x))) (znumber k l).
Proof. induction l as [|x l IH]; intros k; cbn [map znumber fst snd]; [reflexivity | rewrite IH; reflexivity]. Qed.

(* filtering a numbered list on the payload *)
Lemma znumber_filter_snd : forall {A} (P : A -> bool) (l : list A) k,
  map snd (filter (fun x => P (snd x)) (znumber k l)) = filter P l.
Proof.
  induction l as [|x l IH]; intros k; cbn [znumber filter snd]; [reflexivity|].
  destruct (P x); cbn [map snd]; rewrite IH; reflexivity.
Qed.

(* ---------- filter / flat_map ---------- *)

Lemma filter_flat_map : forall {A B} (P : B -> bool) (f : A -> list B) l,
  filter P (flat_map f l) = flat_map (fun a => filter P (f a)) l.
Proof. induction l as [|a l IH]; cbn [flat_map]; [reflexivity|]. rewrite filter_app, IH. reflexivity. Qed.

Lemma filter_none : forall {A} (P : A -> bool) l, (forall a, In a l -> P a = false) -> filter P l = [].
Proof.
  induction l as [|a l IH]; intros H; cbn [filter]; [reflexivity|].
  rewrite H by (left; reflexivity). apply IH. intros b Hb. apply H. right. exact Hb.
Qed.

Lemma filter_all' : forall {A} (P : A -> bool) l, (forall a, In a l -> P a = true) -> filter P l = l.
Proof.
  induction l as [|a l IH]; intros H; cbn [filter]; [reflexivity|].
  rewrite H by (left; reflexivity). f_equal. apply IH. intros b Hb. apply H. right. exact Hb.
Qed.

Lemma filter_map_comm : forall {A B} (f : A -> B) (P : B -> bool) l, filter P (map f l) = map f (filter (fun a => P (f a)) l).
Proof. induction l as [|a l IH]; cbn [map filter]; [reflexivity|]. destruct (P (f a)); cbn [map]; rewrite IH; reflexivity. Qed.

Lemma flat_map_all_nil : forall {A B} (f : A -> list B) (l : list A), (forall a, In a l -> f a = []) -> flat_map f l = [].
Proof.
  induction l as [|a l IH]; intros H; cbn [flat_map]; [reflexivity|].
  rewrite (H a (or_introl eq_refl)), IH; [reflexivity|]. intros b Hb. apply H. right. exact Hb.
Qed.

(* only one chunk of a flat_map survives *)
Lemma flat_map_one : forall {A B} (f : A -> list B) (l : list A) (a0 : A),
  NoDup l -> In a0 l -> (forall a, In a l -> a <> a0 -> f a = []) -> flat_map f l = f a0.
Proof.
  induction l as [|a l IH]; intros a0 Hnd Hin Hz; [destruct Hin|]. cbn [flat_map].
  inversion Hnd as [|? ? Hni Hnd']; subst. destruct Hin as [->|Hin].
  - rewrite (flat_map_all_nil f l); [apply app_nil_r|].
    intros b Hb. apply Hz; [right; exact Hb|]. intros ->. contradiction.
  - rewrite (Hz a (or_introl eq_refl)) by (intros ->; contradiction). cbn [app]. apply IH; try assumption.
    intros b Hb. apply Hz. right. exact Hb.
Qed.


(* ---------- association lists built by flat_map ---------- *)

Lemma aget_app : forall {K V} (eqb : K -> K -> bool) (a b : list (K * V)) k,
  K.aget eqb (a ++ b) k = match K.aget eqb a k with Some v => Some v | None => K.aget eqb b k end.
Proof.
  induction a as [|[k0 v0] a IH]; intros b k; cbn [app K.aget]; [reflexivity|].
  destruct (eqb k0 k); [reflexivity | apply IH].
Qed.

Lemma aget_no_key : forall {K V} (eqb : K -> K -> bool) (l : list (K * V)) k,
  (forall kv, In kv l -> eqb (fst kv) k = false) -> K.aget eqb l k = None.
Proof.
  induction l as [|[k0 v0] l IH]; intros k H; cbn [K.aget]; [reflexivity|].
  pose proof (H (k0, v0) (or_introl eq_refl)) as E0. cbn [fst] in E0. rewrite E0. apply IH. intros kv Hkv. apply H. right. exact Hkv.
Qed.

Lemma aget_none_all : forall {K V} (eqb : K -> K -> bool) (l : list (K * V)) k,
  K.aget eqb l k = None -> forall kv, In kv l -> eqb (fst kv) k = false.
Proof.
  induction l as [|[k0 v0] l IH]; intros k H kv Hkv; [destruct Hkv|]. cbn [K.aget] in H.
  destruct (eqb k0 k) eqn:E; [discriminate|]. destruct Hkv as [<-|Hkv]; [exact E | apply IH; assumption].
Qed.

(* the chunk of a0 is the only one that can hold the key (chunks indexed by integers) *)
Lemma aget_flat_map_at : forall {K V} (eqb : K -> K -> bool) (f : Z -> list (K * V)) (l : list Z) k a0,
  In a0 l -> (forall a, In a l -> a <> a0 -> forall kv, In kv (f a) -> eqb (fst kv) k = false) ->
  K.aget eqb (flat_map f l) k = K.aget eqb (f a0) k.
Proof.
  intros K V eqb f l k a0 Hin H.
  destruct (K.aget eqb (f a0) k) as [v|] eqn:E.
  - (* found in the chunk of a0: chunks before it do not hold the key *)
    induction l as [|a l IH]; [destruct Hin|]. cbn [flat_map]. rewrite aget_app.
    destruct (Z.eq_dec a a0) as [->|Hne]; [rewrite E; reflexivity|].
    rewrite (aget_no_key eqb (f a) k) by (intros kv Hkv; apply (H a); [left; reflexivity | exact Hne | exact Hkv]).
    destruct Hin as [->|Hin]; [contradiction|]. apply IH; [exact Hin|].
    intros a' Ha' Hna. apply H; [right; exact Ha' | exact Hna].
  - apply aget_no_key. intros kv Hkv. apply in_flat_map in Hkv as [a [Ha Hkv]].
    destruct (Z.eq_dec a a0) as [->|Hne]; [apply (aget_none_all eqb (f a0) k E kv Hkv) | apply (H a Ha Hne kv Hkv)].
Qed.

Lemma aget_flat_map_none : forall {K V} (eqb : K -> K -> bool) (f : Z -> list (K * V)) (l : list Z) k,
  (forall a, In a l -> forall kv, In kv (f a) -> eqb (fst kv) k = false) -> K.aget eqb (flat_map f l) k = None.
Proof.
  intros K V eqb f l k H. apply aget_no_key. intros kv Hkv. apply in_flat_map in Hkv as [a [Ha Hkv]]. apply (H a Ha kv Hkv).
Qed.

Lemma flat_map_flat_map' : forall {A B C} (f : B -> list C) (g : A -> list B) l,
  flat_map f (flat_map g l) = flat_map (fun a => flat_map f (g a)) l.
Proof. induction l as [|a l IH]; cbn [flat_map]; [reflexivity|]. rewrite flat_map_app, IH. reflexivity. Qed.
