(* Pipe: the geometry hypothesis G4 of packets_deliver_blocks / packets_deliver_fields for ONE
   quality layer, code-block style 0 (termAll = false): a cell whose Precinct objects are fresh
   and whose code-blocks come straight from the block coder (encodeSingleLayerCodeBlock) is
   related (CellRel) to the decoder's empty per-band store before layer 0. *)
From V Require Import Common.Base Framing.FrmWriters T2.T2Bio T2.T2TagTree T2.T2Header T2.T2Packets J2KGeo.GeoLayers
  T2.T2ProofsCodes T2.T2ProofsHeader T2.T2ProofsHeader2 T2.T2ProofsHeader3 T2.T2ProofsPackets1 T2.T2ProofsPackets2.
Require Import Coq.Sorting.Sorted.

(* a code-block as encodeSingleLayerCodeBlock hands it to the packet encoder *)
Definition fresh_block (b : eblock) : Prop :=
  eb_included b = false /\ eb_nlb b = 0 /\ 0 <= eb_zbp b < 32 /\
  eb_ld b = None /\ eb_lp b = [] /\ eb_pl b = [] /\ eb_passes b = [] /\ eb_termall b = false /\
  0 < zlen (eb_data b) <= 65535 /\ 1 <= eb_npt b <= 164.

(* one band of a cell: band id, grid size, blocks in row-major order *)
Definition bspec : Type := (Z * Z * Z * list eblock)%type.
Definition bs_id (s : bspec) : Z := fst (fst (fst s)).
Definition bs_nx (s : bspec) : Z := snd (fst (fst s)).
Definition bs_ny (s : bspec) : Z := snd (fst s).
Definition bs_blocks (s : bspec) : list eblock := snd s.
Definition bs_eband (s : bspec) : eband :=
  {| ebn_band := bs_id s; ebn_w := bs_nx s; ebn_h := bs_ny s; ebn_blocks := bs_blocks s; ebn_trees := None |}.
Definition bspec_ok (s : bspec) : Prop :=
  0 < bs_nx s /\ 0 < bs_ny s /\
  map (fun b => (eb_cbx b, eb_cby b)) (bs_blocks s) = grid_positions (bs_nx s) (bs_ny s) /\
  Forall fresh_block (bs_blocks s).

(* ---------- the row-major grid is strictly sorted by pos_blt ---------- *)

Definition pcr_plt (p q : Z * Z) : Prop := pos_blt p q = true.

Lemma pcr_in_zseq : forall n x, In x (zseq n) <-> 0 <= x < n.
Proof.
  intros n x. unfold zseq. rewrite in_map_iff. split.
  - intros [k [<- Hk]]. apply in_seq in Hk. lia.
  - intros H. exists (Z.to_nat x). split; [lia|]. apply in_seq. lia.
Qed.

Lemma pcr_in_grid : forall w h x y, In (x, y) (grid_positions w h) <-> (0 <= x < w /\ 0 <= y < h).
Proof.
  intros w h x y. unfold grid_positions. rewrite in_flat_map. split.
  - intros [y' [Hy Hin]]. apply in_map_iff in Hin as [x' [E Hx]]. inversion E; subst.
    apply pcr_in_zseq in Hy. apply pcr_in_zseq in Hx. lia.
  - intros [Hx Hy]. exists y. split; [apply pcr_in_zseq; exact Hy|].
    apply in_map_iff. exists x. split; [reflexivity | apply pcr_in_zseq; exact Hx].
Qed.

Lemma pcr_ss_seq : forall len s, StronglySorted lt (seq s len).
Proof.
  induction len as [|len IH]; intros s; cbn [seq]; constructor; [apply IH|].
  apply Forall_forall. intros x Hx. apply in_seq in Hx. lia.
Qed.

Lemma pcr_ss_map : forall {A B} (R : A -> A -> Prop) (R' : B -> B -> Prop) (f : A -> B) l,
  StronglySorted R l -> (forall a b, R a b -> R' (f a) (f b)) -> StronglySorted R' (map f l).
Proof.
  intros A B R R' f l Hs Hm. induction Hs as [|a l Hs IH Hall]; cbn [map]; constructor; [exact IH|].
  apply Forall_forall. intros y Hy. apply in_map_iff in Hy as [b [<- Hb]]. apply Hm.
  rewrite Forall_forall in Hall. apply Hall. exact Hb.
Qed.

Lemma pcr_ss_app : forall {A} (R : A -> A -> Prop) l1 l2, StronglySorted R l1 -> StronglySorted R l2 ->
  (forall a b, In a l1 -> In b l2 -> R a b) -> StronglySorted R (l1 ++ l2).
Proof.
  intros A R l1 l2 H1 H2. induction H1 as [|a l1 H1 IH Hall]; intros Hc; cbn [app]; [exact H2|].
  constructor.
  - apply IH. intros x y Hx Hy. apply Hc; [right; exact Hx | exact Hy].
  - apply Forall_forall. intros y Hy. apply in_app_or in Hy as [Hy|Hy].
    + rewrite Forall_forall in Hall. apply Hall. exact Hy.
    + apply Hc; [left; reflexivity | exact Hy].
Qed.

Lemma pcr_ss_flat_map : forall {A B} (R : A -> A -> Prop) (R' : B -> B -> Prop) (f : A -> list B) l,
  StronglySorted R l -> (forall a, StronglySorted R' (f a)) ->
  (forall a b, R a b -> forall x y, In x (f a) -> In y (f b) -> R' x y) ->
  StronglySorted R' (flat_map f l).
Proof.
  intros A B R R' f l Hs Hf Hc. induction Hs as [|a l Hs IH Hall]; cbn [flat_map]; [constructor|].
  apply pcr_ss_app; [apply Hf | exact IH |].
  intros x y Hx Hy. apply in_flat_map in Hy as [b [Hb Hy]].
  rewrite Forall_forall in Hall. apply (Hc a b (Hall b Hb) x y Hx Hy).
Qed.

Lemma pcr_ss_zseq : forall n, StronglySorted Z.lt (zseq n).
Proof.
  intros n. unfold zseq. apply (pcr_ss_map lt Z.lt); [apply pcr_ss_seq|]. intros a b H. lia.
Qed.

Lemma pcr_grid_ss : forall w h, StronglySorted pcr_plt (grid_positions w h).
Proof.
  intros w h. unfold grid_positions. apply (pcr_ss_flat_map Z.lt pcr_plt); [apply pcr_ss_zseq | |].
  - intros y. apply (pcr_ss_map Z.lt pcr_plt); [apply pcr_ss_zseq|].
    intros a b Hab. unfold pcr_plt, pos_blt. cbn [fst snd]. rewrite Z.eqb_refl. apply Z.ltb_lt. exact Hab.
  - intros ya yb Hy p q Hp Hq. apply in_map_iff in Hp as [xa [<- _]]. apply in_map_iff in Hq as [xb [<- _]].
    unfold pcr_plt, pos_blt. cbn [fst snd]. destruct (Z.eqb_spec ya yb) as [E|E]; [lia|]. apply Z.ltb_lt. exact Hy.
Qed.

Lemma pcr_ss_pos_sorted : forall l, StronglySorted pcr_plt l -> pos_sorted l.
Proof.
  intros l Hs. induction Hs as [|a l Hs IH Hall]; [exact I|].
  destruct l as [|b l]; [exact I|]. cbn [pos_sorted]. split; [|exact IH].
  inversion Hall as [|? ? Hab _]; subst. exact Hab.
Qed.

Lemma pcr_plt_irrefl : forall p, ~ pcr_plt p p.
Proof.
  intros p H. unfold pcr_plt, pos_blt in H. rewrite Z.eqb_refl in H. apply Z.ltb_lt in H. lia.
Qed.

Lemma pcr_ss_nodup : forall l, StronglySorted pcr_plt l -> NoDup l.
Proof.
  intros l Hs. induction Hs as [|a l Hs IH Hall]; constructor; [|exact IH].
  intros Hin. rewrite Forall_forall in Hall. apply (pcr_plt_irrefl a). apply Hall. exact Hin.
Qed.

Lemma pcr_grid_nonempty : forall w h, 0 < w -> 0 < h -> grid_positions w h <> [].
Proof.
  intros w h Hw Hh E. assert (Hin : In (0, 0) (grid_positions w h)) by (apply pcr_in_grid; lia).
  rewrite E in Hin. exact Hin.
Qed.

(* ---------- a fresh block in the only layer ---------- *)

Lemma pcr_fresh_layer_ok : forall b, fresh_block b -> block_layer_ok false b 0.
Proof.
  intros b [Hinc [Hnlb [Hz [Hld [Hlp [Hpl [Hps [Hta [Hdata Hnpt]]]]]]]]] _.
  assert (Ec : contrib b 0 = (true, eb_npt b, eb_data b)).
  { unfold contrib. rewrite Hld, Hlp. unfold layer_contribution.
    destruct (Z.gtb_spec (zlen (eb_data b)) 0) as [_|Hle]; [reflexivity | lia]. }
  assert (Enp : b_np b 0 = eb_npt b) by (unfold b_np; rewrite Ec; reflexivity).
  assert (Edata : b_data b 0 = eb_data b) by (unfold b_data; rewrite Ec; reflexivity).
  assert (Epl : block_pass_lens b = None) by (unfold block_pass_lens; rewrite Hpl, Hps; reflexivity).
  assert (Eta : b_termall b 0 = false) by (unfold b_termall; rewrite Hta; reflexivity).
  rewrite Enp, Edata, Epl, Eta. unfold lengths_domain, announced.
  change (2 ^ 25) with 33554432. repeat split; try lia.
Qed.

(* ---------- one band ---------- *)

Definition pcr_dband (s : bspec) : dband :=
  {| dbn_w := bs_nx s; dbn_h := bs_ny s; dbn_pos := grid_positions (bs_nx s) (bs_ny s);
     dbn_incl := None; dbn_zbp := None; dbn_states := None |}.

Lemma pcr_bandrel_fresh : forall s, bspec_ok s -> BandRel false 1 0 (bs_eband s) (pcr_dband s).
Proof.
  intros s [Hw [Hh [Hpos Hfr]]].
  change (map (fun b => (eb_cbx b, eb_cby b)) (bs_blocks s)) with (map pos_of (bs_blocks s)) in Hpos.
  pose proof (pcr_grid_ss (bs_nx s) (bs_ny s)) as Hss.
  pose proof (pcr_grid_nonempty _ _ Hw Hh) as Hne.
  split.
  - unfold band_static, bs_eband, pcr_dband. cbn [dbn_w dbn_h ebn_w ebn_h ebn_blocks].
    split; [reflexivity|]. split; [reflexivity|]. split; [exact Hw|]. split; [exact Hh|].
    split; [intros E; rewrite E in Hpos; cbn [map] in Hpos; apply Hne; symmetry; exact Hpos|].
    split; [rewrite Hpos; apply pcr_ss_pos_sorted; exact Hss|].
    split.
    { unfold eff_pos. cbn [dbn_pos dbn_w dbn_h]. rewrite Hpos.
      destruct (grid_positions (bs_nx s) (bs_ny s)); reflexivity. }
    unfold blocks_static. split; [rewrite Hpos; apply pcr_ss_nodup; exact Hss|].
    apply Forall_forall. intros b Hb.
    rewrite Forall_forall in Hfr. pose proof (Hfr b Hb) as Hfb.
    split.
    { assert (Hin : In (pos_of b) (grid_positions (bs_nx s) (bs_ny s))) by (rewrite <- Hpos; apply in_map; exact Hb).
      unfold pos_of in Hin. apply pcr_in_grid in Hin. exact Hin. }
    split; [apply Hfb|].
    intros l' Hl'. assert (l' = 0) by lia. subst l'. apply pcr_fresh_layer_ok. exact Hfb.
  - left. split; [reflexivity|]. unfold band_fresh, bs_eband, pcr_dband.
    cbn [ebn_trees dbn_incl dbn_zbp dbn_states ebn_blocks]. repeat split.
    apply Forall_forall. intros b Hb. rewrite Forall_forall in Hfr.
    destruct (Hfr b Hb) as [Hinc [Hnlb _]]. split; [exact Hinc|]. rewrite Hnlb. reflexivity.
Qed.

(* ---------- the decoder's band loop over the empty store ---------- *)

Lemma pcr_step_some : forall geo c r p b rest s,
  aget key4_eqb geo (c, r, p, b) = Some (bs_nx s, bs_ny s, grid_positions (bs_nx s) (bs_ny s)) ->
  0 < bs_nx s -> 0 < bs_ny s ->
  map snd (dec_band_states geo [] c r p (b :: rest)) = pcr_dband s :: map snd (dec_band_states geo [] c r p rest).
Proof.
  intros geo c r p b rest s Hg Hw Hh. cbn [dec_band_states]. rewrite Hg.
  destruct (Z.leb_spec (bs_nx s) 0) as [Hc|_]; [lia|].
  destruct (Z.leb_spec (bs_ny s) 0) as [Hc|_]; [lia|].
  cbn [orb aget map snd]. reflexivity.
Qed.

Lemma pcr_step_none : forall geo c r p b rest,
  aget key4_eqb geo (c, r, p, b) = None ->
  dec_band_states geo [] c r p (b :: rest) = dec_band_states geo [] c r p rest.
Proof.
  intros geo c r p b rest Hg. cbn [dec_band_states]. rewrite Hg. reflexivity.
Qed.

Ltac pcr_specs specs :=
  repeat match goal with
  | H : map bs_id ?l = _ :: _ |- _ => destruct l as [|? ?]; cbn [map] in H; [discriminate|]; injection H as ? H
  | H : map bs_id ?l = [] |- _ => destruct l as [|? ?]; cbn [map] in H; [clear H | discriminate]
  end.

Theorem cellrel_fresh : forall (geo : dgeo) (cells : ecells) (c r : Z) (specs : list bspec),
  specs <> [] -> ids_ok r (map bs_id specs) -> Forall bspec_ok specs ->
  aget key3_eqb cells (c, r, 0) = Some (map bs_eband specs) ->
  (forall band, In band (band_order r) ->
     aget key4_eqb geo (c, r, 0, band) =
       match find (fun s => bs_id s =? band) specs with
       | Some s => Some (bs_nx s, bs_ny s, grid_positions (bs_nx s) (bs_ny s))
       | None => None
       end) ->
  CellRel false 1 geo 0 (c, r, 0) cells [].
Proof.
  intros geo cells c r specs Hne Hids Hok Hcells Hgeo.
  right. split; [lia|]. exists (map bs_eband specs).
  split; [exact Hcells|].
  split; [destruct specs; [congruence | discriminate]|].
  cbn [fst snd]. rewrite map_map. cbn [bs_eband ebn_band].
  split; [exact Hids|].
  unfold cell_bands_d. unfold ids_ok in Hids. unfold band_order in *.
  destruct (r =? 0).
  - destruct Hids as [Hids|Hids]; pcr_specs specs; [congruence|].
    pose proof (Hgeo 0 ltac:(cbn; tauto)) as G0. cbn [find] in G0.
    repeat match goal with H : bs_id _ = _ |- _ => rewrite H in *; clear H end.
    cbn [Z.eqb Pos.eqb] in G0.
    inversion Hok as [|? ? Hok0 _]; subst.
    rewrite (pcr_step_some _ _ _ _ _ _ _ G0 ltac:(apply Hok0) ltac:(apply Hok0)).
    cbn [map dec_band_states]. apply BR_both; [apply pcr_bandrel_fresh; exact Hok0 | constructor].
  - pose proof (Hgeo 1 ltac:(cbn; tauto)) as G1.
    pose proof (Hgeo 2 ltac:(cbn; tauto)) as G2.
    pose proof (Hgeo 3 ltac:(cbn; tauto)) as G3.
    destruct Hids as [Hids|[Hids|[Hids|[Hids|[Hids|[Hids|[Hids|Hids]]]]]]]; pcr_specs specs; [congruence| | | | | | |];
      cbn [find] in G1, G2, G3;
      repeat match goal with H : bs_id _ = _ |- _ => rewrite H in *; clear H end;
      cbn [Z.eqb Pos.eqb] in G1, G2, G3;
      repeat match goal with H : Forall bspec_ok (_ :: _) |- _ => let H0 := fresh "Hok0" in
               apply Forall_cons_iff in H as [H0 H] end;
      repeat first
        [ rewrite (pcr_step_some _ _ _ _ _ _ _ G1) by (match goal with H : bspec_ok _ |- _ => apply H end)
        | rewrite (pcr_step_some _ _ _ _ _ _ _ G2) by (match goal with H : bspec_ok _ |- _ => apply H end)
        | rewrite (pcr_step_some _ _ _ _ _ _ _ G3) by (match goal with H : bspec_ok _ |- _ => apply H end)
        | rewrite (pcr_step_none _ _ _ _ _ _ G1)
        | rewrite (pcr_step_none _ _ _ _ _ _ G2)
        | rewrite (pcr_step_none _ _ _ _ _ _ G3) ];
      cbn [map dec_band_states];
      repeat (apply BR_both; [apply pcr_bandrel_fresh; assumption|]); constructor.
Qed.

Print Assumptions cellrel_fresh.
