(* pipe (tiles): tile sizes LARGER than the image dimension.  TileWidth > Width makes one tile
   column whose rectangle is clamped to the image - the same rectangles as TileWidth = Width for
   the encoder (tileBounds), the decoder (NewTileDecoder from SIZ's XTsiz) and the assembler
   (TileLayout).  Hence the tile theorems hold for every 0 <= TileWidth, TileHeight < 2^31. *)
From V Require Import Common.Base J2KGeo.GeoModel J2KGeo.GeoProofsLists J2KGeo.GeoProofsTiles J2KGeo.GeoProofsBlocks
  Pipe.PipeModel Pipe.PipeProofsFront Pipe.PipeProofsMain Pipe.PipeTMain.
Require V.Pipe.PipeLBlock.
Require Import Coq.Lists.List.

Definition clamp_tile (dim t : Z) : Z := if t =? 0 then 0 else Z.min t dim.

Lemma num_tiles_big : forall N T, 1 <= N -> N <= T -> enc_num_tiles N T = 1.
Proof.
  intros N T HN HT. unfold enc_num_tiles. rewrite Z.quot_div_nonneg by lia.
  symmetry. apply (Z.div_unique (N + T - 1) T 1 (N - 1)); lia.
Qed.

Section Big.
Variables W H T U : Z.
Hypothesis HW : 1 <= W < 2 ^ 31.
Hypothesis HH : 1 <= H < 2 ^ 31.
Hypothesis HT : 1 <= T < 2 ^ 31.
Hypothesis HU : 1 <= U < 2 ^ 31.

Let T' := Z.min T W.
Let U' := Z.min U H.
Let ntx := enc_num_tiles W T.
Let nty := enc_num_tiles H U.

Lemma ntx_clamp : enc_num_tiles W T' = ntx.
Proof.
  unfold T', ntx. destruct (Z.min_spec T W) as [[A ->]|[A ->]]; [reflexivity|].
  rewrite !num_tiles_big by lia. reflexivity.
Qed.

Lemma nty_clamp : enc_num_tiles H U' = nty.
Proof.
  unfold U', nty. destruct (Z.min_spec U H) as [[A ->]|[A ->]]; [reflexivity|].
  rewrite !num_tiles_big by lia. reflexivity.
Qed.

Lemma ntx_pos : 1 <= ntx /\ 1 <= nty.
Proof.
  destruct (num_tiles_spec W T ltac:(lia) ltac:(lia)) as [A _]. destruct (num_tiles_spec H U ltac:(lia) ltac:(lia)) as [B _].
  unfold ntx, nty. lia.
Qed.

Lemma clamp_range : 1 <= T' <= W /\ 1 <= U' <= H.
Proof. unfold T', U'. destruct (Z.min_spec T W) as [[A ->]|[A ->]]; destruct (Z.min_spec U H) as [[B ->]|[B ->]]; lia. Qed.

Lemma bounds_clamp : forall idx, 0 <= idx < ntx * nty ->
  enc_tile_bounds W H idx T U ntx = enc_tile_bounds W H idx T' U' ntx.
Proof.
  intros idx Hi. destruct ntx_pos as [Px Py].
  destruct (idx_split idx ntx ltac:(lia) ltac:(lia)) as [Hr [Hq [Hm _]]].
  pose proof (idx_row_col idx ntx nty ltac:(lia) Hi) as Hrow.
  unfold enc_tile_bounds. rewrite Hr, Hq.
  set (tx := idx mod ntx) in *. set (ty := idx / ntx) in *.
  assert (Ex : tx * T = tx * T' /\ (if tx * T + T >? W then W else tx * T + T) = (if tx * T' + T' >? W then W else tx * T' + T')).
  { unfold T'. destruct (Z.min_spec T W) as [[A ->]|[A ->]]; [split; reflexivity|].
    assert (ntx = 1) by (unfold ntx; apply num_tiles_big; lia). assert (tx = 0) by lia. subst tx. rewrite H1.
    split; [reflexivity|]. cbn [Z.mul Z.add]. destruct (Z.gtb_spec T W); destruct (Z.gtb_spec W W); lia. }
  assert (Ey : ty * U = ty * U' /\ (if ty * U + U >? H then H else ty * U + U) = (if ty * U' + U' >? H then H else ty * U' + U')).
  { unfold U'. destruct (Z.min_spec U H) as [[A ->]|[A ->]]; [split; reflexivity|].
    assert (nty = 1) by (unfold nty; apply num_tiles_big; lia). assert (ty = 0) by lia. subst ty. rewrite H1.
    split; [reflexivity|]. cbn [Z.mul Z.add]. destruct (Z.gtb_spec U H); destruct (Z.gtb_spec H H); lia. }
  destruct Ex as [E1 E2]. destruct Ey as [E3 E4]. rewrite E2, E4, E1, E3. reflexivity.
Qed.

Lemma enc_tiles_clamp : enc_tiles W H T U = enc_tiles W H T' U'.
Proof.
  unfold enc_tiles. rewrite ntx_clamp, nty_clamp. fold ntx nty. apply map_ext_in. intros idx Hi.
  apply in_zrange in Hi. apply bounds_clamp. exact Hi.
Qed.

(* the decoder's rectangle for a general tile size *)
Lemma decoder_agrees_gen : forall idx, 0 <= idx ->
  dec_tile_bounds idx W H 0 0 T U 0 0 = enc_tile_bounds W H idx T U ntx.
Proof.
  intros idx Hi. unfold dec_tile_bounds. destruct ntx_pos as [Px Py].
  assert (Hw : wrapU 32 (wrapU 32 (wrapU 32 (W - 0) + T) - 1) = W + T - 1).
  { unfold wrapU. change (2 ^ 31) with 2147483648 in *. change (2 ^ 32) with 4294967296.
    rewrite (Z.mod_small (W - 0)) by lia. rewrite (Z.mod_small (W - 0 + T)) by lia.
    rewrite Z.mod_small by lia. lia. }
  rewrite Hw. fold (enc_num_tiles W T). fold ntx.
  destruct (Z.leb_spec ntx 0); [lia|].
  destruct (idx_split idx ntx ltac:(lia) ltac:(lia)) as [Hr [Hq [Hm _]]].
  unfold enc_tile_bounds. rewrite Hr, Hq. rewrite !Z.add_0_l.
  assert (0 <= idx / ntx) by (apply Z.div_pos; lia).
  destruct (Z.ltb_spec (idx mod ntx * T) 0); [nia|]. destruct (Z.ltb_spec (idx / ntx * U) 0); [nia|]. reflexivity.
Qed.

Lemma dec_bounds_clamp : forall idx, 0 <= idx < ntx * nty ->
  dec_tile_bounds idx W H 0 0 T U 0 0 = dec_tile_bounds idx W H 0 0 T' U' 0 0.
Proof.
  intros idx Hi. rewrite decoder_agrees_gen by lia.
  destruct clamp_range as [A B].
  rewrite (decoder_agrees W H T' U' A B idx ltac:(lia)) by (rewrite ntx_clamp, nty_clamp; exact Hi).
  rewrite ntx_clamp. apply bounds_clamp. exact Hi.
Qed.

(* the assembler's layout for a general tile size *)
Lemma layout_gen : forall idx, 0 <= idx < ntx * nty ->
  let tl := new_tile_layout W H 0 0 T U 0 0 in
  GeoModel.tile_count tl = ntx * nty /\ tl_imageWidth tl = W /\ tl_imageHeight tl = H /\
  layout_tile_bounds tl idx = enc_tile_bounds W H idx T U ntx.
Proof.
  intros idx Hi. cbv zeta. destruct ntx_pos as [Px Py].
  assert (Hcx : ceil_div (W - 0) T = ntx).
  { unfold ceil_div, ntx, enc_num_tiles. destruct (Z.leb_spec T 0); [lia|].
    destruct (Z.geb_spec (W - 0) 0); [|lia]. f_equal. lia. }
  assert (Hcy : ceil_div (H - 0) U = nty).
  { unfold ceil_div, nty, enc_num_tiles. destruct (Z.leb_spec U 0); [lia|].
    destruct (Z.geb_spec (H - 0) 0); [|lia]. f_equal. lia. }
  unfold new_tile_layout, GeoModel.tile_count. cbn [tl_numTilesX tl_numTilesY tl_imageWidth tl_imageHeight].
  rewrite Hcx, Hcy. split; [reflexivity|]. split; [lia|]. split; [lia|].
  unfold layout_tile_bounds, GeoModel.tile_count.
  cbn [tl_numTilesX tl_numTilesY tl_tileWidth tl_tileHeight tl_tileOffsetX tl_tileOffsetY tl_imageX0 tl_imageY0 tl_imageX1 tl_imageY1].
  destruct (Z.ltb_spec idx 0); [lia|]. destruct (Z.geb_spec idx (ntx * nty)); [lia|]. cbn [orb].
  destruct (idx_split idx ntx ltac:(lia) ltac:(lia)) as [Hr [Hq [Hm _]]].
  unfold enc_tile_bounds. rewrite Hr, Hq. rewrite !Z.add_0_r, !Z.sub_0_r.
  assert (0 <= idx / ntx) by (apply Z.div_pos; lia).
  destruct (Z.ltb_spec (idx mod ntx * T) 0); [nia|]. destruct (Z.ltb_spec (idx / ntx * U) 0); [nia|]. reflexivity.
Qed.

Lemma assemble_tile_clamp : forall acc idx t, 0 <= idx < ntx * nty ->
  assemble_tile (new_tile_layout W H 0 0 T U 0 0) acc idx t = assemble_tile (new_tile_layout W H 0 0 T' U' 0 0) acc idx t.
Proof.
  intros acc idx t Hi. destruct clamp_range as [A B].
  destruct (layout_gen idx Hi) as (C1 & C2 & C3 & C4). cbv zeta in C1, C2, C3, C4.
  destruct (layout_agrees W H T' U' A B idx ltac:(rewrite ntx_clamp, nty_clamp; exact Hi)) as (D1 & D2 & D3 & D4).
  cbv zeta in D1, D2, D3, D4. rewrite ntx_clamp in D1, D4. rewrite nty_clamp in D1.
  unfold assemble_tile. rewrite C1, C2, C4, D1, D2, D4. rewrite (bounds_clamp idx Hi). reflexivity.
Qed.

Lemma assemble_tiles_clamp : forall ts acc k, 0 <= k -> k + zlen ts <= ntx * nty ->
  assemble_tiles (new_tile_layout W H 0 0 T U 0 0) acc k ts = assemble_tiles (new_tile_layout W H 0 0 T' U' 0 0) acc k ts.
Proof.
  induction ts as [|t ts IH]; intros acc k Hk Hn; cbn [assemble_tiles]; [reflexivity|].
  unfold zlen in Hn. cbn [length] in Hn. rewrite assemble_tile_clamp by lia.
  destruct (assemble_tile _ acc k t); cbn [obind]; try reflexivity. apply IH; [lia | unfold zlen; lia].
Qed.

Lemma layout_dims_clamp :
  tl_imageWidth (new_tile_layout W H 0 0 T U 0 0) * tl_imageHeight (new_tile_layout W H 0 0 T U 0 0) =
  tl_imageWidth (new_tile_layout W H 0 0 T' U' 0 0) * tl_imageHeight (new_tile_layout W H 0 0 T' U' 0 0).
Proof. reflexivity. Qed.

End Big.

(* ---------- lists ---------- *)

Lemma omap_ext_in : forall {A B} (f g : A -> outcome B) l, (forall a, In a l -> f a = g a) -> omap f l = omap g l.
Proof.
  intros A B f g l. induction l as [|a l IH]; intros Hfg; cbn [omap]; [reflexivity|].
  rewrite (Hfg a (or_introl eq_refl)). rewrite IH by (intros a' Ha'; apply Hfg; right; exact Ha'). reflexivity.
Qed.

Lemma omap_length : forall {A B} (f : A -> outcome B) l bs, omap f l = Ok bs -> length bs = length l.
Proof.
  intros A B f l. induction l as [|a l IH]; intros bs Hm; cbn [omap] in Hm.
  - injection Hm as <-. reflexivity.
  - destruct (f a); cbn [obind] in Hm; try discriminate. destruct (omap f l) eqn:E; cbn [obind] in Hm; try discriminate.
    injection Hm as <-. cbn [length]. rewrite (IH _ eq_refl). reflexivity.
Qed.

Lemma zlen_zrange : forall n, 0 <= n -> zlen (zrange n) = n.
Proof. intros n Hn. unfold zlen, zrange. rewrite map_length, seq_length. lia. Qed.

(* ---------- the pipe over big tiles ---------- *)

Section PipeBig.
Variable p : pparams.
Hypothesis Hsc : pp_scope p.
Variables tw th : Z.
Hypothesis Htw : 0 <= tw < 2 ^ 31.
Hypothesis Hth : 0 <= th < 2 ^ 31.

Let W := pp_w p.
Let H := pp_h p.
Let T := enc_tile_size W tw.
Let U := enc_tile_size H th.
Let tw' := clamp_tile W tw.
Let th' := clamp_tile H th.
Let n := enc_num_tiles W T * enc_num_tiles H U.

Lemma big_ranges : 1 <= W < 2 ^ 31 /\ 1 <= H < 2 ^ 31 /\ 1 <= T < 2 ^ 31 /\ 1 <= U < 2 ^ 31.
Proof.
  destruct Hsc as (A & B & _). fold W H in A, B. change (2 ^ 31) with 2147483648 in *.
  unfold T, U, enc_tile_size. destruct (Z.eqb_spec tw 0); destruct (Z.eqb_spec th 0); lia.
Qed.

Lemma clamp_ok : 0 <= tw' <= W /\ 0 <= th' <= H.
Proof.
  destruct big_ranges as (A & B & _). unfold tw', th', clamp_tile.
  destruct (Z.eqb_spec tw 0); destruct (Z.eqb_spec th 0); lia.
Qed.

Lemma size_clamp : enc_tile_size W tw' = Z.min T W /\ enc_tile_size H th' = Z.min U H.
Proof.
  destruct big_ranges as (A & B & _). unfold tw', th', T, U, clamp_tile, enc_tile_size. split.
  - destruct (Z.eqb_spec tw 0) as [E|E]; [rewrite Z.eqb_refl; lia|]. destruct (Z.eqb_spec (Z.min tw W) 0); lia.
  - destruct (Z.eqb_spec th 0) as [E|E]; [rewrite Z.eqb_refl; lia|]. destruct (Z.eqb_spec (Z.min th H) 0); lia.
Qed.

Lemma n_nonneg : 0 <= n.
Proof.
  destruct big_ranges as (A & B & C & D). destruct (ntx_pos W H T U A B C D) as [Px Py]. unfold n. nia.
Qed.

Lemma encode_clamp : forall pix, pipe_encode_tiles p tw th pix = pipe_encode_tiles p tw' th' pix.
Proof.
  intros pix. destruct big_ranges as (A & B & C & D). destruct size_clamp as [E1 E2].
  unfold pipe_encode_tiles. fold W H T U. rewrite E1, E2. rewrite (enc_tiles_clamp W H T U A B C D). reflexivity.
Qed.

Lemma encode_length : forall pix tiles, pipe_encode_tiles p tw th pix = Ok tiles -> zlen tiles = n.
Proof.
  intros pix tiles E. unfold pipe_encode_tiles in E. destruct (pipe_front p pix); cbn [obind] in E; try discriminate.
  apply omap_length in E. unfold zlen. rewrite E. fold W H T U. unfold enc_tiles. rewrite map_length.
  fold n. apply (zlen_zrange n n_nonneg).
Qed.

(* the decoder's tile loop for a general per-tile decoder D *)
Definition dec_loop (D : rect -> list Z -> outcome (list (list Z))) (t u : Z) (tiles : list (list Z)) : outcome (list Z) :=
  obind (omap (fun i => D (dec_tile_bounds i W H 0 0 t u 0 0) (nth (Z.to_nat i) tiles [])) (zrange (zlen tiles))) (fun tplanes =>
    let tl := new_tile_layout W H 0 0 t u 0 0 in
    obind (omap (fun c => assemble_tiles tl (zeros (Z.to_nat (tl_imageWidth tl * tl_imageHeight tl))) 0
                            (map (fun pls => nth (Z.to_nat c) pls []) tplanes))
                (zrange (pp_nc p))) (fun planes => Ok (pipe_back p planes))).

Lemma dec_loop_clamp : forall D tiles, zlen tiles = n -> dec_loop D T U tiles = dec_loop D (Z.min T W) (Z.min U H) tiles.
Proof.
  intros D tiles Hn. destruct big_ranges as (A & B & C & D0). unfold dec_loop.
  rewrite (omap_ext_in _ (fun i => D (dec_tile_bounds i W H 0 0 (Z.min T W) (Z.min U H) 0 0) (nth (Z.to_nat i) tiles []))).
  2:{ intros i Hi. rewrite Hn in Hi. apply in_zrange in Hi. rewrite (dec_bounds_clamp W H T U A B C D0 i Hi). reflexivity. }
  destruct (omap _ (zrange (zlen tiles))) as [tplanes| | |] eqn:E1; cbn [obind]; try reflexivity.
  apply omap_length in E1.
  assert (Hl : zlen tplanes = n).
  { unfold zlen. rewrite E1. rewrite Hn. apply (zlen_zrange n n_nonneg). }
  cbv zeta.
  rewrite (omap_ext_in _ (fun c => assemble_tiles (new_tile_layout W H 0 0 (Z.min T W) (Z.min U H) 0 0)
                                     (zeros (Z.to_nat (tl_imageWidth (new_tile_layout W H 0 0 (Z.min T W) (Z.min U H) 0 0) *
                                                       tl_imageHeight (new_tile_layout W H 0 0 (Z.min T W) (Z.min U H) 0 0)))) 0
                                     (map (fun pls => nth (Z.to_nat c) pls []) tplanes))); [reflexivity|].
  intros c _. rewrite (assemble_tiles_clamp W H T U A B C D0) by (unfold zlen in *; rewrite ?map_length; fold n; lia).
  reflexivity.
Qed.

Lemma decode_clamp : forall tiles, zlen tiles = n -> pipe_decode_tiles p tw th tiles = pipe_decode_tiles p tw' th' tiles.
Proof.
  intros tiles Hn. destruct size_clamp as [E1 E2].
  change (pipe_decode_tiles p tw th tiles) with (dec_loop (fun r t => pipe_dec_planes (tile_pp p r) t) T U tiles).
  rewrite (dec_loop_clamp _ tiles Hn). unfold pipe_decode_tiles. fold W H. rewrite E1, E2. reflexivity.
Qed.

Lemma rects_clamp : enc_tiles W H T U = enc_tiles W H (enc_tile_size W tw') (enc_tile_size H th').
Proof.
  destruct big_ranges as (A & B & C & D). destruct size_clamp as [E1 E2]. rewrite E1, E2. apply (enc_tiles_clamp W H T U A B C D).
Qed.

Theorem pipe_tiles_roundtrip_big_section : forall samples, samples_ok p samples ->
  let pix := pack_image p samples in
  hyp_tile_block_sizes p tw th pix ->
  exists tiles, pipe_encode_tiles p tw th pix = Ok tiles /\ pipe_decode_tiles p tw th tiles = Ok pix.
Proof.
  intros samples Hsm pix Hbs. destruct clamp_ok as [A B].
  assert (Hbs' : hyp_tile_block_sizes p tw' th' pix).
  { unfold hyp_tile_block_sizes in *. fold W H in Hbs |- *. fold T U in Hbs. rewrite <- rects_clamp. exact Hbs. }
  destruct (pipe_tiles_roundtrip_partial p tw' th' Hsc A B samples Hsm Hbs') as [tiles [Ee Ed]].
  exists tiles. rewrite <- encode_clamp in Ee. split; [exact Ee|].
  rewrite (decode_clamp tiles (encode_length _ _ Ee)). exact Ed.
Qed.

(* ---------- tiles x layers ---------- *)

Lemma count_clamp : tile_count p tw' th' = n.
Proof.
  destruct big_ranges as (A & B & C & D). destruct size_clamp as [E1 E2]. unfold PipeModel.tile_count. fold W H. rewrite E1, E2.
  rewrite (ntx_clamp W H T U A), (nty_clamp W H T U B). reflexivity.
Qed.

Lemma encode_layers_clamp : forall nl talloc pix,
  pipe_encode_tiles_layers p nl talloc tw th pix = pipe_encode_tiles_layers p nl talloc tw' th' pix.
Proof.
  intros nl talloc pix. destruct big_ranges as (A & B & C & D). destruct size_clamp as [E1 E2].
  unfold pipe_encode_tiles_layers. rewrite count_clamp. unfold PipeModel.tile_count. fold W H T U. fold n.
  destruct (pipe_front p pix); cbn [obind]; try reflexivity.
  apply omap_ext_in. intros idx Hi. apply in_zrange in Hi. unfold tile_rect. fold W H T U. rewrite E1, E2.
  rewrite (ntx_clamp W H T U A). rewrite (bounds_clamp W H T U A B C D idx Hi). reflexivity.
Qed.

Lemma encode_layers_length : forall nl talloc pix tiles, pipe_encode_tiles_layers p nl talloc tw th pix = Ok tiles -> zlen tiles = n.
Proof.
  intros nl talloc pix tiles E. unfold pipe_encode_tiles_layers in E. destruct (pipe_front p pix); cbn [obind] in E; try discriminate.
  apply omap_length in E. unfold zlen. rewrite E. unfold PipeModel.tile_count. fold W H T U. fold n. apply (zlen_zrange n n_nonneg).
Qed.

Lemma decode_layers_clamp : forall nl tiles, zlen tiles = n ->
  pipe_decode_tiles_layers p nl tw th tiles = pipe_decode_tiles_layers p nl tw' th' tiles.
Proof.
  intros nl tiles Hn. destruct size_clamp as [E1 E2].
  change (pipe_decode_tiles_layers p nl tw th tiles) with (dec_loop (fun r t => pipe_dec_planes_layers (tile_pp p r) nl t) T U tiles).
  rewrite (dec_loop_clamp _ tiles Hn). unfold pipe_decode_tiles_layers. fold W H. rewrite E1, E2. reflexivity.
Qed.

Theorem pipe_tiles_layers_roundtrip_big_section : forall nl talloc, 2 <= nl -> talloc_ok nl talloc ->
  forall samples, samples_ok p samples ->
  let pix := pack_image p samples in
  hyp_tile_block_sizes p tw th pix ->
  exists tiles, pipe_encode_tiles_layers p nl talloc tw th pix = Ok tiles /\ pipe_decode_tiles_layers p nl tw th tiles = Ok pix.
Proof.
  intros nl talloc Hnl Hal samples Hsm pix Hbs. destruct clamp_ok as [A B].
  assert (Hbs' : hyp_tile_block_sizes p tw' th' pix).
  { unfold hyp_tile_block_sizes in *. fold W H in Hbs |- *. fold T U in Hbs. rewrite <- rects_clamp. exact Hbs. }
  destruct (pipe_tiles_layers_roundtrip_partial p tw' th' nl talloc Hsc A B Hnl Hal samples Hsm Hbs') as [tiles [Ee Ed]].
  exists tiles. rewrite <- encode_layers_clamp in Ee. split; [exact Ee|].
  rewrite (decode_layers_clamp nl tiles (encode_layers_length _ _ _ _ Ee)). exact Ed.
Qed.

End PipeBig.

(* ---------- the theorems for every tile size ---------- *)

Theorem pipe_tiles_roundtrip_any_size : forall p tw th, pp_scope p -> 0 <= tw < 2 ^ 31 -> 0 <= th < 2 ^ 31 ->
  forall samples, samples_ok p samples ->
  let pix := pack_image p samples in
  hyp_tile_block_sizes p tw th pix ->
  exists tiles, pipe_encode_tiles p tw th pix = Ok tiles /\ pipe_decode_tiles p tw th tiles = Ok pix.
Proof. intros p tw th Hsc Htw Hth samples Hsm. apply (pipe_tiles_roundtrip_big_section p Hsc tw th Htw Hth samples Hsm). Qed.

Theorem pipe_tiles_layers_roundtrip_any_size : forall p tw th nl talloc, pp_scope p -> 0 <= tw < 2 ^ 31 -> 0 <= th < 2 ^ 31 ->
  2 <= nl -> talloc_ok nl talloc ->
  forall samples, samples_ok p samples ->
  let pix := pack_image p samples in
  hyp_tile_block_sizes p tw th pix ->
  exists tiles, pipe_encode_tiles_layers p nl talloc tw th pix = Ok tiles /\ pipe_decode_tiles_layers p nl tw th tiles = Ok pix.
Proof.
  intros p tw th nl talloc Hsc Htw Hth Hnl Hal samples Hsm.
  apply (pipe_tiles_layers_roundtrip_big_section p Hsc tw th Htw Hth nl talloc Hnl Hal samples Hsm).
Qed.
