(* pipe, part 5: what the decoder derives from the geometry - cbPrecinctDims /
   cbPrecinctPositions (dec_geo), precinctIndicesForResolution (dec_pidx) and the tile decoder's
   precinct -> global index map (dec_order) - in terms of the numbered encoder block list. *)
From V Require Import Common.Base J2KGeo.GeoModel J2KGeo.GeoProofsBlocks T2.T2Header T2.T2Packets T2.T2ProofsHeader2
  Pipe.PipeModel Pipe.PipeProofsFront Pipe.PipeProofsLists Pipe.PipeProofsStore Pipe.PipeProofsGeo Pipe.PipeCellRel.
Require Import Coq.Sorting.Sorted.
Require V.T2.T2ProofsPackets2 V.T2.T2ProofsSafe2.

(* ---------- insertion sort of sorted entries ---------- *)

Definition ce_pos (e : centry) : Z * Z := (ce_cbx e, ce_cby e).

Lemma ce_lt_pos : forall a b, ce_lt a b = pos_blt (ce_pos a) (ce_pos b).
Proof. intros. reflexivity. Qed.

Lemma pos_blt_asym' : forall a b, pos_blt a b = true -> pos_blt b a = false.
Proof.
  intros [ax ay] [bx by_]. unfold pos_blt. cbn [fst snd]. intros H.
  destruct (Z.eqb_spec ay by_) as [->|Hne].
  - rewrite Z.eqb_refl. apply Z.ltb_lt in H. apply Z.ltb_ge. lia.
  - destruct (Z.eqb_spec by_ ay); [lia|]. apply Z.ltb_lt in H. apply Z.ltb_ge. lia.
Qed.

Lemma ce_sort_sorted : forall l, StronglySorted pcr_plt (map ce_pos l) -> ce_sort l = l.
Proof.
  induction l as [|a l IH]; intros H; [reflexivity|]. cbn [map] in H. inversion H as [|? ? Hs Hall]; subst.
  unfold ce_sort. cbn [fold_right]. fold (ce_sort l). rewrite (IH Hs).
  destruct l as [|x l]; [reflexivity|]. cbn [ce_insert]. rewrite ce_lt_pos.
  cbn [map] in Hall. inversion Hall as [|? ? Hax _]; subst. rewrite (pos_blt_asym' _ _ Hax). reflexivity.
Qed.

(* ---------- splitting a list along the chunks of its projection ---------- *)

Lemma map_eq_app_split : forall {A B} (f : A -> B) l a b, map f l = a ++ b ->
  exists l1 l2, l = l1 ++ l2 /\ map f l1 = a /\ map f l2 = b.
Proof.
  intros A B f l a. revert l. induction a as [|x a IH]; intros l b H.
  - exists [], l. repeat split; assumption.
  - destruct l as [|y l]; [discriminate|]. cbn [map app] in H. injection H as Hy Hr.
    destruct (IH l b Hr) as [l1 [l2 [-> [E1 E2]]]]. exists (y :: l1), l2. cbn [map app]. rewrite Hy, E1. repeat split; assumption.
Qed.

Lemma partition_by_chunks : forall {A K} (Q : K -> A -> bool) (chunks : K -> list A) (ks : list K) (l : list (Z * A)),
  map snd l = flat_map chunks ks ->
  (forall k a, In k ks -> In a (chunks k) -> Q k a = true) ->
  (forall k k' a, In k ks -> In k' ks -> k' <> k -> In a (chunks k) -> Q k' a = false) ->
  NoDup ks ->
  flat_map (fun k => filter (fun x => Q k (snd x)) l) ks = l.
Proof.
  intros A K Q chunks ks. induction ks as [|k0 ks IH]; intros l Hm Ht Hf Hnd.
  - cbn [flat_map] in *. destruct l; [reflexivity | discriminate].
  - cbn [flat_map] in Hm. destruct (map_eq_app_split snd l _ _ Hm) as [l1 [l2 [-> [E1 E2]]]].
    inversion Hnd as [|? ? Hni Hnd']; subst. cbn [flat_map].
    assert (F1 : filter (fun x => Q k0 (snd x)) (l1 ++ l2) = l1).
    { rewrite filter_app. rewrite (filter_all' _ l1), (filter_none _ l2), app_nil_r; [reflexivity| |].
      - intros x Hx. assert (Hs : In (snd x) (flat_map chunks ks)) by (rewrite <- E2; apply in_map; exact Hx).
        apply in_flat_map in Hs as [k [Hk Ha]]. apply (Hf k k0 (snd x)); [right; exact Hk | left; reflexivity | intros ->; contradiction | exact Ha].
      - intros x Hx. apply (Ht k0); [left; reflexivity|]. rewrite <- E1. apply in_map. exact Hx. }
    rewrite F1. f_equal.
    transitivity (flat_map (fun k => filter (fun x => Q k (snd x)) l2) ks).
    + apply flat_map_ext_in. intros k Hk. rewrite filter_app. rewrite (filter_none _ l1); [reflexivity|].
      intros x Hx. apply (Hf k0 k (snd x)); [left; reflexivity | right; exact Hk | intros ->; contradiction|].
      rewrite <- E1. apply in_map. exact Hx.
    + apply (IH l2 E2).
      * intros k a Hk Ha. apply Ht; [right; exact Hk | exact Ha].
      * intros k k' a Hk Hk' Hne Ha. apply (Hf k k' a); [right; exact Hk | right; exact Hk' | exact Hne | exact Ha].
      * exact Hnd'.
Qed.

Lemma filter_filter : forall {A} (P Q : A -> bool) l, filter Q (filter P l) = filter (fun a => P a && Q a) l.
Proof.
  induction l as [|a l IH]; [reflexivity|]. cbn [filter]. destruct (P a); cbn [andb filter]; [destruct (Q a); rewrite IH; reflexivity | exact IH].
Qed.

Lemma zmax_list_maxp1 : forall l, zmax_list (map (fun v => v + 1) l) = maxp1 l.
Proof.
  intros l. unfold zmax_list, maxp1. generalize 0. induction l as [|v l IH]; intros m; cbn [map fold_left]; [reflexivity | apply IH].
Qed.

Section DecGeo.
Variable p : pparams.
Hypothesis Hsc : pp_scope p.
Variable d : list Z.                 (* any coefficient array: the geometry does not depend on it *)

Let L := pp_levels p.

Lemma NErb_filter : forall r bid, NErb p d r bid = filter (fun x => cb_band (snd (snd x)) =? bid) (NEr p d r).
Proof. intros. unfold NErb, NEr. rewrite filter_filter. reflexivity. Qed.

Lemma NErb_pos : forall r b, 0 <= r <= L -> In b (rbands p r) ->
  map ce_pos (map entry_of (NErb p d r (b_id b))) = bgrid p b.
Proof.
  intros r b Hr Hb. rewrite map_map.
  transitivity (map (fun rc : Z * cblock => (cb_cbx (snd rc), cb_cby (snd rc))) (map snd (NErb p d r (b_id b)))).
  { rewrite map_map. reflexivity. }
  rewrite (NErb_blocks p d r b Hr Hb), map_map. cbn [snd]. unfold band_blocks. apply partition_grid.
Qed.

(* cbPrecinctPositions / the per-band entry list *)
Lemma cell_band_entries_spec : forall r b, 0 <= r <= L -> In b (rbands p r) ->
  cell_band_entries p r 0 (b_id b) = map entry_of (NErb p d r (b_id b)).
Proof.
  intros r b Hr Hb. unfold cell_band_entries. rewrite (comp_entries_blocks p Hsc d).
  rewrite filter_map_comm.
  assert (E : filter (fun a => (ce_res (entry_of a) =? r) && (ce_pidx (entry_of a) =? 0) && (ce_band (entry_of a) =? b_id b)) (NE p d)
              = NErb p d r (b_id b)).
  { unfold NErb. apply filter_ext. intros x. cbn [entry_of ce_res ce_pidx ce_band]. rewrite Z.eqb_refl, andb_true_r. reflexivity. }
  rewrite E. apply ce_sort_sorted. rewrite (NErb_pos r b Hr Hb). apply pcr_grid_ss.
Qed.

Lemma NErb_nil_iff : forall r b, 0 <= r <= L -> In b (rbands p r) ->
  NErb p d r (b_id b) = [] <-> bgrid p b = [].
Proof.
  intros r b Hr Hb. rewrite <- (NErb_pos r b Hr Hb). split; [intros ->; reflexivity|].
  intros H. destruct (NErb p d r (b_id b)); [reflexivity | discriminate].
Qed.

(* the numbered blocks of a resolution are those of its bands, in band order *)
Lemma NEr_bands : forall r, 0 <= r <= L -> flat_map (fun b => NErb p d r (b_id b)) (rbands p r) = NEr p d r.
Proof.
  intros r Hr.
  assert (Hnd : NoDup (rbands p r)).
  { apply (NoDup_map_inv b_id). rewrite rbands_ids. apply T2ProofsPackets2.band_order_nodup. }
  set (Q := fun (b0 : band) (rc : Z * cblock) => cb_band (snd rc) =? b_id b0).
  assert (E : flat_map (fun b => NErb p d r (b_id b)) (rbands p r) =
              flat_map (fun b => filter (fun x => Q b (snd x)) (NEr p d r)) (rbands p r)).
  { apply flat_map_ext_in. intros b _. apply NErb_filter. }
  rewrite E.
  apply (partition_by_chunks Q (fun b0 => map (fun c => (r, c)) (band_blocks p d b0)) (rbands p r) (NEr p d r)).
  - rewrite (NEr_blocks p d r Hr), enc_blocks_res_bands. rewrite map_flat_map. reflexivity.
  - intros b rc Hb Hrc. apply in_map_iff in Hrc as [c [<- Hc]]. unfold Q. cbn [snd]. apply Z.eqb_eq. apply (partition_band _ _ _ _ _ Hc).
  - intros b b' rc Hb Hb' Hne Hrc. apply in_map_iff in Hrc as [c [<- Hc]]. unfold Q. cbn [snd]. apply Z.eqb_neq.
    rewrite (partition_band _ _ _ _ _ Hc). intros E2. apply Hne. apply (rbands_id_inj p r b' b Hb' Hb). symmetry. exact E2.
  - exact Hnd.
Qed.

(* precinctIndicesForResolution *)
Lemma dec_pidx_spec : forall c r, 0 <= c < pp_nc p -> 0 <= r <= L ->
  dec_pidx p c r = match NEr p d r with [] => [] | _ => [0] end.
Proof.
  intros c r Hc Hr. unfold dec_pidx. destruct (Z.ltb_spec c 0); [lia|]. destruct (Z.geb_spec c (pp_nc p)); [lia|]. cbn [orb].
  rewrite (comp_entries_blocks p Hsc d), filter_map_comm, map_map. cbn [entry_of ce_res ce_pidx].
  fold (NEr p d r). rewrite zsort_set_zeros.
  - destruct (NEr p d r); reflexivity.
  - apply Forall_forall. intros x Hx. apply in_map_iff in Hx as [y [<- _]]. reflexivity.
Qed.

Lemma dec_pidx_out : forall c r, ~ (0 <= c < pp_nc p) -> dec_pidx p c r = [].
Proof.
  intros c r Hc. unfold dec_pidx. destruct (Z.ltb_spec c 0); [reflexivity|]. destruct (Z.geb_spec c (pp_nc p)); [reflexivity | lia].
Qed.

(* TileDecoder.buildPrecinctOrder *)
Lemma dec_order_spec : forall r, 0 <= r <= L ->
  dec_order p r 0 = match NEr p d r with [] => None | l => Some (map fst l) end.
Proof.
  intros r Hr. unfold dec_order.
  assert (E : flat_map (fun band => map ce_global (cell_band_entries p r 0 band)) (band_order r) = map fst (NEr p d r)).
  { rewrite <- (rbands_ids p r), flat_map_map. rewrite <- (NEr_bands r Hr), map_flat_map.
    apply flat_map_ext_in. intros b Hb. rewrite (cell_band_entries_spec r b Hr Hb), map_map. reflexivity. }
  rewrite E. destruct (NEr p d r); reflexivity.
Qed.

(* cbPrecinctDims / cbPrecinctPositions *)
Lemma dec_geo_spec : forall c r b, 0 <= c < pp_nc p -> 0 <= r <= L -> In b (rbands p r) ->
  aget key4_eqb (dec_geo p) (c, r, 0, b_id b) =
    match bgrid p b with [] => None | _ => Some (bnx p b, bny p b, bgrid p b) end.
Proof.
  intros c r b Hc Hr Hb. unfold dec_geo. fold L.
  (* component *)
  rewrite (aget_flat_map_at key4_eqb _ (zrange (pp_nc p)) _ c).
  2:{ apply in_zrange. exact Hc. }
  2:{ intros c' _ Hne kv Hkv. apply in_flat_map in Hkv as [r' [_ Hkv]]. apply in_flat_map in Hkv as [p' [_ Hkv]].
      apply in_flat_map in Hkv as [b' [_ Hkv]]. destruct (cell_band_entries p r' p' b'); [destruct Hkv|].
      destruct Hkv as [<-|[]]. cbn [fst key4_eqb]. destruct (Z.eqb_spec c' c); [contradiction | reflexivity]. }
  (* resolution *)
  rewrite (aget_flat_map_at key4_eqb _ (zrange (L + 1)) _ r).
  2:{ apply in_zrange. lia. }
  2:{ intros r' _ Hne kv Hkv. apply in_flat_map in Hkv as [p' [_ Hkv]].
      apply in_flat_map in Hkv as [b' [_ Hkv]]. destruct (cell_band_entries p r' p' b'); [destruct Hkv|].
      destruct Hkv as [<-|[]]. cbn [fst key4_eqb]. rewrite Z.eqb_refl. destruct (Z.eqb_spec r' r); [contradiction | reflexivity]. }
  assert (Hbid : In (b_id b) (band_order r)) by (rewrite <- (rbands_ids p r); apply in_map; exact Hb).
  rewrite (dec_pidx_spec c r Hc Hr).
  destruct (NEr p d r) as [|x0 l0] eqn:En.
  - (* no block at this resolution *)
    cbn [flat_map aget].
    assert (Hnil : NErb p d r (b_id b) = []) by (rewrite NErb_filter, En; reflexivity).
    apply (NErb_nil_iff r b Hr Hb) in Hnil. rewrite Hnil. reflexivity.
  - cbn [flat_map]. rewrite app_nil_r.
    rewrite (aget_flat_map_at key4_eqb _ (band_order r) _ (b_id b) Hbid).
    2:{ intros b' _ Hne kv Hkv. destruct (cell_band_entries p r 0 b'); [destruct Hkv|].
        destruct Hkv as [<-|[]]. cbn [fst key4_eqb]. rewrite !Z.eqb_refl. destruct (Z.eqb_spec b' (b_id b)); [contradiction | reflexivity]. }
    rewrite (cell_band_entries_spec r b Hr Hb).
    pose proof (NErb_pos r b Hr Hb) as Hpos.
    set (es := map entry_of (NErb p d r (b_id b))) in *.
    destruct (bgrid p b) as [|g0 gs] eqn:Eg.
    { destruct es; [reflexivity | discriminate]. }
    rewrite <- Eg in Hpos |- *.
    destruct es as [|e0 es']; [cbn [map] in Hpos; rewrite <- Hpos in Eg; discriminate|].
    set (es := e0 :: es') in *.
    cbn [aget]. rewrite T2ProofsSafe2.key4_eqb_refl. f_equal.
      assert (Hgx : map (fun e => ce_cbx e + 1) es = map (fun v => v + 1) (map fst (bgrid p b))).
      { rewrite <- Hpos, !map_map. reflexivity. }
      assert (Hgy : map (fun e => ce_cby e + 1) es = map (fun v => v + 1) (map snd (bgrid p b))).
      { rewrite <- Hpos, !map_map. reflexivity. }
      assert (Hposxy : map (fun e => (ce_cbx e, ce_cby e)) es = bgrid p b) by exact Hpos.
      rewrite Hgx, Hgy, Hposxy, !zmax_list_maxp1.
      assert (Hnn : 0 < bnx p b /\ 0 < bny p b).
      { destruct (Z_le_gt_dec (bnx p b) 0) as [H0|H0].
        - exfalso. assert (bgrid p b = []) by (apply grid_positions_nil; left; exact H0). congruence.
        - destruct (Z_le_gt_dec (bny p b) 0) as [H1|H1]; [|lia].
          exfalso. assert (bgrid p b = []) by (apply grid_positions_nil; right; exact H1). congruence. }
      rewrite (maxp1_bound (map fst (bgrid p b)) (bnx p b)), (maxp1_bound (map snd (bgrid p b)) (bny p b)); try lia; try reflexivity.
      * intros v Hv. apply in_map_iff in Hv as [[x y] [<- Hxy]]. apply in_grid_positions in Hxy. cbn [snd]. lia.
      * apply in_map_iff. exists (0, bny p b - 1). split; [reflexivity|]. apply in_grid_positions. lia.
      * intros v Hv. apply in_map_iff in Hv as [[x y] [<- Hxy]]. apply in_grid_positions in Hxy. cbn [fst]. lia.
      * apply in_map_iff. exists (bnx p b - 1, 0). split; [reflexivity|]. apply in_grid_positions. lia.
Qed.

End DecGeo.
