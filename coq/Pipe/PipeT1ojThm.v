(* The tile decoder's call of the tier-1 block decoder, byte level.
   jpeg2000/encoder.go encodeCodeBlock scales the coefficients by 64 and calls t1.Encode with
   nmseDecFracBits = 6 and numPasses = 3n-2, n = maxBitplane+1-6  (T1Bytes.enc_plain .. 0 6 ..);
   jpeg2000/t2/tile_decoder.go decodeCodeBlock calls DecodeWithBitplane(bytes, 3n-2, n, 0) with
   SetOpenJPEGReconstruction(true)  (T1Bytes.dec_with_options .. 0 n true false ..).
   The decoder runs the same passes at planes shifted by -5 with the half-bit reconstruction and
   returns sgn c * (2|c| + 1) for every coefficient c.
   Composition of  oj_ideal_lockstep (PipeT1ojSeq.v: the decoder's requests = the encoder's
   decisions, and the value invariant), enc_bytes_mq + mq_passes_future (the bytes are one MQ
   codeword that the MQ decoder turns back into those decisions) and dec_passes_fsim (same
   decoder model over the ideal channel and the real coder). *)
From V Require Import Common.Base MQ.MqModel MQ.MqProofs MQ.MqProofsDec MQ.MqProofsRt MQ.MqProofsRt2.
From V Require Import T1.T1Store T1.T1Ctx T1.T1CtxProofs T1.T1Model T1.T1Bytes T1.T1ProofsBase T1.T1ProofsSample
  T1.T1ProofsSeq T1.T1ProofsFinal T1.T1ProofsSim T1.T1ProofsMqRt T1.T1ProofsComp T1.T1ProofsCompThm.
From V Require Import Pipe.PipeT1ojSample Pipe.PipeT1ojPass Pipe.PipeT1ojSeq.

Lemma nth_map0 : forall (f : Z -> Z) l i, f 0 = 0 -> nth i (map f l) 0 = f (nth i l 0).
Proof.
  intros f l i H. transitivity (nth i (map f l) (f 0)); [rewrite H; reflexivity|apply map_nth].
Qed.

Definition oj_out (c : Z) : Z := Z.sgn c * (2 * Z.abs c + 1).

Lemma oj_final_val : forall c sg sn d, osamp_ok (c * 64) sg sn d 6 -> d = oj_out c.
Proof.
  intros c sg sn d H. unfold oj_out.
  assert (Hs : Z.shiftr (Z.abs (c * 64)) 6 = Z.abs c).
  { rewrite Z.shiftr_div_pow2 by lia. change (2 ^ 6) with 64. rewrite Z.abs_mul. change (Z.abs 64) with 64.
    apply Z.div_mul. lia. }
  unfold osamp_ok in H. rewrite Hs in H. destruct sg.
  - destruct H as (-> & _ & _). unfold ojv. rewrite Hs. change (2 ^ (6 - 6)) with 1.
    rewrite Z.sgn_mul. change (Z.sgn 64) with 1. ring.
  - destruct H as (-> & _ & H0). assert (c = 0) by lia. subst c. reflexivity.
Qed.

Lemma all_passes_zlen : forall maxbp low, low <= maxbp -> zlen (all_passes maxbp low) = 3 * (maxbp - low) + 1.
Proof. intros maxbp low H. unfold zlen. rewrite all_passes_length. lia. Qed.

Theorem t1_tile_decode_roundtrip : forall (wn hn : nat) (orient : Z) (cs : list Z),
  length cs = (wn * hn)%nat -> (forall c, In c cs -> - 2 ^ 25 < c < 2 ^ 25) ->
  let data := map (fun c => c * 64) cs in
  let n := find_max_bitplane data + 1 - 6 in
  0 < n ->
  exists bytes, T1Bytes.enc_plain wn hn orient 0 6 (n * 3 - 2) data = Ok bytes /\
    T1Bytes.dec_with_options wn hn orient 0 n true false bytes (n * 3 - 2)
      = Ok (map (fun c => Z.sgn c * (2 * Z.abs c + 1)) cs).
Proof.
  intros wn hn orient cs Hlen Hcs data n Hn.
  set (maxbp := find_max_bitplane data) in *.
  assert (H6 : 6 <= maxbp) by (unfold n in Hn; lia).
  assert (En : n = maxbp - 5) by (unfold n; lia).
  assert (Enp : n * 3 - 2 = 3 * (maxbp - 6 + 1) - 2) by (unfold n; lia).
  rewrite Enp, En. clear Enp En Hn n.
  set (NP := 3 * (maxbp - 6 + 1) - 2).
  assert (Hlend : length data = (wn * hn)%nat) by (unfold data; rewrite map_length; exact Hlen).
  assert (Hok : data_ok data).
  { intros v Hv. unfold data in Hv. apply in_map_iff in Hv. destruct Hv as (c & <- & Hc). specialize (Hcs c Hc).
    change (2 ^ 25) with 33554432 in Hcs. change (2 ^ 31) with 2147483648. lia. }
  pose proof (find_max_bitplane_spec data Hok) as Hspec. cbv zeta in Hspec. fold maxbp in Hspec.
  destruct Hspec as [[Hm1 _]|[Hmb _]]; [lia|].
  set (V := pad_data wn hn data).
  set (pl := pass_list maxbp 6 NP).
  set (syms := enc_passes wn hn orient 0 maxbp V pl true Leaf).
  assert (Hs0 : mq_style 0) by reflexivity.
  assert (Hpl : pl = all_passes maxbp 6) by (unfold pl; apply pass_list_complete; unfold NP; lia).
  assert (Hchain : chain maxbp 2 pl) by (rewrite Hpl; apply chain_all_passes; lia).
  assert (Hsl : length syms = length pl) by apply enc_passes_length.
  assert (Hsy : Forall (Forall sym_mq) syms) by (apply enc_passes_syms_mq; exact Hs0).
  assert (Hzpl : zlen pl = NP) by (rewrite Hpl, all_passes_zlen by lia; unfold NP; lia).
  destruct (enc_bytes_mq 0 maxbp pl maxbp 2 syms (enc_new_cx cx0) Hs0 Hchain Hsl Hsy (enc_new_inv cx0 cx0_ok) cx0_len)
    as (e' & term & ps & Eenc & Hps & Hbytes).
  change (negb (Z.land 0 CblkStyleReset =? 0)) with false in Hbytes.
  remember (if term then enc_get_buffer e' else enc_flush e') as bytes eqn:Ebytes0.
  exists bytes. split.
  - (* the encoder *)
    unfold enc_plain. fold maxbp. destruct (Z.ltb_spec maxbp 0) as [Hlt|_]; [lia|].
    unfold enc_layered, enc_syms. fold maxbp. fold V. fold pl. fold syms.
    destruct (Z.ltb_spec maxbp 6) as [Hlt|_]; [lia|].
    rewrite enc_init.
    match goal with |- context [enc_bytes_passes ?a ?b ?c ?d ?e ?f] =>
      replace (enc_bytes_passes a b c d e f) with (Ok ((e', term), ps)) by (symmetry; exact Eenc) end.
    cbn [obind snd]. rewrite <- Ebytes0. reflexivity.
  - (* the decoder *)
    assert (Hpl1 : (0 < length pl)%nat) by (rewrite Hpl; unfold all_passes; cbn [length]; lia).
    destruct syms as [|s0 symr] eqn:Esyms; [cbn [length] in Hsl; lia|].
    pose proof (Forall_inv Hsy) as Hsy0. pose proof (Forall_inv_tail Hsy) as Hsyr.
    cbn [map] in Hbytes.
    destruct (mq_passes_future false cx0 (decs s0) (map decs symr) cx0_ok
                ltac:(rewrite cx0_len; apply sym_mq_decision; exact Hsy0)
                ltac:(rewrite cx0_len; apply Forall_map; eapply Forall_impl; [|exact Hsyr]; intros l0 Hl0; apply sym_mq_decision; exact Hl0))
      as (Hne & dd & Edd & Hfut).
    rewrite <- Hbytes in Hne, Edd.
    destruct (dec_new_set3 bytes dd Edd) as (dnew & Enew & Eset).
    destruct bytes as [|by0 byr]; [congruence|].
    unfold dec_with_options.
    change (Z.land 0 CblkStyleTermAll =? 0) with true. cbn [negb orb].
    rewrite Enew. cbn [obind]. rewrite Eset.
    (* the ideal run *)
    destruct (oj_ideal_lockstep wn hn orient 0 data eq_refl Hlend Hok H6) as (st & Eid & Hd).
    fold maxbp in Eid. fold NP in Eid. fold V in Eid. fold pl in Eid.
    assert (Esy : enc_passes wn hn orient 0 maxbp V pl true Leaf = s0 :: symr) by exact Esyms.
    rewrite Esy in Eid.
    assert (El : zlen (s0 :: symr) = NP) by (unfold zlen; rewrite Hsl; exact Hzpl).
    pose proof (dec_passes_fsim ideal_ask coder_ask (RA 0 NP) (RB 0 NP)
                  ideal_pre ideal_post (fun _ _ _ _ c => Ok c) (opt_post 0 NP false)
                  wn hn orient 0 (maxbp - 5) true (RB_ask 0 NP) (pass_list (maxbp - 5) 0 NP) 0 (Leaf, Leaf)
                  ([], s0 :: symr) (CoMQ dd)) as Hsim.
    destruct (Hsim) with (a := (st, (@nil sym, @nil (list sym)))) as (b & Eb & Hb).
    + intros k bp pt Hk c1 c2 Hr. apply RA_pre. exact Hr.
    + intros k bp pt Hk c1 c2 Hr. rewrite (nolazy_raw 0 bp (maxbp - 5) pt eq_refl). apply RB_post. exact Hr.
    + split; [reflexivity|]. exists dd. cbn [fst snd]. repeat split; auto. rewrite El. lia.
    + exact Eid.
    + destruct b as [st2 c2]. destruct Hb as [Hst _]. cbn [fst] in Hst. subst st2.
      match goal with |- obind ?X _ = _ => replace X with (Ok (st, c2)) by (symmetry; exact Eb) end.
      cbn [obind fst snd]. f_equal.
      apply get_data_eq; [rewrite map_length; exact Hlen|].
      intros x y Hx Hy. destruct (Hd x y Hx Hy) as (sg & sn & Hv).
      unfold data in Hv. rewrite (nth_map0 (fun c => c * 64)) in Hv by reflexivity.
      rewrite (nth_map0 (fun c => Z.sgn c * (2 * Z.abs c + 1))) by reflexivity.
      apply (oj_final_val _ _ _ _ Hv).
Qed.

Print Assumptions t1_tile_decode_roundtrip.
