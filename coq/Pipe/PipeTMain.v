(* pipe (tiles): the composed path over a tile grid.  Per tile the single-tile pipeline at the
   tile's origin (PipeProofsMain.pipe_planes_roundtrip for the parameter set tile_pp p r), tile
   extraction / assembly by GeoProofsTiles.tile_roundtrip_id and decoder_agrees (the decoder
   derives the encoder's rectangles), colour transform / level shift / packing once on the
   whole image (PipeProofsFront.front_ok). *)
From V Require Import Common.Base J2KGeo.GeoModel J2KGeo.GeoProofsLists J2KGeo.GeoProofsTiles J2KGeo.GeoProofsBlocks
  T2.T2Header T2.T2Packets
  Pipe.PipeModel Pipe.PipeProofsFront Pipe.PipeProofsGeo Pipe.PipeProofsEnc Pipe.PipeProofsMain.
Require V.Pipe.PipeLBlock V.Pipe.PipeLMain.
Require Import Coq.Lists.List.

(* ---------- lists ---------- *)

Lemma in_firstn' : forall {A} n (l : list A) x, In x (firstn n l) -> In x l.
Proof. induction n as [|n IH]; intros [|a l] x H; cbn in *; try contradiction. destruct H as [->|H]; [left; reflexivity | right; apply IH; exact H]. Qed.

Lemma in_skipn' : forall {A} n (l : list A) x, In x (skipn n l) -> In x l.
Proof. induction n as [|n IH]; intros [|a l] x H; cbn in *; try contradiction; try exact H. right. apply IH. exact H. Qed.

Lemma crop_in : forall data stride x0 y0 w h v, In v (crop data stride x0 y0 w h) -> In v data.
Proof.
  intros data stride x0 y0 w h v H. unfold crop in H. apply in_flat_map in H as [ty [_ H]].
  unfold row_slice in H. apply in_firstn' in H. apply in_skipn' in H. exact H.
Qed.

Lemma omap_ok_map : forall {A B} (f : A -> outcome B) (g : A -> B) l,
  (forall a, In a l -> f a = Ok (g a)) -> omap f l = Ok (map g l).
Proof.
  intros A B f g l. induction l as [|a l IH]; intros H; cbn [omap map]; [reflexivity|].
  rewrite (H a (or_introl eq_refl)). cbn [obind]. rewrite IH by (intros a' Ha'; apply H; right; exact Ha'). reflexivity.
Qed.

Lemma omap_exists : forall {A B} (f : A -> outcome B) (P : A -> B -> Prop) l,
  (forall a, In a l -> exists b, f a = Ok b /\ P a b) -> exists bs, omap f l = Ok bs /\ Forall2 P l bs.
Proof.
  intros A B f P l. induction l as [|a l IH]; intros H; cbn [omap].
  - exists []. split; [reflexivity | constructor].
  - destruct (H a (or_introl eq_refl)) as [b [Eb Pb]].
    destruct (IH (fun a' Ha' => H a' (or_intror Ha'))) as [bs [Ebs Pbs]].
    exists (b :: bs). rewrite Eb. cbn [obind]. rewrite Ebs. split; [reflexivity | constructor; assumption].
Qed.

Lemma forall2_nth : forall {A B} (R : A -> B -> Prop) l l' da db i, Forall2 R l l' -> (i < length l)%nat ->
  R (nth i l da) (nth i l' db).
Proof.
  intros A B R l l' da db i H. revert i. induction H as [|a b l l' Hab H IH]; intros i Hi; cbn [length] in Hi; [lia|].
  destruct i as [|i]; cbn [nth]; [exact Hab | apply IH; lia].
Qed.

Lemma forall2_length' : forall {A B} (R : A -> B -> Prop) l l', Forall2 R l l' -> length l = length l'.
Proof. intros A B R l l' H. induction H; cbn [length]; congruence. Qed.

Lemma nth_zrange_map : forall {A} (f : Z -> A) n i d, (i < Z.to_nat n)%nat -> nth i (map f (zrange n)) d = f (Z.of_nat i).
Proof.
  intros A f n i d Hi. unfold zrange. rewrite map_map.
  rewrite (nth_indep _ d (f (Z.of_nat 0))) by (rewrite map_length, seq_length; exact Hi).
  rewrite (map_nth (fun k => f (Z.of_nat k)) (seq 0 (Z.to_nat n)) 0%nat i). rewrite seq_nth by exact Hi. reflexivity.
Qed.

Lemma planes_index : forall (planes : list (list Z)) n, length planes = Z.to_nat n ->
  map (fun c => nth (Z.to_nat c) planes []) (zrange n) = planes.
Proof.
  intros planes n Hn. unfold zrange. rewrite map_map. rewrite <- Hn. clear. induction planes as [|x l IH] using rev_ind; [reflexivity|].
  rewrite app_length. cbn [length]. rewrite Nat.add_1_r, seq_S, map_app. cbn [map]. rewrite Nat.add_0_l.
  f_equal.
  - rewrite <- IH at 2. apply map_ext_in. intros i Hi. apply in_seq in Hi. rewrite Nat2Z.id. apply app_nth1. lia.
  - rewrite Nat2Z.id, app_nth2 by lia. rewrite Nat.sub_diag. reflexivity.
Qed.

(* ---------- the theorem ---------- *)

Section Tiles.
Variable p : pparams.
Hypothesis Hsc : pp_scope p.
Variables tw th : Z.
(* TileWidth / TileHeight: 0 (= the image dimension) or at most the image dimension *)
Hypothesis Htw : 0 <= tw <= pp_w p.
Hypothesis Hth : 0 <= th <= pp_h p.

Let W := pp_w p.
Let H := pp_h p.
Let TW := enc_tile_size W tw.
Let TH := enc_tile_size H th.
Let ntx := enc_num_tiles W TW.
Let nty := enc_num_tiles H TH.
Let bounds (idx : Z) : rect := enc_tile_bounds W H idx TW TH ntx.
Let rects := enc_tiles W H TW TH.

Lemma WH_range : 1 <= W <= 32768 /\ 1 <= H <= 32768.
Proof. destruct Hsc as (A & B & _). unfold W, H. lia. Qed.

Lemma TW_range : 1 <= TW <= W /\ 1 <= TH <= H.
Proof.
  destruct WH_range as [A B]. unfold TW, TH, enc_tile_size. fold W in Htw. fold H in Hth.
  destruct (Z.eqb_spec tw 0); destruct (Z.eqb_spec th 0); lia.
Qed.

Lemma rects_eq : rects = map bounds (zrange (ntx * nty)).
Proof. reflexivity. Qed.

Lemma n_pos : 1 <= ntx * nty.
Proof.
  destruct WH_range as [A B]. destruct TW_range as [C D].
  destruct (num_tiles_spec W TW ltac:(lia) ltac:(lia)) as [E _]. destruct (num_tiles_spec H TH ltac:(lia) ltac:(lia)) as [F _].
  fold ntx in E. fold nty in F. nia.
Qed.

(* every tile's parameter set is in scope *)
Lemma tile_scope : forall idx, 0 <= idx < ntx * nty ->
  let pt := tile_pp p (bounds idx) in
  pp_scope pt /\ (let '(x0, y0, x1, y1) := bounds idx in
     0 <= x0 /\ x0 < x1 /\ x1 <= W /\ 0 <= y0 /\ y0 < y1 /\ y1 <= H /\ pp_w pt = x1 - x0 /\ pp_h pt = y1 - y0).
Proof.
  intros idx Hi. destruct WH_range as [A B]. destruct TW_range as [C D].
  pose proof (enc_tile_nonempty W H TW TH C D idx Hi) as Hne. fold ntx in Hne. fold (bounds idx) in Hne.
  cbv zeta. destruct (bounds idx) as [[[x0 y0] x1] y1].
  destruct Hne as (H1 & H2 & H3 & H4 & H5 & H6 & _).
  destruct Hsc as (_ & _ & S3 & S4 & S5 & S6 & S7 & S8 & S9 & _).
  split.
  - unfold pp_scope, tile_pp. cbn [pp_w pp_h pp_nc pp_prec pp_levels pp_cbw pp_cbh pp_order pp_x0 pp_y0 pp_iw].
    fold W. repeat split; try assumption; try lia; try (apply S3); try (apply S4); try (apply S5); try (apply S9).
  - unfold tile_pp. cbn [pp_w pp_h]. repeat split; lia.
Qed.

Definition tile_planes (planes : list (list Z)) (r : rect) : list (list Z) :=
  map (fun pl => extract_tile pl W r) planes.

Lemma tile_planes_ok : forall planes B idx, planes_ok p B planes -> 0 <= idx < ntx * nty ->
  planes_ok (tile_pp p (bounds idx)) B (tile_planes planes (bounds idx)).
Proof.
  intros planes B idx [Hn Hall] Hi. destruct (tile_scope idx Hi) as [_ Hb]. cbv zeta in Hb.
  destruct WH_range as [A B']. unfold planes_ok, tile_planes.
  destruct (bounds idx) as [[[x0 y0] x1] y1] eqn:Eb. destruct Hb as (H1 & H2 & H3 & H4 & H5 & H6 & Ew & Eh).
  split.
  - rewrite map_length. exact Hn.
  - rewrite Forall_forall in Hall. apply Forall_forall. intros t Ht. apply in_map_iff in Ht as [pl [<- Hpl]].
    destruct (Hall pl Hpl) as [Hl Hv]. fold W H in Hl. split.
    + rewrite Ew, Eh. unfold extract_tile. rewrite crop_length by (rewrite ?Hl; nia). nia.
    + apply Forall_forall. intros v Hin. unfold extract_tile in Hin. apply crop_in in Hin.
      rewrite Forall_forall in Hv. apply Hv. exact Hin.
Qed.

(* (H2) per tile: no code-block of any tile compresses to more than 65535 bytes *)
Definition hyp_tile_block_sizes (pix : list Z) : Prop :=
  forall planes, pipe_front p pix = Ok planes -> forall r, In r rects ->
    blocks_small (tile_pp p r) (map (fun pl => pipe_fdwt (tile_pp p r) (extract_tile pl W r)) planes).

(* the tile loop, generic in the per-tile encoder E (by tile index) and decoder D (by rectangle) *)
Lemma tiles_generic : forall planes B (E : Z -> outcome (list Z)) (D : rect -> list Z -> outcome (list (list Z))),
  planes_ok p B planes ->
  (forall idx, 0 <= idx < ntx * nty -> exists t, E idx = Ok t /\ D (bounds idx) t = Ok (tile_planes planes (bounds idx))) ->
  exists tiles, omap E (zrange (ntx * nty)) = Ok tiles /\
    obind (omap (fun i => D (dec_tile_bounds i W H 0 0 TW TH 0 0) (nth (Z.to_nat i) tiles [])) (zrange (zlen tiles))) (fun tplanes =>
      let tl := new_tile_layout W H 0 0 TW TH 0 0 in
      obind (omap (fun c => assemble_tiles tl (zeros (Z.to_nat (tl_imageWidth tl * tl_imageHeight tl))) 0
                              (map (fun pls => nth (Z.to_nat c) pls []) tplanes))
                  (zrange (pp_nc p))) (fun planes' => Ok (pipe_back p planes'))) = Ok (pipe_back p planes).
Proof.
  intros planes B0 E D Hplok HE.
  destruct WH_range as [A B]. destruct TW_range as [C D']. pose proof n_pos as Hnp.
  set (R := fun (i : Z) (t : list Z) => D (bounds i) t = Ok (tile_planes planes (bounds i))).
  assert (Henc : exists tiles, omap E (zrange (ntx * nty)) = Ok tiles /\ Forall2 R (zrange (ntx * nty)) tiles).
  { apply omap_exists. intros i Hi. apply in_zrange in Hi. apply (HE i Hi). }
  destruct Henc as [tiles [Eenc HR]].
  exists tiles. split; [exact Eenc|].
  pose proof (forall2_length' _ _ _ HR) as Hlen.
  assert (Hnt : zlen tiles = ntx * nty).
  { unfold zlen. rewrite <- Hlen. unfold zrange. rewrite map_length, seq_length. lia. }
  (* decoding every tile *)
  rewrite (omap_ok_map _ (fun i => tile_planes planes (bounds i))).
  2:{ intros i Hi. rewrite Hnt in Hi. apply in_zrange in Hi.
      rewrite (decoder_agrees W H TW TH C D' i ltac:(change (2 ^ 31) with 2147483648; lia) Hi). fold ntx. fold (bounds i).
      assert (Hlt : (Z.to_nat i < length (zrange (ntx * nty)))%nat) by (unfold zrange; rewrite map_length, seq_length; lia).
      pose proof (forall2_nth R (zrange (ntx * nty)) tiles 0 [] (Z.to_nat i) HR Hlt) as Hn.
      replace (nth (Z.to_nat i) (zrange (ntx * nty)) 0) with i in Hn; [exact Hn|].
      rewrite <- (map_id (zrange (ntx * nty))). rewrite nth_zrange_map by lia. lia. }
  cbn [obind]. rewrite Hnt. cbv zeta.
  (* assembling every component *)
  destruct Hplok as [Hnpl Hall].
  rewrite (omap_ok_map _ (fun c => nth (Z.to_nat c) planes [])).
  2:{ intros c Hc. apply in_zrange in Hc. rewrite map_map.
      assert (Em : map (fun i => nth (Z.to_nat c) (tile_planes planes (bounds i)) []) (zrange (ntx * nty)) =
                   map (extract_tile (nth (Z.to_nat c) planes []) W) (enc_tiles W H TW TH)).
      { unfold enc_tiles. fold ntx nty. rewrite map_map. apply map_ext. intros i. unfold tile_planes.
        fold (bounds i).
        rewrite (nth_indep _ [] (extract_tile [] W (bounds i))) by (rewrite map_length, Hnpl; lia).
        apply (map_nth (fun pl => extract_tile pl W (bounds i))). }
      rewrite Em.
      assert (Hpl : zlen (nth (Z.to_nat c) planes []) = W * H).
      { rewrite Forall_forall in Hall. destruct (Hall (nth (Z.to_nat c) planes [])) as [Hl _]; [apply nth_In; rewrite Hnpl; lia|].
        unfold zlen. rewrite Hl. fold W H. nia. }
      apply (tile_roundtrip_id W H TW TH C D' _ Hpl). }
  cbn [obind]. rewrite (planes_index planes (pp_nc p) Hnpl). reflexivity.
Qed.

Lemma omap_map' : forall {A B C} (f : B -> outcome C) (g : A -> B) l, omap f (map g l) = omap (fun a => f (g a)) l.
Proof.
  intros A B C f g l. induction l as [|a l IH]; cbn [map omap]; [reflexivity|]. rewrite IH. reflexivity.
Qed.

Lemma tile_prec : forall r, pp_prec (tile_pp p r) = pp_prec p.
Proof. intros [[[? ?] ?] ?]. reflexivity. Qed.

Theorem pipe_tiles_roundtrip_section : forall samples, samples_ok p samples ->
  let pix := pack_image p samples in
  hyp_tile_block_sizes pix ->
  exists tiles, pipe_encode_tiles p tw th pix = Ok tiles /\ pipe_decode_tiles p tw th tiles = Ok pix.
Proof.
  intros samples Hsm pix Hbs.
  destruct (front_ok p samples Hsc Hsm) as [planes [Efront [Hplok Eback]]]. fold pix in Efront, Eback.
  destruct (tiles_generic planes _ (fun idx => pipe_tile_of_planes p planes (bounds idx))
              (fun r t => pipe_dec_planes (tile_pp p r) t) Hplok) as [tiles [Eenc Edec]].
  { intros idx Hidx. destruct (tile_scope idx Hidx) as [Hsct _]. cbv zeta in Hsct.
    pose proof (tile_planes_ok planes _ idx Hplok Hidx) as Hpt. rewrite <- (tile_prec (bounds idx)) in Hpt.
    assert (Emap : map (pipe_fdwt (tile_pp p (bounds idx))) (tile_planes planes (bounds idx)) =
                   map (fun pl => pipe_fdwt (tile_pp p (bounds idx)) (extract_tile pl W (bounds idx))) planes)
      by (unfold tile_planes; rewrite map_map; reflexivity).
    destruct (pipe_planes_roundtrip (tile_pp p (bounds idx)) Hsct (tile_planes planes (bounds idx)) Hpt) as [tile [Et Ed]].
    { rewrite Emap. apply (Hbs planes Efront (bounds idx)). rewrite rects_eq. apply in_map. apply in_zrange. exact Hidx. }
    exists tile. split; [|exact Ed]. unfold pipe_tile_of_planes. fold W. rewrite <- Emap. exact Et. }
  exists tiles. split.
  - unfold pipe_encode_tiles. rewrite Efront. cbn [obind]. fold W H TW TH. fold rects. rewrite rects_eq, omap_map'. exact Eenc.
  - rewrite <- Eback. exact Edec.
Qed.

(* ---------- tiles x quality layers ---------- *)

Variable nl : Z.
Hypothesis Hnl : 2 <= nl.
Variable talloc : Z -> Z -> bkey -> list Z.
Hypothesis Htalloc : forall idx c k, PipeLBlock.row_ok nl (talloc idx c k).

Theorem pipe_tiles_layers_roundtrip_section : forall samples, samples_ok p samples ->
  let pix := pack_image p samples in
  hyp_tile_block_sizes pix ->
  exists tiles, pipe_encode_tiles_layers p nl talloc tw th pix = Ok tiles /\ pipe_decode_tiles_layers p nl tw th tiles = Ok pix.
Proof.
  intros samples Hsm pix Hbs.
  destruct (front_ok p samples Hsc Hsm) as [planes [Efront [Hplok Eback]]]. fold pix in Efront, Eback.
  destruct (tiles_generic planes _ (fun idx => pipe_tile_of_planes_layers p nl (talloc idx) planes (bounds idx))
              (fun r t => pipe_dec_planes_layers (tile_pp p r) nl t) Hplok) as [tiles [Eenc Edec]].
  { intros idx Hidx. destruct (tile_scope idx Hidx) as [Hsct _]. cbv zeta in Hsct.
    pose proof (tile_planes_ok planes _ idx Hplok Hidx) as Hpt. rewrite <- (tile_prec (bounds idx)) in Hpt.
    assert (Emap : map (pipe_fdwt (tile_pp p (bounds idx))) (tile_planes planes (bounds idx)) =
                   map (fun pl => pipe_fdwt (tile_pp p (bounds idx)) (extract_tile pl W (bounds idx))) planes)
      by (unfold tile_planes; rewrite map_map; reflexivity).
    destruct (PipeLMain.pipe_planes_roundtrip_layers (tile_pp p (bounds idx)) Hsct nl Hnl (talloc idx) (Htalloc idx)
                (tile_planes planes (bounds idx)) Hpt) as [tile [Et Ed]].
    { rewrite Emap. apply (Hbs planes Efront (bounds idx)). rewrite rects_eq. apply in_map. apply in_zrange. exact Hidx. }
    exists tile. split; [|exact Ed]. unfold pipe_tile_of_planes_layers. fold W. rewrite <- Emap. exact Et. }
  exists tiles. split.
  - unfold pipe_encode_tiles_layers, PipeModel.tile_count, tile_rect. rewrite Efront. cbn [obind]. fold W H TW TH ntx nty. exact Eenc.
  - rewrite <- Eback. exact Edec.
Qed.

End Tiles.

(* ---------- the statement and the partial theorem ---------- *)

(* image-level scope: pp_scope (the image is the tile at origin (0, 0): use pp_x0 = pp_y0 = 0,
   pp_iw = pp_w) and tile sizes 0 (whole dimension) or 1..dimension *)
Definition pipe_tiles_roundtrip_statement : Prop :=
  forall p tw th samples, pp_scope p -> 0 <= tw <= pp_w p -> 0 <= th <= pp_h p -> samples_ok p samples ->
    exists tiles, pipe_encode_tiles p tw th (pack_image p samples) = Ok tiles /\
                  pipe_decode_tiles p tw th tiles = Ok (pack_image p samples).

Theorem pipe_tiles_roundtrip_partial : forall p tw th, pp_scope p -> 0 <= tw <= pp_w p -> 0 <= th <= pp_h p ->
  forall samples, samples_ok p samples ->
  let pix := pack_image p samples in
  hyp_tile_block_sizes p tw th pix ->
  exists tiles, pipe_encode_tiles p tw th pix = Ok tiles /\ pipe_decode_tiles p tw th tiles = Ok pix.
Proof. intros p tw th Hsc Htw Hth samples Hsm. apply (pipe_tiles_roundtrip_section p Hsc tw th Htw Hth samples Hsm). Qed.

(* tiles x quality layers: nl >= 2 layers, any per-tile allocation with monotone rows (the encoder
   runs one global rate-distortion allocation over the blocks of all tiles) *)
Definition talloc_ok (nl : Z) (talloc : Z -> Z -> bkey -> list Z) : Prop :=
  forall idx c k, PipeLBlock.row_ok nl (talloc idx c k).

Theorem pipe_tiles_layers_roundtrip_partial : forall p tw th nl talloc, pp_scope p -> 0 <= tw <= pp_w p -> 0 <= th <= pp_h p ->
  2 <= nl -> talloc_ok nl talloc ->
  forall samples, samples_ok p samples ->
  let pix := pack_image p samples in
  hyp_tile_block_sizes p tw th pix ->
  exists tiles, pipe_encode_tiles_layers p nl talloc tw th pix = Ok tiles /\ pipe_decode_tiles_layers p nl tw th tiles = Ok pix.
Proof.
  intros p tw th nl talloc Hsc Htw Hth Hnl Hal samples Hsm.
  apply (pipe_tiles_layers_roundtrip_section p Hsc tw th Htw Hth nl Hnl talloc Hal samples Hsm).
Qed.
