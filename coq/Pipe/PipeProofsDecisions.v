(* pipe: the decision count of the T1 coder, and hyp_block_sizes for the part of the scope it reaches.

   (1) T1ProofsCount.enc_syms_count: a block of w x h samples with n coded magnitude bit-planes
       hands at most w*h*(n+3) decisions to the MQ coder (one zero-coding or refinement decision
       per sample and plane, one sign decision per sample, and the run-length / UNIFORM symbols,
       which are charged to the sample the run makes significant).
   (2) t1_block_decisions: the bytes of Encode (style 0, fractional bits 6, all passes) are the MQ
       codeword over the T1 start contexts of those decisions (T1ProofsComp.enc_bytes_mq).
   (3) With MqProofsSizePot (17/21 byte per decision; <= 80953 decisions fit 65535 bytes):
       hyp_block_decisions / hyp_block_sizes is a THEOREM
         - for every nominal code-block area <= 2048 (all sizes but 64x64) over the whole scope
           (<= 25 planes: 2048 * 28 = 57344 decisions), and
         - for 64x64 code-blocks when the coefficients have at most 16 magnitude bit-planes
           (4096 * 19 = 77824): precision <= 8 (any number of levels, DwtGrowth2: |c| <= 231*2^P+227
           < 2^16) or 2*levels + precision <= 15 (DwtGrowth: |c| <= 4^L * 2^P).
       pipe_roundtrip_small_blocks / pipe_roundtrip_64 are the round trips with NO size hypothesis.
   OPEN: 64x64 code-blocks with 17..25 magnitude planes (pipe_block_sizes_64_statement).  The count
   cannot help there: 4096*(n+1) decisions are reachable and the per-state MQ potential gives no more
   than 17/21 byte per decision. *)
From V Require Import Common.Base MQ.MqModel MQ.MqProofs MQ.MqProofsRt MQ.MqProofsSizePot.
From V Require Import T1.T1Store T1.T1Ctx T1.T1Model T1.T1Bytes T1.T1ProofsBase T1.T1ProofsSeq T1.T1ProofsFinal
  T1.T1ProofsMqRt T1.T1ProofsComp T1.T1ProofsCount.
From V Require Import J2KGeo.GeoModel J2KGeo.GeoProofsBlocks DWT.DwtModel DWT.DwtGrowth DWT.DwtGrowth2
  T2.T2Header T2.T2Packets
  Pipe.PipeModel Pipe.PipeProofsFront Pipe.PipeProofsGeo Pipe.PipeProofsBlock Pipe.PipeProofsEnc
  Pipe.PipeProofsMain Pipe.PipeProofsSizes.

(* ---------- one MQ codeword ---------- *)
Lemma enc_mq_passes_concat : forall ps e, enc_mq_passes false e ps = enc_encode_list e (concat ps).
Proof.
  induction ps as [|p r IH]; intros e; cbn [enc_mq_passes concat]; [reflexivity|].
  rewrite enc_encode_list_app. apply IH.
Qed.

Lemma zlen_map_d : forall {A B} (f : A -> B) l, zlen (map f l) = zlen l.
Proof. intros. unfold zlen. rewrite map_length. reflexivity. Qed.

Lemma decs_concat_len : forall syms : list (list sym), zlen (concat (map decs syms)) = zlen (concat syms).
Proof. intros. unfold decs. rewrite <- concat_map. apply zlen_map_d. Qed.

(* ---------- the top plane of bounded data ---------- *)
Lemma find_max_bitplane_lt : forall data m, 0 <= m -> (forall v, In v data -> abs32 v < 2 ^ (m + 1)) ->
  find_max_bitplane data <= m.
Proof.
  intros data m Hm H. unfold find_max_bitplane, max_abs.
  set (mx := fold_left (fun a v => Z.max a (abs32 v)) data 0).
  assert (Hle : mx <= 2 ^ (m + 1) - 1).
  { apply max_abs_le; [pose proof (Z.pow_pos_nonneg 2 (m + 1) ltac:(lia) ltac:(lia)); lia|].
    intros v Hv. specialize (H v Hv). lia. }
  destruct (Z.eqb_spec mx 0); [lia|].
  assert (H0 : 0 <= mx) by apply max_abs_ge_acc.
  assert (Hlt : Z.log2 mx < m + 1) by (apply Z.log2_lt_pow2; lia). lia.
Qed.

(* ---------- a block with a non-zero coefficient ---------- *)
Theorem t1_block_decisions : forall (wn hn : nat) (orient : Z) (cs : list Z) (K : Z),
  length cs = (wn * hn)%nat -> 0 <= K <= 25 -> (forall c, In c cs -> - 2 ^ K < c < 2 ^ K) ->
  let data := map (fun c => c * 64) cs in
  let n := find_max_bitplane data + 1 - 6 in
  0 < n ->
  block_decisions_le (Z.of_nat (wn * hn) * (K + 3)) wn hn orient (n * 3 - 2) data.
Proof.
  intros wn hn orient cs K Hlen HK Hcs data n Hn bytes Ebytes.
  set (maxbp := find_max_bitplane data) in *.
  assert (HpK : 2 ^ K <= 2 ^ 25) by (apply Z.pow_le_mono_r; lia).
  assert (Hpos : 0 < 2 ^ K) by (apply Z.pow_pos_nonneg; lia).
  change (2 ^ 25) with 33554432 in HpK.
  assert (Hok : data_ok data).
  { intros v Hv. unfold data in Hv. apply in_map_iff in Hv. destruct Hv as (c & <- & Hc). specialize (Hcs c Hc).
    change (2 ^ 31) with 2147483648. lia. }
  assert (HmK : maxbp <= K + 5).
  { unfold maxbp. apply find_max_bitplane_lt; [lia|]. intros v Hv. rewrite abs32_abs by (apply Hok; exact Hv).
    unfold data in Hv. apply in_map_iff in Hv. destruct Hv as (c & <- & Hc). specialize (Hcs c Hc).
    replace (K + 5 + 1) with (K + 6) by lia. rewrite Z.pow_add_r by lia. change (2 ^ 6) with 64. lia. }
  assert (H6 : 6 <= maxbp) by (unfold n in Hn; lia).
  assert (Enp : n * 3 - 2 = 3 * (maxbp - 6 + 1) - 2) by (unfold n; lia).
  rewrite Enp in Ebytes. clear Enp.
  set (NP := 3 * (maxbp - 6 + 1) - 2) in *.
  set (V := pad_data wn hn data).
  set (pl := pass_list maxbp 6 NP).
  set (syms := enc_passes wn hn orient 0 maxbp V pl true Leaf).
  assert (Hs0 : mq_style 0) by reflexivity.
  assert (Hpl : pl = all_passes maxbp 6) by (unfold pl; apply pass_list_complete; unfold NP; lia).
  assert (Hchain : chain maxbp 2 pl) by (rewrite Hpl; apply chain_all_passes; lia).
  assert (Hsl : length syms = length pl) by apply enc_passes_length.
  assert (Hsy : Forall (Forall sym_mq) syms) by (apply enc_passes_syms_mq; exact Hs0).
  destruct (enc_bytes_mq 0 maxbp pl maxbp 2 syms (enc_new_cx cx0) Hs0 Hchain Hsl Hsy (enc_new_inv cx0 cx0_ok) cx0_len)
    as (e' & term & ps & Eenc & Hps & Hbytes).
  change (negb (Z.land 0 CblkStyleReset =? 0)) with false in Hbytes.
  (* the encoder *)
  unfold enc_plain in Ebytes. fold maxbp in Ebytes. destruct (Z.ltb_spec maxbp 0) as [Hlt|_]; [lia|].
  unfold enc_layered, enc_syms in Ebytes. fold maxbp in Ebytes. fold V in Ebytes. fold pl in Ebytes. fold syms in Ebytes.
  destruct (Z.ltb_spec maxbp 6) as [Hlt|_]; [lia|].
  rewrite enc_init in Ebytes. rewrite Eenc in Ebytes. cbn [obind snd] in Ebytes. injection Ebytes as <-.
  rewrite Hbytes, enc_mq_passes_concat.
  exists (concat (map decs syms)). split; [unfold mq_encode_cx; reflexivity|].
  rewrite decs_concat_len. unfold syms. rewrite Hpl.
  pose proof (enc_syms_count wn hn orient 0 maxbp 6 V eq_refl ltac:(lia) ltac:(lia)) as Hc.
  rewrite Nat2Z.inj_mul.
  assert (0 <= Z.of_nat wn * Z.of_nat hn) by lia. nia.
Qed.

(* ---------- the all-zero block ---------- *)
Lemma zero_block_decisions : forall (wn hn : nat) (orient np N : Z) (data : list Z), 0 <= N ->
  find_max_bitplane data < 0 -> block_decisions_le N wn hn orient np data.
Proof.
  intros wn hn orient np N data HN Hz bytes E. unfold enc_plain in E.
  destruct (Z.ltb_spec (find_max_bitplane data) 0); [|lia].
  injection E as <-. exists []. split; [vm_compute; reflexivity|]. exact HN.
Qed.

(* ---------- code-block geometry ---------- *)
Lemma partition_size : forall sb cbw cbh cb, In cb (enc_partition sb cbw cbh) -> cb_w cb <= cbw /\ cb_h cb <= cbh.
Proof.
  intros [b bdata] cbw cbh cb H. unfold enc_partition in H.
  apply in_flat_map in H. destruct H as (cby & _ & H). apply in_map_iff in H. destruct H as (cbx & <- & _).
  cbn [cb_w cb_h].
  destruct (Z.gtb_spec (cbx * cbw + cbw) (b_w b)); destruct (Z.gtb_spec (cby * cbh + cbh) (b_h b)); lia.
Qed.

Lemma enc_blocks_size : forall p d r cb, In (r, cb) (enc_blocks p d) -> cb_w cb <= pp_cbw p /\ cb_h cb <= pp_cbh p.
Proof.
  intros p d r cb H. unfold enc_blocks in H. apply in_flat_map in H. destruct H as (r' & _ & H).
  apply in_map_iff in H. destruct H as (c & E & Hc). injection E as -> ->.
  unfold enc_blocks_res in Hc. apply in_flat_map in Hc. destruct Hc as (sb & _ & Hc).
  exact (partition_size sb _ _ _ Hc).
Qed.

(* the coefficients of a block are coefficients of the plane *)
Lemma block_data_in : forall p, pp_scope p -> forall d, zlen d = pp_w p * pp_h p ->
  forall r cb, In (r, cb) (enc_blocks p d) -> forall v, In v (cb_data cb) -> In v d.
Proof.
  intros p Hsc d Hlen r cb Hin v Hv.
  destruct (wh_range p Hsc) as (Hw & Hh & HL). destruct (cb_range p Hsc) as [Cw Ch].
  pose proof (encs_good (pp_w p) (pp_h p) (pp_x0 p) (pp_y0 p) (pp_levels p) (pp_cbw p) (pp_cbh p)
                ltac:(lia) ltac:(lia) ltac:(lia) ltac:(lia) d Hlen cb (in_all_blocks p d r cb Hin))
    as (_ & _ & _ & _ & _ & _ & G7).
  rewrite G7 in Hv. apply in_crop in Hv. exact Hv.
Qed.

(* ---------- the pipeline: every block of a plane with K-bit coefficients ---------- *)
Section Blocks.
Variable p : pparams.
Hypothesis Hsc : pp_scope p.

Lemma plane_block_decisions : forall d K, zlen d = pp_w p * pp_h p -> 0 <= K <= 25 ->
  (forall v, In v d -> - 2 ^ K < v < 2 ^ K) ->
  forall r cb, In (r, cb) (enc_blocks p d) ->
  let data := map (fun v => PipeModel.i32 (Z.shiftl v 6)) (cb_data cb) in
  let cblk := cblk_numbps data in
  block_decisions_le (pp_cbw p * pp_cbh p * (K + 3)) (Z.to_nat (cb_w cb)) (Z.to_nat (cb_h cb)) (cb_band cb)
    (if cblk >? 0 then cblk * 3 - 2 else 1) data.
Proof.
  intros d K Hlen HK Hb r cb Hin. cbv zeta.
  assert (HpK : 2 ^ K <= 2 ^ 25) by (apply Z.pow_le_mono_r; lia).
  assert (Hb25 : forall v, In v d -> - 2 ^ 25 < v < 2 ^ 25) by (intros v Hv; specialize (Hb v Hv); lia).
  destruct (block_facts p Hsc d Hlen Hb25 r cb Hin) as (_ & (Hcl & Hw1 & Hh1 & Hrng) & _).
  destruct (enc_blocks_size p d r cb Hin) as [Hwle Hhle].
  destruct (cb_range p Hsc) as [Cw Ch].
  set (cs := cb_data cb) in *.
  assert (HbK : forall c, In c cs -> - 2 ^ K < c < 2 ^ K).
  { intros c Hc. apply Hb. apply (block_data_in p Hsc d Hlen r cb Hin c Hc). }
  assert (Ed : map (fun v => PipeModel.i32 (Z.shiftl v 6)) cs = map (fun c => c * 64) cs).
  { apply map_ext_in. intros v Hvin. apply scale64. apply Hrng. exact Hvin. }
  rewrite Ed. set (data := map (fun c => c * 64) cs).
  set (wn := Z.to_nat (cb_w cb)) in *. set (hn := Z.to_nat (cb_h cb)) in *.
  assert (Harea : 0 <= Z.of_nat (wn * hn) <= pp_cbw p * pp_cbh p) by (unfold wn, hn; nia).
  set (mb := find_max_bitplane data).
  destruct (Z_lt_le_dec mb 0) as [Hneg|Hnn].
  - apply zero_block_decisions; [nia|exact Hneg].
  - (* the top plane is at least 6 (multiples of 64); then cblk_numbps = mb - 5 *)
    set (n := mb + 1 - 6).
    destruct (Z_lt_le_dec 0 n) as [Hn|Hn0].
    + assert (Ecb : cblk_numbps data = n).
      { unfold cblk_numbps. fold mb. destruct (Z.ltb_spec mb 0); [lia|]. fold n. destruct (Z.ltb_spec n 0); [lia|reflexivity]. }
      rewrite Ecb. destruct (Z.gtb_spec n 0); [|lia].
      pose proof (t1_block_decisions wn hn (cb_band cb) cs K Hcl HK HbK) as Ht. cbv zeta in Ht.
      fold data mb n in Ht. specialize (Ht Hn).
      intros bytes Eb. destruct (Ht bytes Eb) as (l & El & Hl). exists l. split; [exact El|]. nia.
    + (* 0 <= mb < 6: no pass is coded; cannot happen for multiples of 64, but the bound is trivial *)
      exfalso.
      assert (Hok : data_ok data).
      { intros v Hvin. unfold data in Hvin. apply in_map_iff in Hvin as [c [<- Hc]]. pose proof (Hrng c Hc) as Hr.
        change (2 ^ 25) with 33554432 in Hr. change (2 ^ 31) with 2147483648. lia. }
      unfold n in Hn0. unfold mb, find_max_bitplane in Hnn, Hn0.
      set (mx := max_abs data) in *. destruct (Z.eqb_spec mx 0) as [E0|E0]; [lia|].
      assert (Hmx : forall v, In v data -> abs32 v <= mx) by (intros v Hv; apply max_abs_ge; exact Hv).
      assert (Hex : exists v, In v data /\ abs32 v <> 0).
      { destruct (Forall_Exists_dec (fun v => abs32 v = 0) (fun v => Z.eq_dec (abs32 v) 0) data) as [Hall|Hexi].
        - exfalso. apply E0. unfold mx, max_abs.
          assert (Hle : fold_left (fun m v => Z.max m (abs32 v)) data 0 <= 0).
          { apply max_abs_le; [lia|]. intros v Hv. rewrite Forall_forall in Hall. rewrite (Hall v Hv). lia. }
          pose proof (max_abs_ge_acc data 0). lia.
        - apply Exists_exists in Hexi. exact Hexi. }
      destruct Hex as (v & Hvin & Hv0). pose proof (Hmx v Hvin) as Hle.
      rewrite abs32_abs in Hle, Hv0 by (apply Hok; exact Hvin).
      unfold data in Hvin. apply in_map_iff in Hvin as [c [<- Hc]].
      assert (64 <= mx) by lia.
      assert (6 <= Z.log2 mx) by (change 6 with (Z.log2 64); apply Z.log2_le_mono; lia). lia.
Qed.

End Blocks.

(* ---------- magnitude bound of the wavelet coefficients ---------- *)
Definition coeff_bits (p : pparams) (K : Z) : Prop :=
  0 <= K <= 25 /\ (231 * 2 ^ pp_prec p + 227 < 2 ^ K \/ 2 ^ (2 * pp_levels p + pp_prec p) < 2 ^ K).

Lemma coeffs_bounded : forall p K, pp_scope p -> coeff_bits p K ->
  forall planes, planes_ok p (2 ^ pp_prec p) planes ->
  forall d, In d (map (pipe_fdwt p) planes) -> forall v, In v d -> - 2 ^ K < v < 2 ^ K.
Proof.
  intros p K Hsc [HK Hbits] planes [_ Hall] d Hd v Hv. apply in_map_iff in Hd as [pl [<- Hpl]].
  rewrite Forall_forall in Hall. destruct (Hall pl Hpl) as [Hl Hb].
  pose proof Hsc as (_ & _ & _ & HP & HL & _).
  assert (Hpow : 1 <= 2 ^ pp_prec p) by (pose proof (Z.pow_pos_nonneg 2 (pp_prec p) ltac:(lia) ltac:(lia)); lia).
  destruct Hbits as [Hs|Hg].
  - assert (Hbnd : bnd (231 * 2 ^ pp_prec p + 227) (pipe_fdwt p pl)).
    { unfold pipe_fdwt. destruct (pp_levels p =? 0).
      - eapply Forall_impl; [|exact Hb]. intros a Ha. cbv beta in Ha. lia.
      - apply fwd53_ml_bound_sharp; [lia | lia | exact Hb|].
        destruct (wh_range p Hsc) as (A & B & _). rewrite Hl. nia. }
    unfold bnd in Hbnd. rewrite Forall_forall in Hbnd. specialize (Hbnd v Hv). lia.
  - assert (Hbnd : bnd (2 ^ (2 * pp_levels p + pp_prec p)) (pipe_fdwt p pl)).
    { unfold pipe_fdwt. destruct (Z.eqb_spec (pp_levels p) 0) as [E|E].
      - rewrite E. replace (2 * 0 + pp_prec p) with (pp_prec p) by lia. exact Hb.
      - replace (2 ^ (2 * pp_levels p + pp_prec p)) with (4 ^ Z.of_nat (Z.to_nat (pp_levels p)) * 2 ^ pp_prec p).
        + apply fwd53_ml_bound; [apply Z.pow_nonneg; lia | exact Hb].
        + rewrite Z2Nat.id by lia. rewrite Z.pow_add_r by lia. rewrite Z.pow_mul_r by lia. reflexivity. }
    unfold bnd in Hbnd. rewrite Forall_forall in Hbnd. specialize (Hbnd v Hv). lia.
Qed.

(* the whole scope has 25-bit coefficients *)
Lemma coeff_bits_scope : forall p, pp_scope p -> coeff_bits p 25.
Proof.
  intros p (_ & _ & _ & HP & _). split; [lia|]. left.
  assert (2 ^ pp_prec p <= 2 ^ 16) by (apply Z.pow_le_mono_r; lia).
  change (2 ^ 16) with 65536 in H. change (2 ^ 25) with 33554432. lia.
Qed.

Lemma coeff_bits_prec8 : forall p, pp_scope p -> pp_prec p <= 8 -> coeff_bits p 16.
Proof.
  intros p (_ & _ & _ & HP & _) H8. split; [lia|]. left.
  assert (2 ^ pp_prec p <= 2 ^ 8) by (apply Z.pow_le_mono_r; lia).
  change (2 ^ 8) with 256 in H. change (2 ^ 16) with 65536. lia.
Qed.

Lemma coeff_bits_growth : forall p, pp_scope p -> 2 * pp_levels p + pp_prec p <= 15 -> coeff_bits p 16.
Proof.
  intros p (_ & _ & _ & HP & HL & _) H15. split; [lia|]. right. apply Z.pow_lt_mono_r; lia.
Qed.

(* ---------- hyp_block_decisions / hyp_block_sizes ---------- *)
Theorem pipe_block_decisions_bits : forall p samples K, pp_scope p -> samples_ok p samples ->
  coeff_bits p K -> pp_cbw p * pp_cbh p * (K + 3) <= t1_decisions_max ->
  hyp_block_decisions p (pack_image p samples).
Proof.
  intros p samples K Hsc Hsm HK Hfit coeffs Ec d Hd r cb Hin. cbv zeta.
  destruct (front_ok p samples Hsc Hsm) as [planes [Efront [Hok _]]].
  unfold pipe_coeffs in Ec. rewrite Efront in Ec. cbn [obind] in Ec. injection Ec as <-.
  assert (Hlen : zlen d = pp_w p * pp_h p).
  { apply in_map_iff in Hd as [pl [<- Hpl]]. apply (fdwt_length p Hsc). destruct Hok as [_ Hall].
    rewrite Forall_forall in Hall. apply (Hall pl Hpl). }
  pose proof (plane_block_decisions p Hsc d K Hlen (proj1 HK) (coeffs_bounded p K Hsc HK planes Hok d Hd) r cb Hin) as H.
  cbv zeta in H. intros bytes Eb. destruct (H bytes Eb) as (l & El & Hl). exists l. split; [exact El|lia].
Qed.

(* the parameter range the count reaches *)
Definition sizes_reach (p : pparams) : Prop :=
  pp_cbw p * pp_cbh p <= 2048 \/ pp_prec p <= 8 \/ 2 * pp_levels p + pp_prec p <= 15.

Theorem pipe_block_decisions_partial : forall p samples, pp_scope p -> samples_ok p samples -> sizes_reach p ->
  hyp_block_decisions p (pack_image p samples).
Proof.
  intros p samples Hsc Hsm [Ha|[H8|H15]].
  - apply (pipe_block_decisions_bits p samples 25 Hsc Hsm (coeff_bits_scope p Hsc)). unfold t1_decisions_max. lia.
  - pose proof Hsc as (_ & _ & _ & _ & _ & _ & _ & Harea & _).
    apply (pipe_block_decisions_bits p samples 16 Hsc Hsm (coeff_bits_prec8 p Hsc H8)). unfold t1_decisions_max. lia.
  - pose proof Hsc as (_ & _ & _ & _ & _ & _ & _ & Harea & _).
    apply (pipe_block_decisions_bits p samples 16 Hsc Hsm (coeff_bits_growth p Hsc H15)). unfold t1_decisions_max. lia.
Qed.

Theorem pipe_block_sizes_partial : forall p samples, pp_scope p -> samples_ok p samples -> sizes_reach p ->
  hyp_block_sizes p (pack_image p samples).
Proof.
  intros p samples Hsc Hsm Hr. apply pipe_block_sizes_from_decisions.
  apply pipe_block_decisions_partial; assumption.
Qed.

(* ---------- the round trips without a size hypothesis ---------- *)
Theorem pipe_roundtrip_reach : forall p samples, pp_scope p -> samples_ok p samples -> sizes_reach p ->
  exists tile, pipe_encode_tile p (pack_image p samples) = Ok tile /\
               pipe_decode_tile p tile = Ok (pack_image p samples).
Proof.
  intros p samples Hsc Hsm Hr.
  exact (pipe_roundtrip_partial p Hsc samples Hsm (pipe_block_sizes_partial p samples Hsc Hsm Hr)).
Qed.

(* every code-block size except 64x64: the whole scope *)
Theorem pipe_roundtrip_small_blocks : forall p samples, pp_scope p -> samples_ok p samples ->
  pp_cbw p * pp_cbh p <= 2048 ->
  exists tile, pipe_encode_tile p (pack_image p samples) = Ok tile /\
               pipe_decode_tile p tile = Ok (pack_image p samples).
Proof. intros p samples Hsc Hsm Ha. apply pipe_roundtrip_reach; auto. left. exact Ha. Qed.

(* any code-block size (64x64 included) for at most 16 magnitude planes *)
Theorem pipe_roundtrip_64 : forall p samples, pp_scope p -> samples_ok p samples ->
  (pp_prec p <= 8 \/ 2 * pp_levels p + pp_prec p <= 15) ->
  exists tile, pipe_encode_tile p (pack_image p samples) = Ok tile /\
               pipe_decode_tile p tile = Ok (pack_image p samples).
Proof. intros p samples Hsc Hsm Hb. apply pipe_roundtrip_reach; auto. right. exact Hb. Qed.

(* t1_decision_count_statement of PipeProofsSizes asked for samples*(7n+4)/4; what is proved is
   samples*(n+3) with n <= K the bit length of the coefficients (better for n >= 3) *)
Definition t1_decision_count_proved : Prop :=
  forall (wn hn : nat) (orient : Z) (cs : list Z) (K : Z),
    length cs = (wn * hn)%nat -> 0 <= K <= 25 -> (forall c, In c cs -> - 2 ^ K < c < 2 ^ K) ->
    let data := map (fun c => c * 64) cs in
    let n := find_max_bitplane data + 1 - 6 in
    0 < n ->
    block_decisions_le (Z.of_nat (wn * hn) * (K + 3)) wn hn orient (n * 3 - 2) data.

Theorem t1_decision_count_holds : t1_decision_count_proved.
Proof. exact t1_block_decisions. Qed.

(* ---------- open ---------- *)
(* 64x64 code-blocks with more than 16 magnitude planes: NOT proved, NOT refuted.  (The statement for
   the whole scope is PipeProofsSizes.pipe_block_sizes_statement; this is the part of it that remains.) *)
Definition pipe_block_sizes_64_statement : Prop :=
  forall p samples, pp_scope p -> samples_ok p samples ->
    pp_cbw p = 64 -> pp_cbh p = 64 -> 9 <= pp_prec p -> 16 <= 2 * pp_levels p + pp_prec p ->
    hyp_block_sizes p (pack_image p samples).

Theorem pipe_block_sizes_split : pipe_block_sizes_64_statement -> pipe_block_sizes_statement.
Proof.
  intros H64 p samples Hsc Hsm.
  destruct (Z_le_gt_dec (pp_cbw p * pp_cbh p) 2048) as [Ha|Ha].
  { apply pipe_block_sizes_partial; auto. left. exact Ha. }
  destruct (Z_le_gt_dec (pp_prec p) 8) as [H8|H8].
  { apply pipe_block_sizes_partial; auto. right. left. exact H8. }
  destruct (Z_le_gt_dec (2 * pp_levels p + pp_prec p) 15) as [H15|H15].
  { apply pipe_block_sizes_partial; auto. right. right. exact H15. }
  pose proof Hsc as (_ & _ & _ & _ & _ & Hx & Hy & _). unfold pow2_size in Hx, Hy.
  apply H64; auto; lia.
Qed.
