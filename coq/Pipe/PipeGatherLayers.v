(* gatherCBData (tile_decoder.go) over several quality layers:
   (1) the static fields ci_zbp / ci_zbpset / ci_pl of a key that may be written by several
       packets (PipeGatherOnce treats all fields, but only for keys written once;
       T2ProofsGather.gather_delivers treats several layers, but only (ci_data, ci_passes));
   (2) the encoder's packets of one cell come in layer order, so what block j of cell k
       accumulates (T2ProofsGather.total_e) is a fold over the layers 0 .. nl-1. *)
From V Require Import Common.Base T2.T2TagTree T2.T2Header T2.T2Packets T2.T2ProofsHeader T2.T2ProofsHeader3
  T2.T2ProofsPackets1 T2.T2ProofsPackets2 T2.T2ProofsGather Pipe.PipeGatherOnce.

(* ------------------------------------------------------------------------------------ *)
(* (1) static fields                                                                      *)

Definition writes (comp : Z) (order : Z -> Z -> option (list Z)) (dp : dpacket) (k : Z * Z) (t : trip) : Prop :=
  exists l r p ord j, dp_item dp = (l, r, comp, p) /\ order r p = Some ord /\
    nth_error (dp_incls dp) j = Some t /\ (j < length ord)%nat /\ t_inc t = true /\ k = (r, nth j ord 0).

Definition static_ok (z : Z) (o : option cbinfo) : Prop :=
  match o with Some ci => ci_pl ci = None /\ (ci_zbpset ci = true -> ci_zbp ci = z) | None => True end.

(* the key has an entry whose zero-bit-plane count has been set *)
Definition zset (o : option cbinfo) : Prop := exists ci, o = Some ci /\ ci_zbpset ci = true.

(* entry number j of the CodeBlockIncls loop started at cbIdx writes key k *)
Definition iwrites (res : Z) (cbOrder : list Z) (cbIdx : Z) (incs : list dincl) (k : Z * Z) (i : dincl) : Prop :=
  exists j, nth_error incs j = Some i /\ di_included i = true /\ cbIdx + Z.of_nat j < zlen cbOrder /\
            k = (res, znth cbOrder (cbIdx + Z.of_nat j) 0).

Lemma iwrites_tail : forall res cbOrder cbIdx i0 rest k i,
  iwrites res cbOrder (cbIdx + 1) rest k i -> iwrites res cbOrder cbIdx (i0 :: rest) k i.
Proof.
  intros res cbOrder cbIdx i0 rest k i [j [Hn [Hi [Hlt Hk]]]]. exists (S j). cbn [nth_error].
  replace (cbIdx + Z.of_nat (S j)) with (cbIdx + 1 + Z.of_nat j) by lia.
  split; [exact Hn|]. split; [exact Hi|]. split; [exact Hlt | exact Hk].
Qed.

Lemma iwrites_cons_inv : forall res cbOrder cbIdx i0 rest k i,
  iwrites res cbOrder cbIdx (i0 :: rest) k i ->
  (i = i0 /\ di_included i0 = true /\ cbIdx < zlen cbOrder /\ k = (res, znth cbOrder cbIdx 0)) \/
  iwrites res cbOrder (cbIdx + 1) rest k i.
Proof.
  intros res cbOrder cbIdx i0 rest k i [j [Hn [Hi [Hlt Hk]]]]. destruct j as [|j]; cbn [nth_error] in Hn.
  - left. assert (E : i0 = i) by congruence. subst i0. change (Z.of_nat 0) with 0 in Hlt, Hk. rewrite Z.add_0_r in Hlt, Hk.
    split; [reflexivity|]. split; [exact Hi|]. split; [exact Hlt | exact Hk].
  - right. exists j. replace (cbIdx + 1 + Z.of_nat j) with (cbIdx + Z.of_nat (S j)) by lia.
    split; [exact Hn|]. split; [exact Hi|]. split; [exact Hlt | exact Hk].
Qed.

Lemma gather_incls_static : forall (incs : list dincl) (m : list ((Z * Z) * cbinfo)) res cbOrder body cbIdx off k z,
  0 <= z ->
  static_ok z (aget key2_eqb m k) ->
  (forall i, iwrites res cbOrder cbIdx incs k i -> di_zbp i = z /\ di_pl i = []) ->
  let m' := gather_incls m res cbOrder body incs cbIdx off in
  static_ok z (aget key2_eqb m' k) /\
  (zset (aget key2_eqb m k) \/ (exists i, iwrites res cbOrder cbIdx incs k i) -> zset (aget key2_eqb m' k)).
Proof.
  induction incs as [|i0 rest IH]; intros m res cbOrder body cbIdx off k z Hz Hst Hw m'.
  - subst m'. cbn [gather_incls]. split; [exact Hst|].
    intros [Hs | [i [j [Hn _]]]]; [exact Hs | destruct j; discriminate].
  - assert (Hw' : forall i, iwrites res cbOrder (cbIdx + 1) rest k i -> di_zbp i = z /\ di_pl i = [])
      by (intros i Hi; apply Hw; apply iwrites_tail; exact Hi).
    subst m'. cbn [gather_incls].
    destruct (di_included i0) eqn:Einc; cbn [negb].
    2:{ (* not included: no write *)
      destruct (IH m res cbOrder body (cbIdx + 1) off k z Hz Hst Hw') as [I1 I2].
      split; [exact I1|]. intros [Hs | [i Hi]]; apply I2; [left; exact Hs|].
      destruct (iwrites_cons_inv _ _ _ _ _ _ _ Hi) as [[_ [Hinc _]] | Hi']; [congruence|].
      right. exists i. exact Hi'. }
    destruct (Z.geb_spec cbIdx (zlen cbOrder)) as [Hge|Hlt].
    { (* index beyond the precinct's code-block list: no write *)
      destruct (IH m res cbOrder body (cbIdx + 1) (off + di_len i0) k z Hz Hst Hw') as [I1 I2].
      split; [exact I1|]. intros [Hs | [i Hi]]; apply I2; [left; exact Hs|].
      destruct (iwrites_cons_inv _ _ _ _ _ _ _ Hi) as [[_ [_ [Hl _]]] | Hi']; [lia|].
      right. exists i. exact Hi'. }
    set (key0 := (res, znth cbOrder cbIdx 0)).
    match goal with |- context [gather_incls (aset key2_eqb m key0 ?e) _ _ _ _ _ _] => set (ex' := e) end.
    destruct (key2_eqb key0 k) eqn:Ek.
    + (* this entry writes k *)
      apply key2_eqb_eq in Ek.
      assert (Hi0 : iwrites res cbOrder cbIdx (i0 :: rest) k i0).
      { exists 0%nat. cbn [nth_error]. change (Z.of_nat 0) with 0. rewrite Z.add_0_r.
        split; [reflexivity|]. split; [exact Einc|]. split; [exact Hlt|]. symmetry. exact Ek. }
      destruct (Hw i0 Hi0) as [Hzb Hpl].
      assert (Hex : ci_pl ex' = None /\ ci_zbp ex' = z /\ ci_zbpset ex' = true).
      { unfold ex'. cbn [ci_pl ci_zbp ci_zbpset]. rewrite Hpl, Hzb.
        change (zlen (@nil Z)) with 0. change (0 <? 0) with false. cbv iota.
        destruct (Z.leb_spec 0 z) as [_|Hn]; [|lia]. rewrite andb_true_r.
        rewrite Ek. unfold static_ok in Hst.
        destruct (aget key2_eqb m k) as [e|].
        - destruct Hst as [S1 S2]. split; [exact S1|].
          destruct (ci_zbpset e) eqn:Es; cbn [negb orb]; [split; [apply S2; reflexivity | reflexivity] | split; reflexivity].
        - cbn [cbinfo_zero ci_pl ci_zbp ci_zbpset negb orb]. split; [reflexivity|]. split; reflexivity. }
      destruct Hex as [E1 [E2 E3]].
      assert (Hget : aget key2_eqb (aset key2_eqb m key0 ex') k = Some ex')
        by (rewrite <- Ek; apply aget2_aset_same).
      assert (Hst1 : static_ok z (aget key2_eqb (aset key2_eqb m key0 ex') k)).
      { rewrite Hget. unfold static_ok. split; [exact E1 | intros _; exact E2]. }
      destruct (IH (aset key2_eqb m key0 ex') res cbOrder body (cbIdx + 1) (off + di_len i0) k z Hz Hst1 Hw') as [I1 I2].
      split; [exact I1|]. intros _. apply I2. left. exists ex'. split; [exact Hget | exact E3].
    + (* this entry writes another key *)
      assert (Hne : key0 <> k) by (intros E; rewrite E, key2_eqb_refl in Ek; discriminate).
      assert (Hget : aget key2_eqb (aset key2_eqb m key0 ex') k = aget key2_eqb m k)
        by (apply aget2_aset_other; exact Hne).
      assert (Hst1 : static_ok z (aget key2_eqb (aset key2_eqb m key0 ex') k)) by (rewrite Hget; exact Hst).
      destruct (IH (aset key2_eqb m key0 ex') res cbOrder body (cbIdx + 1) (off + di_len i0) k z Hz Hst1 Hw') as [I1 I2].
      split; [exact I1|]. intros [Hs | [i Hi]]; apply I2; [left; rewrite Hget; exact Hs|].
      destruct (iwrites_cons_inv _ _ _ _ _ _ _ Hi) as [[_ [_ [_ Hk]]] | Hi']; [exfalso; apply Hne; symmetry; exact Hk|].
      right. exists i. exact Hi'.
Qed.

Lemma nth_error_map_inv : forall {A B} (f : A -> B) (l : list A) j b,
  nth_error (map f l) j = Some b -> exists a, nth_error l j = Some a /\ b = f a.
Proof.
  intros A B f l. induction l as [|a l IH]; intros j b H; destruct j as [|j]; cbn [map nth_error] in H; try discriminate.
  - exists a. split; [reflexivity | congruence].
  - exact (IH j b H).
Qed.

(* an iwrites of the whole packet loop (cbIdx = 0) is a writes of the packet *)
Lemma iwrites_writes : forall comp order dp l r p ord k i,
  dp_item dp = (l, r, comp, p) -> order r p = Some ord ->
  iwrites r ord 0 (map (fun x => fst (fst x)) (dp_incls dp)) k i ->
  exists t, writes comp order dp k t /\ i = fst (fst t).
Proof.
  intros comp order dp l r p ord k i Eit Eo [j [Hn [Hi [Hlt Hk]]]].
  destruct (nth_error_map_inv _ _ _ _ Hn) as [t [Ht Ei]]. exists t. split; [|exact Ei].
  rewrite Z.add_0_l in Hlt, Hk. rewrite znth_of_nat in Hk.
  exists l, r, p, ord, j. split; [exact Eit|]. split; [exact Eo|]. split; [exact Ht|].
  split; [unfold zlen in Hlt; lia|]. split; [unfold t_inc; rewrite <- Ei; exact Hi | exact Hk].
Qed.

Lemma writes_iwrites : forall comp order dp l r p ord k t,
  dp_item dp = (l, r, comp, p) -> order r p = Some ord -> writes comp order dp k t ->
  iwrites r ord 0 (map (fun x => fst (fst x)) (dp_incls dp)) k (fst (fst t)).
Proof.
  intros comp order dp l r p ord k t Eit Eo [l' [r' [p' [ord' [j [Eit' [Eo' [Ht [Hj [Hi Hk]]]]]]]]]].
  rewrite Eit in Eit'. assert (r' = r /\ p' = p) as [-> ->] by (split; congruence).
  rewrite Eo in Eo'. assert (ord' = ord) by congruence. subst ord'.
  exists j. split; [apply (map_nth_error (fun x => fst (fst x))); exact Ht|].
  split; [exact Hi|]. rewrite Z.add_0_l. split; [unfold zlen; lia|]. rewrite znth_of_nat. exact Hk.
Qed.

Lemma gather_static_gen : forall comp order dps m k z, 0 <= z ->
  static_ok z (aget key2_eqb m k) ->
  (forall dp t, In dp dps -> writes comp order dp k t -> di_zbp (fst (fst t)) = z /\ di_pl (fst (fst t)) = []) ->
  static_ok z (aget key2_eqb (gather comp order m dps) k) /\
  (zset (aget key2_eqb m k) \/ (exists dp t, In dp dps /\ writes comp order dp k t) ->
     zset (aget key2_eqb (gather comp order m dps) k)).
Proof.
  intros comp order dps. induction dps as [|dp dps IH]; intros m k z Hz Hst Hw.
  - cbn [gather]. split; [exact Hst|]. intros [Hs | [dp [t [[] _]]]]. exact Hs.
  - assert (Hw' : forall dp' t, In dp' dps -> writes comp order dp' k t ->
                    di_zbp (fst (fst t)) = z /\ di_pl (fst (fst t)) = [])
      by (intros dp' t Hin; apply Hw; right; exact Hin).
    (* a packet that is skipped writes nothing *)
    assert (Hskip : (forall t, ~ writes comp order dp k t) ->
              static_ok z (aget key2_eqb (gather comp order m dps) k) /\
              (zset (aget key2_eqb m k) \/ (exists dp' t, In dp' (dp :: dps) /\ writes comp order dp' k t) ->
               zset (aget key2_eqb (gather comp order m dps) k))).
    { intros Hno. destruct (IH m k z Hz Hst Hw') as [I1 I2]. split; [exact I1|].
      intros [Hs | [dp' [t [[E|Hin] Hwr]]]]; apply I2.
      - left. exact Hs.
      - subst dp'. exfalso. exact (Hno t Hwr).
      - right. exists dp', t. split; [exact Hin | exact Hwr]. }
    cbn [gather]. destruct (dp_item dp) as [[[l0 r0] c0] p0] eqn:Eit.
    destruct (Z.eqb_spec c0 comp) as [Ec|Ec]; cbn [negb].
    2:{ apply Hskip. intros t [l' [r' [p' [ord' [j [Eit' _]]]]]]. apply Ec. congruence. }
    subst c0.
    destruct (order r0 p0) as [ord0|] eqn:Eo.
    2:{ apply Hskip. intros t [l' [r' [p' [ord' [j [Eit' [Eo' _]]]]]]].
        assert (r' = r0 /\ p' = p0) as [-> ->] by (split; congruence). congruence. }
    set (incs := map (fun x => fst (fst x)) (dp_incls dp)).
    assert (Hwi : forall i, iwrites r0 ord0 0 incs k i -> di_zbp i = z /\ di_pl i = []).
    { intros i Hi. destruct (iwrites_writes comp order dp l0 r0 p0 ord0 k i Eit Eo Hi) as [t [Hwr ->]].
      apply (Hw dp t); [left; reflexivity | exact Hwr]. }
    destruct (gather_incls_static incs m r0 ord0 (dp_body dp) 0 0 k z Hz Hst Hwi) as [G1 G2].
    set (m1 := gather_incls m r0 ord0 (dp_body dp) incs 0 0) in *.
    destruct (IH m1 k z Hz G1 Hw') as [I1 I2]. split; [exact I1|].
    intros [Hs | [dp' [t [[E|Hin] Hwr]]]]; apply I2.
    + left. apply G2. left. exact Hs.
    + subst dp'. left. apply G2. right. exists (fst (fst t)).
      exact (writes_iwrites comp order dp l0 r0 p0 ord0 k t Eit Eo Hwr).
    + right. exists dp', t. split; [exact Hin | exact Hwr].
Qed.

Theorem gather_static : forall comp order dps m k z, 0 <= z ->
  static_ok z (aget key2_eqb m k) ->
  (forall dp t, In dp dps -> writes comp order dp k t -> di_zbp (fst (fst t)) = z /\ di_pl (fst (fst t)) = []) ->
  static_ok z (aget key2_eqb (gather comp order m dps) k) /\
  ((exists dp t, In dp dps /\ writes comp order dp k t) ->
     exists ci, aget key2_eqb (gather comp order m dps) k = Some ci /\ ci_zbpset ci = true).
Proof.
  intros comp order dps m k z Hz Hst Hw.
  destruct (gather_static_gen comp order dps m k z Hz Hst Hw) as [G1 G2].
  split; [exact G1|]. intros Hex. apply G2. right. exact Hex.
Qed.

(* ------------------------------------------------------------------------------------ *)
(* (2) the packets of one cell come in layer order                                        *)

Definition layer_step (bands0 : list eband) (j : nat) (o : list Z * Z) (l : Z) : list Z * Z :=
  match nth_error (exp_e l bands0) j with
  | Some e => if ei_included e then (fst o ++ ei_data e, snd o + ei_np e) else o
  | None => o
  end.

(* what block j of cell k accumulates is a fold over the layers at which k is visited *)
Lemma total_e_visits : forall eps cells0 k bands0 j o,
  Forall (incls_ok cells0) eps -> aget key3_eqb cells0 k = Some bands0 ->
  total_e k j eps o = fold_left (layer_step bands0 j) (visits k (map ep_item eps)) o.
Proof.
  induction eps as [|ep eps IH]; intros cells0 k bands0 j o Hok Hget.
  - reflexivity.
  - pose proof (Forall_inv Hok) as [b' [Hb' Hincs]]. pose proof (Forall_inv_tail Hok) as Hok'.
    cbn [total_e map]. unfold visits. cbn [flat_map]. fold (visits k (map ep_item eps)).
    destruct (key3_eqb (item_key (ep_item ep)) k) eqn:Ek.
    + apply key3_eqb_eq in Ek. rewrite Ek in Hb'. rewrite Hget in Hb'.
      assert (b' = bands0) by congruence. subst b'.
      cbn [app fold_left]. rewrite (IH cells0 k bands0 j _ Hok' Hget). f_equal.
      unfold layer_step. rewrite Hincs. reflexivity.
    + cbn [app]. apply (IH cells0 k bands0 j o Hok' Hget).
Qed.

Lemma layers_from_0 : forall nl, layers_from nl 0 = zseq nl.
Proof.
  intros nl. unfold layers_from. rewrite Z.sub_0_r.
  rewrite (map_ext (Z.add 0) (fun x => x)) by (intros a; reflexivity). apply map_id.
Qed.

Theorem total_e_layers : forall nl keys eps cells0 k bands0 j o,
  Sched nl keys (fun _ => 0) (map ep_item eps) -> Forall (incls_ok cells0) eps ->
  In k keys -> aget key3_eqb cells0 k = Some bands0 ->
  total_e k j eps o = fold_left (layer_step bands0 j) (zseq nl) o.
Proof.
  intros nl keys eps cells0 k bands0 j o [_ Hvis] Hok Hk Hget.
  rewrite (total_e_visits eps cells0 k bands0 j o Hok Hget).
  rewrite (Hvis k Hk). cbv beta. rewrite layers_from_0. reflexivity.
Qed.

Print Assumptions gather_static.
Print Assumptions total_e_layers.
