(* pipe: the packet encoder gets the tile-LOCAL component bounds (0, 0, w, h), the packet decoder
   the bounds at the tile origin.  With one precinct per resolution both position keys are
   (0, 0), hence the progression sequences agree. *)
From V Require Import Common.Base J2KGeo.GeoModel J2KGeo.GeoProofsBands J2KGeo.GeoProofsBlocks T2.T2Header T2.T2Packets
  Pipe.PipeModel Pipe.PipeProofsFront Pipe.PipeProofsGeo.
Require V.T2.T2ProofsProg.

Lemma fold_left_ext_in' : forall {A B} (f g : A -> B -> A) l a,
  (forall a x, In x l -> f a x = g a x) -> fold_left f l a = fold_left g l a.
Proof.
  intros A B f g l. induction l as [|x l IH]; intros a H; cbn [fold_left]; [reflexivity|].
  rewrite (H a x (or_introl eq_refl)). apply IH. intros a' y Hy. apply H. right. exact Hy.
Qed.

Section Ext.
Variables (pk pk' : Z -> Z -> Z -> option (Z * Z)) (pidx : Z -> Z -> list Z) (nl nr nc : Z).
Hypothesis Hext : forall c r i, In c (zseq nc) -> In r (zseq nr) -> In i (pidx c r) -> pk c r i = pk' c r i.

Lemma cr_positions_ext : forall c r, In c (zseq nc) -> In r (zseq nr) ->
  cr_positions pk pidx c r = cr_positions pk' pidx c r.
Proof.
  intros c r Hc Hr. unfold cr_positions. apply flat_map_ext_in. intros i Hi. rewrite (Hext c r i Hc Hr Hi). reflexivity.
Qed.

Lemma lookup_pos_ext : forall c r pos, In c (zseq nc) -> In r (zseq nr) ->
  lookup_pos pk pidx c r pos = lookup_pos pk' pidx c r pos.
Proof.
  intros c r pos Hc Hr. unfold lookup_pos. apply fold_left_ext_in'. intros a i Hi. rewrite (Hext c r i Hc Hr Hi). reflexivity.
Qed.

Lemma by_res_ext : forall r, In r (zseq nr) -> by_res pk pidx nc r = by_res pk' pidx nc r.
Proof.
  intros r Hr. unfold by_res. f_equal. apply flat_map_ext_in. intros c Hc. apply cr_positions_ext; assumption.
Qed.

Lemma by_comp_ext : forall c, In c (zseq nc) -> by_comp pk pidx nr c = by_comp pk' pidx nr c.
Proof.
  intros c Hc. unfold by_comp. f_equal. apply flat_map_ext_in. intros r Hr. apply cr_positions_ext; assumption.
Qed.

Lemma all_positions_ext : all_positions pk pidx nr nc = all_positions pk' pidx nr nc.
Proof.
  unfold all_positions. f_equal. apply flat_map_ext_in. intros c Hc. apply flat_map_ext_in. intros r Hr.
  apply cr_positions_ext; assumption.
Qed.

Lemma prog_seq_pk_ext : forall order, prog_seq order nl nr nc pidx pk = prog_seq order nl nr nc pidx pk'.
Proof.
  intros order. unfold prog_seq.
  destruct (order =? 0); [reflexivity|]. destruct (order =? 1); [reflexivity|].
  destruct (order =? 2).
  { f_equal. apply flat_map_ext_in. intros r Hr. rewrite (by_res_ext r Hr). apply flat_map_ext_in. intros pos _.
    apply flat_map_ext_in. intros c Hc. rewrite (lookup_pos_ext c r pos Hc Hr). reflexivity. }
  destruct (order =? 3).
  { f_equal. rewrite all_positions_ext. apply flat_map_ext_in. intros pos _. apply flat_map_ext_in. intros c Hc.
    apply flat_map_ext_in. intros r Hr. rewrite (lookup_pos_ext c r pos Hc Hr). reflexivity. }
  destruct (order =? 4); [|reflexivity].
  f_equal. apply flat_map_ext_in. intros c Hc. rewrite (by_comp_ext c Hc). apply flat_map_ext_in. intros pos _.
  apply flat_map_ext_in. intros r Hr. rewrite (lookup_pos_ext c r pos Hc Hr). reflexivity.
Qed.
End Ext.

Lemma floor_div_small' : forall v, 0 <= v < 32768 -> floor_div v prec_sz * prec_sz = 0.
Proof.
  intros v Hv. unfold floor_div, prec_sz. cbn [Z.leb Z.compare]. destruct (Z.geb_spec v 0); [|lia]. rewrite Z.quot_small by lia. reflexivity.
Qed.

(* the position key of precinct 0 for component bounds (bx, by, bx + w, by + h) inside [0, 32768]^2 *)
Lemma pos_key_zero : forall (g : pgeom) bx by_ w h L c r,
  (forall c, pg_bounds g c = (bx, by_, bx + w, by_ + h)) -> (forall c, pg_sampling g c = (1, 1)) ->
  (forall r, pg_precinct g r = (prec_sz, prec_sz)) ->
  1 <= w -> 1 <= h -> 0 <= bx -> 0 <= by_ -> bx + w <= 32768 -> by_ + h <= 32768 -> 0 <= L -> 0 <= r <= L ->
  precinct_position_key g (L + 1) c r 0 = Some (0, 0).
Proof.
  intros g bx by_ w h L c r Hb Hs Hp Hw Hh Hbx Hby Hxw Hyh HL Hr.
  unfold precinct_position_key. rewrite Hb, Hs, Hp.
  destruct (Z.ltb_spec (L + 1 - 1) 0); [lia|]. replace (L + 1 - 1) with L by lia.
  change (1 <=? 0) with false. cbv iota. unfold prec_sz. change (32768 <=? 0) with false. cbn [orb].
  replace (bx + w - bx) with w by lia. replace (by_ + h - by_) with h by lia.
  destruct (Z.leb_spec w 0); [lia|]. destruct (Z.leb_spec h 0); [lia|]. cbn [orb].
  unfold dec_res_dims.
  destruct (win_iter_box (level_no L r) w h bx by_ ltac:(lia) ltac:(lia) Hbx Hby) as (rw & rh & rx & ry & E & A). rewrite E.
  pose proof (floor_div_small' rx ltac:(lia)) as Fx. pose proof (floor_div_small' ry ltac:(lia)) as Fy.
  unfold prec_sz in Fx, Fy. rewrite Fx, Fy.
  set (npx0 := Z.quot (ceil_div (rx + rw) 32768 * 32768 - 0) 32768).
  set (npy0 := Z.quot (ceil_div (ry + rh) 32768 * 32768 - 0) 32768).
  set (npx := if npx0 <? 1 then 1 else npx0). set (npy := if npy0 <? 1 then 1 else npy0).
  assert (Hx : 1 <= npx) by (unfold npx; destruct (Z.ltb_spec npx0 1); lia).
  assert (Hy : 1 <= npy) by (unfold npy; destruct (Z.ltb_spec npy0 1); lia).
  change (0 <? 0) with false. destruct (Z.geb_spec 0 (npx * npy)); [nia|]. cbn [orb].
  rewrite Z.rem_0_l by lia. rewrite Z.quot_0_l by lia. reflexivity.
Qed.

Section Pgeom.
Variable p : pparams.
Hypothesis Hsc : pp_scope p.
Let L := pp_levels p.
Let nc := pp_nc p.

Lemma pos_key_enc : forall c r, 0 <= r <= L -> precinct_position_key (pipe_pgeom p) (L + 1) c r 0 = Some (0, 0).
Proof.
  intros c r Hr. destruct (wh_range p Hsc) as (Hw & Hh & HL). fold L in HL.
  apply (pos_key_zero (pipe_pgeom p) 0 0 (pp_w p) (pp_h p) L c r); try reflexivity; lia.
Qed.

Lemma pos_key_dec : forall c r, 0 <= r <= L -> precinct_position_key (pipe_pgeom_dec p) (L + 1) c r 0 = Some (0, 0).
Proof.
  intros c r Hr. destruct (wh_range p Hsc) as (Hw & Hh & HL). fold L in HL.
  destruct (origin_range p Hsc) as (Ox & Oy & Oxw & Oyh).
  apply (pos_key_zero (pipe_pgeom_dec p) (pp_x0 p) (pp_y0 p) (pp_w p) (pp_h p) L c r); try reflexivity; lia.
Qed.

Lemma pk_ok_dec : forall pidx, (forall c r, pidx c r = [] \/ pidx c r = [0]) ->
  T2ProofsProg.pk_ok (L + 1) nc pidx (precinct_position_key (pipe_pgeom_dec p) (L + 1)).
Proof.
  intros pidx Hone. apply T2ProofsProg.prog_single; [exact Hone|].
  intros c r Hc Hr _. exists (0, 0). apply pos_key_dec. lia.
Qed.

Lemma enc_packets_geom : forall nl cells, (forall c r, enc_pidx cells c r = [] \/ enc_pidx cells c r = [0]) ->
  enc_packets (pp_order p) nl (L + 1) nc (pipe_pgeom p) cells =
  enc_packets (pp_order p) nl (L + 1) nc (pipe_pgeom_dec p) cells.
Proof.
  intros nl cells Hone. unfold enc_packets.
  rewrite (prog_seq_pk_ext (precinct_position_key (pipe_pgeom p) (L + 1)) (precinct_position_key (pipe_pgeom_dec p) (L + 1))
             (enc_pidx cells) nl (L + 1) nc); [reflexivity|].
  intros c r i Hc Hr Hi. apply GeoProofsBlocks.in_zrange in Hr.
  destruct (Hone c r) as [E|E]; rewrite E in Hi; [destruct Hi|]. destruct Hi as [<-|[]].
  rewrite pos_key_enc, pos_key_dec by lia. reflexivity.
Qed.

End Pgeom.
