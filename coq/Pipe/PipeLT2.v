(* pipe (layers), part 8': tier 2 over nl quality layers.  G2..G4 of packets_deliver_fields /
   packets_encode_total discharged for the layered store, and what gatherCBData accumulates for
   every code-block over the layers (gather_delivers + total_match + total_e_layers for bytes and
   passes, gather_static for the zero-bit-plane count and the absence of pass lengths). *)
From V Require Import Common.Base J2KGeo.GeoModel J2KGeo.GeoProofsBlocks T2.T2Header T2.T2Packets
  T2.T2ProofsHeader T2.T2ProofsHeader3 T2.T2ProofsPackets1 T2.T2ProofsPackets2 T2.T2ProofsPackets4 T2.T2ProofsPackets5 T2.T2ProofsGather
  Pipe.PipeModel Pipe.PipeProofsPgeom Pipe.PipeProofsFront Pipe.PipeProofsLists Pipe.PipeProofsStore Pipe.PipeProofsGeo
  Pipe.PipeProofsDecGeo Pipe.PipeProofsBlock Pipe.PipeCellRel Pipe.PipeLCellRel Pipe.PipeProofsEnc Pipe.PipeLEnc
  Pipe.PipeProofsCells Pipe.PipeLBlockDomain Pipe.PipeLBlock Pipe.PipeLCells Pipe.PipeGatherOnce Pipe.PipeGatherLayers
  Pipe.PipeProofsT2.
Require V.T2.T2ProofsProg V.J2KGeo.GeoLayers.
Require Import Coq.Lists.List.

Section LT2.
Variable p : pparams.
Hypothesis Hsc : pp_scope p.
Variable nl : Z.
Hypothesis Hnl : 2 <= nl.
Variable alloc : Z -> bkey -> list Z.
Hypothesis Halloc : forall c k, row_ok nl (alloc c k).
Variable coeffs : list (list Z).
Hypothesis Hnc : length coeffs = Z.to_nat (pp_nc p).
Hypothesis Hlen : forall d, In d coeffs -> zlen d = pp_w p * pp_h p.
Hypothesis Hbound : forall d, In d coeffs -> forall v, In v d -> - 2 ^ 25 < v < 2 ^ 25.
Hypothesis Hsize : forall d, In d coeffs -> forall r cb, In (r, cb) (enc_blocks p d) ->
  forall b0, enc_code_block p r cb (cb_cbx cb) (cb_cby cb) = Ok b0 -> zlen (eb_data b0) <= 65535.
Variable cells : ecells.
Hypothesis Ecells : pipe_cells_layers p nl alloc coeffs = Ok cells.

Let L := pp_levels p.
Let nc := pp_nc p.
Let cf := coef coeffs.
Let mk := mkL p nl alloc.

Lemma cf_inL : forall c, 0 <= c < nc -> In (cf c) coeffs.
Proof. intros c Hc. apply (coef_in p coeffs Hnc c Hc). Qed.

Lemma mk_facts : forall c r cb, 0 <= c < nc -> In (r, cb) (enc_blocks p (cf c)) ->
  eb_cbx (mk c r cb) = cb_cbx cb /\ eb_cby (mk c r cb) = cb_cby cb /\ layered_block nl (mk c r cb) /\
  (forall l, zlen (b_data (mk c r cb) l) <= 65535) /\
  0 <= snd (contrib_acc (mk c r cb) nl) /\ (snd (contrib_acc (mk c r cb) nl) = 0 -> fst (contrib_acc (mk c r cb) nl) = []) /\
  forall m idx, delivered nl (mk c r cb) (aget key2_eqb m (r, idx)) ->
    dec_code_block p m idx (r, cell_of_block cb) =
      Ok (cb_gx0 cb, cb_gy0 cb, cb_gx0 cb + cb_w cb, cb_gy0 cb + cb_h cb, cb_data cb).
Proof.
  intros c r cb Hc Hin.
  destruct (mkL_spec p Hsc nl Hnl alloc Halloc coeffs Hlen Hbound Hsize c (cf c) r cb (cf_inL c Hc) Hin) as [_ F]. exact F.
Qed.

Lemma cells_factsL : cells_norm cells /\ keys0 cells /\
  (forall c r, 0 <= c < nc -> 0 <= r <= L -> cget cells (c, r, 0) = map bs_eband (res_specs p (cf c) (mk c) r)) /\
  (forall c r pi, ~ (0 <= c < nc /\ 0 <= r <= L /\ pi = 0) -> cget cells (c, r, pi) = []).
Proof.
  destruct (pipe_cells_layers_spec p Hsc nl Hnl alloc Halloc coeffs Hnc Hlen Hbound Hsize) as [cells2 [E F]].
  rewrite Ecells in E. injection E as <-. exact F.
Qed.

Lemma specs_blocksL : forall d (mk0 : Z -> cblock -> eblock) r,
  flat_map bs_blocks (res_specs p d mk0 r) = map (mk0 r) (enc_blocks_res p d r).
Proof.
  intros d mk0 r. unfold res_specs. rewrite flat_map_flat_map', enc_blocks_res_bands, map_flat_map.
  apply flat_map_ext. intros b. unfold band_spec. destruct (band_blocks p d b) as [|c0 bl] eqn:Eb; [reflexivity|].
  rewrite <- Eb. cbn [flat_map bs_blocks snd]. apply app_nil_r.
Qed.

Lemma specs_nil_iffL : forall d (mk0 : Z -> cblock -> eblock) r, 0 <= r <= L -> res_specs p d mk0 r = [] <-> NEr p d r = [].
Proof.
  intros d mk0 r Hr. split; intros H.
  - assert (E : map snd (NEr p d r) = []).
    { rewrite (NEr_blocks p d r Hr). pose proof (specs_blocksL d mk0 r) as S. rewrite H in S. cbn [flat_map] in S.
      destruct (enc_blocks_res p d r); [reflexivity | discriminate]. }
    destruct (NEr p d r); [reflexivity | discriminate].
  - assert (E : enc_blocks_res p d r = []).
    { pose proof (NEr_blocks p d r Hr) as S. rewrite H in S. cbn [map] in S. destruct (enc_blocks_res p d r); [reflexivity | discriminate]. }
    rewrite enc_blocks_res_bands in E. unfold res_specs. apply flat_map_all_nil. intros b Hb.
    unfold band_spec. destruct (band_blocks p d b) as [|c0 bl] eqn:Eb; [reflexivity|]. exfalso.
    assert (Hin : In c0 (flat_map (band_blocks p d) (rbands p r))) by (apply in_flat_map; exists b; split; [exact Hb | rewrite Eb; left; reflexivity]).
    rewrite E in Hin. destruct Hin.
Qed.

Lemma aget_cellsL : forall c r, 0 <= c < nc -> 0 <= r <= L ->
  aget key3_eqb cells (c, r, 0) = match res_specs p (cf c) (mk c) r with [] => None | _ => Some (map bs_eband (res_specs p (cf c) (mk c) r)) end.
Proof.
  intros c r Hc Hr. destruct cells_factsL as [Hn [_ [Hg _]]]. rewrite (Hn (c, r, 0)), (Hg c r Hc Hr).
  destruct (res_specs p (cf c) (mk c) r); reflexivity.
Qed.

Lemma G2L : forall c r, enc_pidx cells c r = dec_pidx p c r.
Proof.
  intros c r. destruct cells_factsL as [Hn [Hk [Hg Ho]]]. rewrite (enc_pidx_keys0 cells c r Hk).
  destruct (Z_le_gt_dec 0 c) as [Hc0|Hc0]; [destruct (Z_lt_ge_dec c nc) as [Hc1|Hc1]|].
  - destruct (Z_le_gt_dec 0 r) as [Hr0|Hr0]; [destruct (Z_le_gt_dec r L) as [Hr1|Hr1]|].
    + rewrite (aget_cellsL c r ltac:(lia) ltac:(lia)), (dec_pidx_spec p Hsc (cf c) c r ltac:(fold nc; lia) ltac:(fold L; lia)).
      pose proof (specs_nil_iffL (cf c) (mk c) r ltac:(lia)) as Hiff.
      destruct (res_specs p (cf c) (mk c) r) eqn:Es; destruct (NEr p (cf c) r) eqn:En; try reflexivity.
      * exfalso. assert (A : p0 :: l = []) by (apply Hiff; reflexivity). discriminate.
      * exfalso. assert (A : b :: l = []) by (apply Hiff; reflexivity). discriminate.
    + rewrite (Hn (c, r, 0)), (Ho c r 0) by lia. rewrite (dec_pidx_res_out p Hsc coeffs Hnc) by (fold L; lia). reflexivity.
    + rewrite (Hn (c, r, 0)), (Ho c r 0) by lia. rewrite (dec_pidx_res_out p Hsc coeffs Hnc) by (fold L; lia). reflexivity.
  - rewrite (Hn (c, r, 0)), (Ho c r 0) by lia. rewrite dec_pidx_out by (fold nc; lia). reflexivity.
  - rewrite (Hn (c, r, 0)), (Ho c r 0) by lia. rewrite dec_pidx_out by (fold nc; lia). reflexivity.
Qed.

Lemma pidx_shapeL : forall c r, dec_pidx p c r = [] \/ dec_pidx p c r = [0].
Proof.
  intros c r. rewrite <- G2L. destruct cells_factsL as [_ [Hk _]]. rewrite (enc_pidx_keys0 cells c r Hk).
  destruct (aget key3_eqb cells (c, r, 0)); auto.
Qed.

Lemma G2'L : forall c r, NoDup (dec_pidx p c r).
Proof. intros c r. destruct (pidx_shapeL c r) as [-> | ->]; repeat constructor. intros []. Qed.

Lemma G3L : T2ProofsProg.pk_ok (L + 1) nc (dec_pidx p) (precinct_position_key (pipe_pgeom_dec p) (L + 1)).
Proof. apply (pk_ok_dec p Hsc). apply pidx_shapeL. Qed.

(* the encoder's tile-local bounds give the same packet sequence as the decoder's bounds *)
Lemma enc_geom_G3L : forall nl', enc_packets (pp_order p) nl' (L + 1) nc (pipe_pgeom p) cells =
  enc_packets (pp_order p) nl' (L + 1) nc (pipe_pgeom_dec p) cells.
Proof. intros nl'. apply (enc_packets_geom p Hsc). intros c r. rewrite G2L. apply pidx_shapeL. Qed.

Lemma G4L : forall k, In k (T2ProofsProg.cell_keys (L + 1) nc (dec_pidx p)) ->
  CellRel false nl (dec_geo p) 0 k cells [].
Proof.
  intros [[c r] pi] Hk. apply (T2ProofsProg.in_cell_keys 1 (L + 1) nc (dec_pidx p) (fun _ _ _ => None)) in Hk as (Hc & Hr & Hpi).
  assert (Hpidx : dec_pidx p c r = [0]) by (destruct (pidx_shapeL c r) as [E|E]; [rewrite E in Hpi; destruct Hpi | exact E]).
  rewrite Hpidx in Hpi. destruct Hpi as [<-|[]].
  assert (Hr' : 0 <= r <= L) by lia.
  set (d := cf c).
  assert (Hne : res_specs p d (mk c) r <> []).
  { intros E. apply (specs_nil_iffL d (mk c) r Hr') in E. rewrite (dec_pidx_spec p Hsc d c r ltac:(fold nc; lia) ltac:(fold L; lia)), E in Hpidx. discriminate. }
  apply (cellrel_layers nl (dec_geo p) cells c r (res_specs p d (mk c) r) ltac:(lia) Hne).
  - apply (res_specs_ids p d (mk c) r). fold L. exact Hr'.
  - apply (res_specs_ok p d nl (mk c)); [| |fold L; exact Hr'].
    + intros r' cb Hin. destruct (mk_facts c r' cb Hc Hin) as [X [Y _]]. split; assumption.
    + intros r' cb Hin. destruct (mk_facts c r' cb Hc Hin) as [_ [_ [X _]]]. exact X.
  - rewrite (aget_cellsL c r Hc Hr'). fold d. destruct (res_specs p d (mk c) r); [congruence | reflexivity].
  - intros band Hband. destruct (band_of_id p r band Hband) as [b [Hb <-]].
    rewrite (dec_geo_spec p Hsc d c r b ltac:(fold nc; lia) ltac:(fold L; lia) Hb).
    rewrite (res_specs_find p d (mk c) r b ltac:(fold L; lia) Hb).
    destruct (bgrid p b) eqn:Eg; [reflexivity|]. rewrite <- Eg. reflexivity.
Qed.

(* the blocks of a cell in header order, and what the encoder records for layer l *)
Lemma cell_blocksL : forall c r, 0 <= c < nc -> 0 <= r <= L ->
  flat_map ebn_blocks (map bs_eband (res_specs p (cf c) (mk c) r)) = map (mk c r) (enc_blocks_res p (cf c) r).
Proof. intros c r Hc Hr. rewrite flat_map_map. rewrite <- specs_blocksL. reflexivity. Qed.

Lemma cell_exp_eL : forall c r l, 0 <= c < nc -> 0 <= r <= L ->
  exp_e l (map bs_eband (res_specs p (cf c) (mk c) r)) =
  map (fun cb => expect_eincl (mk c r cb) l) (enc_blocks_res p (cf c) r).
Proof.
  intros c r l Hc Hr. unfold exp_e.
  rewrite <- (map_map (mk c r) (fun b => expect_eincl b l)), <- (cell_blocksL c r Hc Hr).
  rewrite map_flat_map. reflexivity.
Qed.

(* no contribution exceeds 65535 bytes *)
Lemma small_L : forall eps, Forall (incls_ok cells) eps -> small_packets eps.
Proof.
  intros eps Hok. unfold small_packets. eapply Forall_impl; [|exact Hok]. intros ep [bands0 [Hget Hinc]].
  destruct (item_key (ep_item ep)) as [[c r] pi] eqn:Ek.
  destruct cells_factsL as [Hn [_ [Hg Ho]]].
  assert (Hcg : cget cells (c, r, pi) = bands0) by (unfold cget; rewrite Hget; reflexivity).
  assert (Hne : bands0 <> []).
  { intros ->. rewrite (Hn (c, r, pi)), Hcg in Hget. discriminate. }
  destruct (Z_le_gt_dec 0 c) as [Hc0|]; [destruct (Z_lt_ge_dec c nc) as [Hc1|]|]; try (rewrite Ho in Hcg by lia; congruence).
  destruct (Z_le_gt_dec 0 r) as [Hr0|]; [destruct (Z_le_gt_dec r L) as [Hr1|]|]; try (rewrite Ho in Hcg by lia; congruence).
  destruct (Z.eq_dec pi 0) as [->|]; [|rewrite Ho in Hcg by lia; congruence].
  rewrite (Hg c r ltac:(lia) ltac:(lia)) in Hcg. subst bands0.
  rewrite Hinc, (cell_exp_eL c r _ ltac:(lia) ltac:(lia)). apply Forall_forall. intros e He.
  apply in_map_iff in He as [cb [<- Hcb]].
  assert (Hin : In (r, cb) (enc_blocks p (cf c))).
  { unfold enc_blocks. apply in_flat_map. exists r. split; [apply in_zrange; fold L; lia | apply in_map; exact Hcb]. }
  destruct (mk_facts c r cb ltac:(lia) Hin) as [_ [_ [_ [Hsm _]]]].
  unfold expect_eincl. destruct (b_inc (mk c r cb) (item_layer (ep_item ep))); cbn [ei_data eincl_skip]; [apply Hsm|].
  change (zlen (@nil Z)) with 0. lia.
Qed.

(* EncodePackets succeeds and stays small *)
Theorem t2_encodes_L : 0 <= pp_order p <= 4 ->
  exists eps cells', enc_packets (pp_order p) nl (L + 1) nc (pipe_pgeom p) cells = Ok (eps, cells') /\ small_packets eps.
Proof.
  intros Hord.
  destruct (packets_encode_total false nl (L + 1) nc (pp_order p) (pipe_pgeom_dec p) (dec_pidx p) (dec_geo p) cells
              G2L G2'L (fun _ => G3L) G4L Hord ltac:(lia)) as [eps [cells' [E Hok]]].
  rewrite <- enc_geom_G3L in E.
  exists eps, cells'. split; [exact E | apply small_L; exact Hok].
Qed.

Lemma fold_left_ext' : forall {A B} (f g : A -> B -> A) l a, (forall a b, f a b = g a b) -> fold_left f l a = fold_left g l a.
Proof. intros A B f g l. induction l as [|x l IH]; intros a H; cbn [fold_left]; [reflexivity|]. rewrite H. apply IH. exact H. Qed.

Lemma fold_contrib_step : forall (b : eblock) (ls : list Z) o,
  snd (fold_left (fun o l => if b_inc b l then (fst o ++ b_data b l, snd o + b_np b l) else o) ls o) <> snd o ->
  exists l, In l ls /\ b_inc b l = true.
Proof.
  intros b ls. induction ls as [|l ls IH]; intros o H; cbn [fold_left] in H; [congruence|].
  destruct (b_inc b l) eqn:Ei; [exists l; split; [left; reflexivity | exact Ei]|].
  destruct (IH o H) as [l' [Hl' Hi']]. exists l'. split; [right; exact Hl' | exact Hi'].
Qed.

Theorem t2_delivers_L : forall eps cells',
  0 <= pp_order p <= 4 ->
  enc_packets (pp_order p) nl (L + 1) nc (pipe_pgeom p) cells = Ok (eps, cells') -> small_packets eps ->
  exists dps,
    dec_packets (packets_bytes eps) (pp_order p) nl (L + 1) nc (pipe_pgeom_dec p) (dec_pidx p) (dec_geo p) 0 false false = Ok dps /\
    forall c, 0 <= c < nc -> forall i r cb, In (i, (r, cb)) (NE p (cf c)) ->
      delivered nl (mk c r cb) (aget key2_eqb (gather c (dec_order p) [] dps) (r, i)).
Proof.
  intros eps cells' Hord He Hsm. rewrite enc_geom_G3L in He.
  destruct (packets_deliver_fields false 0 nl (L + 1) nc (pp_order p) (pipe_pgeom_dec p) (dec_pidx p) (dec_geo p) false false cells
              eq_refl G2L G2'L (fun _ => G3L) G4L Hord ltac:(lia) eps cells' He Hsm)
    as [dps [items [Ed [Eseq [[Hkeys Hvis] [Hitems [HM [Hok HF]]]]]]]].
  exists dps. split; [exact Ed|].
  assert (Hbody : Forall (fun ep => ep_body ep = packet_body (ep_incls ep)) eps).
  { unfold enc_packets in He. destruct (prog_seq _ _ _ _ _ _) as [its|]; [|discriminate]. apply (enc_items_body its cells eps cells' He). }
  set (R := fun ep dp => (incls_ok cells ep /\ ep_body ep = packet_body (ep_incls ep)) /\ PktMatch ep dp /\ PktFields false cells ep dp).
  assert (HR : Forall2 R eps dps).
  { unfold R. apply forall2_forall_l.
    - clear - Hok Hbody. induction Hok; inversion Hbody; subst; constructor; auto.
    - apply forall2_and; assumption. }
  assert (Hlf : layers_from nl 0 = zseq nl) by apply layers_from_0.
  assert (Hit : forall it, In it items -> exists l r c, it = (l, r, c, 0) /\ 0 <= l < nl /\ 0 <= c < nc /\ 0 <= r <= L /\ dec_pidx p c r = [0]).
  { intros [[[l r] c] pi] Hin. pose proof (Hkeys _ Hin) as Hk. cbn [item_key] in Hk.
    pose proof Hk as Hk2. apply (T2ProofsProg.in_cell_keys 1 (L + 1) nc (dec_pidx p) (fun _ _ _ => None)) in Hk2 as (Hc & Hr & Hpi).
    assert (Hpidx : dec_pidx p c r = [0]) by (destruct (pidx_shapeL c r) as [E|E]; [rewrite E in Hpi; destruct Hpi | exact E]).
    rewrite Hpidx in Hpi. destruct Hpi as [<-|[]].
    assert (Hl : In l (visits (c, r, 0) items)).
    { unfold visits. apply in_flat_map. exists (l, r, c, 0). split; [exact Hin|]. cbn [item_key item_layer]. rewrite key3_eqb_refl. left. reflexivity. }
    rewrite (Hvis _ Hk), Hlf in Hl. apply in_zrange in Hl.
    exists l, r, c. repeat split; try lia. exact Hpidx. }
  assert (Hdpi : map dp_item dps = items).
  { rewrite <- Hitems. clear - HM. induction HM as [|ep dp eps dps [E _] _ IH]; [reflexivity|]. cbn [map]. rewrite E, IH. reflexivity. }
  assert (Hwf : Forall dp_wf dps).
  { apply Forall_forall. intros dp Hdp. destruct (forall2_in_r R eps dps dp HR Hdp) as [ep [_ [[_ Hb] [HPM _]]]]. apply (pktmatch_wf ep dp HPM Hb). }
  intros c Hc.
  pose proof (cf_inL c Hc) as Hd.
  assert (Hpk : forall dp l r, In dp dps -> dp_item dp = (l, r, c, 0) ->
            0 <= r <= L /\ dec_order p r 0 = Some (map fst (NEr p (cf c) r)) /\
            Forall2 (fun (cb : cblock) (t : trip) =>
                       body_match (expect_eincl (mk c r cb) l) t /\
                       (di_included (fst (fst t)) = true -> di_zbp (fst (fst t)) = eb_zbp (mk c r cb) /\
                          di_pl (fst (fst t)) = []))
                    (enc_blocks_res p (cf c) r) (dp_incls dp)).
  { intros dp l r Hdp Eit.
    destruct (forall2_in_r R eps dps dp HR Hdp) as [ep [Hep [[[bands0 [Hget Hinc]] Hb] [HPM [bands1 [Hget1 Hfld]]]]]].
    pose proof HPM as [Eitem [Hbm Ebody]]. rewrite Eit in Eitem.
    assert (Hin_it : In (l, r, c, 0) items) by (rewrite <- Hdpi; rewrite <- Eit; apply in_map; exact Hdp).
    destruct (Hit _ Hin_it) as [l' [r' [c' [E0 [_ [_ [Hr Hpidx]]]]]]]. injection E0 as <- <- <-.
    rewrite <- Eitem in Hget, Hget1, Hinc, Hfld. cbn [item_key item_layer] in Hget, Hget1, Hinc, Hfld.
    rewrite (aget_cellsL c r Hc Hr) in Hget, Hget1.
    assert (Hne : NEr p (cf c) r <> []).
    { intros E. rewrite (dec_pidx_spec p Hsc (cf c) c r ltac:(fold nc; lia) ltac:(fold L; lia)), E in Hpidx. discriminate. }
    assert (Hsn : res_specs p (cf c) (mk c) r <> []) by (intros E; apply Hne; apply (specs_nil_iffL (cf c) (mk c) r Hr); exact E).
    destruct (res_specs p (cf c) (mk c) r) as [|s0 sl] eqn:Es; [congruence|]. rewrite <- Es in *. clear Hsn.
    injection Hget as <-. injection Hget1 as <-.
    rewrite (cell_exp_eL c r l Hc Hr) in Hinc. rewrite (cell_blocksL c r Hc Hr) in Hfld.
    split; [exact Hr|]. split.
    { rewrite (dec_order_spec p Hsc (cf c) r ltac:(fold L; lia)). destruct (NEr p (cf c) r); [congruence | reflexivity]. }
    rewrite Hinc in Hbm.
    clear - Hbm Hfld. revert Hbm Hfld. generalize (dp_incls dp) as ts. generalize (enc_blocks_res p (cf c) r) as bl.
    induction bl as [|cb bl IH]; intros ts Hbm Hfld; cbn [map] in Hbm, Hfld; inversion Hbm; subst; [constructor|].
    inversion Hfld; subst. constructor; [|apply IH; assumption].
    split; [assumption|]. intros Hi. match goal with H : di_included _ = true -> _ |- _ => destruct (H Hi) as [A [B _]] end. split; [exact A | exact B]. }
  intros i r cb Hin. destruct (in_NE_blocks p (cf c) i r cb Hin) as [Hin_b Hr]. fold L in Hr.
  destruct (mk_facts c r cb Hc Hin_b) as (_ & _ & Hlb & _ & Hn0 & Hzd & _).
  set (b := mk c r cb) in *.
  assert (HinR : In (i, (r, cb)) (NEr p (cf c) r)).
  { unfold NEr. apply filter_In. split; [exact Hin|]. cbn [fst snd]. apply Z.eqb_refl. }
  apply In_nth_error in HinR as [j Hj].
  set (ord := map fst (NEr p (cf c) r)).
  assert (Hne : NEr p (cf c) r <> []) by (intros E; rewrite E in Hj; destruct j; discriminate).
  assert (Hpidx : dec_pidx p c r = [0]).
  { rewrite (dec_pidx_spec p Hsc (cf c) c r ltac:(fold nc; lia) ltac:(fold L; lia)). destruct (NEr p (cf c) r); [congruence | reflexivity]. }
  assert (Hkey : In (c, r, 0) (T2ProofsProg.cell_keys (L + 1) nc (dec_pidx p))).
  { apply (T2ProofsProg.in_cell_keys 1 (L + 1) nc (dec_pidx p) (fun _ _ _ => None)). split; [lia|]. split; [lia|]. rewrite Hpidx. left. reflexivity. }
  assert (Hord_r : dec_order p r 0 = Some ord).
  { unfold ord. rewrite (dec_order_spec p Hsc (cf c) r ltac:(fold L; lia)). destruct (NEr p (cf c) r); [congruence | reflexivity]. }
  assert (Hnd : NoDup ord) by apply NEr_fst_nodup.
  assert (Hjl : (j < length ord)%nat) by (unfold ord; rewrite map_length; apply nth_error_Some; congruence).
  assert (Enth : nth j ord 0 = i).
  { unfold ord. rewrite (nth_error_nth (map fst (NEr p (cf c) r)) j 0 (x := i)); [reflexivity|]. rewrite nth_error_map, Hj. reflexivity. }
  assert (Hcb : nth_error (enc_blocks_res p (cf c) r) j = Some cb).
  { pose proof (NEr_blocks p (cf c) r Hr) as Hs.
    assert (E1 : nth_error (map snd (NEr p (cf c) r)) j = Some (r, cb)) by (rewrite nth_error_map, Hj; reflexivity).
    rewrite Hs, nth_error_map in E1. destruct (nth_error (enc_blocks_res p (cf c) r) j); [|discriminate]. cbn [option_map] in E1. congruence. }
  assert (Hlen_ord : length ord = length (enc_blocks_res p (cf c) r)).
  { unfold ord. rewrite map_length, <- (map_length snd (NEr p (cf c) r)), (NEr_blocks p (cf c) r Hr), map_length. reflexivity. }
  (* bytes and passes *)
  assert (Hobs : obs (aget key2_eqb (gather c (dec_order p) [] dps) (r, i)) = contrib_acc b nl).
  { pose proof (gather_delivers c (dec_order p) dps [] r 0 ord j Hord_r Hnd Hjl Hwf) as Hgd.
    rewrite (znth_of_nat ord j), Enth in Hgd. rewrite Hgd; clear Hgd.
    - cbn [aget obs]. rewrite (total_match eps dps (c, r, 0) j ([], 0) HM).
      assert (Hbands : aget key3_eqb cells (c, r, 0) = Some (map bs_eband (res_specs p (cf c) (mk c) r))).
      { rewrite (aget_cellsL c r Hc Hr).
        assert (Hsn : res_specs p (cf c) (mk c) r <> []) by (intros E; apply Hne; apply (specs_nil_iffL (cf c) (mk c) r Hr); exact E).
        destruct (res_specs p (cf c) (mk c) r); [congruence | reflexivity]. }
      assert (Hsched : Sched nl (T2ProofsProg.cell_keys (L + 1) nc (dec_pidx p)) (fun _ => 0) (map ep_item eps)) by (rewrite Hitems; split; assumption).
      rewrite (total_e_layers nl _ eps cells (c, r, 0) _ j ([], 0) Hsched Hok Hkey Hbands).
      unfold contrib_acc. apply fold_left_ext'. intros o l. unfold layer_step.
      rewrite (cell_exp_eL c r l Hc Hr), nth_error_map, Hcb. cbn [option_map]. fold b.
      unfold expect_eincl. destruct (b_inc b l); reflexivity.
    - intros dp Hdp Ek. destruct (dp_item dp) as [[[l' r'] c'] p'] eqn:Eit. cbn [item_key] in Ek. injection Ek as -> -> ->.
      destruct (Hpk dp l' r Hdp Eit) as [_ [_ Hf2]]. pose proof (forall2_len _ _ _ Hf2) as Hl2.
      unfold zlen. rewrite Hlen_ord. unfold trip in *. lia.
    - intros dp l' r' c' p' ord' Hdp Eit Ecc Hne' Ho'. subst c'.
      assert (Hin_it : In (l', r', c, p') items) by (rewrite <- Hdpi; rewrite <- Eit; apply in_map; exact Hdp).
      destruct (Hit _ Hin_it) as [l2 [r2 [c2 [E0 [_ [_ [Hr2 _]]]]]]]. injection E0 as El2 Er2 Ec2 Ep2. subst l2 r2 c2 p'.
      destruct (Hpk dp l' r' Hdp Eit) as [_ [Ho2 Hf2]]. rewrite Ho2 in Ho'. injection Ho' as <-.
      split.
      + pose proof (forall2_len _ _ _ Hf2) as Hl2. unfold zlen. rewrite map_length, <- (map_length snd (NEr p (cf c) r')), (NEr_blocks p (cf c) r' Hr2), map_length.
        unfold trip in *. lia.
      + split; [apply NEr_fst_nodup|]. intros i0 _ E. injection E as E _. apply Hne'. rewrite E. reflexivity. }
  unfold delivered. destruct (Z.eqb_spec (snd (contrib_acc b nl)) 0) as [E0|E0].
  - rewrite Hobs. rewrite (surjective_pairing (contrib_acc b nl)), E0, (Hzd E0). reflexivity.
  - (* included in some layer *)
    destruct (aget key2_eqb (gather c (dec_order p) [] dps) (r, i)) as [ci|] eqn:Eg.
    2:{ cbn [obs] in Hobs. rewrite <- Hobs in E0. cbn [snd] in E0. congruence. }
    cbn [obs] in Hobs.
    destruct Hlb as (_ & _ & Hz & _).
    pose proof (gather_static c (dec_order p) dps [] (r, i) (eb_zbp b) ltac:(lia)) as Hgs.
    rewrite Eg in Hgs. cbn [aget] in Hgs. specialize (Hgs I).
    destruct Hgs as [[Hpl Hzs] Hset].
    + (* every write of this key announces the block's zbp and no pass lengths *)
      intros dp t Hdp (l' & r' & p' & ord' & j' & Eit & Ho' & Ht & Hj' & Hti & Ek).
      assert (Hin_it : In (l', r', c, p') items) by (rewrite <- Hdpi; rewrite <- Eit; apply in_map; exact Hdp).
      destruct (Hit _ Hin_it) as [l2 [r2 [c2 [E1 [_ [_ [Hr2 _]]]]]]]. injection E1 as El2 Er2 Ec2 Ep2. subst l2 r2 c2 p'.
      injection Ek as Err Ei. subst r'.
      destruct (Hpk dp l' r Hdp Eit) as [_ [Ho2 Hf2]]. rewrite Ho2 in Ho'. injection Ho' as <-. fold ord in Ei, Hj'.
      assert (j' = j).
      { rewrite <- Enth in Ei. apply (proj1 (NoDup_nth ord 0) Hnd); [exact Hj' | exact Hjl | symmetry; exact Ei]. }
      subst j'. destruct (forall2_nth _ _ _ j cb Hf2 Hcb) as [t' [Ht' [_ Hfl]]]. assert (t' = t) by (unfold trip in *; congruence). subst t'.
      apply Hfl. exact Hti.
    + (* a write exists *)
      destruct Hset as [ci' [Eci Hzset]].
      * destruct (fold_contrib_step b (zseq nl) ([], 0)) as [l [Hl Hil]]; [fold (contrib_acc b nl); cbn [snd]; exact E0|].
        apply in_zrange in Hl.
        assert (Hvl : In l (visits (c, r, 0) items)) by (rewrite (Hvis _ Hkey), Hlf; apply in_zrange; exact Hl).
        unfold visits in Hvl. apply in_flat_map in Hvl as [it [Hit_in Hvl]].
        destruct (key3_eqb (item_key it) (c, r, 0)) eqn:Ek; [|destruct Hvl]. apply key3_eqb_eq in Ek.
        destruct Hvl as [El|[]].
        destruct (Hit _ Hit_in) as [l2 [r2 [c2 [E1 _]]]]. subst it. cbn [item_key item_layer] in Ek, El. injection Ek as -> ->. subst l2.
        rewrite <- Hdpi in Hit_in. apply in_map_iff in Hit_in as [dp [Eit Hdp]].
        destruct (Hpk dp l r Hdp Eit) as [_ [_ Hf2]].
        destruct (forall2_nth _ _ _ j cb Hf2 Hcb) as [t [Ht [[B1 _] _]]].
        exists dp, t. split; [exact Hdp|]. exists l, r, 0, ord, j. repeat split; try assumption.
        -- unfold t_inc. rewrite B1. unfold expect_eincl. fold b. rewrite Hil. reflexivity.
        -- rewrite Enth. reflexivity.
      * injection Eci as <-.
        exists ci. split; [reflexivity|]. rewrite (surjective_pairing (contrib_acc b nl)) in Hobs. injection Hobs as Hd1 Hd2. repeat split; try assumption. apply Hzs. exact Hzset.
Qed.

End LT2.
