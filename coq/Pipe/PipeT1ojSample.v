(* Tier-1 lockstep for the tile decoder's call of the block decoder, part (i): per-sample steps.
   Generalised copy of T1/T1ProofsSample.v.  The encoder codes bit-plane bp (6 <= bp <= 30: the
   coefficients were scaled by 64 and nmseDecFracBits = 6), the decoder runs the SAME pass at
   bit-plane bp - 5 with the OpenJPEG reconstruction (recon_sig true / recon_ref true).  The
   value invariant of a significant sample whose lowest coded plane is P becomes
       d = sgn v * ((2 * (|v| >> P) + 1) * 2 ^ (P - 6))
   (magnitude bits at decoder planes >= P - 5, plus the half bit at plane P - 6). *)
From V Require Import Common.Base T1.T1Store T1.T1Ctx T1.T1Model T1.T1ProofsBase T1.T1ProofsSample.

Definition ojv (v P : Z) : Z := Z.sgn v * ((2 * Z.shiftr (Z.abs v) P + 1) * 2 ^ (P - 6)).

Definition osamp_ok (v : Z) (sg sn : bool) (d P : Z) : Prop :=
  if sg then d = ojv v P /\ sn = (v <? 0) /\ 0 < Z.shiftr (Z.abs v) P
  else d = 0 /\ sn = false /\ Z.shiftr (Z.abs v) P = 0.

(* ---------- arithmetic of the OpenJPEG reconstruction ---------- *)
Lemma shiftr_pow2_1 : forall k, 1 <= k -> Z.shiftr (2 ^ k) 1 = 2 ^ (k - 1).
Proof.
  intros k Hk. rewrite Z.shiftr_div_pow2 by lia. change (2 ^ 1) with 2.
  replace k with (k - 1 + 1) at 1 by lia. rewrite Z.pow_add_r by lia. change (2 ^ 1) with 2.
  apply Z.div_mul. lia.
Qed.

Lemma lor_pow2_half : forall k, 1 <= k -> Z.lor (2 ^ k) (2 ^ (k - 1)) = 3 * 2 ^ (k - 1).
Proof.
  intros k Hk.
  assert (E1 : 2 ^ k = Z.shiftl 2 (k - 1)).
  { rewrite Z.shiftl_mul_pow2 by lia. replace k with (1 + (k - 1)) at 1 by lia.
    rewrite Z.pow_add_r by lia. reflexivity. }
  assert (E2 : 2 ^ (k - 1) = Z.shiftl 1 (k - 1)) by (rewrite Z.shiftl_mul_pow2 by lia; lia).
  rewrite E1. rewrite E2 at 1. rewrite <- Z.shiftl_lor. change (Z.lor 2 1) with 3.
  rewrite Z.shiftl_mul_pow2 by lia. reflexivity.
Qed.

Lemma pow2_split6 : forall bp, 6 <= bp -> 2 ^ bp = 64 * 2 ^ (bp - 6).
Proof.
  intros bp H. replace bp with (6 + (bp - 6)) at 1 by lia. rewrite Z.pow_add_r by lia. reflexivity.
Qed.

Lemma pow2_half_bound : forall bp, 6 <= bp <= 30 -> 0 < 2 ^ (bp - 6) <= 2 ^ 24.
Proof.
  intros bp H. split; [apply Z.pow_pos_nonneg; lia|apply Z.pow_le_mono_r; lia].
Qed.

(* m * 2^bp <= a for m = a >> bp *)
Lemma shiftr_mul_le : forall a bp, 0 <= a -> 0 <= bp -> Z.shiftr a bp * 2 ^ bp <= a.
Proof.
  intros a bp Ha Hbp. rewrite Z.shiftr_div_pow2 by lia.
  assert (0 < 2 ^ bp) by (apply Z.pow_pos_nonneg; lia).
  pose proof (Z.mul_div_le a (2 ^ bp) H). lia.
Qed.

Lemma recon_sig_oj : forall v bp, 6 <= bp <= 30 -> Z.shiftr (Z.abs v) bp = 1 ->
  recon_sig true (bp - 5) (sign_bit v) = ojv v bp.
Proof.
  intros v bp Hbp H1. unfold recon_sig, ojv. rewrite H1, sign_bit_neg.
  rewrite one_shl_pow by lia. rewrite shiftr_pow2_1 by lia. rewrite lor_pow2_half by lia.
  replace (bp - 5 - 1) with (bp - 6) by lia.
  pose proof (pow2_half_bound bp Hbp) as Hh.
  assert (Hv : v <> 0). { intro; subst. cbn in H1. rewrite Z.shiftr_0_l in H1. discriminate. }
  destruct (Z.ltb_spec v 0).
  - rewrite i32_id by lia. rewrite Z.sgn_neg by lia. ring.
  - rewrite Z.sgn_pos by lia. ring.
Qed.

Lemma recon_ref_oj : forall v bp, 6 <= bp <= 30 -> - 2 ^ 31 < v < 2 ^ 31 ->
  0 < Z.shiftr (Z.abs v) (bp + 1) ->
  recon_ref true (ojv v (bp + 1)) (bp - 5) (Z.land (Z.shiftr (Z.abs v) bp) 1) = ojv v bp.
Proof.
  intros v bp Hbp Hv Hpos. unfold recon_ref, ojv.
  rewrite one_shl_pow by lia. rewrite shiftr_pow2_1 by lia.
  replace (bp - 5 - 1) with (bp - 6) by lia. replace (bp + 1 - 6) with (bp - 5) by lia.
  pose proof (pow2_half_bound bp Hbp) as Hh.
  assert (E5 : 2 ^ (bp - 5) = 2 * 2 ^ (bp - 6)).
  { replace (bp - 5) with (1 + (bp - 6)) by lia. rewrite Z.pow_add_r by lia. reflexivity. }
  rewrite E5.
  pose proof (shiftr_split (Z.abs v) bp ltac:(lia)) as Hs.
  pose proof (shiftr_mul_le (Z.abs v) bp ltac:(lia) ltac:(lia)) as Hle.
  rewrite (pow2_split6 bp) in Hle by lia.
  set (hb := 2 ^ (bp - 6)) in *. set (m1 := Z.shiftr (Z.abs v) (bp + 1)) in *.
  set (m := Z.shiftr (Z.abs v) bp) in *. set (b := Z.land m 1) in *.
  assert (Hm : 0 <= m) by (apply shiftr_nonneg; lia).
  assert (Hmh : 64 * (m * hb) <= Z.abs v) by lia.
  assert (Hb01 : 0 <= b <= 1) by (destruct (land1_01 m) as [Eb|Eb]; fold b in Eb; lia).
  assert (Hm1h : 2 * (m1 * hb) <= m * hb).
  { rewrite Hs. assert (0 <= b * hb) by nia. lia. }
  assert (Hm1h0 : 0 < m1 * hb) by nia.
  assert (Hv0 : v <> 0). { intro; subst v. unfold m1 in Hpos. cbn in Hpos. rewrite Z.shiftr_0_l in Hpos. lia. }
  destruct (land1_01 m) as [E|E]; fold b in E; rewrite E in *.
  - change (0 =? 0) with true. cbn [negb].
    destruct (Z_lt_le_dec v 0).
    + rewrite Z.sgn_neg by lia.
      destruct (Z.ltb_spec (-1 * ((2 * m1 + 1) * (2 * hb))) 0); [|nia]. cbn [xorb].
      rewrite i32_id by nia. subst m. nia.
    + rewrite Z.sgn_pos by lia.
      destruct (Z.ltb_spec (1 * ((2 * m1 + 1) * (2 * hb))) 0); [nia|]. cbn [xorb].
      rewrite i32_id by nia. subst m. nia.
  - change (1 =? 0) with false. cbn [negb].
    destruct (Z_lt_le_dec v 0).
    + rewrite Z.sgn_neg by lia.
      destruct (Z.ltb_spec (-1 * ((2 * m1 + 1) * (2 * hb))) 0); [|nia]. cbn [xorb].
      rewrite i32_id by nia. subst m. nia.
    + rewrite Z.sgn_pos by lia.
      destruct (Z.ltb_spec (1 * ((2 * m1 + 1) * (2 * hb))) 0); [nia|]. cbn [xorb].
      rewrite i32_id by nia. subst m. nia.
Qed.

Section Block.
Variables (w h : Z) (V : tree) (orient : Z).
Hypothesis Hw : 0 <= w.
Hypothesis HV : Vbound w h V.

Definition ODInv (F D : tree) (P : Z -> Z -> Z) : Prop :=
  forall x y, inblock w h x y ->
    osamp_ok (fget V (idx_of w x y)) (sigb F (idx_of w x y)) (sgnb F (idx_of w x y)) (fget D (idx_of w x y)) (P x y).

Definition ORfd (P : tree -> Z -> Z -> Z) (Fe : tree) (t : dstate) : Prop :=
  Fe = fst t /\ ODInv Fe (snd t) (P Fe).

Lemma odinv_step : forall F D P F' D' P' x0 y0, inblock w h x0 y0 -> ODInv F D P ->
  self_off F F' (idx_of w x0 y0) ->
  (forall j, Pos.eqb (key j) (key (idx_of w x0 y0)) = false -> fget D' j = fget D j) ->
  (forall x y, inblock w h x y -> (x, y) <> (x0, y0) -> P' x y = P x y) ->
  osamp_ok (fget V (idx_of w x0 y0)) (sigb F' (idx_of w x0 y0)) (sgnb F' (idx_of w x0 y0))
          (fget D' (idx_of w x0 y0)) (P' x0 y0) ->
  ODInv F' D' P'.
Proof.
  intros F D P F' D' P' x0 y0 Hin0 HI Hoff HD HP H0 x y Hin.
  destruct (Z.eq_dec x x0) as [Ex|Ex]; [destruct (Z.eq_dec y y0) as [Ey|Ey]|].
  - subst. exact H0.
  - assert (Hk : Pos.eqb (key (idx_of w x y)) (key (idx_of w x0 y0)) = false).
    { unfold inblock in *. apply key_idx_neq; try lia. congruence. }
    destruct (Hoff _ Hk) as (-> & _ & ->). rewrite (HD _ Hk), HP; [apply HI; exact Hin|exact Hin|congruence].
  - assert (Hk : Pos.eqb (key (idx_of w x y)) (key (idx_of w x0 y0)) = false).
    { unfold inblock in *. apply key_idx_neq; try lia. congruence. }
    destruct (Hoff _ Hk) as (-> & _ & ->). rewrite (HD _ Hk), HP; [apply HI; exact Hin|exact Hin|congruence].
Qed.

Lemma osamp_code_insig : forall v sn d P bp b, 0 <= bp -> (P = bp \/ P = bp + 1) ->
  osamp_ok v false sn d P -> b = Z.land (Z.shiftr (Z.abs v) bp) 1 ->
  (b = 0 -> osamp_ok v false sn d bp) /\
  (b <> 0 -> sn = false /\ Z.shiftr (Z.abs v) bp = 1).
Proof.
  intros v sn d P bp b Hbp HP (Hd & Hsn & Hz) Hb.
  assert (Hz1 : Z.shiftr (Z.abs v) (bp + 1) = 0).
  { destruct HP; subst P; [apply shiftr_mono0; [lia|lia|exact Hz]|exact Hz]. }
  split; intros Hb0.
  - repeat split; auto. apply bit0_shiftr0; [lia|exact Hz1|congruence].
  - split; [exact Hsn|]. apply bit1_shiftr1; [lia|exact Hz1|congruence].
Qed.

(* ---------------------------------------------------------------------------------
   Significance propagation
   --------------------------------------------------------------------------------- *)
Lemma ospp_sample_lockstep : forall bp raw x0 y0, 6 <= bp <= 30 -> inblock w h x0 y0 ->
  lockstep (enc_spp_sample w orient bp raw V x0 y0)
           (dec_spp_sample ideal_ask w orient (bp - 5) raw true x0 y0)
           (ORfd (Pspp w bp)) (ORfd (Pspp w bp)).
Proof.
  intros bp raw x0 y0 Hbp Hin0 Fe [Fd D] [HF HI] tl ps. cbn [fst snd] in HF, HI. subst Fd.
  unfold enc_spp_sample, dec_spp_sample.
  set (i0 := idx_of w x0 y0). set (f := fget Fe i0). set (v := fget V i0).
  destruct (has f T1Sig) eqn:Esig.
  { exists (Fe, D). cbn [fst snd app]. split; [reflexivity|split; auto]. }
  destruct (has f T1SigNeighbors) eqn:Enb; cbn [negb].
  2:{ exists (Fe, D). cbn [fst snd app]. split; [reflexivity|split; auto]. }
  (* the sample is coded *)
  pose proof (HI x0 y0 Hin0) as H0. fold i0 in H0. fold v in H0.
  unfold sigb in H0. fold f in H0. rewrite Esig in H0.
  assert (HP0 : Pspp w bp Fe x0 y0 = bp \/ Pspp w bp Fe x0 y0 = bp + 1).
  { unfold Pspp. destruct (visb Fe (idx_of w x0 y0)); auto. }
  destruct (osamp_code_insig v _ _ _ bp (bit_at v bp) ltac:(lia) HP0 H0 (bit_at_abs w h V HV x0 y0 bp Hin0)) as [Hb0 Hb1].
  set (F1 := orf Fe i0 T1Visit).
  assert (Hoff1 : self_off Fe F1 i0) by apply self_off_orf.
  destruct (orf_visit_at Fe i0 i0 eq_refl) as (Hs1 & Hv1 & Hn1). fold F1 in Hs1, Hv1, Hn1.
  destruct (bit_at v bp =? 0) eqn:Eb.
  - (* insignificant at this plane *)
    apply Z.eqb_eq in Eb.
    exists (F1, D). split.
    + cbn [fst snd app]. unfold mk_sym. destruct raw; rewrite ideal_ask_hit; cbn [obind]; rewrite Eb; reflexivity.
    + cbn [fst]. split; [reflexivity|]. cbn [snd].
      apply (odinv_step Fe D (Pspp w bp Fe) F1 D (Pspp w bp F1) x0 y0 Hin0 HI Hoff1).
      * intros; reflexivity.
      * intros x y Hin Hne. unfold Pspp.
        assert (Hk : Pos.eqb (key (idx_of w x y)) (key i0) = false).
        { unfold inblock in *. apply key_idx_neq; try lia. exact Hne. }
        destruct (Hoff1 _ Hk) as (_ & -> & _). reflexivity.
      * fold i0. fold v. rewrite Hs1, Hn1. unfold Pspp. fold i0. rewrite Hv1.
        unfold sigb. fold f. rewrite Esig. apply Hb0. exact Eb.
  - (* becomes significant *)
    apply Z.eqb_neq in Eb. destruct (Hb1 Eb) as [Hsn0 Hone].
    set (F2 := set_sig F1 w x0 y0 i0 (v <? 0)).
    exists (F2, fset D i0 (recon_sig true (bp - 5) (sign_bit v))). split.
    + cbn [fst snd app]. unfold mk_sym.
      destruct raw; rewrite ideal_ask_hit; cbn [obind];
        (destruct (bit_at v bp =? 0) eqn:Eb'; [apply Z.eqb_eq in Eb'; congruence|]);
        rewrite ideal_ask_hit; cbn [obind]; rewrite ?lxor_cancel, sign_bit_neg; reflexivity.
    + cbn [fst]. split; [reflexivity|]. cbn [snd].
      assert (Hoff2 : self_off Fe F2 i0).
      { eapply self_off_trans; [exact Hoff1|]. apply self_off_set_sig. }
      destruct (set_sig_at F1 w x0 y0 i0 (v <? 0) i0 eq_refl) as (Hs2 & Hv2 & Hn2). fold F2 in Hs2, Hv2, Hn2.
      apply (odinv_step Fe D (Pspp w bp Fe) F2 _ (Pspp w bp F2) x0 y0 Hin0 HI Hoff2).
      * intros j Hj. apply fset_D_other. exact Hj.
      * intros x y Hin Hne. unfold Pspp.
        assert (Hk : Pos.eqb (key (idx_of w x y)) (key i0) = false).
        { unfold inblock in *. apply key_idx_neq; try lia. exact Hne. }
        destruct (Hoff2 _ Hk) as (_ & -> & _). reflexivity.
      * fold i0. fold v. rewrite Hs2, Hn2, Hn1. unfold Pspp. fold i0. rewrite Hv2, Hv1.
        rewrite fget_fset_same. unfold osamp_ok.
        split; [apply recon_sig_oj; [lia|exact Hone]|].
        split; [rewrite Hsn0; reflexivity|lia].
Qed.

(* ---------------------------------------------------------------------------------
   Magnitude refinement
   --------------------------------------------------------------------------------- *)
Lemma omrp_sample_lockstep : forall bp raw s x0 dy, 6 <= bp <= 30 -> 0 <= dy < 4 -> inblock w h x0 (4 * s + dy) ->
  lockstep (enc_mrp_sample w bp raw V x0 (4 * s + dy))
           (dec_mrp_sample ideal_ask w (bp - 5) raw true x0 (4 * s + dy))
           (ORfd (Pmrp w bp s x0 dy)) (ORfd (Pmrp w bp s x0 (dy + 1))).
Proof.
  intros bp raw s x0 dy Hbp Hdy Hin0 Fe [Fd D] [HF HI] tl ps. cbn [fst snd] in HF, HI. subst Fd.
  unfold enc_mrp_sample, dec_mrp_sample.
  set (y0 := 4 * s + dy) in *. set (i0 := idx_of w x0 y0). set (f := fget Fe i0). set (v := fget V i0).
  pose proof (HI x0 y0 Hin0) as H0. fold i0 in H0. fold v in H0.
  destruct (negb (has f T1Sig) || has f T1Visit) eqn:Eskip.
  - (* skipped: the plane map of this sample does not depend on doneness *)
    exists (Fe, D). cbn [fst snd app]. split; [reflexivity|]. split; [reflexivity|]. cbn [snd].
    intros x y Hin. specialize (HI x y Hin). unfold Pmrp in *.
    destruct (Z.eq_dec x x0) as [Ex|Ex]; [destruct (Z.eq_dec y y0) as [Ey|Ey]|].
    + subst x y. fold i0 in HI |- *. unfold sigb, visb in *. fold f in HI |- *.
      destruct (has f T1Sig); cbn [negb orb andb] in *; [|exact HI].
      rewrite Eskip in *. exact HI.
    + rewrite doneb_step_other; [exact HI|exact Hdy|]. fold y0. congruence.
    + rewrite doneb_step_other; [exact HI|exact Hdy|]. fold y0. congruence.
  - apply orb_false_iff in Eskip. destruct Eskip as [Es Ev]. apply negb_false_iff in Es.
    unfold sigb in H0. fold f in H0. rewrite Es in H0.
    unfold Pmrp in H0. fold i0 in H0. unfold visb, sigb in H0. fold f in H0. rewrite Es, Ev in H0.
    unfold y0 in H0 at 1. rewrite doneb_at_cursor in H0 by exact Hdy. cbn [orb andb] in H0.
    destruct H0 as (Hd & Hsn & Hpos).
    set (F1 := orf Fe i0 T1Refine). set (b := bit_at v bp).
    exists (F1, fset D i0 (recon_ref true (fget D i0) (bp - 5) b)). split.
    + cbn [fst snd app]. unfold mk_sym. destruct raw; rewrite ideal_ask_hit; cbn [obind]; reflexivity.
    + cbn [fst]. split; [reflexivity|]. cbn [snd].
      assert (Hself : forall j, sigb F1 j = sigb Fe j /\ visb F1 j = visb Fe j /\ sgnb F1 j = sgnb Fe j)
        by (intro j; apply orf_refine_self).
      assert (Hoff1 : self_off Fe F1 i0) by (intros j _; apply Hself).
      apply (odinv_step Fe D (Pmrp w bp s x0 dy Fe) F1 _ (Pmrp w bp s x0 (dy + 1) F1) x0 y0 Hin0 HI Hoff1).
      * intros j Hj. apply fset_D_other. exact Hj.
      * intros x y Hin Hne. unfold Pmrp.
        destruct (Hself (idx_of w x y)) as (-> & -> & _).
        rewrite doneb_step_other; [reflexivity|exact Hdy|exact Hne].
      * fold i0. fold v. destruct (Hself i0) as (Hs1 & Hv1 & Hn1). rewrite Hs1, Hn1.
        unfold Pmrp. fold i0. rewrite Hs1, Hv1. unfold sigb, visb. fold f. rewrite Es, Ev.
        unfold y0. rewrite doneb_after_cursor by exact Hdy. cbn [orb andb].
        rewrite fget_fset_same. unfold osamp_ok. rewrite Hd. unfold b.
        replace (bit_at v bp) with (Z.land (Z.shiftr (Z.abs v) bp) 1) by (symmetry; apply (bit_at_abs w h V HV x0 y0 bp Hin0)).
        split; [apply recon_ref_oj; [lia|apply (HV x0 y0 Hin0)|exact Hpos]|].
        split; [exact Hsn|]. apply shiftr_pos_down; [lia|lia|exact Hpos].
Qed.

(* ---------------------------------------------------------------------------------
   Cleanup
   --------------------------------------------------------------------------------- *)
Definition ORcup (bp s x0 dy : Z) (se : tree * bool) (t : dstate * bool) : Prop :=
  fst se = fst (fst t) /\ snd se = snd t /\ ODInv (fst se) (snd (fst t)) (Pcup w bp s x0 dy (fst se)) /\
  (snd se = true ->
     visb (fst se) (idx_of w x0 (4 * s + dy)) = false /\ sigb (fst se) (idx_of w x0 (4 * s + dy)) = false /\
     bit_at (fget V (idx_of w x0 (4 * s + dy))) bp <> 0).

Lemma ocup_sample_lockstep : forall bp s x0 dy, 6 <= bp <= 30 -> 0 <= dy < 4 -> inblock w h x0 (4 * s + dy) ->
  lockstep (enc_cup_sample w orient bp V x0 (4 * s + dy))
           (dec_cup_sample ideal_ask w orient (bp - 5) true x0 (4 * s + dy))
           (ORcup bp s x0 dy) (ORcup bp s x0 (dy + 1)).
Proof.
  intros bp s x0 dy Hbp Hdy Hin0 [Fe pe] [[Fd D] pd] (HF & Hp & HI & Hpart) tl ps.
  cbn [fst snd] in HF, Hp, HI, Hpart. subst Fd pd.
  unfold enc_cup_sample, dec_cup_sample.
  set (y0 := 4 * s + dy) in *. set (i0 := idx_of w x0 y0) in *. set (f := fget Fe i0). set (v := fget V i0) in *.
  pose proof (HI x0 y0 Hin0) as H0. fold i0 in H0. fold v in H0.
  destruct (has f T1Visit || has f T1Sig) eqn:Eskip.
  - (* already coded in this plane: only the Visit flag is cleared *)
    assert (Hpe : pe = false).
    { destruct pe; [|reflexivity]. destruct (Hpart eq_refl) as (Hv & Hs & _).
      unfold visb, sigb in Hv, Hs. fold f in Hv, Hs. rewrite Hv, Hs in Eskip. discriminate. }
    subst pe. set (F1 := clrf Fe i0 T1Visit).
    exists ((F1, D), false). cbn [fst snd app]. split; [reflexivity|].
    split; [reflexivity|]. split; [reflexivity|]. split; [|discriminate].
    assert (Hoff1 : self_off Fe F1 i0) by apply self_off_clrf.
    destruct (clrf_visit_at Fe i0 i0 eq_refl) as (Hs1 & Hv1 & Hn1). fold F1 in Hs1, Hv1, Hn1.
    apply (odinv_step Fe D (Pcup w bp s x0 dy Fe) F1 D (Pcup w bp s x0 (dy + 1) F1) x0 y0 Hin0 HI Hoff1).
    + intros; reflexivity.
    + intros x y Hin Hne. unfold Pcup.
      assert (Hk : Pos.eqb (key (idx_of w x y)) (key i0) = false).
      { unfold inblock in *. apply key_idx_neq; try lia. exact Hne. }
      destruct (Hoff1 _ Hk) as (-> & -> & _).
      rewrite doneb_step_other; [reflexivity|exact Hdy|exact Hne].
    + fold i0. fold v. rewrite Hs1, Hn1. unfold Pcup. unfold y0. rewrite doneb_after_cursor by exact Hdy.
      assert (HP : Pcup w bp s x0 dy Fe x0 y0 = bp).
      { unfold Pcup. unfold y0. rewrite doneb_at_cursor by exact Hdy. fold y0. fold i0.
        unfold visb, sigb. fold f. rewrite Eskip. reflexivity. }
      rewrite HP in H0. exact H0.
  - apply orb_false_iff in Eskip. destruct Eskip as [Ev Es].
    assert (HP : Pcup w bp s x0 dy Fe x0 y0 = bp + 1).
    { unfold Pcup. unfold y0. rewrite doneb_at_cursor by exact Hdy. fold y0. fold i0.
      unfold visb, sigb. fold f. rewrite Ev, Es. reflexivity. }
    rewrite HP in H0. unfold sigb in H0. fold f in H0. rewrite Es in H0.
    destruct (osamp_code_insig v _ _ _ bp (bit_at v bp) ltac:(lia) (or_intror eq_refl) H0 (bit_at_abs w h V HV x0 y0 bp Hin0)) as [Hb0 Hb1].
    (* the value of the coded bit: 1 when partial (and then the data bit is 1 too) *)
    set (b := if pe then 1 else bit_at v bp).
    assert (Hbz : b = 0 -> bit_at v bp = 0).
    { unfold b. destruct pe; [discriminate|auto]. }
    assert (Hbnz : b <> 0 -> bit_at v bp <> 0).
    { unfold b. destruct pe; [intros _; apply (Hpart eq_refl)|auto]. }
    destruct (b =? 0) eqn:Eb.
    + apply Z.eqb_eq in Eb. set (F1 := clrf Fe i0 T1Visit).
      exists ((F1, D), false). split.
      * cbn [fst snd]. unfold b in Eb. destruct pe; [discriminate|].
        subst b. cbn [app]. rewrite ideal_ask_hit. cbn [obind]. fold v. rewrite Eb. reflexivity.
      * cbn [fst snd]. split; [reflexivity|]. split; [reflexivity|]. split; [|discriminate].
        assert (Hoff1 : self_off Fe F1 i0) by apply self_off_clrf.
        destruct (clrf_visit_at Fe i0 i0 eq_refl) as (Hs1 & Hv1 & Hn1). fold F1 in Hs1, Hv1, Hn1.
        apply (odinv_step Fe D (Pcup w bp s x0 dy Fe) F1 D (Pcup w bp s x0 (dy + 1) F1) x0 y0 Hin0 HI Hoff1).
        -- intros; reflexivity.
        -- intros x y Hin Hne. unfold Pcup.
           assert (Hk : Pos.eqb (key (idx_of w x y)) (key i0) = false).
           { unfold inblock in *. apply key_idx_neq; try lia. exact Hne. }
           destruct (Hoff1 _ Hk) as (-> & -> & _).
           rewrite doneb_step_other; [reflexivity|exact Hdy|exact Hne].
        -- fold i0. fold v. rewrite Hs1, Hn1. unfold Pcup. unfold y0. rewrite doneb_after_cursor by exact Hdy.
           unfold sigb. fold f. rewrite Es. apply Hb0. apply Hbz. exact Eb.
    + apply Z.eqb_neq in Eb. destruct (Hb1 (Hbnz Eb)) as [Hsn0 Hone].
      set (F2 := set_sig Fe w x0 y0 i0 (v <? 0)). set (F3 := clrf F2 i0 T1Visit).
      exists ((F3, fset D i0 (recon_sig true (bp - 5) (sign_bit v))), false). split.
      * cbn [fst snd]. unfold b in Eb. destruct pe; subst b.
        -- cbn [app obind]. change (1 =? 0) with false. cbv iota.
           rewrite ideal_ask_hit. cbn [obind]. rewrite lxor_cancel, sign_bit_neg. reflexivity.
        -- cbn [app]. rewrite ideal_ask_hit. cbn [obind]. fold v.
           destruct (bit_at v bp =? 0) eqn:Eb'; [apply Z.eqb_eq in Eb'; congruence|].
           rewrite ideal_ask_hit. cbn [obind]. rewrite lxor_cancel, sign_bit_neg. reflexivity.
      * cbn [fst snd]. split; [reflexivity|]. split; [reflexivity|]. split; [|discriminate].
        assert (Hoff3 : self_off Fe F3 i0).
        { eapply self_off_trans; [apply self_off_set_sig|apply self_off_clrf]. }
        destruct (set_sig_at Fe w x0 y0 i0 (v <? 0) i0 eq_refl) as (Hs2 & Hv2 & Hn2). fold F2 in Hs2, Hv2, Hn2.
        destruct (clrf_visit_at F2 i0 i0 eq_refl) as (Hs3 & Hv3 & Hn3). fold F3 in Hs3, Hv3, Hn3.
        apply (odinv_step Fe D (Pcup w bp s x0 dy Fe) F3 _ (Pcup w bp s x0 (dy + 1) F3) x0 y0 Hin0 HI Hoff3).
        -- intros j Hj. apply fset_D_other. exact Hj.
        -- intros x y Hin Hne. unfold Pcup.
           assert (Hk : Pos.eqb (key (idx_of w x y)) (key i0) = false).
           { unfold inblock in *. apply key_idx_neq; try lia. exact Hne. }
           destruct (Hoff3 _ Hk) as (-> & -> & _).
           rewrite doneb_step_other; [reflexivity|exact Hdy|exact Hne].
        -- fold i0. fold v. rewrite Hs3, Hn3, Hs2, Hn2. unfold Pcup. unfold y0. rewrite doneb_after_cursor by exact Hdy.
           cbn [fst snd]. rewrite fget_fset_same. unfold osamp_ok.
           split; [apply recon_sig_oj; [lia|exact Hone]|].
           split; [rewrite Hsn0; reflexivity|lia].
Qed.

End Block.
