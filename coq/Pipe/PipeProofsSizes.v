(* pipe: what is known about hyp_block_sizes (no code-block codes to more than 65535 bytes).

   (1) MQ level (MqProofsSizePot): 21 * bytes <= 17 * decisions + 42 + Phi(start contexts), and the
       T1 start contexts have potential 0.  Hence a codeword of at most 80953 decisions fits 65535
       bytes (mq_block_fits).
   (2) Pipeline level: hyp_block_sizes follows from the purely combinatorial hypothesis
       hyp_block_decisions (every code-block's T1 output is the MQ codeword of at most 80953
       decisions over the T1 start contexts): pipe_block_sizes_from_decisions, and the round trip
       under that hypothesis: pipe_roundtrip_decisions.
   NOT proved: the decision count of the T1 coder.  Per bit-plane every sample is coded in exactly
   one of the three passes (one zero-coding or refinement decision), a sign is coded once per
   sample, and the run-length mode of the cleanup pass adds at most 3 decisions (one run-length,
   two UNIFORM) per column of four; so decisions <= samples * (7/4 * planes + 1)
   (t1_decision_count_statement).  With that lemma hyp_block_sizes would be a theorem
     - for every code-block of at most 1024 samples (32x32, 64x16, ...) over the whole scope
       (<= 25 planes: 1024 * 44.75 = 45824 decisions), and
     - for 64x64 blocks with at most 10 magnitude bit-planes (4096 * 18.5 = 75776), e.g. precision
       <= 8 with at most one decomposition level;
   for 64x64 blocks with 11..25 planes the state-only potential (17/21 byte per decision, optimal for
   such a potential) is not enough, although no block anywhere near the limit exists in practice:
   harness/cmd/vh-blocksize (the Go T1 encoder on random and hill-climbed 64x64 blocks with 8..25
   planes) never exceeded 1.03 x the raw size (13703 bytes at 25 planes). *)
From V Require Import Common.Base MQ.MqModel MQ.MqProofs MQ.MqProofsSize MQ.MqProofsSizePot
  T1.T1Model T1.T1Bytes T1.T1ProofsComp J2KGeo.GeoModel T2.T2Header T2.T2Packets
  Pipe.PipeModel Pipe.PipeProofsFront Pipe.PipeProofsMain.

Lemma cx0_potential : Phi cx0 = 0.
Proof. vm_compute. reflexivity. Qed.

Theorem mq_block_fits : forall l, zlen l <= 80953 -> zlen (mq_encode_cx cx0 l) <= 65535.
Proof.
  intros l Hl. pose proof (mq_output_size_pot_cx cx0 l cx0_ok) as H. rewrite cx0_potential in H. lia.
Qed.

(* the number of decisions is what matters, not their content *)
Theorem mq_block_bytes_by_decisions : forall l, 21 * zlen (mq_encode_cx cx0 l) <= 17 * zlen l + 42.
Proof.
  intros l. pose proof (mq_output_size_pot_cx cx0 l cx0_ok) as H. rewrite cx0_potential in H. lia.
Qed.

Definition t1_decisions_max : Z := 80953.

(* the T1 output of a block is the codeword of at most N decisions over the start contexts *)
Definition block_decisions_le (N : Z) (wn hn : nat) (orient np : Z) (data : list Z) : Prop :=
  forall bytes, enc_plain wn hn orient 0 6 np data = Ok bytes ->
  exists l, bytes = mq_encode_cx cx0 l /\ zlen l <= N.

Section Sizes.
Variable p : pparams.

Definition hyp_block_decisions (pix : list Z) : Prop :=
  forall coeffs, pipe_coeffs p pix = Ok coeffs ->
  forall d, In d coeffs -> forall r cb, In (r, cb) (enc_blocks p d) ->
  let data := map (fun v => i32 (Z.shiftl v 6)) (cb_data cb) in
  let cblk := cblk_numbps data in
  block_decisions_le t1_decisions_max (Z.to_nat (cb_w cb)) (Z.to_nat (cb_h cb)) (cb_band cb)
    (if cblk >? 0 then cblk * 3 - 2 else 1) data.

Theorem pipe_block_sizes_from_decisions : forall pix, hyp_block_decisions pix -> hyp_block_sizes p pix.
Proof.
  intros pix H coeffs Ec d Hd r cb Hin b He.
  specialize (H coeffs Ec d Hd r cb Hin). cbv zeta in H.
  unfold enc_code_block in He. cbv zeta in He.
  set (data := map (fun v => i32 (Z.shiftl v 6)) (cb_data cb)) in *.
  set (np := if cblk_numbps data >? 0 then cblk_numbps data * 3 - 2 else 1) in *.
  destruct (enc_plain (Z.to_nat (cb_w cb)) (Z.to_nat (cb_h cb)) (cb_band cb) 0 6 np data) as [bytes| | |] eqn:Ee;
    try discriminate; injection He as <-; unfold mk_eblock; cbn [eb_data].
  - destruct (H bytes Ee) as [l [-> Hl]]. apply mq_block_fits. exact Hl.
  - cbn. lia.
Qed.

End Sizes.

Theorem pipe_roundtrip_decisions : forall p, pp_scope p -> forall samples, samples_ok p samples ->
  let pix := pack_image p samples in
  hyp_block_decisions p pix ->
  exists tile, pipe_encode_tile p pix = Ok tile /\ pipe_decode_tile p tile = Ok pix.
Proof.
  intros p Hsc samples Hsm pix H.
  exact (pipe_roundtrip_partial p Hsc samples Hsm (pipe_block_sizes_from_decisions p pix H)).
Qed.

(* ---------- open ---------- *)
(* the decision count of the T1 coder (NOT proved; see the head of the file) *)
Definition t1_decision_count_statement : Prop :=
  forall (wn hn : nat) (orient : Z) (cs : list Z),
    length cs = (wn * hn)%nat -> (forall c, In c cs -> - 2 ^ 25 < c < 2 ^ 25) ->
    let data := map (fun c => c * 64) cs in
    let n := find_max_bitplane data + 1 - 6 in
    0 < n ->
    block_decisions_le (Z.of_nat (wn * hn) * (7 * n + 4) / 4) wn hn orient (n * 3 - 2) data.

(* the full statement: hyp_block_sizes over the whole scope (NOT proved, NOT refuted) *)
Definition pipe_block_sizes_statement : Prop :=
  forall p samples, pp_scope p -> samples_ok p samples -> hyp_block_sizes p (pack_image p samples).
