(* pipe (layers), part 7': the precinct store after buildTilePacketEncoderAt on the layered path. *)
From V Require Import Common.Base J2KGeo.GeoModel J2KGeo.GeoProofsBlocks T2.T2Header T2.T2Packets T2.T2ProofsPackets1 T2.T2ProofsHeader
  Pipe.PipeModel Pipe.PipeProofsFront Pipe.PipeProofsLists Pipe.PipeProofsStore Pipe.PipeProofsGeo
  Pipe.PipeProofsBlock Pipe.PipeCellRel Pipe.PipeLCellRel Pipe.PipeProofsEnc Pipe.PipeLEnc Pipe.PipeProofsCells
  Pipe.PipeLBlockDomain Pipe.PipeLBlock.

Section LCells.
Variable p : pparams.
Hypothesis Hsc : pp_scope p.
Variable nl : Z.
Hypothesis Hnl : 2 <= nl.
Variable alloc : Z -> bkey -> list Z.
Hypothesis Halloc : forall c k, row_ok nl (alloc c k).
Variable coeffs : list (list Z).
Hypothesis Hnc : length coeffs = Z.to_nat (pp_nc p).
Hypothesis Hlen : forall d, In d coeffs -> zlen d = pp_w p * pp_h p.
Hypothesis Hbound : forall d, In d coeffs -> forall v, In v d -> - 2 ^ 25 < v < 2 ^ 25.
(* no code-block compresses to more than 65535 bytes (stated on the one-layer block: same bytes) *)
Hypothesis Hsize : forall d, In d coeffs -> forall r cb, In (r, cb) (enc_blocks p d) ->
  forall b0, enc_code_block p r cb (cb_cbx cb) (cb_cby cb) = Ok b0 -> zlen (eb_data b0) <= 65535.

Let L := pp_levels p.

(* the block encodeLayeredCodeBlock + finalizeBlock produce for block (r, cb) of component c *)
Definition mkL (c r : Z) (cb : cblock) : eblock :=
  match enc_code_block_layers p nl (alloc c (r, cb_band cb, cb_cbx cb, cb_cby cb)) r cb (cb_cbx cb) (cb_cby cb) with
  | Ok b => b | _ => mk_eblock 0 0 0 [] 0 end.

Lemma mkL_spec : forall c d r cb, In d coeffs -> In (r, cb) (enc_blocks p d) ->
  enc_code_block_layers p nl (alloc c (r, cb_band cb, cb_cbx cb, cb_cby cb)) r cb (cb_cbx cb) (cb_cby cb) = Ok (mkL c r cb) /\
  eb_cbx (mkL c r cb) = cb_cbx cb /\ eb_cby (mkL c r cb) = cb_cby cb /\ layered_block nl (mkL c r cb) /\
  (forall l, zlen (b_data (mkL c r cb) l) <= 65535) /\
  0 <= snd (contrib_acc (mkL c r cb) nl) /\ (snd (contrib_acc (mkL c r cb) nl) = 0 -> fst (contrib_acc (mkL c r cb) nl) = []) /\
  forall m idx, delivered nl (mkL c r cb) (aget key2_eqb m (r, idx)) ->
    dec_code_block p m idx (r, cell_of_block cb) =
      Ok (cb_gx0 cb, cb_gy0 cb, cb_gx0 cb + cb_w cb, cb_gy0 cb + cb_h cb, cb_data cb).
Proof.
  intros c d r cb Hd Hin.
  destruct (block_facts p Hsc d (Hlen d Hd) (Hbound d Hd) r cb Hin) as (Hv & Hco & Hb & _).
  destruct (enc_code_block_layers_spec p (HP p Hsc) nl Hnl (alloc c (r, cb_band cb, cb_cbx cb, cb_cby cb)) r cb (cb_cbx cb) (cb_cby cb)
              Hv Hco (Halloc _ _) (Hsize d Hd r cb Hin)) as [b [E [F1 [F2 [F3 [F4 [F5 [F5' F6]]]]]]]].
  unfold mkL. rewrite E. split; [reflexivity|]. repeat (split; [assumption|]).
  intros m idx Hdel. unfold cell_of_block. apply (F6 m idx (cb_gx0 cb) (cb_gy0 cb) Hb Hdel).
Qed.

Lemma enc_one_block_layers_ok : forall c d r cb, In d coeffs -> In (r, cb) (enc_blocks p d) ->
  enc_one_block_layers p nl (alloc c) (r, cb) = Ok (r, 0, cb_band cb, mkL c r cb).
Proof.
  intros c d r cb Hd Hin. destruct (block_facts p Hsc d (Hlen d Hd) (Hbound d Hd) r cb Hin) as (_ & _ & _ & Hx & Hy & Hx0 & Hy0).
  destruct (cb_range p Hsc) as [Cw Ch].
  unfold enc_one_block_layers.
  assert (Epi : enc_precinct_index p (cb_cbx cb * pp_cbw p) (cb_cby cb * pp_cbh p) r = 0).
  { unfold enc_precinct_index, prec_sz. rewrite (Z.quot_small (cb_cbx cb * pp_cbw p)), (Z.quot_small (cb_cby cb * pp_cbh p)) by lia. lia. }
  rewrite Epi. unfold prec_sz. rewrite (Z.quot_small (cb_cbx cb * pp_cbw p)), (Z.quot_small (cb_cby cb * pp_cbh p)) by lia.
  rewrite !Z.mul_0_l, !Z.sub_0_r. rewrite !Z.quot_mul by lia.
  destruct (mkL_spec c d r cb Hd Hin) as [E _]. rewrite E. reflexivity.
Qed.

Definition groupsL (c : Z) (d : list Z) : list group := comp_groups p d (mkL c).

Lemma enc_add_comps_layers_spec : forall ds comp cells,
  (forall d, In d ds -> In d coeffs) ->
  (forall i d g, nth_error ds i = Some d -> In g (groupsL (comp + Z.of_nat i) d) -> cget cells (comp + Z.of_nat i, fst g, 0) = []) ->
  exists cells', enc_add_comps_layers p nl alloc comp cells ds = Ok cells' /\
    (forall i d g, nth_error ds i = Some d -> In g (groupsL (comp + Z.of_nat i) d) ->
       cget cells' (comp + Z.of_nat i, fst g, 0) = group_bands g) /\
    (forall k, (forall i d g, nth_error ds i = Some d -> In g (groupsL (comp + Z.of_nat i) d) -> k <> (comp + Z.of_nat i, fst g, 0)) ->
       cget cells' k = cget cells k) /\
    (cells_norm cells -> cells_norm cells') /\ (keys0 cells -> keys0 cells').
Proof.
  induction ds as [|d ds IH]; intros comp cells Hsub Hemp.
  - exists cells. cbn [enc_add_comps_layers]. split; [reflexivity|]. split; [intros i d g Hi; destruct i; discriminate|]. repeat split; auto.
  - cbn [enc_add_comps_layers].
    assert (Hd : In d coeffs) by (apply Hsub; left; reflexivity).
    rewrite (enc_comp_ok p d (enc_one_block_layers p nl (alloc comp)) (mkL comp)) by (intros r cb Hin; apply (enc_one_block_layers_ok comp d r cb Hd Hin)).
    cbn [obind]. fold (groupsL comp d).
    set (cells1 := add_blocks comp cells (comp_adds (groupsL comp d))).
    destruct (comp_groups_ok p d (mkL comp)) as [Hnd Hok].
    destruct (comp_adds_spec (groupsL comp d) cells comp Hnd Hok) as [A [B [C D]]].
    { intros g Hg. specialize (Hemp 0%nat d g eq_refl). rewrite Z.add_0_r in Hemp. apply Hemp. exact Hg. }
    cbv zeta in A, B, C, D. fold cells1 in A, B, C, D.
    destruct (IH (comp + 1) cells1) as [cells' [E [I1 [I2 [I3 I4]]]]].
    { intros d' Hd'. apply Hsub. right. exact Hd'. }
    { intros i d' g Hi Hg. rewrite B.
      - specialize (Hemp (S i) d' g Hi). replace (comp + 1 + Z.of_nat i) with (comp + Z.of_nat (S i)) by lia.
        apply Hemp. replace (comp + Z.of_nat (S i)) with (comp + 1 + Z.of_nat i) by lia. exact Hg.
      - intros g0 _ E0. injection E0 as E0 _. lia. }
    exists cells'. split; [exact E|]. split; [|split; [|split]].
    + intros [|i] d' g Hi Hg; cbn [nth_error] in Hi.
      * injection Hi as <-. rewrite Z.add_0_r in Hg |- *. rewrite I2; [apply A; exact Hg|].
        intros i d2 g2 _ _ E0. injection E0 as E0 _. lia.
      * replace (comp + Z.of_nat (S i)) with (comp + 1 + Z.of_nat i) in Hg |- * by lia. apply (I1 i d' g Hi Hg).
    + intros k Hk. rewrite I2.
      * apply B. intros g Hg. specialize (Hk 0%nat d g eq_refl). rewrite Z.add_0_r in Hk. apply Hk. exact Hg.
      * intros i d' g Hi Hg. specialize (Hk (S i) d' g Hi). replace (comp + 1 + Z.of_nat i) with (comp + Z.of_nat (S i)) by lia.
        apply Hk. replace (comp + Z.of_nat (S i)) with (comp + 1 + Z.of_nat i) by lia. exact Hg.
    + intros Hn. apply I3, C, Hn.
    + intros Hk. apply I4, D, Hk.
Qed.

Let cf := coef coeffs.

Lemma pipe_cells_layers_spec : exists cells, pipe_cells_layers p nl alloc coeffs = Ok cells /\ cells_norm cells /\ keys0 cells /\
  (forall c r, 0 <= c < pp_nc p -> 0 <= r <= L ->
     cget cells (c, r, 0) = map bs_eband (res_specs p (cf c) (mkL c) r)) /\
  (forall c r pi, ~ (0 <= c < pp_nc p /\ 0 <= r <= L /\ pi = 0) -> cget cells (c, r, pi) = []).
Proof.
  destruct (enc_add_comps_layers_spec coeffs 0 []) as [cells [E [A [B [C D]]]]]; [auto | intros; reflexivity|].
  exists cells. split; [exact E|]. split; [apply C, norm_nil|]. split; [apply D; constructor|]. split.
  - intros c r Hc Hr.
    assert (Hi : nth_error coeffs (Z.to_nat c) = Some (cf c)) by (unfold cf, coef; apply nth_error_nth'; lia).
    assert (Hg : In (res_group p (cf c) (mkL c) r) (groupsL c (cf c))).
    { unfold groupsL, comp_groups. apply in_map. apply GeoProofsBlocks.in_zrange. fold L. lia. }
    specialize (A (Z.to_nat c) (cf c) (res_group p (cf c) (mkL c) r) Hi).
    replace (0 + Z.of_nat (Z.to_nat c)) with c in A by lia. specialize (A Hg). cbn [res_group fst] in A.
    rewrite A. apply (group_bands_specs p (cf c) (mkL c)); [|fold L; exact Hr].
    intros r' cb Hin. destruct (mkL_spec c (cf c) r' cb (coef_in p coeffs Hnc c Hc) Hin) as [_ [X [Y _]]]. split; assumption.
  - intros c r pi Hout. rewrite B; [reflexivity|].
    intros i d g Hi Hg E0. apply Hout.
    assert (Hil : (i < length coeffs)%nat) by (apply nth_error_Some; congruence).
    unfold groupsL, comp_groups in Hg. apply in_map_iff in Hg as [r' [<- Hr']]. apply GeoProofsBlocks.in_zrange in Hr'.
    cbn [res_group fst] in E0. injection E0 as -> -> ->. fold L in Hr'. lia.
Qed.

End LCells.
