(* pipe, part 2: PacketEncoder.AddCodeBlock as a fold - what the precinct store holds after the
   blocks of bands / resolutions / components have been added in encoder order. *)
From V Require Import Common.Base T2.T2TagTree T2.T2Header T2.T2Packets T2.T2ProofsPackets1 Pipe.PipeModel.

(* ---------- one Precinct list (one cell) ---------- *)

Definition has_band (bs : list eband) (bid : Z) : bool := existsb (fun q => ebn_band q =? bid) bs.

Definition maxp1 (l : list Z) : Z := fold_left (fun m v => if v + 1 >? m then v + 1 else m) l 0.

Definition band_of (bid : Z) (bl : list eblock) : eband :=
  {| ebn_band := bid; ebn_w := maxp1 (map eb_cbx bl); ebn_h := maxp1 (map eb_cby bl);
     ebn_blocks := bl; ebn_trees := None |}.

Lemma add_to_bands_new : forall bs bid b, has_band bs bid = false ->
  add_to_bands bs bid b = bs ++ [band_of bid [b]].
Proof.
  induction bs as [|q bs IH]; intros bid b H.
  - reflexivity.
  - cbn [has_band existsb] in H. apply orb_false_iff in H as [Hq Hr]. cbn [add_to_bands]. rewrite Hq.
    cbn [app]. f_equal. apply IH. exact Hr.
Qed.

Lemma maxp1_snoc : forall l v, maxp1 (l ++ [v]) = if v + 1 >? maxp1 l then v + 1 else maxp1 l.
Proof. intros l v. unfold maxp1. rewrite fold_left_app. reflexivity. Qed.

Lemma add_to_bands_last : forall bs bid pre b, has_band bs bid = false ->
  add_to_bands (bs ++ [band_of bid pre]) bid b = bs ++ [band_of bid (pre ++ [b])].
Proof.
  induction bs as [|q bs IH]; intros bid pre b H.
  - cbn [app add_to_bands band_of ebn_band ebn_w ebn_h ebn_blocks ebn_trees]. rewrite Z.eqb_refl.
    unfold band_of. rewrite !map_app. cbn [map]. rewrite !maxp1_snoc. reflexivity.
  - cbn [has_band existsb] in H. apply orb_false_iff in H as [Hq Hr]. cbn [app add_to_bands]. rewrite Hq.
    f_equal. apply IH. exact Hr.
Qed.

(* all blocks of one band, added one after the other *)
Lemma fold_band : forall bl bs bid, has_band bs bid = false -> bl <> [] ->
  fold_left (fun acc b => add_to_bands acc bid b) bl bs = bs ++ [band_of bid bl].
Proof.
  intros bl bs bid H Hne. destruct bl as [|b0 bl]; [congruence|]. cbn [fold_left].
  rewrite add_to_bands_new by exact H.
  assert (G : forall bl pre, fold_left (fun acc b => add_to_bands acc bid b) bl (bs ++ [band_of bid pre]) =
                             bs ++ [band_of bid (pre ++ bl)]).
  { induction bl0 as [|b bl0 IH]; intros pre; cbn [fold_left]; [rewrite app_nil_r; reflexivity|].
    rewrite add_to_bands_last by exact H. rewrite IH, <- app_assoc. reflexivity. }
  apply (G bl [b0]).
Qed.

Lemma has_band_app : forall a b bid, has_band (a ++ b) bid = has_band a bid || has_band b bid.
Proof. intros. unfold has_band. apply existsb_app. Qed.

(* all bands of one cell: (band id, blocks) in order, ids distinct, every block list non-empty *)
Definition cell_adds (l : list (Z * list eblock)) : list (Z * eblock) :=
  flat_map (fun x => map (fun b => (fst x, b)) (snd x)) l.

Lemma fold_cell : forall l bs,
  NoDup (map fst l) -> (forall x, In x l -> snd x <> [] /\ has_band bs (fst x) = false) ->
  fold_left (fun acc x => add_to_bands acc (fst x) (snd x)) (cell_adds l) bs =
  bs ++ map (fun x => band_of (fst x) (snd x)) l.
Proof.
  induction l as [|[bid bl] l IH]; intros bs Hnd Hall.
  - cbn. rewrite app_nil_r. reflexivity.
  - unfold cell_adds. cbn [flat_map fst snd]. rewrite fold_left_app. fold (cell_adds l).
    destruct (Hall (bid, bl) (or_introl eq_refl)) as [Hne Hnb]. cbn [fst snd] in Hne, Hnb.
    assert (E : fold_left (fun acc x => add_to_bands acc (fst x) (snd x)) (map (fun b => (bid, b)) bl) bs =
                fold_left (fun acc b => add_to_bands acc bid b) bl bs).
    { clear. revert bs. induction bl as [|b bl IHb]; intros bs; cbn [map fold_left fst snd]; [reflexivity | apply IHb]. }
    rewrite E, (fold_band bl bs bid Hnb Hne).
    inversion Hnd as [|? ? Hni Hnd']; subst. cbn [map fst] in Hni.
    rewrite IH.
    + cbn [map fst snd]. rewrite <- app_assoc. reflexivity.
    + exact Hnd'.
    + intros x Hx. destruct (Hall x (or_intror Hx)) as [A B]. split; [exact A|].
      rewrite has_band_app, B. cbn [has_band existsb band_of ebn_band orb].
      destruct (Z.eqb_spec bid (fst x)) as [Eq|]; [|reflexivity].
      exfalso. apply Hni. rewrite Eq. apply in_map. exact Hx.
Qed.

(* ---------- the store ---------- *)

Definition cget (cells : ecells) (k : key3) : list eband :=
  match aget key3_eqb cells k with Some l => l | None => [] end.

(* a key is either absent or holds a non-empty Precinct list *)
Definition cells_norm (cells : ecells) : Prop :=
  forall k, aget key3_eqb cells k = match cget cells k with [] => None | l => Some l end.

Lemma add_to_bands_nonnil : forall bs bid b, add_to_bands bs bid b <> [].
Proof. intros bs bid b. destruct bs as [|q bs]; cbn [add_to_bands]; [discriminate|]. destruct (ebn_band q =? bid); discriminate. Qed.

Lemma cget_add_same : forall cells c r pi bid b,
  cget (add_code_block cells c r pi bid b) (c, r, pi) = add_to_bands (cget cells (c, r, pi)) bid b.
Proof. intros. unfold cget, add_code_block. rewrite aget3_aset_same. reflexivity. Qed.

Lemma cget_add_other : forall cells c r pi bid b k, (c, r, pi) <> k ->
  cget (add_code_block cells c r pi bid b) k = cget cells k.
Proof. intros. unfold cget, add_code_block. rewrite aget3_aset_other by assumption. reflexivity. Qed.

Lemma norm_add : forall cells c r pi bid b, cells_norm cells -> cells_norm (add_code_block cells c r pi bid b).
Proof.
  intros cells c r pi bid b H k. destruct (key3_eqb (c, r, pi) k) eqn:E.
  - apply key3_eqb_eq in E. subst k. unfold cget, add_code_block. rewrite !aget3_aset_same.
    destruct (add_to_bands _ bid b) eqn:Ea; [exfalso; eapply add_to_bands_nonnil; exact Ea | reflexivity].
  - assert (Hne : (c, r, pi) <> k) by (intros Ek; subst k; rewrite key3_eqb_refl in E; discriminate).
    rewrite cget_add_other by exact Hne. unfold add_code_block. rewrite aget3_aset_other by exact Hne. apply H.
Qed.

Lemma norm_nil : cells_norm [].
Proof. intros k. reflexivity. Qed.

(* a run of adds that all go to the same key *)
Lemma fold_add_same_key : forall (l : list (Z * eblock)) cells c r pi,
  let cells' := fold_left (fun cs x => add_code_block cs c r pi (fst x) (snd x)) l cells in
  cget cells' (c, r, pi) = fold_left (fun acc x => add_to_bands acc (fst x) (snd x)) l (cget cells (c, r, pi)) /\
  (forall k, (c, r, pi) <> k -> cget cells' k = cget cells k) /\
  (cells_norm cells -> cells_norm cells').
Proof.
  induction l as [|[bid b] l IH]; intros cells c r pi; cbn [fold_left fst snd].
  - repeat split; auto.
  - destruct (IH (add_code_block cells c r pi bid b) c r pi) as [A [B C]]. cbv zeta in A, B, C.
    split; [rewrite A, cget_add_same; reflexivity|].
    split; [intros k Hk; rewrite B by exact Hk; apply cget_add_other; exact Hk|].
    intros Hn. apply C. apply norm_add. exact Hn.
Qed.

(* ---------- sortedPrecincts when every key has precinct index 0 ---------- *)

Definition keys0 (cells : ecells) : Prop := Forall (fun kv : key3 * list eband => snd (fst kv) = 0) cells.

Lemma keys0_aset : forall cells c r v, keys0 cells -> keys0 (aset key3_eqb cells (c, r, 0) v).
Proof.
  induction cells as [|[k0 v0] cells IH]; intros c r v H; cbn [aset].
  - constructor; [reflexivity | constructor].
  - inversion H as [|? ? H0 H1]; subst. destruct (key3_eqb k0 (c, r, 0)).
    + constructor; [reflexivity | exact H1].
    + constructor; [exact H0 | apply IH; exact H1].
Qed.

Lemma keys0_add : forall cells c r bid b, keys0 cells -> keys0 (add_code_block cells c r 0 bid b).
Proof. intros. unfold add_code_block. apply keys0_aset. assumption. Qed.

Lemma zsort_set_zeros : forall l, Forall (fun x => x = 0) l -> zsort_set l = match l with [] => [] | _ => [0] end.
Proof.
  induction l as [|x l IH]; intros H; [reflexivity|].
  inversion H as [|? ? Hx Hl]; subst. unfold zsort_set. cbn [fold_right]. fold (zsort_set l). rewrite (IH Hl).
  destruct l; reflexivity.
Qed.

Lemma aget3_none_iff : forall {V} (cells : list (key3 * V)) k,
  aget key3_eqb cells k = None <-> ~ In k (map fst cells).
Proof.
  intros V cells k. induction cells as [|[k0 v0] cells IH]; cbn [aget map fst In].
  - split; [intros _ []|reflexivity].
  - destruct (key3_eqb k0 k) eqn:E.
    + apply key3_eqb_eq in E. subst. split; [discriminate|]. intros H. exfalso. apply H. left. reflexivity.
    + rewrite IH. split; [intros H [Hk|Hk]; [subst; rewrite key3_eqb_refl in E; discriminate | apply H; exact Hk] | intros H Hk; apply H; right; exact Hk].
Qed.

Lemma enc_pidx_keys0 : forall cells c r, keys0 cells ->
  enc_pidx cells c r = match aget key3_eqb cells (c, r, 0) with Some _ => [0] | None => [] end.
Proof.
  intros cells c r H. unfold enc_pidx.
  match goal with |- zsort_set ?x = _ => set (l := x) end.
  assert (Hz : Forall (fun x => x = 0) l).
  { unfold l. clear l. induction H as [|[[[c0 r0] p0] v0] cells H0 H1 IH]; cbn [flat_map fst]; [constructor|].
    cbn [fst snd] in H0. subst p0. apply Forall_app. split; [|exact IH].
    destruct ((c0 =? c) && (r0 =? r)); repeat constructor. }
  rewrite (zsort_set_zeros l Hz).
  assert (Hl : l = [] <-> aget key3_eqb cells (c, r, 0) = None).
  { rewrite aget3_none_iff. unfold l. clear l Hz. induction H as [|[[[c0 r0] p0] v0] cells H0 H1 IH]; cbn [flat_map map fst In].
    - split; [intros _ [] | reflexivity].
    - cbn [fst snd] in H0. subst p0. destruct ((c0 =? c) && (r0 =? r)) eqn:E.
      + apply andb_true_iff in E as [E1 E2]. apply Z.eqb_eq in E1, E2. subst. cbn [app].
        split; [discriminate|]. intros Hn. exfalso. apply Hn. left. reflexivity.
      + cbn [app]. rewrite IH. split; [intros Hn [Hk|Hk]; [|apply Hn; exact Hk] | intros Hn Hk; apply Hn; right; exact Hk].
        injection Hk as -> ->. rewrite !Z.eqb_refl in E. discriminate. }
  destruct l as [|z l']; destruct (aget key3_eqb cells (c, r, 0)) eqn:Ea; try reflexivity.
  - assert (A : Some l = None) by (apply Hl; reflexivity). discriminate.
  - assert (A : z :: l' = []) by (apply Hl; reflexivity). discriminate.
Qed.

(* ---------- one component: the blocks grouped by resolution, then by band ---------- *)

Definition group : Type := (Z * list (Z * list eblock))%type.          (* res, [(band id, blocks)] *)

Definition group_adds (g : group) : list (Z * Z * Z * eblock) :=
  map (fun x => (fst g, 0, fst x, snd x)) (cell_adds (snd g)).
Definition comp_adds (gs : list group) : list (Z * Z * Z * eblock) := flat_map group_adds gs.

Definition group_ok (g : group) : Prop :=
  NoDup (map fst (snd g)) /\ forall x, In x (snd g) -> snd x <> [].

Definition group_bands (g : group) : list eband := map (fun x => band_of (fst x) (snd x)) (snd g).

Lemma add_blocks_app : forall comp cells a b, add_blocks comp cells (a ++ b) = add_blocks comp (add_blocks comp cells a) b.
Proof. intros. unfold add_blocks. apply fold_left_app. Qed.

Lemma add_blocks_group : forall comp g cells,
  add_blocks comp cells (group_adds g) =
  fold_left (fun cs x => add_code_block cs comp (fst g) 0 (fst x) (snd x)) (cell_adds (snd g)) cells.
Proof.
  intros comp g cells. unfold add_blocks, group_adds. generalize (cell_adds (snd g)) as l. intros l. revert cells.
  induction l as [|[bid b] l IH]; intros cells; cbn [map fold_left fst snd]; [reflexivity | apply IH].
Qed.

Lemma keys0_fold : forall (l : list (Z * eblock)) cells c r, keys0 cells ->
  keys0 (fold_left (fun cs x => add_code_block cs c r 0 (fst x) (snd x)) l cells).
Proof. induction l as [|x l IH]; intros cells c r H; cbn [fold_left]; [exact H | apply IH, keys0_add, H]. Qed.

Lemma comp_adds_spec : forall gs cells comp,
  NoDup (map fst gs) -> Forall group_ok gs -> (forall g, In g gs -> cget cells (comp, fst g, 0) = []) ->
  let cells' := add_blocks comp cells (comp_adds gs) in
  (forall g, In g gs -> cget cells' (comp, fst g, 0) = group_bands g) /\
  (forall k, (forall g, In g gs -> k <> (comp, fst g, 0)) -> cget cells' k = cget cells k) /\
  (cells_norm cells -> cells_norm cells') /\ (keys0 cells -> keys0 cells').
Proof.
  induction gs as [|g gs IH]; intros cells comp Hnd Hok Hemp.
  - cbn. repeat split; auto. intros g [].
  - unfold comp_adds. cbn [flat_map]. fold (comp_adds gs). cbv zeta. rewrite add_blocks_app.
    set (cells1 := add_blocks comp cells (group_adds g)).
    inversion Hnd as [|? ? Hni Hnd']; subst. inversion Hok as [|? ? [Hg1 Hg2] Hok']; subst.
    destruct (fold_add_same_key (cell_adds (snd g)) cells comp (fst g) 0) as [A [B C]]. cbv zeta in A, B, C.
    rewrite <- add_blocks_group in A, B, C. fold cells1 in A, B, C.
    rewrite (Hemp g (or_introl eq_refl)) in A.
    rewrite (fold_cell (snd g) [] Hg1) in A by (intros x Hx; split; [apply Hg2; exact Hx | reflexivity]).
    cbn [app] in A.
    assert (Hemp1 : forall g', In g' gs -> cget cells1 (comp, fst g', 0) = []).
    { intros g' Hg'. rewrite B; [apply Hemp; right; exact Hg'|].
      intros E. apply Hni. injection E as E. rewrite E. apply in_map. exact Hg'. }
    destruct (IH cells1 comp Hnd' Hok' Hemp1) as [I1 [I2 [I3 I4]]]. cbv zeta in I1, I2, I3, I4.
    split; [|split; [|split]].
    + intros g' [<-|Hg']; [|apply I1; exact Hg'].
      rewrite I2; [exact A|]. intros g' Hg' E. apply Hni. injection E as E. rewrite E. apply in_map. exact Hg'.
    + intros k Hk. rewrite I2 by (intros g' Hg'; apply Hk; right; exact Hg').
      apply B. intros E. apply (Hk g (or_introl eq_refl)). symmetry. exact E.
    + intros Hn. apply I3, C, Hn.
    + intros Hk. apply I4. unfold cells1. rewrite add_blocks_group. apply keys0_fold. exact Hk.
Qed.
