(* pipe, part 9: the end-to-end theorem.  pipe_decode_tile (pipe_encode_tile image) = image for
   the reversible single-tile, single-layer, default-precinct, style-0 path, by chaining
     GeoProofsPixels.pixel_roundtrip + GeoProofsSamples.dc_shift_range     (PipeProofsFront)
     RCTProofs.rct_list_inverse (int32 range in28)                          (PipeProofsFront)
     DwtProofs2D.dwt53_inverse_multilevel, DwtGrowth.fwd53_ml_bound         (here)
     GeoProofsBands / GeoProofsBlocks: band and code-block partition,
       dec_band_cells_eq, extract_assemble_subbands_id                      (PipeProofsGeo, here)
     t1_tile_decode_roundtrip, t1_tile_decode_zero_block                    (PipeProofsBlock)
     T2ProofsPackets4.packets_deliver_fields with G1..G4 discharged,
       PipeGatherOnce.gather_once                                           (PipeProofsT2)
     T2ProofsPackets5.packets_encode_total (EncodePackets returns no error)   (PipeProofsT2)
   Remaining hypotheses (named below): hyp_coeff_fit (the one arithmetic side condition; proved
   from the DWT growth lemma when 2*levels + precision <= 24) and hyp_block_sizes (no code-block
   compresses to more than 65535 bytes). *)
From V Require Import Common.Base J2KGeo.GeoModel J2KGeo.GeoProofsBands J2KGeo.GeoProofsBlocks
  DWT.DwtModel DWT.DwtProofs2D DWT.DwtGrowth DWT.DwtGrowth2 T2.T2Header T2.T2Packets T2.T2ProofsPackets2
  Pipe.PipeModel Pipe.PipeProofsFront Pipe.PipeProofsLists Pipe.PipeProofsStore Pipe.PipeProofsGeo
  Pipe.PipeProofsDecGeo Pipe.PipeProofsBlock Pipe.PipeCellRel Pipe.PipeProofsEnc Pipe.PipeProofsCells
  Pipe.PipeProofsT2.

(* ---------- wavelet ---------- *)

Lemma fwd53_ml_loop_length : forall l stride d win,
  let '(cw, ch, _, _) := win in
  (cw <= stride)%nat -> (stride * ch <= length d)%nat -> length (fwd53_ml_loop l d stride win) = length d.
Proof.
  induction l as [|l IH]; intros stride d [[[cw ch] cx] cy]; [reflexivity|].
  intros Hw Hd. cbn [fwd53_ml_loop]. destruct ((cw <=? 1)%nat && (ch <=? 1)%nat); [reflexivity|].
  specialize (IH stride (fwd53_2d d cw ch stride (is_even cx) (is_even cy)) (next_window (cw, ch, cx, cy))).
  cbn [next_window] in IH |- *. rewrite IH.
  - apply fwd53_2d_length; assumption.
  - pose proof (split_lengths_le cw (is_even cx)). lia.
  - rewrite fwd53_2d_length by assumption.
    pose proof (split_lengths_le ch (is_even cy)) as Hle. apply (Nat.mul_le_mono_l _ _ stride) in Hle. lia.
Qed.

Lemma fwd53_ml_length : forall w h levels x0 y0 d, (w * h <= length d)%nat -> length (fwd53_ml d w h levels x0 y0) = length d.
Proof. intros w h levels x0 y0 d Hd. unfold fwd53_ml. apply (fwd53_ml_loop_length levels w d (w, h, x0, y0)); [lia | exact Hd]. Qed.

Section Main.
Variable p : pparams.
Hypothesis Hsc : pp_scope p.

Let w := pp_w p.
Let h := pp_h p.
Let L := pp_levels p.
Let nc := pp_nc p.

Lemma plane_len_nat : forall pl : list Z, length pl = Z.to_nat (w * h) -> (Z.to_nat w * Z.to_nat h <= length pl)%nat.
Proof. intros pl H. destruct (wh_range p Hsc) as (A & B & _). fold w h in A, B. rewrite H. nia. Qed.

Lemma fdwt_length : forall pl : list Z, length pl = Z.to_nat (w * h) -> zlen (pipe_fdwt p pl) = w * h.
Proof.
  intros pl H. destruct (wh_range p Hsc) as (A & B & _). fold w h in A, B. unfold pipe_fdwt, zlen. fold w h L.
  destruct (L =? 0); [rewrite H; nia|]. rewrite fwd53_ml_length by (apply plane_len_nat; exact H). rewrite H. nia.
Qed.

Lemma idwt_fdwt : forall pl : list Z, length pl = Z.to_nat (w * h) -> pipe_idwt p (pipe_fdwt p pl) = pl.
Proof.
  intros pl H. unfold pipe_idwt, pipe_fdwt. fold w h L. destruct (L =? 0); [reflexivity|].
  apply dwt53_inverse_multilevel. apply plane_len_nat. exact H.
Qed.

(* the one arithmetic side condition: every wavelet coefficient fits 26 bits (sign included),
   so that `<<= 6` stays inside int32 and T1 sees at most 25 magnitude bit-planes *)
Definition coeff_fit (coeffs : list (list Z)) : Prop :=
  forall d, In d coeffs -> forall v, In v d -> - 2 ^ 25 < v < 2 ^ 25.

(* ... which the DWT growth lemma gives for 2 * levels + precision <= 24 *)
Lemma coeff_fit_growth : forall planes, planes_ok p (2 ^ pp_prec p) planes -> 2 * L + pp_prec p <= 24 ->
  coeff_fit (map (pipe_fdwt p) planes).
Proof.
  intros planes [_ Hall] Hs d Hd v Hv. apply in_map_iff in Hd as [pl [<- Hpl]].
  rewrite Forall_forall in Hall. destruct (Hall pl Hpl) as [_ Hb].
  destruct Hsc as (_ & _ & _ & HP & HL & _). fold L in HL.
  assert (Hpow : 2 ^ (2 * L + pp_prec p) <= 2 ^ 24) by (apply Z.pow_le_mono_r; lia).
  assert (Hbnd : bnd (2 ^ (2 * L + pp_prec p)) (pipe_fdwt p pl)).
  { unfold pipe_fdwt. fold L. destruct (Z.eqb_spec L 0) as [E|E].
    - rewrite E. replace (2 * 0 + pp_prec p) with (pp_prec p) by lia. exact Hb.
    - replace (2 ^ (2 * L + pp_prec p)) with (4 ^ Z.of_nat (Z.to_nat L) * 2 ^ pp_prec p).
      + apply fwd53_ml_bound; [apply Z.pow_nonneg; lia | exact Hb].
      + rewrite Z2Nat.id by lia. rewrite Z.pow_add_r by lia. rewrite Z.pow_mul_r by lia. reflexivity. }
  unfold bnd in Hbnd. rewrite Forall_forall in Hbnd. specialize (Hbnd v Hv).
  change (2 ^ 24) with 16777216 in Hpow. change (2 ^ 25) with 33554432. lia.
Qed.

(* ... and DwtGrowth2.fwd53_ml_bound_sharp (231 * A + 227 for up to 6 levels) for every tuple in scope *)
Lemma coeff_fit_sharp : forall planes, planes_ok p (2 ^ pp_prec p) planes -> coeff_fit (map (pipe_fdwt p) planes).
Proof.
  intros planes [_ Hall] d Hd v Hv. apply in_map_iff in Hd as [pl [<- Hpl]].
  rewrite Forall_forall in Hall. destruct (Hall pl Hpl) as [Hl Hb].
  destruct Hsc as (_ & _ & _ & HP & HL & _). fold L in HL.
  assert (Hpow : 1 <= 2 ^ pp_prec p <= 2 ^ 16) by (split; [pose proof (Z.pow_pos_nonneg 2 (pp_prec p) ltac:(lia) ltac:(lia)); lia | apply Z.pow_le_mono_r; lia]).
  change (2 ^ 16) with 65536 in Hpow.
  assert (Hbnd : bnd (231 * 2 ^ pp_prec p + 227) (pipe_fdwt p pl)).
  { unfold pipe_fdwt. fold L. destruct (L =? 0).
    - eapply Forall_impl; [|exact Hb]. intros a Ha. cbv beta in Ha. lia.
    - apply fwd53_ml_bound_sharp; [lia | lia | exact Hb|]. fold w h in Hl. apply plane_len_nat. exact Hl. }
  unfold bnd in Hbnd. rewrite Forall_forall in Hbnd. specialize (Hbnd v Hv).
  change (2 ^ 25) with 33554432. lia.
Qed.

(* ---------- the decoder's grid is the encoder's block list ---------- *)

Lemma dec_cells_blocks : forall d, dec_cells_res p = map (fun rc => (fst rc, cell_of_block (snd rc))) (enc_blocks p d).
Proof.
  intros d. unfold dec_cells_res, enc_blocks. fold w h L. rewrite map_flat_map.
  apply flat_map_ext_in. intros r Hr. apply in_zrange in Hr. rewrite map_map. cbn [fst snd].
  rewrite <- (map_map cell_of_block (fun c => (r, c))). f_equal.
  destruct (wh_range p Hsc) as (A & B & C). destruct (cb_range p Hsc) as [Cw Ch]. fold w h L in A, B, C.
  destruct (dec_band_infos_agree w h (pp_x0 p) (pp_y0 p) L r) as [Hd _]. rewrite Hd.
  unfold enc_blocks_res, enc_subbands. fold w h L. rewrite flat_map_map, map_flat_map.
  apply flat_map_ext_in. intros b Hb.
  destruct (bands_inside_array w h (pp_x0 p) (pp_y0 p) L ltac:(lia) ltac:(lia) r b ltac:(lia) Hb) as [B1 [B2 _]].
  apply dec_band_cells_eq; lia.
Qed.

Lemma enc_blocks_all : forall d, map snd (enc_blocks p d) = enc_all_blocks d w h (pp_x0 p) (pp_y0 p) L (pp_cbw p) (pp_cbh p).
Proof.
  intros d. unfold enc_blocks, enc_all_blocks, enc_blocks_res. fold w h L. rewrite map_flat_map.
  apply flat_map_ext_in. intros r _. rewrite map_map. cbn [snd]. apply map_id.
Qed.

Definition blk_asm (c : cblock) : Z * Z * Z * Z * list Z :=
  (cb_gx0 c, cb_gy0 c, cb_gx0 c + cb_w c, cb_gy0 c + cb_h c, cb_data c).

(* buildAndDecodeCodeBlocks over the whole grid, given that T2 delivered every block *)
Lemma dec_code_blocks_all : forall d m, zlen d = w * h -> coeff_fit [d] ->
  (forall i r cb, In (i, (r, cb)) (NE p d) -> exists ci, aget key2_eqb m (r, i) = Some ci /\ delivers (eblk p r cb) ci) ->
  dec_code_blocks p m 0 (dec_cells_res p) = Ok (blocks_for_assembly (map snd (enc_blocks p d))).
Proof.
  intros d m Hlen Hfit Hdel. rewrite (dec_cells_blocks d). unfold NE in Hdel.
  assert (Hb : forall v, In v d -> - 2 ^ 25 < v < 2 ^ 25) by (intros v Hv; apply (Hfit d (or_introl eq_refl) v Hv)).
  assert (G : forall l k, (forall rc, In rc l -> In rc (enc_blocks p d)) ->
            (forall i r cb, In (i, (r, cb)) (znumber k l) -> exists ci, aget key2_eqb m (r, i) = Some ci /\ delivers (eblk p r cb) ci) ->
            dec_code_blocks p m k (map (fun rc => (fst rc, cell_of_block (snd rc))) l) = Ok (map blk_asm (map snd l))).
  { induction l as [|[r cb] l IH]; intros k Hsub Hd; cbn [map dec_code_blocks]; [reflexivity|].
    pose proof (Hsub (r, cb) (or_introl eq_refl)) as Hin.
    destruct (block_facts p Hsc d Hlen Hb r cb Hin) as (_ & (_ & Hw1 & Hh1 & _) & _).
    cbn [fst snd]. unfold cell_of_block at 1.
    destruct (Z.leb_spec (cb_gx0 cb + cb_w cb - cb_gx0 cb) 0); [lia|].
    destruct (Z.leb_spec (cb_gy0 cb + cb_h cb - cb_gy0 cb) 0); [lia|]. cbn [orb].
    destruct (Hd k r cb) as [ci [Hget Hdl]]; [cbn [znumber]; left; reflexivity|].
    fold (cell_of_block cb).
    rewrite (eblk_decodes p Hsc d Hlen Hb r cb m k ci Hin Hget Hdl). cbn [obind].
    rewrite IH.
    - reflexivity.
    - intros rc Hrc. apply Hsub. right. exact Hrc.
    - intros i r' cb' Hin'. apply Hd. cbn [znumber]. right. exact Hin'. }
  rewrite (G (enc_blocks p d) 0); [reflexivity | auto | exact Hdel].
Qed.

(* ---------- remaining hypotheses ---------- *)

(* (H1) about Encoder.applyWaveletTransform (wavelet.ForwardMultilevelWithParity) output handed
   to Encoder.encodeCodeBlock (`<<= t1NMSEDecFracBits`, calculateMaxBitplane): every coefficient
   is inside (-2^25, 2^25).  See coeff_fit_growth for the cases where this is a theorem. *)
Definition hyp_coeff_fit (pix : list Z) : Prop :=
  forall coeffs, pipe_coeffs p pix = Ok coeffs -> coeff_fit coeffs.

(* (H2) about t1.Encoder.Encode as called by Encoder.encodeCodeBlock: no code-block's compressed
   data exceeds 65535 bytes (PacketDecoder.decodePacket clamps longer contributions, and the
   Lblock code of the model is proved for lengths < 2^25).  An MQ-coder output bound for a block
   of <= 4096 samples and <= 25 bit-planes is not available. *)
Definition hyp_block_sizes (pix : list Z) : Prop :=
  forall coeffs, pipe_coeffs p pix = Ok coeffs ->
  forall d, In d coeffs -> forall r cb, In (r, cb) (enc_blocks p d) ->
  forall b, enc_code_block p r cb (cb_cbx cb) (cb_cby cb) = Ok b -> zlen (eb_data b) <= 65535.

(* ---------- the theorem ---------- *)

(* the size hypothesis on the coefficient planes of one tile *)
Definition blocks_small (coeffs : list (list Z)) : Prop :=
  forall d, In d coeffs -> forall r cb, In (r, cb) (enc_blocks p d) ->
  forall b, enc_code_block p r cb (cb_cbx cb) (cb_cby cb) = Ok b -> zlen (eb_data b) <= 65535.

(* the middle of the pipeline (everything between the colour transform and its inverse) for one
   tile at its origin: DWT, blocks, T1, T2 and back *)
Theorem pipe_planes_roundtrip : forall planes, planes_ok p (2 ^ pp_prec p) planes ->
  blocks_small (map (pipe_fdwt p) planes) ->
  exists tile, obind (pipe_cells p (map (pipe_fdwt p) planes)) (pipe_tile_bytes p) = Ok tile /\
               pipe_dec_planes p tile = Ok planes.
Proof.
  intros planes Hplok Hbs.
  pose proof Hplok as [Hnp Hpl].
  set (coeffs := map (pipe_fdwt p) planes). fold coeffs in Hbs.
  pose proof (coeff_fit_sharp planes Hplok) as Hcf. fold coeffs in Hcf.
  assert (Hnc : length coeffs = Z.to_nat nc) by (unfold coeffs; rewrite map_length; exact Hnp).
  assert (Hlen : forall d, In d coeffs -> zlen d = w * h).
  { intros d Hd. unfold coeffs in Hd. apply in_map_iff in Hd as [pl [<- Hin]]. apply fdwt_length.
    rewrite Forall_forall in Hpl. apply (Hpl pl Hin). }
  destruct (pipe_cells_spec p Hsc coeffs Hnc Hlen Hcf) as [cells [Ecells _]].
  assert (Hsmall : forall d, In d coeffs -> forall r cb, In (r, cb) (enc_blocks p d) -> zlen (eb_data (eblk p r cb)) <= 65535).
  { intros d Hd r cb Hin. apply (Hbs d Hd r cb Hin). apply (eblk_spec p Hsc d (Hlen d Hd) (Hcf d Hd) r cb Hin). }
  assert (Hord0 : 0 <= pp_order p <= 4) by (destruct Hsc as (_ & _ & _ & _ & _ & _ & _ & _ & H & _); exact H).
  destruct (t2_encodes p Hsc coeffs Hnc Hlen Hcf Hsmall cells Ecells Hord0) as [eps [cells' [Eenc Hsp]]].
  exists (packets_bytes eps). split.
  - rewrite Ecells. cbn [obind].
    unfold pipe_tile_bytes. rewrite Eenc. reflexivity.
  - destruct (t2_delivers p Hsc coeffs Hnc Hlen Hcf Hsmall cells Ecells eps cells' Hord0 Eenc Hsp) as [dps [Edec Hdel]].
    unfold pipe_dec_planes. rewrite Edec. cbn [obind].
    (* every component *)
    assert (Hcomp : forall c, 0 <= c < nc -> dec_component p dps c = Ok (nth (Z.to_nat c) planes [])).
    { intros c Hc. unfold dec_component.
      set (d := coef coeffs c). assert (Hd : In d coeffs) by (apply (coef_in p coeffs Hnc c Hc)).
      rewrite (dec_code_blocks_all d _ (Hlen d Hd)).
      - cbn [obind]. f_equal. rewrite enc_blocks_all. fold w h.
        destruct (wh_range p Hsc) as (A & B & C). destruct (cb_range p Hsc) as [Cw Ch]. fold w h L in A, B, C.
        rewrite (extract_assemble_subbands_id w h (pp_x0 p) (pp_y0 p) L (pp_cbw p) (pp_cbh p) ltac:(lia) ltac:(lia) ltac:(lia) ltac:(lia) ltac:(lia) d (Hlen d Hd)).
        unfold d, coef, coeffs.
        rewrite (nth_indep _ [] (pipe_fdwt p [])) by (rewrite map_length, Hnp; lia). rewrite map_nth.
        apply idwt_fdwt. rewrite Forall_forall in Hpl. apply Hpl. apply nth_In. rewrite Hnp. lia.
      - intros d' [<-|[]]. apply Hcf. exact Hd.
      - apply (Hdel c Hc). }
    assert (Hall : forall cs, (forall c, In c cs -> 0 <= c < nc) ->
              dec_components p dps cs = Ok (map (fun c => nth (Z.to_nat c) planes []) cs)).
    { induction cs as [|c cs IH]; intros Hin; cbn [dec_components map]; [reflexivity|].
      rewrite (Hcomp c (Hin c (or_introl eq_refl))). cbn [obind]. rewrite IH by (intros c' Hc'; apply Hin; right; exact Hc').
      reflexivity. }
    fold nc. rewrite (Hall (zrange nc)) by (intros c Hc; apply in_zrange in Hc; exact Hc). f_equal.
    assert (Epl : map (fun c => nth (Z.to_nat c) planes []) (zrange nc) = planes).
    { unfold zrange, nc. rewrite map_map. rewrite <- Hnp. clear. induction planes as [|x l IH] using rev_ind; [reflexivity|].
      rewrite app_length. cbn [length]. rewrite Nat.add_1_r, seq_S, map_app. cbn [map]. rewrite Nat.add_0_l.
      f_equal.
      - rewrite <- IH at 2. apply map_ext_in. intros i Hi. apply in_seq in Hi. rewrite Nat2Z.id. apply app_nth1. lia.
      - rewrite Nat2Z.id, app_nth2 by lia. rewrite Nat.sub_diag. reflexivity. }
    exact Epl.
Qed.

Theorem pipe_roundtrip_section : forall samples, samples_ok p samples ->
  let pix := pack_image p samples in
  hyp_block_sizes pix ->
  exists tile, pipe_encode_tile p pix = Ok tile /\ pipe_decode_tile p tile = Ok pix.
Proof.
  intros samples Hsm pix Hbs.
  destruct (front_ok p samples Hsc Hsm) as [planes [Efront [Hplok Eback]]]. fold pix in Efront, Eback.
  assert (Ecoeffs : pipe_coeffs p pix = Ok (map (pipe_fdwt p) planes)) by (unfold pipe_coeffs; rewrite Efront; reflexivity).
  destruct (pipe_planes_roundtrip planes Hplok (Hbs _ Ecoeffs)) as [tile [Eenc Edec]].
  exists tile. split.
  - unfold pipe_encode_tile. rewrite Ecoeffs. exact Eenc.
  - unfold pipe_decode_tile. rewrite Edec. cbn [obind]. rewrite Eback. reflexivity.
Qed.

End Main.

(* ---------- the statement, the partial theorem, what is missing ---------- *)

(* The full statement: for every parameter tuple in scope (1 <= w, h <= 32768, 1..4 components,
   precision 1..16, signed or not, 0..6 levels, code-block sizes 4..64 with area <= 4096, MCT on or
   off, the five progression orders; ONE layer, default precincts, style 0) and every sample array
   in range, the encoder model produces a tile and the decoder model returns the packed image.
   (The tile-level functions take the geometry as parameters; the geometry the decoder REPORTS
   comes from the main header - SIZ/COD written by Framing.FrmWriters and read back by the
   parser models - which is not part of this composition.) *)
Definition pipe_roundtrip_statement : Prop :=
  forall p samples, pp_scope p -> samples_ok p samples ->
    exists tile, pipe_encode_tile p (pack_image p samples) = Ok tile /\
                 pipe_decode_tile p tile = Ok (pack_image p samples).

(* Proved: the statement under ONE named hypothesis, hyp_block_sizes.  The arithmetic side
   condition (every wavelet coefficient inside (-2^25, 2^25), so that `<<= 6` stays in int32 and
   T1 sees at most 25 magnitude planes) is a theorem for the whole scope: coeff_fit_sharp, from
   DwtGrowth2.fwd53_ml_bound_sharp (231 * 2^16 + 227 < 2^24).
   Missing for the full statement:
   - hyp_block_sizes: an upper bound of 65535 bytes on the MQ coder's output for a block of
     <= 4096 samples and <= 25 bit-planes (73 coding passes). *)
Theorem pipe_roundtrip_partial : forall p, pp_scope p -> forall samples, samples_ok p samples ->
  let pix := pack_image p samples in
  hyp_block_sizes p pix ->
  exists tile, pipe_encode_tile p pix = Ok tile /\ pipe_decode_tile p tile = Ok pix.
Proof. exact pipe_roundtrip_section. Qed.

(* the arithmetic side condition as a statement about the model *)
Lemma hyp_coeff_fit_holds : forall p samples, pp_scope p -> samples_ok p samples ->
  hyp_coeff_fit p (pack_image p samples).
Proof.
  intros p samples Hsc Hsm coeffs Ec.
  destruct (front_ok p samples Hsc Hsm) as [planes [Efront [Hok _]]].
  unfold pipe_coeffs in Ec. rewrite Efront in Ec. cbn [obind] in Ec. injection Ec as <-.
  apply (coeff_fit_sharp p Hsc planes Hok).
Qed.
