(* Pipe (layers): a code-block as Encoder.finalizeBlock leaves it (nl >= 2 quality layers, final
   lossless layer) is a `layered_block`: every layer's contribution is inside the domain of the
   packet-header codes, and the layers together deliver the block's bytes and passes. *)
From V Require Import Common.Base T2.T2TagTree T2.T2Header T2.T2Packets J2KGeo.GeoLayers J2KGeo.GeoProofsLayers
  T2.T2ProofsCodes T2.T2ProofsHeader Pipe.PipeCellRel Pipe.PipeLCellRel.

(* the block as encodeLayeredCodeBlock + finalizeBlock leave it *)
Definition finalized (nl : Z) (row : list Z) (passes : list pass) (data : list Z) (b : eblock) : Prop :=
  exists lp ld, finalize_block passes (Some data) nl row true = Ok (Some (lp, ld)) /\
    eb_lp b = lp /\ eb_ld b = Some ld /\ eb_data b = data /\ eb_npt b = zlen passes /\
    eb_pl b = map fst passes /\ Forall (fun t : Z * Z * bool => snd t = false) (eb_passes b) /\
    eb_termall b = false /\ eb_included b = false /\ eb_nlb b = 0 /\ 0 <= eb_zbp b < 32.

(* what block b contributes over the layers 0 .. nl-1, in order: (bytes, passes) *)
Definition contrib_acc (b : eblock) (nl : Z) : list Z * Z :=
  fold_left (fun o l => if b_inc b l then (fst o ++ b_data b l, snd o + b_np b l) else o) (zseq nl) ([], 0).

(* ---------- the two zsum of the project are the same function ---------- *)

Lemma zsum_same : GeoProofsLayers.zsum = T2Header.zsum.
Proof. reflexivity. Qed.

Lemma tzsum_cons : forall x l, T2Header.zsum (x :: l) = x + T2Header.zsum l.
Proof. reflexivity. Qed.

Lemma tzsum_nonneg : forall l, (forall y, In y l -> 0 <= y) -> 0 <= T2Header.zsum l.
Proof.
  induction l as [|a l IH]; intros H; [unfold T2Header.zsum; simpl; lia|].
  rewrite tzsum_cons. pose proof (H a (or_introl eq_refl)).
  specialize (IH (fun y Hy => H y (or_intror Hy))). lia.
Qed.

Lemma tzsum_ge_in : forall l x, (forall y, In y l -> 0 <= y) -> In x l -> x <= T2Header.zsum l.
Proof.
  induction l as [|a l IH]; intros x H Hin; [contradiction|].
  rewrite tzsum_cons. pose proof (H a (or_introl eq_refl)) as Ha.
  pose proof (tzsum_nonneg l (fun y Hy => H y (or_intror Hy))) as Hs.
  destruct Hin as [->|Hin]; [lia|].
  specialize (IH x (fun y Hy => H y (or_intror Hy)) Hin). lia.
Qed.

(* ---------- buildPassLengths on a non-decreasing cumulative list ---------- *)

Fixpoint mono (p : Z) (l : list Z) : Prop :=
  match l with [] => True | v :: r => p <= v /\ mono v r end.

(* cumulative value after k entries, starting from p *)
Definition cumz (p : Z) (l : list Z) (k : nat) : Z := match k with O => p | S j => nth j l 0 end.

Lemma cumz_cons : forall p a l k, cumz p (a :: l) (S k) = cumz a l k.
Proof. intros p a l k. destruct k; reflexivity. Qed.

Lemma bpl_length : forall l p, length (build_pass_lengths p l) = length l.
Proof. induction l as [|a l IH]; intros p; cbn [build_pass_lengths length]; [reflexivity|]. rewrite IH. reflexivity. Qed.

Lemma bpl_nonneg : forall l p x, In x (build_pass_lengths p l) -> 0 <= x.
Proof.
  induction l as [|a l IH]; intros p x Hin; cbn [build_pass_lengths] in Hin; [contradiction|].
  destruct Hin as [<-|Hin].
  - destruct (Z.ltb_spec a p); lia.
  - eapply IH. exact Hin.
Qed.

Lemma bpl_slice_sum : forall l p j k, mono p l -> (j + k <= length l)%nat ->
  T2Header.zsum (firstn k (skipn j (build_pass_lengths p l))) = cumz p l (j + k) - cumz p l j.
Proof.
  induction l as [|a l IH]; intros p j k Hm Hlen.
  - cbn [length] in Hlen. assert (j = 0%nat) by lia. assert (k = 0%nat) by lia. subst j k.
    cbn. lia.
  - destruct Hm as [Hp Hm]. cbn [build_pass_lengths]. cbn [length] in Hlen.
    destruct (Z.ltb_spec a p) as [Hlt|_]; [lia|].
    destruct j as [|j].
    + cbn [skipn]. destruct k as [|k]; [cbn; lia|].
      cbn [firstn]. rewrite tzsum_cons.
      pose proof (IH a 0%nat k Hm ltac:(lia)) as H0. cbn [skipn plus] in H0. rewrite H0.
      cbn [plus]. rewrite cumz_cons. cbn [cumz]. lia.
    + cbn [skipn]. rewrite (IH a j k Hm ltac:(lia)).
      cbn [plus]. rewrite !cumz_cons. reflexivity.
Qed.

Lemma mono_of_nth : forall l p,
  (forall i, (i < length l)%nat -> p <= nth i l 0) ->
  (forall i j, (i <= j < length l)%nat -> nth i l 0 <= nth j l 0) -> mono p l.
Proof.
  induction l as [|a l IH]; intros p H1 H2; cbn [mono]; [exact I|].
  split; [apply (H1 0%nat); cbn [length]; lia|].
  apply IH.
  - intros i Hi. apply (H2 0%nat (S i)). cbn [length]. lia.
  - intros i j Hij. apply (H2 (S i) (S j)). cbn [length]. lia.
Qed.

Lemma in_firstn_skipn : forall (l : list Z) j k x, In x (firstn k (skipn j l)) -> In x l.
Proof.
  intros l j k x H.
  rewrite <- (firstn_skipn j l). apply in_or_app. right.
  rewrite <- (firstn_skipn k (skipn j l)). apply in_or_app. left. exact H.
Qed.

(* ---------- the pass table of a block ---------- *)

Lemma pass_rate_fst : forall q : pass, 0 <= snd q <= fst q -> pass_rate q = fst q.
Proof. intros q H. unfold pass_rate. destruct (Z.eqb_spec (fst q) 0); lia. Qed.

Lemma rate_at_fst : forall passes k, Forall (fun q : Z * Z => 0 <= snd q <= fst q) passes ->
  1 <= k <= zlen passes -> rate_at passes k = nth (Z.to_nat (k - 1)) (map fst passes) 0.
Proof.
  intros passes k Hfa Hk. unfold rate_at.
  rewrite (map_nth fst passes (0, 0) (Z.to_nat (k - 1)) : nth _ (map fst passes) 0 = _).
  apply pass_rate_fst. rewrite Forall_forall in Hfa. apply Hfa. apply nth_In. unfold zlen in Hk. lia.
Qed.

Lemma cumz_cum : forall passes k, Forall (fun q : Z * Z => 0 <= snd q <= fst q) passes ->
  0 <= k <= zlen passes -> cumz 0 (map fst passes) (Z.to_nat k) = cum passes k.
Proof.
  intros passes k Hfa Hk. unfold cum. destruct (Z.leb_spec k 0) as [Hz|Hpos].
  - assert (k = 0) by lia. subst k. reflexivity.
  - replace (Z.to_nat k) with (S (Z.to_nat (k - 1))) by lia. cbn [cumz].
    symmetry. apply rate_at_fst; [exact Hfa | lia].
Qed.

Lemma passes_mono : forall passes dlen, rates_ok passes dlen ->
  Forall (fun q : Z * Z => 0 <= snd q <= fst q) passes -> mono 0 (map fst passes).
Proof.
  intros passes dlen [Hr Hm] Hfa. apply mono_of_nth.
  - intros i Hi. rewrite map_length in Hi.
    pose proof (rate_at_fst passes (Z.of_nat i + 1) Hfa ltac:(unfold zlen, pass in *; lia)) as E.
    replace (Z.to_nat (Z.of_nat i + 1 - 1)) with i in E by lia. rewrite <- E.
    apply Hr. unfold zlen, pass in *. lia.
  - intros i j Hij. rewrite map_length in Hij.
    pose proof (rate_at_fst passes (Z.of_nat i + 1) Hfa ltac:(unfold zlen, pass in *; lia)) as Ei.
    pose proof (rate_at_fst passes (Z.of_nat j + 1) Hfa ltac:(unfold zlen, pass in *; lia)) as Ej.
    replace (Z.to_nat (Z.of_nat i + 1 - 1)) with i in Ei by lia.
    replace (Z.to_nat (Z.of_nat j + 1 - 1)) with j in Ej by lia.
    rewrite <- Ei, <- Ej. apply Hm; unfold zlen, pass in *; lia.
Qed.

(* the per-pass lengths of passes p+1 .. t add up to cum t - cum p (no clamping happens) *)
Lemma pass_lens_slice : forall passes dlen p t, rates_ok passes dlen ->
  Forall (fun q : Z * Z => 0 <= snd q <= fst q) passes ->
  0 <= p -> p <= t -> t <= zlen passes ->
  T2Header.zsum (seg_slice (build_pass_lengths 0 (map fst passes)) p (t - p)) = cum passes t - cum passes p.
Proof.
  intros passes dlen p t Hok Hfa Hp Hpt Ht. unfold seg_slice.
  rewrite bpl_slice_sum.
  - replace (Z.to_nat p + Z.to_nat (t - p))%nat with (Z.to_nat t) by lia.
    rewrite !cumz_cum by (try exact Hfa; unfold pass in *; lia). reflexivity.
  - eapply passes_mono; eauto.
  - rewrite map_length. unfold zlen, pass in *. lia.
Qed.

Lemma terms_all_false : forall (ps : list (Z * Z * bool)) i,
  Forall (fun t : Z * Z * bool => snd t = false) ps -> nth i (map (fun p => snd p) ps) false = false.
Proof.
  intros ps i H. revert i. induction H as [|x l Hx _ IH]; intros i; destruct i; cbn [map nth]; auto.
Qed.

(* ---------- folds over the layers ---------- *)

Lemma fold_contrib : forall (inc : Z -> bool) (dat : Z -> list Z) (np : Z -> Z) ks acc,
  (forall k, In k ks -> inc k = false -> dat k = [] /\ np k = 0) ->
  fold_left (fun o l => if inc l then (fst o ++ dat l, snd o + np l) else o) ks acc
  = (fst acc ++ concat (map dat ks), snd acc + T2Header.zsum (map np ks)).
Proof.
  intros inc dat np ks. induction ks as [|a ks IH]; intros acc H; cbn [fold_left map concat].
  - rewrite app_nil_r. change (T2Header.zsum []) with 0. rewrite Z.add_0_r. destruct acc; reflexivity.
  - rewrite IH by (intros k Hk; apply H; right; exact Hk). rewrite tzsum_cons.
    destruct (inc a) eqn:E.
    + cbn [fst snd]. rewrite <- app_assoc. f_equal; lia.
    + destruct (H a (or_introl eq_refl) E) as [Ed En]. rewrite Ed, En. cbn [app]. f_equal; lia.
Qed.

Lemma map_nth_zseq : forall (ld : list (list Z)) nl, length ld = Z.to_nat nl ->
  map (fun l => nth (Z.to_nat l) ld []) (zseq nl) = ld.
Proof.
  intros ld nl H. unfold zseq. rewrite map_map. rewrite <- H.
  apply (nth_ext _ _ [] []).
  - rewrite map_length, seq_length. reflexivity.
  - intros n Hn. rewrite map_length, seq_length in Hn.
    rewrite (nth_indep _ [] (nth (Z.to_nat (Z.of_nat 0%nat)) ld [])) by (rewrite map_length, seq_length; lia).
    rewrite (map_nth (fun x : nat => nth (Z.to_nat (Z.of_nat x)) ld [])).
    rewrite seq_nth by lia. cbn [plus]. rewrite Nat2Z.id. reflexivity.
Qed.

Lemma in_zseq : forall nl k, In k (zseq nl) -> 0 <= k < nl.
Proof.
  intros nl k H. unfold zseq in H. apply in_map_iff in H. destruct H as [i [<- Hi]].
  apply in_seq in Hi. lia.
Qed.

(* ---------- the theorem ---------- *)

(* `pass` is `Z * Z`: make the implicit type arguments of zlen / length agree before lia *)
Ltac plia := unfold pass in *; lia.

Theorem finalized_block_ok : forall nl row passes data b,
  2 <= nl -> passes <> [] -> zlen passes <= 164 -> zlen data <= 65535 ->
  rates_ok passes (zlen data) -> Forall (fun q : Z * Z => 0 <= snd q <= fst q) passes ->
  mono_alloc passes row nl -> finalized nl row passes data b ->
  layered_block nl b /\
  (forall l, 0 <= l < nl -> zlen (b_data b l) <= 65535) /\
  contrib_acc b nl = (firstn (Z.to_nat (rate_at passes (zlen passes))) data, zlen passes).
Proof.
  intros nl row passes data b Hnl Hne Hn164 Hd64 Hok Hfa Hmono Hfin.
  destruct Hfin as [lp [ld [Hfb [Hlp [Hld [Hdata [Hnpt [Hpl [Hterms [Hta [Hinc [Hnlb Hzbp]]]]]]]]]]]].
  destruct (final_layer_complete passes data nl row false Hne Hok Hnl Hmono)
    as [lp' [ld' [Hfb' [Hlplen [Hldlen [Hconcat [Hrange [Hnd [Hlast [Hlayer Hsum]]]]]]]]]].
  cbv beta iota in Hfb'. rewrite Hfb in Hfb'.
  assert (Elp : lp' = lp) by congruence. assert (Eld : ld' = ld) by congruence.
  subst lp' ld'. clear Hfb'.
  assert (Hn1 : 1 <= zlen passes) by (unfold zlen; destruct passes; [congruence|cbn [length]; plia]).
  assert (Hd0 : 0 <= zlen data) by (unfold zlen; plia).
  assert (Hzlp : zlen lp = nl) by (unfold zlen; plia).
  set (prev := fun l : Z => if l >? 0 then nth (Z.to_nat (l - 1)) lp 0 else 0).
  set (total := fun l : Z => nth (Z.to_nat l) lp 0).
  (* cumulative pass counts of one layer *)
  assert (HPT : forall l, 0 <= l < nl ->
            0 <= prev l /\ prev l <= total l /\ total l <= zlen passes /\ new_passes lp l = total l - prev l).
  { intros l Hl. destruct (Hlayer l Hl) as [_ [Hnp _]]. unfold new_passes in Hnp |- *. fold (prev l) in Hnp |- *.
    fold (total l) in Hnp |- *.
    pose proof (Hrange (Z.to_nat l) ltac:(plia)) as R1. fold (total l) in R1.
    assert (0 <= prev l).
    { unfold prev. destruct (Z.gtb_spec l 0); [|plia]. apply (Hrange (Z.to_nat (l - 1))). plia. }
    plia. }
  (* the contribution *)
  assert (HC : forall l, 0 <= l < nl ->
            contrib b l = (new_passes lp l >? 0, new_passes lp l, nth (Z.to_nat l) ld [])).
  { intros l Hl. unfold contrib. rewrite Hlp, Hld, Hdata, Hnpt. apply Hlayer. exact Hl. }
  assert (HDL : forall l, 0 <= l < nl ->
            zlen (nth (Z.to_nat l) ld []) = cum passes (total l) - cum passes (prev l)).
  { intros l Hl. apply Hlayer. exact Hl. }
  assert (HDR : forall l, 0 <= l < nl -> 0 <= zlen (nth (Z.to_nat l) ld []) <= zlen data).
  { intros l Hl. rewrite (HDL l Hl). destruct (HPT l Hl) as [P0 [P1 [P2 _]]].
    pose proof (cum_range passes (zlen data) (total l) Hok Hd0 P2).
    pose proof (cum_range passes (zlen data) (prev l) Hok Hd0 ltac:(plia)).
    pose proof (cum_mono passes (zlen data) (prev l) (total l) Hok Hd0 P1 P2). plia. }
  assert (HPV : forall l, 0 <= l < nl -> b_prev b l = prev l /\ b_total b l = total l).
  { intros l Hl. unfold b_prev, b_total, prev_and_total_passes. rewrite Hlp, Hzlp.
    destruct (Z.ltb_spec l nl); [|plia]. cbn [negb andb fst snd]. split; reflexivity. }
  assert (HBPL : block_pass_lens b = Some (build_pass_lengths 0 (map fst passes))).
  { unfold block_pass_lens. rewrite Hpl.
    destruct (Z.ltb_spec 0 (zlen (map fst passes))) as [_|Hbad]; [reflexivity|].
    unfold zlen in Hbad, Hn1. rewrite map_length in Hbad. plia. }
  assert (HBL : zlen (build_pass_lengths 0 (map fst passes)) = zlen passes).
  { unfold zlen. rewrite bpl_length, map_length. reflexivity. }
  assert (HTA : forall l, b_termall b l = false).
  { intros l. unfold b_termall. rewrite Hta. reflexivity. }
  split; [|split].
  - (* layered_block *)
    split; [exact Hinc|]. split; [exact Hnlb|]. split; [exact Hzbp|].
    intros l Hl Hbi.
    destruct (HPT l Hl) as [P0 [P1 [P2 P3]]].
    destruct (HPV l Hl) as [Epv Etot].
    assert (Enp : b_np b l = new_passes lp l) by (unfold b_np; rewrite (HC l Hl); reflexivity).
    assert (Edt : b_data b l = nth (Z.to_nat l) ld []) by (unfold b_data; rewrite (HC l Hl); reflexivity).
    assert (Hpos : 0 < new_passes lp l).
    { unfold b_inc in Hbi. rewrite (HC l Hl) in Hbi. cbn [fst] in Hbi.
      destruct (Z.gtb_spec (new_passes lp l) 0); [plia|discriminate]. }
    rewrite Epv, Enp, Edt, (HTA l), HBPL.
    pose proof (HDR l Hl) as Hdr.
    pose proof (pass_lens_slice passes (zlen data) (prev l) (total l) Hok Hfa P0 P1 P2) as Hs.
    rewrite <- P3 in Hs. rewrite <- (HDL l Hl) in Hs.
    assert (Hgt : prev l + new_passes lp l >? zlen (build_pass_lengths 0 (map fst passes)) = false).
    { rewrite HBL. destruct (Z.gtb_spec (prev l + new_passes lp l) (zlen passes)); [plia|reflexivity]. }
    split; [|split; [|reflexivity]].
    + unfold lengths_domain. rewrite Hgt.
      change (2 ^ 25) with 33554432.
      split; [plia|]. split; [plia|].
      split; [exact P0|]. rewrite Hs.
      split; [|split; [plia|]].
      * intros x Hx.
        assert (Hnn : forall y, In y (seg_slice (build_pass_lengths 0 (map fst passes)) (prev l) (new_passes lp l)) -> 0 <= y).
        { intros y Hy. unfold seg_slice in Hy. apply in_firstn_skipn in Hy. eapply bpl_nonneg. exact Hy. }
        pose proof (tzsum_ge_in _ x Hnn Hx) as Hle. rewrite Hs in Hle.
        specialize (Hnn x Hx). plia.
      * intros _ i Hi. unfold pass_terminates.
        destruct ((0 <=? i) && (i <? zlen (block_terms b))); [|reflexivity].
        unfold znth. destruct (i <? 0); [reflexivity|].
        unfold block_terms. apply terms_all_false. exact Hterms.
    + unfold announced. rewrite Hgt. exact Hs.
  - (* every layer's data fits the length codes *)
    intros l Hl. unfold b_data. rewrite (HC l Hl). cbn [snd]. pose proof (HDR l Hl). plia.
  - (* the layers together *)
    unfold contrib_acc. rewrite fold_contrib.
    + cbn [fst snd app]. f_equal.
      * rewrite (map_ext_in (b_data b) (fun l => nth (Z.to_nat l) ld [])).
        -- rewrite map_nth_zseq by exact Hldlen. exact Hconcat.
        -- intros k Hk. apply in_zseq in Hk. unfold b_data. rewrite (HC k Hk). reflexivity.
      * rewrite (map_ext_in (b_np b) (new_passes lp)).
        -- rewrite <- zsum_same. unfold zseq. rewrite Hsum. plia.
        -- intros k Hk. apply in_zseq in Hk. unfold b_np. rewrite (HC k Hk). reflexivity.
    + intros k Hk Hi. apply in_zseq in Hk.
      destruct (HPT k Hk) as [P0 [P1 [P2 P3]]].
      unfold b_inc in Hi. unfold b_data, b_np. rewrite (HC k Hk) in Hi |- *. cbn [fst snd] in Hi |- *.
      destruct (Z.gtb_spec (new_passes lp k) 0) as [|Hz]; [discriminate|].
      assert (Eq : total k = prev k) by plia.
      split; [|plia].
      pose proof (HDL k Hk) as Hlen. rewrite Eq, Z.sub_diag in Hlen.
      destruct (nth (Z.to_nat k) ld []); [reflexivity|]. unfold zlen in Hlen. cbn [length] in Hlen. plia.
Qed.

Print Assumptions finalized_block_ok.
