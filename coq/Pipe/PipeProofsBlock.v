(* pipe, part 4: one code-block through encodeCodeBlock and back through
   buildAndDecodeCodeBlocks / estimateMaxBitplane / decodeCodeBlock, given that T2 delivered the
   block's bytes, pass count and zero-bit-plane count.  Chains t1_tile_decode_roundtrip (a block
   with a non-zero coefficient) and t1_tile_decode_zero_block (the all-zero block). *)
From V Require Import Common.Base T1.T1Model T1.T1Bytes T1.T1ProofsBase T1.T1ProofsSeq T2.T2Header T2.T2Packets
  Pipe.PipeModel Pipe.PipeT1ojThm Pipe.PipeT1zeroThm.
Require V.J2KGeo.GeoModel V.J2KGeo.GeoProofsSamples.

Module GM := V.J2KGeo.GeoModel.

Definition coef_ok (cb : GM.cblock) : Prop :=
  length (GM.cb_data cb) = (Z.to_nat (GM.cb_w cb) * Z.to_nat (GM.cb_h cb))%nat /\
  1 <= GM.cb_w cb /\ 1 <= GM.cb_h cb /\
  (forall v, In v (GM.cb_data cb) -> - 2 ^ 25 < v < 2 ^ 25).

Definition rb_valid (p : pparams) (res band : Z) : Prop :=
  0 <= res <= pp_levels p /\ ((res = 0 /\ band = 0) \/ (1 <= res /\ 1 <= band <= 3)).

Lemma subband_index_valid : forall p res band, rb_valid p res band -> 0 <= subband_index (pp_levels p) res band.
Proof.
  intros p res band [Hr Hb]. unfold subband_index.
  destruct (Z.ltb_spec res 0); [lia|]. destruct (Z.gtb_spec res (pp_levels p)); [lia|]. cbn [orb].
  destruct Hb as [[-> ->]|[H1 H2]]; [reflexivity|].
  destruct (Z.eqb_spec res 0); [lia|]. destruct (Z.ltb_spec band 1); [lia|]. destruct (Z.gtb_spec band 3); [lia|]. cbn [orb]. nia.
Qed.

Lemma log2_gain_range : forall res band, 0 <= log2_gain res band <= 2.
Proof. intros. unfold log2_gain. destruct (res =? 0); [lia|]. destruct (band =? 3); lia. Qed.

(* the decoder reads the band's bit-plane budget the encoder used *)
Lemma band_numbps_agree : forall p res band, 1 <= pp_prec p <= 16 -> rb_valid p res band ->
  enc_band_numbps p res band = pp_prec p + log2_gain res band + 1 /\
  dec_band_numbps p res band = Some (pp_prec p + log2_gain res band + 1).
Proof.
  intros p res band HP Hv. pose proof (subband_index_valid p res band Hv) as Hi.
  pose proof (log2_gain_range res band) as Hg.
  unfold enc_band_numbps, dec_band_numbps. destruct (Z.ltb_spec (subband_index (pp_levels p) res band) 0); [lia|].
  split; [lia|]. f_equal.
  set (e := pp_prec p + log2_gain res band). assert (He : 0 <= e < 32) by (unfold e; lia).
  rewrite Z.shiftl_mul_pow2 by lia. unfold wrapU. change (2 ^ 3) with 8. change (2 ^ 8) with 256.
  rewrite Z.mod_small by lia. rewrite Z.shiftr_div_pow2 by lia. change (2 ^ 3) with 8.
  rewrite Z.div_mul by lia. lia.
Qed.

Lemma scale64 : forall v, - 2 ^ 25 < v < 2 ^ 25 -> PipeModel.i32 (Z.shiftl v 6) = v * 64.
Proof.
  intros v Hv. rewrite Z.shiftl_mul_pow2 by lia. change (2 ^ 6) with 64.
  apply GeoProofsSamples.wrapS32_id. change (2 ^ 25) with 33554432 in Hv. change (2 ^ 31) with 2147483648. lia.
Qed.

Lemma quot2_ojv : forall c, Z.quot (Z.sgn c * (2 * Z.abs c + 1)) 2 = c.
Proof.
  intros c. destruct (Z.lt_trichotomy c 0) as [H|[H|H]].
  - rewrite Z.sgn_neg, Z.abs_neq by lia. replace (-1 * (2 * - c + 1)) with (- (2 * (- c) + 1)) by ring.
    rewrite Z.quot_opp_l by lia. rewrite Z.quot_div_nonneg by lia.
    replace (2 * - c + 1) with (1 + (- c) * 2) by ring. rewrite Z.div_add by lia. change (1 / 2) with 0. lia.
  - subst. reflexivity.
  - rewrite Z.sgn_pos, Z.abs_eq by lia. rewrite Z.mul_1_l. rewrite Z.quot_div_nonneg by lia.
    replace (2 * c + 1) with (1 + c * 2) by ring. rewrite Z.div_add by lia. change (1 / 2) with 0. lia.
Qed.

Section Block.
Variable p : pparams.
Hypothesis HP : 1 <= pp_prec p <= 16.

(* what T2 has to deliver for the block *)
Definition delivers (b : eblock) (ci : cbinfo) : Prop :=
  ci_data ci = eb_data b /\ ci_passes ci = eb_npt b /\ ci_zbp ci = eb_zbp b /\ ci_zbpset ci = true /\ ci_pl ci = None.

Lemma enc_code_block_spec : forall res cb cbx cby, rb_valid p res (GM.cb_band cb) -> coef_ok cb ->
  exists b, enc_code_block p res cb cbx cby = Ok b /\
    eb_cbx b = cbx /\ eb_cby b = cby /\ eb_included b = false /\ eb_nlb b = 0 /\ 0 <= eb_zbp b < 32 /\
    eb_ld b = None /\ eb_lp b = [] /\ eb_pl b = [] /\ eb_passes b = [] /\ eb_termall b = false /\
    0 < zlen (eb_data b) /\ 1 <= eb_npt b <= 164 /\
    forall m idx x0 y0 ci, 0 <= GM.cb_band cb <= 3 ->
      aget key2_eqb m (res, idx) = Some ci -> delivers b ci ->
      dec_code_block p m idx (res, (x0, y0, x0 + GM.cb_w cb, y0 + GM.cb_h cb, GM.cb_band cb)) =
        Ok (x0, y0, x0 + GM.cb_w cb, y0 + GM.cb_h cb, GM.cb_data cb).
Proof.
  intros res cb cbx cby Hv (Hlen & Hw & Hh & Hrng).
  destruct (band_numbps_agree p res (GM.cb_band cb) HP Hv) as [Ebn Edn].
  pose proof (log2_gain_range res (GM.cb_band cb)) as Hg.
  set (bn := pp_prec p + log2_gain res (GM.cb_band cb) + 1) in *.
  assert (Hbn : 2 <= bn <= 19) by (unfold bn; lia).
  unfold enc_code_block. rewrite Ebn.
  set (cs := GM.cb_data cb) in *.
  assert (Ed : map (fun v => PipeModel.i32 (Z.shiftl v 6)) cs = map (fun c => c * 64) cs).
  { apply map_ext_in. intros v Hvin. apply scale64. apply Hrng. exact Hvin. }
  rewrite Ed. set (data := map (fun c => c * 64) cs).
  set (wn := Z.to_nat (GM.cb_w cb)) in *. set (hn := Z.to_nat (GM.cb_h cb)) in *.
  assert (Hok : data_ok data).
  { intros v Hvin. unfold data in Hvin. apply in_map_iff in Hvin as [c [<- Hc]]. pose proof (Hrng c Hc) as Hr.
    change (2 ^ 25) with 33554432 in Hr. change (2 ^ 31) with 2147483648. lia. }
  destruct (Z.leb_spec bn 0); [lia|].
  destruct (find_max_bitplane_spec data Hok) as [[Em Hz]|[Hm Hsh]].
  - (* the all-zero block *)
    assert (Hcs : cs = repeat 0 (wn * hn)).
    { rewrite <- Hlen. clear - Hz. unfold data in Hz. induction cs as [|c cs IH]; [reflexivity|]. cbn [length repeat].
      f_equal; [|apply IH; intros v Hv; apply Hz; right; exact Hv].
      assert (c * 64 = 0) by (apply Hz; left; reflexivity). lia. }
    assert (Hdz : data = repeat 0 (wn * hn)).
    { unfold data. rewrite Hcs. clear. induction (wn * hn)%nat as [|n IH]; [reflexivity|]. cbn [repeat map]. rewrite IH. reflexivity. }
    unfold cblk_numbps. rewrite Em. cbn [Z.ltb Z.compare Z.gtb Z.sub Z.opp Z.add Z.leb].
    change (-1 <? 0) with true. cbv iota. change (0 >? 0) with false. cbv iota. rewrite Z.sub_0_r.
    destruct (Z.ltb_spec bn 0); [lia|].
    destruct (t1_tile_decode_zero_block wn hn (GM.cb_band cb)) as [Ee Edz].
    { unfold wn. lia. } { unfold hn. lia. }
    { destruct Hv as [_ [[_ ->]|[_ ?]]]; lia. }
    rewrite Hdz, Ee. eexists. split; [reflexivity|].
    unfold mk_eblock. cbn [eb_cbx eb_cby eb_included eb_nlb eb_zbp eb_ld eb_lp eb_pl eb_passes eb_termall eb_data eb_npt].
    repeat (split; [first [reflexivity | lia | (change (zlen [255; 127]) with 2; lia)]|]).
    intros m idx x0 y0 ci Hband Hget (D1 & D2 & D3 & D4 & D5).
    cbn [eb_data eb_npt eb_zbp] in D1, D2, D3.
    unfold dec_code_block. rewrite Hget.
    replace (x0 + GM.cb_w cb - x0) with (GM.cb_w cb) by lia. replace (y0 + GM.cb_h cb - y0) with (GM.cb_h cb) by lia.
    fold wn hn.
    assert (Eest : estimate_maxbp p res (GM.cb_band cb) ci = 1).
    { unfold estimate_maxbp. rewrite D4, D3, D2, Edn. fold bn. cbn [Z.gtb Z.compare].
      change (1 >? 0) with true. cbv iota. change (Z.quot (1 + 2) 3) with 1. change (1 <=? 0) with false. cbv iota.
      destruct (Z.gtb_spec bn 0); [|lia]. rewrite Z.sub_diag. change (0 >? 0) with false. cbv iota.
      reflexivity. }
    rewrite Eest. rewrite D2. change (1 =? 0) with false. cbv iota.
    unfold should_decode. rewrite D1, D5. change (zlen [255; 127] =? 0) with false. change (1 <? 0) with false. cbn [orb negb].
    rewrite Edz. fold cs. rewrite Hcs. f_equal. f_equal.
    clear. induction (wn * hn)%nat as [|n IH]; [reflexivity|]. cbn [repeat map]. rewrite IH. reflexivity.
  - (* a block with a non-zero coefficient *)
    set (mb := find_max_bitplane data) in *.
    (* the top plane is at least 6: every value is a multiple of 64 *)
    assert (Hm6 : 6 <= mb).
    { unfold mb, find_max_bitplane. unfold mb, find_max_bitplane in Hm.
      set (mx := max_abs data) in *. destruct (Z.eqb_spec mx 0) as [E0|E0]; [lia|].
      assert (Hex : exists v, In v data /\ abs32 v = mx).
      { unfold mx, max_abs. clear - E0. unfold mx, max_abs in E0.
        assert (G : forall l m0, fold_left (fun m v => Z.max m (abs32 v)) l m0 = m0 \/
                                 exists v, In v l /\ abs32 v = fold_left (fun m v => Z.max m (abs32 v)) l m0).
        { induction l as [|x l IH]; intros m0; cbn [fold_left]; [left; reflexivity|].
          destruct (IH (Z.max m0 (abs32 x))) as [E|[v [Hv E]]].
          - destruct (Z.max_spec m0 (abs32 x)) as [[_ Em]|[_ Em]].
            + right. exists x. split; [left; reflexivity|]. rewrite E, Em. reflexivity.
            + left. rewrite E, Em. reflexivity.
          - right. exists v. split; [right; exact Hv | exact E]. }
        destruct (G data 0) as [E|H]; [contradiction | exact H]. }
      destruct Hex as [v [Hvin Ev]]. rewrite abs32_abs in Ev by (apply Hok; exact Hvin).
      unfold data in Hvin. apply in_map_iff in Hvin as [c [<- Hc]].
      assert (Hc0 : c <> 0) by (intros ->; cbn in Ev; lia).
      assert (64 <= mx) by (rewrite <- Ev; lia).
      change 6 with (Z.log2 64). apply Z.log2_le_mono. exact H0. }
    set (n := mb + 1 - 6).
    assert (Hn : 1 <= n <= 25) by (unfold n; lia).
    destruct (t1_tile_decode_roundtrip wn hn (GM.cb_band cb) cs Hlen Hrng) as [bytes [Ee Edc]].
    { fold data. fold mb. fold n. lia. }
    fold data mb n in Ee, Edc.
    assert (Ecb : cblk_numbps data = n).
    { unfold cblk_numbps. fold mb. destruct (Z.ltb_spec mb 0); [lia|]. fold n. destruct (Z.ltb_spec n 0); [lia | reflexivity]. }
    rewrite Ecb. destruct (Z.gtb_spec n 0); [|lia]. rewrite Ee.
    assert (Hne : bytes <> []).
    { intros ->. unfold dec_with_options in Edc. discriminate. }
    set (zbp := if bn - n <? 0 then 0 else bn - n).
    assert (Hz : 0 <= zbp < 32) by (unfold zbp; destruct (Z.ltb_spec (bn - n) 0); lia).
    eexists. split; [reflexivity|].
    unfold mk_eblock. cbn [eb_cbx eb_cby eb_included eb_nlb eb_zbp eb_ld eb_lp eb_pl eb_passes eb_termall eb_data eb_npt].
    assert (Hzl : 0 < zlen bytes).
    { destruct bytes; [congruence|]. unfold zlen. cbn [length]. lia. }
    repeat (split; [first [reflexivity | lia | exact Hzl | exact Hz]|]).
    intros m idx x0 y0 ci Hband Hget (D1 & D2 & D3 & D4 & D5).
    cbn [eb_data eb_npt eb_zbp] in D1, D2, D3. fold zbp in D3.
    unfold dec_code_block. rewrite Hget.
    replace (x0 + GM.cb_w cb - x0) with (GM.cb_w cb) by lia. replace (y0 + GM.cb_h cb - y0) with (GM.cb_h cb) by lia.
    fold wn hn.
    assert (Eest : estimate_maxbp p res (GM.cb_band cb) ci = n).
    { unfold estimate_maxbp. rewrite D4, D3, D2, Edn. fold bn.
      destruct (Z.gtb_spec (n * 3 - 2) 0); [|lia].
      replace (n * 3 - 2 + 2) with (n * 3) by lia. rewrite Z.quot_mul by lia.
      destruct (Z.leb_spec n 0); [lia|]. destruct (Z.gtb_spec bn 0); [|lia].
      unfold zbp. destruct (Z.ltb_spec (bn - n) 0).
      - rewrite Z.sub_0_r. destruct (Z.gtb_spec bn 0); [|lia].
        destruct (Z.geb_spec n 0); [|lia]. destruct (Z.geb_spec bn 0); [|lia]. cbn [andb].
        destruct (Z.gtb_spec n bn); [|lia]. destruct (Z.ltb_spec n (-1)); [lia | reflexivity].
      - replace (bn - (bn - n)) with n by lia. destruct (Z.gtb_spec n 0); [|lia].
        destruct (Z.geb_spec n 0); [|lia]. cbn [andb]. destruct (Z.gtb_spec n n); [lia|].
        destruct (Z.ltb_spec n (-1)); [lia | reflexivity]. }
    rewrite Eest, D2. destruct (Z.eqb_spec (n * 3 - 2) 0); [lia|].
    unfold should_decode. rewrite D1, D5.
    destruct (Z.eqb_spec (zlen bytes) 0); [lia|]. destruct (Z.ltb_spec n 0); [lia|]. cbn [orb negb].
    rewrite Edc. f_equal. f_equal. rewrite map_map. rewrite <- (map_id cs) at 2. apply map_ext. intros c. apply quot2_ojv.
Qed.

End Block.
