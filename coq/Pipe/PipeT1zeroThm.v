(* The all-zero code-block through the real coders: the encoder sends the flush of a fresh MQ
   encoder (bytes FF 7F) with one coding pass; the tile decoder decodes ONE cleanup pass at
   bit-plane 1 from these two bytes (DecodeWithBitplane(data, 1, 1, 0), OpenJPEG
   reconstruction) and gets the all-zero block back, for every block shape and orientation. *)
From V Require Import Common.Base T1.T1Store T1.T1Ctx T1.T1Model T1.T1Bytes.
From V Require Import MQ.MqModel T1.T1ProofsBase Pipe.PipeT1zeroMq.

(* ---------- generic loop rule ---------- *)
Lemma zt_loop_d : forall (S : Type) (P : S -> Prop) (f : Z -> S -> outcome S),
  (forall j s, P s -> exists s', f j s = Ok s' /\ P s') ->
  forall n i s, P s -> exists s', loop_d n i f s = Ok s' /\ P s'.
Proof.
  intros S P f Hf. induction n as [|n IH]; intros i s Hs.
  - exists s. split; [reflexivity|exact Hs].
  - cbn [loop_d]. destruct (Hf i s Hs) as (s1 & E1 & H1). rewrite E1. cbn [obind].
    apply IH. exact H1.
Qed.

(* ---------- flags that are zero everywhere ---------- *)
Definition allz (F : tree) : Prop := forall j, fget F j = 0.

Lemma allz_leaf : allz Leaf.
Proof. intro j. apply fget_leaf. Qed.

Lemma allz_clrf : forall F i m, allz F -> allz (clrf F i m).
Proof.
  intros F i m H j. rewrite fget_clrf. rewrite (H j).
  destruct (Pos.eqb (key j) (key i)); [apply Z.ldiff_0_l|reflexivity].
Qed.

Lemma has_0 : forall m, has 0 m = false.
Proof. intros. unfold has. rewrite Z.land_0_l. reflexivity. Qed.

Lemma zc_ctx_t_0 : forall orient, 0 <= orient <= 3 -> zc_ctx_t 0 orient = 0.
Proof.
  intros orient H.
  assert (E : orient = 0 \/ orient = 1 \/ orient = 2 \/ orient = 3) by lia.
  destruct E as [E|[E|[E|E]]]; subst orient; vm_compute; reflexivity.
Qed.

Lemma rl_ok_allz : forall F w x k, allz F -> rl_ok F w x k = true.
Proof.
  intros F w x k H. unfold rl_ok, rl_sample_ok. rewrite !H, !has_0. reflexivity.
Qed.

(* ---------- the channel ---------- *)
Definition zco (c : coder) : Prop := exists d, c = CoMQ d /\ zinv d.

Lemma zt_ask : forall c ctx, zco c -> (ctx = 0 \/ ctx = 17) ->
  exists c', coder_ask c 0 ctx = Ok (c', 0) /\ zco c'.
Proof.
  intros c ctx (d & -> & Hd) Hctx. unfold coder_ask. cbn [Z.eqb].
  destruct (zq_decode d ctx Hd Hctx) as (d' & E & Hd'). rewrite E. cbn [obind fst snd].
  exists (CoMQ d'). split; [reflexivity|]. exists d'. auto.
Qed.

(* decoder state: flags all zero, data untouched, coder in the invariant *)
Definition zst (D0 : tree) (st : dstate * coder) : Prop :=
  allz (fst (fst st)) /\ snd (fst st) = D0 /\ zco (snd st).

Definition zstp (D0 : tree) (st : (dstate * bool) * coder) : Prop :=
  allz (fst (fst (fst st))) /\ snd (fst (fst st)) = D0 /\ snd (fst st) = false /\ zco (snd st).

Lemma zt_cup_sample : forall D0 w orient bp oj x y st, 0 <= orient <= 3 -> zstp D0 st ->
  exists st', dec_cup_sample coder_ask w orient bp oj x y st = Ok st' /\ zstp D0 st'.
Proof.
  intros D0 w orient bp oj x y [[[F D] partial] c] Ho (HF & HD & Hp & Hc).
  cbn [fst snd] in HF, HD, Hp, Hc. subst D partial.
  unfold dec_cup_sample. cbv zeta. rewrite (HF (idx_of w x y)), !has_0. cbn [orb].
  rewrite zc_ctx_t_0 by exact Ho.
  destruct (zt_ask c 0 Hc (or_introl eq_refl)) as (c1 & E & Hc1). rewrite E. cbn [obind Z.eqb].
  eexists. split; [reflexivity|]. unfold zstp. cbn [fst snd].
  split; [apply allz_clrf; exact HF|]. auto.
Qed.

Lemma zt_cup_col : forall D0 w h orient bp oj k n x st, 0 <= orient <= 3 -> zst D0 st ->
  exists st', dec_cup_col coder_ask w h orient bp oj k n x st = Ok st' /\ zst D0 st'.
Proof.
  intros D0 w h orient bp oj k n x [[F D] c] Ho (HF & HD & Hc).
  cbn [fst snd] in HF, HD, Hc. subst D.
  unfold dec_cup_col. rewrite (rl_ok_allz F w x k HF), andb_true_r.
  destruct (k + 3 <? h).
  - change CTXRL with 17.
    destruct (zt_ask c 17 Hc (or_intror eq_refl)) as (c1 & E & Hc1). rewrite E. cbn [obind Z.eqb].
    eexists. split; [reflexivity|]. unfold zst. cbn [fst snd]. auto.
  - destruct (zt_loop_d _ (zstp D0) (fun dy => dec_cup_sample coder_ask w orient bp oj x (k + dy))
                (fun j s Hs => zt_cup_sample D0 w orient bp oj x (k + j) s Ho Hs)
                n 0 (((F, D0), false), c)) as (s' & E & Hs').
    + unfold zstp. cbn [fst snd]. auto.
    + rewrite E. cbn [obind]. eexists. split; [reflexivity|].
      destruct Hs' as (H1 & H2 & H3 & H4). unfold zst, drop_partial. cbn [fst snd]. auto.
Qed.

Lemma zt_cup_pass : forall D0 wn hn orient bp oj st, 0 <= orient <= 3 -> zst D0 st ->
  exists st', dec_pass coder_ask wn hn orient 0 bp 2 false oj st = Ok st' /\ zst D0 st'.
Proof.
  intros D0 wn hn orient bp oj st Ho Hst. unfold dec_pass. cbv zeta.
  change (2 =? 0) with false. change (2 =? 1) with false. cbv iota.
  change (negb (Z.land 0 CblkStyleSegsym =? 0)) with false. cbv iota.
  match goal with |- exists st', obind (loop_d ?n ?i ?f ?s) _ = _ /\ _ =>
    assert (Hf : forall j s0, zst D0 s0 -> exists s', f j s0 = Ok s' /\ zst D0 s');
    [|destruct (zt_loop_d _ (zst D0) f Hf n i s Hst) as (s' & E & Hs')] end.
  - intros j s Hs. apply zt_loop_d; [|exact Hs].
    intros x s1 Hs1. apply zt_cup_col; assumption.
  - rewrite E. cbn [obind]. exists s'. auto.
Qed.

(* ---------- GetData of the untouched store ---------- *)
Lemma zt_row : forall w y n s,
  map (fun x => fget Leaf (idx_of w (Z.of_nat x) y)) (seq s n) = repeat 0 n.
Proof.
  intros w y. induction n as [|n IH]; intros s; [reflexivity|].
  cbn [seq map repeat]. rewrite fget_leaf, IH. reflexivity.
Qed.

Lemma zt_rows : forall w wn hn s,
  flat_map (fun y => map (fun x => fget Leaf (idx_of w (Z.of_nat x) (Z.of_nat y))) (seq 0 wn)) (seq s hn)
  = repeat 0 (hn * wn).
Proof.
  intros w wn. induction hn as [|hn IH]; intros s; [reflexivity|].
  cbn [seq flat_map]. rewrite IH, zt_row. cbn [Nat.mul]. rewrite repeat_app. reflexivity.
Qed.

Lemma zt_get_data : forall wn hn, get_data wn hn Leaf = repeat 0 (wn * hn).
Proof. intros wn hn. unfold get_data. rewrite zt_rows, Nat.mul_comm. reflexivity. Qed.

(* ---------- encoder side ---------- *)
Lemma zt_fold_zero : forall n, fold_left (fun m v => Z.max m (abs32 v)) (repeat 0 n) 0 = 0.
Proof. induction n as [|n IH]; [reflexivity|]. cbn [repeat fold_left]. exact IH. Qed.

Lemma zt_enc : forall wn hn orient,
  T1Bytes.enc_plain wn hn orient 0 6 1 (repeat 0 (wn * hn)) = Ok [255; 127].
Proof.
  intros. unfold enc_plain, find_max_bitplane, max_abs. rewrite zt_fold_zero.
  cbn [Z.eqb Z.ltb Z.compare]. vm_compute. reflexivity.
Qed.

(* ---------- decoder side ---------- *)
Lemma zt_init : exists d, MqModel.dec_new [255; 127] nctx = Ok d /\ zinv (set3_d d).
Proof.
  eexists. split; [vm_compute; reflexivity|].
  unfold zinv, zreg, zcx, zpos.
  split; [vm_compute; split; congruence|].
  split; [|repeat split; vm_compute; reflexivity].
  split; [vm_compute; split; congruence|].
  split; [vm_compute; reflexivity|]. split; [vm_compute; reflexivity|].
  right. repeat split; vm_compute; reflexivity.
Qed.

Theorem t1_tile_decode_zero_block : forall (wn hn : nat) (orient : Z),
  (1 <= wn)%nat -> (1 <= hn)%nat -> 0 <= orient <= 3 ->
  T1Bytes.enc_plain wn hn orient 0 6 1 (repeat 0 (wn * hn)) = Ok [255; 127] /\
  T1Bytes.dec_with_options wn hn orient 0 1 true false [255; 127] 1 = Ok (repeat 0 (wn * hn)).
Proof.
  intros wn hn orient _ _ Ho. split; [apply zt_enc|].
  unfold dec_with_options. cbv zeta.
  destruct zt_init as (d0 & E0 & Hd0). rewrite E0. cbn [obind].
  change (pass_list 1 0 1) with [(1, 2)].
  cbn [dec_passes]. change (0 =? 0) with true. change (start_bitplane 2 true) with true. cbv iota.
  change (clear_visit Leaf) with Leaf. change (is_lazy_raw 1 1 2 0) with false. cbn [obind].
  destruct (zt_cup_pass Leaf wn hn orient 1 true ((Leaf, Leaf), CoMQ (set3_d d0)) Ho) as (st' & E & HF & HD & Hc).
  - unfold zst. cbn [fst snd]. split; [exact allz_leaf|]. split; [reflexivity|]. exists (set3_d d0). auto.
  - rewrite E. cbn [obind]. unfold opt_post. cbn [obind fst snd]. rewrite HD. rewrite zt_get_data. reflexivity.
Qed.

Print Assumptions t1_tile_decode_zero_block.
