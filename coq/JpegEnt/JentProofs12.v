(* 12-bit extended sequential decoder (jpeg/extended/sequential12.go), entropy part:
   totality (C08/C09): for any DHT payloads and any bytes after the SOS header the result is
   Ok or Err; an accepted scan of N blocks has at least N/4 bytes. *)
From V Require Import Common.Base JpegLL.JllBits JpegLL.JllHuff JpegLL.JllProofsBits
  JpegLL.JllProofsHuff JpegDCT.DctRestart JpegEnt.JentModel JpegEnt.JentProofsTotal
  JpegEnt.JentProofsWork.

Lemma dec_ac12_safe : forall fuel act k zz st, tab_nonneg act ->
  (Z.to_nat (64 - k) < fuel)%nat -> safe (dec_ac12 fuel act k zz st).
Proof.
  induction fuel as [|f IH]; intros act k zz st Ht Hf; [lia|].
  cbn [dec_ac12]. destruct (Z.leb_spec 64 k); [exact I|].
  destruct (huff_decode act st) as [[rs st1]|] eqn:E; [|exact I].
  pose proof (huff_decode_nonneg _ _ _ _ Ht E) as Hrs.
  destruct (Z.land rs 15 =? 0).
  - destruct (Z.shiftr rs 4 =? 15); [|exact I]. apply IH; [exact Ht | lia].
  - assert (0 <= Z.shiftr rs 4) by (apply Z.shiftr_nonneg; exact Hrs).
    destruct (Z.leb_spec 64 (k + Z.shiftr rs 4)); [exact I|].
    destruct (receive_extend st1 (Z.land rs 15)) as [[v st2]|]; [|exact I].
    apply IH; [exact Ht | lia].
Qed.

Lemma dec_block12_safe : forall dt at_ pred st, tab_nonneg at_ -> safe (dec_block12 dt at_ pred st).
Proof.
  intros dt at_ pred st Ha. unfold dec_block12.
  destruct (huff_decode dt st) as [[s st1]|]; [|exact I].
  destruct (receive_extend st1 s) as [[diff st2]|]; [|exact I].
  apply safe_obind; [|intros; exact I]. apply dec_ac12_safe; [exact Ha | cbn; lia].
Qed.

Lemma dec_blocks12_safe : forall n dt at_ pred st, tab_nonneg at_ -> safe (dec_blocks12 n dt at_ pred st).
Proof.
  induction n as [|n IH]; intros; cbn [dec_blocks12]; [exact I|].
  apply safe_obind; [apply dec_block12_safe; assumption|]. intros r1 _.
  apply safe_obind; [apply IH; assumption|]. intros; exact I.
Qed.

Definition opt_nonneg (o : option htable) : Prop := match o with Some t => tab_nonneg t | None => True end.
Definition dht12_post (r : outcome (option htable * option htable)) : Prop :=
  match r with
  | Ok (d, a) => opt_nonneg d /\ opt_nonneg a
  | Err => True
  | _ => False
  end.

Lemma parse_dht12_safe : forall fuel data dt at_,
  bytes_ok data -> (length data <= fuel)%nat -> opt_nonneg dt -> opt_nonneg at_ ->
  dht12_post (parse_dht12 fuel data dt at_).
Proof.
  induction fuel as [|f IH]; intros data dt at_ Hb Hf Hd Ha.
  - destruct data; [cbn; auto | cbn [length] in Hf; lia].
  - destruct data as [|cid rest]; [cbn; auto|].
    cbn [parse_dht12]. inversion Hb as [|? ? _ Hb']; subst. cbn [length] in Hf.
    destruct (length rest <? 16)%nat; [exact I|].
    destruct (negb (Z.land cid 15 =? 0) || (1 <? Z.shiftr cid 4)); [exact I|].
    destruct (zlen (skipn 16 rest) <? zsum (firstn 16 rest)); [exact I|].
    set (total := Z.to_nat (zsum (firstn 16 rest))).
    pose proof (build_table_safe (firstn 16 rest) (firstn total (skipn 16 rest))) as Hs.
    destruct (build_table (firstn 16 rest) (firstn total (skipn 16 rest))) as [t| | |] eqn:Eb;
      cbn in Hs; try contradiction; [|exact I].
    cbn [obind].
    assert (Ht : tab_nonneg t).
    { unfold tab_nonneg. rewrite (build_table_vals _ _ _ Eb).
      eapply Forall_impl; [|apply bytes_ok_firstn, bytes_ok_skipn; exact Hb']. cbn. intros; lia. }
    assert (Hr : bytes_ok (skipn total (skipn 16 rest))) by (apply bytes_ok_skipn, bytes_ok_skipn; exact Hb').
    assert (Hl : (length (skipn total (skipn 16 rest)) <= f)%nat) by (rewrite !skipn_length; lia).
    destruct (Z.shiftr cid 4 =? 0); apply IH; assumption.
Qed.

Lemma parse_dhts12_safe : forall payloads dt at_,
  Forall bytes_ok payloads -> opt_nonneg dt -> opt_nonneg at_ ->
  dht12_post (parse_dhts12 payloads dt at_).
Proof.
  induction payloads as [|p ps IH]; intros dt at_ Hb Hd Ha; [cbn; auto|].
  inversion Hb as [|? ? Hp Hps]; subst. cbn [parse_dhts12].
  pose proof (parse_dht12_safe (length p) p dt at_ Hp (le_n _) Hd Ha) as H.
  destruct (parse_dht12 (length p) p dt at_) as [[d a]| | |]; cbn in H; try contradiction; [|exact I].
  cbn [obind fst snd]. destruct H as [H1 H2]. apply IH; assumption.
Qed.

(* extended.Decode (12 bit) after the headers: any DHT payloads, any bytes, any declared size *)
Theorem ent_decode12_total : forall payloads nblocks rest,
  Forall bytes_ok payloads -> safe (ent_decode12 payloads nblocks rest).
Proof.
  intros payloads nblocks rest Hb. unfold ent_decode12.
  pose proof (parse_dhts12_safe payloads None None Hb I I) as H.
  destruct (parse_dhts12 payloads None None) as [[d a]| | |]; cbn in H; try contradiction; [|exact I].
  cbn [obind fst snd]. destruct H as [H1 H2].
  destruct d as [dt|]; [|exact I]. destruct a as [at_|]; [|exact I].
  destruct (split12 rest []); [|exact I]. apply dec_blocks12_safe. exact H2.
Qed.

(* ---------- work ---------- *)
Lemma dec_ac12_meas : forall fuel act k zz st zz' st', tab_nonneg act -> rinv st ->
  dec_ac12 fuel act k zz st = Ok (zz', st') ->
  rmeas st' + (if k <? 64 then 1 else 0) <= rmeas st /\ rinv st'.
Proof.
  induction fuel as [|f IH]; intros act k zz st zz' st' Ht Hi H; cbn [dec_ac12] in H.
  - destruct (Z.leb_spec 64 k); [|discriminate]. injection H as _ <-.
    destruct (Z.ltb_spec k 64); [lia|]. split; [lia | assumption].
  - destruct (Z.leb_spec 64 k) as [Hk|Hk].
    + injection H as _ <-. destruct (Z.ltb_spec k 64); [lia|]. split; [lia | assumption].
    + destruct (Z.ltb_spec k 64); [|lia].
      destruct (huff_decode act st) as [[rs st1]|] eqn:E; [|discriminate].
      pose proof (huff_decode_nonneg _ _ _ _ Ht E) as Hrs.
      unfold huff_decode in E. destruct (decode_loop_meas _ _ _ _ _ _ Hi E) as [M1 I1].
      destruct (Z.land rs 15 =? 0).
      * destruct (Z.shiftr rs 4 =? 15).
        -- destruct (IH _ _ _ _ _ _ Ht I1 H) as [M2 I2]. split; [|assumption].
           destruct (k + 16 <? 64); lia.
        -- injection H as _ <-. split; [lia | assumption].
      * destruct (64 <=? k + Z.shiftr rs 4); [discriminate|].
        destruct (receive_extend st1 (Z.land rs 15)) as [[v st2]|] eqn:Er; [|discriminate].
        assert (Hs : 0 <= Z.land rs 15) by (apply Z.land_nonneg; right; lia).
        destruct (receive_extend_meas _ _ _ _ I1 Hs Er) as [M2 I2].
        destruct (IH _ _ _ _ _ _ Ht I2 H) as [M3 I3]. split; [|assumption].
        destruct (k + Z.shiftr rs 4 + 1 <? 64); lia.
Qed.

Lemma dec_blocks12_meas : forall n dt at_ pred st bl, tab_nonneg dt -> tab_nonneg at_ -> rinv st ->
  dec_blocks12 n dt at_ pred st = Ok bl -> length bl = n /\ 2 * Z.of_nat n <= rmeas st.
Proof.
  induction n as [|n IH]; intros dt at_ pred st bl Hd Ha Hi H; cbn [dec_blocks12] in H.
  - injection H as <-. split; [reflexivity|]. unfold rmeas, rinv, zlen in *. lia.
  - unfold dec_block12 in H.
    destruct (huff_decode dt st) as [[s st1]|] eqn:E; cbn [obind] in H; [|discriminate].
    pose proof (huff_decode_nonneg _ _ _ _ Hd E) as Hs.
    unfold huff_decode in E. destruct (decode_loop_meas _ _ _ _ _ _ Hi E) as [M1 I1].
    destruct (receive_extend st1 s) as [[diff st2]|] eqn:Er; cbn [obind] in H; [|discriminate].
    destruct (receive_extend_meas _ _ _ _ I1 Hs Er) as [M2 I2].
    destruct (dec_ac12 64 at_ 1 _ st2) as [[zz1 st3]| | |] eqn:Eac; cbn [obind] in H; try discriminate.
    destruct (dec_ac12_meas _ _ _ _ _ _ _ Ha I2 Eac) as [M3 I3]. change (1 <? 64) with true in M3. cbv iota in M3.
    cbn [fst snd] in H.
    destruct (dec_blocks12 n dt at_ _ st3) as [bl2| | |] eqn:Er2; cbn [obind] in H; try discriminate.
    destruct (IH _ _ _ _ _ Hd Ha I3 Er2) as [L2 M4]. injection H as <-. cbn [length]. split; lia.
Qed.

Lemma split12_len : forall data cur scan, split12 data cur = Some scan -> zlen scan <= zlen data + zlen cur.
Proof.
  assert (Hn : forall n data, (length data <= n)%nat -> forall cur scan,
            split12 data cur = Some scan -> zlen scan <= zlen data + zlen cur).
  { induction n as [|n IH]; intros data Hl cur scan H.
    - destruct data; [|cbn in Hl; lia]. cbn in H. injection H as <-. unfold zlen. rewrite rev_length. cbn. lia.
    - destruct data as [|b t]; cbn [split12] in H.
      + injection H as <-. unfold zlen. rewrite rev_length. cbn. lia.
      + cbn [length] in Hl. destruct (b =? 255).
        * destruct t as [|b2 t2]; [discriminate|]. cbn [length] in Hl.
          assert (Hlt : (length t2 <= n)%nat) by lia.
          destruct (b2 =? 0).
          -- pose proof (IH t2 Hlt _ _ H). unfold zlen in *. cbn [length] in *. lia.
          -- destruct (is_rst b2).
             ++ pose proof (IH t2 Hlt _ _ H). unfold zlen in *. cbn [length] in *. lia.
             ++ injection H as <-. unfold zlen. rewrite rev_length. cbn [length]. lia.
        * assert (Hlt : (length t <= n)%nat) by lia.
          pose proof (IH t Hlt _ _ H). unfold zlen in *. cbn [length] in *. lia. }
  intros data. apply (Hn (length data)). lia.
Qed.

(* an accepted 12-bit scan returns the declared number of blocks, at most 4 per input byte *)
Theorem ent_decode12_work : forall payloads nblocks rest bl,
  Forall bytes_ok payloads -> ent_decode12 payloads nblocks rest = Ok bl ->
  length bl = nblocks /\ Z.of_nat nblocks <= 4 * zlen rest.
Proof.
  intros payloads nblocks rest bl Hb H. unfold ent_decode12 in H.
  pose proof (parse_dhts12_safe payloads None None Hb I I) as Hp.
  destruct (parse_dhts12 payloads None None) as [[d a]| | |]; cbn in Hp; try contradiction;
    cbn [obind fst snd] in H; try discriminate.
  destruct Hp as [H1 H2]. destruct d as [dt|]; [|discriminate]. destruct a as [at_|]; [|discriminate].
  destruct (split12 rest []) as [scan|] eqn:Es; [|discriminate].
  apply split12_len in Es. change (zlen (@nil Z)) with 0 in Es.
  assert (I0 : rinv (r_init scan)) by (unfold rinv; cbn; lia).
  destruct (dec_blocks12_meas _ _ _ _ _ _ H1 H2 I0 H) as [L M].
  unfold rmeas in M. cbn [r_init r_n r_rest] in M. split; [exact L | lia].
Qed.
