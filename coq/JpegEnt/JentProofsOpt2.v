(* A concrete instance of the hypotheses of opt_scan_roundtrip (JentProofsOpt1): the interleaved
   two-MCU scan of JentProofsEx (tables 0,1,1) with the four tables built by
   BuildOptimalHuffmanTable from the histograms of the scan's own symbols. *)
From V Require Import Common.Base JpegLL.JllBits JpegLL.JllHuff JpegLL.JllT81
  JpegLL.JllProofsBits JpegLL.JllProofsHuff JpegDCT.DctZigzag JpegDCT.DctRestart
  JpegEnt.JentModel JpegEnt.JentProofsBlock JpegEnt.JentProofsScan JpegEnt.JentProofsNat
  JpegEnt.JentProofsEx JpegEnt.JentProofsOpt1.

Definition opt_tab (syms : list Z) : list Z * list Z :=
  match build_optimal (hist syms) with Ok bv => bv | _ => ([], []) end.

Definition ex_tabs : list Z := [0; 1; 1].
Definition ex_zeros : list Z := [0; 0; 0].
Definition ex_opt_d (t : Z) := opt_tab (scan_dc_syms t ex_tabs ex_zeros ex_mcus).
Definition ex_opt_a (t : Z) := opt_tab (scan_ac_syms t ex_tabs ex_mcus).
Definition ex_opt_codes : list (list (Z * Z) * list (Z * Z)) :=
  codes_of_tables [(fst (ex_opt_d 0), snd (ex_opt_d 0), fst (ex_opt_a 0), snd (ex_opt_a 0));
                   (fst (ex_opt_d 1), snd (ex_opt_d 1), fst (ex_opt_a 1), snd (ex_opt_a 1))].
Definition ex_opt_dcT : list (option htable) :=
  [Some (ht_of (fst (ex_opt_d 0)) (snd (ex_opt_d 0))); Some (ht_of (fst (ex_opt_d 1)) (snd (ex_opt_d 1))); None; None].
Definition ex_opt_acT : list (option htable) :=
  [Some (ht_of (fst (ex_opt_a 0)) (snd (ex_opt_a 0))); Some (ht_of (fst (ex_opt_a 1)) (snd (ex_opt_a 1))); None; None].

Lemma ent_range_forallb : forall l, forallb (fun v => (-32767 <=? v) && (v <=? 32767)) l = true ->
  Forall ent_range l.
Proof.
  intros l H. apply Forall_forall. intros x Hx. pose proof (proj1 (forallb_forall _ _) H x Hx) as Hb.
  cbv beta in Hb. apply andb_true_iff in Hb. destruct Hb as [H1 H2]. unfold ent_range. lia.
Qed.

Lemma ex_opt_shape : mcus_shape ex_tabs (map (fun _ => 0) ex_tabs) ex_mcus.
Proof.
  unfold ex_mcus, ex_tabs. cbn [mcus_shape mcu_shape map hd]. unfold block_shape.
  repeat match goal with
  | |- _ /\ _ => split
  | |- True => exact I
  | |- length _ = _ => reflexivity
  | |- ent_range _ => unfold ent_range; vm_compute; split; discriminate
  | |- Forall ent_range _ => apply ent_range_forallb; vm_compute; reflexivity
  | |- _ <= _ => vm_compute; discriminate
  | |- _ < _ => vm_compute; reflexivity
  end.
Qed.

Lemma ex_opt_tables : forall t, In t ex_tabs ->
  opt_tables_for ex_opt_codes ex_opt_dcT ex_opt_acT ex_tabs (map (fun _ => 0) ex_tabs) ex_mcus t /\
  zlen (scan_dc_syms t ex_tabs (map (fun _ => 0) ex_tabs) ex_mcus) < 2 ^ 63 /\
  zlen (scan_ac_syms t ex_tabs ex_mcus) < 2 ^ 63.
Proof.
  intros t Hin. unfold ex_tabs in Hin.
  assert (Ht : t = 0 \/ t = 1) by (cbn [In] in Hin; lia).
  destruct Ht as [-> | ->]; (split; [|split; vm_compute; reflexivity]);
    (eexists; eexists; eexists; eexists;
     split; [vm_compute; reflexivity|]; split; [vm_compute; reflexivity|];
     split; [vm_compute; reflexivity|]; split; vm_compute; reflexivity).
Qed.

(* the optimised DC table of index 1 has 3 symbols, the AC table of index 0 has 8 *)
Lemma ex_opt_sizes : length (snd (ex_opt_d 1)) = 3%nat /\ length (snd (ex_opt_a 0)) = 8%nat.
Proof. vm_compute. split; reflexivity. Qed.
