(* The T.81 K.3-K.6 "typical" Huffman tables (regenerated from /repo: Gen/JpegTables_gen.v)
   contain every symbol a baseline block can need: DC differences |d| <= 2047 (categories
   0..11) and AC coefficients |v| <= 1023 (categories 1..10) with any zero run.  So every such
   block satisfies block_ok for them: streams of independent encoders that use these tables
   are within the domain of ent_block_roundtrip / ent_scan_roundtrip. *)
From V Require Import Common.Base Gen.JpegTables_gen JpegLL.JllBits JpegLL.JllHuff JpegLL.JllT81
  JpegLL.JllProofsBits JpegLL.JllProofsHuff JpegEnt.JentModel JpegEnt.JentProofsBlock
  JpegEnt.JentProofsNat JpegEnt.JentProofsEx.

Definition base_ac (v : Z) : Prop := -1023 <= v <= 1023.
Definition base_dc (d : Z) : Prop := -2047 <= d <= 2047.

Lemma cat10_all : forallb (fun v => (v =? 0) || ((1 <=? fst (encode_category v)) && (fst (encode_category v) <=? 10)))
                          (seqZ (-1023) (Z.to_nat 2047)) = true.
Proof. vm_compute. reflexivity. Qed.
Lemma cat11_all : forallb (fun v => (0 <=? fst (encode_category v)) && (fst (encode_category v) <=? 11))
                          (seqZ (-2047) (Z.to_nat 4095)) = true.
Proof. vm_compute. reflexivity. Qed.

Lemma cat10 : forall v, base_ac v -> v <> 0 -> 1 <= fst (encode_category v) <= 10.
Proof.
  intros v Hv Hz. pose proof (proj1 (forallb_forall _ _) cat10_all v) as H.
  assert (Hin : In v (seqZ (-1023) (Z.to_nat 2047))) by (apply In_seqZ; unfold base_ac in Hv; lia).
  specialize (H Hin). apply orb_true_iff in H. destruct H as [H|H]; [lia|].
  apply andb_true_iff in H. lia.
Qed.
Lemma cat11 : forall d, base_dc d -> 0 <= fst (encode_category d) <= 11.
Proof.
  intros v Hv. pose proof (proj1 (forallb_forall _ _) cat11_all v) as H.
  assert (Hin : In v (seqZ (-2047) (Z.to_nat 4095))) by (apply In_seqZ; unfold base_dc in Hv; lia).
  specialize (H Hin). apply andb_true_iff in H. lia.
Qed.

(* the shape of the symbols the AC loop emits *)
Definition ac_sym_shape (s : Z) : Prop :=
  s = 0 \/ s = 240 \/ exists r c, 0 <= r <= 15 /\ 1 <= c <= 10 /\ s = 16 * r + c.

Lemma ac_syms_shape : forall l run, Forall base_ac l -> 0 <= run ->
  forall s, In s (ac_syms l run) -> ac_sym_shape s.
Proof.
  induction l as [|v l IH]; intros run Hl Hrun s Hs; cbn [ac_syms] in Hs.
  - destruct (0 <? run); [|contradiction]. destruct Hs as [<-|[]]. left. reflexivity.
  - inversion Hl as [|? ? Hv Hl']; subst.
    destruct (Z.eqb_spec v 0); [apply (IH (run + 1) Hl' ltac:(lia) s Hs)|].
    apply in_app_or in Hs. destruct Hs as [Hs|[Hs|Hs]].
    + apply repeat_spec in Hs. subst s. right. left. reflexivity.
    + pose proof (run_split run Hrun) as (R1 & _ & _). pose proof (cat10 v Hv n) as Hc.
      destruct (rs_split (Z.land run 15) (fst (encode_category v)) R1 ltac:(lia)) as (E & _ & _).
      right. right. exists (Z.land run 15), (fst (encode_category v)). subst s. repeat split; try lia.
    + apply (IH 0 Hl' ltac:(lia) s Hs).
Qed.

Definition shape_syms : list Z :=
  0 :: 240 :: flat_map (fun r => map (fun c => 16 * r + c) (seqZ 1 10)) (seqZ 0 16).
Lemma shape_in : forall s, ac_sym_shape s -> In s shape_syms.
Proof.
  intros s [->|[->|(r & c & Hr & Hc & ->)]]; [left; reflexivity | right; left; reflexivity|].
  right. right. apply in_flat_map. exists r. split; [apply In_seqZ; lia|].
  apply in_map_iff. exists c. split; [reflexivity | apply In_seqZ; lia].
Qed.

Lemma std_ac_cover : forallb (fun s => memb s ex_avL && memb s ex_avC) shape_syms = true.
Proof. vm_compute. reflexivity. Qed.
(* /repo's StandardDCLuminanceValues ends in 15 where T.81 Table K.3 has 11 (the table is
   overwritten by the optimised one before baseline.Encode uses it): category 11 is missing *)
Lemma std_dc_luma_deviation : ex_dvL = [0; 1; 2; 3; 4; 5; 6; 7; 8; 9; 10; 15] /\ ~ In 11 ex_dvL.
Proof. split; [reflexivity|]. intros H. cbn in H. repeat (destruct H as [H|H]; [discriminate|]). exact H. Qed.

Lemma std_dc_cover : forallb (fun c => memb c ex_dvC && ((c =? 11) || memb c ex_dvL)) (seqZ 0 12) = true.
Proof. vm_compute. reflexivity. Qed.

Lemma cat10_dc : forall d, -1023 <= d <= 1023 -> 0 <= fst (encode_category d) <= 10.
Proof.
  intros d Hd. destruct (Z.eq_dec d 0) as [->|N]; [cbn; lia|].
  pose proof (cat10 d Hd N). lia.
Qed.

(* K.4 / K.6 (chrominance) pair: the whole baseline range; K.3 / K.5 (luminance) pair as it
   stands in /repo: DC differences up to category 10 *)
Theorem std_tables_cover : forall pred zz,
  length zz = 64%nat -> base_dc (hd 0 zz - pred) -> - 2 ^ 31 <= hd 0 zz < 2 ^ 31 ->
  Forall base_ac (tl zz) ->
  block_ok ex_dvC ex_avC pred zz /\
  (-1023 <= hd 0 zz - pred <= 1023 -> block_ok ex_dvL ex_avL pred zz).
Proof.
  intros pred zz Hlen Hd H32 Hac.
  assert (Hr : Forall ent_range (tl zz)).
  { eapply Forall_impl; [|exact Hac]. unfold base_ac, ent_range. intros; lia. }
  assert (Hdc : memb (fst (encode_category (hd 0 zz - pred))) ex_dvC
                && ((fst (encode_category (hd 0 zz - pred)) =? 11)
                    || memb (fst (encode_category (hd 0 zz - pred))) ex_dvL) = true).
  { apply (proj1 (forallb_forall _ _) std_dc_cover). apply In_seqZ. pose proof (cat11 _ Hd). lia. }
  apply andb_true_iff in Hdc. destruct Hdc as [D1 D2].
  assert (Hacs : forall s, In s (ac_syms (tl zz) 0) -> memb s ex_avL && memb s ex_avC = true).
  { intros s Hs. apply (proj1 (forallb_forall _ _) std_ac_cover). apply shape_in.
    apply (ac_syms_shape (tl zz) 0 Hac ltac:(lia) s Hs). }
  split; [|intros Hd10];
    (split; [exact Hlen|]; split; [unfold base_dc, ent_range in *; lia|]; split; [exact H32|];
     split; [exact Hr|]; split).
  - apply memb_In. exact D1.
  - intros s Hs. apply memb_In. specialize (Hacs s Hs). apply andb_true_iff in Hacs. tauto.
  - apply memb_In. apply orb_true_iff in D2. destruct D2 as [D2|D2]; [|exact D2].
    pose proof (cat10_dc _ Hd10). lia.
  - intros s Hs. apply memb_In. specialize (Hacs s Hs). apply andb_true_iff in Hacs. tauto.
Qed.
