(* Concrete instance for ent_scan_rst_roundtrip: a 3-MCU grey scan with Ri = 2 (intervals of
   2 and 1 MCUs, one RST0 between them) and a 4-MCU interleaved scan with Ri = 1. *)
From V Require Import Common.Base JpegLL.JllBits JpegLL.JllHuff JpegLL.JllT81
  JpegLL.JllProofsBits JpegLL.JllProofsHuff JpegDCT.DctZigzag JpegDCT.DctRestart
  JpegEnt.JentModel JpegEnt.JentRst JpegEnt.JentProofsBlock JpegEnt.JentProofsScan
  JpegEnt.JentProofsNat JpegEnt.JentProofsEx JpegEnt.JentProofsRst.

Definition ex_grey_mcus : list (list (list Z)) := [[ex_zz1]; [ex_zz2]; [ex_zz1]].

Lemma ex_rst_chunks : chunks (Z.to_nat 2) ex_grey_mcus = [[[ex_zz1]; [ex_zz2]]; [[ex_zz1]]].
Proof. reflexivity. Qed.

Lemma ex_rst_ok :
  Forall (mcus_ok ex_codes ex_dcT ex_acT [0] (map (fun _ => 0) [0])) (chunks (Z.to_nat 2) ex_grey_mcus).
Proof.
  rewrite ex_rst_chunks.
  assert (B : forall p z, block_okb ex_dvL ex_avL p z = true ->
              exists dv av, tab_rel ex_codes ex_dcT ex_acT 0 dv av /\ block_ok dv av p z).
  { intros p z H. exists ex_dvL, ex_avL. split; [exact ex_tab_rel0 | apply block_okb_ok; exact H]. }
  constructor; [|constructor; [|constructor]]; cbn [mcus_ok mcu_ok map hd];
    repeat match goal with
    | |- _ /\ _ => split
    | |- True => exact I
    | |- exists dv av, _ => apply B; vm_compute; reflexivity
    end.
Qed.

Lemma ex_rst_eval :
  enc_scan_rst ex_codes [0] 2 ex_grey_mcus
  = enc_scan_bytes ex_codes [0] [[ex_zz1]; [ex_zz2]] ++ [255; 208] ++ enc_scan_bytes ex_codes [0] [[ex_zz1]] /\
  dec_scan ex_dcT ex_acT (map comp_of [0]) 2 3 (enc_scan_rst ex_codes [0] 2 ex_grey_mcus ++ [255; 217])
  = Ok [(0, ex_zz1); (0, ex_zz2); (0, ex_zz1)] /\
  (* one interval too few for the declared MCU count: ErrInvalidData *)
  dec_scan ex_dcT ex_acT (map comp_of [0]) 1 3 (enc_scan_rst ex_codes [0] 2 ex_grey_mcus ++ [255; 217]) = Err /\
  (* interleaved, Ri = 1: RST0, RST1, RST2 *)
  dec_scan ex_dcT ex_acT (map comp_of [0; 1; 1]) 1 4
    (enc_scan_rst ex_codes [0; 1; 1] 1 (ex_mcus ++ ex_mcus) ++ [255; 217])
  = Ok (concat (map (tag 0) (ex_mcus ++ ex_mcus))).
Proof. repeat split; vm_compute; reflexivity. Qed.
