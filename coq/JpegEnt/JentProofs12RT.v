(* The 12-bit extended sequential decoder (dec_block12) inverts the block coder: its encodeBlock
   (sequential12.go) has the shape of the baseline one (same run/size symbols, ZRL, EOB,
   category and magnitude bits), which is what enc_block_words models. *)
From V Require Import Common.Base JpegLL.JllBits JpegLL.JllHuff JpegLL.JllT81
  JpegLL.JllProofsBits JpegLL.JllProofsHuff JpegDCT.DctZigzag JpegDCT.DctRestart JpegEnt.JentModel
  JpegEnt.JentProofsBlock.

Section AC12.
  Variables ab av : list Z.
  Hypothesis Hok : t81_table_ok ab av = true.
  Let acC := build_codes ab av.
  Let at_ := ht_of ab av.

  Lemma decode_sym12 : forall s st B, In s av ->
    rep st (write_word (code_at acC s) ++ B) ->
    exists st', huff_decode at_ st = Some (s, st') /\ rep st' B.
  Proof.
    intros s st B Hs Hr. apply (huff_prefix_decode ab av s st B Hok Hs). exact Hr.
  Qed.

  (* n ZRL symbols move k by 16 n *)
  Lemma dec_ac12_zrl : forall n k arr f st B, (n = 0%nat \/ In 240 av) ->
    0 <= k -> k + 16 * Z.of_nat n < 64 + 16 ->
    rep st (wbits (repeat (code_at acC 240) n) ++ B) ->
    exists st', dec_ac12 (n + f) at_ k arr st = dec_ac12 f at_ (k + 16 * Z.of_nat n) arr st' /\ rep st' B.
  Proof.
    induction n as [|n IH]; intros k arr f st B Hin Hk Hlt Hr.
    - exists st. split; [|exact Hr]. cbn [plus]. f_equal. lia.
    - destruct Hin as [Hin|Hin]; [discriminate|].
      cbn [repeat] in Hr. rewrite wbits_cons, <- app_assoc in Hr.
      destruct (decode_sym12 240 st _ Hin Hr) as (st1 & E1 & Hr1).
      destruct (IH (k + 16) arr f st1 B (or_intror Hin) ltac:(lia) ltac:(lia) Hr1) as (st' & E2 & Hr2).
      exists st'. split; [|exact Hr2].
      cbn [plus dec_ac12]. destruct (Z.leb_spec 64 k); [lia|].
      rewrite E1. change (Z.land 240 15 =? 0) with true. change (Z.shiftr 240 4 =? 15) with true.
      cbv iota. rewrite E2. f_equal. lia.
  Qed.

  Lemma dec_ac12_enc : forall l run pre fuel st B,
    Forall ent_range l -> incl (ac_syms l run) av ->
    0 <= run -> zlen pre + run + zlen l = 64 ->
    (Z.to_nat (Z.shiftr run 4) + length l < fuel)%nat ->
    rep st (wbits (enc_ac_words acC l run) ++ B) ->
    exists st', dec_ac12 fuel at_ (zlen pre) (pre ++ repeat 0 (Z.to_nat run + length l)) st
                = Ok (pre ++ repeat 0 (Z.to_nat run) ++ l, st') /\ rep st' B.
  Proof.
    induction l as [|v l IH]; intros run pre fuel st B Hrg Hsy Hrun Hlen Hfuel Hr.
    - cbn [enc_ac_words ac_syms] in *. change (zlen (@nil Z)) with 0 in Hlen.
      cbn [length] in *. rewrite Nat.add_0_r, app_nil_r.
      destruct (Z.ltb_spec 0 run) as [Hpos|Hz].
      + destruct fuel as [|f]; [lia|]. cbn [dec_ac12].
        destruct (Z.leb_spec 64 (zlen pre)); [lia|].
        rewrite wbits_cons in Hr. cbn [wbits map concat] in Hr. rewrite app_nil_r in Hr.
        destruct (decode_sym12 0 st B (Hsy 0 (or_introl eq_refl)) Hr) as (st' & E & Hr').
        rewrite E. cbn. exists st'. split; [reflexivity | exact Hr'].
      + assert (run = 0) by lia. subst run.
        exists st. split; [|exact Hr].
        destruct fuel; cbn [dec_ac12]; destruct (Z.leb_spec 64 (zlen pre)); try lia; reflexivity.
    - inversion Hrg as [|? ? Hv Hrg']; subst.
      cbn [enc_ac_words ac_syms] in Hr, Hsy.
      assert (Hl : zlen (v :: l) = 1 + zlen l) by (unfold zlen; cbn [length]; lia).
      destruct (Z.eqb_spec v 0) as [Ev|Nv].
      + subst v.
        destruct (IH (run + 1) pre fuel st B Hrg' Hsy ltac:(lia) ltac:(lia)) as (st' & E & Hr'); [| exact Hr |].
        { pose proof (run_split run Hrun) as (R1 & R2 & R3).
          pose proof (run_split (run + 1) ltac:(lia)) as (S1 & S2 & S3).
          cbn [length] in Hfuel. lia. }
        exists st'. split; [|exact Hr'].
        replace (Z.to_nat run + length (0%Z :: l))%nat with (Z.to_nat (run + 1) + length l)%nat
          by (cbn [length]; lia).
        rewrite E. f_equal. f_equal. f_equal.
        replace (Z.to_nat (run + 1)) with (S (Z.to_nat run)) by lia.
        apply repeat_S_app.
      + pose proof (run_split run Hrun) as (R1 & R2 & R3).
        pose proof (cat15 v Hv Nv) as Hc.
        set (n := Z.to_nat (Z.shiftr run 4)) in *.
        set (cat := fst (encode_category v)) in *.
        set (rs := byte_of (Z.lor (Z.shiftl (Z.land run 15) 4) cat)) in *.
        destruct (rs_split (Z.land run 15) cat R1 ltac:(lia)) as (RS1 & RS2 & RS3). fold rs in RS1, RS2, RS3.
        rewrite wbits_app, <- app_assoc in Hr.
        assert (Hzin : n = 0%nat \/ In 240 av).
        { destruct n as [|n'] eqn:En; [left; reflexivity | right].
          apply Hsy. apply in_or_app. left. left. reflexivity. }
        assert (Hrsin : In rs av).
        { apply Hsy. apply in_or_app. right. left. reflexivity. }
        cbn [length] in Hfuel.
        destruct fuel as [|f0]; [lia|].
        assert (Hf : exists f, S f0 = (n + S f)%nat /\ (length l < f)%nat) by (exists (f0 - n)%nat; lia).
        destruct Hf as (f & Ef & Hfl). rewrite Ef.
        set (arr := pre ++ repeat 0 (Z.to_nat run + length (v :: l))).
        assert (Hz1 : 0 <= zlen pre) by (unfold zlen; lia).
        assert (Hz0 : 0 <= zlen l) by (unfold zlen; lia).
        assert (Hz2 : zlen pre + 16 * Z.of_nat n < 64 + 16) by (unfold n; rewrite Z2Nat.id by lia; lia).
        destruct (dec_ac12_zrl n (zlen pre) arr (S f) st _ Hzin Hz1 Hz2 Hr) as (st1 & E1 & Hr1).
        rewrite E1. unfold n. rewrite Z2Nat.id by lia.
        set (k1 := zlen pre + 16 * Z.shiftr run 4).
        cbn [dec_ac12]. destruct (Z.leb_spec 64 k1); [unfold k1 in *; lia|].
        rewrite wbits_cons, <- app_assoc in Hr1.
        destruct (decode_sym12 rs st1 _ Hrsin Hr1) as (st2 & E2 & Hr2).
        rewrite E2, RS2, RS3.
        destruct (Z.eqb_spec cat 0); [lia|].
        destruct (Z.leb_spec 64 (k1 + Z.land run 15)); [unfold k1 in *; lia|].
        rewrite wbits_cons, <- app_assoc in Hr2.
        destruct (receive_cat v st2 _ Hv Nv Hr2) as (st3 & E3 & Hr3). fold cat in E3.
        rewrite E3.
        set (pre' := pre ++ repeat 0 (Z.to_nat run) ++ [v]).
        assert (Ek : k1 + Z.land run 15 = zlen pre + run) by (unfold k1; lia).
        assert (Earr : zupd arr (k1 + Z.land run 15) v = pre' ++ repeat 0 (Z.to_nat 0 + length l)).
        { unfold arr, pre'. cbn [length Z.to_nat plus].
          replace (Z.to_nat run + S (length l))%nat with (Z.to_nat run + (1 + length l))%nat by lia.
          rewrite repeat_add_app. cbn [plus repeat].
          rewrite Ek. rewrite (app_assoc pre).
          replace (zlen pre + run) with (zlen (pre ++ repeat 0 (Z.to_nat run)))
            by (rewrite zlen_app, zlen_repeat; lia).
          cbn [app]. rewrite zupd_app_mid. rewrite <- !app_assoc. reflexivity. }
        rewrite Earr.
        assert (Ek' : k1 + Z.land run 15 + 1 = zlen pre').
        { unfold pre'. rewrite !zlen_app, zlen_repeat. change (zlen [v]) with 1. lia. }
        rewrite Ek'.
        assert (I1 : incl (ac_syms l 0) av).
        { intros s Hs. apply Hsy. apply in_or_app. right. right. exact Hs. }
        assert (I2 : zlen pre' + 0 + zlen l = 64) by (rewrite <- Ek'; lia).
        assert (I3 : (Z.to_nat (Z.shiftr 0 4) + length l < f)%nat) by (cbn; lia).
        destruct (IH 0 pre' f st3 B Hrg' I1 ltac:(lia) I2 I3 Hr3) as (st' & E4 & Hr4).
        exists st'. split; [|exact Hr4]. rewrite E4. unfold pre'. cbn [Z.to_nat repeat app].
        rewrite <- !app_assoc. reflexivity.
  Qed.
End AC12.

Theorem ent_block12_roundtrip : forall db dv ab av pred zz st B,
  t81_table_ok db dv = true -> t81_table_ok ab av = true ->
  block_ok dv av pred zz ->
  rep st (wbits (enc_block_words (build_codes db dv) (build_codes ab av) pred zz) ++ B) ->
  exists st', dec_block12 (ht_of db dv) (ht_of ab av) pred st = Ok (zz, hd 0 zz, st') /\ rep st' B.
Proof.
  intros db dv ab av pred zz st B Hdok Haok (Hlen & Hdr & Hc32 & Hacr & Hdin & Hain) Hr.
  destruct zz as [|c0 acs]; [discriminate|]. cbn [hd tl] in *.
  cbn [enc_block_words] in Hr. rewrite wbits_app, <- app_assoc in Hr.
  unfold dec_block12.
  unfold enc_dc_words in Hr.
  set (d := c0 - pred) in *.
  assert (Hpred : wrapS 64 (pred + d) = c0).
  { unfold d. replace (pred + (c0 - pred)) with c0 by lia. apply wrapS_id; lia. }
  assert (Hacs : exists st2, (match huff_decode (ht_of db dv) st with
            | Some (s, st1) => receive_extend st1 s | None => None end) = Some (d, st2)
            /\ rep st2 (wbits (enc_ac_words (build_codes ab av) acs 0) ++ B)).
  { destruct (Z.eq_dec d 0) as [Ed|Nd].
    - rewrite Ed in *. rewrite enc_cat_zero in *. cbn [fst snd] in *.
      change (0 <? 0) with false in Hr. cbv iota in Hr.
      rewrite wbits_cons in Hr. cbn [wbits map concat] in Hr. rewrite app_nil_r in Hr.
      destruct (decode_sym db dv Hdok 0 st _ Hdin Hr) as (st1 & E1 & Hr1).
      rewrite E1. exists st1. split; [reflexivity | exact Hr1].
    - pose proof (cat15 d Hdr Nd) as Hc.
      destruct (Z.ltb_spec 0 (fst (encode_category d))); [|lia].
      rewrite wbits_cons, <- app_assoc in Hr.
      destruct (decode_sym db dv Hdok _ st _ Hdin Hr) as (st1 & E1 & Hr1).
      rewrite E1. rewrite wbits_cons in Hr1. cbn [wbits map concat] in Hr1. rewrite app_nil_r in Hr1.
      destruct (receive_cat d st1 _ Hdr Nd Hr1) as (st2 & E2 & Hr2).
      exists st2. split; [exact E2 | exact Hr2]. }
  destruct Hacs as (st2 & E12 & Hr2).
  destruct (huff_decode (ht_of db dv) st) as [[s st1]|]; [|discriminate].
  rewrite E12. rewrite Hpred.
  destruct (dec_ac12_enc ab av Haok acs 0 [c0] 64%nat st2 B Hacr Hain ltac:(lia)) as (st' & E & Hr').
  - unfold zlen. cbn [length] in *. lia.
  - cbn [length] in Hlen. cbn. lia.
  - exact Hr2.
  - exists st'. split; [|exact Hr'].
    change (zlen [c0]) with 1 in E. cbn [Z.to_nat plus app repeat] in E.
    replace (length acs) with 63%nat in E by (cbn [length] in Hlen; lia).
    cbn [app] in E. rewrite E. reflexivity.
Qed.
