(* Restart intervals: decodeScan of jpeg/baseline (split at RSTn, switch to the next interval
   and zero the DC predictors at every MCU k > 0 with k mod Ri = 0) applied to the T.81 spec
   encoder JentRst.enc_scan_rst returns the encoder's blocks, for every Ri >= 1 and every
   number of MCUs (the last interval may be shorter).
   What the Go decoder requires of the interval count: at least ceil(nmcu / Ri) intervals
   (fewer: ErrInvalidData at the first missing one); further intervals or RSTn markers after the
   last needed MCU are ignored; the number m of RSTm is not checked.  A valid T.81 scan has
   exactly ceil(nmcu / Ri) intervals, which is the case proved here. *)
From V Require Import Common.Base JpegLL.JllBits JpegLL.JllHuff JpegLL.JllT81
  JpegLL.JllProofsBits JpegLL.JllProofsHuff JpegDCT.DctZigzag JpegDCT.DctRestart
  JpegEnt.JentModel JpegEnt.JentRst JpegEnt.JentProofsBlock JpegEnt.JentProofsScan.

Definition restart_at (ri k : Z) : bool := (0 <? ri) && (0 <? k) && (Z.rem k ri =? 0).

Lemma no_restart_inside : forall ri j i, 0 < ri -> 0 <= j -> 0 < i < ri -> restart_at ri (j * ri + i) = false.
Proof.
  intros ri j i Hri Hj Hi. unfold restart_at.
  assert (0 <= j * ri) by (apply Z.mul_nonneg_nonneg; lia).
  rewrite Z.rem_mod_nonneg by lia.
  replace (j * ri + i) with (i + j * ri) by lia. rewrite Z_mod_plus_full, Z.mod_small by lia.
  destruct (Z.eqb_spec i 0); [lia|]. rewrite andb_false_r. reflexivity.
Qed.
Lemma no_restart_first : forall ri i, 0 < ri -> 0 <= i < ri -> restart_at ri i = false.
Proof.
  intros ri i Hri Hi. destruct (Z.eq_dec i 0) as [->|N].
  - unfold restart_at. cbn. rewrite andb_false_r. reflexivity.
  - replace i with (0 * ri + i) by lia. apply no_restart_inside; lia.
Qed.
Lemma restart_boundary : forall ri j, 0 < ri -> 1 <= j -> restart_at ri (j * ri) = true.
Proof.
  intros ri j Hri Hj. unfold restart_at.
  assert (0 < j * ri) by (apply Z.mul_pos_pos; lia).
  rewrite Z.rem_mul by lia.
  destruct (Z.ltb_spec 0 ri); [|lia]. destruct (Z.ltb_spec 0 (j * ri)); [|lia]. reflexivity.
Qed.

Lemma obind_ret : forall {A} (o : outcome A), obind o (fun x => Ok x) = o.
Proof. destruct o; reflexivity. Qed.
Lemma obind_assoc_app : forall {A} (o : outcome (list A)) (X Y : list A),
  obind (obind o (fun bl => Ok (X ++ bl))) (fun bl => Ok (Y ++ bl)) = obind o (fun bl => Ok ((Y ++ X) ++ bl)).
Proof. destruct o; cbn; try reflexivity. intros. rewrite app_assoc. reflexivity. Qed.

Lemma map_const_len : forall {A B} (a : list A) (b : list B), length a = length b ->
  map (fun _ => 0) a = map (fun _ => 0) b.
Proof.
  induction a as [|x a IH]; intros [|y b] H; try discriminate; [reflexivity|].
  cbn [map]. f_equal. apply IH. cbn in H. lia.
Qed.

Section Rst.
  Variable codes : list (list (Z * Z) * list (Z * Z)).
  Variables dcT acT : list (option htable).

  Lemma mcu_ok_len : forall tabs preds blocks, mcu_ok codes dcT acT tabs preds blocks ->
    length blocks = length tabs /\ length preds = length tabs.
  Proof.
    induction tabs as [|t ts IH]; intros preds blocks H.
    - destruct preds, blocks; cbn in H; try contradiction. split; reflexivity.
    - destruct preds as [|p ps]; [cbn in H; contradiction|].
      destruct blocks as [|b bs]; [cbn in H; contradiction|].
      cbn [mcu_ok] in H. destruct H as [_ H]. destruct (IH ps bs H). cbn [length]. split; lia.
  Qed.

  (* a run of MCUs inside one restart interval (no restart fires), then the rest of the scan *)
  Lemma mcus_noreset : forall chunk m tabs preds ri ivs k interval st B,
    mcus_ok codes dcT acT tabs preds chunk -> length preds = length tabs ->
    (forall i, 0 <= i < zlen chunk -> restart_at ri (k + i) = false) ->
    rep st (wbits (enc_mcus_words codes tabs preds chunk) ++ B) ->
    exists st' preds',
      dec_mcus (length chunk + m) dcT acT (map comp_of tabs) ri ivs k interval preds st =
      obind (dec_mcus m dcT acT (map comp_of tabs) ri ivs (k + zlen chunk) interval preds' st')
            (fun bl => Ok (concat (map (tag 0) chunk) ++ bl))
      /\ rep st' B /\ length preds' = length tabs.
  Proof.
    induction chunk as [|m0 ms IH]; intros m tabs preds ri ivs k interval st B Hok Hlp Hnr Hr.
    - exists st, preds. split; [|split; [exact Hr | exact Hlp]].
      change (zlen (@nil (list (list Z)))) with 0. rewrite Z.add_0_r. cbn [length plus map concat app].
      symmetry. apply obind_ret.
    - cbn [mcus_ok] in Hok. destruct Hok as [Hm Hms].
      cbn [enc_mcus_words] in Hr. rewrite wbits_app, <- app_assoc in Hr.
      destruct (mcu_roundtrip codes dcT acT tabs preds m0 0 st _ Hm Hr) as (st1 & E1 & Hr1).
      rewrite (enc_mcu_preds codes dcT acT tabs preds m0 Hm) in Hr1.
      destruct (mcu_ok_len _ _ _ Hm) as [Lb _].
      assert (Hz : zlen (m0 :: ms) = 1 + zlen ms) by (unfold zlen; cbn [length]; lia).
      assert (Hzn : 0 <= zlen ms) by (unfold zlen; lia).
      destruct (IH m tabs (map (hd 0) m0) ri ivs (k + 1) interval st1 B Hms) as (st' & preds' & E2 & Hr2 & Lp).
      { rewrite map_length. exact Lb. }
      { intros i Hi. replace (k + 1 + i) with (k + (i + 1)) by lia. apply Hnr. lia. }
      { exact Hr1. }
      exists st', preds'. split; [|split; [exact Hr2 | exact Lp]].
      pose proof (Hnr 0 ltac:(lia)) as H0. rewrite Z.add_0_r in H0. unfold restart_at in H0.
      cbn [length plus dec_mcus]. rewrite H0. cbn [andb]. cbv iota.
      rewrite E1. cbn [obind fst snd]. rewrite E2.
      rewrite Hz. replace (k + 1 + zlen ms) with (k + (1 + zlen ms)) by lia.
      cbn [map concat]. rewrite obind_assoc_app. reflexivity.
  Qed.

  (* the first MCU of a restart interval j >= 1: switch to interval j, predictors zeroed *)
  Lemma chunk_restart : forall m0 ms m tabs preds ri ivs k interval st B,
    restart_at ri k = true -> interval + 1 < zlen ivs ->
    mcus_ok codes dcT acT tabs (map (fun _ => 0) tabs) (m0 :: ms) -> length preds = length tabs ->
    (forall i, 1 <= i < zlen (m0 :: ms) -> restart_at ri (k + i) = false) ->
    rep (r_init (znth ivs (interval + 1) []))
        (wbits (enc_mcus_words codes tabs (map (fun _ => 0) tabs) (m0 :: ms)) ++ B) ->
    exists st' preds',
      dec_mcus (length (m0 :: ms) + m) dcT acT (map comp_of tabs) ri ivs k interval preds st =
      obind (dec_mcus m dcT acT (map comp_of tabs) ri ivs (k + zlen (m0 :: ms)) (interval + 1) preds' st')
            (fun bl => Ok (concat (map (tag 0) (m0 :: ms)) ++ bl))
      /\ rep st' B /\ length preds' = length tabs.
  Proof.
    intros m0 ms m tabs preds ri ivs k interval st B Hrs Hiv Hok Hlp Hnr Hr.
    cbn [mcus_ok] in Hok. destruct Hok as [Hm Hms].
    cbn [enc_mcus_words] in Hr. rewrite wbits_app, <- app_assoc in Hr.
    destruct (mcu_roundtrip codes dcT acT tabs _ m0 0 _ _ Hm Hr) as (st1 & E1 & Hr1).
    rewrite (enc_mcu_preds codes dcT acT tabs _ m0 Hm) in Hr1.
    destruct (mcu_ok_len _ _ _ Hm) as [Lb _].
    assert (Hz : zlen (m0 :: ms) = 1 + zlen ms) by (unfold zlen; cbn [length]; lia).
    assert (Hzn : 0 <= zlen ms) by (unfold zlen; lia).
    destruct (mcus_noreset ms m tabs (map (hd 0) m0) ri ivs (k + 1) (interval + 1) st1 B Hms) as (st' & preds' & E2 & Hr2 & Lp).
    { rewrite map_length. exact Lb. }
    { intros i Hi. replace (k + 1 + i) with (k + (i + 1)) by lia. apply Hnr. lia. }
    { exact Hr1. }
    exists st', preds'. split; [|split; [exact Hr2 | exact Lp]].
    unfold restart_at in Hrs.
    cbn [length plus dec_mcus]. rewrite Hrs. cbn [andb]. cbv iota.
    destruct (Z.leb_spec (zlen ivs) (interval + 1)); [lia|].
    rewrite (map_const_len preds tabs Hlp).
    rewrite E1. cbn [obind fst snd]. rewrite E2.
    rewrite Hz. replace (k + 1 + zlen ms) with (k + (1 + zlen ms)) by lia.
    cbn [map concat]. rewrite obind_assoc_app. reflexivity.
  Qed.
End Rst.

(* ---------- the byte loop on interval_0 RST0 interval_1 ... ---------- *)
Definition stuffed (s : list Z) : Prop := exists bs, s = stuff bs.

Lemma rst_byte : forall m, (208 + Z.land m 7 =? 0) = false /\ is_rst (208 + Z.land m 7) = true.
Proof.
  intros m. assert (H : 0 <= Z.land m 7 <= 7).
  { assert (E : Z.land m 7 = m mod 8) by (change 7 with (Z.ones 3); rewrite Z.land_ones by lia; reflexivity).
    rewrite E. pose proof (Z.mod_pos_bound m 8 ltac:(lia)). lia. }
  split.
  - destruct (Z.eqb_spec (208 + Z.land m 7) 0); [lia | reflexivity].
  - unfold is_rst. destruct (Z.leb_spec 208 (208 + Z.land m 7)); [|lia].
    destruct (Z.leb_spec (208 + Z.land m 7) 215); [reflexivity | lia].
Qed.

Lemma split_join : forall segs m acc tail, Forall stuffed segs -> segs <> [] -> scan_end tail ->
  split_go true (join_rst m segs ++ tail) [] acc = rev acc ++ segs.
Proof.
  induction segs as [|s rest IH]; intros m acc tail Hst Hne Hend; [contradiction|].
  inversion Hst as [|? ? [bs ->] Hst']; subst.
  destruct rest as [|s2 rest'].
  - cbn [join_rst]. rewrite split_stuff, app_nil_r.
    destruct Hend as [->|(mm & t & -> & Hm & Hr)].
    + cbn [split_go rev]. rewrite rev_involutive. reflexivity.
    + cbn [split_go]. change (255 =? 255) with true. cbv iota.
      destruct (Z.eqb_spec mm 0); [contradiction|]. rewrite Hr.
      cbn [rev]. rewrite rev_involutive. reflexivity.
  - change (join_rst m (stuff bs :: s2 :: rest'))
      with (stuff bs ++ 255 :: (208 + Z.land m 7) :: join_rst (m + 1) (s2 :: rest')).
    rewrite <- app_assoc. rewrite split_stuff, app_nil_r.
    cbn [app split_go]. change (255 =? 255) with true. cbv iota.
    destruct (rst_byte m) as [R1 R2]. rewrite R1, R2.
    rewrite rev_involutive.
    rewrite (IH (m + 1) (stuff bs :: acc) tail Hst' ltac:(discriminate) Hend).
    cbn [rev]. rewrite <- app_assoc. reflexivity.
Qed.

(* ---------- induction over the intervals ---------- *)
Section Outer.
  Variable codes : list (list (Z * Z) * list (Z * Z)).
  Variables dcT acT : list (option htable).
  Variable tabs : list Z.
  Let zeros := map (fun _ : Z => 0) tabs.
  Let enc := enc_scan_bytes codes tabs.

  Lemma chunk_rep : forall c, mcus_ok codes dcT acT tabs zeros c ->
    exists pad, stuffed (enc c) /\ rep (r_init (enc c)) (wbits (enc_mcus_words codes tabs zeros c) ++ pad).
  Proof.
    intros c Hok. destruct (ent_scan_stuffed codes dcT acT tabs c Hok) as (bs & pad & E1 & E2 & E3 & _).
    exists pad. unfold enc. rewrite E1. split; [exists bs; reflexivity|].
    unfold enc_scan_words in E3. fold zeros in E3. rewrite <- E3.
    rewrite <- (app_nil_r (stuff bs)). apply rep_init. exact E2.
  Qed.

  Lemma skipn_cons_nth : forall {A} (l : list A) j x r d, skipn j l = x :: r ->
    nth j l d = x /\ skipn (S j) l = r /\ (j < length l)%nat.
  Proof.
    induction l as [|y l IH]; intros j x r d H.
    - destruct j; discriminate.
    - destruct j.
      + cbn in H. injection H as -> ->. repeat split. cbn. lia.
      + cbn [skipn] in H. destruct (IH j x r d H) as (H1 & H2 & H3). repeat split; try assumption. cbn. lia.
  Qed.

  Lemma firstn_nonempty_len : forall {A} n (l : list A), (1 <= n)%nat -> l <> [] ->
    firstn n l <> [] /\ (length (firstn n l) <= n)%nat /\ (skipn n l <> [] -> length (firstn n l) = n) /\
    (length (skipn n l) < length l)%nat.
  Proof.
    intros A n l Hn Hl. destruct l as [|x xs]; [contradiction|]. destruct n; [lia|].
    split; [cbn; discriminate|]. split; [rewrite firstn_length; lia|]. split.
    - intros Hs. rewrite firstn_length. assert (length (skipn (S n) (x :: xs)) <> 0%nat).
      { destruct (skipn (S n) (x :: xs)); [contradiction | cbn; lia]. }
      rewrite skipn_length in H. lia.
    - rewrite skipn_length. cbn [length]. lia.
  Qed.

  (* intervals j, j+1, ...: l = the MCUs not yet decoded, k = j * ri *)
  Lemma rst_outer : forall ri ivs fuel l j st preds,
    1 <= ri -> (length l <= fuel)%nat -> 1 <= j -> length preds = length tabs ->
    skipn (Z.to_nat j) ivs = map enc (chunk_go fuel (Z.to_nat ri) l) ->
    Forall (mcus_ok codes dcT acT tabs zeros) (chunk_go fuel (Z.to_nat ri) l) ->
    dec_mcus (length l) dcT acT (map comp_of tabs) ri ivs (j * ri) (j - 1) preds st
    = Ok (concat (map (tag 0) l)).
  Proof.
    intros ri ivs. induction fuel as [|f IH]; intros l j st preds Hri Hf Hj Hlp Hsk Hok.
    - destruct l; [reflexivity | cbn in Hf; lia].
    - destruct l as [|x xs]; [reflexivity|].
      set (l := x :: xs) in *. set (n := Z.to_nat ri) in *.
      assert (Hn : (1 <= n)%nat) by (unfold n; lia).
      destruct (firstn_nonempty_len n l Hn ltac:(discriminate)) as (Hc1 & Hc2 & Hc3 & Hc4).
      assert (Ecg : chunk_go (S f) n l = firstn n l :: chunk_go f n (skipn n l)) by reflexivity.
      rewrite Ecg in Hsk, Hok. cbn [map] in Hsk.
      inversion Hok as [|? ? Hokc Hokr]; subst.
      destruct (skipn_cons_nth ivs (Z.to_nat j) _ _ [] Hsk) as (Env & Esk & Ejl).
      set (c := firstn n l) in *. set (l' := skipn n l) in *.
      assert (El : l = c ++ l') by (unfold c, l'; symmetry; apply firstn_skipn).
      destruct (chunk_rep c Hokc) as (pad & _ & Hrep).
      destruct c as [|m0 ms] eqn:Ec; [contradiction|].
      assert (Hzc : 1 <= zlen (m0 :: ms) <= ri) by (unfold zlen; cbn [length] in *; lia).
      destruct (chunk_restart codes dcT acT m0 ms (length l') tabs preds ri ivs (j * ri) (j - 1) st pad)
        as (st' & preds' & E & Hr' & Lp).
      + apply restart_boundary; lia.
      + unfold zlen. lia.
      + exact Hokc.
      + exact Hlp.
      + intros i Hi. apply no_restart_inside; lia.
      + replace (j - 1 + 1) with j by lia. unfold znth. destruct (Z.ltb_spec j 0); [lia|].
        rewrite Env. exact Hrep.
      + replace (length l) with (length (m0 :: ms) + length l')%nat by (rewrite El, app_length; reflexivity).
        rewrite E. rewrite El, map_app, concat_app.
        destruct l' as [|y ys] eqn:El'.
        * cbn [length dec_mcus obind]. reflexivity.
        * assert (Hfull : zlen (m0 :: ms) = ri).
          { unfold zlen. rewrite (Hc3 ltac:(discriminate)). unfold n. lia. }
          rewrite Hfull. replace (j * ri + ri) with ((j + 1) * ri) by lia.
          replace (j - 1 + 1) with (j + 1 - 1) by lia.
          rewrite (IH (y :: ys) (j + 1) st' preds' Hri ltac:(cbn [length] in *; lia) ltac:(lia) Lp).
          -- reflexivity.
          -- replace (Z.to_nat (j + 1)) with (S (Z.to_nat j)) by lia. exact Esk.
          -- exact Hokr.
  Qed.
End Outer.

(* T.81 scan with restart intervals -> decodeScan.  The hypothesis is the per-interval form of
   mcus_ok: in every interval the DC predictors start at 0. *)
Theorem ent_scan_rst_roundtrip : forall codes dcT acT tabs ri mcus tail,
  1 <= ri ->
  Forall (mcus_ok codes dcT acT tabs (map (fun _ => 0) tabs)) (chunks (Z.to_nat ri) mcus) ->
  scan_end tail ->
  dec_scan dcT acT (map comp_of tabs) ri (length mcus) (enc_scan_rst codes tabs ri mcus ++ tail)
  = Ok (concat (map (tag 0) mcus)).
Proof.
  intros codes dcT acT tabs ri mcus tail Hri Hok Hend.
  destruct mcus as [|x xs]; [reflexivity|].
  unfold dec_scan, enc_scan_rst, split_rst. destruct (Z.ltb_spec 0 ri); [|lia].
  unfold chunks in *. set (l := x :: xs) in *. set (n := Z.to_nat ri) in *.
  assert (Hn : (1 <= n)%nat) by (unfold n; lia).
  destruct (firstn_nonempty_len n l Hn ltac:(discriminate)) as (Hc1 & Hc2 & Hc3 & Hc4).
  assert (Ecg : chunk_go (length l) n l = firstn n l :: chunk_go (length xs) n (skipn n l)) by reflexivity.
  rewrite Ecg in *. inversion Hok as [|? ? Hokc Hokr]; subst.
  assert (Hst : Forall stuffed (map (enc_scan_bytes codes tabs) (firstn n l :: chunk_go (length xs) n (skipn n l)))).
  { apply Forall_forall. intros s Hs. apply in_map_iff in Hs. destruct Hs as (c & <- & Hc).
    apply (proj1 (Forall_forall _ _) Hok) in Hc.
    destruct (chunk_rep codes dcT acT tabs c Hc) as (pad & Hs & _). exact Hs. }
  rewrite (split_join _ 0 [] tail Hst ltac:(discriminate) Hend). cbn [rev app].
  set (ivs := map (enc_scan_bytes codes tabs) (firstn n l :: chunk_go (length xs) n (skipn n l))).
  set (c := firstn n l) in *. set (l' := skipn n l) in *.
  assert (El : l = c ++ l') by (unfold c, l'; symmetry; apply firstn_skipn).
  destruct (chunk_rep codes dcT acT tabs c Hokc) as (pad & _ & Hrep).
  assert (Hzc : 1 <= zlen c <= ri).
  { unfold zlen. destruct c; [contradiction|]. cbn [length] in *. lia. }
  assert (Epreds : map (fun _ : ecomp => 0) (map comp_of tabs) = map (fun _ : Z => 0) tabs)
    by (rewrite map_map; reflexivity).
  rewrite Epreds.
  destruct (mcus_noreset codes dcT acT c (length l') tabs (map (fun _ => 0) tabs) ri ivs 0 0
              (r_init (znth ivs 0 [])) pad Hokc) as (st' & preds' & E & Hr' & Lp).
  - rewrite map_length. reflexivity.
  - intros i Hi. cbn [Z.add]. apply no_restart_first; lia.
  - exact Hrep.
  - replace (length l) with (length c + length l')%nat by (rewrite El, app_length; reflexivity).
    rewrite E. rewrite El, map_app, concat_app.
    destruct l' as [|y ys] eqn:El'.
    + cbn [length dec_mcus obind]. reflexivity.
    + assert (Hfull : zlen c = ri).
      { unfold zlen. rewrite (Hc3 ltac:(discriminate)). unfold n. lia. }
      rewrite Hfull. cbn [Z.add].
      replace ri with (1 * ri) at 2 by lia. change 0 with (1 - 1) at 1.
      assert (Hlen' : (length (y :: ys) <= length xs)%nat) by (unfold l in Hc4; cbn [length] in *; lia).
      assert (Hsk : skipn (Z.to_nat 1) ivs = map (enc_scan_bytes codes tabs) (chunk_go (length xs) (Z.to_nat ri) (y :: ys))) by reflexivity.
      rewrite (rst_outer codes dcT acT tabs ri ivs (length xs) (y :: ys) 1 st' preds' Hri Hlen' ltac:(lia) Lp Hsk Hokr).
      reflexivity.
Qed.
