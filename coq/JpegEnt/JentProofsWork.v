(* Work bound of the entropy decoder (C09): every decoded block consumes at least two bits of
   the scan (one DC code, one AC code), so a successful decode of N blocks needs at least
   N / 4 bytes of entropy-coded data; each block runs the AC loop at most 63 times
   (JentProofsTotal.dec_ac_safe: fuel 64 is never exhausted).  Hence the number of loop
   iterations of a decode is at most 64 * min(declared blocks, 4 * input bytes + 1)... the
   part proved here: Ok result => blocks <= 4 * bytes, restart intervals included. *)
From V Require Import Common.Base JpegLL.JllBits JpegLL.JllHuff JpegLL.JllProofsBits
  JpegLL.JllProofsHuff JpegLL.JllProofsCanon JpegDCT.DctZigzag JpegDCT.DctRestart
  JpegEnt.JentModel JpegEnt.JentProofsTotal.

(* bits still available to the reader (an upper bound: stuffed 00 bytes are counted) *)
Definition rmeas (st : rstate) : Z := r_n st + 8 * zlen (r_rest st).
Definition rinv (st : rstate) : Prop := 0 <= r_n st.

Lemma next_byte_len : forall l b l', next_byte l = Some (b, l') -> zlen l' + 1 <= zlen l.
Proof.
  intros l b l' H. destruct l as [|x l1]; [discriminate|]. cbn [next_byte] in H.
  destruct (x =? 255).
  - destruct l1 as [|y l2]; [discriminate|]. destruct (y =? 0); [|discriminate].
    injection H as _ <-. unfold zlen. cbn [length]. lia.
  - injection H as _ <-. unfold zlen. cbn [length]. lia.
Qed.

Lemma read_bit_meas : forall st b st', rinv st -> read_bit st = Some (b, st') ->
  rmeas st' + 1 <= rmeas st /\ rinv st'.
Proof.
  intros st b st' Hi H. unfold read_bit in H. unfold rmeas, rinv in *.
  destruct (Z.eqb_spec (r_n st) 0) as [E|N].
  - destruct (next_byte (r_rest st)) as [[x r]|] eqn:En; [|discriminate].
    apply next_byte_len in En. injection H as _ <-. cbn [r_n r_rest]. lia.
  - injection H as _ <-. cbn [r_n r_rest]. lia.
Qed.

Lemma decode_loop_meas : forall mmv vals code st s st', rinv st ->
  decode_loop mmv vals code st = Some (s, st') -> rmeas st' + 1 <= rmeas st /\ rinv st'.
Proof.
  induction mmv as [|[[mn mx] vp] mmv IH]; intros vals code st s st' Hi H; [discriminate|].
  cbn [decode_loop] in H. destruct (read_bit st) as [[bit st1]|] eqn:Eb; [|discriminate].
  destruct (read_bit_meas _ _ _ Hi Eb) as [M1 I1].
  assert (Hrec : forall c, decode_loop mmv vals c st1 = Some (s, st') -> rmeas st' + 1 <= rmeas st /\ rinv st').
  { intros c Hc. destruct (IH vals c st1 s st' I1 Hc). split; [lia | assumption]. }
  destruct ((2 * code + (if bit then 1 else 0) <=? mx) && (0 <=? mx)); [|eapply Hrec; exact H].
  destruct ((0 <=? vp + (2 * code + (if bit then 1 else 0)) - mn)
            && (vp + (2 * code + (if bit then 1 else 0)) - mn <? zlen vals)); [|eapply Hrec; exact H].
  injection H as _ <-. split; assumption.
Qed.

Lemma r_fill_len : forall k bits n rest b' n' rest',
  r_fill k bits n rest = Some (b', n', rest') -> zlen rest' + Z.of_nat k <= zlen rest.
Proof.
  induction k; intros bits n rest b' n' rest' H; cbn [r_fill] in H.
  - injection H as _ _ <-. lia.
  - destruct (next_byte rest) as [[b r]|] eqn:En; [|discriminate].
    apply next_byte_len in En. apply IHk in H. lia.
Qed.

Lemma read_bits_meas : forall st n v st', rinv st -> 0 <= n -> read_bits st n = Some (v, st') ->
  rmeas st' + n <= rmeas st /\ rinv st'.
Proof.
  intros st n v st' Hi Hn H. unfold read_bits in H. unfold rmeas, rinv in *.
  destruct (Z.eqb_spec n 0) as [->|N0].
  - injection H as _ <-. lia.
  - destruct (r_fill _ _ _ _) as [[[b' n'] rest']|] eqn:E; [|discriminate].
    pose proof (r_fill_n _ _ _ _ _ _ _ E) as E1. pose proof (r_fill_len _ _ _ _ _ _ _ E) as E2.
    injection H as _ <-. cbn [r_n r_rest].
    destruct (Z.ltb_spec (r_n st) n) as [Hlt|Hge].
    + rewrite Z.shiftr_div_pow2 in E1, E2 by lia. change (2 ^ 3) with 8 in E1, E2.
      pose proof (Z.div_mod (n - r_n st + 7) 8 ltac:(lia)) as Hdm.
      pose proof (Z.mod_pos_bound (n - r_n st + 7) 8 ltac:(lia)) as Hr.
      assert (0 <= (n - r_n st + 7) / 8) by (apply Z.div_pos; lia).
      rewrite Z2Nat.id in E1, E2 by lia. lia.
    + cbn in E1, E2. lia.
Qed.

Lemma receive_extend_meas : forall st s v st', rinv st -> 0 <= s ->
  receive_extend st s = Some (v, st') -> rmeas st' <= rmeas st /\ rinv st'.
Proof.
  intros st s v st' Hi Hs H. unfold receive_extend in H.
  destruct (Z.eqb_spec s 0).
  - injection H as _ <-. split; [lia | assumption].
  - destruct (read_bits st s) as [[x st1]|] eqn:E; [|discriminate].
    destruct (read_bits_meas _ _ _ _ Hi Hs E). injection H as _ <-. split; [lia | assumption].
Qed.

Lemma dec_ac_meas : forall fuel act k zz st zz' st', tab_nonneg act -> rinv st ->
  dec_ac fuel act k zz st = Ok (zz', st') ->
  rmeas st' + (if k <? 64 then 1 else 0) <= rmeas st /\ rinv st'.
Proof.
  induction fuel as [|f IH]; intros act k zz st zz' st' Ht Hi H; cbn [dec_ac] in H.
  - destruct (Z.leb_spec 64 k); [|discriminate]. injection H as _ <-.
    destruct (Z.ltb_spec k 64); [lia|]. split; [lia | assumption].
  - destruct (Z.leb_spec 64 k) as [Hk|Hk].
    + injection H as _ <-. destruct (Z.ltb_spec k 64); [lia|]. split; [lia | assumption].
    + destruct (Z.ltb_spec k 64); [|lia].
      destruct (huff_decode act st) as [[rs st1]|] eqn:E; [|discriminate].
      pose proof (huff_decode_nonneg _ _ _ _ Ht E) as Hrs.
      unfold huff_decode in E. destruct (decode_loop_meas _ _ _ _ _ _ Hi E) as [M1 I1].
      destruct (Z.land rs 15 =? 0).
      * destruct (Z.shiftr rs 4 =? 15).
        -- destruct (IH _ _ _ _ _ _ Ht I1 H) as [M2 I2]. split; [|assumption].
           destruct (k + 16 <? 64); lia.
        -- injection H as _ <-. split; [lia | assumption].
      * destruct (64 <=? k + Z.shiftr rs 4); [discriminate|].
        destruct (receive_extend st1 (Z.land rs 15)) as [[v st2]|] eqn:Er; [|discriminate].
        assert (Hs : 0 <= Z.land rs 15) by (apply Z.land_nonneg; right; lia).
        destruct (receive_extend_meas _ _ _ _ I1 Hs Er) as [M2 I2].
        destruct (IH _ _ _ _ _ _ Ht I2 H) as [M3 I3]. split; [|assumption].
        destruct (k + Z.shiftr rs 4 + 1 <? 64); lia.
Qed.

Lemma sel_table_in : forall T sel o, sel_table T sel = Ok o -> o = None \/ In o T.
Proof.
  intros T sel o H. unfold sel_table in H.
  destruct (Z.leb_spec 0 sel); cbn [andb] in H; [|discriminate].
  destruct (Z.ltb_spec sel (zlen T)); [|discriminate]. injection H as <-.
  right. unfold znth. destruct (Z.ltb_spec sel 0); [lia|]. apply nth_In. unfold zlen in *. lia.
Qed.

(* one block: at least two bits *)
Lemma dec_block_meas : forall dcT acT td ta pred st zz p st',
  tabs_nonneg dcT -> tabs_nonneg acT -> rinv st ->
  dec_block dcT acT td ta pred st = Ok (zz, p, st') -> rmeas st' + 2 <= rmeas st /\ rinv st'.
Proof.
  intros dcT acT td ta pred st zz p st' Hd Ha Hi H. unfold dec_block in H.
  destruct (sel_table dcT td) as [od| | |] eqn:Ed; cbn [obind] in H; try discriminate.
  destruct od as [dt|]; [|discriminate].
  destruct (sel_table_in _ _ _ Ed) as [|Hin]; [discriminate|].
  pose proof (tabs_nonneg_in _ _ Hd Hin) as Hdt.
  destruct (huff_decode dt st) as [[s st1]|] eqn:E; [|discriminate].
  pose proof (huff_decode_nonneg _ _ _ _ Hdt E) as Hs.
  unfold huff_decode in E. destruct (decode_loop_meas _ _ _ _ _ _ Hi E) as [M1 I1].
  destruct (receive_extend st1 s) as [[diff st2]|] eqn:Er; [|discriminate].
  destruct (receive_extend_meas _ _ _ _ I1 Hs Er) as [M2 I2].
  destruct (sel_table acT ta) as [oa| | |] eqn:Ea; cbn [obind] in H; try discriminate.
  destruct oa as [at_|]; [|discriminate].
  destruct (sel_table_in _ _ _ Ea) as [|Hina]; [discriminate|].
  pose proof (tabs_nonneg_in _ _ Ha Hina) as Hat.
  destruct (dec_ac 64 at_ 1 _ st2) as [[zz1 st3]| | |] eqn:Eac; cbn [obind] in H; try discriminate.
  destruct (dec_ac_meas _ _ _ _ _ _ _ Hat I2 Eac) as [M3 I3]. change (1 <? 64) with true in M3. cbv iota in M3.
  injection H as _ _ <-. cbn [snd]. split; [lia | assumption].
Qed.

Lemma dec_comp_meas : forall n dcT acT td ta ci pred st bl p st',
  tabs_nonneg dcT -> tabs_nonneg acT -> rinv st ->
  dec_comp n dcT acT td ta ci pred st = Ok (bl, p, st') ->
  rmeas st' + 2 * zlen bl <= rmeas st /\ rinv st'.
Proof.
  induction n as [|n IH]; intros dcT acT td ta ci pred st bl p st' Hd Ha Hi H; cbn [dec_comp] in H.
  - injection H as <- _ <-. change (zlen (@nil (Z * list Z))) with 0. split; [lia | assumption].
  - destruct (dec_block dcT acT td ta pred st) as [[[zz p1] st1]| | |] eqn:Eb; cbn [obind] in H; try discriminate.
    destruct (dec_block_meas _ _ _ _ _ _ _ _ _ Hd Ha Hi Eb) as [M1 I1]. cbn [fst snd] in H.
    destruct (dec_comp n dcT acT td ta ci p1 st1) as [[[bl2 p2] st2]| | |] eqn:Ec; cbn [obind] in H; try discriminate.
    destruct (IH _ _ _ _ _ _ _ _ _ _ Hd Ha I1 Ec) as [M2 I2].
    injection H as <- _ <-. cbn [fst snd]. unfold zlen in *. cbn [length]. split; [lia | assumption].
Qed.

Lemma dec_mcu_meas : forall comps dcT acT ci preds st bl ps st',
  tabs_nonneg dcT -> tabs_nonneg acT -> rinv st ->
  dec_mcu dcT acT comps ci preds st = Ok (bl, ps, st') ->
  rmeas st' + 2 * zlen bl <= rmeas st /\ rinv st'.
Proof.
  induction comps as [|c cs IH]; intros dcT acT ci preds st bl ps st' Hd Ha Hi H; cbn [dec_mcu] in H.
  - injection H as <- _ <-. change (zlen (@nil (Z * list Z))) with 0. split; [lia | assumption].
  - destruct preds as [|p ps0].
    { injection H as <- _ <-. change (zlen (@nil (Z * list Z))) with 0. split; [lia | assumption]. }
    destruct (dec_comp _ dcT acT (ec_td c) (ec_ta c) ci p st) as [[[bl1 p1] st1]| | |] eqn:Ec; cbn [obind] in H; try discriminate.
    destruct (dec_comp_meas _ _ _ _ _ _ _ _ _ _ _ Hd Ha Hi Ec) as [M1 I1]. cbn [fst snd] in H.
    destruct (dec_mcu dcT acT cs (ci + 1) ps0 st1) as [[[bl2 ps2] st2]| | |] eqn:Em; cbn [obind] in H; try discriminate.
    destruct (IH _ _ _ _ _ _ _ _ Hd Ha I1 Em) as [M2 I2].
    injection H as <- _ <-. cbn [fst snd]. unfold zlen in *. rewrite app_length. split; [lia | assumption].
Qed.

(* bytes in the restart intervals after index i *)
Definition ivs_after (ivs : list (list Z)) (i : Z) : Z := zlen (concat (skipn (Z.to_nat (i + 1)) ivs)).

Lemma skipn_nth_cons : forall {A} (l : list A) n d, (n < length l)%nat ->
  skipn n l = nth n l d :: skipn (S n) l.
Proof.
  induction l as [|x l IH]; intros n d H; [cbn in H; lia|].
  destruct n; [reflexivity|]. cbn [skipn nth]. apply IH. cbn in H. lia.
Qed.

Lemma ivs_after_step : forall ivs i, 0 <= i -> i + 1 < zlen ivs ->
  ivs_after ivs i = zlen (znth ivs (i + 1) []) + ivs_after ivs (i + 1).
Proof.
  intros ivs i Hi Hl. unfold ivs_after, znth. destruct (Z.ltb_spec (i + 1) 0); [lia|].
  rewrite (skipn_nth_cons ivs (Z.to_nat (i + 1)) []) by (unfold zlen in Hl; lia).
  cbn [concat]. unfold zlen. rewrite app_length.
  replace (Z.to_nat (i + 1 + 1)) with (S (Z.to_nat (i + 1))) by lia. lia.
Qed.

Lemma dec_mcus_meas : forall n dcT acT comps ri ivs k interval preds st bl,
  tabs_nonneg dcT -> tabs_nonneg acT -> rinv st -> 0 <= interval ->
  dec_mcus n dcT acT comps ri ivs k interval preds st = Ok bl ->
  2 * zlen bl <= rmeas st + 8 * ivs_after ivs interval.
Proof.
  induction n as [|n IH]; intros dcT acT comps ri ivs k interval preds st bl Hd Ha Hi Hiv H; cbn [dec_mcus] in H.
  - injection H as <-. change (zlen (@nil (Z * list Z))) with 0. unfold rmeas, rinv, ivs_after, zlen in *. lia.
  - set (rs := (0 <? ri) && (0 <? k) && (Z.rem k ri =? 0)) in *.
    assert (Hm0 : 0 <= rmeas st) by (unfold rmeas, rinv, zlen in *; lia).
    destruct rs.
    + cbn [andb] in H. destruct (Z.leb_spec (zlen ivs) (interval + 1)); [discriminate|].
      destruct (dec_mcu dcT acT comps 0 _ _) as [[[bl1 ps1] st1]| | |] eqn:Em; cbn [obind] in H; try discriminate.
      assert (I0 : rinv (r_init (znth ivs (interval + 1) []))) by (unfold rinv; cbn; lia).
      destruct (dec_mcu_meas _ _ _ _ _ _ _ _ _ Hd Ha I0 Em) as [M1 I1]. cbn [fst snd] in H.
      destruct (dec_mcus n _ _ _ _ _ _ _ _ _) as [bl2| | |] eqn:Er; cbn [obind] in H; try discriminate.
      assert (Hiv' : 0 <= interval + 1) by lia.
      pose proof (IH _ _ _ _ _ _ (interval + 1) _ _ _ Hd Ha I1 Hiv' Er) as M2.
      injection H as <-. rewrite (ivs_after_step ivs interval Hiv) by lia.
      unfold rmeas in *. cbn [r_init r_n r_rest] in *.
      unfold zlen in *. rewrite app_length. lia.
    + cbn [andb] in H.
      destruct (dec_mcu dcT acT comps 0 preds st) as [[[bl1 ps1] st1]| | |] eqn:Em; cbn [obind] in H; try discriminate.
      destruct (dec_mcu_meas _ _ _ _ _ _ _ _ _ Hd Ha Hi Em) as [M1 I1]. cbn [fst snd] in H.
      destruct (dec_mcus n _ _ _ _ _ _ _ _ _) as [bl2| | |] eqn:Er; cbn [obind] in H; try discriminate.
      pose proof (IH _ _ _ _ _ _ _ _ _ _ Hd Ha I1 Hiv Er) as M2.
      injection H as <-. unfold zlen in *. rewrite app_length. lia.
Qed.

(* decodeScan's byte loop never invents bytes *)
Lemma split_go_len : forall data ron cur acc,
  zlen (concat (split_go ron data cur acc)) <= zlen data + zlen cur + zlen (concat acc).
Proof.
  assert (Hfin : forall (cur : list Z) acc, zlen (concat (rev (rev cur :: acc))) = zlen cur + zlen (concat acc)).
  { intros. unfold zlen. cbn [rev]. rewrite concat_app. cbn [concat]. rewrite !app_length, rev_length. cbn [length].
    assert (E : forall l : list (list Z), length (concat (rev l)) = length (concat l)).
    { induction l as [|x l IHl]; [reflexivity|]. cbn [rev concat]. rewrite concat_app, !app_length. cbn [concat]. rewrite app_length. cbn [length]. lia. }
    rewrite E. lia. }
  assert (Hn : forall n data, (length data <= n)%nat -> forall ron cur acc,
            zlen (concat (split_go ron data cur acc)) <= zlen data + zlen cur + zlen (concat acc)).
  { induction n as [|n IH]; intros data Hl ron cur acc.
    - destruct data; [|cbn in Hl; lia]. cbn [split_go]. rewrite Hfin. unfold zlen. cbn [length]. lia.
    - destruct data as [|b t]; cbn [split_go].
      + rewrite Hfin. unfold zlen. cbn [length]. lia.
      + cbn [length] in Hl. destruct (b =? 255).
        * destruct t as [|b2 t2].
          -- rewrite Hfin. unfold zlen. cbn [length]. lia.
          -- cbn [length] in Hl. assert (Hlt : (length t2 <= n)%nat) by lia.
             destruct (b2 =? 0).
             ++ pose proof (IH t2 Hlt ron (0 :: 255 :: cur) acc). unfold zlen in *. cbn [length] in *. lia.
             ++ destruct (is_rst b2).
                ** destruct ron.
                   --- pose proof (IH t2 Hlt true [] (rev cur :: acc)) as Hx. unfold zlen in *. cbn [length concat] in *.
                       rewrite app_length, rev_length in Hx. lia.
                   --- pose proof (IH t2 Hlt false cur acc). unfold zlen in *. cbn [length] in *. lia.
                ** rewrite Hfin. unfold zlen. cbn [length]. lia.
        * assert (Hlt : (length t <= n)%nat) by lia.
          pose proof (IH t Hlt ron (b :: cur) acc). unfold zlen in *. cbn [length] in *. lia. }
  intros data. apply (Hn (length data)). lia.
Qed.

Lemma ivs_head : forall ivs : list (list Z), zlen (znth ivs 0 []) + ivs_after ivs 0 <= zlen (concat ivs).
Proof.
  intros ivs. unfold ivs_after, znth. change (Z.to_nat (0 + 1)) with 1%nat. change (0 <? 0) with false.
  change (Z.to_nat 0) with 0%nat. cbv iota.
  destruct ivs as [|x l]; unfold zlen; cbn [nth skipn concat length]; [lia|]. rewrite app_length. lia.
Qed.

(* decodeScan: an accepted scan of N blocks has at least N/4 bytes after the SOS header *)
Theorem dec_scan_work : forall dcT acT comps ri nmcu rest bl,
  tabs_nonneg dcT -> tabs_nonneg acT ->
  dec_scan dcT acT comps ri nmcu rest = Ok bl -> zlen bl <= 4 * zlen rest.
Proof.
  intros dcT acT comps ri nmcu rest bl Hd Ha H. unfold dec_scan in H.
  set (ivs := split_rst ri rest) in *.
  assert (I0 : rinv (r_init (znth ivs 0 []))) by (unfold rinv; cbn; lia).
  pose proof (dec_mcus_meas _ _ _ _ _ _ _ 0 _ _ _ Hd Ha I0 (Z.le_refl 0) H) as M.
  unfold rmeas in M. cbn [r_init r_n r_rest] in M.
  pose proof (ivs_head ivs) as Hsum.
  pose proof (split_go_len rest (0 <? ri) [] []) as Hl. fold (split_rst ri rest) in Hl. fold ivs in Hl.
  change (zlen (@nil Z)) with 0 in Hl. change (zlen (concat (@nil (list Z)))) with 0 in Hl. lia.
Qed.

(* the entropy part of baseline.Decode *)
Theorem ent_decode_work : forall payloads comps ri nmcu rest bl,
  Forall bytes_ok payloads ->
  ent_decode payloads comps ri nmcu rest = Ok bl -> zlen bl <= 4 * zlen rest.
Proof.
  intros payloads comps ri nmcu rest bl Hb H. unfold ent_decode in H.
  destruct no_tables_ok as [N1 N2].
  pose proof (bl_parse_dhts_safe payloads no_tables no_tables Hb N1 N1 N2 N2) as Hp.
  destruct (bl_parse_dhts payloads no_tables no_tables) as [[d a]| | |]; cbn in Hp; try contradiction;
    cbn [obind fst snd] in H; try discriminate.
  destruct Hp as (H1 & H2 & _). exact (dec_scan_work d a comps ri nmcu rest bl H1 H2 H).
Qed.


(* ---------- the number of blocks of an accepted scan is the declared one ---------- *)
Definition mcu_blocks (comps : list ecomp) : Z :=
  fold_right (fun c acc => Z.of_nat (Z.to_nat (ec_v c * ec_h c)) + acc) 0 comps.

Lemma dec_comp_count : forall n dcT acT td ta ci pred st bl p st',
  dec_comp n dcT acT td ta ci pred st = Ok (bl, p, st') -> length bl = n.
Proof.
  induction n as [|n IH]; intros dcT acT td ta ci pred st bl p st' H; cbn [dec_comp] in H.
  - injection H as <- _ _. reflexivity.
  - destruct (dec_block dcT acT td ta pred st) as [[[zz p1] st1]| | |]; cbn [obind] in H; try discriminate.
    cbn [fst snd] in H.
    destruct (dec_comp n dcT acT td ta ci p1 st1) as [[[bl2 p2] st2]| | |] eqn:Ec; cbn [obind] in H; try discriminate.
    apply IH in Ec. injection H as <- _ _. cbn [fst length]. lia.
Qed.

Lemma dec_mcu_count : forall comps dcT acT ci preds st bl ps st',
  length preds = length comps ->
  dec_mcu dcT acT comps ci preds st = Ok (bl, ps, st') ->
  zlen bl = mcu_blocks comps /\ length ps = length comps.
Proof.
  induction comps as [|c cs IH]; intros dcT acT ci preds st bl ps st' Hl H; cbn [dec_mcu] in H.
  - injection H as <- <- _. split; reflexivity.
  - destruct preds as [|p ps0]; [discriminate|]. cbn [length] in Hl.
    destruct (dec_comp _ dcT acT (ec_td c) (ec_ta c) ci p st) as [[[bl1 p1] st1]| | |] eqn:Ec; cbn [obind] in H; try discriminate.
    apply dec_comp_count in Ec. cbn [fst snd] in H.
    destruct (dec_mcu dcT acT cs (ci + 1) ps0 st1) as [[[bl2 ps2] st2]| | |] eqn:Em; cbn [obind] in H; try discriminate.
    apply IH in Em; [|lia]. destruct Em as [E1 E2].
    injection H as <- <- _. cbn [fst snd mcu_blocks fold_right length]. unfold zlen in *. rewrite app_length.
    fold (mcu_blocks cs). split; lia.
Qed.

Lemma dec_mcus_count : forall n dcT acT comps ri ivs k interval preds st bl,
  length preds = length comps ->
  dec_mcus n dcT acT comps ri ivs k interval preds st = Ok bl ->
  zlen bl = Z.of_nat n * mcu_blocks comps.
Proof.
  induction n as [|n IH]; intros dcT acT comps ri ivs k interval preds st bl Hl H; cbn [dec_mcus] in H.
  - injection H as <-. reflexivity.
  - match type of H with (if ?c then _ else _) = _ => destruct c end; [discriminate|].
    match type of H with obind (dec_mcu _ _ _ _ ?P ?S) _ = _ =>
      destruct (dec_mcu dcT acT comps 0 P S) as [[[bl1 ps1] st1]| | |] eqn:Em; cbn [obind] in H; try discriminate;
      assert (HP : length P = length comps) by (destruct ((0 <? ri) && (0 <? k) && (Z.rem k ri =? 0)); rewrite ?map_length; exact Hl)
    end.
    destruct (dec_mcu_count _ _ _ _ _ _ _ _ _ HP Em) as [E1 E2]. cbn [fst snd] in H.
    destruct (dec_mcus n _ _ _ _ _ _ _ _ _) as [bl2| | |] eqn:Er; cbn [obind] in H; try discriminate.
    apply IH in Er; [|exact E2]. injection H as <-. unfold zlen in *. rewrite app_length. lia.
Qed.

(* C09: a scan whose header declares nmcu MCUs of mcu_blocks blocks each is accepted only if
   the bytes after the SOS header number at least a quarter of the declared blocks; together
   with the 64-iteration bound per block the decoding work is linear in the input length *)
Theorem dec_scan_declared : forall dcT acT comps ri nmcu rest bl,
  tabs_nonneg dcT -> tabs_nonneg acT ->
  dec_scan dcT acT comps ri nmcu rest = Ok bl ->
  zlen bl = Z.of_nat nmcu * mcu_blocks comps /\ Z.of_nat nmcu * mcu_blocks comps <= 4 * zlen rest.
Proof.
  intros dcT acT comps ri nmcu rest bl Hd Ha H.
  pose proof (dec_scan_work _ _ _ _ _ _ _ Hd Ha H) as Hw.
  unfold dec_scan in H. apply dec_mcus_count in H; [|rewrite map_length; reflexivity].
  split; [exact H | lia].
Qed.
