(* EXTRACT *)
(* Entropy (Huffman) layer of the baseline sequential JPEG codec, code as it is:
     jpeg/baseline/encoder.go : encodeBlock (DC difference, run-length / ZRL / EOB coding of the
        AC coefficients, category + magnitude bits), encodeGrayscale / encodeRGB (scan order,
        DC predictors), encodeScan (Flush);
     jpeg/baseline/decoder.go : parseDHT, decodeScan (split at markers, restart intervals, MCU
        loop, per-component DC predictors), decodeBlock (Decode / ReceiveExtend, `k += r`,
        coefficient stores) -- every table / array index is an explicit check.
   Reused: JpegLL.JllBits (HuffmanEncoder.WriteBits/Flush, HuffmanDecoder.ReadBit/ReadBits with
   FF00 stuffing), JpegLL.JllHuff (HuffmanTable.Build, Decode, ReceiveExtend, BuildHuffmanCodes,
   EncodeCategory), JpegDCT.DctZigzag (ZigZag), JpegDCT.DctRestart (decodeScan byte loop).

   Blocks are handled in ZIG-ZAG order at this level: entry k of a block is coef[ZigZag[k]].
   [to_zigzag] / [from_zigzag] (DctZigzag) convert from / to the natural order used by the DCT
   stage (DctPipeline.enc_plane).  ZigZag[k] < 64 for k < 64 (DctProofsA.zigzag_perm), so the
   Go stores coef[ZigZag[k]] cannot fail once k < 64 has been checked. *)
From V Require Import Common.Base JpegLL.JllBits JpegLL.JllHuff JpegDCT.DctZigzag JpegDCT.DctRestart.

(* ====================================================================================== *)
(* Encoder                                                                                *)
(* ====================================================================================== *)

(* codes := BuildHuffmanCodes(table): 256 entries (Code, Len); Len = 0 for a symbol the table
   does not contain.  The index is a byte (AC) or a category (DC, <= 64), never out of range. *)
Definition code_at (codes : list (Z * Z)) (s : Z) : Z * Z := znth codes s (0, 0).

(* every element is one call WriteBits(value, n); n = 0 is the no-op of WriteBits *)
Definition enc_dc_words (dcC : list (Z * Z)) (diff : Z) : list (Z * Z) :=
  let cb := encode_category diff in
  code_at dcC (fst cb) :: (if 0 <? fst cb then [(snd cb, fst cb)] else []).

(* the AC loop for k := 1..63 over coef[ZigZag[k]]; [run] = zeroRun.
   `for zeroRun >= 16 { write ZRL; zeroRun -= 16 }` runs zeroRun>>4 times and leaves zeroRun&15;
   rs := byte((zeroRun << 4) | cat). *)
Fixpoint enc_ac_words (acC : list (Z * Z)) (l : list Z) (run : Z) : list (Z * Z) :=
  match l with
  | [] => if 0 <? run then [code_at acC 0] else []
  | v :: l' =>
    if v =? 0 then enc_ac_words acC l' (run + 1)
    else
      let cb := encode_category v in
      let rs := byte_of (Z.lor (Z.shiftl (Z.land run 15) 4) (fst cb)) in
      repeat (code_at acC 240) (Z.to_nat (Z.shiftr run 4))
        ++ code_at acC rs :: (snd cb, fst cb) :: enc_ac_words acC l' 0
  end.

(* encodeBlock after quantizeBlock: zz = the block in zig-zag order; dcDiff = coef[0] - *dcPred
   (Go int, no wrap: both are int32 values); the new predictor is coef[0] *)
Definition enc_block_words (dcC acC : list (Z * Z)) (pred : Z) (zz : list Z) : list (Z * Z) :=
  match zz with
  | [] => []
  | c0 :: acs => enc_dc_words dcC (c0 - pred) ++ enc_ac_words acC acs 0
  end.

(* one MCU of the scans the encoder emits: one block per component (H = V = 1), component i
   coded with table pair tabs[i] (encodeGrayscale: [0]; encodeRGB: [0;1;1]) and its own
   predictor.  codes = [(dcCodes[0], acCodes[0]); (dcCodes[1], acCodes[1])]. *)
Fixpoint enc_mcu_words (codes : list (list (Z * Z) * list (Z * Z))) (tabs preds : list Z)
    (blocks : list (list Z)) : list (Z * Z) * list Z :=
  match tabs, preds, blocks with
  | t :: ts, p :: ps, b :: bs =>
    let cc := znth codes t ([], []) in
    let r := enc_mcu_words codes ts ps bs in
    (enc_block_words (fst cc) (snd cc) p b ++ fst r, znth b 0 0 :: snd r)
  | _, _, _ => ([], [])
  end.

Fixpoint enc_mcus_words (codes : list (list (Z * Z) * list (Z * Z))) (tabs preds : list Z)
    (mcus : list (list (list Z))) : list (Z * Z) :=
  match mcus with
  | [] => []
  | m :: ms =>
    let r := enc_mcu_words codes tabs preds m in
    fst r ++ enc_mcus_words codes tabs (snd r) ms
  end.

Definition enc_scan_words (codes : list (list (Z * Z) * list (Z * Z))) (tabs : list Z)
    (mcus : list (list (list Z))) : list (Z * Z) :=
  enc_mcus_words codes tabs (map (fun _ => 0) tabs) mcus.

(* the HuffmanEncoder over a list of WriteBits calls, then Flush *)
Fixpoint ent_write_all (st : wstate) (ws : list (Z * Z)) : list Z :=
  match ws with
  | [] => w_flush st
  | (v, n) :: ws' => let '(st', out) := write_bits st v n in out ++ ent_write_all st' ws'
  end.

(* encodeScan: the entropy-coded segment between the SOS header and EOI *)
Definition enc_scan_bytes (codes : list (list (Z * Z) * list (Z * Z))) (tabs : list Z)
    (mcus : list (list (list Z))) : list Z :=
  ent_write_all w_init (enc_scan_words codes tabs mcus).

(* scans of baseline.Encode from natural-order blocks (DctPipeline.enc_plane order).
   tables = [(dcBits, dcVals, acBits, acVals)] per table index. *)
Definition codes_of_tables (tables : list (list Z * list Z * list Z * list Z))
  : list (list (Z * Z) * list (Z * Z)) :=
  map (fun t => match t with (db, dv, ab, av) => (build_codes db dv, build_codes ab av) end) tables.

Definition enc_grey_scan (tables : list (list Z * list Z * list Z * list Z))
    (blocks : list (list Z)) : list Z :=
  enc_scan_bytes (codes_of_tables tables) [0] (map (fun b => [to_zigzag b]) blocks).

Fixpoint zip3 (a b c : list (list Z)) : list (list (list Z)) :=
  match a, b, c with
  | x :: a', y :: b', z :: c' => [to_zigzag x; to_zigzag y; to_zigzag z] :: zip3 a' b' c'
  | _, _, _ => []
  end.
Definition enc_rgb_scan (tables : list (list Z * list Z * list Z * list Z))
    (by_ bcb bcr : list (list Z)) : list Z :=
  enc_scan_bytes (codes_of_tables tables) [0; 1; 1] (zip3 by_ bcb bcr).

(* ====================================================================================== *)
(* Decoder                                                                                *)
(* ====================================================================================== *)

(* d.dcTables[sel] / d.acTables[sel]: [4]*HuffmanTable; an index outside the array is a panic
   (parseSOS rejects selectors > 3, so the caller never produces one) *)
Definition sel_table (tabs : list (option htable)) (sel : Z) : outcome (option htable) :=
  if (0 <=? sel) && (sel <? zlen tabs) then Ok (znth tabs sel None) else Panic.

(* the AC loop of decodeBlock: `for k < 64 { rs := Decode; r := rs>>4; s := rs&15; ... }`.
   zz[k] stands for coef[ZigZag[k]]; stores are int32(val).  Every iteration either ends the
   loop or increases k, so 63 iterations suffice; fuel 64 is never exhausted (JentProofsT). *)
Fixpoint dec_ac (fuel : nat) (act : htable) (k : Z) (zz : list Z) (st : rstate)
  : outcome (list Z * rstate) :=
  if 64 <=? k then Ok (zz, st) else
  match fuel with
  | O => OutOfFuel
  | S f =>
    match huff_decode act st with
    | None => Err
    | Some (rs, st1) =>
      let r := Z.shiftr rs 4 in
      let s := Z.land rs 15 in
      if s =? 0 then
        (if r =? 15 then dec_ac f act (k + 16) zz st1 else Ok (zz, st1))
      else
        let k' := k + r in
        if 64 <=? k' then Err                                   (* ErrInvalidData *)
        else
          match receive_extend st1 s with
          | None => Err
          | Some (v, st2) => dec_ac f act (k' + 1) (zupd zz k' (wrapS 32 v)) st2
          end
    end
  end.

(* decodeBlock up to the IDCT: (block in zig-zag order, new comp.dcPred, reader).
   Order of the checks as in the code: dcTables[sel], nil check, Decode, ReceiveExtend (the DC
   symbol is any byte 0..255 when the table is hostile), dcPred += diff on Go int,
   coef[0] = int32(dcPred), acTables[sel], nil check, AC loop. *)
Definition dec_block (dcT acT : list (option htable)) (td ta : Z) (pred : Z) (st : rstate)
  : outcome (list Z * Z * rstate) :=
  obind (sel_table dcT td) (fun dct =>
  match dct with
  | None => Err                                               (* ErrInvalidDHT *)
  | Some dt =>
    match huff_decode dt st with
    | None => Err
    | Some (s, st1) =>
      match receive_extend st1 s with
      | None => Err
      | Some (diff, st2) =>
        let pred' := wrapS 64 (pred + diff) in
        obind (sel_table acT ta) (fun act =>
        match act with
        | None => Err
        | Some at_ =>
          obind (dec_ac 64 at_ 1 (wrapS 32 pred' :: repeat 0 63) st2) (fun r =>
            Ok (fst r, pred', snd r))
        end)
      end
    end
  end).

(* a component of the frame as the scan sees it: sampling factors and table selectors *)
Record ecomp := mkEC { ec_h : Z; ec_v : Z; ec_td : Z; ec_ta : Z }.

(* `for v < comp.V { for h < comp.H { decodeBlock } }` : n = V*H blocks of one component.
   Result blocks are tagged with the component index, in scan order. *)
Fixpoint dec_comp (n : nat) (dcT acT : list (option htable)) (td ta ci : Z) (pred : Z)
    (st : rstate) : outcome (list (Z * list Z) * Z * rstate) :=
  match n with
  | O => Ok ([], pred, st)
  | S n' =>
    obind (dec_block dcT acT td ta pred st) (fun r1 =>
    obind (dec_comp n' dcT acT td ta ci (snd (fst r1)) (snd r1)) (fun r2 =>
      Ok ((ci, fst (fst r1)) :: fst (fst r2), snd (fst r2), snd r2)))
  end.

(* `for _, comp := range d.components` : one MCU; preds is the list of comp.dcPred *)
Fixpoint dec_mcu (dcT acT : list (option htable)) (comps : list ecomp) (ci : Z) (preds : list Z)
    (st : rstate) : outcome (list (Z * list Z) * list Z * rstate) :=
  match comps, preds with
  | c :: cs, p :: ps =>
    obind (dec_comp (Z.to_nat (ec_v c * ec_h c)) dcT acT (ec_td c) (ec_ta c) ci p st) (fun r1 =>
    obind (dec_mcu dcT acT cs (ci + 1) ps (snd r1)) (fun r2 =>
      Ok (fst (fst r1) ++ fst (fst r2), snd (fst r1) :: snd (fst r2), snd r2)))
  | _, _ => Ok ([], [], st)
  end.

(* the MCU loop of decodeScan; k = mcuCount before the increment, [interval] the index of the
   restart interval in use.  restartInt > 0 && mcuCount > 0 && mcuCount % restartInt == 0:
   next interval (ErrInvalidData when there is none), fresh bit reader, predictors zeroed. *)
Fixpoint dec_mcus (n : nat) (dcT acT : list (option htable)) (comps : list ecomp) (ri : Z)
    (intervals : list (list Z)) (k interval : Z) (preds : list Z) (st : rstate)
  : outcome (list (Z * list Z)) :=
  match n with
  | O => Ok []
  | S n' =>
    let rs := (0 <? ri) && (0 <? k) && (Z.rem k ri =? 0) in
    let interval' := if rs then interval + 1 else interval in
    if rs && (zlen intervals <=? interval') then Err
    else
      let st0 := if rs then r_init (znth intervals interval' []) else st in
      let preds0 := if rs then map (fun _ => 0) preds else preds in
      obind (dec_mcu dcT acT comps 0 preds0 st0) (fun r1 =>
      obind (dec_mcus n' dcT acT comps ri intervals (k + 1) interval' (snd (fst r1)) (snd r1))
        (fun bl => Ok (fst (fst r1) ++ bl)))
  end.

(* decodeScan: [rest] = all bytes after the SOS header; nmcu = mcuRows * mcuCols.
   Result: the blocks (zig-zag order) tagged with their component index, in scan order. *)
Definition dec_scan (dcT acT : list (option htable)) (comps : list ecomp) (ri : Z) (nmcu : nat)
    (rest : list Z) : outcome (list (Z * list Z)) :=
  let intervals := split_rst ri rest in
  dec_mcus nmcu dcT acT comps ri intervals 0 0 (map (fun _ => 0) comps)
           (r_init (znth intervals 0 [])).

(* ---------- parseDHT (jpeg/baseline/decoder.go) over a DHT segment payload ---------- *)
(* fuel = payload length (each table consumes at least 17 bytes) *)
Fixpoint bl_parse_dht (fuel : nat) (data : list Z) (dcT acT : list (option htable))
  : outcome (list (option htable) * list (option htable)) :=
  match data with
  | [] => Ok (dcT, acT)
  | tcth :: rest =>
    match fuel with
    | O => OutOfFuel
    | S f =>
      let tc := Z.shiftr tcth 4 in
      let th := Z.land tcth 15 in
      if 3 <? th then Err
      else if (length rest <? 16)%nat then Err
      else
        let bits := firstn 16 rest in
        let rest1 := skipn 16 rest in
        let total := zsum bits in
        if zlen rest1 <? total then Err
        else
          let vals := firstn (Z.to_nat total) rest1 in
          obind (build_table bits vals) (fun t =>
            let rest2 := skipn (Z.to_nat total) rest1 in
            if tc =? 0 then bl_parse_dht f rest2 (zupd dcT th (Some t)) acT
            else bl_parse_dht f rest2 dcT (zupd acT th (Some t)))
    end
  end.

Definition no_tables : list (option htable) := [None; None; None; None].

(* all DHT payloads of a stream, in order *)
Fixpoint bl_parse_dhts (payloads : list (list Z)) (dcT acT : list (option htable))
  : outcome (list (option htable) * list (option htable)) :=
  match payloads with
  | [] => Ok (dcT, acT)
  | p :: ps => obind (bl_parse_dht (length p) p dcT acT) (fun r => bl_parse_dhts ps (fst r) (snd r))
  end.

(* DHT payloads + scan bytes -> coefficient blocks: the entropy part of baseline.Decode *)
Definition ent_decode (payloads : list (list Z)) (comps : list ecomp) (ri : Z) (nmcu : nat)
    (rest : list Z) : outcome (list (Z * list Z)) :=
  obind (bl_parse_dhts payloads no_tables no_tables) (fun r =>
    dec_scan (fst r) (snd r) comps ri nmcu rest).

(* the blocks back in natural order *)
Definition blocks_natural (bl : list (Z * list Z)) : list (Z * list Z) :=
  map (fun b => (fst b, from_zigzag (snd b))) bl.

(* ====================================================================================== *)
(* 12-bit extended sequential decoder (jpeg/extended/sequential12.go), entropy part        *)
(* ====================================================================================== *)
(* One component, one DC and one AC table (destination 0 only), no restart intervals (RSTn
   markers in the scan are dropped), coefficients are not narrowed to int32 (they go to
   float64 after the multiplication by the quantiser step, which is not part of this layer). *)

(* decodeScan byte loop: cur = scan buffer (reversed).  FF as the last byte of the input is
   the error of ReadByte (io.EOF), unlike the baseline loop which keeps the FF. *)
Fixpoint split12 (data cur : list Z) : option (list Z) :=
  match data with
  | [] => Some (rev cur)
  | b :: t =>
    if b =? 255 then
      match t with
      | [] => None
      | b2 :: t2 =>
        if b2 =? 0 then split12 t2 (0 :: 255 :: cur)
        else if is_rst b2 then split12 t2 cur
        else Some (rev cur)
      end
    else split12 t (b :: cur)
  end.

(* the AC loop of sequential12Decoder.decodeBlock: as dec_ac, the store is the plain value *)
Fixpoint dec_ac12 (fuel : nat) (act : htable) (k : Z) (zz : list Z) (st : rstate)
  : outcome (list Z * rstate) :=
  if 64 <=? k then Ok (zz, st) else
  match fuel with
  | O => OutOfFuel
  | S f =>
    match huff_decode act st with
    | None => Err
    | Some (rs, st1) =>
      let r := Z.shiftr rs 4 in
      let s := Z.land rs 15 in
      if s =? 0 then
        (if r =? 15 then dec_ac12 f act (k + 16) zz st1 else Ok (zz, st1))
      else
        let k' := k + r in
        if 64 <=? k' then Err
        else
          match receive_extend st1 s with
          | None => Err
          | Some (v, st2) => dec_ac12 f act (k' + 1) (zupd zz k' v) st2
          end
    end
  end.

Definition dec_block12 (dt at_ : htable) (pred : Z) (st : rstate) : outcome (list Z * Z * rstate) :=
  match huff_decode dt st with
  | None => Err
  | Some (s, st1) =>
    match receive_extend st1 s with
    | None => Err
    | Some (diff, st2) =>
      let pred' := wrapS 64 (pred + diff) in
      obind (dec_ac12 64 at_ 1 (pred' :: repeat 0 63) st2) (fun r => Ok (fst r, pred', snd r))
    end
  end.

(* for blockY < DivCeil(h,8) { for blockX < DivCeil(w,8) { decodeBlock } } : n blocks *)
Fixpoint dec_blocks12 (n : nat) (dt at_ : htable) (pred : Z) (st : rstate) : outcome (list (list Z)) :=
  match n with
  | O => Ok []
  | S n' =>
    obind (dec_block12 dt at_ pred st) (fun r1 =>
    obind (dec_blocks12 n' dt at_ (snd (fst r1)) (snd r1)) (fun bl => Ok (fst (fst r1) :: bl)))
  end.

(* parseDHT of the 12-bit decoder over a DHT payload: only destination 0, class 0 or 1 *)
Fixpoint parse_dht12 (fuel : nat) (data : list Z) (dt at_ : option htable)
  : outcome (option htable * option htable) :=
  match data with
  | [] => Ok (dt, at_)
  | cid :: rest =>
    match fuel with
    | O => OutOfFuel
    | S f =>
      if (length rest <? 16)%nat then Err                       (* offset+17 > len(data) *)
      else if negb (Z.land cid 15 =? 0) || (1 <? Z.shiftr cid 4) then Err
      else
        let bits := firstn 16 rest in
        let rest1 := skipn 16 rest in
        let total := zsum bits in
        if zlen rest1 <? total then Err
        else
          let vals := firstn (Z.to_nat total) rest1 in
          obind (build_table bits vals) (fun t =>
            let rest2 := skipn (Z.to_nat total) rest1 in
            if Z.shiftr cid 4 =? 0 then parse_dht12 f rest2 (Some t) at_
            else parse_dht12 f rest2 dt (Some t))
    end
  end.

Fixpoint parse_dhts12 (payloads : list (list Z)) (dt at_ : option htable)
  : outcome (option htable * option htable) :=
  match payloads with
  | [] => Ok (dt, at_)
  | p :: ps => obind (parse_dht12 (length p) p dt at_) (fun r => parse_dhts12 ps (fst r) (snd r))
  end.

(* DHT payloads + bytes after the SOS header -> blocks in zig-zag order (before the
   multiplication by the quantiser steps).  parseSOS: ErrInvalidDHT unless both tables exist. *)
Definition ent_decode12 (payloads : list (list Z)) (nblocks : nat) (rest : list Z)
  : outcome (list (list Z)) :=
  obind (parse_dhts12 payloads None None) (fun r =>
    match fst r, snd r with
    | Some dt, Some at_ =>
      match split12 rest [] with
      | None => Err
      | Some scan => dec_blocks12 nblocks dt at_ 0 (r_init scan)
      end
    | _, _ => Err
    end).
