(* The entropy layer is lossless on the quantised coefficients (C11 needs exactly this):
   natural-order blocks (as produced by the DCT / quantiser stage) -> zig-zag -> encodeScan
   bytes -> parseDHT + decodeScan -> natural-order blocks, for the grey scan of baseline.Encode
   and, through ent_scan_roundtrip, the interleaved 4:4:4 scan.  Boolean checkers for the
   hypotheses (with soundness lemmas) so that concrete instances are decided by computation. *)
From V Require Import Common.Base JpegLL.JllBits JpegLL.JllHuff JpegLL.JllT81
  JpegLL.JllProofsBits JpegLL.JllProofsHuff JpegDCT.DctZigzag JpegDCT.DctRestart
  JpegEnt.JentModel JpegEnt.JentProofsBlock JpegEnt.JentProofsScan.

(* ---------- zig-zag reordering is undone by the decoder's stores ---------- *)
Lemma from_to_zigzag : forall b, length b = 64%nat -> from_zigzag (to_zigzag b) = b.
Proof.
  intros b H.
  do 64 (destruct b as [|? b]; [discriminate|]). destruct b; [|discriminate].
  vm_compute. reflexivity.
Qed.

Lemma to_zigzag_length : forall b, length (to_zigzag b) = 64%nat.
Proof. intros. unfold to_zigzag. rewrite map_length. reflexivity. Qed.

(* ---------- parseDHT on the payload writeDHT produces ---------- *)
(* data[0] = class<<4 | id ; 16 counts ; the values *)
Definition dht_payload (tc th : Z) (bits vals : list Z) : list Z := (tc * 16 + th) :: bits ++ vals.

Lemma bl_parse_dht_payload : forall tc th bits vals dcT acT,
  t81_table_ok bits vals = true -> 0 <= th <= 3 -> 0 <= tc <= 1 ->
  bl_parse_dht (length (dht_payload tc th bits vals)) (dht_payload tc th bits vals) dcT acT
  = if tc =? 0 then Ok (zupd dcT th (Some (ht_of bits vals)), acT)
    else Ok (dcT, zupd acT th (Some (ht_of bits vals))).
Proof.
  intros tc th bits vals dcT acT Hok Hth Htc.
  pose proof (table_ok_facts _ _ Hok) as F. pose proof (build_table_facts _ _ F) as Hb.
  destruct F as [Fl Fb Fs Fv Fn Ff].
  unfold dht_payload. cbn [length bl_parse_dht].
  assert (E1 : Z.land (tc * 16 + th) 15 = th).
  { change 15 with (Z.ones 4). rewrite Z.land_ones by lia. change (2 ^ 4) with 16.
    symmetry. apply (Z.mod_unique _ 16 tc th); lia. }
  assert (E2 : Z.shiftr (tc * 16 + th) 4 = tc).
  { rewrite Z.shiftr_div_pow2 by lia. change (2 ^ 4) with 16.
    symmetry. apply (Z.div_unique _ 16 tc th); lia. }
  rewrite E1, E2. destruct (Z.ltb_spec 3 th); [lia|].
  rewrite app_length, Fl.
  destruct (Nat.ltb_spec (16 + length vals) 16); [lia|].
  assert (F16 : firstn 16 (bits ++ vals) = bits).
  { rewrite <- Fl. rewrite firstn_app, Nat.sub_diag, firstn_all. cbn [firstn]. apply app_nil_r. }
  assert (S16 : skipn 16 (bits ++ vals) = vals).
  { rewrite <- Fl. rewrite skipn_app, Nat.sub_diag, skipn_all. reflexivity. }
  rewrite F16, S16, Fs. destruct (Z.ltb_spec (zlen vals) (zlen vals)); [lia|].
  unfold zlen. rewrite Nat2Z.id, firstn_all, skipn_all, Hb. cbn [obind].
  destruct (tc =? 0); destruct (length bits + length vals)%nat; reflexivity.
Qed.

(* ---------- the grey scan ---------- *)
Fixpoint chain_ok (dv av : list Z) (pred : Z) (zzs : list (list Z)) : Prop :=
  match zzs with
  | [] => True
  | z :: r => block_ok dv av pred z /\ chain_ok dv av (hd 0 z) r
  end.

Definition grey_dcT (db dv : list Z) : list (option htable) := [Some (ht_of db dv); None; None; None].

Lemma chain_mcus_ok : forall db dv ab av zzs pred,
  t81_table_ok db dv = true -> t81_table_ok ab av = true -> chain_ok dv av pred zzs ->
  mcus_ok (codes_of_tables [(db, dv, ab, av)]) (grey_dcT db dv) (grey_dcT ab av) [0] [pred]
          (map (fun z => [z]) zzs).
Proof.
  intros db dv ab av. induction zzs as [|z r IH]; intros pred Hd Ha H; [exact I|].
  cbn [chain_ok] in H. destruct H as [Hb Hr]. cbn [map mcus_ok mcu_ok hd]. split.
  - split; [|exact I]. exists dv, av. split; [|exact Hb].
    exists db, ab. repeat split; assumption.
  - apply IH; assumption.
Qed.

Lemma tag0_singletons : forall zzs, concat (map (tag 0) (map (fun z => [z]) zzs)) = map (fun z => (0, z)) zzs.
Proof. induction zzs as [|z r IH]; [reflexivity|]. cbn [map concat tag app]. rewrite IH. reflexivity. Qed.

(* baseline.Encode's grey scan: natural-order blocks in, natural-order blocks out *)
Theorem ent_grey_lossless : forall db dv ab av blocks tail,
  t81_table_ok db dv = true -> t81_table_ok ab av = true ->
  Forall (fun b => length b = 64%nat) blocks ->
  chain_ok dv av 0 (map to_zigzag blocks) -> scan_end tail ->
  obind (ent_decode [dht_payload 0 0 db dv; dht_payload 1 0 ab av] [comp_of 0] 0 (length blocks)
                    (enc_grey_scan [(db, dv, ab, av)] blocks ++ tail))
        (fun bl => Ok (blocks_natural bl))
  = Ok (map (fun b => (0, b)) blocks).
Proof.
  intros db dv ab av blocks tail Hd Ha Hlen Hch Hend.
  unfold ent_decode. cbn [bl_parse_dhts].
  rewrite (bl_parse_dht_payload 0 0 db dv no_tables no_tables Hd) by lia.
  cbn [Z.eqb obind fst snd].
  rewrite (bl_parse_dht_payload 1 0 ab av _ no_tables Ha) by lia.
  cbn [Z.eqb obind fst snd].
  change (zupd no_tables 0 (Some (ht_of db dv))) with (grey_dcT db dv).
  change (zupd no_tables 0 (Some (ht_of ab av))) with (grey_dcT ab av).
  unfold enc_grey_scan.
  replace (map (fun b => [to_zigzag b]) blocks) with (map (fun z => [z]) (map to_zigzag blocks))
    by (rewrite map_map; reflexivity).
  replace (length blocks) with (length (map (fun z : list Z => [z]) (map to_zigzag blocks)))
    by (rewrite !map_length; reflexivity).
  change [comp_of 0] with (map comp_of [0]).
  rewrite (ent_scan_roundtrip _ (grey_dcT db dv) (grey_dcT ab av) [0] _ tail
             (chain_mcus_ok db dv ab av _ 0 Hd Ha Hch) Hend).
  cbn [obind]. f_equal. rewrite tag0_singletons. unfold blocks_natural. rewrite !map_map. cbn [fst snd].
  apply map_ext_in. intros b Hb. f_equal. apply from_to_zigzag.
  apply (proj1 (Forall_forall _ _) Hlen). exact Hb.
Qed.

(* ---------- boolean checkers ---------- *)
Definition memb (s : Z) (l : list Z) : bool := existsb (Z.eqb s) l.
Lemma memb_In : forall s l, memb s l = true -> In s l.
Proof. intros s l H. apply existsb_exists in H. destruct H as (x & Hx & E). apply Z.eqb_eq in E. subst. exact Hx. Qed.

Definition rangeb (v : Z) : bool := (-32767 <=? v) && (v <=? 32767).
Lemma rangeb_ok : forall v, rangeb v = true -> ent_range v.
Proof. intros v H. unfold rangeb in H. apply andb_true_iff in H. unfold ent_range. lia. Qed.

Definition block_okb (dv av : list Z) (pred : Z) (zz : list Z) : bool :=
  (length zz =? 64)%nat && rangeb (hd 0 zz - pred)
  && (- 2 ^ 31 <=? hd 0 zz) && (hd 0 zz <? 2 ^ 31)
  && forallb rangeb (tl zz)
  && memb (fst (encode_category (hd 0 zz - pred))) dv
  && forallb (fun s => memb s av) (ac_syms (tl zz) 0).

Lemma block_okb_ok : forall dv av pred zz, block_okb dv av pred zz = true -> block_ok dv av pred zz.
Proof.
  intros dv av pred zz H. unfold block_okb in H. rewrite !andb_true_iff in H.
  destruct H as [[[[[[H1 H2] H3] H4] H5] H6] H7].
  unfold block_ok. split; [apply Nat.eqb_eq; exact H1|].
  split; [apply rangeb_ok; exact H2|]. split; [lia|].
  split; [apply Forall_forall; intros x Hx; apply rangeb_ok; apply (proj1 (forallb_forall _ _) H5); exact Hx|].
  split; [apply memb_In; exact H6|].
  intros s Hs. apply memb_In. apply (proj1 (forallb_forall _ _) H7). exact Hs.
Qed.

Fixpoint chain_okb (dv av : list Z) (pred : Z) (zzs : list (list Z)) : bool :=
  match zzs with
  | [] => true
  | z :: r => block_okb dv av pred z && chain_okb dv av (hd 0 z) r
  end.
Lemma chain_okb_ok : forall dv av zzs pred, chain_okb dv av pred zzs = true -> chain_ok dv av pred zzs.
Proof.
  intros dv av. induction zzs as [|z r IH]; intros pred H; [exact I|].
  cbn [chain_okb] in H. apply andb_true_iff in H. destruct H as [H1 H2].
  split; [apply block_okb_ok; exact H1 | apply IH; exact H2].
Qed.
