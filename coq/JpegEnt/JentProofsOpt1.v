(* Optimised Huffman tables for the baseline scan: when the DC / AC table of every table index is
   BuildOptimalHuffmanTable of the histogram of exactly the symbols the scan encoder looks up
   for that index, the table-dependent part of mcus_ok (every needed symbol has a code, tables
   valid) holds; what is left of mcus_ok is the shape / coefficient-range part [mcus_shape].
   The histogram is defined here as the count of the symbol lists [scan_dc_syms] / [scan_ac_syms]
   (the symbols enc_block_words looks up: EncodeCategory of the DC difference, run/size bytes,
   ZRL, EOB); the Go function countBlock, which computes it with its own huffmanCategory, is
   NOT modelled as a separate function. *)
From V Require Import Common.Base JpegLL.JllBits JpegLL.JllHuff JpegLL.JllModel JpegLL.JllT81
  JpegLL.JllProofsBits JpegLL.JllProofsHuff JpegLL.JllProofs JpegLL.JllProofsOpt JpegLL.JllProofsOpt2
  JpegLL.JllProofsOpt3 JpegLL.JllProofsOptG1 JpegLL.JllProofsOptG2 JpegLL.JllProofsOptG3
  JpegDCT.DctZigzag JpegDCT.DctRestart
  JpegEnt.JentModel JpegEnt.JentProofsBlock JpegEnt.JentProofsScan.

(* ---------- histogram of a symbol list: frequencies[sym]++ ---------- *)
Definition hstep (fr : list Z) (s : Z) : list Z := zupd fr s (znth fr s 0 + 1).
Definition hist (syms : list Z) : list Z := fold_left hstep syms (repeat 0 256).

Lemma hist_fold_facts : forall syms fr, length fr = 256%nat -> Forall (fun v => 0 <= v) fr ->
  Forall (fun s => 0 <= s < 256) syms ->
  length (fold_left hstep syms fr) = 256%nat /\ Forall (fun v => 0 <= v) (fold_left hstep syms fr) /\
  zsum (fold_left hstep syms fr) = zsum fr + zlen syms /\
  (forall i, znth fr i 0 <= znth (fold_left hstep syms fr) i 0) /\
  (forall s, In s syms -> 0 < znth (fold_left hstep syms fr) s 0).
Proof.
  induction syms as [|s syms IH]; intros fr Hl Hnn Hr.
  - cbn [fold_left]. split; [exact Hl|]. split; [exact Hnn|]. split; [unfold zlen; cbn [length]; lia|].
    split; [intros; lia | intros s []].
  - inversion Hr as [|? ? Hs Hr']; subst. cbn [fold_left].
    assert (Hge : 0 <= znth fr s 0) by (apply znth_nonneg; exact Hnn).
    assert (Hl1 : length (hstep fr s) = 256%nat) by (unfold hstep; rewrite zupd_length; exact Hl).
    assert (Hnn1 : Forall (fun v => 0 <= v) (hstep fr s)) by (unfold hstep; apply Forall_zupd; [exact Hnn | lia]).
    assert (Hs1 : zsum (hstep fr s) = zsum fr + 1) by (unfold hstep; rewrite zsum_zupd by (unfold zlen; lia); lia).
    assert (Hm1 : forall i, znth fr i 0 <= znth (hstep fr s) i 0).
    { intros i. unfold hstep. destruct (Z.eq_dec i s) as [->|Hne].
      - rewrite znth_zupd_same by (unfold zlen; lia). lia.
      - rewrite znth_zupd_other by (intros E; apply Hne; symmetry; exact E). lia. }
    assert (Hp1 : 0 < znth (hstep fr s) s 0) by (unfold hstep; rewrite znth_zupd_same by (unfold zlen; lia); lia).
    destruct (IH (hstep fr s) Hl1 Hnn1 Hr') as (A & B & C & D & E).
    split; [exact A|]. split; [exact B|]. split; [|split].
    + rewrite C, Hs1. unfold zlen. cbn [length]. lia.
    + intros i. specialize (Hm1 i). specialize (D i). lia.
    + intros x [<-|Hx]; [specialize (D s); lia | apply E; exact Hx].
Qed.

Lemma Forall_nonneg_repeat0 : forall n, Forall (fun v => 0 <= v) (repeat 0 n).
Proof. induction n; cbn [repeat]; constructor; [lia | assumption]. Qed.
Lemma zsum_repeat0 : forall n, zsum (repeat 0 n) = 0.
Proof. induction n; cbn [repeat zsum fold_right]; [reflexivity|]. unfold zsum in IHn. rewrite IHn. reflexivity. Qed.

(* BuildOptimalHuffmanTable of the histogram of ANY list of byte symbols is a valid table
   that contains all of them *)
Theorem opt_table_of_syms : forall syms, Forall (fun s => 0 <= s < 256) syms -> zlen syms < 2 ^ 63 ->
  exists bits vals, build_optimal (hist syms) = Ok (bits, vals) /\ t81_table_ok bits vals = true /\
                    incl syms vals.
Proof.
  intros syms Hr Hn. destruct syms as [|s0 syms'].
  - eexists. eexists. split; [vm_compute; reflexivity|]. split; [vm_compute; reflexivity|]. intros x [].
  - set (syms := s0 :: syms') in *.
    destruct (hist_fold_facts syms (repeat 0 256) (repeat_length _ _) (Forall_nonneg_repeat0 _) Hr)
      as (A & B & C & _ & E).
    fold (hist syms) in A, B, C, E. rewrite zsum_repeat0 in C.
    assert (Hgen : freqs_gen (hist syms)) by (split; [exact A|]; split; [exact B | lia]).
    assert (Hs0 : 0 <= s0 < 256) by (inversion Hr; assumption).
    assert (Hne : exists i, 0 <= i < 256 /\ znth (hist syms) i 0 <> 0).
    { exists s0. split; [exact Hs0|]. specialize (E s0 (or_introl eq_refl)). lia. }
    destruct (build_optimal_gen_ok (hist syms) Hgen Hne) as (bits & vals & Eb & T & Cv).
    exists bits, vals. split; [exact Eb|]. split; [exact T|].
    intros x Hx. apply Cv; [exact (proj1 (Forall_forall _ _) Hr x Hx)|]. specialize (E x Hx). lia.
Qed.

(* ---------- the symbols a scan looks up in the tables of index t0 ---------- *)
Fixpoint mcu_dc_syms (t0 : Z) (tabs preds : list Z) (blocks : list (list Z)) : list Z :=
  match tabs, preds, blocks with
  | t :: ts, p :: ps, b :: bs =>
    (if t =? t0 then [fst (encode_category (hd 0 b - p))] else []) ++ mcu_dc_syms t0 ts ps bs
  | _, _, _ => []
  end.
Fixpoint mcu_ac_syms (t0 : Z) (tabs : list Z) (blocks : list (list Z)) : list Z :=
  match tabs, blocks with
  | t :: ts, b :: bs => (if t =? t0 then ac_syms (tl b) 0 else []) ++ mcu_ac_syms t0 ts bs
  | _, _ => []
  end.
Fixpoint scan_dc_syms (t0 : Z) (tabs preds : list Z) (mcus : list (list (list Z))) : list Z :=
  match mcus with
  | [] => []
  | m :: ms => mcu_dc_syms t0 tabs preds m ++ scan_dc_syms t0 tabs (map (hd 0) m) ms
  end.
Fixpoint scan_ac_syms (t0 : Z) (tabs : list Z) (mcus : list (list (list Z))) : list Z :=
  match mcus with
  | [] => []
  | m :: ms => mcu_ac_syms t0 tabs m ++ scan_ac_syms t0 tabs ms
  end.

(* the table-independent part of mcus_ok: one 64-entry block per component, DC differences and
   AC coefficients within +-32767, DC value an int32 *)
Definition block_shape (p : Z) (b : list Z) : Prop :=
  length b = 64%nat /\ ent_range (hd 0 b - p) /\ - 2 ^ 31 <= hd 0 b < 2 ^ 31 /\ Forall ent_range (tl b).
Fixpoint mcu_shape (tabs preds : list Z) (blocks : list (list Z)) : Prop :=
  match tabs, preds, blocks with
  | t :: ts, p :: ps, b :: bs => block_shape p b /\ mcu_shape ts ps bs
  | [], [], [] => True
  | _, _, _ => False
  end.
Fixpoint mcus_shape (tabs preds : list Z) (mcus : list (list (list Z))) : Prop :=
  match mcus with
  | [] => True
  | m :: ms => mcu_shape tabs preds m /\ mcus_shape tabs (map (hd 0) m) ms
  end.

(* all symbols are bytes *)
Lemma byte_of_range : forall x, 0 <= byte_of x < 256.
Proof.
  intros x. unfold byte_of. change 255 with (Z.ones 8). rewrite Z.land_ones by lia.
  change (2 ^ 8) with 256. apply Z.mod_pos_bound. lia.
Qed.
Lemma ac_syms_range : forall l run, Forall (fun s => 0 <= s < 256) (ac_syms l run).
Proof.
  induction l as [|v l IH]; intros run; cbn [ac_syms].
  - destruct (0 <? run); [constructor; [lia | constructor] | constructor].
  - destruct (v =? 0); [apply IH|]. apply Forall_app. split.
    + apply Forall_forall. intros x Hx. apply repeat_spec in Hx. subst. lia.
    + constructor; [apply byte_of_range | apply IH].
Qed.
Lemma dc_sym_range : forall d, ent_range d -> 0 <= fst (encode_category d) < 256.
Proof.
  intros d Hd. destruct (Z.eq_dec d 0) as [->|Hn]; [rewrite enc_cat_zero; cbn [fst]; lia|].
  pose proof (cat15 d Hd Hn). lia.
Qed.

Lemma mcu_dc_syms_range : forall t0 tabs preds blocks, mcu_shape tabs preds blocks ->
  Forall (fun s => 0 <= s < 256) (mcu_dc_syms t0 tabs preds blocks).
Proof.
  induction tabs as [|t ts IH]; intros preds blocks H; [constructor|].
  destruct preds as [|p ps]; [constructor|]. destruct blocks as [|b bs]; [constructor|].
  cbn [mcu_shape] in H. destruct H as [(_ & Hd & _ & _) H]. cbn [mcu_dc_syms]. apply Forall_app. split; [|apply IH; exact H].
  destruct (t =? t0); [constructor; [apply dc_sym_range; exact Hd | constructor] | constructor].
Qed.
Lemma mcu_ac_syms_range : forall t0 tabs blocks, Forall (fun s => 0 <= s < 256) (mcu_ac_syms t0 tabs blocks).
Proof.
  induction tabs as [|t ts IH]; intros blocks; [constructor|]. destruct blocks as [|b bs]; [constructor|].
  cbn [mcu_ac_syms]. apply Forall_app. split; [|apply IH]. destruct (t =? t0); [apply ac_syms_range | constructor].
Qed.
Lemma scan_dc_syms_range : forall t0 mcus tabs preds, mcus_shape tabs preds mcus ->
  Forall (fun s => 0 <= s < 256) (scan_dc_syms t0 tabs preds mcus).
Proof.
  induction mcus as [|m ms IH]; intros tabs preds H; [constructor|]. cbn [mcus_shape] in H. destruct H as [Hm Hms].
  cbn [scan_dc_syms]. apply Forall_app. split; [apply mcu_dc_syms_range; exact Hm | apply IH; exact Hms].
Qed.
Lemma scan_ac_syms_range : forall t0 mcus tabs, Forall (fun s => 0 <= s < 256) (scan_ac_syms t0 tabs mcus).
Proof.
  induction mcus as [|m ms IH]; intros tabs; [constructor|]. cbn [scan_ac_syms]. apply Forall_app.
  split; [apply mcu_ac_syms_range | apply IH].
Qed.

Section Cover.
  Variable codes : list (list (Z * Z) * list (Z * Z)).
  Variables dcT acT : list (option htable).

  (* table pair t covers the symbol lists D (DC) and A (AC) *)
  Definition covers (t : Z) (D A : list Z) : Prop :=
    exists dv av, tab_rel codes dcT acT t dv av /\ incl D dv /\ incl A av.

  Lemma covers_mono : forall t D A D' A', covers t D A -> incl D' D -> incl A' A -> covers t D' A'.
  Proof.
    intros t D A D' A' (dv & av & R & HD & HA) H1 H2. exists dv, av. split; [exact R|].
    split; intros x Hx; [apply HD, H1, Hx | apply HA, H2, Hx].
  Qed.

  Lemma mcu_ok_of_cover : forall tabs preds blocks, mcu_shape tabs preds blocks ->
    (forall t, In t tabs -> covers t (mcu_dc_syms t tabs preds blocks) (mcu_ac_syms t tabs blocks)) ->
    mcu_ok codes dcT acT tabs preds blocks.
  Proof.
    induction tabs as [|t ts IH]; intros preds blocks Hs Hc.
    - destruct preds, blocks; cbn in Hs; try contradiction. exact I.
    - destruct preds as [|p ps]; [cbn in Hs; contradiction|].
      destruct blocks as [|b bs]; [cbn in Hs; contradiction|].
      cbn [mcu_shape] in Hs. destruct Hs as [(Hl & Hd & H32 & Hac) Hs]. cbn [mcu_ok]. split.
      + destruct (Hc t (or_introl eq_refl)) as (dv & av & R & HD & HA). exists dv, av. split; [exact R|].
        cbn [mcu_dc_syms mcu_ac_syms] in HD, HA. rewrite Z.eqb_refl in HD, HA.
        unfold block_ok. split; [exact Hl|]. split; [exact Hd|]. split; [exact H32|]. split; [exact Hac|]. split.
        * apply HD. left. reflexivity.
        * intros x Hx. apply HA. apply in_or_app. left. exact Hx.
      + apply IH; [exact Hs|]. intros t' Ht'. apply (covers_mono t' _ _ _ _ (Hc t' (or_intror Ht'))).
        * cbn [mcu_dc_syms]. apply incl_appr, incl_refl.
        * cbn [mcu_ac_syms]. apply incl_appr, incl_refl.
  Qed.

  Lemma mcus_ok_of_cover : forall mcus tabs preds, mcus_shape tabs preds mcus ->
    (forall t, In t tabs -> covers t (scan_dc_syms t tabs preds mcus) (scan_ac_syms t tabs mcus)) ->
    mcus_ok codes dcT acT tabs preds mcus.
  Proof.
    induction mcus as [|m ms IH]; intros tabs preds Hs Hc; [exact I|].
    cbn [mcus_shape] in Hs. destruct Hs as [Hm Hms]. cbn [mcus_ok]. split.
    - apply mcu_ok_of_cover; [exact Hm|]. intros t Ht. apply (covers_mono t _ _ _ _ (Hc t Ht)).
      + cbn [scan_dc_syms]. apply incl_appl, incl_refl.
      + cbn [scan_ac_syms]. apply incl_appl, incl_refl.
    - apply IH; [exact Hms|]. intros t Ht. apply (covers_mono t _ _ _ _ (Hc t Ht)).
      + cbn [scan_dc_syms]. apply incl_appr, incl_refl.
      + cbn [scan_ac_syms]. apply incl_appr, incl_refl.
  Qed.

  (* the encoder's and the decoder's tables of index t are BuildOptimalHuffmanTable of the
     histograms of the scan's own symbols *)
  Definition opt_tables_for (tabs preds : list Z) (mcus : list (list (list Z))) (t : Z) : Prop :=
    exists db dv ab av,
      build_optimal (hist (scan_dc_syms t tabs preds mcus)) = Ok (db, dv) /\
      build_optimal (hist (scan_ac_syms t tabs mcus)) = Ok (ab, av) /\
      znth codes t ([], []) = (build_codes db dv, build_codes ab av) /\
      sel_table dcT t = Ok (Some (ht_of db dv)) /\ sel_table acT t = Ok (Some (ht_of ab av)).

  Theorem opt_mcus_ok : forall tabs preds mcus, mcus_shape tabs preds mcus ->
    (forall t, In t tabs -> opt_tables_for tabs preds mcus t /\
       zlen (scan_dc_syms t tabs preds mcus) < 2 ^ 63 /\ zlen (scan_ac_syms t tabs mcus) < 2 ^ 63) ->
    mcus_ok codes dcT acT tabs preds mcus.
  Proof.
    intros tabs preds mcus Hs Ht. apply mcus_ok_of_cover; [exact Hs|]. intros t Hin.
    destruct (Ht t Hin) as ((db & dv & ab & av & Ed & Ea & Ec & Sd & Sa) & Nd & Na).
    destruct (opt_table_of_syms _ (scan_dc_syms_range t mcus tabs preds Hs) Nd) as (db' & dv' & Ed' & Td & Cd).
    destruct (opt_table_of_syms _ (scan_ac_syms_range t mcus tabs) Na) as (ab' & av' & Ea' & Ta & Ca).
    rewrite Ed in Ed'. rewrite Ea in Ea'. inversion Ed'; subst db' dv'. inversion Ea'; subst ab' av'.
    exists dv, av. split; [|split; [exact Cd | exact Ca]].
    exists db, ab. repeat split; assumption.
  Qed.
End Cover.

(* the scan round trip without the hypothesis mcus_ok: optimised tables from the scan's own
   symbol histograms, blocks in the encodable range *)
Theorem opt_scan_roundtrip : forall codes dcT acT tabs mcus tail,
  mcus_shape tabs (map (fun _ => 0) tabs) mcus ->
  (forall t, In t tabs -> opt_tables_for codes dcT acT tabs (map (fun _ => 0) tabs) mcus t /\
     zlen (scan_dc_syms t tabs (map (fun _ => 0) tabs) mcus) < 2 ^ 63 /\
     zlen (scan_ac_syms t tabs mcus) < 2 ^ 63) ->
  scan_end tail ->
  dec_scan dcT acT (map comp_of tabs) 0 (length mcus) (enc_scan_bytes codes tabs mcus ++ tail)
  = Ok (concat (map (tag 0) mcus)).
Proof.
  intros codes dcT acT tabs mcus tail Hs Ht Hend.
  apply ent_scan_roundtrip; [|exact Hend]. apply opt_mcus_ok; assumption.
Qed.
