(* Scan-level round trip: the scan decoder (decodeScan + decodeBlock, per-component DC
   predictors threaded through the MCUs) applied to the stuffed bytes the scan encoder wrote
   (encodeGrayscale / encodeRGB + Flush), followed by a marker, returns the encoder's blocks. *)
From V Require Import Common.Base JpegLL.JllBits JpegLL.JllHuff JpegLL.JllT81
  JpegLL.JllProofsBits JpegLL.JllProofsHuff JpegDCT.DctZigzag JpegDCT.DctRestart
  JpegEnt.JentModel JpegEnt.JentProofsBlock.

Lemma znth0_hd : forall (b : list Z), znth b 0 0 = hd 0 b.
Proof. intros. unfold znth. cbn. destruct b; reflexivity. Qed.

(* the scan component of an encoder component: H = V = 1, DC and AC selector = table index *)
Definition comp_of (t : Z) : ecomp := mkEC 1 1 t t.

(* blocks of one MCU tagged with their component index *)
Fixpoint tag (ci : Z) (blocks : list (list Z)) : list (Z * list Z) :=
  match blocks with
  | [] => []
  | b :: bs => (ci, b) :: tag (ci + 1) bs
  end.

Section Scan.
  Variable codes : list (list (Z * Z) * list (Z * Z)).
  Variables dcT acT : list (option htable).

  (* table pair t as both sides see it: valid BITS/HUFFVAL lists, the encoder holds their
     BuildHuffmanCodes, the decoder their Build *)
  Definition tab_rel (t : Z) (dv av : list Z) : Prop :=
    exists db ab, t81_table_ok db dv = true /\ t81_table_ok ab av = true /\
      znth codes t ([], []) = (build_codes db dv, build_codes ab av) /\
      sel_table dcT t = Ok (Some (ht_of db dv)) /\ sel_table acT t = Ok (Some (ht_of ab av)).

  Fixpoint mcu_ok (tabs preds : list Z) (blocks : list (list Z)) : Prop :=
    match tabs, preds, blocks with
    | t :: ts, p :: ps, b :: bs =>
      (exists dv av, tab_rel t dv av /\ block_ok dv av p b) /\ mcu_ok ts ps bs
    | [], [], [] => True
    | _, _, _ => False
    end.

  Fixpoint mcus_ok (tabs preds : list Z) (mcus : list (list (list Z))) : Prop :=
    match mcus with
    | [] => True
    | m :: ms => mcu_ok tabs preds m /\ mcus_ok tabs (map (hd 0) m) ms
    end.

  Lemma enc_mcu_preds : forall tabs preds blocks, mcu_ok tabs preds blocks ->
    snd (enc_mcu_words codes tabs preds blocks) = map (hd 0) blocks.
  Proof.
    induction tabs as [|t ts IH]; intros preds blocks H.
    - destruct preds, blocks; cbn in H; try contradiction. reflexivity.
    - destruct preds as [|p ps]; [cbn in H; contradiction|].
      destruct blocks as [|b bs]; [cbn in H; contradiction|].
      cbn [mcu_ok] in H. destruct H as [_ H]. cbn [enc_mcu_words snd map].
      rewrite znth0_hd, (IH ps bs H). reflexivity.
  Qed.

  Lemma mcu_roundtrip : forall tabs preds blocks ci st B, mcu_ok tabs preds blocks ->
    rep st (wbits (fst (enc_mcu_words codes tabs preds blocks)) ++ B) ->
    exists st', dec_mcu dcT acT (map comp_of tabs) ci preds st
                = Ok (tag ci blocks, map (hd 0) blocks, st') /\ rep st' B.
  Proof.
    induction tabs as [|t ts IH]; intros preds blocks ci st B H Hr.
    - destruct preds, blocks; cbn in H; try contradiction.
      exists st. split; [reflexivity | exact Hr].
    - destruct preds as [|p ps]; [cbn in H; contradiction|].
      destruct blocks as [|b bs]; [cbn in H; contradiction|].
      cbn [mcu_ok] in H. destruct H as [(dv & av & (db & ab & Hd & Ha & Ec & Sd & Sa) & Hb) H].
      cbn [enc_mcu_words fst] in Hr. rewrite Ec in Hr. cbn [fst snd] in Hr.
      rewrite wbits_app, <- app_assoc in Hr.
      destruct (ent_block_roundtrip db dv ab av dcT acT t t p b st _ Hd Ha Sd Sa Hb Hr) as (st1 & E1 & Hr1).
      destruct (IH ps bs (ci + 1) st1 B H Hr1) as (st' & E2 & Hr2).
      exists st'. split; [|exact Hr2].
      cbn [map dec_mcu comp_of ec_h ec_v ec_td ec_ta]. change (Z.to_nat (1 * 1)) with 1%nat.
      cbn [dec_comp]. rewrite E1. cbn [obind fst snd]. rewrite E2. cbn [obind fst snd app tag map].
      reflexivity.
  Qed.

  Lemma mcus_roundtrip : forall mcus tabs preds ivs k interval st B,
    mcus_ok tabs preds mcus ->
    rep st (wbits (enc_mcus_words codes tabs preds mcus) ++ B) ->
    exists st', dec_mcus (length mcus) dcT acT (map comp_of tabs) 0 ivs k interval preds st
                = Ok (concat (map (tag 0) mcus)) /\ rep st' B.
  Proof.
    induction mcus as [|m ms IH]; intros tabs preds ivs k interval st B H Hr.
    - exists st. split; [reflexivity | exact Hr].
    - cbn [mcus_ok] in H. destruct H as [Hm Hms].
      cbn [enc_mcus_words] in Hr. rewrite wbits_app, <- app_assoc in Hr.
      destruct (mcu_roundtrip tabs preds m 0 st _ Hm Hr) as (st1 & E1 & Hr1).
      rewrite (enc_mcu_preds tabs preds m Hm) in Hr1.
      destruct (IH tabs (map (hd 0) m) ivs (k + 1) interval st1 B Hms Hr1) as (st' & E2 & Hr2).
      exists st'. split; [|exact Hr2].
      cbn [length dec_mcus]. change (0 <? 0) with false. cbn [andb]. cbv iota.
      rewrite E1. cbn [obind fst snd]. rewrite E2. cbn [obind map concat]. reflexivity.
  Qed.
End Scan.

(* ---------- bytes ---------- *)
Lemma ent_write_all_eq : forall ws st, ent_write_all st ws = write_all st ws.
Proof.
  induction ws as [|[v n] ws IH]; intros st; [reflexivity|].
  cbn [ent_write_all write_all]. destruct (write_bits st v n) as [st' out]. rewrite IH. reflexivity.
Qed.

(* zero-length words (a symbol missing from the table) are excluded by the hypotheses below;
   in general the byte writer skips them *)
Lemma write_all_skip0 : forall ws st,
  write_all st ws = write_all st (filter (fun vn => negb (snd vn =? 0)) ws).
Proof.
  induction ws as [|[v n] ws IH]; intros st; [reflexivity|].
  cbn [filter snd]. destruct (Z.eqb_spec n 0) as [->|Hn]; cbn [negb].
  - cbn [write_all]. unfold write_bits. cbn. apply IH.
  - cbn [write_all]. destruct (write_bits st v n) as [st' out]. rewrite IH. reflexivity.
Qed.

Lemma wbits_skip0 : forall ws, wbits ws = wbits (filter (fun vn => negb (snd vn =? 0)) ws).
Proof.
  induction ws as [|[v n] ws IH]; [reflexivity|].
  cbn [filter snd]. destruct (Z.eqb_spec n 0) as [->|Hn]; cbn [negb].
  - rewrite wbits_cons, IH. reflexivity.
  - rewrite !wbits_cons, IH. reflexivity.
Qed.

(* decodeScan's byte loop over stuffed data followed by a non-RST marker (or the end) *)
Lemma split_stuff : forall bs ron tail cur acc,
  split_go ron (stuff bs ++ tail) cur acc = split_go ron tail (rev (stuff bs) ++ cur) acc.
Proof.
  induction bs as [|b bs IH]; intros ron tail cur acc; [reflexivity|].
  unfold stuff in *. cbn [flat_map].
  assert (Ew : write_byte b = if b =? 255 then [255; 0] else [b]) by reflexivity. rewrite Ew.
  destruct (Z.eqb_spec b 255) as [->|Nb].
  - cbn [app split_go]. change (255 =? 255) with true. change (0 =? 0) with true. cbv iota.
    rewrite IH. cbn [rev app]. rewrite <- !app_assoc. cbn [app]. reflexivity.
  - cbn [app split_go]. destruct (Z.eqb_spec b 255); [contradiction|].
    rewrite IH. cbn [rev app]. rewrite <- !app_assoc. cbn [app]. reflexivity.
Qed.

(* what may follow the entropy-coded segment: nothing, or a marker that is not RSTn *)
Definition scan_end (tail : list Z) : Prop :=
  tail = [] \/ exists m t, tail = 255 :: m :: t /\ m <> 0 /\ is_rst m = false.

Lemma split_rst0_stuff : forall bs tail, scan_end tail ->
  split_rst 0 (stuff bs ++ tail) = [stuff bs].
Proof.
  intros bs tail He. unfold split_rst. rewrite split_stuff, app_nil_r.
  destruct He as [->|(m & t & -> & Hm & Hr)].
  - cbn [split_go rev app]. rewrite rev_involutive. reflexivity.
  - cbn [split_go]. change (255 =? 255) with true. cbv iota.
    destruct (Z.eqb_spec m 0); [contradiction|]. rewrite Hr.
    cbn [rev app]. rewrite rev_involutive. reflexivity.
Qed.

Lemma words_len_ok : forall ws : list (Z * Z), Forall (fun vn => 0 <= snd vn <= 16) ws ->
  Forall (fun vn => 0 < snd vn <= 24) (filter (fun vn => negb (snd vn =? 0)) ws).
Proof.
  induction ws as [|[v n] ws IH]; intros H; [constructor|].
  inversion H as [|? ? Hn H']; subst. cbn [filter snd] in *.
  destruct (Z.eqb_spec n 0); cbn [negb]; [apply IH; assumption|].
  constructor; [cbn; lia | apply IH; assumption].
Qed.

(* every WriteBits call of a scan that satisfies mcus_ok writes at most 16 bits *)
Section Lens.
  Variable codes : list (list (Z * Z) * list (Z * Z)).
  Variables dcT acT : list (option htable).

  Lemma code_len16 : forall bits vals s, t81_table_ok bits vals = true -> In s vals ->
    0 <= snd (code_at (build_codes bits vals) s) <= 16.
  Proof.
    intros bits vals s Hok Hin.
    pose proof (code_of_len bits vals s (table_ok_facts _ _ Hok) Hin) as [_ H].
    unfold code_of in H. unfold code_at. lia.
  Qed.

  Lemma ac_words_len : forall ab av l run, t81_table_ok ab av = true ->
    Forall ent_range l -> incl (ac_syms l run) av ->
    Forall (fun vn => 0 <= snd vn <= 16) (enc_ac_words (build_codes ab av) l run).
  Proof.
    intros ab av. induction l as [|v l IH]; intros run Hok Hrg Hsy; cbn [enc_ac_words ac_syms] in *.
    - destruct (0 <? run); [|constructor]. constructor; [|constructor].
      apply code_len16; [exact Hok | apply Hsy; left; reflexivity].
    - inversion Hrg as [|? ? Hv Hrg']; subst.
      destruct (Z.eqb_spec v 0) as [Ev|Nv]; [apply IH; assumption|].
      apply Forall_app. split.
      + apply Forall_forall. intros x Hx.
        destruct (Z.to_nat (Z.shiftr run 4)) eqn:En; [cbn in Hx; contradiction|].
        apply repeat_spec in Hx. subst x.
        apply code_len16; [exact Hok | apply Hsy; apply in_or_app; left; left; reflexivity].
      + constructor; [apply code_len16; [exact Hok | apply Hsy; apply in_or_app; right; left; reflexivity]|].
        constructor; [cbn [snd]; pose proof (cat15 v Hv Nv); lia|].
        apply IH; try assumption. intros s Hs. apply Hsy. apply in_or_app. right. right. exact Hs.
  Qed.

  Lemma block_words_len : forall db dv ab av pred zz,
    t81_table_ok db dv = true -> t81_table_ok ab av = true -> block_ok dv av pred zz ->
    Forall (fun vn => 0 <= snd vn <= 16) (enc_block_words (build_codes db dv) (build_codes ab av) pred zz).
  Proof.
    intros db dv ab av pred zz Hd Ha (Hlen & Hdr & _ & Hacr & Hdin & Hain).
    destruct zz as [|c0 acs]; [constructor|]. cbn [hd tl enc_block_words] in *.
    apply Forall_app. split; [|apply ac_words_len; assumption].
    unfold enc_dc_words. constructor; [apply code_len16; assumption|].
    destruct (Z.ltb_spec 0 (fst (encode_category (c0 - pred)))); [|constructor].
    constructor; [|constructor]. cbn [snd].
    destruct (Z.eq_dec (c0 - pred) 0) as [E|N]; [rewrite E in *; cbn in *; lia|].
    pose proof (cat15 _ Hdr N). lia.
  Qed.

  Lemma mcu_words_len : forall tabs preds blocks, mcu_ok codes dcT acT tabs preds blocks ->
    Forall (fun vn => 0 <= snd vn <= 16) (fst (enc_mcu_words codes tabs preds blocks)).
  Proof.
    induction tabs as [|t ts IH]; intros preds blocks H.
    - destruct preds, blocks; cbn in H; try contradiction. constructor.
    - destruct preds as [|p ps]; [cbn in H; contradiction|].
      destruct blocks as [|b bs]; [cbn in H; contradiction|].
      cbn [mcu_ok] in H. destruct H as [(dv & av & (db & ab & Hd & Ha & Ec & _) & Hb) H].
      cbn [enc_mcu_words fst]. rewrite Ec. cbn [fst snd].
      apply Forall_app. split; [eapply block_words_len; eassumption | apply IH; exact H].
  Qed.

  Lemma mcus_words_len : forall mcus tabs preds, mcus_ok codes dcT acT tabs preds mcus ->
    Forall (fun vn => 0 <= snd vn <= 16) (enc_mcus_words codes tabs preds mcus).
  Proof.
    induction mcus as [|m ms IH]; intros tabs preds H; [constructor|].
    cbn [mcus_ok] in H. destruct H as [Hm Hms]. cbn [enc_mcus_words].
    apply Forall_app. split; [apply mcu_words_len; exact Hm|].
    rewrite (enc_mcu_preds codes dcT acT tabs preds m Hm). apply IH. exact Hms.
  Qed.
End Lens.

(* The scan: the decoder applied to the bytes the encoder wrote (Flush included), followed by
   EOI or any other non-RST marker or nothing, with no restart interval defined, returns
   exactly the encoder's blocks (zig-zag order) tagged with their component index. *)
Theorem ent_scan_roundtrip : forall codes dcT acT tabs mcus tail,
  mcus_ok codes dcT acT tabs (map (fun _ => 0) tabs) mcus -> scan_end tail ->
  dec_scan dcT acT (map comp_of tabs) 0 (length mcus) (enc_scan_bytes codes tabs mcus ++ tail)
  = Ok (concat (map (tag 0) mcus)).
Proof.
  intros codes dcT acT tabs mcus tail Hok Hend.
  unfold enc_scan_bytes, enc_scan_words.
  set (ws := enc_mcus_words codes tabs (map (fun _ => 0) tabs) mcus).
  pose proof (mcus_words_len codes dcT acT mcus tabs _ Hok) as Hlen. fold ws in Hlen.
  rewrite ent_write_all_eq, write_all_skip0.
  rewrite (write_all_emit _ w_init [] winv_init (words_len_ok ws Hlen)).
  destruct (emit_stuff (map write_word (filter (fun vn => negb (snd vn =? 0)) ws)) [])
    as (bs & pad & E1 & E2 & E3); [cbn; lia|].
  rewrite E1. unfold dec_scan. rewrite (split_rst0_stuff bs tail Hend).
  change (znth [stuff bs] 0 []) with (stuff bs).
  assert (Hrep : rep (r_init (stuff bs)) (wbits ws ++ pad)).
  { rewrite (wbits_skip0 ws). cbn [app] in E3. unfold wbits. rewrite <- E3.
    rewrite <- (app_nil_r (stuff bs)). apply rep_init. exact E2. }
  assert (Epreds : map (fun _ : ecomp => 0) (map comp_of tabs) = map (fun _ : Z => 0) tabs)
    by (rewrite map_map; reflexivity).
  rewrite Epreds.
  destruct (mcus_roundtrip codes dcT acT mcus tabs _ [stuff bs] 0 0 _ pad Hok Hrep) as (st' & E & _).
  exact E.
Qed.

(* the entropy-coded segment is a stuffed byte string: every FF is followed by 00, so no marker
   can appear inside it and any T.81 decoder finds the end of the scan where this one does;
   it carries exactly the code words of the scan followed by fewer than 8 padding bits *)
Theorem ent_scan_stuffed : forall codes dcT acT tabs mcus,
  mcus_ok codes dcT acT tabs (map (fun _ => 0) tabs) mcus ->
  exists bs pad, enc_scan_bytes codes tabs mcus = stuff bs /\ bytes_ok bs /\
                 bits8 bs = wbits (enc_scan_words codes tabs mcus) ++ pad /\ (length pad < 8)%nat.
Proof.
  intros codes dcT acT tabs mcus Hok.
  unfold enc_scan_bytes, enc_scan_words.
  set (ws := enc_mcus_words codes tabs (map (fun _ => 0) tabs) mcus).
  pose proof (mcus_words_len codes dcT acT mcus tabs _ Hok) as Hlen. fold ws in Hlen.
  rewrite ent_write_all_eq, write_all_skip0.
  rewrite (write_all_emit _ w_init [] winv_init (words_len_ok ws Hlen)).
  destruct (emit_stuff_pad (map write_word (filter (fun vn => negb (snd vn =? 0)) ws)) [])
    as (bs & pad & E1 & E2 & E3 & E4); [cbn; lia|].
  exists bs, pad. split; [exact E1|]. split; [exact E2|]. split; [|exact E4].
  rewrite (wbits_skip0 ws). cbn [app] in E3. exact E3.
Qed.
