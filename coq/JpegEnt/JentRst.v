(* EXTRACT *)
(* SPEC encoder for scans with restart intervals, written from T.81 (E.1.4, F.1.2.3, B.2.1
   RSTm), not from /repo (the library's encoder never emits DRI / RSTn): the MCUs are cut into
   restart intervals of Ri MCUs (the last one may be shorter); every interval is entropy-coded
   on its own -- DC predictors start at 0, the last byte is padded with 1-bits -- and
   consecutive intervals are separated by the marker RSTm = FF D0+m, m = 0,1,..,7,0,.. .
   Each interval is coded exactly like a whole scan of JentModel.enc_scan_bytes. *)
From V Require Import Common.Base JpegLL.JllBits JpegLL.JllHuff JpegDCT.DctZigzag JpegEnt.JentModel.

(* cut l into pieces of n elements (n >= 1); fuel = length l *)
Fixpoint chunk_go {A} (fuel n : nat) (l : list A) : list (list A) :=
  match fuel with
  | O => []
  | S f =>
    match l with
    | [] => []
    | _ => firstn n l :: chunk_go f n (skipn n l)
    end
  end.
Definition chunks {A} (n : nat) (l : list A) : list (list A) := chunk_go (length l) n l.

(* interval_0 RST0 interval_1 RST1 ... interval_last *)
Fixpoint join_rst (m : Z) (segs : list (list Z)) : list Z :=
  match segs with
  | [] => []
  | [s] => s
  | s :: rest => s ++ 255 :: (208 + Z.land m 7) :: join_rst (m + 1) rest
  end.

Definition enc_scan_rst (codes : list (list (Z * Z) * list (Z * Z))) (tabs : list Z) (ri : Z)
    (mcus : list (list (list Z))) : list Z :=
  join_rst 0 (map (enc_scan_bytes codes tabs) (chunks (Z.to_nat ri) mcus)).

(* from natural-order blocks, as JentModel.enc_grey_scan / enc_rgb_scan *)
Definition enc_grey_scan_rst (tables : list (list Z * list Z * list Z * list Z)) (ri : Z)
    (blocks : list (list Z)) : list Z :=
  enc_scan_rst (codes_of_tables tables) [0] ri (map (fun b => [to_zigzag b]) blocks).
Definition enc_rgb_scan_rst (tables : list (list Z * list Z * list Z * list Z)) (ri : Z)
    (by_ bcb bcr : list (list Z)) : list Z :=
  enc_scan_rst (codes_of_tables tables) [0; 1; 1] ri (zip3 by_ bcb bcr).
