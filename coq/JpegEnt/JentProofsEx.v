(* Concrete instances of the hypotheses of the JpegEnt theorems (used by the Examples of
   Props/C11_ent.v, C08_ent.v): the K.3-K.6 standard tables, a typical block, a block with a
   zero run >= 16 (ZRL) and no EOB, a grey chain and an interleaved three-component MCU. *)
From V Require Import Common.Base Gen.JpegTables_gen JpegLL.JllBits JpegLL.JllHuff JpegLL.JllT81
  JpegLL.JllProofsBits JpegLL.JllProofsHuff JpegDCT.DctZigzag JpegDCT.DctRestart
  JpegEnt.JentModel JpegEnt.JentProofsBlock JpegEnt.JentProofsScan JpegEnt.JentProofsNat
  JpegEnt.JentProofsTotal.

Definition ex_dbL := jpeg_huff_standard_dc_luminance_bits.
Definition ex_dvL := jpeg_huff_standard_dc_luminance_vals.
Definition ex_abL := jpeg_huff_standard_ac_luminance_bits.
Definition ex_avL := jpeg_huff_standard_ac_luminance_vals.
Definition ex_dbC := jpeg_huff_standard_dc_chrominance_bits.
Definition ex_dvC := jpeg_huff_standard_dc_chrominance_vals.
Definition ex_abC := jpeg_huff_standard_ac_chrominance_bits.
Definition ex_avC := jpeg_huff_standard_ac_chrominance_vals.

(* zig-zag order *)
Definition ex_zz1 : list Z :=
  [-26; -3; 0; -3; -2; -6; 2; -4; 1; -3; 1; 1; 5; 1; 2; -1; 1; -1; 2; 0; 0; 0; 0; 0; -1; -1] ++ repeat 0 38.
(* zero run of 40 (two ZRL + run 8), then a run of 21 (one ZRL + run 5), last coefficient
   non-zero: no EOB *)
Definition ex_zz2 : list Z := [5] ++ repeat 0 40 ++ [7] ++ repeat 0 21 ++ [-1].
(* natural order *)
Definition ex_nat1 : list Z := from_zigzag ex_zz1.
Definition ex_nat2 : list Z := from_zigzag ex_zz2.

Definition ex_codes := codes_of_tables [(ex_dbL, ex_dvL, ex_abL, ex_avL); (ex_dbC, ex_dvC, ex_abC, ex_avC)].
Definition ex_dcT : list (option htable) := [Some (ht_of ex_dbL ex_dvL); Some (ht_of ex_dbC ex_dvC); None; None].
Definition ex_acT : list (option htable) := [Some (ht_of ex_abL ex_avL); Some (ht_of ex_abC ex_avC); None; None].

Lemma ex_tables_ok : t81_table_ok ex_dbL ex_dvL = true /\ t81_table_ok ex_abL ex_avL = true /\
                     t81_table_ok ex_dbC ex_dvC = true /\ t81_table_ok ex_abC ex_avC = true.
Proof. repeat split; vm_compute; reflexivity. Qed.

Lemma ex_block_ok : block_ok ex_dvL ex_avL 3 ex_zz1 /\ block_ok ex_dvL ex_avL (-26) ex_zz2.
Proof. split; apply block_okb_ok; vm_compute; reflexivity. Qed.

Lemma ex_sel : sel_table ex_dcT 0 = Ok (Some (ht_of ex_dbL ex_dvL)) /\
               sel_table ex_acT 0 = Ok (Some (ht_of ex_abL ex_avL)).
Proof. split; reflexivity. Qed.

Lemma ex_tab_rel0 : tab_rel ex_codes ex_dcT ex_acT 0 ex_dvL ex_avL.
Proof. exists ex_dbL, ex_abL. destruct ex_tables_ok as (H1 & H2 & H3 & H4). repeat split; try assumption. Qed.
Lemma ex_tab_rel1 : tab_rel ex_codes ex_dcT ex_acT 1 ex_dvC ex_avC.
Proof. exists ex_dbC, ex_abC. destruct ex_tables_ok as (H1 & H2 & H3 & H4). repeat split; try assumption. Qed.

(* two MCUs of an interleaved Y,Cb,Cr scan (tables 0,1,1) *)
Definition ex_mcus : list (list (list Z)) := [[ex_zz1; ex_zz2; ex_zz1]; [ex_zz2; ex_zz2; ex_zz2]].

Lemma ex_mcus_ok : mcus_ok ex_codes ex_dcT ex_acT [0; 1; 1] (map (fun _ => 0) [0; 1; 1]) ex_mcus.
Proof.
  unfold ex_mcus. cbn [mcus_ok mcu_ok map hd].
  repeat match goal with
  | |- _ /\ _ => split
  | |- True => exact I
  | |- exists dv av, tab_rel _ _ _ 0 dv av /\ _ =>
      exists ex_dvL, ex_avL; split; [exact ex_tab_rel0 | apply block_okb_ok; vm_compute; reflexivity]
  | |- exists dv av, tab_rel _ _ _ 1 dv av /\ _ =>
      exists ex_dvC, ex_avC; split; [exact ex_tab_rel1 | apply block_okb_ok; vm_compute; reflexivity]
  end.
Qed.

Lemma ex_scan_end : scan_end [255; 217].
Proof. right. exists 217, []. repeat split; [lia]. Qed.

(* the grey chain: DC prediction 0 -> -26 -> 5 *)
Lemma ex_chain_ok : chain_ok ex_dvL ex_avL 0 (map to_zigzag [ex_nat1; ex_nat2; ex_nat1]).
Proof. apply chain_okb_ok. vm_compute. reflexivity. Qed.
Lemma ex_nat_len : Forall (fun b => length b = 64%nat) [ex_nat1; ex_nat2; ex_nat1].
Proof. repeat constructor. Qed.

(* the theorems instantiated and evaluated *)
Lemma ex_scan_eval :
  dec_scan ex_dcT ex_acT (map comp_of [0; 1; 1]) 0 2 (enc_scan_bytes ex_codes [0; 1; 1] ex_mcus ++ [255; 217])
  = Ok (concat (map (tag 0) ex_mcus)).
Proof. vm_compute. reflexivity. Qed.

(* hostile inputs: a DHT whose counts overflow the code space is rejected; a table that decodes
   every code to symbol 0xFF (run 15, size 15) makes `k += r` leave the block: Err, not Panic *)
Definition ex_bad_dht : list Z := 0 :: 255 :: repeat 0 15 ++ repeat 7 255.
Definition ex_ff_dc : list Z := 0 :: [2] ++ repeat 0 15 ++ [0; 1].
Definition ex_ff_ac : list Z := 16 :: [2] ++ repeat 0 15 ++ [255; 255].
Lemma ex_hostile :
  ent_decode [ex_bad_dht] [mkEC 1 1 0 0] 0 1 [0; 0] = Err /\
  ent_decode [ex_ff_dc; ex_ff_ac] [mkEC 1 1 0 0] 0 1 (repeat 85 40) = Err /\
  ent_decode [ex_ff_dc] [mkEC 1 1 0 0] 0 1 (repeat 85 40) = Err /\
  ent_decode [ex_ff_dc; ex_ff_ac] [mkEC 4 4 0 0] 7 3 [0; 255; 208; 0; 255; 0; 255; 209; 255; 217] = Err.
Proof. repeat split; vm_compute; reflexivity. Qed.

Lemma ex_bytes_ok : Forall bytes_ok [ex_ff_dc; ex_ff_ac] /\ sels_ok [mkEC 4 4 0 0].
Proof.
  split.
  - repeat constructor; unfold ex_ff_dc, ex_ff_ac; cbn; repeat constructor; lia.
  - repeat constructor; cbn; lia.
Qed.

Lemma nonneg_b : forall l, forallb (fun v => 0 <=? v) l = true -> Forall (fun v => 0 <= v) l.
Proof. intros l H. apply Forall_forall. intros v Hv. apply (proj1 (forallb_forall _ _) H) in Hv. lia. Qed.
Lemma ex_acT_nonneg : tabs_nonneg ex_acT.
Proof.
  unfold ex_acT, tabs_nonneg.
  apply Forall_cons; [unfold tab_nonneg; apply nonneg_b; vm_compute; reflexivity|].
  apply Forall_cons; [unfold tab_nonneg; apply nonneg_b; vm_compute; reflexivity|].
  apply Forall_cons; [exact I|]. apply Forall_cons; [exact I|]. apply Forall_nil.
Qed.
