(* Totality of the entropy decoder (C08 / C09 content): for ANY Huffman tables whose values are
   bytes (even tables that are not prefix codes, incomplete, or empty) and ANY byte string, the
   block decoder, the scan decoder and the DHT parser return Ok or Err: never Panic, and the
   fuel (64 loop iterations per block; payload length for parseDHT) is never exhausted. *)
From V Require Import Common.Base JpegLL.JllBits JpegLL.JllHuff JpegLL.JllProofsBits JpegLL.JllProofsHuff
  JpegDCT.DctZigzag JpegDCT.DctRestart JpegEnt.JentModel.

Definition safe {A} (o : outcome A) : Prop :=
  match o with Ok _ => True | Err => True | Panic => False | OutOfFuel => False end.

Lemma safe_obind : forall {A B} (o : outcome A) (f : A -> outcome B),
  safe o -> (forall a, o = Ok a -> safe (f a)) -> safe (obind o f).
Proof. intros A B o f H1 H2. destruct o; cbn in *; try exact I; try contradiction. apply H2. reflexivity. Qed.

(* the symbol values of a table are non-negative (they are bytes in every table parseDHT builds) *)
Definition tab_nonneg (t : htable) : Prop := Forall (fun v => 0 <= v) (ht_vals t).
Definition tabs_nonneg (T : list (option htable)) : Prop :=
  Forall (fun o => match o with Some t => tab_nonneg t | None => True end) T.

Lemma decode_loop_in : forall mmv vals code st s st',
  decode_loop mmv vals code st = Some (s, st') -> In s vals.
Proof.
  induction mmv as [|[[mn mx] vp] mmv IH]; intros vals code st s st' H; [discriminate|].
  cbn [decode_loop] in H. destruct (read_bit st) as [[bit st1]|]; [|discriminate].
  set (code' := 2 * code + (if bit then 1 else 0)) in *.
  destruct ((code' <=? mx) && (0 <=? mx)).
  - destruct (Z.leb_spec 0 (vp + code' - mn)) as [H0|H0]; cbn [andb] in H.
    + destruct (Z.ltb_spec (vp + code' - mn) (zlen vals)) as [H1|H1].
      * injection H as E _. subst s. unfold znth.
        destruct (Z.ltb_spec (vp + code' - mn) 0); [lia|]. apply nth_In. unfold zlen in H1. lia.
      * eapply IH; exact H.
    + eapply IH; exact H.
  - eapply IH; exact H.
Qed.

Lemma huff_decode_nonneg : forall t st s st', tab_nonneg t ->
  huff_decode t st = Some (s, st') -> 0 <= s.
Proof.
  intros t st s st' Ht H. apply decode_loop_in in H.
  apply (proj1 (Forall_forall _ _) Ht). exact H.
Qed.

(* the AC loop: at most 64 - k iterations *)
Lemma dec_ac_safe : forall fuel act k zz st, tab_nonneg act ->
  (Z.to_nat (64 - k) < fuel)%nat -> safe (dec_ac fuel act k zz st).
Proof.
  induction fuel as [|f IH]; intros act k zz st Ht Hf; [lia|].
  cbn [dec_ac]. destruct (Z.leb_spec 64 k); [exact I|].
  destruct (huff_decode act st) as [[rs st1]|] eqn:E; [|exact I].
  pose proof (huff_decode_nonneg _ _ _ _ Ht E) as Hrs.
  destruct (Z.land rs 15 =? 0).
  - destruct (Z.shiftr rs 4 =? 15); [|exact I]. apply IH; [exact Ht | lia].
  - assert (0 <= Z.shiftr rs 4) by (apply Z.shiftr_nonneg; exact Hrs).
    destruct (Z.leb_spec 64 (k + Z.shiftr rs 4)); [exact I|].
    destruct (receive_extend st1 (Z.land rs 15)) as [[v st2]|]; [|exact I].
    apply IH; [exact Ht | lia].
Qed.

Lemma sel_table_safe : forall T sel, 0 <= sel < zlen T -> exists o, sel_table T sel = Ok o /\ In o T.
Proof.
  intros T sel H. unfold sel_table.
  destruct (Z.leb_spec 0 sel); [|lia]. destruct (Z.ltb_spec sel (zlen T)); [|lia]. cbn [andb].
  eexists. split; [reflexivity|]. unfold znth. destruct (Z.ltb_spec sel 0); [lia|].
  apply nth_In. unfold zlen in H. lia.
Qed.

Lemma tabs_nonneg_in : forall T t, tabs_nonneg T -> In (Some t) T -> tab_nonneg t.
Proof. intros T t H Hin. apply (proj1 (Forall_forall _ _) H) in Hin. exact Hin. Qed.

(* decodeBlock *)
Theorem dec_block_safe : forall dcT acT td ta pred st,
  tabs_nonneg acT -> 0 <= td < zlen dcT -> 0 <= ta < zlen acT ->
  safe (dec_block dcT acT td ta pred st).
Proof.
  intros dcT acT td ta pred st Ha Htd Hta. unfold dec_block.
  destruct (sel_table_safe dcT td Htd) as (od & Ed & _). rewrite Ed. cbn [obind].
  destruct od as [dt|]; [|exact I].
  destruct (huff_decode dt st) as [[s st1]|]; [|exact I].
  destruct (receive_extend st1 s) as [[diff st2]|]; [|exact I].
  destruct (sel_table_safe acT ta Hta) as (oa & Ea & Hin). rewrite Ea. cbn [obind].
  destruct oa as [at_|]; [|exact I].
  apply safe_obind; [|intros; exact I].
  apply dec_ac_safe; [eapply tabs_nonneg_in; eassumption | cbn; lia].
Qed.

Lemma dec_comp_safe : forall n dcT acT td ta ci pred st,
  tabs_nonneg acT -> 0 <= td < zlen dcT -> 0 <= ta < zlen acT ->
  safe (dec_comp n dcT acT td ta ci pred st).
Proof.
  induction n as [|n IH]; intros; cbn [dec_comp]; [exact I|].
  apply safe_obind; [apply dec_block_safe; assumption|]. intros r1 _.
  apply safe_obind; [apply IH; assumption|]. intros; exact I.
Qed.

(* selectors as parseSOS leaves them: td, ta <= 3 *)
Definition comps_ok (dcT acT : list (option htable)) (comps : list ecomp) : Prop :=
  Forall (fun c => 0 <= ec_td c < zlen dcT /\ 0 <= ec_ta c < zlen acT) comps.

Lemma dec_mcu_safe : forall comps dcT acT ci preds st,
  tabs_nonneg acT -> comps_ok dcT acT comps -> safe (dec_mcu dcT acT comps ci preds st).
Proof.
  induction comps as [|c cs IH]; intros dcT acT ci preds st Ha Hc; cbn [dec_mcu]; [exact I|].
  destruct preds as [|p ps]; [exact I|].
  inversion Hc as [|? ? [H1 H2] Hc']; subst.
  apply safe_obind; [apply dec_comp_safe; assumption|]. intros r1 _.
  apply safe_obind; [apply IH; assumption|]. intros; exact I.
Qed.

Lemma dec_mcus_safe : forall n dcT acT comps ri intervals k interval preds st,
  tabs_nonneg acT -> comps_ok dcT acT comps ->
  safe (dec_mcus n dcT acT comps ri intervals k interval preds st).
Proof.
  induction n as [|n IH]; intros; cbn [dec_mcus]; [exact I|].
  match goal with |- safe (if ?c then _ else _) => destruct c end; [exact I|].
  apply safe_obind; [apply dec_mcu_safe; assumption|]. intros r1 _.
  apply safe_obind; [apply IH; assumption|]. intros; exact I.
Qed.

(* decodeScan: any tables, any bytes, any restart interval, any declared number of MCUs *)
Theorem dec_scan_safe : forall dcT acT comps ri nmcu rest,
  tabs_nonneg acT -> comps_ok dcT acT comps -> safe (dec_scan dcT acT comps ri nmcu rest).
Proof. intros. unfold dec_scan. apply dec_mcus_safe; assumption. Qed.

(* ---------- parseDHT ---------- *)
Definition tabs4 (T : list (option htable)) : Prop := length T = 4%nat.

Lemma tabs_nonneg_zupd : forall T i t, tabs_nonneg T -> tab_nonneg t -> tabs_nonneg (zupd T i (Some t)).
Proof.
  intros T i t HT Ht. unfold zupd. destruct (i <? 0); [exact HT|].
  generalize (Z.to_nat i). induction HT as [|o T Ho HT IH]; intros n; [destruct n; constructor|].
  destruct n; cbn [upd]; constructor; try assumption. apply IH.
Qed.

Lemma build_table_vals : forall bits vals t, build_table bits vals = Ok t -> ht_vals t = vals.
Proof.
  intros bits vals t H. unfold build_table in H.
  destruct (negb (table_valid bits vals)); [discriminate|].
  destruct (lookup_ok bits 0 0 0 (zlen vals)); [|discriminate].
  injection H as <-. reflexivity.
Qed.

Lemma build_table_safe : forall bits vals, safe (build_table bits vals).
Proof.
  intros. pose proof (build_table_never_panics bits vals) as H. unfold build_table in *.
  destruct (negb (table_valid bits vals)); [exact I|].
  destruct (lookup_ok bits 0 0 0 (zlen vals)); [exact I | congruence].
Qed.

Definition dht_post (r : outcome (list (option htable) * list (option htable))) : Prop :=
  match r with
  | Ok (d, a) => tabs_nonneg d /\ tabs_nonneg a /\ tabs4 d /\ tabs4 a
  | Err => True
  | _ => False
  end.

Lemma bl_parse_dht_safe : forall fuel data dcT acT,
  bytes_ok data -> (length data <= fuel)%nat ->
  tabs_nonneg dcT -> tabs_nonneg acT -> tabs4 dcT -> tabs4 acT ->
  dht_post (bl_parse_dht fuel data dcT acT).
Proof.
  induction fuel as [|f IH]; intros data dcT acT Hb Hf Hd Ha H4d H4a.
  - destruct data; [cbn; auto | cbn [length] in Hf; lia].
  - destruct data as [|tcth rest]; [cbn; auto|].
    cbn [bl_parse_dht]. inversion Hb as [|? ? _ Hb']; subst. cbn [length] in Hf.
    destruct (3 <? Z.land tcth 15); [exact I|].
    destruct (length rest <? 16)%nat; [exact I|].
    destruct (zlen (skipn 16 rest) <? zsum (firstn 16 rest)); [exact I|].
    set (total := Z.to_nat (zsum (firstn 16 rest))).
    pose proof (build_table_safe (firstn 16 rest) (firstn total (skipn 16 rest))) as Hs.
    destruct (build_table (firstn 16 rest) (firstn total (skipn 16 rest))) as [t| | |] eqn:Eb;
      cbn in Hs; try contradiction; [|exact I].
    cbn [obind].
    assert (Ht : tab_nonneg t).
    { unfold tab_nonneg. rewrite (build_table_vals _ _ _ Eb).
      eapply Forall_impl; [|apply bytes_ok_firstn, bytes_ok_skipn; exact Hb']. cbn. intros; lia. }
    assert (Hr : bytes_ok (skipn total (skipn 16 rest))) by (apply bytes_ok_skipn, bytes_ok_skipn; exact Hb').
    assert (Hl : (length (skipn total (skipn 16 rest)) <= f)%nat) by (rewrite !skipn_length; lia).
    destruct (Z.shiftr tcth 4 =? 0).
    + apply IH; try assumption; [apply tabs_nonneg_zupd; assumption | unfold tabs4; rewrite zupd_length; exact H4d].
    + apply IH; try assumption; [apply tabs_nonneg_zupd; assumption | unfold tabs4; rewrite zupd_length; exact H4a].
Qed.

Lemma bl_parse_dhts_safe : forall payloads dcT acT,
  Forall bytes_ok payloads ->
  tabs_nonneg dcT -> tabs_nonneg acT -> tabs4 dcT -> tabs4 acT ->
  dht_post (bl_parse_dhts payloads dcT acT).
Proof.
  induction payloads as [|p ps IH]; intros dcT acT Hb Hd Ha H4d H4a; [cbn; auto|].
  inversion Hb as [|? ? Hp Hps]; subst. cbn [bl_parse_dhts].
  pose proof (bl_parse_dht_safe (length p) p dcT acT Hp (le_n _) Hd Ha H4d H4a) as H.
  destruct (bl_parse_dht (length p) p dcT acT) as [[d a]| | |]; cbn in H; try contradiction; [|exact I].
  cbn [obind fst snd]. destruct H as (H1 & H2 & H3 & H4). apply IH; assumption.
Qed.

Lemma no_tables_ok : tabs_nonneg no_tables /\ tabs4 no_tables.
Proof. split; [repeat constructor | reflexivity]. Qed.

(* selectors as parseSOS accepts them *)
Definition sels_ok (comps : list ecomp) : Prop :=
  Forall (fun c => 0 <= ec_td c <= 3 /\ 0 <= ec_ta c <= 3) comps.

(* The entropy part of baseline.Decode: any DHT payloads (byte strings), any scan bytes, any
   restart interval, any declared number of MCUs, any sampling factors: Ok or Err. *)
Theorem ent_decode_total : forall payloads comps ri nmcu rest,
  Forall bytes_ok payloads -> sels_ok comps ->
  safe (ent_decode payloads comps ri nmcu rest).
Proof.
  intros payloads comps ri nmcu rest Hb Hs. unfold ent_decode.
  destruct no_tables_ok as [N1 N2].
  pose proof (bl_parse_dhts_safe payloads no_tables no_tables Hb N1 N1 N2 N2) as H.
  destruct (bl_parse_dhts payloads no_tables no_tables) as [[d a]| | |]; cbn in H; try contradiction; [|exact I].
  cbn [obind fst snd]. destruct H as (H1 & H2 & H3 & H4).
  apply dec_scan_safe; [exact H2|].
  unfold comps_ok, sels_ok in *. eapply Forall_impl; [|exact Hs].
  cbn. unfold tabs4 in *. unfold zlen. rewrite H3, H4. intros c [? ?]. lia.
Qed.
