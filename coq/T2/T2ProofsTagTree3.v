(* C04 (t2): tagtree_roundtrip for arbitrary histories.
   For ANY leaf grid w x h >= 1 (tt_new normalises other sizes to 1x1) and ANY sequence of
   SetValue(x, y, v) and queries (x, y) coded with Encode(threshold the) / Decode(threshold thd)
   that follows the discipline tq_ok below, the decoder fed with the encoder's bits consumes
   exactly those bits and answers every query with the leaf value whenever that value is set
   and below the encoder's threshold, and with some number >= its own threshold (or the exact
   value, when an earlier query already revealed it) otherwise.
   Discipline (what the packet-header code does):
     - SetValue(x, y, v): v is not below any threshold used so far on this tree (inclusion tree:
       the value `layer` is set at the start of layer `layer`, thresholds so far were <= layer;
       zero-bit-plane tree: every value is set before the first Encode);
     - a query uses the = thd (inclusion: layer + 1 on both sides), or the leaf holds a value
       below both thresholds (zero-bit-planes: Encode(999) against Decode(32), value < 32).
   Thresholds need not be monotone and there is no bound on the values. *)
From V Require Import Common.Base T2.T2Bio T2.T2TagTree T2.T2ProofsBio T2.T2ProofsStore T2.T2ProofsTagTree
  T2.T2ProofsTagTree2.

Inductive tq : Type :=
| QSet (x y v : Z)
| QQry (x y the thd : Z).

Fixpoint tq_enc (te : ttree) (ops : list tq) : outcome (list Z * ttree) :=
  match ops with
  | [] => Ok ([], te)
  | QSet x y v :: r => tq_enc (tt_setvalue te x y v) r
  | QQry x y the _ :: r =>
    obind (tt_encode te x y the) (fun bt =>
    obind (tq_enc (snd bt) r) (fun bt' => Ok (fst bt ++ fst bt', snd bt')))
  end.

Fixpoint tq_dec (td : ttree) (r : rd) (ops : list tq) : outcome (list Z * ttree * rd) :=
  match ops with
  | [] => Ok ([], td, r)
  | QSet _ _ _ :: rest => tq_dec td r rest
  | QQry x y _ thd :: rest =>
    obind (tt_decode td r x y thd) (fun res =>
      let '(v, td', r') := res in
      obind (tq_dec td' r' rest) (fun res' =>
        let '(vs, td'', r'') := res' in Ok (v :: vs, td'', r'')))
  end.

Definition leaf_xy (t : ttree) (x y : Z) : Z * Z := (0, y * tt_w t + x).

Fixpoint tq_ok (te : ttree) (tmax : Z) (ops : list tq) : Prop :=
  match ops with
  | [] => True
  | QSet x y v :: r => tmax <= v /\ tq_ok (tt_setvalue te x y v) tmax r
  | QQry x y the thd :: r =>
    tt_in_range te x y = true /\
    (the = thd \/ (nu te (leaf_xy te x y) = false /\ nv te (leaf_xy te x y) < the /\ nv te (leaf_xy te x y) < thd)) /\
    tq_ok te (Z.max tmax the) r
  end.

Fixpoint tq_answers (te : ttree) (ops : list tq) (ans : list Z) : Prop :=
  match ops with
  | [] => ans = []
  | QSet x y v :: r => tq_answers (tt_setvalue te x y v) r ans
  | QQry x y the thd :: r =>
    match ans with
    | [] => False
    | a :: ar =>
      (nu te (leaf_xy te x y) = false -> nv te (leaf_xy te x y) < the -> a = nv te (leaf_xy te x y)) /\
      ((nu te (leaf_xy te x y) = false /\ a = nv te (leaf_xy te x y)) \/ thd <= a) /\
      tq_answers te r ar
    end
  end.

(* two encoder trees with the same geometry, values and unset flags (low / known may differ) *)
Definition val_eq (t t' : ttree) : Prop :=
  tt_w t' = tt_w t /\ tt_h t' = tt_h t /\ tt_lw t' = tt_lw t /\ tt_nodes t' = tt_nodes t /\ tt_unset t' = tt_unset t.

Lemma val_eq_setvalue : forall t t' x y v, val_eq t t' -> val_eq (tt_setvalue t x y v) (tt_setvalue t' x y v).
Proof.
  intros t t' x y v [A [B [C [D E]]]]. unfold tt_setvalue, tt_in_range, tt_path. rewrite A, B, C, D, E.
  destruct ((0 <=? x) && (x <? tt_w t) && (0 <=? y) && (y <? tt_h t)).
  - unfold val_eq, tt_with. cbn [tt_w tt_h tt_lw tt_nodes tt_unset]. repeat split; assumption || reflexivity.
  - unfold val_eq. repeat split; assumption.
Qed.

Lemma val_eq_leaf : forall t t' x y, val_eq t t' ->
  tt_in_range t' x y = tt_in_range t x y /\ nu t' (leaf_xy t' x y) = nu t (leaf_xy t x y) /\
  nv t' (leaf_xy t' x y) = nv t (leaf_xy t x y).
Proof.
  intros t t' x y [A [B [C [D E]]]]. unfold tt_in_range, leaf_xy, nu, nv. rewrite A, B, D, E. repeat split; reflexivity.
Qed.

Lemma tq_ok_ext : forall ops t t' tmax, val_eq t t' -> tq_ok t tmax ops -> tq_ok t' tmax ops.
Proof.
  induction ops as [|[x y v|x y the thd] ops IH]; intros t t' tmax Hv H; cbn [tq_ok] in *; [exact I| |].
  - destruct H as [H1 H2]. split; [exact H1|]. apply (IH _ _ tmax (val_eq_setvalue t t' x y v Hv) H2).
  - destruct (val_eq_leaf t t' x y Hv) as [A [B C]]. rewrite A, B, C.
    destruct H as [H1 [H2 H3]]. split; [exact H1|]. split; [exact H2|]. apply (IH t t' _ Hv H3).
Qed.

Lemma tq_answers_ext : forall ops t t' ans, val_eq t t' -> tq_answers t' ops ans -> tq_answers t ops ans.
Proof.
  induction ops as [|[x y v|x y the thd] ops IH]; intros t t' ans Hv H; cbn [tq_answers] in *; [exact H| |].
  - apply (IH _ _ ans (val_eq_setvalue t t' x y v Hv) H).
  - destruct ans as [|a ar]; [exact H|]. destruct (val_eq_leaf t t' x y Hv) as [A [B C]]. rewrite B, C in H.
    destruct H as [H1 [H2 H3]]. split; [exact H1|]. split; [exact H2|]. apply (IH t t' ar Hv H3).
Qed.

(* ---------- the encoder alone never fails inside the grid ---------- *)

Lemma setvalue_wf : forall t x y v, wf_tree t -> wf_tree (tt_setvalue t x y v) /\ same_geom t (tt_setvalue t x y v).
Proof.
  intros t x y v Hwf. pose proof (wf_same_shapes t Hwf) as Hse. unfold tt_setvalue.
  destruct (tt_in_range t x y) eqn:Hr; [|split; [exact Hwf | apply same_geom_refl; exact Hse]].
  destruct (setvalue_ids_spec (tt_path t x y) (tt_nodes t) (tt_unset t) v (wf_path_nodup t x y)) as [Hs [Hsu _]].
  { intros id Hin. pose proof (wf_path_valid t x y id Hwf Hr Hin) as Hvid.
    split; [exact Hvid | apply same_shapes_vid_unset; assumption]. }
  assert (Hg : same_geom t (tt_with t (fst (tt_setvalue_ids (tt_nodes t) (tt_unset t) (tt_path t x y) v)) (tt_low t)
                                   (tt_known t) (snd (tt_setvalue_ids (tt_nodes t) (tt_unset t) (tt_path t x y) v)))).
  { unfold same_geom, tt_with, same_shapes. cbn [tt_w tt_h tt_lw tt_nodes tt_low tt_known tt_unset].
    destruct Hse as [S1 [S2 S3]]. repeat split; congruence. }
  split; [apply (wf_tree_geom t _ Hwf Hg) | exact Hg].
Qed.

Lemma enc_nodes_geom : forall ids t low thr bs t', same_shapes t -> (forall id, In id ids -> vid t id) ->
  tt_enc_nodes t ids low thr = (bs, t') -> same_geom t t' /\ val_eq t t'.
Proof.
  induction ids as [|[lv idx] ids IH]; intros t low thr bs t' Hs Hv H; cbn [tt_enc_nodes] in H.
  - assert (t' = t) by congruence. subst.
    split; [apply same_geom_refl; exact Hs | unfold val_eq; repeat split; reflexivity].
  - destruct (tt_enc_loop _ _ _ _ _ _) as [[bs1 l2] k2].
    match type of H with context [tt_enc_nodes ?t2 ids l2 thr] => set (t1 := t2) in * end.
    destruct (tt_enc_nodes t1 ids l2 thr) as [bs2 t3] eqn:E2.
    assert (t' = t3) by congruence. subst t3.
    change t1 with (enc_upd t (lv, idx) l2 k2) in *.
    destruct (enc_upd_facts t (lv, idx) l2 k2 Hs (Hv (lv, idx) ltac:(left; reflexivity)))
      as [Fn [Fu [Fs [Fw [Fh [Flw _]]]]]].
    destruct (IH _ _ _ _ _ Fs ltac:(intros id Hin; apply (vid_shape t); [rewrite Fn; reflexivity | apply Hv; right; exact Hin]) E2)
      as [G V].
    split.
    + apply (same_geom_trans t (enc_upd t (lv, idx) l2 k2)); [|exact G].
      unfold same_geom. split; [exact Fw|]. split; [exact Fh|]. split; [exact Flw|]. split; [rewrite Fn; reflexivity | exact Fs].
    + destruct V as [A [B [C [D E]]]]. unfold val_eq. repeat split; congruence.
Qed.

Lemma encode_wf : forall t x y thr bs t', wf_tree t -> tt_encode t x y thr = Ok (bs, t') ->
  wf_tree t' /\ val_eq t t'.
Proof.
  intros t x y thr bs t' Hwf H. unfold tt_encode in H.
  destruct (tt_in_range t x y) eqn:Hr; cbn [negb] in H; [|discriminate].
  rewrite (forallb_valid t x y Hwf Hr) in H. cbn [negb] in H. apply ok_inj in H.
  destruct (enc_nodes_geom _ _ _ _ _ _ (wf_same_shapes t Hwf)
              ltac:(intros id Hin; apply in_rev in Hin; apply (wf_path_valid t x y id Hwf Hr Hin)) H) as [G V].
  split; [apply (wf_tree_geom t t' Hwf G) | exact V].
Qed.

Lemma tq_enc_ok : forall ops te tmax, wf_tree te -> tq_ok te tmax ops ->
  exists bs te', tq_enc te ops = Ok (bs, te') /\ Forall bit01 bs.
Proof.
  induction ops as [|[x y v|x y the thd] ops IH]; intros te tmax Hwf Hok; cbn [tq_ok] in Hok; cbn [tq_enc].
  - exists [], te. split; [reflexivity | constructor].
  - destruct Hok as [_ Hok]. destruct (setvalue_wf te x y v Hwf) as [Hwf' _]. apply (IH _ tmax Hwf' Hok).
  - destruct Hok as [Hr [_ Hok]].
    destruct (tt_encode_ok te x y the Hwf Hr) as [bs1 [te1 E1]].
    destruct (encode_wf _ _ _ _ _ _ Hwf E1) as [Hwf1 Hve].
    destruct (IH te1 (Z.max tmax the) Hwf1 (tq_ok_ext ops te te1 _ Hve Hok)) as [bs2 [te2 [E2 H2]]].
    exists (bs1 ++ bs2), te2. rewrite E1. cbn [obind fst snd]. rewrite E2. cbn [obind fst snd].
    split; [reflexivity|]. apply Forall_app. split; [eapply tt_encode_01; exact E1 | exact H2].
Qed.

(* ---------- encoder and decoder together ---------- *)

Theorem tagtree_roundtrip_inv : forall ops te td tmax bs te', TTInv te td tmax -> tq_ok te tmax ops ->
  tq_enc te ops = Ok (bs, te') ->
  forall rest r more, BitsAt rest r (bs ++ more) ->
  exists ans td' r', tq_dec td r ops = Ok (ans, td', r') /\ BitsAt rest r' more /\
    tq_answers te ops ans /\ exists tmax', TTInv te' td' tmax'.
Proof.
  induction ops as [|[x y v|x y the thd] ops IH]; intros te td tmax bs te' HT Hok He rest r more HB;
    cbn [tq_ok] in Hok; cbn [tq_enc] in He.
  - apply ok_inj in He. assert (bs = [] /\ te' = te) as [-> ->] by (split; congruence).
    exists [], td, r. cbn [tq_dec tq_answers app] in *.
    split; [reflexivity|]. split; [exact HB|]. split; [reflexivity|]. exists tmax. exact HT.
  - destruct Hok as [Hv Hok]. destruct (tt_setvalue_inv te td tmax x y v HT Hv) as [HT' _].
    cbn [tq_dec tq_answers]. apply (IH _ td tmax bs te' HT' Hok He rest r more HB).
  - destruct Hok as [Hr [Hc Hok]].
    destruct (tt_encode te x y the) as [[bs1 te1]| | |] eqn:E1; cbn [obind] in He; try discriminate.
    cbn [fst snd] in He.
    destruct (tq_enc te1 ops) as [[bs2 te2]| | |] eqn:E2; cbn [obind] in He; try discriminate.
    apply ok_inj in He. cbn [fst snd] in He. assert (bs = bs1 ++ bs2 /\ te' = te2) as [-> ->] by (split; congruence).
    rewrite <- app_assoc in HB.
    destruct (tt_query_sync te td tmax x y the thd bs1 te1 rest r (bs2 ++ more) HT Hr Hc E1 HB)
      as [res [td1 [r1 [Ed [HB1 [HT1 [Hn [Hu [Hg [R1 [R2 [R3 R4]]]]]]]]]]]].
    fold (leaf_xy te x y) in R1, R2, R3, R4.
    assert (Hve : val_eq te te1) by (destruct Hg as [G1 [G2 [G3 _]]]; unfold val_eq; repeat split; assumption).
    destruct (IH te1 td1 (Z.max tmax the) bs2 te2 HT1 (tq_ok_ext ops te te1 _ Hve Hok) E2 rest r1 more HB1)
      as [ans [td' [r' [Ed' [HB' [Hans HT']]]]]].
    exists (res :: ans), td', r'. split.
    { cbn [tq_dec]. rewrite Ed. cbn [obind]. rewrite Ed'. cbn [obind]. reflexivity. }
    split; [exact HB'|]. split; [|exact HT'].
    cbn [tq_answers]. split.
    + intros Hu' Hlt. apply R1. apply R3; assumption.
    + split; [|apply (tq_answers_ext ops te te1 ans Hve Hans)].
      destruct (nk te1 (leaf_xy te x y)) eqn:Ek.
      * left. split; [apply R4; reflexivity | apply R1; reflexivity].
      * right. apply R2. reflexivity.
Qed.

(* tagtree_roundtrip: from new trees, for any grid size *)
Theorem tagtree_roundtrip : forall w h ops, tq_ok (tt_new w h) 0 ops ->
  exists bs te', tq_enc (tt_new w h) ops = Ok (bs, te') /\ Forall bit01 bs /\
    forall rest r more, BitsAt rest r (bs ++ more) ->
    exists ans td' r', tq_dec (tt_new w h) r ops = Ok (ans, td', r') /\ BitsAt rest r' more /\
      tq_answers (tt_new w h) ops ans.
Proof.
  intros w h ops Hok.
  assert (HT : TTInv (tt_new w h) (tt_new w h) 0).
  { apply TTInv_fresh; [apply tt_new_wf | apply same_geom_refl; apply wf_same_shapes; apply tt_new_wf|].
    intros id Hv. destruct (new_values w h id Hv) as [A [B C]]. repeat split; assumption. }
  destruct (tq_enc_ok ops _ 0 (tt_new_wf w h) Hok) as [bs [te' [E H01]]].
  exists bs, te'. split; [exact E|]. split; [exact H01|].
  intros rest r more HB.
  destruct (tagtree_roundtrip_inv ops _ _ 0 bs te' HT Hok E rest r more HB) as [ans [td' [r' [A [B [C _]]]]]].
  exists ans, td', r'. split; [exact A|]. split; [exact B | exact C].
Qed.
