(* C08 (t2): decodePacket and the five packet loops never panic.
   For ANY tile bytes, any derived geometry tables (cbPrecinctDims / cbPrecinctPositions), any
   visiting sequence, any style / strict / resilient flags: DecodePackets returns Ok or Err,
   the read offset stays inside the tile data, and the persisted per-band contexts keep
   well-formed tag trees. *)
From V Require Import Common.Base Framing.FrmWriters T2.T2Bio T2.T2TagTree T2.T2Header T2.T2Packets
  T2.T2ProofsBio T2.T2ProofsStore T2.T2ProofsTagTree T2.T2ProofsTagTree2 T2.T2ProofsSafe.

(* every stored packetHeaderContext holds well-formed trees (or none) *)
Definition ctx_wf (c : dctx) : Prop :=
  let '(it, zt, _) := c in (forall t, it = Some t -> wf_tree t) /\ (forall t, zt = Some t -> wf_tree t).
Definition store_wf (s : dstore) : Prop := forall k c, aget key4_eqb s k = Some c -> ctx_wf c.

Lemma key4_eqb_refl : forall k, key4_eqb k k = true.
Proof. intros [[[a b] c] d]. unfold key4_eqb. rewrite !Z.eqb_refl. reflexivity. Qed.

Lemma key4_eqb_eq : forall a b, key4_eqb a b = true -> a = b.
Proof.
  intros [[[a1 a2] a3] a4] [[[b1 b2] b3] b4] H. unfold key4_eqb in H.
  apply andb_prop in H as [H H4]. apply andb_prop in H as [H H3]. apply andb_prop in H as [H1 H2].
  apply Z.eqb_eq in H1, H2, H3, H4. congruence.
Qed.

Lemma aget_aset_same : forall {V} (s : list (key4 * V)) k v, aget key4_eqb (aset key4_eqb s k v) k = Some v.
Proof.
  intros V s k v. induction s as [|[k' v'] s IH]; cbn [aset aget].
  - rewrite key4_eqb_refl. reflexivity.
  - destruct (key4_eqb k' k) eqn:E; cbn [aget].
    + rewrite key4_eqb_refl. reflexivity.
    + rewrite E. exact IH.
Qed.

Lemma aget_aset_other : forall {V} (s : list (key4 * V)) k k' v, k <> k' ->
  aget key4_eqb (aset key4_eqb s k v) k' = aget key4_eqb s k'.
Proof.
  intros V s k k' v Hne. induction s as [|[k0 v0] s IH]; cbn [aset aget].
  - destruct (key4_eqb k k') eqn:E; [apply key4_eqb_eq in E; contradiction | reflexivity].
  - destruct (key4_eqb k0 k) eqn:E; cbn [aget].
    + apply key4_eqb_eq in E. subst k0.
      destruct (key4_eqb k k') eqn:E2; [apply key4_eqb_eq in E2; contradiction | reflexivity].
    + destruct (key4_eqb k0 k'); [reflexivity | exact IH].
Qed.

Lemma store_wf_set : forall s k c, store_wf s -> ctx_wf c -> store_wf (aset key4_eqb s k c).
Proof.
  intros s k c Hs Hc k' c' H. destruct (key4_eqb k k') eqn:E.
  - apply key4_eqb_eq in E. subst k'. rewrite aget_aset_same in H. inversion H; subst. exact Hc.
  - rewrite aget_aset_other in H; [apply (Hs k' c' H)|]. intros ->. rewrite key4_eqb_refl in E. discriminate.
Qed.

Lemma band_states_wf : forall geo store c r p bands, store_wf store ->
  Forall band_wf (map snd (dec_band_states geo store c r p bands)).
Proof.
  intros geo store c r p bands Hs. induction bands as [|b bands IH]; cbn [dec_band_states map]; [constructor|].
  destruct (match aget key4_eqb geo (c, r, p, b) with Some d => d | None => (0, 0, []) end) as [[w h] pos].
  destruct ((w <=? 0) || (h <=? 0)); [exact IH|].
  destruct (aget key4_eqb store (c, r, p, b)) as [[[it zt] sts]|] eqn:E; cbn [map snd]; constructor; try exact IH.
  - apply Hs in E. cbn [ctx_wf] in E. unfold band_wf. cbn [dbn_incl dbn_zbp]. exact E.
  - unfold band_wf. cbn [dbn_incl dbn_zbp]. split; intros t Ht; discriminate.
Qed.

Lemma store_back_wf : forall keys bands store, store_wf store -> Forall band_wf bands ->
  store_wf (store_back store keys bands).
Proof.
  induction keys as [|k keys IH]; intros bands store Hs Hb; cbn [store_back]; [exact Hs|].
  destruct bands as [|b bands]; [exact Hs|]. inversion Hb; subst.
  apply IH; [|assumption]. apply store_wf_set; [exact Hs|]. cbn [ctx_wf]. assumption.
Qed.

Lemma zlen_skipn : forall {A} (l : list A) n, 0 <= n <= zlen l -> zlen (skipn (Z.to_nat n) l) = zlen l - n.
Proof. intros A l n H. unfold zlen in *. rewrite skipn_length. lia. Qed.

(* decodePacket *)
Theorem dec_packet_no_panic : forall data offset geo store termAll strict resilient it,
  0 <= offset -> store_wf store ->
  good (fun res => let '(_, off', store') := res in
          offset <= off' /\ (offset <= zlen data -> off' <= zlen data) /\ store_wf store')
       (dec_packet data offset geo store termAll strict resilient it).
Proof.
  intros data offset geo store termAll strict resilient [[[l r] c] p] Ho Hs. unfold dec_packet.
  destruct (Z.geb_spec offset (zlen data)) as [Hge|Hlt]; [cbn [good]; repeat split; try lia; exact Hs|].
  destruct (Z.ltb_spec offset 0); [lia|].
  set (kb := dec_band_states geo store c r p (band_order r)).
  eapply good_bind.
  - apply (packet_parser_no_panic (skipn (Z.to_nat offset) data) l (map snd kb) termAll).
    apply band_states_wf. exact Hs.
  - intros [[[bytesRead present] incs] bands'] [Hbr Hbw].
    rewrite zlen_skipn in Hbr by lia.
    destruct present; cbn [negb].
    + eapply good_bind; [apply (packet_body_no_panic incs data (offset + bytesRead) strict resilient false); lia|].
      intros [[incs' off'] partial] [H1 H2]. cbn [good].
      split; [lia|]. split; [intros _; apply H2; lia|]. apply store_back_wf; assumption.
    + cbn [good]. split; [lia|]. split; [intros _; lia | exact Hs].
Qed.

(* the loop nests *)
Theorem dec_items_no_panic : forall items data offset geo store termAll strict resilient,
  0 <= offset -> store_wf store ->
  good (fun _ => True) (dec_items data offset geo store termAll strict resilient items).
Proof.
  induction items as [|it items IH]; intros data offset geo store termAll strict resilient Ho Hs; cbn [dec_items].
  - exact I.
  - destruct (offset >=? zlen data); [exact I|].
    eapply good_bind; [apply dec_packet_no_panic; assumption|].
    intros [[pk off'] store'] [H1 [H2 H3]].
    eapply good_bind; [apply IH; [lia | exact H3]|]. intros ps _. exact I.
Qed.

(* packet_decoder_no_panic: DecodePackets for every progression order *)
Theorem packet_decoder_no_panic : forall data order nl nr nc g dpidx geo style strict resilient,
  good (fun _ => True) (dec_packets data order nl nr nc g dpidx geo style strict resilient).
Proof.
  intros. unfold dec_packets. destruct (prog_seq order nl nr nc dpidx (precinct_position_key g nr)); [|exact I].
  apply dec_items_no_panic; [lia|]. intros k c H. discriminate.
Qed.
