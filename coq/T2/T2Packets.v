(* EXTRACT *)
(* JPEG 2000 tier-2 packets of one tile.
   Encoder: jpeg2000/t2/packet_encoder.go  orderPrecinctsByBand, encodePacket, sortedPrecincts,
     getPrecincts, encodeLRCP / RLCP / RPCL / PCRL / CPRL, EncodePackets; encoder.go
     packetsToBytes (header ++ body of every packet, in order).
   Shared: jpeg2000/t2/packet_progression.go  precinctPositionKey, sortedPositions,
     buildPositionMaps (both sides call the same function with their own inputs).
   Decoder: jpeg2000/t2/packet_decoder.go  bandsForResolution, decodePacket (per-band state
     persisted under "comp:res:precinct:band", body extraction and its length checks),
     decodeLRCP .. decodeCPRL with the end-of-data stop, DecodePackets;
     jpeg2000/t2/tile_decoder.go gatherCBData.
   The maps of the Go code are association lists keyed by the same tuples. *)
From V Require Import Common.Base Framing.FrmWriters T2.T2Bio T2.T2TagTree T2.T2Header.
Require V.J2KGeo.GeoModel.

(* ------------------------------------------------------------------------------------ *)
(* association lists                                                                      *)

Fixpoint aget {K V} (eqb : K -> K -> bool) (l : list (K * V)) (k : K) : option V :=
  match l with
  | [] => None
  | (k', v) :: r => if eqb k' k then Some v else aget eqb r k
  end.

Fixpoint aset {K V} (eqb : K -> K -> bool) (l : list (K * V)) (k : K) (v : V) : list (K * V) :=
  match l with
  | [] => [(k, v)]
  | (k', v') :: r => if eqb k' k then (k, v) :: r else (k', v') :: aset eqb r k v
  end.

Definition key3 : Type := (Z * Z * Z)%type.
Definition key4 : Type := (Z * Z * Z * Z)%type.
Definition key3_eqb (a b : key3) : bool :=
  let '(a1, a2, a3) := a in let '(b1, b2, b3) := b in (a1 =? b1) && (a2 =? b2) && (a3 =? b3).
Definition key4_eqb (a b : key4) : bool :=
  let '(a1, a2, a3, a4) := a in let '(b1, b2, b3, b4) := b in
  (a1 =? b1) && (a2 =? b2) && (a3 =? b3) && (a4 =? b4).

(* sort.Ints on distinct keys *)
Fixpoint zinsert (x : Z) (l : list Z) : list Z :=
  match l with
  | [] => [x]
  | y :: r => if y <? x then y :: zinsert x r else if y =? x then l else x :: l
  end.
Definition zsort_set (l : list Z) : list Z := fold_right zinsert [] l.

(* ------------------------------------------------------------------------------------ *)
(* encoder: one packet                                                                    *)

(* pe.precincts[comp][res][precinctIdx] = the Precinct objects (one per band, AddCodeBlock
   keeps one per SubbandIdx) *)
Definition ecells : Type := list (key3 * list eband).

Definition band_order (res : Z) : list Z := if res =? 0 then [0] else [1; 2; 3].

(* orderPrecinctsByBand *)
Definition order_bands (bands : list eband) (res : Z) : list eband :=
  flat_map (fun bid => filter (fun p => ebn_band p =? bid) bands) (band_order res).

(* the Precinct objects are shared by pointer: what the header encoder changed is seen in
   the store *)
Definition write_back (bands upd : list eband) : list eband :=
  map (fun p => match find (fun q => ebn_band q =? ebn_band p) upd with Some q => q | None => p end) bands.

Definition packet_body (incs : list eincl) : list Z :=
  flat_map (fun i => if ei_included i then ei_data i else []) incs.

(* encodePacket: (header, body, CodeBlockIncls, updated Precinct objects) *)
Definition enc_packet (bands : list eband) (layer res : Z)
  : outcome (list Z * list Z * list eincl * list eband) :=
  obind (enc_header (order_bands bands res) layer) (fun h =>
    let '(hdr, incs, upd) := h in Ok (hdr, packet_body incs, incs, write_back bands upd)).

(* ------------------------------------------------------------------------------------ *)
(* progression: the sequence of (layer, res, comp, precinct) visited                      *)

Definition floor_div (a b : Z) : Z :=
  if b <=? 0 then 0 else if a >=? 0 then Z.quot a b else - Z.quot (- a + b - 1) b.
Definition ceil_div (a b : Z) : Z :=
  if b <=? 0 then 0 else if a >=? 0 then Z.quot (a + b - 1) b else Z.quot a b.

(* geometry inputs of buildPositionMaps: per component bounds (x0, y0, x1, y1) and sampling
   (dx, dy); per resolution precinct size (pw, ph) *)
Record pgeom : Type := {
  pg_bounds : Z -> Z * Z * Z * Z;
  pg_sampling : Z -> Z * Z;
  pg_precinct : Z -> Z * Z
}.

(* precinctPositionKey(bounds, dx, dy, numLevels, res, pw, ph, precinctIdx) *)
Definition precinct_position_key (g : pgeom) (numRes comp res idx : Z) : option (Z * Z) :=
  let numLevels := if numRes - 1 <? 0 then 0 else numRes - 1 in
  let '(x0, y0, x1, y1) := pg_bounds g comp in
  let '(dx0, dy0) := pg_sampling g comp in
  let dx := if dx0 <=? 0 then 1 else dx0 in
  let dy := if dy0 <=? 0 then 1 else dy0 in
  let '(pw, ph) := pg_precinct g res in
  if (pw <=? 0) || (ph <=? 0) then None else
  let width := x1 - x0 in
  let height := y1 - y0 in
  if (width <=? 0) || (height <=? 0) then None else
  let '(resW, resH, resX0, resY0) := GeoModel.dec_res_dims width height x0 y0 numLevels res in
  let startX := floor_div resX0 pw * pw in
  let startY := floor_div resY0 ph * ph in
  let endX := ceil_div (resX0 + resW) pw * pw in
  let endY := ceil_div (resY0 + resH) ph * ph in
  let npx0 := Z.quot (endX - startX) pw in
  let npy0 := Z.quot (endY - startY) ph in
  let npx := if npx0 <? 1 then 1 else npx0 in
  let npy := if npy0 <? 1 then 1 else npy0 in
  if (idx <? 0) || (idx >=? npx * npy) then None else
  let px := Z.rem idx npx in
  let py := Z.quot idx npx in
  let levelno0 := numLevels - res in
  let levelno := if levelno0 <? 0 then 0 else levelno0 in
  Some ((startX + px * pw) * (dx * 2 ^ levelno), (startY + py * ph) * (dy * 2 ^ levelno)).

(* sortedPositions: a set of keys sorted by (Y, X) *)
Definition pos_lt (a b : Z * Z) : bool :=
  if snd a =? snd b then fst a <? fst b else snd a <? snd b.
Definition pos_eqb (a b : Z * Z) : bool := (fst a =? fst b) && (snd a =? snd b).
Fixpoint pos_insert (x : Z * Z) (l : list (Z * Z)) : list (Z * Z) :=
  match l with
  | [] => [x]
  | y :: r => if pos_lt y x then y :: pos_insert x r else if pos_eqb y x then l else x :: l
  end.
Definition pos_sort_set (l : list (Z * Z)) : list (Z * Z) := fold_right pos_insert [] l.

Definition opt_list {A} (o : option A) : list A := match o with Some a => [a] | None => [] end.

(* the position keys of component comp at resolution res *)
Definition cr_positions (pk : Z -> Z -> Z -> option (Z * Z)) (pidx : Z -> Z -> list Z) (comp res : Z)
  : list (Z * Z) :=
  flat_map (fun idx => opt_list (pk comp res idx)) (pidx comp res).

(* byCompRes[comp][res][pos]: the map is filled in index order, a later index with the same
   key replaces an earlier one *)
Definition lookup_pos (pk : Z -> Z -> Z -> option (Z * Z)) (pidx : Z -> Z -> list Z) (comp res : Z)
  (pos : Z * Z) : option Z :=
  fold_left (fun acc idx =>
    match pk comp res idx with
    | Some q => if pos_eqb q pos then Some idx else acc
    | None => acc
    end) (pidx comp res) None.

Definition by_res (pk : Z -> Z -> Z -> option (Z * Z)) (pidx : Z -> Z -> list Z) (nc res : Z) :=
  pos_sort_set (flat_map (fun c => cr_positions pk pidx c res) (zseq nc)).
Definition by_comp (pk : Z -> Z -> Z -> option (Z * Z)) (pidx : Z -> Z -> list Z) (nr comp : Z) :=
  pos_sort_set (flat_map (fun r => cr_positions pk pidx comp r) (zseq nr)).
Definition all_positions (pk : Z -> Z -> Z -> option (Z * Z)) (pidx : Z -> Z -> list Z) (nr nc : Z) :=
  pos_sort_set (flat_map (fun c => flat_map (fun r => cr_positions pk pidx c r) (zseq nr)) (zseq nc)).

Definition seq_item : Type := (Z * Z * Z * Z)%type.          (* layer, res, comp, precinct *)

Definition layers_of (nl r c p : Z) : list seq_item := map (fun l => (l, r, c, p)) (zseq nl).

(* the five loop nests; order 0..4 = LRCP, RLCP, RPCL, PCRL, CPRL; None = unsupported order *)
Definition prog_seq (order nl nr nc : Z) (pidx : Z -> Z -> list Z)
  (pk : Z -> Z -> Z -> option (Z * Z)) : option (list seq_item) :=
  if order =? 0 then
    Some (flat_map (fun l => flat_map (fun r => flat_map (fun c =>
            map (fun p => (l, r, c, p)) (pidx c r)) (zseq nc)) (zseq nr)) (zseq nl))
  else if order =? 1 then
    Some (flat_map (fun r => flat_map (fun l => flat_map (fun c =>
            map (fun p => (l, r, c, p)) (pidx c r)) (zseq nc)) (zseq nl)) (zseq nr))
  else if order =? 2 then
    Some (flat_map (fun r => flat_map (fun pos => flat_map (fun c =>
            match lookup_pos pk pidx c r pos with
            | Some p => layers_of nl r c p
            | None => []
            end) (zseq nc)) (by_res pk pidx nc r)) (zseq nr))
  else if order =? 3 then
    Some (flat_map (fun pos => flat_map (fun c => flat_map (fun r =>
            match lookup_pos pk pidx c r pos with
            | Some p => layers_of nl r c p
            | None => []
            end) (zseq nr)) (zseq nc)) (all_positions pk pidx nr nc))
  else if order =? 4 then
    Some (flat_map (fun c => flat_map (fun pos => flat_map (fun r =>
            match lookup_pos pk pidx c r pos with
            | Some p => layers_of nl r c p
            | None => []
            end) (zseq nr)) (by_comp pk pidx nr c)) (zseq nc))
  else None.

(* ------------------------------------------------------------------------------------ *)
(* encoder: all packets of a tile                                                         *)

(* sortedPrecincts(comp, res) *)
Definition enc_pidx (cells : ecells) (comp res : Z) : list Z :=
  zsort_set (flat_map (fun kv => let '(c, r, p) := fst kv in
                                 if (c =? comp) && (r =? res) then [p] else []) cells).

Record epacket : Type := {
  ep_item : seq_item; ep_header : list Z; ep_body : list Z; ep_incls : list eincl
}.

Fixpoint enc_items (cells : ecells) (items : list seq_item) : outcome (list epacket * ecells) :=
  match items with
  | [] => Ok ([], cells)
  | (l, r, c, p) :: rest =>
    match aget key3_eqb cells (c, r, p) with
    | None => enc_items cells rest                          (* len(precincts) == 0: continue *)
    | Some [] => enc_items cells rest
    | Some bands =>
      obind (enc_packet bands l r) (fun res =>
        let '(hdr, body, incs, bands') := res in
        obind (enc_items (aset key3_eqb cells (c, r, p) bands') rest) (fun res' =>
          Ok ({| ep_item := (l, r, c, p); ep_header := hdr; ep_body := body; ep_incls := incs |}
              :: fst res', snd res')))
    end
  end.

(* EncodePackets *)
Definition enc_packets (order nl nr nc : Z) (g : pgeom) (cells : ecells)
  : outcome (list epacket * ecells) :=
  match prog_seq order nl nr nc (enc_pidx cells) (precinct_position_key g nr) with
  | None => Err
  | Some items => enc_items cells items
  end.

(* packetsToBytes *)
Definition packets_bytes (ps : list epacket) : list Z :=
  flat_map (fun p => ep_header p ++ ep_body p) ps.

(* ------------------------------------------------------------------------------------ *)
(* decoder: one packet                                                                    *)

(* cbPrecinctDims / cbPrecinctPositions: (comp, res, precinct, band) -> numCBX, numCBY, positions *)
Definition dgeo : Type := list (key4 * (Z * Z * list (Z * Z))).
(* cbStates: "comp:res:precinct:band" -> packetHeaderContext {incl, zbp, states} *)
Definition dctx : Type := (option ttree * option ttree * option (list dblock))%type.
Definition dstore : Type := list (key4 * dctx).

Record dpacket : Type := {
  dp_item : seq_item; dp_present : bool; dp_incls : list (dincl * list Z * bool);
                                                  (* CodeBlockIncl, its Data, Corrupted *)
  dp_body : list Z; dp_partial : bool
}.

(* the band loop that builds bandStates / bandStateKeys *)
Fixpoint dec_band_states (geo : dgeo) (store : dstore) (c r p : Z) (bands : list Z)
  : list (key4 * dband) :=
  match bands with
  | [] => []
  | b :: rest =>
    let '(w, h, pos) := match aget key4_eqb geo (c, r, p, b) with
                        | Some d => d | None => (0, 0, []) end in
    if (w <=? 0) || (h <=? 0) then dec_band_states geo store c r p rest else
    let '(it, zt, sts) := match aget key4_eqb store (c, r, p, b) with
                          | Some x => x | None => (None, None, None) end in
    ((c, r, p, b), {| dbn_w := w; dbn_h := h; dbn_pos := pos; dbn_incl := it; dbn_zbp := zt;
                      dbn_states := sts |}) :: dec_band_states geo store c r p rest
  end.

Fixpoint store_back (store : dstore) (keys : list key4) (bands : list dband) : dstore :=
  match keys, bands with
  | k :: kr, b :: br => store_back (aset key4_eqb store k (dbn_incl b, dbn_zbp b, dbn_states b)) kr br
  | _, _ => store
  end.

(* data[a:b] *)
Definition slice (data : list Z) (a b : Z) : outcome (list Z) :=
  if (0 <=? a) && (a <=? b) && (b <=? zlen data)
  then Ok (firstn (Z.to_nat (b - a)) (skipn (Z.to_nat a) data)) else Panic.

(* the body loop of decodePacket; returns (incls with data, offset, partialBuffer).
   A `break` leaves the remaining CodeBlockIncls untouched. *)
Fixpoint dec_body (data : list Z) (offset : Z) (strict resilient : bool) (partial : bool)
  (incs : list dincl) : outcome (list (dincl * list Z * bool) * Z * bool) :=
  match incs with
  | [] => Ok ([], offset, partial)
  | i :: rest =>
    let untouched := map (fun j => (j, [], false)) in
    if di_included i && (0 <? di_len i) then
      if offset >=? zlen data then Ok (untouched (i :: rest), offset, true) else
      let over := offset + di_len i >? zlen data in
      if over && strict then Err else
      let len1 := if over then zlen data - offset else di_len i in
      let partial1 := if over && resilient then true else partial in
      if (len1 >? 65535) && strict then Err else
      let len2 := if len1 >? 65535
                  then (if zlen data - offset <? 65535 then zlen data - offset else 65535)
                  else len1 in
      obind (slice data offset (offset + len2)) (fun d =>
      obind (dec_body data (offset + len2) strict resilient partial1 rest) (fun res =>
        let '(l, off, pt) := res in
        let i' := {| di_included := di_included i; di_first := di_first i; di_np := di_np i;
                     di_len := len2; di_zbp := di_zbp i; di_pl := di_pl i; di_termall := di_termall i |} in
        Ok ((i', d, partial1) :: l, off, pt)))
    else
      obind (dec_body data offset strict resilient partial rest) (fun res =>
        let '(l, off, pt) := res in Ok ((i, [], false) :: l, off, pt))
  end.

(* decodePacket(layer, resolution, component, precinctIdx) *)
Definition dec_packet (data : list Z) (offset : Z) (geo : dgeo) (store : dstore) (termAll strict resilient : bool)
  (it : seq_item) : outcome (dpacket * Z * dstore) :=
  let '(l, r, c, p) := it in
  let absent := {| dp_item := it; dp_present := false; dp_incls := []; dp_body := []; dp_partial := false |} in
  if offset >=? zlen data then Ok (absent, offset, store) else
  if offset <? 0 then Panic else                            (* data[offset:] *)
  let kb := dec_band_states geo store c r p (band_order r) in
  obind (parse_header (skipn (Z.to_nat offset) data) l (map snd kb) termAll) (fun h =>
    let '(bytesRead, present, incs, bands') := h in
    if negb present then Ok (absent, offset + bytesRead, store) else
    let store' := store_back store (map fst kb) bands' in
    obind (dec_body data (offset + bytesRead) strict resilient false incs) (fun b =>
      let '(incs', off', partial) := b in
      Ok ({| dp_item := it; dp_present := true; dp_incls := incs';
             dp_body := flat_map (fun x => snd (fst x)) incs'; dp_partial := partial |}, off', store'))).

(* the loop nests of decodeLRCP .. decodeCPRL: stop as soon as the tile data is exhausted *)
Fixpoint dec_items (data : list Z) (offset : Z) (geo : dgeo) (store : dstore) (termAll strict resilient : bool)
  (items : list seq_item) : outcome (list dpacket) :=
  match items with
  | [] => Ok []
  | it :: rest =>
    if offset >=? zlen data then Ok [] else
    obind (dec_packet data offset geo store termAll strict resilient it) (fun res =>
      let '(pk, off', store') := res in
      obind (dec_items data off' geo store' termAll strict resilient rest) (fun ps => Ok (pk :: ps)))
  end.

(* DecodePackets.  dpidx = precinctIndicesForResolution (sorted precinct indices that have
   code-blocks), derived by buildPrecinctOrder from the geometry. *)
Definition dec_packets (data : list Z) (order nl nr nc : Z) (g : pgeom) (dpidx : Z -> Z -> list Z)
  (geo : dgeo) (style : Z) (strict resilient : bool) : outcome (list dpacket) :=
  match prog_seq order nl nr nc dpidx (precinct_position_key g nr) with
  | None => Err
  | Some items => dec_items data 0 geo [] (negb (Z.land style 4 =? 0)) strict resilient items
  end.

(* ------------------------------------------------------------------------------------ *)
(* gatherCBData                                                                           *)

Record cbinfo : Type := {
  ci_data : list Z; ci_passes : Z; ci_zbp : Z; ci_zbpset : bool; ci_pl : option (list Z);
  ci_termall : bool
}.
Definition cbinfo_zero : cbinfo :=
  {| ci_data := []; ci_passes := 0; ci_zbp := 0; ci_zbpset := false; ci_pl := None; ci_termall := false |}.

Definition key2_eqb (a b : Z * Z) : bool := (fst a =? fst b) && (snd a =? snd b).

(* running totals of PassLengths appended to the cumulative list *)
Fixpoint cum_from (total : Z) (pls : list Z) : list Z :=
  match pls with [] => [] | x :: r => (total + x) :: cum_from (total + x) r end.

(* the CodeBlockIncls loop of one packet; cbOrder = global indices in header order *)
Fixpoint gather_incls (m : list ((Z * Z) * cbinfo)) (res : Z) (cbOrder : list Z) (body : list Z)
  (incs : list dincl) (cbIdx dataOffset : Z) : list ((Z * Z) * cbinfo) :=
  match incs with
  | [] => m
  | i :: rest =>
    if negb (di_included i) then gather_incls m res cbOrder body rest (cbIdx + 1) dataOffset
    else if cbIdx >=? zlen cbOrder then
      gather_incls m res cbOrder body rest (cbIdx + 1) (dataOffset + di_len i)
    else
      let actual := znth cbOrder cbIdx 0 in
      let cbData := if (0 <? di_len i) && (dataOffset + di_len i <=? zlen body)
                    then firstn (Z.to_nat (di_len i)) (skipn (Z.to_nat dataOffset) body) else [] in
      let ex := match aget key2_eqb m (res, actual) with Some e => e | None => cbinfo_zero end in
      let data' := if 0 <? zlen (ci_data ex) then ci_data ex ++ cbData else cbData in
      let pl' := if 0 <? zlen (di_pl i) then
                   match ci_pl ex with
                   | None => Some (cum_from 0 (di_pl i))
                   | Some old => Some (old ++ cum_from (last old 0) (di_pl i))
                   end
                 else ci_pl ex in
      let setz := negb (ci_zbpset ex) && (0 <=? di_zbp i) in
      let ex' := {| ci_data := data'; ci_passes := ci_passes ex + di_np i;
                    ci_zbp := if setz then di_zbp i else ci_zbp ex;
                    ci_zbpset := ci_zbpset ex || setz; ci_pl := pl';
                    ci_termall := ci_termall ex || di_termall i |} in
      gather_incls (aset key2_eqb m (res, actual) ex') res cbOrder body rest (cbIdx + 1)
                   (dataOffset + di_len i)
  end.

(* gatherCBData(comp, precinctOrder, packets): order res precinct = cbOrder or None *)
Fixpoint gather (comp : Z) (order : Z -> Z -> option (list Z)) (m : list ((Z * Z) * cbinfo))
  (packets : list dpacket) : list ((Z * Z) * cbinfo) :=
  match packets with
  | [] => m
  | pk :: rest =>
    let '(l, r, c, p) := dp_item pk in
    if negb (c =? comp) then gather comp order m rest else
    match order r p with
    | None => gather comp order m rest
    | Some cbOrder =>
      gather comp order (gather_incls m r cbOrder (dp_body pk) (map (fun x => fst (fst x)) (dp_incls pk)) 0 0) rest
    end
  end.
