(* C09 (t2): the packet body the decoder assembles is never longer than the tile data that is
   left, whatever lengths the packet header declared (decodePacket clips every declared
   length to the bytes present before it copies them). *)
From V Require Import Common.Base T2.T2Bio T2.T2TagTree T2.T2Header T2.T2Packets T2.T2ProofsBio T2.T2ProofsCodes.

Definition body_bytes (out : list (dincl * list Z * bool)) : list Z := flat_map (fun x => snd (fst x)) out.

Lemma slice_len : forall data a b d, slice data a b = Ok d -> zlen d = b - a /\ 0 <= a /\ a <= b /\ b <= zlen data.
Proof.
  intros data a b d H. unfold slice in H.
  destruct ((0 <=? a) && (a <=? b) && (b <=? zlen data)) eqn:E; [|discriminate].
  apply andb_prop in E. destruct E as [E E3]. apply andb_prop in E. destruct E as [E1 E2].
  apply Z.leb_le in E1, E2, E3. apply ok_inj in H. subst d.
  repeat split; try assumption.
  unfold zlen in *. rewrite firstn_length, skipn_length. lia.
Qed.

Lemma body_untouched : forall l : list dincl, body_bytes (map (fun j => (j, @nil Z, false)) l) = [].
Proof. induction l as [|x l IH]; cbn; [reflexivity | exact IH]. Qed.

Lemma dec_body_size : forall incs data offset strict resilient partial out off' pt,
  0 <= offset ->
  dec_body data offset strict resilient partial incs = Ok (out, off', pt) ->
  offset <= off' /\ zlen (body_bytes out) = off' - offset /\ (offset <= zlen data -> off' <= zlen data).
Proof.
  induction incs as [|i incs IH]; intros data offset strict resilient partial out off' pt Hoff H; cbn [dec_body] in H.
  - apply ok_inj in H. assert (out = [] /\ off' = offset) as [-> ->] by (split; congruence).
    cbn. unfold zlen. cbn. lia.
  - destruct (di_included i && (0 <? di_len i)).
    + destruct (offset >=? zlen data) eqn:Ege.
      { apply ok_inj in H.
        assert (out = map (fun j => (j, @nil Z, false)) (i :: incs) /\ off' = offset) as [-> ->] by (split; congruence).
        rewrite body_untouched. unfold zlen; cbn. lia. }
      destruct ((offset + di_len i >? zlen data) && strict); [discriminate|].
      match type of H with context [if (?len1 >? 65535) && strict then _ else _] =>
        destruct ((len1 >? 65535) && strict); [discriminate|] end.
      match type of H with obind (slice data offset ?e) _ = _ => destruct (slice data offset e) as [d| | |] eqn:Es end;
        cbn [obind] in H; try discriminate.
      match type of H with obind ?x _ = _ => destruct x as [[[l off] pt0]| | |] eqn:E end; cbn [obind] in H; try discriminate.
      apply ok_inj in H.
      match type of H with (?hd :: l, _, _) = _ => assert (out = hd :: l /\ off' = off) as [-> ->] by (split; congruence) end.
      apply slice_len in Es. destruct Es as [Ld [_ [Hle Hin]]].
      apply IH in E; [|lia]. destruct E as [E1 [E2 E3]].
      unfold body_bytes in *. cbn [flat_map fst snd]. rewrite zlen_app, E2, Ld.
      repeat split; try lia.
    + destruct (dec_body data offset strict resilient partial incs) as [[[l off] pt0]| | |] eqn:E; cbn [obind] in H;
        try discriminate.
      apply ok_inj in H. assert (out = (i, [], false) :: l /\ off' = off) as [-> ->] by (split; congruence).
      apply IH in E; [|lia]. unfold body_bytes in *. cbn [flat_map fst snd app]. exact E.
Qed.

(* the statement used by Props/C09_t2.v: the body is bounded by the data left in the tile *)
Theorem packet_body_bounded_by_tile_data : forall incs data offset strict resilient partial out off' pt,
  0 <= offset <= zlen data ->
  dec_body data offset strict resilient partial incs = Ok (out, off', pt) ->
  zlen (body_bytes out) <= zlen data - offset /\ offset <= off' <= zlen data.
Proof.
  intros incs data offset strict resilient partial out off' pt [H0 H1] H.
  destruct (dec_body_size _ _ _ _ _ _ _ _ _ H0 H) as [A [B C]]. specialize (C H1). lia.
Qed.

(* and for a whole packet: dp_body of the decoded packet *)
Theorem dec_packet_body_bounded : forall data offset geo store termAll strict resilient it pk off' store',
  dec_packet data offset geo store termAll strict resilient it = Ok (pk, off', store') ->
  zlen (dp_body pk) <= zlen data.
Proof.
  intros data offset geo store termAll strict resilient [[[l r] c] p] pk off' store' H.
  unfold dec_packet in H.
  destruct (offset >=? zlen data).
  { apply ok_inj in H. assert (pk = {| dp_item := (l, r, c, p); dp_present := false; dp_incls := []; dp_body := []; dp_partial := false |}) by congruence.
    subst pk. cbn. pose proof (zlen_nonneg data). unfold zlen in *. cbn. lia. }
  destruct (offset <? 0) eqn:Eneg; [discriminate|]. apply Z.ltb_ge in Eneg.
  match type of H with obind ?x _ = _ => destruct x as [[[[br present] incs] bands']| | |] eqn:Eh end; cbn [obind] in H; try discriminate.
  destruct (negb present).
  { apply ok_inj in H. assert (pk = {| dp_item := (l, r, c, p); dp_present := false; dp_incls := []; dp_body := []; dp_partial := false |}) by congruence.
    subst pk. cbn. pose proof (zlen_nonneg data). unfold zlen in *. cbn. lia. }
  match type of H with obind ?x _ = _ => destruct x as [[[incs' off2] partial]| | |] eqn:Eb end; cbn [obind] in H; try discriminate.
  apply ok_inj in H.
  assert (dp_body pk = flat_map (fun x => snd (fst x)) incs') by (assert (Hp : pk = {| dp_item := (l, r, c, p); dp_present := true; dp_incls := incs'; dp_body := flat_map (fun x => snd (fst x)) incs'; dp_partial := partial |}) by congruence; rewrite Hp; reflexivity).
  rewrite H0. clear H H0.
  (* bytesRead may be anything the header parser returns; split on whether the start is inside the data *)
  destruct (Z_le_gt_dec 0 (offset + br)) as [Hnn|Hneg].
  - destruct (dec_body_size _ _ _ _ _ _ _ _ _ Hnn Eb) as [A [B C]]. fold (body_bytes incs'). 
    destruct (Z_le_gt_dec (offset + br) (zlen data)) as [Hin|Hout].
    + specialize (C Hin). lia.
    + (* start beyond the data: nothing is copied *)
      clear A B C. revert Eb. generalize false at 1. intros pt0 Eb.
      assert (Hnil : forall incs0 pt1 out o p2, dec_body data (offset + br) strict resilient pt1 incs0 = Ok (out, o, p2) -> body_bytes out = []).
      { induction incs0 as [|i incs0 IH0]; intros pt1 out o p2 Hd; cbn [dec_body] in Hd.
        - apply ok_inj in Hd. assert (out = []) by congruence. subst. reflexivity.
        - destruct (di_included i && (0 <? di_len i)).
          + assert (Hge : (offset + br >=? zlen data) = true) by (apply Z.geb_le; lia). rewrite Hge in Hd.
            apply ok_inj in Hd. assert (out = map (fun j => (j, @nil Z, false)) (i :: incs0)) by congruence. subst. apply body_untouched.
          + destruct (dec_body data (offset + br) strict resilient pt1 incs0) as [[[l0 o0] p0]| | |] eqn:E0; cbn [obind] in Hd; try discriminate.
            apply ok_inj in Hd. assert (out = (i, [], false) :: l0) by congruence. subst out.
            unfold body_bytes. cbn [flat_map fst snd app]. eapply IH0. exact E0. }
      rewrite (Hnil _ _ _ _ _ Eb). pose proof (zlen_nonneg data). unfold zlen in *. cbn. lia.
  - (* negative start: slice panics on the first included block, or nothing is copied *)
    assert (Hnil : forall incs0 pt1 out o p2, dec_body data (offset + br) strict resilient pt1 incs0 = Ok (out, o, p2) -> body_bytes out = []).
    { induction incs0 as [|i incs0 IH0]; intros pt1 out o p2 Hd; cbn [dec_body] in Hd.
      - apply ok_inj in Hd. assert (out = []) by congruence. subst. reflexivity.
      - destruct (di_included i && (0 <? di_len i)).
        + destruct (offset + br >=? zlen data) eqn:Eg.
          { apply Z.geb_le in Eg. pose proof (zlen_nonneg data). lia. }
          destruct ((offset + br + di_len i >? zlen data) && strict); [discriminate|].
          match type of Hd with context [if (?len1 >? 65535) && strict then _ else _] =>
            destruct ((len1 >? 65535) && strict); [discriminate|] end.
          match type of Hd with obind (slice data ?a ?e) _ = _ => destruct (slice data a e) as [d| | |] eqn:Es end;
            cbn [obind] in Hd; try discriminate.
          apply slice_len in Es. lia.
        + destruct (dec_body data (offset + br) strict resilient pt1 incs0) as [[[l0 o0] p0]| | |] eqn:E0; cbn [obind] in Hd; try discriminate.
          apply ok_inj in Hd. assert (out = (i, [], false) :: l0) by congruence. subst out.
          unfold body_bytes. cbn [flat_map fst snd app]. eapply IH0. exact E0. }
    fold (body_bytes incs'). rewrite (Hnil _ _ _ _ _ Eb). pose proof (zlen_nonneg data). unfold zlen in *. cbn. lia.
Qed.
