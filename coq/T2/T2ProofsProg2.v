(* C04 (t2): precinctPositionKey is injective in the precinct index - different precincts of one
   (component, resolution) have different position keys - so the proviso pk_ok of
   prog_seq_sched holds for ANY number of precincts as soon as every listed precinct index has
   a key at all (lies inside the precinct grid of its resolution). *)
From V Require Import Common.Base T2.T2Header T2.T2Packets T2.T2ProofsPackets1 T2.T2ProofsPackets2 T2.T2ProofsProg.
Require V.J2KGeo.GeoModel.

Lemma ppk_inj : forall g nr c r p p' pos,
  precinct_position_key g nr c r p = Some pos -> precinct_position_key g nr c r p' = Some pos -> p = p'.
Proof.
  intros g nr c r p p' [qx qy] H H'. unfold precinct_position_key in H, H'.
  destruct (pg_bounds g c) as [[[x0 y0] x1] y1].
  destruct (pg_sampling g c) as [dx0 dy0].
  destruct (pg_precinct g r) as [pw ph].
  destruct (Z.leb_spec pw 0); [discriminate|]. destruct (Z.leb_spec ph 0); [discriminate|]. cbn [orb] in H, H'.
  destruct ((x1 - x0 <=? 0) || (y1 - y0 <=? 0)); [discriminate|].
  destruct (GeoModel.dec_res_dims (x1 - x0) (y1 - y0) x0 y0 (if nr - 1 <? 0 then 0 else nr - 1) r)
    as [[[resW resH] resX0] resY0].
  set (startX := floor_div resX0 pw * pw) in *. set (startY := floor_div resY0 ph * ph) in *.
  set (npx0 := Z.quot (ceil_div (resX0 + resW) pw * pw - startX) pw) in *.
  set (npy0 := Z.quot (ceil_div (resY0 + resH) ph * ph - startY) ph) in *.
  set (npx := if npx0 <? 1 then 1 else npx0) in *. set (npy := if npy0 <? 1 then 1 else npy0) in *.
  assert (Hnpx : 1 <= npx) by (unfold npx; destruct (Z.ltb_spec npx0 1); lia).
  destruct (Z.ltb_spec p 0); [discriminate|]. destruct (Z.geb_spec p (npx * npy)); [discriminate|].
  destruct (Z.ltb_spec p' 0); [discriminate|]. destruct (Z.geb_spec p' (npx * npy)); [discriminate|].
  cbn [orb] in H, H'.
  set (lv := if (if nr - 1 <? 0 then 0 else nr - 1) - r <? 0 then 0 else (if nr - 1 <? 0 then 0 else nr - 1) - r) in *.
  assert (Hlv : 0 <= lv) by (unfold lv; destruct (Z.ltb_spec ((if nr - 1 <? 0 then 0 else nr - 1) - r) 0); lia).
  set (dx := if dx0 <=? 0 then 1 else dx0) in *. set (dy := if dy0 <=? 0 then 1 else dy0) in *.
  assert (Hdx : 1 <= dx) by (unfold dx; destruct (Z.leb_spec dx0 0); lia).
  assert (Hdy : 1 <= dy) by (unfold dy; destruct (Z.leb_spec dy0 0); lia).
  assert (Hp2 : 0 < 2 ^ lv) by (apply Z.pow_pos_nonneg; lia).
  assert (Hsx : 0 < dx * 2 ^ lv) by nia. assert (Hsy : 0 < dy * 2 ^ lv) by nia.
  injection H as E1 E2. injection H' as E1' E2'. rewrite <- E1' in E1. rewrite <- E2' in E2.
  assert (Ex : Z.rem p npx = Z.rem p' npx).
  { apply Z.mul_reg_r in E1; [|lia]. apply (Z.mul_reg_r _ _ pw); lia. }
  assert (Ey : Z.quot p npx = Z.quot p' npx).
  { apply Z.mul_reg_r in E2; [|lia]. apply (Z.mul_reg_r _ _ ph); lia. }
  pose proof (Z.quot_rem' p npx) as Q1. pose proof (Z.quot_rem' p' npx) as Q2. nia.
Qed.

Theorem ppk_ok : forall g nr nc pidx,
  (forall c r p, 0 <= c < nc -> 0 <= r < nr -> In p (pidx c r) -> precinct_position_key g nr c r p <> None) ->
  pk_ok nr nc pidx (precinct_position_key g nr).
Proof.
  intros g nr nc pidx H c r p Hc Hr Hp. specialize (H c r p Hc Hr Hp).
  destruct (precinct_position_key g nr c r p) as [pos|] eqn:E; [|congruence].
  exists pos. split; [reflexivity|]. intros p' _ E'. symmetry. eapply ppk_inj; eassumption.
Qed.
