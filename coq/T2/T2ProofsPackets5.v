(* C04 (t2): packets_encode_total - under the hypotheses of packets_deliver_blocks the encoder
   does not fail: EncodePackets returns its packets, and what it recorded per packet is the
   contribution schedule of the cell's blocks.  (No size bound on the contributions is needed
   here; the 65535-byte bound only matters for the decoder's body loop.) *)
From V Require Import Common.Base Framing.FrmWriters T2.T2Bio T2.T2TagTree T2.T2Header T2.T2Packets
  J2KGeo.GeoLayers
  T2.T2ProofsBio T2.T2ProofsCodes T2.T2ProofsStore T2.T2ProofsTagTree T2.T2ProofsTagTree2 T2.T2ProofsTagTree3
  T2.T2ProofsSafe T2.T2ProofsSafe2 T2.T2ProofsHeader T2.T2ProofsHeader2 T2.T2ProofsHeader3
  T2.T2ProofsPackets1 T2.T2ProofsPackets2 T2.T2ProofsProg T2.T2ProofsPackets3.

(* ---------- the codes never fail inside their domain ---------- *)

Lemma enc_lengths_ok : forall nlb dataLen prev np termAll pl terms,
  lengths_domain dataLen prev np termAll pl terms ->
  exists bs n', enc_lengths nlb dataLen prev np termAll pl terms = Ok (bs, n').
Proof.
  intros nlb dataLen prev np termAll pl terms [Hnp [_ Hd]]. unfold enc_lengths.
  destruct (Z.leb_spec np 0); [lia|].
  destruct pl as [l|]; [|eexists; eexists; reflexivity].
  destruct (prev + np >? zlen l); [eexists; eexists; reflexivity|].
  destruct Hd as [Hp _]. destruct (Z.ltb_spec prev 0); [lia|]. eexists; eexists; reflexivity.
Qed.

Definition tree_dims (w h : Z) (t : ttree) : Prop := wf_tree t /\ tt_w t = w /\ tt_h t = h.

Lemma encode_dims : forall w h t x y thr, tree_dims w h t -> 0 <= x < w -> 0 <= y < h ->
  exists bs t', tt_encode t x y thr = Ok (bs, t') /\ tree_dims w h t'.
Proof.
  intros w h t x y thr [Hwf [Hw Hh]] Hx Hy.
  assert (Hr : tt_in_range t x y = true).
  { unfold tt_in_range. rewrite Hw, Hh.
    apply andb_true_intro; split; [apply andb_true_intro; split; [apply andb_true_intro; split|]|];
      try apply Z.leb_le; try apply Z.ltb_lt; lia. }
  destruct (tt_encode_ok t x y thr Hwf Hr) as [bs [t' E]]. exists bs, t'. split; [exact E|].
  destruct (encode_wf _ _ _ _ _ _ Hwf E) as [Hwf' [A [B _]]]. split; [exact Hwf'|]. split; congruence.
Qed.

Lemma eb_with_self : forall b, b = eb_with b (eb_included b) (eb_nlb b).
Proof. intros b. unfold eb_with. destruct b; reflexivity. Qed.

(* ---------- one block, all blocks of a band ---------- *)

Lemma enc_block_ok : forall termAll w h it zt b l, tree_dims w h it -> tree_dims w h zt ->
  in_grid w h b -> block_layer_ok termAll b l ->
  exists bs ei b' it' zt', enc_block it zt b l = Ok (bs, ei, b', it', zt') /\ tree_dims w h it' /\ tree_dims w h zt'.
Proof.
  intros termAll w h it zt b l Hit Hzt [Hx Hy] Hok. unfold enc_block. fold (contrib b l).
  destruct (contrib b l) as [[inc np] data] eqn:Ec.
  assert (Einc : b_inc b l = inc) by (unfold b_inc; rewrite Ec; reflexivity).
  assert (Enp : b_np b l = np) by (unfold b_np; rewrite Ec; reflexivity).
  assert (Edata : b_data b l = data) by (unfold b_data; rewrite Ec; reflexivity).
  (* the tail, for the block with any Included / NumLenBits *)
  assert (Hcont : inc = true -> forall (pre : list Z) (b1 : eblock) (it1 zt1 : ttree),
            eb_lp b1 = eb_lp b /\ eb_npt b1 = eb_npt b /\ block_pass_lens b1 = block_pass_lens b /\
            block_terms b1 = block_terms b /\ eb_termall b1 = eb_termall b ->
            exists bs ei b',
              obind (enc_numpasses np) (fun bs3 =>
                let dataLen := zlen data in
                let '(prev, total) := prev_and_total_passes false (eb_lp b1) (eb_npt b1) l np in
                let pl := block_pass_lens b1 in
                let termAll0 := eb_termall b1 && negb (match pl with None => true | Some l0 => total >? zlen l0 end) in
                obind (enc_lengths (eb_nlb b1) dataLen prev np termAll0 pl (block_terms b1)) (fun ln =>
                  Ok (pre ++ bs3 ++ fst ln,
                      {| ei_included := inc; ei_np := np; ei_len := dataLen; ei_data := data |},
                      eb_with b1 (eb_included b1) (snd ln), it1, zt1))) = Ok (bs, ei, b', it1, zt1)).
  { intros Hi pre b1 it1 zt1 [S1 [S2 [S3 [S4 S5]]]]. rewrite <- Einc in Hi. destruct (Hok Hi) as [Hdom _].
    pose proof Hdom as [Hnpr _]. rewrite Enp in Hnpr.
    destruct (enc_numpasses_ok np Hnpr) as [bs3 [E3 _]]. rewrite E3. cbn [obind].
    rewrite S1, S2, S3, S4, S5.
    destruct (prev_and_total_passes false (eb_lp b) (eb_npt b) l np) as [prev total] eqn:Ept.
    assert (Eprev : b_prev b l = prev) by (unfold b_prev; rewrite Enp, Ept; reflexivity).
    assert (Etotal : b_total b l = total) by (unfold b_total; rewrite Enp, Ept; reflexivity).
    assert (Eta : b_termall b l = eb_termall b && negb (match block_pass_lens b with None => true | Some l0 => total >? zlen l0 end))
      by (unfold b_termall; rewrite Etotal; reflexivity).
    rewrite <- Eta. rewrite Edata, Eprev, Enp in Hdom.
    destruct (enc_lengths_ok (eb_nlb b1) _ _ _ _ _ _ Hdom) as [bs4 [n' E4]]. rewrite E4. cbn [obind].
    eexists; eexists; eexists. reflexivity. }
  destruct (eb_included b) eqn:Eincl; cbn [negb].
  - destruct inc.
    + destruct (Hcont eq_refl [1] b it zt ltac:(repeat split; reflexivity)) as [bs [ei [b' E]]].
      rewrite Eincl in E. exists bs, ei, b', it, zt. split; [exact E | split; assumption].
    + eexists; eexists; eexists; eexists; eexists. split; [reflexivity | split; assumption].
  - destruct (encode_dims w h it (eb_cbx b) (eb_cby b) (l + 1) Hit Hx Hy) as [bs1 [it1 [E1 Hit1]]].
    rewrite E1. cbn [obind fst snd].
    destruct inc; cbn [negb].
    + destruct (encode_dims w h zt (eb_cbx b) (eb_cby b) 999 Hzt Hx Hy) as [bs2 [zt1 [E2 Hzt1]]].
      rewrite E2. cbn [obind fst snd].
      destruct (Hcont eq_refl (bs1 ++ bs2) (eb_with b true (eb_nlb b)) it1 zt1 ltac:(repeat split; reflexivity)) as [bs [ei [b' E]]].
      exists bs, ei, b', it1, zt1. split; [exact E | split; assumption].
    + eexists; eexists; eexists; eexists; eexists. split; [reflexivity | split; assumption].
Qed.

Lemma enc_blocks_ok : forall termAll w h l bl it zt, tree_dims w h it -> tree_dims w h zt ->
  Forall (fun b => in_grid w h b /\ block_layer_ok termAll b l) bl ->
  exists bs incs bl' it' zt', enc_blocks it zt bl l = Ok (bs, incs, bl', it', zt').
Proof.
  intros termAll w h l bl. induction bl as [|b bl IH]; intros it zt Hit Hzt Hf; cbn [enc_blocks].
  - eexists; eexists; eexists; eexists; eexists. reflexivity.
  - pose proof (Forall_inv Hf) as [Hg Hok]. pose proof (Forall_inv_tail Hf) as Hf'.
    destruct (enc_block_ok termAll w h it zt b l Hit Hzt Hg Hok) as [bs1 [ei [b1 [it1 [zt1 [E1 [Hit1 Hzt1]]]]]]].
    rewrite E1. cbn [obind].
    destruct (IH it1 zt1 Hit1 Hzt1 Hf') as [bs2 [incs2 [bl2 [it2 [zt2 E2]]]]]. rewrite E2. cbn [obind].
    eexists; eexists; eexists; eexists; eexists. reflexivity.
Qed.

(* ---------- all bands, the header ---------- *)

Lemma ttinv_dims : forall te td t w h, TTInv te td t -> tt_w te = w -> tt_h te = h -> tree_dims w h te.
Proof. intros te td t w h [Hwf _] Hw Hh. split; [exact Hwf | split; assumption]. Qed.

Lemma enc_bands_ok : forall termAll L l ps ds, BandsRel termAll L l ps ds -> 0 <= l < L ->
  exists bs incs ps', enc_bands (map (fun p => prepare_band p l) ps) l = Ok (bs, incs, ps').
Proof.
  intros termAll L l ps ds HR Hl. induction HR as [|p d ps ds Hb HR IH|p ps ds He HR IH|d ps ds Hd Hwf HR IH].
  - cbn [map enc_bands]. eexists; eexists; eexists. reflexivity.
  - pose proof Hb as [[_ [_ [_ [_ [Hne [_ [_ [Hnd Hst]]]]]]]] _].
    destruct (band_core termAll L l p d ltac:(lia) Hb) as [it0 [zt0 [itd0 [ztd0 [sts0 [HC [Hprep _]]]]]]].
    destruct HC as [HTi [[tZ [HTz HtZ]] [Hwi [Hhi [Hwz [Hhz [_ Hbl]]]]]]].
    remember (ebn_blocks p) as bl eqn:Ebl.
    destruct (prepare_values_spec l (ebn_w p) (ebn_h p) bl it0 zt0 itd0 ztd0 tZ ltac:(lia)
                HTi HTz HtZ Hwi Hhi Hwz Hhz Hnd) as [HTi1 [HTz1 [Hgi1 [Hgz1 _]]]].
    { apply Forall_forall. intros b Hb'. rewrite Forall_forall in Hst, Hbl.
      destruct (Hst b Hb') as [Hg [Hz _]]. destruct (Hbl b Hb') as [_ Hp]. split; [exact Hg|]. split; [lia | exact Hp]. }
    cbn [map enc_bands]. rewrite Hprep. cbn [ebn_blocks ebn_with ebn_trees].
    destruct bl as [|b0 bl0]; [congruence|].
    destruct (prepare_values (b0 :: bl0) l it0 zt0) as [it1 zt1] eqn:Epv. cbn [fst snd] in *.
    assert (Hd1 : tree_dims (ebn_w p) (ebn_h p) it1).
    { apply (ttinv_dims it1 itd0 l); [exact HTi1| |]; destruct Hgi1 as [A [B _]]; congruence. }
    assert (Hd2 : tree_dims (ebn_w p) (ebn_h p) zt1).
    { apply (ttinv_dims zt1 ztd0 tZ); [exact HTz1| |]; destruct Hgz1 as [A [B _]]; congruence. }
    destruct (enc_blocks_ok termAll (ebn_w p) (ebn_h p) l (b0 :: bl0) it1 zt1 Hd1 Hd2) as [bs1 [incs1 [bl1 [it2 [zt2 E1]]]]].
    { apply Forall_forall. intros b Hb'. rewrite Forall_forall in Hst. destruct (Hst b Hb') as [Hg [_ Hok]].
      split; [exact Hg | apply Hok; lia]. }
    rewrite E1. cbn [obind].
    destruct IH as [bs2 [incs2 [ps2 E2]]]. rewrite E2. cbn [obind]. eexists; eexists; eexists. reflexivity.
  - cbn [map enc_bands]. rewrite (prepare_band_empty p l He). rewrite He.
    destruct IH as [bs2 [incs2 [ps2 E2]]]. rewrite E2. cbn [obind]. eexists; eexists; eexists. reflexivity.
  - exact IH.
Qed.

Lemma enc_header_ok : forall termAll L l ps ds, BandsRel termAll L l ps ds -> 0 <= l < L ->
  exists hdr incs ps', enc_header ps l = Ok (hdr, incs, ps').
Proof.
  intros termAll L l ps ds HR Hl. unfold enc_header, enc_header_bits.
  destruct (negb (has_code_blocks ps)); [cbn [obind]; eexists; eexists; eexists; reflexivity|].
  destruct (enc_bands_ok termAll L l ps ds HR Hl) as [bs [incs [ps' E]]]. rewrite E. cbn [obind].
  eexists; eexists; eexists. reflexivity.
Qed.

(* ---------- one cell step without the decoder's body loop ---------- *)

Section Tile.
Variables (termAll : bool) (L : Z) (geo : dgeo).

Lemma cell_step : forall l c r p cells store bands,
  0 <= l < L -> aget key3_eqb cells (c, r, p) = Some bands -> bands <> [] ->
  ids_ok r (map ebn_band bands) -> BandsRel termAll L l bands (cell_bands_d geo store (c, r, p)) ->
  exists hdr body incs bands' store',
    enc_packet bands l r = Ok (hdr, body, incs, bands') /\
    CellRel termAll L geo (l + 1) (c, r, p) (aset key3_eqb cells (c, r, p) bands') store' /\
    (forall k', k' <> (c, r, p) -> cell_bands_d geo store' k' = cell_bands_d geo store k') /\
    incs = exp_e l bands /\ (forall l', exp_e l' bands' = exp_e l' bands).
Proof.
  intros l c r p cells store bands Hl Hget Hne Hids HR.
  destruct (enc_header_ok termAll L l bands _ HR Hl) as [hdr [incs [upd Eh]]].
  pose proof (enc_header_ids _ _ _ _ _ Eh) as Hupd_ids.
  destruct (packet_header_roundtrip termAll L l bands _ hdr incs upd [] HR Hl Eh) as [ds' [Ep [Hincs [HR' Hexp]]]].
  pose proof (parse_header_static _ _ _ _ _ _ _ _ Ep) as Hst.
  set (kb := dec_band_states geo store c r p (band_order r)).
  exists hdr, (packet_body incs), incs, upd, (store_back store (map fst kb) ds').
  split.
  { unfold enc_packet. rewrite (order_bands_id r bands Hids), Eh. cbn [obind].
    rewrite (write_back_same_ids bands upd (ids_ok_nodup _ _ Hids) Hupd_ids). reflexivity. }
  split.
  { destruct (Z.eq_dec (l + 1) L) as [EL|NL]; [left; exact EL|].
    right. split; [lia|]. exists upd. rewrite aget3_aset_same. split; [reflexivity|].
    split; [intros E; rewrite E in Hupd_ids; destruct bands; [congruence | discriminate]|].
    split; [cbn [fst snd]; rewrite Hupd_ids; exact Hids|].
    unfold cell_bands_d, kb.
    rewrite (band_states_after geo c r p (band_order r) store ds' (band_order_nodup r) Hst). exact HR'. }
  split.
  { intros [[c' r'] p'] Hk'. unfold cell_bands_d, kb. f_equal.
    apply band_states_other; [exact Hk' | apply band_order_nodup|].
    apply forall2_len in Hst. unfold cell_bands_d in Hst. rewrite map_length in Hst. rewrite map_length.
    symmetry. exact Hst. }
  split; [exact Hincs | exact Hexp].
Qed.

Theorem enc_items_total : forall keys items cells0 cells store nxt,
  (forall k, In k keys -> CellRel termAll L geo (nxt k) k cells store) ->
  (forall k, In k keys -> exists b b0, aget key3_eqb cells k = Some b /\ aget key3_eqb cells0 k = Some b0 /\
                                       forall l', exp_e l' b = exp_e l' b0) ->
  Sched L keys nxt items ->
  exists eps cells', enc_items cells items = Ok (eps, cells') /\ Forall (incls_ok cells0) eps.
Proof.
  intros keys items. induction items as [|[[[l r] c] p] items IH]; intros cells0 cells store nxt Hcells Hst0 [Hin Hvis].
  - exists [], cells. split; [reflexivity | constructor].
  - set (k := (c, r, p)).
    assert (Hk : In k keys) by (apply (Hin (l, r, c, p)); left; reflexivity).
    pose proof (Hvis k Hk) as Hv. unfold visits in Hv. cbn [flat_map item_key item_layer] in Hv.
    fold k in Hv. rewrite key3_eqb_refl in Hv. cbn [app] in Hv. fold (visits k items) in Hv.
    destruct (Hcells k Hk) as [HnL | [Hn [bands [Hget [Hne [Hids HR]]]]]].
    { rewrite HnL, layers_from_end in Hv. discriminate. }
    rewrite (layers_from_cons _ _ Hn) in Hv.
    assert (l = nxt k /\ visits k items = layers_from L (nxt k + 1)) as [El Hv'] by (split; congruence).
    subst l.
    destruct (cell_step (nxt k) c r p cells store bands Hn Hget Hne Hids HR)
      as [hdr [body [incs [bands' [store' [Ep [HC' [Hoth [Hincs Hexp]]]]]]]]].
    set (nxt' := fun k' => if key3_eqb k' k then nxt k + 1 else nxt k').
    destruct (Hst0 k Hk) as [bb [bb0 [Gb [Gb0 Gexp]]]]. rewrite Hget in Gb. assert (bb = bands) by congruence. subst bb.
    destruct (IH cells0 (aset key3_eqb cells k bands') store' nxt') as [eps2 [cells2 [E2 Hok2]]].
    + intros k' Hk'. unfold nxt'. destruct (key3_eqb k' k) eqn:Ek.
      * apply key3_eqb_eq in Ek. subst k'. exact HC'.
      * assert (Hne' : k' <> k) by (intros ->; rewrite key3_eqb_refl in Ek; discriminate).
        destruct (Hcells k' Hk') as [HL | [Hn' [bands2 [G1 [G2 [G3 G4]]]]]]; [left; exact HL|].
        right. split; [exact Hn'|]. exists bands2.
        rewrite aget3_aset_other by (intros E; apply Hne'; symmetry; exact E).
        split; [exact G1|]. split; [exact G2|]. split; [exact G3|]. rewrite (Hoth k' Hne'). exact G4.
    + intros k' Hk'. destruct (key3_eqb k' k) eqn:Ek.
      * apply key3_eqb_eq in Ek. subst k'. exists bands', bb0. rewrite aget3_aset_same.
        split; [reflexivity|]. split; [exact Gb0|]. intros l'. rewrite Hexp. apply Gexp.
      * assert (Hne' : k' <> k) by (intros ->; rewrite key3_eqb_refl in Ek; discriminate).
        destruct (Hst0 k' Hk') as [b1 [b2 [G1 [G2 G3]]]]. exists b1, b2.
        rewrite aget3_aset_other by (intros E; apply Hne'; symmetry; exact E). repeat split; assumption.
    + split; [intros it Hit; apply Hin; right; exact Hit|].
      intros k' Hk'. unfold nxt'. destruct (key3_eqb k' k) eqn:Ek.
      * apply key3_eqb_eq in Ek. subst k'. exact Hv'.
      * pose proof (Hvis k' Hk') as Hv2. unfold visits in Hv2. cbn [flat_map item_key item_layer] in Hv2.
        fold k in Hv2. assert (Ek' : key3_eqb k k' = false).
        { destruct (key3_eqb k k') eqn:E; [|reflexivity]. apply key3_eqb_eq in E. subst k'. rewrite key3_eqb_refl in Ek. discriminate. }
        rewrite Ek' in Hv2. cbn [app] in Hv2. exact Hv2.
    + eexists; eexists. split.
      { cbn [enc_items]. fold k. rewrite Hget. destruct bands as [|b0 bl0]; [congruence|].
        rewrite Ep. cbn [obind]. rewrite E2. cbn [obind fst snd]. reflexivity. }
      constructor; [|exact Hok2].
      unfold incls_ok. cbn [ep_item ep_incls item_key item_layer]. exists bb0. split; [exact Gb0|].
      rewrite Hincs. apply Gexp.
Qed.

End Tile.

(* ---------- EncodePackets ---------- *)

Section Deliver.
Variables (termAll : bool) (style : Z) (nl nr nc order : Z) (g : pgeom) (pidx : Z -> Z -> list Z)
          (geo : dgeo) (cells0 : ecells).
Hypothesis G1 : termAll = negb (Z.land style 4 =? 0).
Hypothesis G2 : forall c r, enc_pidx cells0 c r = pidx c r.
Hypothesis G2' : forall c r, NoDup (pidx c r).
Hypothesis G3 : 2 <= order -> pk_ok nr nc pidx (precinct_position_key g nr).
Hypothesis G4 : forall k, In k (cell_keys nr nc pidx) -> CellRel termAll nl geo 0 k cells0 [].
Hypothesis Ho : 0 <= order <= 4.
Hypothesis Hnl : 0 < nl.

Theorem packets_encode_total :
  exists eps cells', enc_packets order nl nr nc g cells0 = Ok (eps, cells') /\ Forall (incls_ok cells0) eps.
Proof.
  destruct (prog_seq_sched nl nr nc pidx (precinct_position_key g nr) G2' order Ho G3) as [items [Eseq Hsched]].
  unfold enc_packets. rewrite (prog_seq_ext order nl nr nc _ pidx _ G2), Eseq.
  apply (enc_items_total termAll nl geo (cell_keys nr nc pidx) items cells0 cells0 [] (fun _ => 0) G4); [|exact Hsched].
  intros k Hk. destruct (G4 k Hk) as [E|[Hn [bands [Hget _]]]]; [lia|].
  exists bands, bands. split; [exact Hget|]. split; [exact Hget | reflexivity].
Qed.

End Deliver.
