(* C04 (t2): packet headers round trip.  Part 1: one code-block of one packet header
   (encodePacketHeaderCodeBlock / writeInclusionAndZBP against the per-position body of
   parsePacketHeaderMulti), with the persistent state of both sides. *)
From V Require Import Common.Base Framing.FrmWriters T2.T2Bio T2.T2TagTree T2.T2Header J2KGeo.GeoLayers
  T2.T2ProofsBio T2.T2ProofsCodes T2.T2ProofsStore T2.T2ProofsTagTree T2.T2ProofsTagTree2 T2.T2ProofsSafe.

(* ---------- what a block contributes to layer l (read off the encoder's fields) ---------- *)

Definition contrib (b : eblock) (l : Z) : bool * Z * list Z :=
  layer_contribution (eb_ld b) (eb_lp b) (eb_data b) (eb_npt b) l.
Definition b_inc (b : eblock) (l : Z) : bool := fst (fst (contrib b l)).
Definition b_np (b : eblock) (l : Z) : Z := snd (fst (contrib b l)).
Definition b_data (b : eblock) (l : Z) : list Z := snd (contrib b l).
Definition b_prev (b : eblock) (l : Z) : Z :=
  fst (prev_and_total_passes false (eb_lp b) (eb_npt b) l (b_np b l)).
Definition b_total (b : eblock) (l : Z) : Z :=
  snd (prev_and_total_passes false (eb_lp b) (eb_npt b) l (b_np b l)).
Definition b_termall (b : eblock) (l : Z) : bool :=
  eb_termall b && negb (match block_pass_lens b with None => true | Some pl => b_total b l >? zlen pl end).

(* the contribution of block b to layer l is inside the domain of the codes, the header
   announces the length of the data that goes into the body, and the decoder's TERMALL switch
   (from the COD style byte) agrees with the encoder's *)
Definition block_layer_ok (termAll : bool) (b : eblock) (l : Z) : Prop :=
  b_inc b l = true ->
    lengths_domain (zlen (b_data b l)) (b_prev b l) (b_np b l) (b_termall b l) (block_pass_lens b) (block_terms b) /\
    announced (zlen (b_data b l)) (b_prev b l) (b_np b l) (block_pass_lens b) = zlen (b_data b l) /\
    b_termall b l = termAll.

Definition same_static (b b' : eblock) : Prop := b' = eb_with b (eb_included b') (eb_nlb b').

(* encoder block state vs decoder CodeBlockState *)
Definition BlkRel (b : eblock) (st : dblock) : Prop :=
  db_included st = eb_included b /\ norm_nlb (db_nlb st) = norm_nlb (eb_nlb b) /\
  1 <= norm_nlb (eb_nlb b) <= 25 /\
  (eb_included b = true -> db_zbp st = eb_zbp b) /\
  (eb_included b = false -> norm_nlb (eb_nlb b) = 3).

(* what both sides must report for block b in layer l *)
Definition expect_eincl (b : eblock) (l : Z) : eincl :=
  if b_inc b l then {| ei_included := true; ei_np := b_np b l; ei_len := zlen (b_data b l); ei_data := b_data b l |}
  else eincl_skip false.

Definition expect_pls (termAll : bool) (b : eblock) (l : Z) : list Z :=
  if termAll then match block_pass_lens b with Some pl => seg_slice pl (b_prev b l) (b_np b l) | None => [] end
  else [].

Definition expect_dincl (termAll : bool) (b : eblock) (l : Z) : dincl :=
  if b_inc b l then
    {| di_included := true; di_first := negb (eb_included b); di_np := b_np b l; di_len := zlen (b_data b l);
       di_zbp := eb_zbp b; di_pl := expect_pls termAll b l;
       di_termall := if 0 <? zlen (expect_pls termAll b l) then termAll else false |}
  else dincl_skip.

(* ---------- the tail: number of passes and lengths ---------- *)

Lemma cont_sync : forall termAll b l nlbE bs3 bs4 nlbE' st1 first zbp it1 zt1 rest r more,
  block_layer_ok termAll b l -> b_inc b l = true ->
  enc_numpasses (b_np b l) = Ok bs3 ->
  enc_lengths nlbE (zlen (b_data b l)) (b_prev b l) (b_np b l) (b_termall b l) (block_pass_lens b)
              (block_terms b) = Ok (bs4, nlbE') ->
  norm_nlb nlbE = norm_nlb (db_nlb st1) -> 1 <= norm_nlb nlbE <= 25 ->
  BitsAt rest r ((bs3 ++ bs4) ++ more) ->
  exists r',
    dec_block_cont termAll r st1 first zbp it1 zt1 =
      Ok ({| di_included := true; di_first := first; di_np := b_np b l; di_len := zlen (b_data b l);
             di_zbp := zbp; di_pl := expect_pls termAll b l;
             di_termall := if 0 <? zlen (expect_pls termAll b l) then termAll else false |},
          db_set st1 (db_included st1) (db_first st1) (db_zbp st1) (db_passes st1 + b_np b l) nlbE',
          it1, zt1, r') /\
    BitsAt rest r' more /\ 1 <= nlbE' <= 25 /\ norm_nlb nlbE' = nlbE'.
Proof.
  intros termAll b l nlbE bs3 bs4 nlbE' st1 first zbp it1 zt1 rest r more Hok Hinc Hnp Hlen Hnorm Hnlb HB.
  destruct (Hok Hinc) as [Hdom [Hann Hta]]. rewrite Hta in *.
  pose proof Hdom as [Hnpr _].
  rewrite <- app_assoc in HB.
  destruct (numpasses_code_exhaustive (b_np b l) bs3 rest r (bs4 ++ more) Hnpr Hnp HB) as [r1 [E1 HB1]].
  destruct (lblock_roundtrip nlbE (db_nlb st1) _ _ _ _ _ _ bs4 nlbE' rest r1 more Hdom Hnorm Hnlb Hlen HB1)
    as [pls [r2 [E2 [HB2 [Hb [Hn' [Hpt Hpf]]]]]]].
  exists r2. split; [|split; [exact HB2 | split; assumption]].
  unfold dec_block_cont. rewrite E1. cbn [obind fst snd]. rewrite E2. cbn [obind]. rewrite Hann.
  assert (Hpls : pls = expect_pls termAll b l).
  { unfold expect_pls. destruct termAll; [apply Hpt; reflexivity | apply Hpf; reflexivity]. }
  rewrite Hpls. reflexivity.
Qed.

Lemma TTInv_weaken : forall te td t t', TTInv te td t -> t <= t' -> TTInv te td t'.
Proof.
  intros te td t t' [A [B [C [D E]]]] Ht. unfold TTInv.
  split; [exact A|]. split; [exact B|]. split; [lia|]. split; [|exact E].
  intros id Hv. destruct (D id Hv) as [D1 [D2 [D3 D4]]].
  split; [exact D1|]. split; [exact D2|]. split; [lia | exact D4].
Qed.

(* ---------- one block ---------- *)

Definition leaf_of (t : ttree) (b : eblock) : Z * Z := (0, eb_cby b * tt_w t + eb_cbx b).

Lemma block_sync : forall termAll it zt itd ztd b st l tI tZ bs ei b' it' zt' rest r more,
  0 <= eb_zbp b < 32 -> block_layer_ok termAll b l ->
  TTInv it itd tI -> TTInv zt ztd tZ ->
  tt_in_range it (eb_cbx b) (eb_cby b) = true -> tt_in_range zt (eb_cbx b) (eb_cby b) = true ->
  (eb_included b = false ->
     nu it (leaf_of it b) = negb (b_inc b l) /\ (b_inc b l = true -> nv it (leaf_of it b) = l) /\
     nu zt (leaf_of zt b) = false /\ nv zt (leaf_of zt b) = eb_zbp b) ->
  BlkRel b st ->
  enc_block it zt b l = Ok (bs, ei, b', it', zt') -> BitsAt rest r (bs ++ more) ->
  exists st' itd' ztd' r',
    dec_block r itd ztd st (eb_cbx b) (eb_cby b) l termAll = Ok (expect_dincl termAll b l, st', itd', ztd', r') /\
    BitsAt rest r' more /\ ei = expect_eincl b l /\
    TTInv it' itd' (Z.max tI (l + 1)) /\ (exists tZ', TTInv zt' ztd' tZ') /\
    tt_nodes it' = tt_nodes it /\ tt_nodes zt' = tt_nodes zt /\
    tt_unset it' = tt_unset it /\ tt_unset zt' = tt_unset zt /\ same_geom it it' /\ same_geom zt zt' /\
    BlkRel b' st' /\ same_static b b' /\ eb_included b' = eb_included b || b_inc b l.
Proof.
  intros termAll it zt itd ztd b st l tI tZ bs ei b' it' zt' rest r more
         Hz Hok HTi HTz Hri Hrz Hleaf HR He HB.
  pose proof HR as [R1 [R2 [R3 [R4 R5]]]].
  unfold enc_block in He. fold (contrib b l) in He.
  destruct (contrib b l) as [[inc np] data] eqn:Ec.
  assert (Einc : b_inc b l = inc) by (unfold b_inc; rewrite Ec; reflexivity).
  assert (Enp : b_np b l = np) by (unfold b_np; rewrite Ec; reflexivity).
  assert (Edata : b_data b l = data) by (unfold b_data; rewrite Ec; reflexivity).
  rewrite dec_block_unfold. rewrite R1.
  assert (Hgs_i : same_shapes it) by (apply wf_same_shapes; apply HTi).
  assert (Hgs_z : same_shapes zt) by (apply wf_same_shapes; apply HTz).
  destruct (eb_included b) eqn:Eincl; cbn [negb] in He |- *.
  - (* already included in an earlier layer: one bit *)
    destruct inc.
    + (* contributes *)
      destruct (enc_numpasses np) as [bs3| | |] eqn:E3; cbn [obind] in He; try discriminate.
      fold (b_prev b l) (b_total b l) in He.
      destruct (prev_and_total_passes false (eb_lp b) (eb_npt b) l np) as [prev total] eqn:Ept.
      assert (Eprev : b_prev b l = prev) by (unfold b_prev; rewrite Enp, Ept; reflexivity).
      assert (Etotal : b_total b l = total) by (unfold b_total; rewrite Enp, Ept; reflexivity).
      assert (Eta : b_termall b l = eb_termall b && negb (match block_pass_lens b with None => true | Some l0 => total >? zlen l0 end))
        by (unfold b_termall; rewrite Etotal; reflexivity).
      rewrite <- Eta in He.
      destruct (enc_lengths (eb_nlb b) (zlen data) prev np (b_termall b l) (block_pass_lens b) (block_terms b))
        as [[bs4 nlb']| | |] eqn:E4; cbn [obind] in He; try discriminate.
      apply ok_inj in He. cbn [fst snd] in He.
      assert (bs = [1] ++ bs3 ++ bs4 /\ ei = {| ei_included := true; ei_np := np; ei_len := zlen data; ei_data := data |}
              /\ b' = eb_with b (eb_included b) nlb' /\ it' = it /\ zt' = zt) as [-> [-> [-> [-> ->]]]]
        by (repeat split; congruence).
      cbn [app] in HB. destruct (bitsat_step _ _ _ _ HB) as [r1 [Eb HB1]].
      rewrite Eb. cbn [obind fst snd]. change (1 =? 1) with true. cbn [negb].
      rewrite <- Enp, <- Edata, <- Eprev in E4. rewrite <- Enp in E3.
      destruct (cont_sync termAll b l (eb_nlb b) bs3 bs4 nlb' st false (db_zbp st) itd ztd rest r1 more
                  Hok Einc E3 E4 (eq_sym R2) R3 HB1) as [r2 [Ec2 [HB2 [Hb2 Hn2]]]].
      exists (db_set st (db_included st) (db_first st) (db_zbp st) (db_passes st + b_np b l) nlb'), itd, ztd, r2.
      split.
      { rewrite Ec2. unfold expect_dincl. rewrite Einc, Eincl, (R4 eq_refl). reflexivity. }
      split; [exact HB2|]. split; [unfold expect_eincl; rewrite Einc, Enp, Edata; reflexivity|].
      split; [apply (TTInv_weaken it itd tI); [exact HTi | lia]|].
      split; [exists tZ; exact HTz|]. split; [reflexivity|]. split; [reflexivity|].
      split; [reflexivity|]. split; [reflexivity|].
      split; [apply same_geom_refl; exact Hgs_i|]. split; [apply same_geom_refl; exact Hgs_z|].
      split.
      { unfold BlkRel, db_set, eb_with. cbn [db_included db_nlb db_zbp eb_included eb_nlb eb_zbp].
        rewrite R1, Eincl. split; [reflexivity|]. split; [reflexivity|]. split; [rewrite Hn2; exact Hb2|].
        split; [intros _; apply R4; reflexivity | discriminate]. }
      split; [unfold same_static, eb_with; cbn; reflexivity|].
      unfold eb_with. cbn [eb_included]. rewrite Eincl. reflexivity.
    + (* nothing in this layer *)
      apply ok_inj in He.
      assert (bs = [0] /\ ei = eincl_skip false /\ b' = b /\ it' = it /\ zt' = zt) as [-> [-> [-> [-> ->]]]]
        by (repeat split; congruence).
      cbn [app] in HB. destruct (bitsat_step _ _ _ _ HB) as [r1 [Eb HB1]].
      rewrite Eb. cbn [obind fst snd]. change (0 =? 1) with false. cbn [negb].
      exists st, itd, ztd, r1.
      split; [unfold expect_dincl; rewrite Einc; reflexivity|]. split; [exact HB1|].
      split; [unfold expect_eincl; rewrite Einc; reflexivity|].
      split; [apply (TTInv_weaken it itd tI); [exact HTi | lia]|].
      split; [exists tZ; exact HTz|]. split; [reflexivity|]. split; [reflexivity|].
      split; [reflexivity|]. split; [reflexivity|].
      split; [apply same_geom_refl; exact Hgs_i|]. split; [apply same_geom_refl; exact Hgs_z|].
      split; [exact HR|].
      split; [unfold same_static, eb_with; destruct b; reflexivity|].
      rewrite Eincl. reflexivity.
  - (* not yet included: inclusion tag tree with threshold layer+1 *)
    destruct (Hleaf eq_refl) as [Hlu [Hli [Hlzu Hlz]]]. rewrite Einc in Hlu, Hli.
    destruct (tt_encode it (eb_cbx b) (eb_cby b) (l + 1)) as [[bs1 it1]| | |] eqn:E1; cbn [obind] in He; try discriminate.
    cbn [fst snd] in He.
    assert (HB0 : BitsAt rest r (bs1 ++ (match inc with true => skipn (length bs1) bs | false => [] end) ++ more) /\ True).
    { split; [|exact I]. destruct inc.
      - assert (Hpre : exists tl, bs = bs1 ++ tl).
        { destruct (tt_encode zt (eb_cbx b) (eb_cby b) 999) as [[bs2 zt1]| | |]; cbn [obind] in He; try discriminate.
          cbn [fst snd] in He. destruct (enc_numpasses np) as [bs3| | |]; cbn [obind] in He; try discriminate.
          destruct (prev_and_total_passes false _ _ l np) as [prev total].
          destruct (enc_lengths _ _ _ _ _ _ _) as [[bs4 nlb']| | |]; cbn [obind] in He; try discriminate.
          apply ok_inj in He. exists (bs2 ++ bs3 ++ bs4).
          assert (Hbs : bs = (bs1 ++ bs2) ++ bs3 ++ fst (bs4, nlb')) by congruence.
          rewrite Hbs. cbn [fst]. rewrite <- app_assoc. reflexivity. }
        destruct Hpre as [tl ->]. rewrite skipn_app, skipn_all, Nat.sub_diag. cbn [skipn app].
        rewrite <- app_assoc in HB. exact HB.
      - cbn [negb] in He. apply ok_inj in He. assert (bs = bs1) by congruence. subst bs. cbn [app]. exact HB. }
    destruct HB0 as [HB0 _].
    destruct (tt_query_sync it itd tI (eb_cbx b) (eb_cby b) (l + 1) (l + 1) bs1 it1 rest r _ HTi Hri
                ltac:(left; reflexivity) E1 HB0)
      as [res [itd1 [r1 [Ed1 [HB1 [HTi1 [Hn1 [Hu1 [Hg1 [Hres [Hres' [Hk1 Hk1']]]]]]]]]]]].
    fold (leaf_of it b) in Hres, Hres', Hk1, Hk1'.
    unfold tt_decode_inclusion. rewrite Ed1. cbn [obind].
    destruct inc; cbn [negb] in He.
    + (* first inclusion *)
      cbn [negb] in Hlu. specialize (Hli eq_refl).
      assert (Hkn : nk it1 (leaf_of it b) = true) by (apply Hk1; [exact Hlu | lia]).
      rewrite (Hres Hkn), Hli.
      destruct (Z.gtb_spec l l); [lia|]. cbn [obind negb].
      destruct (tt_encode zt (eb_cbx b) (eb_cby b) 999) as [[bs2 zt1]| | |] eqn:E2; cbn [obind] in He; try discriminate.
      cbn [fst snd] in He.
      destruct (enc_numpasses np) as [bs3| | |] eqn:E3; cbn [obind] in He; try discriminate.
      change (eb_lp (eb_with b true (eb_nlb b))) with (eb_lp b) in He.
      change (eb_npt (eb_with b true (eb_nlb b))) with (eb_npt b) in He.
      change (block_pass_lens (eb_with b true (eb_nlb b))) with (block_pass_lens b) in He.
      change (block_terms (eb_with b true (eb_nlb b))) with (block_terms b) in He.
      change (eb_termall (eb_with b true (eb_nlb b))) with (eb_termall b) in He.
      change (eb_nlb (eb_with b true (eb_nlb b))) with (eb_nlb b) in He.
      destruct (prev_and_total_passes false (eb_lp b) (eb_npt b) l np) as [prev total] eqn:Ept.
      assert (Eprev : b_prev b l = prev) by (unfold b_prev; rewrite Enp, Ept; reflexivity).
      assert (Etotal : b_total b l = total) by (unfold b_total; rewrite Enp, Ept; reflexivity).
      assert (Eta : b_termall b l = eb_termall b && negb (match block_pass_lens b with None => true | Some l0 => total >? zlen l0 end))
        by (unfold b_termall; rewrite Etotal; reflexivity).
      rewrite <- Eta in He.
      destruct (enc_lengths (eb_nlb b) (zlen data) prev np (b_termall b l) (block_pass_lens b) (block_terms b))
        as [[bs4 nlb']| | |] eqn:E4; cbn [obind] in He; try discriminate.
      apply ok_inj in He. cbn [fst snd] in He.
      change (eb_included (eb_with b true (eb_nlb b))) with true in He.
      assert (bs = (bs1 ++ bs2) ++ bs3 ++ bs4 /\
              ei = {| ei_included := true; ei_np := np; ei_len := zlen data; ei_data := data |} /\
              b' = eb_with (eb_with b true (eb_nlb b)) true nlb' /\ it' = it1 /\ zt' = zt1)
        as [Hbs [-> [-> [-> ->]]]] by (repeat split; congruence).
      rewrite Hbs in HB1. rewrite <- !app_assoc in HB1. rewrite skipn_app, skipn_all, Nat.sub_diag in HB1.
      cbn [skipn app] in HB1. rewrite <- app_assoc in HB1.
      destruct (tt_query_sync zt ztd tZ (eb_cbx b) (eb_cby b) 999 32 bs2 zt1 rest r1 _ HTz Hrz
                  ltac:(right; fold (leaf_of zt b); rewrite Hlz; split; [exact Hlzu | lia]) E2 HB1)
        as [res2 [ztd1 [r2 [Ed2 [HB2 [HTz1 [Hn2 [Hu2 [Hg2 [Hres2 [_ [Hk2 _]]]]]]]]]]]].
      fold (leaf_of zt b) in Hres2, Hk2. rewrite Hlz in Hres2, Hk2.
      assert (Hkn2 : nk zt1 (leaf_of zt b) = true) by (apply Hk2; [exact Hlzu | lia]).
      rewrite (Hres2 Hkn2) in Ed2.
      unfold tt_decode_zbp. rewrite Ed2. cbn [obind].
      rewrite <- Enp, <- Edata, <- Eprev in E4. rewrite <- Enp in E3.
      set (st1 := db_set st true l (eb_zbp b) (db_passes st) 3).
      destruct (cont_sync termAll b l (eb_nlb b) bs3 bs4 nlb' st1 true (eb_zbp b) itd1 ztd1 rest r2 more
                  Hok Einc E3 E4 ltac:(unfold st1, db_set; cbn [db_nlb]; rewrite (R5 eq_refl); reflexivity) R3 HB2)
        as [r3 [Ec3 [HB3 [Hb3 Hn3]]]].
      exists (db_set st1 (db_included st1) (db_first st1) (db_zbp st1) (db_passes st1 + b_np b l) nlb'), itd1, ztd1, r3.
      split.
      { rewrite Ec3. unfold expect_dincl. rewrite Einc, Eincl. reflexivity. }
      split; [exact HB3|]. split; [unfold expect_eincl; rewrite Einc, Enp, Edata; reflexivity|].
      split; [exact HTi1|]. split; [eexists; exact HTz1|]. split; [exact Hn1|]. split; [exact Hn2|].
      split; [exact Hu1|]. split; [exact Hu2|].
      split; [exact Hg1|]. split; [exact Hg2|].
      split.
      { unfold BlkRel, st1, db_set, eb_with. cbn [db_included db_nlb db_zbp eb_included eb_nlb eb_zbp].
        split; [reflexivity|]. split; [reflexivity|]. split; [rewrite Hn3; exact Hb3|].
        split; [intros _; reflexivity | discriminate]. }
      split; [unfold same_static, eb_with; cbn; reflexivity|].
      unfold eb_with. cbn [eb_included]. rewrite Einc. reflexivity.
    + (* still not included *)
      cbn [negb] in Hlu.
      assert (Hkn : nk it1 (leaf_of it b) = false).
      { destruct (nk it1 (leaf_of it b)) eqn:Ek; [|reflexivity]. specialize (Hk1' eq_refl). congruence. }
      specialize (Hres' Hkn).
      destruct (Z.gtb_spec res l); [|lia]. cbn [obind negb].
      apply ok_inj in He.
      assert (bs = bs1 /\ ei = eincl_skip false /\ b' = b /\ it' = it1 /\ zt' = zt) as [-> [-> [-> [-> ->]]]]
        by (repeat split; congruence).
      cbn [app] in HB1.
      exists st, itd1, ztd, r1.
      split; [unfold expect_dincl; rewrite Einc; reflexivity|]. split; [exact HB1|].
      split; [unfold expect_eincl; rewrite Einc; reflexivity|].
      split; [exact HTi1|]. split; [exists tZ; exact HTz|]. split; [exact Hn1|]. split; [reflexivity|].
      split; [exact Hu1|]. split; [reflexivity|].
      split; [exact Hg1|]. split; [apply same_geom_refl; exact Hgs_z|].
      split; [exact HR|].
      split; [unfold same_static, eb_with; destruct b; reflexivity|].
      rewrite Eincl, Einc. reflexivity.
Qed.
