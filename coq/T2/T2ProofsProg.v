(* C04 (t2): the five progression orders.  Encoder (encodeLRCP .. encodeCPRL) and decoder
   (decodeLRCP .. decodeCPRL) run the same loop nests over the same position maps
   (buildPositionMaps, shared code) - in the model both call prog_seq; with equal inputs
   (counts, precinct index sets, bounds, sampling, precinct sizes) the sequences are equal.
   prog_seq_sched: for every order 0..4 the sequence visits every cell (component, resolution,
   precinct index) with its layers 0 .. nl-1 in increasing order, exactly once each - provided
   (orders 2..4) every precinct index of a (component, resolution) has a position key and
   different indices have different keys.  With one precinct per resolution (index 0 only) the
   proviso holds whenever the key exists (prog_single). *)
From V Require Import Common.Base T2.T2Header T2.T2Packets T2.T2ProofsPackets1 T2.T2ProofsPackets2.

(* ---------- small list facts ---------- *)

Lemma in_zseq : forall n x, In x (zseq n) <-> 0 <= x < n.
Proof.
  intros n x. unfold zseq. rewrite in_map_iff. split.
  - intros [k [<- Hk]]. apply in_seq in Hk. lia.
  - intros H. exists (Z.to_nat x). split; [lia | apply in_seq; lia].
Qed.

Lemma nodup_zseq : forall n, NoDup (zseq n).
Proof.
  intros n. unfold zseq. generalize (seq_NoDup (Z.to_nat n) 0). generalize (seq 0 (Z.to_nat n)).
  induction l as [|a l IH]; intros H; cbn [map]; constructor.
  - apply NoDup_cons_iff in H as [Hn _]. intros Hin. apply in_map_iff in Hin as [b [E Hb]].
    assert (b = a) by lia. subst. contradiction.
  - apply IH. apply NoDup_cons_iff in H. tauto.
Qed.

Lemma flat_map_nil_all : forall {A B} (f : A -> list B) l, (forall x, In x l -> f x = []) -> flat_map f l = [].
Proof.
  intros A B f l H. induction l as [|a l IH]; [reflexivity|]. cbn [flat_map].
  rewrite (H a ltac:(left; reflexivity)), IH; [reflexivity|]. intros x Hx. apply H. right. exact Hx.
Qed.

Lemma flat_map_single : forall {A B} (f : A -> list B) l x0, NoDup l -> In x0 l ->
  (forall x, In x l -> x <> x0 -> f x = []) -> flat_map f l = f x0.
Proof.
  intros A B f l x0 Hnd Hin Hoth. induction l as [|a l IH]; [contradiction|].
  apply NoDup_cons_iff in Hnd as [Hnotin Hnd]. cbn [flat_map]. destruct Hin as [->|Hin].
  - rewrite flat_map_nil_all; [apply app_nil_r|]. intros x Hx. apply Hoth; [right; exact Hx|].
    intros ->. contradiction.
  - rewrite (Hoth a ltac:(left; reflexivity) ltac:(intros ->; contradiction)). cbn [app].
    apply IH; [exact Hnd | exact Hin|]. intros x Hx. apply Hoth. right. exact Hx.
Qed.

Lemma map_as_flat_map : forall {A B} (f : A -> B) l, map f l = flat_map (fun x => [f x]) l.
Proof. intros A B f l. induction l as [|a l IH]; [reflexivity|]. cbn [map flat_map app]. rewrite IH. reflexivity. Qed.

(* ---------- sorted position sets ---------- *)

Lemma pos_lt_trans : forall a b c, pos_lt a b = true -> pos_lt b c = true -> pos_lt a c = true.
Proof.
  intros [ax ay] [bx by_] [cx cy]. unfold pos_lt. cbn [fst snd].
  destruct (Z.eqb_spec ay by_); destruct (Z.eqb_spec by_ cy); destruct (Z.eqb_spec ay cy);
    rewrite ?Z.ltb_lt; lia.
Qed.

Lemma pos_lt_irrefl : forall a, pos_lt a a = false.
Proof. intros [ax ay]. unfold pos_lt. cbn [fst snd]. rewrite Z.eqb_refl. apply Z.ltb_irrefl. Qed.

Lemma pos_eqb_eq : forall a b, pos_eqb a b = true -> a = b.
Proof.
  intros [ax ay] [bx by_] H. unfold pos_eqb in H. cbn [fst snd] in H. apply andb_prop in H as [H1 H2].
  apply Z.eqb_eq in H1, H2. congruence.
Qed.

Lemma pos_eqb_refl : forall a, pos_eqb a a = true.
Proof. intros [ax ay]. unfold pos_eqb. cbn. rewrite !Z.eqb_refl. reflexivity. Qed.

Lemma pos_tri : forall a b, pos_lt a b = false -> pos_eqb a b = false -> pos_lt b a = true.
Proof.
  intros [ax ay] [bx by_]. unfold pos_lt, pos_eqb. cbn [fst snd].
  destruct (Z.eqb_spec ay by_); destruct (Z.eqb_spec by_ ay); destruct (Z.eqb_spec ax bx); cbn [andb];
    rewrite ?Z.ltb_lt, ?Z.ltb_ge; try lia; try discriminate.
Qed.

Fixpoint ssorted (l : list (Z * Z)) : Prop :=
  match l with
  | [] => True
  | a :: r => (forall b, In b r -> pos_lt a b = true) /\ ssorted r
  end.

Lemma pos_insert_in : forall x l y, In y (pos_insert x l) <-> y = x \/ In y l.
Proof.
  intros x l y. induction l as [|a l IH]; cbn [pos_insert].
  - cbn. intuition.
  - destruct (pos_lt a x).
    + cbn [In]. rewrite IH. intuition.
    + destruct (pos_eqb a x) eqn:E.
      * apply pos_eqb_eq in E. subst a. cbn [In]. intuition.
      * cbn [In]. intuition.
Qed.

Lemma pos_insert_sorted : forall x l, ssorted l -> ssorted (pos_insert x l).
Proof.
  intros x l. induction l as [|a l IH]; intros Hs; cbn [pos_insert].
  - cbn. split; [intros b [] | exact I].
  - destruct Hs as [Ha Hs]. destruct (pos_lt a x) eqn:E1.
    + cbn [ssorted]. split; [|apply IH; exact Hs].
      intros b Hb. apply pos_insert_in in Hb as [->|Hb]; [exact E1 | apply Ha; exact Hb].
    + destruct (pos_eqb a x) eqn:E2; [cbn [ssorted]; split; assumption|].
      pose proof (pos_tri a x E1 E2) as Hxa.
      cbn [ssorted]. split; [|split; assumption].
      intros b [<-|Hb]; [exact Hxa | apply (pos_lt_trans x a b Hxa (Ha b Hb))].
Qed.

Lemma pos_sort_set_in : forall l y, In y (pos_sort_set l) <-> In y l.
Proof.
  intros l y. unfold pos_sort_set. induction l as [|a l IH]; cbn [fold_right]; [tauto|].
  rewrite pos_insert_in, IH. cbn [In]. intuition.
Qed.

Lemma pos_sort_set_sorted : forall l, ssorted (pos_sort_set l).
Proof.
  intros l. unfold pos_sort_set. induction l as [|a l IH]; cbn [fold_right]; [exact I|].
  apply pos_insert_sorted. exact IH.
Qed.

Lemma ssorted_nodup : forall l, ssorted l -> NoDup l.
Proof.
  induction l as [|a l IH]; intros H; [constructor|]. destruct H as [Ha Hs]. constructor; [|apply IH; exact Hs].
  intros Hin. specialize (Ha a Hin). rewrite pos_lt_irrefl in Ha. discriminate.
Qed.

(* ---------- the position maps ---------- *)

Section Prog.
Variables (nl nr nc : Z) (pidx : Z -> Z -> list Z) (pk : Z -> Z -> Z -> option (Z * Z)).
Hypothesis Hnd : forall c r, NoDup (pidx c r).

(* every precinct index has a key, and the key determines the index *)
Definition pk_ok : Prop :=
  forall c r p, 0 <= c < nc -> 0 <= r < nr -> In p (pidx c r) ->
    exists pos, pk c r p = Some pos /\ forall p', In p' (pidx c r) -> pk c r p' = Some pos -> p' = p.

Lemma lookup_fold_none : forall c r pos l acc,
  (forall p, In p l -> pk c r p <> Some pos) ->
  fold_left (fun acc idx => match pk c r idx with
                            | Some q => if pos_eqb q pos then Some idx else acc
                            | None => acc end) l acc = acc.
Proof.
  intros c r pos l. induction l as [|a l IH]; intros acc H; [reflexivity|]. cbn [fold_left].
  rewrite IH by (intros p Hp; apply H; right; exact Hp).
  destruct (pk c r a) as [q|] eqn:E; [|reflexivity].
  destruct (pos_eqb q pos) eqn:E2; [|reflexivity]. apply pos_eqb_eq in E2. subst q.
  exfalso. apply (H a ltac:(left; reflexivity)). exact E.
Qed.

Lemma lookup_pos_found : forall c r pos p, In p (pidx c r) -> pk c r p = Some pos ->
  (forall p', In p' (pidx c r) -> pk c r p' = Some pos -> p' = p) ->
  lookup_pos pk pidx c r pos = Some p.
Proof.
  intros c r pos p Hin Hp Huniq. unfold lookup_pos.
  pose proof (Hnd c r) as Hn. revert Hin Huniq Hn. generalize (pidx c r) as l. intros l.
  generalize (@None Z) as acc. induction l as [|a l IH]; intros acc Hin Huniq Hn; [contradiction|].
  apply NoDup_cons_iff in Hn as [Hnotin Hn]. cbn [fold_left]. destruct Hin as [->|Hin].
  - rewrite Hp, pos_eqb_refl. apply lookup_fold_none.
    intros p' Hp' E. assert (p' = p) by (apply Huniq; [right; exact Hp' | exact E]). subst p'. contradiction.
  - apply IH; [exact Hin | intros p' Hp'; apply Huniq; right; exact Hp' | exact Hn].
Qed.

Lemma lookup_pos_sound : forall c r pos p, lookup_pos pk pidx c r pos = Some p ->
  In p (pidx c r) /\ pk c r p = Some pos.
Proof.
  intros c r pos p. unfold lookup_pos.
  assert (G : forall l acc, fold_left (fun acc idx => match pk c r idx with
                              | Some q => if pos_eqb q pos then Some idx else acc | None => acc end) l acc = Some p ->
              (In p l /\ pk c r p = Some pos) \/ acc = Some p).
  { induction l as [|a l IH]; intros acc H; [right; exact H|]. cbn [fold_left] in H.
    destruct (IH _ H) as [[A B]|A]; [left; split; [right; exact A | exact B]|].
    destruct (pk c r a) as [q|] eqn:E; [|right; exact A].
    destruct (pos_eqb q pos) eqn:E2; [|right; exact A].
    apply pos_eqb_eq in E2. subst q. left. assert (a = p) by congruence. subst a. split; [left; reflexivity | exact E]. }
  intros H. destruct (G _ _ H) as [A|A]; [exact A | discriminate].
Qed.

Definition cell_keys : list key3 :=
  flat_map (fun c => flat_map (fun r => map (fun p => (c, r, p)) (pidx c r)) (zseq nr)) (zseq nc).

Lemma in_cell_keys : forall c r p, In (c, r, p) cell_keys <-> 0 <= c < nc /\ 0 <= r < nr /\ In p (pidx c r).
Proof.
  intros c r p. unfold cell_keys. rewrite in_flat_map. split.
  - intros [c' [Hc H]]. apply in_flat_map in H as [r' [Hr H]]. apply in_map_iff in H as [p' [E Hp]].
    inversion E; subst. apply in_zseq in Hc, Hr. tauto.
  - intros [Hc [Hr Hp]]. exists c. split; [apply in_zseq; exact Hc|]. apply in_flat_map. exists r.
    split; [apply in_zseq; exact Hr|]. apply in_map. exact Hp.
Qed.

(* ---------- visits ---------- *)

Lemma visits_flat_map : forall {A} k (f : A -> list seq_item) l,
  visits k (flat_map f l) = flat_map (fun x => visits k (f x)) l.
Proof.
  intros A k f l. unfold visits. induction l as [|a l IH]; [reflexivity|].
  cbn [flat_map]. rewrite flat_map_app, IH. reflexivity.
Qed.

Lemma visits_one : forall k l r c p, visits k [(l, r, c, p)] = if key3_eqb (c, r, p) k then [l] else [].
Proof. intros. unfold visits. cbn [flat_map item_key item_layer]. apply app_nil_r. Qed.

Lemma visits_map_p : forall c0 r0 p0 l r c ps, NoDup ps ->
  visits (c0, r0, p0) (map (fun p => (l, r, c, p)) ps) =
  if (c =? c0) && (r =? r0) && (if in_dec Z.eq_dec p0 ps then true else false) then [l] else [].
Proof.
  intros c0 r0 p0 l r c ps Hnd'.
  rewrite map_as_flat_map. rewrite visits_flat_map.
  destruct (Z.eqb_spec c c0) as [->|Hc]; destruct (Z.eqb_spec r r0) as [->|Hr]; cbn [andb].
  - destruct (in_dec Z.eq_dec p0 ps) as [Hin|Hnin].
    + rewrite (flat_map_single _ ps p0 Hnd' Hin).
      * rewrite visits_one, key3_eqb_refl. reflexivity.
      * intros x _ Hx. rewrite visits_one. rewrite key3_eqb_neq; [reflexivity | congruence].
    + apply flat_map_nil_all. intros x Hx. rewrite visits_one. rewrite key3_eqb_neq; [reflexivity|].
      intros E. apply Hnin. assert (x = p0) by congruence. subst. exact Hx.
  - apply flat_map_nil_all. intros x _. rewrite visits_one. rewrite key3_eqb_neq; [reflexivity | congruence].
  - apply flat_map_nil_all. intros x _. rewrite visits_one. rewrite key3_eqb_neq; [reflexivity | congruence].
  - apply flat_map_nil_all. intros x _. rewrite visits_one. rewrite key3_eqb_neq; [reflexivity | congruence].
Qed.

Lemma visits_layers_of : forall k r c p,
  visits k (layers_of nl r c p) = if key3_eqb (c, r, p) k then zseq nl else [].
Proof.
  intros k r c p. unfold layers_of.
  rewrite map_as_flat_map. rewrite visits_flat_map. destruct (key3_eqb (c, r, p) k) eqn:E.
  - induction (zseq nl) as [|a ls IHs]; [reflexivity|]. cbn [flat_map]. rewrite visits_one, E, IHs. reflexivity.
  - apply flat_map_nil_all. intros x _. rewrite visits_one, E. reflexivity.
Qed.

Lemma layers_from_zero : layers_from nl 0 = zseq nl.
Proof.
  unfold layers_from. rewrite Z.sub_0_r. rewrite <- (map_id (zseq nl)) at 2. apply map_ext. intros a. lia.
Qed.

Lemma flat_map_singletons : forall (l : list Z), flat_map (fun x => [x]) l = l.
Proof. induction l as [|a l IH]; [reflexivity|]. cbn [flat_map app]. rewrite IH. reflexivity. Qed.

(* the innermost (component, precinct) loops of LRCP / RLCP at a fixed layer and resolution *)
Lemma visits_cp : forall c0 r0 p0 l r, In (c0, r0, p0) cell_keys ->
  visits (c0, r0, p0) (flat_map (fun c => map (fun p => (l, r, c, p)) (pidx c r)) (zseq nc)) =
  if r =? r0 then [l] else [].
Proof.
  intros c0 r0 p0 l r Hk. apply in_cell_keys in Hk as [Hc [Hr Hp]]. rewrite visits_flat_map.
  destruct (Z.eqb_spec r r0) as [->|Hr'].
  - rewrite (flat_map_single _ (zseq nc) c0 (nodup_zseq nc) ltac:(apply in_zseq; exact Hc)).
    + rewrite visits_map_p by apply Hnd. rewrite !Z.eqb_refl. cbn [andb].
      destruct (in_dec Z.eq_dec p0 (pidx c0 r0)); [reflexivity | contradiction].
    + intros c _ Hne. rewrite visits_map_p by apply Hnd.
      destruct (Z.eqb_spec c c0); [contradiction | reflexivity].
  - apply flat_map_nil_all. intros c _. rewrite visits_map_p by apply Hnd.
    destruct (Z.eqb_spec r r0); [contradiction|]. rewrite Bool.andb_false_r. reflexivity.
Qed.

(* the (lookup, layers) body of the position-driven orders at a fixed position *)
Lemma visits_lookup : forall c0 r0 p0 pos0 c r pos,
  In (c0, r0, p0) cell_keys -> pk c0 r0 p0 = Some pos0 ->
  (forall p', In p' (pidx c0 r0) -> pk c0 r0 p' = Some pos0 -> p' = p0) ->
  visits (c0, r0, p0) (match lookup_pos pk pidx c r pos with Some p => layers_of nl r c p | None => [] end) =
  if (c =? c0) && (r =? r0) && pos_eqb pos pos0 then zseq nl else [].
Proof.
  intros c0 r0 p0 pos0 c r pos Hk Hpk Huniq. apply in_cell_keys in Hk as [Hc [Hr Hp]].
  destruct (Z.eqb_spec c c0) as [->|Hc']; destruct (Z.eqb_spec r r0) as [->|Hr']; cbn [andb].
  - destruct (pos_eqb pos pos0) eqn:E.
    + apply pos_eqb_eq in E. subst pos. rewrite (lookup_pos_found c0 r0 pos0 p0 Hp Hpk Huniq).
      rewrite visits_layers_of, key3_eqb_refl. reflexivity.
    + destruct (lookup_pos pk pidx c0 r0 pos) as [p|] eqn:El; [|reflexivity].
      rewrite visits_layers_of. rewrite key3_eqb_neq; [reflexivity|].
      intros Ek. assert (p = p0) by congruence. subst p.
      destruct (lookup_pos_sound _ _ _ _ El) as [_ Hq]. rewrite Hpk in Hq. inversion Hq; subst.
      rewrite pos_eqb_refl in E. discriminate.
  - destruct (lookup_pos pk pidx c0 r pos) as [p|]; [|reflexivity].
    rewrite visits_layers_of. rewrite key3_eqb_neq; [reflexivity | congruence].
  - destruct (lookup_pos pk pidx c r0 pos) as [p|]; [|reflexivity].
    rewrite visits_layers_of. rewrite key3_eqb_neq; [reflexivity | congruence].
  - destruct (lookup_pos pk pidx c r pos) as [p|]; [|reflexivity].
    rewrite visits_layers_of. rewrite key3_eqb_neq; [reflexivity | congruence].
Qed.

Lemma pos0_in_cr : forall c0 r0 p0 pos0, In p0 (pidx c0 r0) -> pk c0 r0 p0 = Some pos0 ->
  In pos0 (cr_positions pk pidx c0 r0).
Proof.
  intros c0 r0 p0 pos0 Hp Hpk. unfold cr_positions. apply in_flat_map. exists p0. split; [exact Hp|].
  rewrite Hpk. left. reflexivity.
Qed.

Lemma items_keys_in : forall items, (forall it, In it items -> exists l r c p, it = (l, r, c, p) /\ In (c, r, p) cell_keys) ->
  forall it, In it items -> In (item_key it) cell_keys.
Proof. intros items H it Hit. destruct (H it Hit) as [l [r [c [p [-> Hk]]]]]. exact Hk. Qed.

(* prog_seq_sched *)
Theorem prog_seq_sched : forall order, 0 <= order <= 4 -> (2 <= order -> pk_ok) ->
  exists items, prog_seq order nl nr nc pidx pk = Some items /\ Sched nl cell_keys (fun _ => 0) items.
Proof.
  intros order Ho Hpk. unfold prog_seq.
  assert (Hkeys : forall (items : list seq_item),
            (forall it, In it items -> exists l r c p, it = (l, r, c, p) /\ 0 <= c < nc /\ 0 <= r < nr /\ In p (pidx c r)) ->
            forall it, In it items -> In (item_key it) cell_keys).
  { intros items H it Hit. destruct (H it Hit) as [l [r [c [p [-> Hk]]]]]. apply in_cell_keys. exact Hk. }
  destruct (Z.eqb_spec order 0) as [E0|N0].
  { (* LRCP *)
    eexists. split; [reflexivity|]. split.
    - apply Hkeys. intros it Hit. apply in_flat_map in Hit as [l [_ Hit]]. apply in_flat_map in Hit as [r [Hr Hit]].
      apply in_flat_map in Hit as [c [Hc Hit]]. apply in_map_iff in Hit as [p [<- Hp]].
      exists l, r, c, p. apply in_zseq in Hr, Hc. tauto.
    - intros [[c0 r0] p0] Hk. rewrite layers_from_zero. rewrite visits_flat_map.
      transitivity (flat_map (fun l => [l]) (zseq nl)); [|apply flat_map_singletons].
      apply flat_map_ext. intros l. rewrite visits_flat_map.
      pose proof Hk as Hk'. apply in_cell_keys in Hk' as [_ [Hr _]].
      rewrite (flat_map_single _ (zseq nr) r0 (nodup_zseq nr) ltac:(apply in_zseq; exact Hr)).
      + rewrite (visits_cp c0 r0 p0 l r0 Hk), Z.eqb_refl. reflexivity.
      + intros r _ Hne. rewrite (visits_cp c0 r0 p0 l r Hk). destruct (Z.eqb_spec r r0); [contradiction | reflexivity]. }
  destruct (Z.eqb_spec order 1) as [E1|N1].
  { (* RLCP *)
    eexists. split; [reflexivity|]. split.
    - apply Hkeys. intros it Hit. apply in_flat_map in Hit as [r [Hr Hit]]. apply in_flat_map in Hit as [l [_ Hit]].
      apply in_flat_map in Hit as [c [Hc Hit]]. apply in_map_iff in Hit as [p [<- Hp]].
      exists l, r, c, p. apply in_zseq in Hr, Hc. tauto.
    - intros [[c0 r0] p0] Hk. rewrite layers_from_zero. rewrite visits_flat_map.
      pose proof Hk as Hk'. apply in_cell_keys in Hk' as [_ [Hr _]].
      rewrite (flat_map_single _ (zseq nr) r0 (nodup_zseq nr) ltac:(apply in_zseq; exact Hr)).
      + rewrite visits_flat_map. transitivity (flat_map (fun l => [l]) (zseq nl)); [|apply flat_map_singletons].
        apply flat_map_ext. intros l. rewrite (visits_cp c0 r0 p0 l r0 Hk), Z.eqb_refl. reflexivity.
      + intros r _ Hne. rewrite visits_flat_map. apply flat_map_nil_all. intros l _.
        rewrite (visits_cp c0 r0 p0 l r Hk). destruct (Z.eqb_spec r r0); [contradiction | reflexivity]. }
  assert (Hpk' : pk_ok) by (apply Hpk; lia).
  (* membership of the items of the position-driven orders *)
  assert (Hbody : forall c r pos it, 0 <= c < nc -> 0 <= r < nr ->
            In it (match lookup_pos pk pidx c r pos with Some p => layers_of nl r c p | None => [] end) ->
            exists l r' c' p, it = (l, r', c', p) /\ 0 <= c' < nc /\ 0 <= r' < nr /\ In p (pidx c' r')).
  { intros c r pos it Hc Hr Hit. destruct (lookup_pos pk pidx c r pos) as [p|] eqn:El; [|contradiction].
    unfold layers_of in Hit. apply in_map_iff in Hit as [l [<- _]]. destruct (lookup_pos_sound _ _ _ _ El) as [Hp _].
    exists l, r, c, p. tauto. }
  destruct (Z.eqb_spec order 2) as [E2|N2].
  { (* RPCL *)
    eexists. split; [reflexivity|]. split.
    - apply Hkeys. intros it Hit. apply in_flat_map in Hit as [r [Hr Hit]]. apply in_flat_map in Hit as [pos [_ Hit]].
      apply in_flat_map in Hit as [c [Hc Hit]]. apply in_zseq in Hr, Hc. apply (Hbody c r pos it Hc Hr Hit).
    - intros [[c0 r0] p0] Hk. rewrite layers_from_zero.
      pose proof Hk as Hk'. apply in_cell_keys in Hk' as [Hc [Hr Hp]].
      destruct (Hpk' c0 r0 p0 Hc Hr Hp) as [pos0 [Hpos0 Huniq]].
      rewrite visits_flat_map.
      rewrite (flat_map_single _ (zseq nr) r0 (nodup_zseq nr) ltac:(apply in_zseq; exact Hr)).
      + rewrite visits_flat_map.
        rewrite (flat_map_single _ (by_res pk pidx nc r0) pos0).
        * rewrite visits_flat_map.
          rewrite (flat_map_single _ (zseq nc) c0 (nodup_zseq nc) ltac:(apply in_zseq; exact Hc)).
          -- rewrite (visits_lookup c0 r0 p0 pos0 c0 r0 pos0 Hk Hpos0 Huniq), !Z.eqb_refl, pos_eqb_refl. reflexivity.
          -- intros c _ Hne. rewrite (visits_lookup c0 r0 p0 pos0 c r0 pos0 Hk Hpos0 Huniq).
             destruct (Z.eqb_spec c c0); [contradiction | reflexivity].
        * apply ssorted_nodup. apply pos_sort_set_sorted.
        * unfold by_res. apply pos_sort_set_in. apply in_flat_map. exists c0. split; [apply in_zseq; exact Hc|].
          apply (pos0_in_cr c0 r0 p0 pos0 Hp Hpos0).
        * intros pos _ Hne. rewrite visits_flat_map. apply flat_map_nil_all. intros c _.
          rewrite (visits_lookup c0 r0 p0 pos0 c r0 pos Hk Hpos0 Huniq).
          destruct (pos_eqb pos pos0) eqn:E; [apply pos_eqb_eq in E; contradiction|]. rewrite Bool.andb_false_r. reflexivity.
      + intros r _ Hne. rewrite visits_flat_map. apply flat_map_nil_all. intros pos _.
        rewrite visits_flat_map. apply flat_map_nil_all. intros c _.
        rewrite (visits_lookup c0 r0 p0 pos0 c r pos Hk Hpos0 Huniq).
        destruct (Z.eqb_spec r r0); [contradiction|]. rewrite Bool.andb_false_r. reflexivity. }
  destruct (Z.eqb_spec order 3) as [E3|N3].
  { (* PCRL *)
    eexists. split; [reflexivity|]. split.
    - apply Hkeys. intros it Hit. apply in_flat_map in Hit as [pos [_ Hit]]. apply in_flat_map in Hit as [c [Hc Hit]].
      apply in_flat_map in Hit as [r [Hr Hit]]. apply in_zseq in Hr, Hc. apply (Hbody c r pos it Hc Hr Hit).
    - intros [[c0 r0] p0] Hk. rewrite layers_from_zero.
      pose proof Hk as Hk'. apply in_cell_keys in Hk' as [Hc [Hr Hp]].
      destruct (Hpk' c0 r0 p0 Hc Hr Hp) as [pos0 [Hpos0 Huniq]].
      rewrite visits_flat_map.
      rewrite (flat_map_single _ (all_positions pk pidx nr nc) pos0).
      + rewrite visits_flat_map.
        rewrite (flat_map_single _ (zseq nc) c0 (nodup_zseq nc) ltac:(apply in_zseq; exact Hc)).
        * rewrite visits_flat_map.
          rewrite (flat_map_single _ (zseq nr) r0 (nodup_zseq nr) ltac:(apply in_zseq; exact Hr)).
          -- rewrite (visits_lookup c0 r0 p0 pos0 c0 r0 pos0 Hk Hpos0 Huniq), !Z.eqb_refl, pos_eqb_refl. reflexivity.
          -- intros r _ Hne. rewrite (visits_lookup c0 r0 p0 pos0 c0 r pos0 Hk Hpos0 Huniq).
             destruct (Z.eqb_spec r r0); [contradiction|]. rewrite Bool.andb_false_r. reflexivity.
        * intros c _ Hne. rewrite visits_flat_map. apply flat_map_nil_all. intros r _.
          rewrite (visits_lookup c0 r0 p0 pos0 c r pos0 Hk Hpos0 Huniq).
          destruct (Z.eqb_spec c c0); [contradiction | reflexivity].
      + apply ssorted_nodup. apply pos_sort_set_sorted.
      + unfold all_positions. apply pos_sort_set_in. apply in_flat_map. exists c0. split; [apply in_zseq; exact Hc|].
        apply in_flat_map. exists r0. split; [apply in_zseq; exact Hr|]. apply (pos0_in_cr c0 r0 p0 pos0 Hp Hpos0).
      + intros pos _ Hne. rewrite visits_flat_map. apply flat_map_nil_all. intros c _.
        rewrite visits_flat_map. apply flat_map_nil_all. intros r _.
        rewrite (visits_lookup c0 r0 p0 pos0 c r pos Hk Hpos0 Huniq).
        destruct (pos_eqb pos pos0) eqn:E; [apply pos_eqb_eq in E; contradiction|]. rewrite Bool.andb_false_r. reflexivity. }
  destruct (Z.eqb_spec order 4) as [E4|N4]; [|lia].
  (* CPRL *)
  eexists. split; [reflexivity|]. split.
  - apply Hkeys. intros it Hit. apply in_flat_map in Hit as [c [Hc Hit]]. apply in_flat_map in Hit as [pos [_ Hit]].
    apply in_flat_map in Hit as [r [Hr Hit]]. apply in_zseq in Hr, Hc. apply (Hbody c r pos it Hc Hr Hit).
  - intros [[c0 r0] p0] Hk. rewrite layers_from_zero.
    pose proof Hk as Hk'. apply in_cell_keys in Hk' as [Hc [Hr Hp]].
    destruct (Hpk' c0 r0 p0 Hc Hr Hp) as [pos0 [Hpos0 Huniq]].
    rewrite visits_flat_map.
    rewrite (flat_map_single _ (zseq nc) c0 (nodup_zseq nc) ltac:(apply in_zseq; exact Hc)).
    + rewrite visits_flat_map.
      rewrite (flat_map_single _ (by_comp pk pidx nr c0) pos0).
      * rewrite visits_flat_map.
        rewrite (flat_map_single _ (zseq nr) r0 (nodup_zseq nr) ltac:(apply in_zseq; exact Hr)).
        -- rewrite (visits_lookup c0 r0 p0 pos0 c0 r0 pos0 Hk Hpos0 Huniq), !Z.eqb_refl, pos_eqb_refl. reflexivity.
        -- intros r _ Hne. rewrite (visits_lookup c0 r0 p0 pos0 c0 r pos0 Hk Hpos0 Huniq).
           destruct (Z.eqb_spec r r0); [contradiction|]. rewrite Bool.andb_false_r. reflexivity.
      * apply ssorted_nodup. apply pos_sort_set_sorted.
      * unfold by_comp. apply pos_sort_set_in. apply in_flat_map. exists r0. split; [apply in_zseq; exact Hr|].
        apply (pos0_in_cr c0 r0 p0 pos0 Hp Hpos0).
      * intros pos _ Hne. rewrite visits_flat_map. apply flat_map_nil_all. intros r _.
        rewrite (visits_lookup c0 r0 p0 pos0 c0 r pos Hk Hpos0 Huniq).
        destruct (pos_eqb pos pos0) eqn:E; [apply pos_eqb_eq in E; contradiction|]. rewrite Bool.andb_false_r. reflexivity.
    + intros c _ Hne. rewrite visits_flat_map. apply flat_map_nil_all. intros pos _.
      rewrite visits_flat_map. apply flat_map_nil_all. intros r _.
      rewrite (visits_lookup c0 r0 p0 pos0 c r pos Hk Hpos0 Huniq).
      destruct (Z.eqb_spec c c0); [contradiction | reflexivity].
Qed.

(* one precinct per (component, resolution): index 0 only *)
Lemma prog_single : (forall c r, pidx c r = [] \/ pidx c r = [0]) ->
  (forall c r, 0 <= c < nc -> 0 <= r < nr -> pidx c r = [0] -> exists pos, pk c r 0 = Some pos) -> pk_ok.
Proof.
  intros Hone Hkey c r p Hc Hr Hp. destruct (Hone c r) as [E|E]; rewrite E in Hp; [contradiction|].
  destruct Hp as [<-|[]]. destruct (Hkey c r Hc Hr E) as [pos Hpos]. exists pos. split; [exact Hpos|].
  intros p' Hp' _. rewrite E in Hp'. destruct Hp' as [<-|[]]. reflexivity.
Qed.

End Prog.
