(* C04 (t2): packet headers round trip.  Part 3: all bands of a packet, the whole header with
   its byte length, all layers in order. *)
From V Require Import Common.Base Framing.FrmWriters T2.T2Bio T2.T2TagTree T2.T2Header J2KGeo.GeoLayers
  T2.T2ProofsBio T2.T2ProofsCodes T2.T2ProofsStore T2.T2ProofsTagTree T2.T2ProofsTagTree2 T2.T2ProofsSafe
  T2.T2ProofsHeader T2.T2ProofsHeader2.

(* ---------- every header bit is 0 or 1 ---------- *)

Lemma len_segments_01 : forall k pl terms termAll nlb last passIdx nump segLen,
  Forall bit01 (len_segments pl terms termAll nlb last k passIdx nump segLen).
Proof.
  induction k as [|k IH]; intros; cbn [len_segments]; [constructor|].
  destruct (pass_terminates terms termAll passIdx || (passIdx =? last)).
  - apply Forall_app. split; [apply bits_of_01 | apply IH].
  - apply IH.
Qed.

Lemma enc_lengths_01 : forall nlb dataLen prev np termAll pl terms bs nlb',
  enc_lengths nlb dataLen prev np termAll pl terms = Ok (bs, nlb') -> Forall bit01 bs.
Proof.
  intros nlb dataLen prev np termAll pl terms bs nlb' H. unfold enc_lengths in H.
  destruct (np <=? 0); [apply ok_inj in H; assert (bs = enc_comma 0) by congruence; subst; apply enc_comma_01|].
  assert (Hf : forall X Y n', Ok (enc_comma X ++ bits_of dataLen Y, n') = Ok (bs, nlb') -> Forall bit01 bs).
  { intros X Y n' E. apply ok_inj in E. assert (bs = enc_comma X ++ bits_of dataLen Y) by congruence. subst.
    apply Forall_app. split; [apply enc_comma_01 | apply bits_of_01]. }
  destruct pl as [l|]; [|eapply Hf; exact H].
  destruct (prev + np >? zlen l); [eapply Hf; exact H|].
  destruct (prev <? 0); [discriminate|].
  apply ok_inj in H.
  match type of H with (?a, _) = _ => assert (Hb : bs = a) by congruence end. subst bs.
  apply Forall_app. split; [apply enc_comma_01 | apply len_segments_01].
Qed.

Lemma enc_numpasses_01 : forall n bs, enc_numpasses n = Ok bs -> Forall bit01 bs.
Proof.
  intros n bs H. unfold enc_numpasses in H.
  destruct (n =? 1); [apply ok_inj in H; subst; repeat constructor|].
  destruct (n =? 2); [apply ok_inj in H; subst; apply bits_of_01|].
  destruct (n <=? 5); [apply ok_inj in H; subst; apply bits_of_01|].
  destruct (n <=? 36); [apply ok_inj in H; subst; apply bits_of_01|].
  destruct (n <=? 164); [apply ok_inj in H; subst; apply bits_of_01 | discriminate].
Qed.

Lemma enc_block_01 : forall it zt b l bs ei b' it' zt',
  enc_block it zt b l = Ok (bs, ei, b', it', zt') -> Forall bit01 bs.
Proof.
  intros it zt b l bs ei b' it' zt' H. unfold enc_block in H.
  destruct (layer_contribution (eb_ld b) (eb_lp b) (eb_data b) (eb_npt b) l) as [[inc np] data].
  assert (Hcont : forall pre b1 it1 zt1,
            Forall bit01 pre ->
            obind (enc_numpasses np) (fun bs3 =>
              let dataLen := zlen data in
              let '(prev, total) := prev_and_total_passes false (eb_lp b1) (eb_npt b1) l np in
              let pl := block_pass_lens b1 in
              let termAll := eb_termall b1 && negb (match pl with None => true | Some l0 => total >? zlen l0 end) in
              obind (enc_lengths (eb_nlb b1) dataLen prev np termAll pl (block_terms b1)) (fun ln =>
                Ok (pre ++ bs3 ++ fst ln,
                    {| ei_included := inc; ei_np := np; ei_len := dataLen; ei_data := data |},
                    eb_with b1 (eb_included b1) (snd ln), it1, zt1))) = Ok (bs, ei, b', it', zt') ->
            Forall bit01 bs).
  { intros pre b1 it1 zt1 Hpre E.
    destruct (enc_numpasses np) as [bs3| | |] eqn:E3; cbn [obind] in E; try discriminate.
    destruct (prev_and_total_passes false (eb_lp b1) (eb_npt b1) l np) as [prev total].
    destruct (enc_lengths _ _ _ _ _ _ _) as [[bs4 nlb']| | |] eqn:E4; cbn [obind] in E; try discriminate.
    apply ok_inj in E. cbn [fst] in E. assert (bs = pre ++ bs3 ++ bs4) by congruence. subst bs.
    apply Forall_app. split; [exact Hpre|]. apply Forall_app. split.
    - eapply enc_numpasses_01; exact E3.
    - eapply enc_lengths_01; exact E4. }
  destruct (negb (eb_included b)).
  - destruct (tt_encode it (eb_cbx b) (eb_cby b) (l + 1)) as [[bs1 it1]| | |] eqn:E1; cbn [obind] in H; try discriminate.
    cbn [fst snd] in H. pose proof (tt_encode_01 _ _ _ _ _ _ E1) as H1.
    destruct (negb inc).
    + apply ok_inj in H. assert (bs = bs1) by congruence. subst. exact H1.
    + destruct (tt_encode zt (eb_cbx b) (eb_cby b) 999) as [[bs2 zt1]| | |] eqn:E2; cbn [obind] in H; try discriminate.
      cbn [fst snd] in H. pose proof (tt_encode_01 _ _ _ _ _ _ E2) as H2.
      eapply Hcont; [|exact H]. apply Forall_app. split; assumption.
  - destruct inc.
    + eapply Hcont; [|exact H]. constructor; [right; reflexivity | constructor].
    + apply ok_inj in H. assert (bs = [0]) by congruence. subst. repeat constructor.
Qed.

Lemma enc_blocks_01 : forall bl it zt l bs incs bl' it' zt',
  enc_blocks it zt bl l = Ok (bs, incs, bl', it', zt') -> Forall bit01 bs.
Proof.
  induction bl as [|b bl IH]; intros it zt l bs incs bl' it' zt' H; cbn [enc_blocks] in H.
  - apply ok_inj in H. assert (bs = []) by congruence. subst. constructor.
  - destruct (enc_block it zt b l) as [[[[[bs1 ei] b1] it1] zt1]| | |] eqn:E1; cbn [obind] in H; try discriminate.
    destruct (enc_blocks it1 zt1 bl l) as [[[[[bs2 incs2] bl2] it2] zt2]| | |] eqn:E2; cbn [obind] in H; try discriminate.
    apply ok_inj in H. assert (bs = bs1 ++ bs2) by congruence. subst.
    apply Forall_app. split; [eapply enc_block_01; exact E1 | eapply IH; exact E2].
Qed.

Lemma enc_bands_01 : forall ps l bs incs ps', enc_bands ps l = Ok (bs, incs, ps') -> Forall bit01 bs.
Proof.
  induction ps as [|p ps IH]; intros l bs incs ps' H; cbn [enc_bands] in H.
  - apply ok_inj in H. assert (bs = []) by congruence. subst. constructor.
  - destruct (ebn_blocks p) as [|b0 bl0] eqn:Eb.
    + destruct (enc_bands ps l) as [[[bs2 incs2] ps2]| | |] eqn:E2; cbn [obind] in H; try discriminate.
      apply ok_inj in H. assert (bs = bs2) by congruence. subst. eapply IH; exact E2.
    + destruct (ebn_trees p) as [[it zt]|]; [|discriminate].
      destruct (enc_blocks it zt (b0 :: bl0) l) as [[[[[bs1 incs1] bl1] it1] zt1]| | |] eqn:E1; cbn [obind] in H; try discriminate.
      destruct (enc_bands ps l) as [[[bs2 incs2] ps2]| | |] eqn:E2; cbn [obind] in H; try discriminate.
      apply ok_inj in H. assert (bs = bs1 ++ bs2) by congruence. subst.
      apply Forall_app. split; [eapply enc_blocks_01; exact E1 | eapply IH; exact E2].
Qed.

(* ---------- all bands of one packet ---------- *)

Inductive BandsRel (termAll : bool) (L l : Z) : list eband -> list dband -> Prop :=
| BR_nil : BandsRel termAll L l [] []
| BR_both : forall p d ps ds, BandRel termAll L l p d -> BandsRel termAll L l ps ds ->
    BandsRel termAll L l (p :: ps) (d :: ds)
| BR_skip_e : forall p ps ds, ebn_blocks p = [] -> BandsRel termAll L l ps ds ->
    BandsRel termAll L l (p :: ps) ds                       (* a Precinct without code-blocks *)
| BR_skip_d : forall d ps ds, (dbn_w d <= 0 \/ dbn_h d <= 0) -> band_wf d -> BandsRel termAll L l ps ds ->
    BandsRel termAll L l ps (d :: ds).                      (* a band with an empty grid *)

Definition exp_e (l : Z) (ps : list eband) : list eincl :=
  flat_map (fun p => map (fun b => expect_eincl b l) (ebn_blocks p)) ps.
Definition exp_d (termAll : bool) (l : Z) (ps : list eband) : list dincl :=
  flat_map (fun p => map (fun b => expect_dincl termAll b l) (ebn_blocks p)) ps.

Lemma prepare_band_empty : forall p l, ebn_blocks p = [] -> prepare_band p l = p.
Proof. intros p l H. unfold prepare_band. rewrite H. reflexivity. Qed.

Lemma bands_sync : forall termAll L l ps ds, BandsRel termAll L l ps ds -> 0 <= l < L ->
  forall bs incs ps' rest r more,
  enc_bands (map (fun p => prepare_band p l) ps) l = Ok (bs, incs, ps') -> BitsAt rest r (bs ++ more) ->
  exists ds' r', dec_bands r ds l termAll = Ok (exp_d termAll l ps, ds', r') /\ BitsAt rest r' more /\
    incs = exp_e l ps /\ BandsRel termAll L (l + 1) ps' ds' /\ (forall l', exp_e l' ps' = exp_e l' ps).
Proof.
  intros termAll L l ps ds HR Hl. induction HR as [|p d ps ds Hb HR IH|p ps ds He HR IH|d ps ds Hd Hwf HR IH];
    intros bs incs ps' rest r more Henc HB.
  - cbn [map enc_bands] in Henc. apply ok_inj in Henc.
    assert (bs = [] /\ incs = [] /\ ps' = []) as [-> [-> ->]] by (repeat split; congruence).
    exists [], r. cbn [dec_bands app] in *. split; [reflexivity|]. split; [exact HB|]. split; [reflexivity|].
    split; [constructor | reflexivity].
  - (* a band with code-blocks on both sides *)
    pose proof Hb as [[Hdw [Hdh [Hw [Hh [Hne [Hsorted [Heff Hst]]]]]]] _].
    destruct (band_core termAll L l p d ltac:(lia) Hb) as [it0 [zt0 [itd0 [ztd0 [sts0 [HC [Hprep [Ni [Nz Ns]]]]]]]]].
    cbn [map enc_bands] in Henc. rewrite Hprep in Henc.
    cbn [ebn_blocks ebn_with ebn_trees] in Henc.
    destruct (ebn_blocks p) as [|b0 bl0] eqn:Eb; [congruence|]. rewrite <- Eb in *.
    assert (Henc' : obind (enc_blocks (fst (prepare_values (ebn_blocks p) l it0 zt0))
                                      (snd (prepare_values (ebn_blocks p) l it0 zt0)) (ebn_blocks p) l)
              (fun res => let '(bs1, incs1, bl, it', zt') := res in
                 obind (enc_bands (map (fun p0 => prepare_band p0 l) ps) l) (fun res' =>
                   let '(bs2, incs2, ps2) := res' in
                   Ok (bs1 ++ bs2, incs1 ++ incs2,
                       ebn_with (ebn_with p (ebn_blocks p) (Some (prepare_values (ebn_blocks p) l it0 zt0)))
                                bl (Some (it', zt')) :: ps2))) = Ok (bs, incs, ps')).
    { rewrite Eb in Henc |- *. destruct (prepare_values (b0 :: bl0) l it0 zt0) as [it1 zt1]. exact Henc. }
    clear Henc.
    destruct (enc_blocks _ _ (ebn_blocks p) l) as [[[[[bs1 incs1] bl1] it1'] zt1']| | |] eqn:E1;
      cbn [obind] in Henc'; try discriminate.
    destruct (enc_bands (map (fun p0 => prepare_band p0 l) ps) l) as [[[bs2 incs2] ps2]| | |] eqn:E2;
      cbn [obind] in Henc'; try discriminate.
    apply ok_inj in Henc'.
    assert (bs = bs1 ++ bs2 /\ incs = incs1 ++ incs2) as [-> ->] by (split; congruence).
    rewrite <- app_assoc in HB.
    destruct (core_step termAll L l (ebn_w p) (ebn_h p) it0 zt0 itd0 ztd0 sts0 (ebn_blocks p) Hl HC Hst
                bs1 incs1 bl1 it1' zt1' rest r (bs2 ++ more) E1 HB)
      as [itd' [ztd' [sts' [r1 [Ed [HB1 [Hincs1 [HC' [Hst' [Hpos Hexp1]]]]]]]]]].
    destruct (IH bs2 incs2 ps2 rest r1 more eq_refl HB1) as [ds' [r2 [Ed2 [HB2 [Hincs2 [HR' Hexp2]]]]]].
    eexists; exists r2. split.
    { cbn [dec_bands]. rewrite Hdw, Hdh.
      destruct (Z.leb_spec (ebn_w p) 0); [lia|]. destruct (Z.leb_spec (ebn_h p) 0); [lia|]. cbn [orb].
      rewrite Ni, Nz, Ns.
      change (match dbn_pos d with [] => grid_positions (ebn_w p) (ebn_h p) | _ :: _ => dbn_pos d end)
        with (match dbn_pos d with [] => grid_positions (ebn_w p) (ebn_h p) | p0 => p0 end).
      assert (Epos : match dbn_pos d with [] => grid_positions (ebn_w p) (ebn_h p) | p0 => p0 end
                     = map pos_of (ebn_blocks p)).
      { rewrite <- Heff. unfold eff_pos. rewrite Hdw, Hdh. reflexivity. }
      rewrite Epos, Ed. cbn [obind]. rewrite Ed2. cbn [obind]. unfold exp_d. cbn [flat_map]. reflexivity. }
    split; [exact HB2|].
    split; [unfold exp_e; cbn [flat_map]; rewrite Hincs1, Hincs2; reflexivity|].
    assert (Eps : ps' = ebn_with (ebn_with p (ebn_blocks p) (Some (prepare_values (ebn_blocks p) l it0 zt0)))
                                 bl1 (Some (it1', zt1')) :: ps2) by congruence.
    rewrite Eps. split; [|intros l'; unfold exp_e; cbn [flat_map ebn_blocks ebn_with]; rewrite Hexp1;
                          fold (exp_e l' ps2) (exp_e l' ps); rewrite Hexp2; reflexivity].
    apply BR_both; [|exact HR'].
    split.
    + unfold band_static. cbn [ebn_w ebn_h ebn_blocks ebn_with dbn_w dbn_h].
      split; [reflexivity|]. split; [reflexivity|]. split; [exact Hw|]. split; [exact Hh|].
      split.
      { intros E. rewrite E in Hpos. cbn [map] in Hpos. destruct (ebn_blocks p); [congruence | discriminate]. }
      split; [rewrite Hpos; exact Hsorted|].
      split; [|exact Hst'].
      unfold eff_pos. cbn [dbn_pos dbn_w dbn_h]. rewrite Hpos. rewrite <- Heff. unfold eff_pos. rewrite Hdw, Hdh. reflexivity.
    + right. split; [lia|]. unfold band_running. cbn [ebn_w ebn_h ebn_blocks ebn_with ebn_trees dbn_incl dbn_zbp dbn_states].
      exists it1', zt1', itd', ztd', sts'.
      split; [reflexivity|]. split; [reflexivity|]. split; [reflexivity|]. split; [reflexivity|]. exact HC'.
  - (* no code-blocks on the encoder side *)
    cbn [map enc_bands] in Henc. rewrite (prepare_band_empty p l He) in Henc. rewrite He in Henc.
    destruct (enc_bands (map (fun p0 => prepare_band p0 l) ps) l) as [[[bs2 incs2] ps2]| | |] eqn:E2;
      cbn [obind] in Henc; try discriminate.
    apply ok_inj in Henc. assert (bs = bs2 /\ incs = incs2 /\ ps' = p :: ps2) as [-> [-> ->]] by (repeat split; congruence).
    destruct (IH bs2 incs2 ps2 rest r more eq_refl HB) as [ds' [r2 [Ed2 [HB2 [Hincs2 [HR' Hexp2]]]]]].
    exists ds', r2. unfold exp_d, exp_e. cbn [flat_map]. rewrite He. cbn [map app].
    split; [exact Ed2|]. split; [exact HB2|]. split; [exact Hincs2|]. split; [apply BR_skip_e; assumption|].
    intros l'. apply Hexp2.
  - (* an empty grid on the decoder side *)
    destruct (IH bs incs ps' rest r more Henc HB) as [ds' [r2 [Ed2 [HB2 [Hincs2 [HR' Hexp2]]]]]].
    exists (d :: ds'), r2. split.
    { cbn [dec_bands].
      assert (Hskip : (dbn_w d <=? 0) || (dbn_h d <=? 0) = true).
      { destruct Hd as [Hd|Hd]; [destruct (Z.leb_spec (dbn_w d) 0); [reflexivity | lia]|].
        destruct (Z.leb_spec (dbn_h d) 0); [apply Bool.orb_true_r | lia]. }
      rewrite Hskip. rewrite Ed2. cbn [obind]. reflexivity. }
    split; [exact HB2|]. split; [exact Hincs2|]. split; [apply BR_skip_d; assumption | exact Hexp2].
Qed.

(* ---------- the whole header of one layer ---------- *)

Lemma bandsrel_wf : forall termAll L l ps ds, BandsRel termAll L l ps ds -> Forall band_wf ds.
Proof.
  intros termAll L l ps ds H. induction H as [|p d ps ds Hb _ IH|p ps ds _ _ IH|d ps ds _ Hwf _ IH].
  - constructor.
  - constructor; [|exact IH]. destruct Hb as [_ [[_ [_ [Hi [Hz _]]]] | [_ [it [zt [itd [ztd [sts [_ [Hi [Hz [_ HC]]]]]]]]]]]].
    + split; intros t E; congruence.
    + destruct HC as [HTi [[tZ [HTz _]] _]].
      split; intros t E; [rewrite Hi in E | rewrite Hz in E]; inversion E; subst.
      * destruct HTi as [Hwf [Hg _]]. apply (wf_tree_geom it t Hwf Hg).
      * destruct HTz as [Hwf [Hg _]]. apply (wf_tree_geom zt t Hwf Hg).
  - exact IH.
  - constructor; assumption.
Qed.

Lemma bandsrel_no_blocks : forall termAll L l ps ds, BandsRel termAll L l ps ds -> has_code_blocks ps = false ->
  exp_d termAll l ps = [] /\ exp_e l ps = [] /\ BandsRel termAll L (l + 1) ps ds.
Proof.
  intros termAll L l ps ds H. induction H as [|p d ps ds Hb _ IH|p ps ds He _ IH|d ps ds Hd Hwf _ IH]; intros Hn.
  - repeat split; constructor.
  - exfalso. destruct Hb as [[_ [_ [_ [_ [Hne _]]]]] _]. unfold has_code_blocks in Hn. cbn [existsb] in Hn.
    apply Bool.orb_false_iff in Hn as [Hn _]. destruct (ebn_blocks p) as [|b0 bl0]; [congruence|].
    rewrite zlen_cons in Hn. pose proof (zlen_nonneg bl0). destruct (Z.ltb_spec 0 (zlen bl0 + 1)); [discriminate | lia].
  - unfold has_code_blocks in Hn. cbn [existsb] in Hn. apply Bool.orb_false_iff in Hn as [_ Hn].
    destruct (IH Hn) as [A [B C]]. unfold exp_d, exp_e in *. cbn [flat_map]. rewrite He. cbn [map app].
    repeat split; try assumption. apply BR_skip_e; assumption.
  - destruct (IH Hn) as [A [B C]]. repeat split; try assumption. apply BR_skip_d; assumption.
Qed.

(* packet_header_roundtrip (one layer): the parser, given the encoder's header bytes followed
   by anything, consumes exactly the header and reports for every code-block what the encoder
   put in; the persistent state of both sides is again related (for the next layer). *)
Theorem packet_header_roundtrip : forall termAll L l ps ds hdr incs ps' rest,
  BandsRel termAll L l ps ds -> 0 <= l < L ->
  enc_header ps l = Ok (hdr, incs, ps') ->
  exists ds', parse_header (hdr ++ rest) l ds termAll =
                Ok (zlen hdr, has_code_blocks ps, exp_d termAll l ps, ds') /\
              incs = exp_e l ps /\ BandsRel termAll L (l + 1) ps' ds' /\
              (forall l', exp_e l' ps' = exp_e l' ps).
Proof.
  intros termAll L l ps ds hdr incs ps' rest HR Hl He.
  unfold enc_header, enc_header_bits in He.
  destruct (has_code_blocks ps) eqn:Hcb; cbn [negb] in He.
  - (* packet present *)
    destruct (enc_bands (map (fun p => prepare_band p l) ps) l) as [[[bs incs0] ps0]| | |] eqn:E; cbn [obind] in He;
      try discriminate.
    apply ok_inj in He. assert (hdr = bio_encode (1 :: bs) /\ incs = incs0 /\ ps' = ps0) as [-> [-> ->]]
      by (repeat split; congruence).
    pose proof (enc_bands_01 _ _ _ _ _ E) as H01.
    assert (HB : BitsAt rest (rd_init (bio_encode (1 :: bs) ++ rest)) (1 :: bs)).
    { apply bitsat_init; [discriminate|]. constructor; [right; reflexivity | exact H01]. }
    destruct (bitsat_step _ _ _ _ HB) as [r1 [E1 HB1]].
    rewrite <- (app_nil_r bs) in HB1.
    destruct (bands_sync termAll L l ps ds HR Hl bs incs0 ps0 rest r1 [] E HB1) as [ds' [r2 [Ed [HB2 [Hincs [HR' Hexp]]]]]].
    destruct (bitsat_final rest r2 HB2) as [r3 [Ea [Hdata Hct]]].
    exists ds'. split; [|split; [exact Hincs | split; [exact HR' | exact Hexp]]].
    (* the byte position *)
    pose proof (read_bit_good (rd_init (bio_encode (1 :: bs) ++ rest)) (rd_init_ok _)) as G1.
    rewrite E1 in G1. cbn [good snd] in G1.
    pose proof (dec_bands_good ds r1 l termAll ltac:(apply G1) (bandsrel_wf _ _ _ _ _ HR)) as G2.
    rewrite Ed in G2. cbn [good] in G2. destruct G2 as [G2 _].
    pose proof (align_good r2 ltac:(apply G2)) as G3. rewrite Ea in G3. cbn [good] in G3.
    assert (Hpos : rd_pos r3 = zlen (bio_encode (1 :: bs))).
    { destruct G1 as [_ [T1 _]]. destruct G2 as [_ [T2 _]]. destruct G3 as [_ [T3 _]].
      unfold rd_total in *. rewrite Hdata in T3. cbn [rd_init rd_pos rd_data] in T1.
      rewrite zlen_app in T1. lia. }
    unfold parse_header.
    destruct (bio_encode (1 :: bs) ++ rest) as [|d0 dl] eqn:Edata.
    { unfold rd_read_bit, rd_init in E1. cbn in E1. discriminate. }
    rewrite E1. cbn [obind fst snd]. change (1 =? 1) with true. cbn [negb].
    rewrite Ed. cbn [obind]. rewrite Ea. cbn [obind].
    rewrite Hpos. reflexivity.
  - (* no code-block in any band: the single bit 0 *)
    apply ok_inj in He. assert (hdr = bio_encode [0] /\ incs = [] /\ ps' = ps) as [-> [-> ->]] by (repeat split; congruence).
    destruct (bandsrel_no_blocks termAll L l ps ds HR Hcb) as [Hd [He' HR']].
    exists ds. split; [|split; [symmetry; exact He' | split; [exact HR' | reflexivity]]].
    rewrite Hd. change (bio_encode [0]) with [0]. cbn [app]. unfold parse_header.
    cbn. reflexivity.
Qed.

(* ---------- all layers in order ---------- *)

(* the encoder's headers for layers l, l+1, .., l+n-1 *)
Fixpoint enc_layers (ps : list eband) (l : Z) (n : nat) : outcome (list (list Z * list eincl)) :=
  match n with
  | O => Ok []
  | S k => obind (enc_header ps l) (fun h =>
           let '(hdr, incs, ps') := h in
           obind (enc_layers ps' (l + 1) k) (fun hs => Ok ((hdr, incs) :: hs)))
  end.

(* decoding them in order, each followed by arbitrary bytes; the schedule is read off the
   encoder state `ps` of each layer (expect_* only use static fields and the Included flag) *)
Fixpoint layers_decoded (termAll : bool) (L : Z) (l : Z) (hs : list (list Z * list eincl)) (ds : list dband) : Prop :=
  match hs with
  | [] => True
  | (hdr, incs) :: hs' =>
    forall rest, exists ds' present dincs,
      parse_header (hdr ++ rest) l ds termAll = Ok (zlen hdr, present, dincs, ds') /\
      length dincs = length incs /\
      Forall2 (fun (e : eincl) (d : dincl) =>
                 di_included d = ei_included e /\
                 (ei_included e = true -> di_np d = ei_np e /\ di_len d = ei_len e /\ ei_len e = zlen (ei_data e)))
              incs dincs /\
      layers_decoded termAll L (l + 1) hs' ds'
  end.

Lemma forall2_len : forall {A B} (R : A -> B -> Prop) l l', Forall2 R l l' -> length l = length l'.
Proof. intros A B R l l' H. induction H; cbn [length]; congruence. Qed.

Lemma expect_match : forall termAll l bl,
  Forall2 (fun (e : eincl) (d : dincl) =>
             di_included d = ei_included e /\
             (ei_included e = true -> di_np d = ei_np e /\ di_len d = ei_len e /\ ei_len e = zlen (ei_data e)))
          (map (fun b => expect_eincl b l) bl) (map (fun b => expect_dincl termAll b l) bl).
Proof.
  intros termAll l bl. induction bl as [|b bl IH]; cbn [map]; constructor; [|exact IH].
  unfold expect_eincl, expect_dincl. destruct (b_inc b l); cbn; [|split; [reflexivity | discriminate]].
  split; [reflexivity|]. intros _. repeat split; reflexivity.
Qed.

Theorem packet_header_layers_roundtrip : forall termAll L n l ps ds hs,
  BandsRel termAll L l ps ds -> 0 <= l -> l + Z.of_nat n <= L ->
  enc_layers ps l n = Ok hs -> layers_decoded termAll L l hs ds.
Proof.
  intros termAll L n. induction n as [|n IH]; intros l ps ds hs HR Hl0 Hl He; cbn [enc_layers] in He.
  - apply ok_inj in He. subst hs. exact I.
  - destruct (enc_header ps l) as [[[hdr incs] ps']| | |] eqn:E1; cbn [obind] in He; try discriminate.
    destruct (enc_layers ps' (l + 1) n) as [hs'| | |] eqn:E2; cbn [obind] in He; try discriminate.
    apply ok_inj in He. subst hs. cbn [layers_decoded]. intros rest.
    destruct (packet_header_roundtrip termAll L l ps ds hdr incs ps' rest HR ltac:(lia) E1) as [ds' [Ep [Hincs [HR' _]]]].
    exists ds', (has_code_blocks ps), (exp_d termAll l ps). split; [exact Ep|].
    rewrite Hincs. unfold exp_e, exp_d.
    assert (Hm : Forall2 (fun (e : eincl) (d : dincl) =>
                   di_included d = ei_included e /\
                   (ei_included e = true -> di_np d = ei_np e /\ di_len d = ei_len e /\ ei_len e = zlen (ei_data e)))
                 (flat_map (fun p => map (fun b => expect_eincl b l) (ebn_blocks p)) ps)
                 (flat_map (fun p => map (fun b => expect_dincl termAll b l) (ebn_blocks p)) ps)).
    { clear. induction ps as [|p ps IHp]; cbn [flat_map]; [constructor|].
      apply Forall2_app; [apply expect_match | exact IHp]. }
    split; [symmetry; apply (forall2_len _ _ _ Hm)|]. split; [exact Hm|].
    apply (IH (l + 1) ps' ds' hs' HR'); [lia | lia | exact E2].
Qed.
