(* C04 (t2): packets_deliver_fields - packets_deliver_blocks with, in addition, the header
   fields the tile decoder reads besides (included, passes, data): for every included
   code-block of every decoded packet the zero-bit-plane count, the per-pass lengths and the
   TERMALL flag are the encoder's (static fields of the cell's blocks in the encoder's initial
   store cells0). *)
From V Require Import Common.Base Framing.FrmWriters T2.T2Bio T2.T2TagTree T2.T2Header T2.T2Packets
  J2KGeo.GeoLayers
  T2.T2ProofsBio T2.T2ProofsCodes T2.T2ProofsHeader T2.T2ProofsHeader2 T2.T2ProofsHeader3
  T2.T2ProofsPackets1 T2.T2ProofsPackets2 T2.T2ProofsProg T2.T2ProofsPackets3.

(* ---------- the header encoder only changes Included / NumLenBits of a block ---------- *)

Lemma same_static_refl : forall b, same_static b b.
Proof. intros b. unfold same_static, eb_with. destruct b; reflexivity. Qed.

Lemma same_static_trans : forall a b c, same_static a b -> same_static b c -> same_static a c.
Proof. intros a b c H1 H2. unfold same_static in *. rewrite H2, H1. reflexivity. Qed.

Lemma same_static_with : forall b i n, same_static b (eb_with b i n).
Proof. intros. unfold same_static. reflexivity. Qed.

Lemma enc_block_static : forall it zt b l bs ei b' it' zt',
  enc_block it zt b l = Ok (bs, ei, b', it', zt') -> same_static b b'.
Proof.
  intros it zt b l bs ei b' it' zt' H. unfold enc_block in H.
  destruct (layer_contribution (eb_ld b) (eb_lp b) (eb_data b) (eb_npt b) l) as [[inc np] data].
  assert (Hcont : forall pre b1 it1 zt1, same_static b b1 ->
            obind (enc_numpasses np) (fun bs3 =>
              let dataLen := zlen data in
              let '(prev, total) := prev_and_total_passes false (eb_lp b1) (eb_npt b1) l np in
              let pl := block_pass_lens b1 in
              let termAll := eb_termall b1 && negb (match pl with None => true | Some l0 => total >? zlen l0 end) in
              obind (enc_lengths (eb_nlb b1) dataLen prev np termAll pl (block_terms b1)) (fun ln =>
                Ok (pre ++ bs3 ++ fst ln,
                    {| ei_included := inc; ei_np := np; ei_len := dataLen; ei_data := data |},
                    eb_with b1 (eb_included b1) (snd ln), it1, zt1))) = Ok (bs, ei, b', it', zt') ->
            same_static b b').
  { intros pre b1 it1 zt1 Hs E.
    destruct (enc_numpasses np) as [bs3| | |]; cbn [obind] in E; try discriminate.
    destruct (prev_and_total_passes false (eb_lp b1) (eb_npt b1) l np) as [prev total].
    destruct (enc_lengths _ _ _ _ _ _ _) as [[bs4 nlb']| | |]; cbn [obind] in E; try discriminate.
    apply ok_inj in E. cbn [snd] in E. assert (b' = eb_with b1 (eb_included b1) nlb') by congruence. subst b'.
    apply (same_static_trans b b1); [exact Hs | apply same_static_with]. }
  destruct (negb (eb_included b)).
  - destruct (tt_encode it (eb_cbx b) (eb_cby b) (l + 1)) as [[bs1 it1]| | |]; cbn [obind] in H; try discriminate.
    cbn [fst snd] in H. destruct (negb inc).
    + apply ok_inj in H. assert (b' = b) by congruence. subst. apply same_static_refl.
    + destruct (tt_encode zt (eb_cbx b) (eb_cby b) 999) as [[bs2 zt1]| | |]; cbn [obind] in H; try discriminate.
      cbn [fst snd] in H. eapply Hcont; [|exact H]. apply same_static_with.
  - destruct inc.
    + eapply Hcont; [|exact H]. apply same_static_refl.
    + apply ok_inj in H. assert (b' = b) by congruence. subst. apply same_static_refl.
Qed.

Lemma enc_blocks_static : forall bl it zt l bs incs bl' it' zt',
  enc_blocks it zt bl l = Ok (bs, incs, bl', it', zt') -> Forall2 same_static bl bl'.
Proof.
  induction bl as [|b bl IH]; intros it zt l bs incs bl' it' zt' H; cbn [enc_blocks] in H.
  - apply ok_inj in H. assert (bl' = []) by congruence. subst. constructor.
  - destruct (enc_block it zt b l) as [[[[[bs1 ei] b1] it1] zt1]| | |] eqn:E1; cbn [obind] in H; try discriminate.
    destruct (enc_blocks it1 zt1 bl l) as [[[[[bs2 incs2] bl2] it2] zt2]| | |] eqn:E2; cbn [obind] in H; try discriminate.
    apply ok_inj in H. assert (bl' = b1 :: bl2) by congruence. subst.
    constructor; [eapply enc_block_static; exact E1 | eapply IH; exact E2].
Qed.

Definition all_blocks (ps : list eband) : list eblock := flat_map ebn_blocks ps.

Lemma forall2_refl_static : forall bl, Forall2 same_static bl bl.
Proof. induction bl; constructor; [apply same_static_refl | assumption]. Qed.

(* enc_bands on prepared bands whose preparation kept the block lists *)
Lemma enc_bands_static : forall termAll L l ps ds, BandsRel termAll L l ps ds -> 0 <= l ->
  forall bs incs ps', enc_bands (map (fun p => prepare_band p l) ps) l = Ok (bs, incs, ps') ->
  Forall2 same_static (all_blocks ps) (all_blocks ps').
Proof.
  intros termAll L l ps ds HR Hl. induction HR as [|p d ps ds Hb HR IH|p ps ds He HR IH|d ps ds Hd Hwf HR IH];
    intros bs incs ps' Henc.
  - cbn [map enc_bands] in Henc. apply ok_inj in Henc. assert (ps' = []) by congruence. subst. constructor.
  - pose proof Hb as [[_ [_ [_ [_ [Hne _]]]]] _].
    destruct (band_core termAll L l p d Hl Hb) as [it0 [zt0 [_ [_ [_ [_ [Hprep _]]]]]]].
    cbn [map enc_bands] in Henc. rewrite Hprep in Henc. cbn [ebn_blocks ebn_with ebn_trees] in Henc.
    destruct (ebn_blocks p) as [|b0 bl0] eqn:Eb; [congruence|].
    destruct (prepare_values (b0 :: bl0) l it0 zt0) as [it1 zt1].
    destruct (enc_blocks it1 zt1 (b0 :: bl0) l) as [[[[[bs1 incs1] bl1] it1'] zt1']| | |] eqn:E1;
      cbn [obind] in Henc; try discriminate.
    destruct (enc_bands (map (fun p0 => prepare_band p0 l) ps) l) as [[[bs2 incs2] ps2]| | |] eqn:E2;
      cbn [obind] in Henc; try discriminate.
    apply ok_inj in Henc.
    match type of Henc with (_, _, ?x :: _) = _ => assert (Eps : ps' = x :: ps2) by congruence end.
    rewrite Eps. unfold all_blocks. cbn [flat_map ebn_blocks ebn_with]. rewrite Eb.
    apply Forall2_app; [eapply enc_blocks_static; exact E1 | apply (IH _ _ _ eq_refl)].
  - cbn [map enc_bands] in Henc. rewrite (prepare_band_empty p l He) in Henc. rewrite He in Henc.
    destruct (enc_bands (map (fun p0 => prepare_band p0 l) ps) l) as [[[bs2 incs2] ps2]| | |] eqn:E2;
      cbn [obind] in Henc; try discriminate.
    apply ok_inj in Henc. assert (ps' = p :: ps2) by congruence. subst.
    unfold all_blocks. cbn [flat_map]. rewrite He. cbn [app]. apply (IH _ _ _ eq_refl).
  - apply (IH _ _ _ Henc).
Qed.

Lemma enc_header_static : forall termAll L l ps ds hdr incs ps', BandsRel termAll L l ps ds -> 0 <= l ->
  enc_header ps l = Ok (hdr, incs, ps') -> Forall2 same_static (all_blocks ps) (all_blocks ps').
Proof.
  intros termAll L l ps ds hdr incs ps' HR Hl H. unfold enc_header, enc_header_bits in H.
  destruct (negb (has_code_blocks ps)).
  - cbn [obind] in H. apply ok_inj in H. assert (ps' = ps) by congruence. subst. apply forall2_refl_static.
  - destruct (enc_bands (map (fun p => prepare_band p l) ps) l) as [[[bs incs0] ps0]| | |] eqn:E; cbn [obind] in H;
      try discriminate.
    apply ok_inj in H. assert (ps' = ps0) by congruence. subst.
    eapply enc_bands_static; eassumption.
Qed.

(* ---------- the body loop keeps every field but DataLength ---------- *)

Definition same_fields (i : dincl) (x : dincl * list Z * bool) : Prop :=
  di_included (fst (fst x)) = di_included i /\ di_zbp (fst (fst x)) = di_zbp i /\
  di_pl (fst (fst x)) = di_pl i /\ di_termall (fst (fst x)) = di_termall i.

Lemma dec_body_fields : forall incs data offset strict resilient partial out off' pt,
  dec_body data offset strict resilient partial incs = Ok (out, off', pt) -> Forall2 same_fields incs out.
Proof.
  induction incs as [|i incs IH]; intros data offset strict resilient partial out off' pt H; cbn [dec_body] in H.
  - apply ok_inj in H. assert (out = []) by congruence. subst. constructor.
  - assert (Hun : forall l : list dincl, Forall2 same_fields l (map (fun j => (j, @nil Z, false)) l)).
    { induction l; cbn [map]; constructor; [unfold same_fields; cbn; repeat split; reflexivity | assumption]. }
    destruct (di_included i && (0 <? di_len i)).
    + destruct (offset >=? zlen data).
      { apply ok_inj in H. assert (out = map (fun j => (j, @nil Z, false)) (i :: incs)) by congruence. subst. apply Hun. }
      destruct ((offset + di_len i >? zlen data) && strict); [discriminate|].
      match type of H with context [if (?len1 >? 65535) && strict then _ else _] =>
        destruct ((len1 >? 65535) && strict); [discriminate|] end.
      match type of H with obind (slice data offset ?e) _ = _ => destruct (slice data offset e) as [d| | |] end;
        cbn [obind] in H; try discriminate.
      match type of H with obind ?x _ = _ => destruct x as [[[l off] pt0]| | |] eqn:E end; cbn [obind] in H; try discriminate.
      apply ok_inj in H.
      match type of H with (?hd :: l, _, _) = _ => assert (out = hd :: l) by congruence end. subst out.
      constructor; [unfold same_fields; cbn; repeat split; reflexivity | eapply IH; exact E].
    + destruct (dec_body data offset strict resilient partial incs) as [[[l off] pt0]| | |] eqn:E; cbn [obind] in H;
        try discriminate.
      apply ok_inj in H. assert (out = (i, [], false) :: l) by congruence. subst out.
      constructor; [unfold same_fields; cbn; repeat split; reflexivity | eapply IH; exact E].
Qed.

(* ---------- one packet ---------- *)

Definition field_rel (termAll : bool) (l : Z) (b : eblock) (x : dincl * list Z * bool) : Prop :=
  di_included (fst (fst x)) = true ->
  di_zbp (fst (fst x)) = eb_zbp b /\
  di_pl (fst (fst x)) = expect_pls termAll b l /\
  di_termall (fst (fst x)) = (if 0 <? zlen (expect_pls termAll b l) then termAll else false).

Lemma field_rel_static : forall termAll l b b' x, same_static b b' -> field_rel termAll l b' x -> field_rel termAll l b x.
Proof. intros termAll l b b' x Hs H. unfold same_static in Hs. rewrite Hs in H. exact H. Qed.

Lemma exp_d_fields : forall termAll l ps out,
  Forall2 same_fields (exp_d termAll l ps) out -> Forall2 (field_rel termAll l) (all_blocks ps) out.
Proof.
  intros termAll l ps. unfold exp_d, all_blocks.
  assert (G : forall bl out, Forall2 same_fields (map (fun b => expect_dincl termAll b l) bl) out ->
            Forall2 (field_rel termAll l) bl out).
  { induction bl as [|b bl IH]; intros out H; cbn [map] in H; inversion H; subst; constructor; [|apply IH; assumption].
    match goal with H1 : same_fields _ ?y |- _ => destruct H1 as [A [B [C D]]] end.
    unfold field_rel. intros Hi. rewrite A in Hi. unfold expect_dincl in *.
    destruct (b_inc b l); [|cbn in Hi; discriminate]. cbn in B, C, D. repeat split; assumption. }
  induction ps as [|p ps IH]; intros out H; cbn [flat_map] in *; [inversion H; constructor|].
  rewrite <- flat_map_concat_map in H || idtac.
  apply Forall2_app_inv_l in H as [o1 [o2 [H1 [H2 ->]]]].
  apply Forall2_app; [apply G; exact H1 | apply IH; exact H2].
Qed.

Section Tile.
Variables (termAll : bool) (L : Z) (geo : dgeo) (strict resilient : bool).

(* the fields of the packet decodePacket returns, in terms of the cell's current blocks *)
Lemma packet_fields : forall l c r p store bands hdr body incs bands' pre post dp off store',
  0 <= l < L -> ids_ok r (map ebn_band bands) ->
  BandsRel termAll L l bands (cell_bands_d geo store (c, r, p)) ->
  enc_packet bands l r = Ok (hdr, body, incs, bands') ->
  dec_packet (pre ++ (hdr ++ body) ++ post) (zlen pre) geo store termAll strict resilient (l, r, c, p) =
    Ok (dp, off, store') ->
  Forall2 (field_rel termAll l) (all_blocks bands) (dp_incls dp) /\
  Forall2 same_static (all_blocks bands) (all_blocks bands').
Proof.
  intros l c r p store bands hdr body incs bands' pre post dp off store' Hl Hids HR He Hd.
  unfold enc_packet in He. rewrite (order_bands_id r bands Hids) in He.
  destruct (enc_header bands l) as [[[hdr0 incs0] upd]| | |] eqn:Eh; cbn [obind] in He; try discriminate.
  apply ok_inj in He.
  assert (hdr0 = hdr /\ body = packet_body incs0 /\ incs0 = incs /\ bands' = write_back bands upd)
    as [-> [-> [-> ->]]] by (repeat split; congruence).
  pose proof (enc_header_ids _ _ _ _ _ Eh) as Hupd_ids.
  rewrite (write_back_same_ids bands upd (ids_ok_nodup _ _ Hids) Hupd_ids).
  split; [|apply (enc_header_static termAll L l bands _ hdr incs upd HR ltac:(lia) Eh)].
  destruct (packet_header_roundtrip termAll L l bands _ hdr incs upd (packet_body incs ++ post) HR Hl Eh)
    as [ds' [Ep [Hincs _]]].
  pose proof (enc_header_nonempty _ _ _ _ _ Eh) as Hh1.
  set (data := pre ++ (hdr ++ packet_body incs) ++ post) in *.
  assert (Hdl : zlen data = zlen pre + zlen hdr + zlen (packet_body incs) + zlen post)
    by (unfold data; rewrite !zlen_app; lia).
  pose proof (zlen_nonneg pre). pose proof (zlen_nonneg post). pose proof (zlen_nonneg (packet_body incs)).
  assert (Hskip : skipn (Z.to_nat (zlen pre)) data = hdr ++ packet_body incs ++ post).
  { unfold data. rewrite skipn_zlen_app, <- app_assoc. reflexivity. }
  unfold dec_packet in Hd.
  destruct (Z.geb_spec (zlen pre) (zlen data)); [lia|]. destruct (Z.ltb_spec (zlen pre) 0); [lia|].
  rewrite Hskip in Hd. unfold cell_bands_d in Ep. rewrite Ep in Hd. cbn [obind] in Hd.
  destruct (has_code_blocks bands) eqn:Hcb; cbn [negb] in Hd.
  - destruct (dec_body data (zlen pre + zlen hdr) strict resilient false (exp_d termAll l bands))
      as [[[out off2] pt]| | |] eqn:Eb; cbn [obind] in Hd; try discriminate.
    apply ok_inj in Hd.
    match type of Hd with (?x, _, _) = _ => assert (dp = x) by congruence end. subst dp. cbn [dp_incls].
    apply exp_d_fields. eapply dec_body_fields. exact Eb.
  - apply ok_inj in Hd.
    match type of Hd with (?x, _, _) = _ => assert (dp = x) by congruence end. subst dp. cbn [dp_incls].
    destruct (bandsrel_no_blocks termAll L l bands _ HR Hcb) as [Hno _].
    assert (Hab : all_blocks bands = []).
    { clear - Hcb. unfold all_blocks, has_code_blocks in *. induction bands as [|b bs IH]; [reflexivity|].
      cbn [existsb flat_map] in *. apply Bool.orb_false_iff in Hcb as [H1 H2]. rewrite (IH H2), app_nil_r.
      destruct (ebn_blocks b) as [|x xs]; [reflexivity|]. rewrite zlen_cons in H1. pose proof (zlen_nonneg xs).
      destruct (Z.ltb_spec 0 (zlen xs + 1)); [discriminate | lia]. }
    rewrite Hab. constructor.
Qed.

(* ---------- the stream ---------- *)

Definition PktFields (cells0 : ecells) (ep : epacket) (dp : dpacket) : Prop :=
  exists bands0, aget key3_eqb cells0 (item_key (ep_item ep)) = Some bands0 /\
    Forall2 (fun (b : eblock) (x : dincl * list Z * bool) =>
               di_included (fst (fst x)) = true ->
               di_zbp (fst (fst x)) = eb_zbp b /\
               di_pl (fst (fst x)) = expect_pls termAll b (item_layer (ep_item ep)) /\
               di_termall (fst (fst x)) =
                 (if 0 <? zlen (expect_pls termAll b (item_layer (ep_item ep))) then termAll else false))
            (flat_map ebn_blocks bands0) (dp_incls dp).

Lemma forall2_static_trans : forall a b c, Forall2 same_static a b -> Forall2 same_static b c -> Forall2 same_static a c.
Proof.
  intros a b c H. revert c. induction H as [|x y a b Hxy _ IH]; intros c Hc; inversion Hc; subst; constructor.
  - eapply same_static_trans; eassumption.
  - apply IH. assumption.
Qed.

Lemma fields_static : forall l bl0 bl out, Forall2 same_static bl0 bl -> Forall2 (field_rel termAll l) bl out ->
  Forall2 (field_rel termAll l) bl0 out.
Proof.
  intros l bl0 bl out H. revert out. induction H as [|x y a b Hxy _ IH]; intros out Ho; inversion Ho; subst; constructor.
  - eapply field_rel_static; eassumption.
  - apply IH. assumption.
Qed.

Theorem packet_stream_fields : forall keys items cells0 cells store nxt pre eps cells' dps,
  (forall k, In k keys -> CellRel termAll L geo (nxt k) k cells store) ->
  (forall k, In k keys -> exists b b0, aget key3_eqb cells k = Some b /\ aget key3_eqb cells0 k = Some b0 /\
                                       Forall2 same_static (all_blocks b0) (all_blocks b)) ->
  Sched L keys nxt items ->
  enc_items cells items = Ok (eps, cells') -> small_packets eps ->
  dec_items (pre ++ packets_bytes eps) (zlen pre) geo store termAll strict resilient items = Ok dps ->
  Forall2 (PktFields cells0) eps dps.
Proof.
  intros keys items. induction items as [|[[[l r] c] p] items IH];
    intros cells0 cells store nxt pre eps cells' dps Hcells Hst0 [Hin Hvis] He Hsmall Hdec.
  - cbn [enc_items] in He. apply ok_inj in He. assert (eps = []) by congruence. subst.
    cbn [dec_items] in Hdec. apply ok_inj in Hdec. subst. constructor.
  - set (k := (c, r, p)).
    assert (Hk : In k keys) by (apply (Hin (l, r, c, p)); left; reflexivity).
    pose proof (Hvis k Hk) as Hv. unfold visits in Hv. cbn [flat_map item_key item_layer] in Hv.
    fold k in Hv. rewrite key3_eqb_refl in Hv. cbn [app] in Hv. fold (visits k items) in Hv.
    destruct (Hcells k Hk) as [HnL | [Hn [bands [Hget [Hne [Hids HR]]]]]].
    { rewrite HnL, layers_from_end in Hv. discriminate. }
    rewrite (layers_from_cons _ _ Hn) in Hv.
    assert (l = nxt k /\ visits k items = layers_from L (nxt k + 1)) as [El Hv'] by (split; congruence).
    subst l.
    cbn [enc_items] in He. fold k in He. rewrite Hget in He.
    destruct bands as [|b0 bl0] eqn:Eb; [congruence|]. rewrite <- Eb in *.
    assert (He' : obind (enc_packet bands (nxt k) r) (fun res => let '(hdr, body, incs, bands') := res in
              obind (enc_items (aset key3_eqb cells k bands') items) (fun res' =>
                Ok ({| ep_item := (nxt k, r, c, p); ep_header := hdr; ep_body := body; ep_incls := incs |} :: fst res',
                    snd res'))) = Ok (eps, cells')) by (rewrite Eb in He |- *; exact He).
    clear He.
    destruct (enc_packet bands (nxt k) r) as [[[[hdr body] incs] bands']| | |] eqn:Ep; cbn [obind] in He'; try discriminate.
    destruct (enc_items (aset key3_eqb cells k bands') items) as [[eps2 cells2]| | |] eqn:E2; cbn [obind] in He'; try discriminate.
    apply ok_inj in He'. cbn [fst snd] in He'.
    assert (eps = {| ep_item := (nxt k, r, c, p); ep_header := hdr; ep_body := body; ep_incls := incs |} :: eps2)
      by congruence. subst eps.
    pose proof (Forall_inv Hsmall) as Hs1. cbn [ep_incls] in Hs1. pose proof (Forall_inv_tail Hsmall) as Hs2.
    unfold packets_bytes in Hdec. cbn [flat_map ep_header ep_body] in Hdec. fold (packets_bytes eps2) in Hdec.
    destruct (packet_step termAll L geo strict resilient (nxt k) c r p cells store bands hdr body incs bands' pre
                (packets_bytes eps2) Hn Hget Hne Hids HR Ep Hs1) as [dp [store' [Ed [_ [HC' [Hoth [Hh1 _]]]]]]].
    destruct (packet_fields (nxt k) c r p store bands hdr body incs bands' pre (packets_bytes eps2) dp _ store'
                Hn Hids HR Ep Ed) as [Hf Hstat].
    cbn [dec_items] in Hdec.
    assert (Hlt : (zlen pre >=? zlen (pre ++ (hdr ++ body) ++ packets_bytes eps2)) = false).
    { rewrite !zlen_app. pose proof (zlen_nonneg body). pose proof (zlen_nonneg (packets_bytes eps2)).
      destruct (Z.geb_spec (zlen pre) (zlen pre + (zlen hdr + zlen body + zlen (packets_bytes eps2)))); [lia | reflexivity]. }
    rewrite Hlt, Ed in Hdec. cbn [obind] in Hdec.
    replace (pre ++ (hdr ++ body) ++ packets_bytes eps2) with ((pre ++ hdr ++ body) ++ packets_bytes eps2) in Hdec
      by (rewrite <- !app_assoc; reflexivity).
    replace (zlen pre + zlen hdr + zlen body) with (zlen (pre ++ hdr ++ body)) in Hdec by (rewrite !zlen_app; lia).
    destruct (dec_items ((pre ++ hdr ++ body) ++ packets_bytes eps2) (zlen (pre ++ hdr ++ body)) geo store' termAll
                strict resilient items) as [dps2| | |] eqn:Ed2; cbn [obind] in Hdec; try discriminate.
    apply ok_inj in Hdec. subst dps.
    set (nxt' := fun k' => if key3_eqb k' k then nxt k + 1 else nxt k').
    destruct (Hst0 k Hk) as [bb [bb0 [Gb [Gb0 Gst]]]]. rewrite Hget in Gb. assert (bb = bands) by congruence. subst bb.
    constructor.
    + exists bb0. cbn [ep_item item_key item_layer]. fold k. split; [exact Gb0|].
      apply (fields_static (nxt k) (all_blocks bb0) (all_blocks bands) _ Gst Hf).
    + apply (IH cells0 (aset key3_eqb cells k bands') store' nxt' (pre ++ hdr ++ body) eps2 cells2 dps2); try assumption.
      * intros k' Hk'. unfold nxt'. destruct (key3_eqb k' k) eqn:Ek.
        -- apply key3_eqb_eq in Ek. subst k'. exact HC'.
        -- assert (Hne' : k' <> k) by (intros ->; rewrite key3_eqb_refl in Ek; discriminate).
           destruct (Hcells k' Hk') as [HL | [Hn' [bands2 [G1 [G2 [G3 G4]]]]]]; [left; exact HL|].
           right. split; [exact Hn'|]. exists bands2.
           rewrite aget3_aset_other by (intros E; apply Hne'; symmetry; exact E).
           split; [exact G1|]. split; [exact G2|]. split; [exact G3|]. rewrite (Hoth k' Hne'). exact G4.
      * intros k' Hk'. destruct (key3_eqb k' k) eqn:Ek.
        -- apply key3_eqb_eq in Ek. subst k'. exists bands', bb0. rewrite aget3_aset_same.
           split; [reflexivity|]. split; [exact Gb0|]. apply (forall2_static_trans _ _ _ Gst Hstat).
        -- assert (Hne' : k' <> k) by (intros ->; rewrite key3_eqb_refl in Ek; discriminate).
           destruct (Hst0 k' Hk') as [b1 [b2 [G1 [G2 G3]]]]. exists b1, b2.
           rewrite aget3_aset_other by (intros E; apply Hne'; symmetry; exact E). repeat split; assumption.
      * split; [intros it Hit; apply Hin; right; exact Hit|].
        intros k' Hk'. unfold nxt'. destruct (key3_eqb k' k) eqn:Ek.
        -- apply key3_eqb_eq in Ek. subst k'. exact Hv'.
        -- pose proof (Hvis k' Hk') as Hv2. unfold visits in Hv2. cbn [flat_map item_key item_layer] in Hv2.
           fold k in Hv2. assert (Ek' : key3_eqb k k' = false).
           { destruct (key3_eqb k k') eqn:E; [|reflexivity]. apply key3_eqb_eq in E. subst k'. rewrite key3_eqb_refl in Ek. discriminate. }
           rewrite Ek' in Hv2. cbn [app] in Hv2. exact Hv2.
Qed.

End Tile.

(* ---------- EncodePackets then DecodePackets ---------- *)

Section Deliver.
Variables (termAll : bool) (style : Z) (nl nr nc order : Z) (g : pgeom) (pidx : Z -> Z -> list Z)
          (geo : dgeo) (strict resilient : bool) (cells0 : ecells).
Hypothesis G1 : termAll = negb (Z.land style 4 =? 0).
Hypothesis G2 : forall c r, enc_pidx cells0 c r = pidx c r.
Hypothesis G2' : forall c r, NoDup (pidx c r).
Hypothesis G3 : 2 <= order -> pk_ok nr nc pidx (precinct_position_key g nr).
Hypothesis G4 : forall k, In k (cell_keys nr nc pidx) -> CellRel termAll nl geo 0 k cells0 [].
Hypothesis Ho : 0 <= order <= 4.
Hypothesis Hnl : 0 < nl.

Theorem packets_deliver_fields : forall eps cells',
  enc_packets order nl nr nc g cells0 = Ok (eps, cells') -> small_packets eps ->
  exists dps items,
    dec_packets (packets_bytes eps) order nl nr nc g pidx geo style strict resilient = Ok dps /\
    prog_seq order nl nr nc pidx (precinct_position_key g nr) = Some items /\
    Sched nl (cell_keys nr nc pidx) (fun _ => 0) items /\
    map ep_item eps = items /\ Forall2 PktMatch eps dps /\ Forall (incls_ok cells0) eps /\
    Forall2 (PktFields termAll cells0) eps dps.
Proof.
  intros eps cells' He Hsmall.
  destruct (packets_deliver_blocks termAll style nl nr nc order g pidx geo strict resilient cells0
              G1 G2 G2' G3 G4 Ho Hnl eps cells' He Hsmall) as [dps [items [Ed [Eseq [Hsched [Hitems [HM Hok]]]]]]].
  exists dps, items. repeat (split; [assumption|]).
  unfold enc_packets in He. rewrite (prog_seq_ext order nl nr nc _ pidx _ G2), Eseq in He.
  unfold dec_packets in Ed. rewrite Eseq, <- G1 in Ed.
  apply (packet_stream_fields termAll nl geo strict resilient (cell_keys nr nc pidx) items cells0 cells0 []
           (fun _ => 0) [] eps cells' dps G4); try assumption.
  intros k Hk. destruct (G4 k Hk) as [E|[Hn [bands [Hget _]]]]; [lia|].
  exists bands, bands. split; [exact Hget|]. split; [exact Hget | apply forall2_refl_static].
Qed.

End Deliver.
