(* C04 (t2): tag-tree coding is inverted by the decoder (tagtree.go Encode / Decode / SetValue).
   Part 1: one node (the two inner loops), the root-to-leaf walk. *)
From V Require Import Common.Base T2.T2Bio T2.T2TagTree T2.T2ProofsBio T2.T2ProofsStore.

(* ---------- the encoder's inner loop in closed form ---------- *)

Lemma repeat_cons : forall {A} (x : A) n, x :: repeat x n = repeat x (S n).
Proof. reflexivity. Qed.

Lemma enc_loop_spec : forall m fuel L thr v u k, Z.to_nat (thr - L) = m -> (m < fuel)%nat ->
  (u = false -> L <= v) ->
  tt_enc_loop fuel L thr v u k =
    if L <? thr then
      if u then (repeat 0 (Z.to_nat (thr - L)), thr, k)
      else if v <? thr then (repeat 0 (Z.to_nat (v - L)) ++ (if k then [] else [1]), v, true)
      else (repeat 0 (Z.to_nat (thr - L)), thr, k)
    else ([], L, k).
Proof.
  induction m as [|m IH]; intros fuel L thr v u k Hm Hf Hv; (destruct fuel as [|f]; [lia|]); cbn [tt_enc_loop].
  - destruct (Z.ltb_spec L thr); [lia | reflexivity].
  - destruct (Z.ltb_spec L thr) as [Hlt|]; [|reflexivity].
    destruct u; cbn [negb andb].
    + rewrite (IH f (L + 1) thr v true k) by (try lia; discriminate).
      destruct (Z.ltb_spec (L + 1) thr) as [H1|H1].
      * replace (Z.to_nat (thr - L)) with (S (Z.to_nat (thr - (L + 1)))) by lia. reflexivity.
      * assert (thr = L + 1) by lia. subst thr.
        replace (Z.to_nat (L + 1 - L)) with 1%nat by lia. reflexivity.
    + specialize (Hv eq_refl).
      destruct (Z.geb_spec L v) as [Hge|Hlt2].
      * assert (L = v) by lia. subst v. destruct (Z.ltb_spec L thr); [|lia].
        rewrite Z.sub_diag. reflexivity.
      * rewrite (IH f (L + 1) thr v false k) by (try lia; intros _; lia).
        destruct (Z.ltb_spec (L + 1) thr) as [H1|H1].
        -- destruct (Z.ltb_spec v thr).
           ++ replace (Z.to_nat (v - L)) with (S (Z.to_nat (v - (L + 1)))) by lia. reflexivity.
           ++ replace (Z.to_nat (thr - L)) with (S (Z.to_nat (thr - (L + 1)))) by lia. reflexivity.
        -- assert (thr = L + 1) by lia. subst thr. destruct (Z.ltb_spec v (L + 1)); [lia|].
           replace (Z.to_nat (L + 1 - L)) with 1%nat by lia. reflexivity.
Qed.

(* ---------- the decoder's inner loop on a run of zero bits ---------- *)

Lemma dec_zeros : forall n rest r L thr vd ud more extra,
  BitsAt rest r (repeat 0 n ++ more) -> L + Z.of_nat n <= thr -> (ud = true \/ L + Z.of_nat n <= vd) ->
  exists r', BitsAt rest r' more /\
    tt_dec_loop (n + extra) r L thr vd ud = tt_dec_loop extra r' (L + Z.of_nat n) thr vd ud.
Proof.
  induction n as [|n IH]; intros rest r L thr vd ud more extra HB Ht Hv.
  - exists r. split; [exact HB|]. cbn [Nat.add]. rewrite Z.add_0_r. reflexivity.
  - cbn [repeat app] in HB. destruct (bitsat_step _ _ _ _ HB) as [r1 [E HB1]].
    destruct (IH rest r1 (L + 1) thr vd ud more extra HB1 ltac:(lia) ltac:(destruct Hv; [left; assumption | right; lia]))
      as [r' [HB' E']].
    exists r'. split; [exact HB'|]. cbn [Nat.add tt_dec_loop].
    destruct (Z.ltb_spec L thr); [|lia].
    assert (Hc : (ud || (L <? vd)) = true).
    { destruct Hv as [->|Hv]; [reflexivity|]. destruct (Z.ltb_spec L vd); [apply Bool.orb_true_r | lia]. }
    rewrite Hc. cbn [andb].
    rewrite E. cbn [obind fst snd]. change (0 =? 0) with true. cbn iota.
    rewrite E'. f_equal. lia.
Qed.

(* ---------- one node: encoder and decoder stay in step ---------- *)

Lemma dec_loop_unfold : forall f r L thr v u,
  tt_dec_loop (S f) r L thr v u =
  if (L <? thr) && (u || (L <? v)) then
    obind (rd_read_bit r) (fun br =>
      if fst br =? 0 then tt_dec_loop f (snd br) (L + 1) thr v u else tt_dec_loop f (snd br) L thr L false)
  else Ok (L, v, u, r).
Proof. reflexivity. Qed.

Lemma dec_loop_stop : forall f r L thr v u, thr <= L \/ (u = false /\ v <= L) ->
  tt_dec_loop (S f) r L thr v u = Ok (L, v, u, r).
Proof.
  intros f r L thr v u H. rewrite dec_loop_unfold.
  destruct (Z.ltb_spec L thr); cbn [andb]; [|reflexivity].
  destruct H as [H|[-> H]]; [lia|]. cbn [orb]. destruct (Z.ltb_spec L v); [lia | reflexivity].
Qed.

(* encoder node (value v, unset u, known k) against decoder node (value vd, unset = not k) *)
Lemma node_sync : forall L the thd v u k vd bs L' k' rest r more,
  (u = false -> L <= v) -> (k = true -> u = false /\ L = v) ->
  (the = thd \/ (u = false /\ v < the /\ v < thd)) -> (k = true -> vd = v) ->
  tt_enc_loop (loop_fuel L the) L the v u k = (bs, L', k') ->
  BitsAt rest r (bs ++ more) ->
  exists r' vd', tt_dec_loop (loop_fuel L thd) r L thd vd (negb k) = Ok (L', vd', negb k', r') /\
    BitsAt rest r' more /\ (k' = true -> vd' = v) /\
    L <= L' /\ (u = false -> L' <= v) /\ (k' = true -> u = false /\ L' = v) /\
    (u = false -> v < the -> k' = true) /\ L' <= Z.max L the.
Proof.
  intros L the thd v u k vd bs L' k' rest r more Hv Hk Hc Hvd He HB.
  rewrite (enc_loop_spec (Z.to_nat (the - L))) in He by (try (unfold loop_fuel; lia); exact Hv).
  destruct (Z.ltb_spec L the) as [Hlt|Hge].
  2:{ (* nothing to say at this node *)
    inversion He; subst bs L' k'. cbn [app] in HB.
    exists r, vd. split.
    - unfold loop_fuel. apply dec_loop_stop. left. destruct Hc as [<-|[Hu [H1 H2]]]; [lia|].
      specialize (Hv Hu). lia.
    - split; [exact HB|]. split; [exact Hvd|]. repeat split; try lia; auto; try (apply Hk; assumption).
      intros Hu Hvt. specialize (Hv Hu). lia. }
  destruct u.
  - (* unset on the encoder side: zeros up to the threshold *)
    inversion He; subst bs L' k'. clear He.
    assert (the = thd) by (destruct Hc as [|[? _]]; [assumption | discriminate]). subst thd.
    destruct k; [destruct (Hk eq_refl); discriminate|]. cbn [negb].
    destruct (dec_zeros (Z.to_nat (the - L)) rest r L the vd true more 2 HB ltac:(lia) ltac:(left; reflexivity))
      as [r1 [HB1 E1]].
    exists r1, vd. split.
    + unfold loop_fuel.
      replace (S (S (Z.to_nat (the - L)))) with (Z.to_nat (the - L) + 2)%nat by lia.
      rewrite E1. rewrite Z2Nat.id by lia. replace (L + (the - L)) with the by lia.
      apply dec_loop_stop. left. lia.
    + split; [exact HB1|]. repeat split; try lia; intros; discriminate.
  - specialize (Hv eq_refl).
    destruct (Z.ltb_spec v the) as [Hvt|Hvt].
    + inversion He; subst bs L' k'. clear He.
      assert (Hvd2 : v < thd) by (destruct Hc as [<-|[_ [_ H]]]; lia).
      destruct k; cbn [negb].
      * (* already known: both silent *)
        destruct (Hk eq_refl) as [_ HLv]. subst v. rewrite Z.sub_diag in HB. cbn [Z.to_nat repeat app] in HB.
        rewrite (Hvd eq_refl).
        exists r, L. split.
        -- unfold loop_fuel. apply dec_loop_stop. right. split; [reflexivity | lia].
        -- split; [exact HB|]. repeat split; try lia; auto.
      * rewrite <- app_assoc in HB.
        destruct (dec_zeros (Z.to_nat (v - L)) rest r L thd vd true ([1] ++ more)
                    (2 + Z.to_nat (thd - v)) HB ltac:(lia) ltac:(left; reflexivity)) as [r1 [HB1 E1]].
        cbn [app] in HB1. destruct (bitsat_step _ _ _ _ HB1) as [r2 [E2 HB2]].
        exists r2, v. split.
        -- unfold loop_fuel.
           replace (S (S (Z.to_nat (thd - L)))) with (Z.to_nat (v - L) + (2 + Z.to_nat (thd - v)))%nat by lia.
           rewrite E1. rewrite Z2Nat.id by lia. replace (L + (v - L)) with v by lia.
           change (2 + Z.to_nat (thd - v))%nat with (S (S (Z.to_nat (thd - v)))).
           rewrite dec_loop_unfold.
           destruct (Z.ltb_spec v thd); [|lia]. cbn [andb orb].
           rewrite E2. cbn [obind fst snd]. change (1 =? 0) with false. cbn iota.
           apply dec_loop_stop. right. split; [reflexivity | lia].
        -- split; [exact HB2|]. repeat split; try lia; auto.
    + (* the value is not below the threshold: zeros up to the threshold *)
      inversion He; subst bs L' k'. clear He.
      assert (the = thd) by (destruct Hc as [|[_ [? ?]]]; [assumption | lia]). subst thd.
      destruct k; [destruct (Hk eq_refl); lia|]. cbn [negb].
      destruct (dec_zeros (Z.to_nat (the - L)) rest r L the vd true more 2 HB ltac:(lia) ltac:(left; reflexivity))
        as [r1 [HB1 E1]].
      exists r1, vd. split.
      * unfold loop_fuel.
        replace (S (S (Z.to_nat (the - L)))) with (Z.to_nat (the - L) + 2)%nat by lia.
        rewrite E1. rewrite Z2Nat.id by lia. replace (L + (the - L)) with the by lia.
        apply dec_loop_stop. left. lia.
      * split; [exact HB1|]. repeat split; try lia; intros; try discriminate; lia.
Qed.

(* ---------- node-level relations ---------- *)

Definition NodeRel (te td : ttree) (id : Z * Z) : Prop :=
  nl te id = nl td id /\ nu td id = negb (nk te id) /\ (nk te id = true -> nv td id = nv te id).
Definition NodeInv (te : ttree) (id : Z * Z) : Prop :=
  (nu te id = false -> nl te id <= nv te id) /\ (nk te id = true -> nu te id = false /\ nl te id = nv te id).

(* from the root to the leaf: a set node has a set parent with a value not above its own *)
Fixpoint incr_chain (t : ttree) (ids : list (Z * Z)) : Prop :=
  match ids with
  | a :: ((b :: _) as r) => (nu t b = false -> nu t a = false /\ nv t a <= nv t b) /\ incr_chain t r
  | _ => True
  end.

Lemma incr_chain_ext : forall t t' ids, (forall i, nv t' i = nv t i) -> (forall i, nu t' i = nu t i) ->
  incr_chain t ids -> incr_chain t' ids.
Proof.
  intros t t' ids H Hu. induction ids as [|a ids IH]; [auto|]. destruct ids as [|b l]; [auto|].
  intros Hc. change ((nu t b = false -> nu t a = false /\ nv t a <= nv t b) /\ incr_chain t (b :: l)) in Hc.
  destruct Hc as [H1 H2].
  change ((nu t' b = false -> nu t' a = false /\ nv t' a <= nv t' b) /\ incr_chain t' (b :: l)).
  split; [rewrite !H, !Hu; exact H1 | apply IH; exact H2].
Qed.

Lemma incr_chain_tail : forall t a l, incr_chain t (a :: l) -> incr_chain t l.
Proof. intros t a [|b l] H; [exact I|]. cbn [incr_chain] in H. tauto. Qed.

(* encoder-side update of one node *)
Definition enc_upd (t : ttree) (id : Z * Z) (low : Z) (k : bool) : ttree :=
  tt_with t (tt_nodes t) (set2 (tt_low t) (fst id) (snd id) low) (set2 (tt_known t) (fst id) (snd id) k)
          (tt_unset t).
Definition dec_upd (t : ttree) (id : Z * Z) (v low : Z) (u : bool) : ttree :=
  tt_with t (set2 (tt_nodes t) (fst id) (snd id) v) (set2 (tt_low t) (fst id) (snd id) low) (tt_known t)
          (set2 (tt_unset t) (fst id) (snd id) u).

Lemma pair_neq : forall (a b : Z * Z), a <> b -> (fst a, snd a) <> (fst b, snd b).
Proof. intros [a1 a2] [b1 b2] H. exact H. Qed.

Lemma same_shapes_vid_low : forall t id, same_shapes t -> vid t id -> valid2 (tt_low t) (fst id) (snd id) = true.
Proof. intros t id [H _] Hv. rewrite (valid2_shape _ (tt_nodes t)) by exact H. exact Hv. Qed.
Lemma same_shapes_vid_known : forall t id, same_shapes t -> vid t id -> valid2 (tt_known t) (fst id) (snd id) = true.
Proof. intros t id [_ [H _]] Hv. rewrite (valid2_shape _ (tt_nodes t)) by exact H. exact Hv. Qed.
Lemma same_shapes_vid_unset : forall t id, same_shapes t -> vid t id -> valid2 (tt_unset t) (fst id) (snd id) = true.
Proof. intros t id [_ [_ H]] Hv. rewrite (valid2_shape _ (tt_nodes t)) by exact H. exact Hv. Qed.

Lemma enc_upd_facts : forall t id low k, same_shapes t -> vid t id ->
  let t' := enc_upd t id low k in
  tt_nodes t' = tt_nodes t /\ tt_unset t' = tt_unset t /\ same_shapes t' /\
  tt_w t' = tt_w t /\ tt_h t' = tt_h t /\ tt_lw t' = tt_lw t /\
  nl t' id = low /\ nk t' id = k /\
  (forall id', id' <> id -> nl t' id' = nl t id' /\ nk t' id' = nk t id').
Proof.
  intros t id low k Hs Hv t'. subst t'. unfold enc_upd, tt_with, same_shapes, nl, nk.
  cbn [tt_nodes tt_low tt_known tt_unset tt_w tt_h tt_lw]. rewrite !set2_shape.
  pose proof Hs as [H1 [H2 H3]].
  repeat split; try assumption.
  - apply get2_set2_same. apply same_shapes_vid_low; assumption.
  - apply get2_set2_same. apply same_shapes_vid_known; assumption.
  - apply get2_set2_other. apply pair_neq. congruence.
  - apply get2_set2_other. apply pair_neq. congruence.
Qed.

Lemma dec_upd_facts : forall t id v low u, same_shapes t -> vid t id ->
  let t' := dec_upd t id v low u in
  shape (tt_nodes t') = shape (tt_nodes t) /\ same_shapes t' /\
  tt_w t' = tt_w t /\ tt_h t' = tt_h t /\ tt_lw t' = tt_lw t /\
  nl t' id = low /\ nv t' id = v /\ nu t' id = u /\
  (forall id', id' <> id -> nl t' id' = nl t id' /\ nv t' id' = nv t id' /\ nu t' id' = nu t id').
Proof.
  intros t id v low u Hs Hv t'. subst t'. unfold dec_upd, tt_with, same_shapes, nl, nv, nu.
  cbn [tt_nodes tt_low tt_known tt_unset tt_w tt_h tt_lw]. rewrite !set2_shape.
  pose proof Hs as [H1 [H2 H3]].
  repeat split; try assumption.
  - apply get2_set2_same. apply same_shapes_vid_low; assumption.
  - apply get2_set2_same. exact Hv.
  - apply get2_set2_same. apply same_shapes_vid_unset; assumption.
  - apply get2_set2_other. apply pair_neq. congruence.
  - apply get2_set2_other. apply pair_neq. congruence.
  - apply get2_set2_other. apply pair_neq. congruence.
Qed.

Lemma vid_shape : forall t t' id, shape (tt_nodes t') = shape (tt_nodes t) -> vid t id -> vid t' id.
Proof. intros t t' id H Hv. unfold vid in *. rewrite (valid2_shape _ (tt_nodes t)) by exact H. exact Hv. Qed.

(* ---------- the root-to-leaf walk ---------- *)

Definition node_pre (te td : ttree) (the thd M : Z) (id : Z * Z) : Prop :=
  vid te id /\ NodeRel te td id /\ NodeInv te id /\
  (the = thd \/ (nu te id = false /\ nv te id < the /\ nv te id < thd)) /\ nl te id <= M.

Definition node_post (te te' td' : ttree) (the M : Z) (id : Z * Z) : Prop :=
  NodeRel te' td' id /\ NodeInv te' id /\ (nu te id = false -> nv te id < the -> nk te' id = true) /\
  nl te' id <= Z.max M the.

Definition frame (te te' td td' : ttree) (ids : list (Z * Z)) : Prop :=
  forall id, ~ In id ids ->
    nl te' id = nl te id /\ nk te' id = nk te id /\ nl td' id = nl td id /\ nv td' id = nv td id /\
    nu td' id = nu td id.

Definition same_geom (t t' : ttree) : Prop :=
  tt_w t' = tt_w t /\ tt_h t' = tt_h t /\ tt_lw t' = tt_lw t /\ shape (tt_nodes t') = shape (tt_nodes t)
  /\ same_shapes t'.

Lemma same_geom_trans : forall a b c, same_geom a b -> same_geom b c -> same_geom a c.
Proof.
  intros a b c [A1 [A2 [A3 [A4 A5]]]] [B1 [B2 [B3 [B4 B5]]]]. unfold same_geom.
  split; [congruence|]. split; [congruence|]. split; [congruence|]. split; [congruence | exact B5].
Qed.

Lemma same_geom_refl : forall a, same_shapes a -> same_geom a a.
Proof. intros a H. unfold same_geom. split; [reflexivity|]. split; [reflexivity|]. split; [reflexivity|]. split; [reflexivity | exact H]. Qed.

Lemma nodes_sync : forall ids te td Lin the thd M bs te' rest r more,
  NoDup ids -> same_shapes te -> same_shapes td -> shape (tt_nodes td) = shape (tt_nodes te) ->
  (forall id, In id ids -> node_pre te td the thd M id) ->
  incr_chain te ids -> (forall a l, ids = a :: l -> nu te a = false -> Lin <= nv te a) -> Lin <= M ->
  tt_enc_nodes te ids Lin the = (bs, te') ->
  BitsAt rest r (bs ++ more) ->
  exists td' r', tt_dec_nodes td ids Lin thd r = Ok (td', r') /\ BitsAt rest r' more /\
    tt_nodes te' = tt_nodes te /\ tt_unset te' = tt_unset te /\ same_geom te te' /\ same_geom td td' /\
    frame te te' td td' ids /\
    (forall id, In id ids -> node_post te te' td' the M id).
Proof.
  induction ids as [|[lv idx] ids IH];
    intros te td Lin the thd M bs te' rest r more Hnd Hse Hsd Hsh Hpre Hch Hin HM He HB.
  - cbn [tt_enc_nodes] in He.
    pose proof (f_equal fst He) as Hbs; pose proof (f_equal snd He) as Hte; cbn [fst snd] in Hbs, Hte; subst bs te'; clear He.
    cbn [app] in HB.
    exists td, r. cbn [tt_dec_nodes]. split; [reflexivity|]. split; [exact HB|]. split; [reflexivity|].
    split; [reflexivity|].
    split; [apply same_geom_refl; exact Hse|]. split; [apply same_geom_refl; exact Hsd|].
    split; [intros id _; repeat split; reflexivity | intros id []].
  - cbn [tt_enc_nodes] in He.
    set (id := (lv, idx)) in *.
    destruct (Hpre id ltac:(left; reflexivity)) as [Hvid [[Hrl [Hru Hrv]] [[Hinv Hknown] [Hcond HlM]]]].
    change (get2 (tt_low te) lv idx 0) with (nl te id) in He.
    change (get2 (tt_nodes te) lv idx 0) with (nv te id) in He.
    change (get2 (tt_known te) lv idx false) with (nk te id) in He.
    change (get2 (tt_unset te) lv idx false) with (nu te id) in He.
    set (L1 := if Lin >? nl te id then Lin else nl te id) in *.
    assert (HL1 : (nu te id = false -> L1 <= nv te id) /\ (nk te id = true -> nu te id = false /\ L1 = nv te id)
                  /\ L1 <= M /\ nl te id <= L1).
    { specialize (Hin id ids eq_refl). unfold L1. destruct (Z.gtb_spec Lin (nl te id)).
      - split; [intros Hu; specialize (Hin Hu); lia|].
        split; [intros Hk; destruct (Hknown Hk) as [Hu Hl]; split; [exact Hu | specialize (Hin Hu); lia]|].
        split; lia.
      - split; [exact Hinv|]. split; [exact Hknown|]. split; lia. }
    destruct HL1 as [HL1v [HL1k [HL1M HL1l]]].
    destruct (tt_enc_loop (loop_fuel L1 the) L1 the (nv te id) (nu te id) (nk te id)) as [[bs1 L2] k2] eqn:Eloop.
    change (tt_with te (tt_nodes te) (set2 (tt_low te) lv idx L2) (set2 (tt_known te) lv idx k2) (tt_unset te))
      with (enc_upd te id L2 k2) in He.
    destruct (tt_enc_nodes (enc_upd te id L2 k2) ids L2 the) as [bs2 te2] eqn:Erest.
    cbv beta iota zeta in He.
    pose proof (f_equal fst He) as Hbs; pose proof (f_equal snd He) as Hte; cbn [fst snd] in Hbs, Hte; subst bs te'; clear He.
    rewrite <- app_assoc in HB.
    destruct (node_sync L1 the thd (nv te id) (nu te id) (nk te id) (nv td id) bs1 L2 k2 rest r (bs2 ++ more)
                HL1v HL1k Hcond Hrv Eloop HB)
      as [r1 [vd' [Edec [HB1 [Hvd' [HL2 [HL2v [Hk2 [Hk2t HL2m]]]]]]]]].
    (* the two updated trees *)
    destruct (enc_upd_facts te id L2 k2 Hse Hvid) as [Fn [Fu [Fs [Fw [Fh [Flw [Fl [Fk Fo]]]]]]]].
    assert (Hvid_d : vid td id) by (apply (vid_shape te td); [exact Hsh | exact Hvid]).
    destruct (dec_upd_facts td id vd' L2 (negb k2) Hsd Hvid_d)
      as [Gn [Gs [Gw [Gh [Glw [Gl [Gv [Gu Go]]]]]]]].
    set (te1 := enc_upd te id L2 k2) in *. set (td1 := dec_upd td id vd' L2 (negb k2)) in *.
    assert (Hnv1 : forall i, nv te1 i = nv te i) by (intros i; unfold nv; rewrite Fn; reflexivity).
    assert (Hnu1 : forall i, nu te1 i = nu te i) by (intros i; unfold nu; rewrite Fu; reflexivity).
    apply NoDup_cons_iff in Hnd as [Hnotin Hnd'].
    assert (Hne : forall i, In i ids -> i <> id) by (intros i Hi E; subst i; contradiction).
    (* induction hypothesis on the rest of the walk *)
    destruct (IH te1 td1 L2 the thd (Z.max M the) bs2 te2 rest r1 more Hnd' Fs Gs) as
      [td' [r' [Edec' [HB' [Hn' [Hu' [Hg_e [Hg_d [Hfr Hpost]]]]]]]]].
    + rewrite Gn, Fn. exact Hsh.
    + intros i Hi. destruct (Hpre i ltac:(right; exact Hi)) as [Pv [[Prl [Pru Prv]] [[Pinv Pk] [Pc PM]]]].
      destruct (Fo i (Hne i Hi)) as [Fl' Fk']. destruct (Go i (Hne i Hi)) as [Gl' [Gv' Gu']].
      unfold node_pre, NodeRel, NodeInv. rewrite !Hnv1, !Hnu1, Fl', Fk', Gl', Gv', Gu'.
      split; [apply (vid_shape te te1); [rewrite Fn; reflexivity | exact Pv]|].
      split; [split; [exact Prl | split; [exact Pru | exact Prv]]|].
      split; [split; [exact Pinv | exact Pk]|]. split; [exact Pc | lia].
    + apply (incr_chain_ext te te1); [exact Hnv1 | exact Hnu1|]. apply (incr_chain_tail te id). exact Hch.
    + intros a l E Hua. subst ids. rewrite Hnv1. rewrite Hnu1 in Hua.
      cbn [incr_chain] in Hch. destruct Hch as [Hab _]. destruct (Hab Hua) as [Huid Hle].
      specialize (HL2v Huid). lia.
    + lia.
    + exact Erest.
    + exact HB1.
    + (* assemble *)
      exists td', r'. split.
      { change (id :: ids) with ((lv, idx) :: ids). cbn [tt_dec_nodes].
        change (get2 (tt_low td) lv idx 0) with (nl td id).
        change (get2 (tt_nodes td) lv idx 0) with (nv td id).
        change (get2 (tt_unset td) lv idx false) with (nu td id).
        rewrite <- Hrl, Hru. fold L1. rewrite Edec. cbn [obind].
        change (tt_with td (set2 (tt_nodes td) lv idx vd') (set2 (tt_low td) lv idx L2) (tt_known td)
                        (set2 (tt_unset td) lv idx (negb k2))) with td1.
        exact Edec'. }
      split; [exact HB'|]. split; [rewrite Hn'; exact Fn|]. split; [rewrite Hu'; exact Fu|].
      split.
      { apply (same_geom_trans te te1 te2); [|exact Hg_e]. unfold same_geom.
        split; [exact Fw|]. split; [exact Fh|]. split; [exact Flw|]. split; [rewrite Fn; reflexivity | exact Fs]. }
      split.
      { apply (same_geom_trans td td1 td'); [|exact Hg_d]. unfold same_geom.
        split; [exact Gw|]. split; [exact Gh|]. split; [exact Glw|]. split; [exact Gn | exact Gs]. }
      split.
      { intros i Hi. assert (Hi1 : i <> id) by (intros E; apply Hi; left; symmetry; exact E).
        assert (Hi2 : ~ In i ids) by (intros E; apply Hi; right; exact E).
        destruct (Hfr i Hi2) as [A1 [A2 [A3 [A4 A5]]]]. destruct (Fo i Hi1) as [B1 B2].
        destruct (Go i Hi1) as [C1 [C2 C3]].
        repeat split; congruence. }
      intros i [<-|Hi].
      * (* the node just processed is not touched by the rest of the walk *)
        destruct (Hfr id Hnotin) as [A1 [A2 [A3 [A4 A5]]]].
        unfold node_post, NodeRel, NodeInv.
        assert (Hnv2 : nv te2 id = nv te id) by (unfold nv; rewrite Hn', Fn; reflexivity).
        assert (Hnu2 : nu te2 id = nu te id) by (unfold nu; rewrite Hu', Fu; reflexivity).
        rewrite Hnv2, Hnu2, A1, A2, A3, A4, A5, Fl, Fk, Gl, Gv, Gu.
        split; [split; [reflexivity | split; [reflexivity | exact Hvd']]|].
        split; [split; [exact HL2v | exact Hk2]|]. split; [exact Hk2t | lia].
      * destruct (Hpost i Hi) as [P1 [P2 [P3 P4]]]. unfold node_post.
        split; [exact P1|]. split; [exact P2|]. split; [rewrite <- Hnv1, <- Hnu1; exact P3|].
        lia.
Qed.
